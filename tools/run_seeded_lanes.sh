#!/bin/bash
# Run every seeded change and every harmless refactoring against its property's check (scratch worktrees, VERIF_REPO).
# Properties that share regenerated tables (coq/Gen) must not run at the same time, because an alternate-tree run
# rewrites those tables from its patched worktree: one lane per group, lanes in parallel.
# Nobody else may run checks meanwhile.  Logs: work/lanes/<lane>.log
cd /verif; mkdir -p work/lanes
lane() { name=$1; shift
  ( for p in "$@"; do for d in seeded/$p-* harmless/$p-*; do [ -f $d/patch.diff ] && tools/seeded.py run $d; done; done ) > work/lanes/$name.log 2>&1 & }
lane sm2x509 C01 C02 C03 C09 C10 C13 C17 C18
lane tlssuites C04 C06 C07 C16
lane sm4 C05 C11 C12
lane hs C08 C15
lane free C14 C19 C20
wait
cat work/lanes/*.log | grep -c . ; grep -h "MISSED\|ALARM\|ERROR\|DETECTED (" work/lanes/*.log
