#!/usr/bin/env python3
"""Print the markdown table of seeded changes and their detection results (for DESIGN.md section 11)."""
import json, glob, os
print("| seeded change | what it changes | what it needs to manifest | result of the property's quick check |")
print("|---|---|---|---|")
for d in sorted(glob.glob('/verif/seeded/C*-*')):
    m = json.load(open(d + '/meta.json'))
    r = m.get('check_results', {}).get('quick', {})
    res = ('detected, replay = failing input' if r.get('concrete_input') else
           ('detected, no-failing-input-found' if r.get('detected') else ('MISSED' if r else 'not run')))
    clean = lambda s, n: ' '.join(str(s).split())[:n].replace('|', '/')
    print('| %s | %s | %s | %s |' % (os.path.basename(d), clean(m.get('summary', ''), 170), clean(m.get('needs', ''), 150), res))
