#!/bin/bash
# ingest the round-6 seeded changes of one property (next free index under seeded/): tools/ingest_seed6.sh c07
p=$1; P=$(echo $p | tr a-z A-Z); cd /verif
for i in 1 2; do
  src=/tmp/seed6-$p-out/$i; [ -f $src/patch.diff ] || { echo "missing $src"; continue; }
  n=$(ls -d seeded/$P-* 2>/dev/null | sed "s/.*-//" | sort -n | tail -1); n=$((n+1))
  d=seeded/$P-$n; mkdir -p $d
  cp $src/patch.diff $src/meta.json $d/; cp $src/demo_test.go $d/demo_test.go
  python3 - $d <<'PY'
import json,sys
d=sys.argv[1]; m=json.load(open(d+'/meta.json')); m.setdefault('demo_run','TestSeedDemo'); m["round"]=6
json.dump(m,open(d+'/meta.json','w'),indent=1,ensure_ascii=False)
PY
  echo "$d: $(tools/seeded.py confirm $d 2>&1 | tail -1)"
done
git -C /repo worktree remove --force /tmp/seed6-$p 2>/dev/null; rm -rf /tmp/seed6-$p-out
