#!/usr/bin/env python3
"""Run /repo's test suite with the verif tag OFF and compare with /root/.vp/BASELINE.json stable_pass."""
import json, subprocess, os, sys
env = dict(os.environ, GOFLAGS="-mod=mod", GOPROXY="off", GOSUMDB="off", GOTOOLCHAIN="local")
p = subprocess.run(["go", "test", "-json", "-vet=off", "-count=1", "-timeout", "25m", "./..."], cwd="/repo", env=env,
                   stdout=subprocess.PIPE, stderr=subprocess.STDOUT)
passed = set()
for l in p.stdout.decode("utf-8", "replace").splitlines():
    try:
        e = json.loads(l)
    except Exception:
        continue
    if e.get("Action") == "pass" and e.get("Test"):
        passed.add(e["Package"] + "::" + e["Test"])
base = json.load(open("/root/.vp/BASELINE.json"))["stable_pass"]
missing = [t for t in base if t not in passed]
print("baseline tests passing: %d/%d" % (len(base) - len(missing), len(base)))
for t in missing:
    print("  MISSING", t)
sys.exit(1 if missing else 0)
