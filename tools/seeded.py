#!/usr/bin/env python3
"""Run the checks against the seeded breaking changes kept under /verif/seeded/<id>/.

  tools/seeded.py run <dir> [--tier quick|thorough] [--inplace]
                                                      run the property's check with patch.diff applied: by default on a
                                                      scratch worktree of /repo (VERIF_REPO), with --inplace on /repo
                                                      itself (apply, check, git checkout -- .)
  tools/seeded.py all [--tier ...]                    every directory under /verif/seeded
  tools/seeded.py confirm <dir>                       in a scratch worktree under /tmp: existing tests pass with the
                                                      patch, the demo fails with it and passes without it

The patch is never committed to /repo; the working tree is restored (git checkout -- .) even on errors.
"""
import sys, os, json, subprocess, glob, time, shutil, tempfile

ROOT = "/verif"
REPO = "/repo"
ENV = dict(os.environ, GOFLAGS="-mod=mod", GOPROXY="off", GOSUMDB="off", GOTOOLCHAIN="local")


def sh(cmd, cwd=None, timeout=3600):
    p = subprocess.run(cmd, cwd=cwd, shell=isinstance(cmd, str), env=ENV, stdout=subprocess.PIPE, stderr=subprocess.STDOUT,
                       timeout=timeout)
    return p.returncode, p.stdout.decode("utf-8", "replace")


def tracked_clean():
    rc, out = sh(["git", "status", "--porcelain", "--untracked-files=no"], cwd=REPO)
    return out.strip() == ""


def run(d, tier, inplace=False):
    d = os.path.abspath(d)
    meta = json.load(open(os.path.join(d, "meta.json")))
    pid = meta["property"]
    patch = os.path.join(d, "patch.diff")
    t0 = time.time()
    if inplace:
        # the procedure of the brief: apply to /repo itself, run, undo
        if not tracked_clean():
            print("refusing: /repo has uncommitted changes to tracked files")
            return 2
        rc, out = sh(["git", "apply", "--check", patch], cwd=REPO)
        if rc != 0:
            print("patch does not apply:", out)
            return 2
        try:
            sh(["git", "apply", patch], cwd=REPO)
            rc, out = sh([os.path.join(ROOT, "verif.py"), "check", pid, "--tier", tier], cwd=ROOT)
        finally:
            sh(["git", "checkout", "--", "."], cwd=REPO)
    else:
        # same check against a scratch worktree of /repo's HEAD with the change applied (VERIF_REPO), so that
        # people working against /repo are not disturbed; evidence/ is not touched in this mode
        wt = "/tmp/seedrun-" + os.path.basename(d)
        sh(["git", "worktree", "remove", "--force", wt], cwd=REPO)
        sh(["git", "worktree", "add", "-q", "--detach", wt, "HEAD"], cwd=REPO)
        try:
            rc, out = sh(["git", "apply", patch], cwd=wt)
            if rc != 0:
                print("patch does not apply:", out)
                return 2
            global ENV
            env = dict(ENV, VERIF_REPO=wt)
            p = subprocess.run([os.path.join(ROOT, "verif.py"), "check", pid, "--tier", tier], cwd=ROOT, env=env,
                               stdout=subprocess.PIPE, stderr=subprocess.STDOUT, timeout=7200)
            rc, out = p.returncode, p.stdout.decode("utf-8", "replace")
        finally:
            sh(["git", "worktree", "remove", "--force", wt], cwd=REPO)
            # the run regenerated coq/Gen from the patched worktree: put /repo's tables back
            try:
                sys.path.insert(0, ROOT)
                import verif
                gens = getattr(verif.load_checks()[pid], "GEN", None) or []
                if gens:
                    sh([os.path.join(ROOT, "harness", "bin", "gen")] + list(gens) + ["--repo", REPO, "--out", os.path.join(ROOT, "coq", "Gen")], cwd=ROOT)
            except Exception as e:
                print("warning: could not regenerate coq/Gen from /repo:", e)
    viol = [l for l in out.splitlines() if l.startswith("VIOLATION")]
    detected = rc == 1 and bool(viol)
    concrete = any("no-failing-input-found" not in l for l in viol)
    res = {"tier": tier, "exit": rc, "detected": detected, "concrete_input": concrete and detected,
           "violation_lines": viol[:3], "wall_s": round(time.time() - t0, 1),
           "tail": out.strip().splitlines()[-4:]}
    meta.setdefault("check_results", {})[tier] = res
    json.dump(meta, open(os.path.join(d, "meta.json"), "w"), indent=1, ensure_ascii=False)
    if meta.get("kind") == "harmless":
        # a behaviour-preserving refactoring: the wanted outcome is silence; an alarm that names no failing input
        # is what the brief allows for a broken tie, an alarm WITH a failing input would be a false alarm of the oracle
        word = "QUIET" if rc == 0 else ("ALARM with failing input (FALSE ALARM)" if res["concrete_input"] else
                                         "ALARM no-failing-input-found (tie broken)" if detected else "ERROR rc=%d" % rc)
        print("%s [%s] %s: %s (%.0fs)" % (os.path.basename(d), pid, tier, word, res["wall_s"]))
        return 0 if rc == 0 else 1
    print("%s [%s] %s: %s%s (%.0fs)" % (os.path.basename(d), pid, tier, "DETECTED" if detected else "MISSED",
                                       " with failing input" if res["concrete_input"] else "", res["wall_s"]))
    return 0 if detected else 1


def confirm(d):
    d = os.path.abspath(d)
    meta = json.load(open(os.path.join(d, "meta.json")))
    wt = tempfile.mkdtemp(prefix="seedconfirm-", dir="/tmp")
    os.rmdir(wt)
    sh(["git", "worktree", "add", "-q", "--detach", wt, "HEAD"], cwd=REPO)
    try:
        demo = meta.get("demo_pkg")
        demos = [f for f in os.listdir(d) if f.endswith("_test.go")]
        if not demo or not demos:
            print("meta.json needs demo_pkg (package dir of the demo test) and a *_test.go file")
            return 2
        pk = os.path.join(wt, demo)
        for f in demos:
            shutil.copy(os.path.join(d, f), os.path.join(pk, "zz_seed_" + f))
        run_re = meta.get("demo_run", ".")
        race = ["-race"] if "race" in str(meta.get("demo_flags", "")) else []
        rc0, out0 = sh(["go", "test"] + race + ["-vet=off", "-count=1", "-run", run_re, "./" + demo], cwd=wt)
        rc, out = sh(["git", "apply", os.path.join(d, "patch.diff")], cwd=wt)
        if rc != 0:
            print("patch does not apply:", out)
            return 2
        rc1, out1 = sh(["go", "test"] + race + ["-vet=off", "-count=1", "-run", run_re, "./" + demo], cwd=wt)
        for f in demos:
            os.remove(os.path.join(pk, "zz_seed_" + f))
        rcb, outb = sh("go build ./... && go test -vet=off -count=1 " + meta.get("suite", "./..."), cwd=wt)
        # gmcredentials fails on the unchanged tree already; judge the suite by the packages named in meta['suite']
        ok = rc0 == 0 and rc1 != 0 and (rcb == 0 or meta.get("suite") is None and "FAIL\tgithub.com/tjfoc/gmsm/gmtls/gmcredentials" in outb and outb.count("\nFAIL\t") == 1)
        meta["confirmed"] = {"demo_passes_without": rc0 == 0, "demo_fails_with": rc1 != 0, "suite_rc_with_patch": rcb, "ok": ok}
        json.dump(meta, open(os.path.join(d, "meta.json"), "w"), indent=1, ensure_ascii=False)
        print("%s: demo without patch %s, with patch %s, suite with patch rc=%d -> %s" %
              (os.path.basename(d), "passes" if rc0 == 0 else "FAILS", "fails" if rc1 != 0 else "PASSES", rcb, "CONFIRMED" if ok else "NOT CONFIRMED"))
        if not ok:
            print(out0[-800:], out1[-800:], outb[-1500:])
        return 0 if ok else 1
    finally:
        sh(["git", "worktree", "remove", "--force", wt], cwd=REPO)


def main():
    tier = "quick"
    a = sys.argv[1:]
    if "--tier" in a:
        tier = a[a.index("--tier") + 1]
    inplace = "--inplace" in a
    if a and a[0] == "run":
        return run(a[1], tier, inplace)
    if a and a[0] == "confirm":
        return confirm(a[1])
    if a and a[0] == "all":
        rc = 0
        for d in sorted(glob.glob(os.path.join(ROOT, "seeded", "*"))):
            if os.path.exists(os.path.join(d, "patch.diff")):
                rc |= run(d, tier, inplace)
        return rc
    print(__doc__)
    return 2


if __name__ == "__main__":
    sys.exit(main())
