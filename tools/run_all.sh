#!/bin/bash
# run every claimed quick (or $1=thorough) check on the unchanged tree; print one line per check; exit 1 if any fails
tier=${1:-quick}
cd /verif
rc=0
for c in $(cat checks/ready.txt); do
  out=$(./verif.py check $c --tier $tier 2>&1)
  r=$?
  echo "$out" | grep -E "^(VIOLATION|KNOWN-FINDING)" | cut -c1-160
  echo "$out" | tail -1
  [ $r -ne 0 ] && rc=1
done
exit $rc
