#!/usr/bin/env python3
"""Rebuild DESIGN.md sections 6-11 from docs/asbuilt/*.md, docs/design_parts/*.md and the seeded results.
Sections 0-5 are kept as they are in DESIGN.md (edited by hand)."""
import re, os, subprocess, glob
ROOT = "/verif"
src = open(os.path.join(ROOT, "DESIGN.md")).read()
head = src[:src.index("## 6. Per-property design")]
head = head.rstrip("\n-") + "\n\n" + "-" * 99 + "\n\n"
out = [head]
out.append("## 6. Per-property design, as built\n\n"
           "One entry per property, written by whoever built the check, in a fixed format (`docs/asbuilt/FORMAT.md`):\n"
           "theorems with their status, model and spec scope, the tie to /repo, what is proved / relative / differential,\n"
           "defects found, seeded changes, cost.  The first design of each property (what was planned before any code\n"
           "existed) is in the git history of this file (commit f93a0ea).\n\n")
def shift(text):
    return re.sub(r"^### ", "### ", text, flags=re.M)
for i in range(1, 21):
    p = os.path.join(ROOT, "docs", "asbuilt", "C%02d.md" % i)
    if os.path.exists(p):
        out.append(shift(open(p).read().strip()) + "\n\n" + "-" * 99 + "\n\n")
    else:
        out.append("### C%02d — (as-built entry missing)\n\n" % i)
p = os.path.join(ROOT, "docs", "asbuilt", "SM2Premises.md")
if os.path.exists(p):
    out.append(open(p).read().strip() + "\n\n" + "-" * 99 + "\n\n")
for part in ("07_ledger.md", "08_limits.md", "09_history.md", "10_deviations.md"):
    q = os.path.join(ROOT, "docs", "design_parts", part)
    if os.path.exists(q):
        out.append(open(q).read().strip() + "\n\n" + "-" * 99 + "\n\n")
out.append(open(os.path.join(ROOT, "docs", "design_parts", "11_seeded_head.md")).read().strip() + "\n\n")
out.append(subprocess.run([os.path.join(ROOT, "tools", "seeded_table.py")], stdout=subprocess.PIPE).stdout.decode())
out.append("\n" + "-" * 99 + "\n\n" + open(os.path.join(ROOT, "docs", "design_parts", "12_harmless.md")).read().strip() + "\n\n")
out.append(subprocess.run([os.path.join(ROOT, "tools", "harmless_table.py")], stdout=subprocess.PIPE).stdout.decode())
for extra in ("13_audits.md",):
    q = os.path.join(ROOT, "docs", "design_parts", extra)
    if os.path.exists(q):
        out.append("\n" + "-" * 99 + "\n\n" + open(q).read().strip() + "\n")
open(os.path.join(ROOT, "DESIGN.md"), "w").write("".join(out))
print("DESIGN.md assembled:", sum(len(x) for x in out), "bytes")
