#!/usr/bin/env python3
"""Print the markdown table of the behaviour-preserving refactorings under /verif/harmless and what the checks said."""
import json, glob, os
print("| refactoring | what it rewrites | result of the property's quick check |")
print("|---|---|---|")
for d in sorted(glob.glob('/verif/harmless/C*-*')):
    m = json.load(open(d + '/meta.json'))
    r = m.get('check_results', {}).get('quick', {})
    if not r:
        res = 'not run'
    elif r.get('exit') == 0:
        res = 'quiet (exit 0)'
    elif r.get('concrete_input'):
        res = 'ALARM with a failing input'
    else:
        why = [l.strip(' -') for l in r.get('tail', []) if l.startswith('  - ')]
        res = 'reported, no-failing-input-found: ' + ' '.join(' '.join(why).split())[:140]
    clean = lambda s, n: ' '.join(str(s).split())[:n].replace('|', '/')
    print('| %s | %s | %s |' % (os.path.basename(d), clean(m.get('summary', ''), 230), res))
