#!/bin/bash
# thorough tier of every claimed check on the unchanged tree, 4 at a time (coqchk runs outside the build lock);
# one log per property under work/thorough/, summary at the end; exit 1 if any check fails
cd /verif; mkdir -p work/thorough
cat checks/ready.txt | tr ' ' '\n' | grep . | xargs -P 5 -I{} sh -c './verif.py check {} --tier thorough > work/thorough/{}.log 2>&1; echo "{} exit=$?"' | tee work/thorough/summary.txt
for c in $(cat checks/ready.txt); do tail -1 work/thorough/$c.log; done
! grep -v "exit=0" work/thorough/summary.txt | grep -q .
