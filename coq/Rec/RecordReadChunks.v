(* Proofs about the record-layer model, part 9: Conn.Read is chunking-independent.  Whatever buffer sizes
   (>= 1) the caller passes, the bytes a sequence of Read calls returns are a prefix of the bytes the
   connection delivers record by record ([recv_all]: every accepted application data record, in order), and
   once a Read has reported the permanent error they are all of them: Read (including the look-ahead for a
   waiting alert) never drops, duplicates or reorders a byte. *)
From Coq Require Import List NArith Arith Bool Lia.
From GmsmVerif Require Import Lib.Outcome Rec.RecordSpec Rec.RecordModel Rec.RecordProofs Rec.RecordRoundtrip
  Rec.RecordIntegrity Rec.RecordFragment Rec.RecordExtras.
Import ListNotations.

Section ReadChunks.
  Variable P : prims.
  Variable fuel : nat.

  Definition pend (c : connIn) : list N := match i_input c with Some d => d | None => [] end.
  Notation wi c := (with_input c None).
  (* an endpoint in the error state has no unread data waiting *)
  Definition tidy (c : connIn) : Prop := hc_err (i_hc c) = true -> i_input c = None.

  Lemma wi_id c : i_input c = None -> wi c = c.
  Proof. destruct c. cbn. intros ->. reflexivity. Qed.

  Lemma recv_all_unfold r c :
    recv_all P (S r) fuel c =
      if hc_err (i_hc c) then Ok ([], c)
      else do c1 <- readRecord P fuel c;
           match i_input c1 with
           | Some d => do '(rest, c2) <- recv_all P r fuel (wi c1); Ok (d ++ rest, c2)
           | None => if hc_err (i_hc c1) then Ok ([], c1) else Hang
           end.
  Proof. reflexivity. Qed.

  Lemma recv_all_mono r : forall c x, recv_all P r fuel c = Ok x -> recv_all P (S r) fuel c = Ok x.
  Proof.
    induction r as [|r IH]; intros c x H; [discriminate|].
    rewrite recv_all_unfold in H. rewrite recv_all_unfold.
    destruct (hc_err (i_hc c)); [exact H|].
    destruct (readRecord P fuel c) as [c1| | |]; cbn [obind] in *; try discriminate.
    destruct (i_input c1); [|exact H].
    destruct (recv_all P r fuel (wi c1)) as [[rest c2]| | |] eqn:E; cbn [obind] in H; try discriminate.
    rewrite (IH _ _ E). exact H.
  Qed.

  Lemma recv_all_err r c tot cf : hc_err (i_hc c) = true -> recv_all P r fuel c = Ok (tot, cf) -> tot = [] /\ cf = c.
  Proof.
    destruct r; [discriminate|]. rewrite recv_all_unfold. intros -> [= <- <-]. auto.
  Qed.

  (* readRecord from a clean state: either the error state without data, or a record and no error *)
  Lemma readRecord_outcome f : forall c c', i_input c = None -> hc_err (i_hc c) = false ->
    readRecord P f c = Ok c' ->
    (hc_err (i_hc c') = true /\ i_input c' = None) \/ (hc_err (i_hc c') = false /\ exists d, i_input c' = Some d).
  Proof.
    induction f as [|f IH]; intros c c' Hi He H; cbn [readRecord] in H; [discriminate|].
    destruct (length (i_raw c) <? recordHeaderLen); [injection H as <-; left; cbn; auto|].
    destruct (negb _); [injection H as <-; left; cbn; auto|].
    destruct (maxCiphertext <? _); [injection H as <-; left; cbn; auto|].
    destruct (length (i_raw c) <? recordHeaderLen + _); [injection H as <-; left; cbn; auto|].
    destruct (decrypt P (i_hc c) _) as [[hc' r]| | |] eqn:Ed; cbn [obind] in H; try discriminate.
    destruct (decrypt_inv P _ _ _ _ Ed) as [_ [He' _]].
    destruct r as [data0|]; [|injection H as <-; left; cbn; auto].
    revert H.
    repeat match goal with |- context [if ?x then _ else _] => destruct x end; intros H;
      try (injection H as <-; first [left; cbn; solve [auto] | right; cbn; split; [congruence|eexists; reflexivity]]).
    all: apply IH in H; [exact H|exact Hi|cbn; congruence].
  Qed.

  (* the first step of Read's loop: fetch a record unless one is pending or the connection has failed *)
  Definition fetch (c : connIn) : outcome connIn :=
    match i_input c with
    | None => if hc_err (i_hc c) then Ok c else readRecord P fuel c
    | Some _ => Ok c
    end.

  Lemma fetch_spec c c1 r tot cf :
    tidy c -> fetch c = Ok c1 -> recv_all P r fuel (wi c) = Ok (tot, cf) ->
    exists tot1, recv_all P r fuel (wi c1) = Ok (tot1, cf) /\ pend c ++ tot = pend c1 ++ tot1 /\ tidy c1 /\
                 (hc_err (i_hc c1) = false -> exists d, i_input c1 = Some d).
  Proof.
    intros Ht Hf Hr. unfold fetch in Hf.
    destruct (i_input c) as [d|] eqn:Ei.
    - injection Hf as <-. exists tot. split; [exact Hr|]. split; [reflexivity|]. split; [exact Ht|]. eauto.
    - rewrite (wi_id c Ei) in Hr.
      destruct (hc_err (i_hc c)) eqn:Ee.
      + injection Hf as <-. exists tot. rewrite (wi_id c Ei). split; [exact Hr|]. split; [reflexivity|].
        split; [exact Ht|]. congruence.
      + destruct r as [|r]; [discriminate|]. pose proof Hr as Hr0. rewrite recv_all_unfold, Ee, Hf in Hr. cbn [obind] in Hr.
        destruct (readRecord_outcome _ _ _ Ei Ee Hf) as [[He1 Hi1]|[He1 [d Hi1]]].
        * rewrite Hi1, He1 in Hr. injection Hr as <- <-.
          exists []. rewrite (wi_id c1 Hi1). rewrite recv_all_unfold, He1.
          unfold pend. rewrite Ei, Hi1. split; [reflexivity|]. split; [reflexivity|]. split; [intros _; exact Hi1|congruence].
        * rewrite Hi1 in Hr.
          destruct (recv_all P r fuel (wi c1)) as [[rest c2]| | |] eqn:E; cbn [obind] in Hr; try discriminate.
          injection Hr as <- <-. exists rest. split; [apply recv_all_mono; exact E|].
          unfold pend. rewrite Ei, Hi1. split; [reflexivity|]. split; [unfold tidy; congruence|eauto].
  Qed.

  Lemma conn_Read_loop_unfold e c L :
    conn_Read_loop P e fuel c L =
      do c1 <- fetch c;
      if hc_err (i_hc c1) then Ok (c1, [], true)
      else match i_input c1 with
           | None => Ok (c1, [], true)
           | Some d =>
             let out := firstn L d in
             let rest := skipn L d in
             let c2 := with_input c1 (match rest with [] => None | _ => Some rest end) in
             match out with
             | [] => match e with O => Ok (c2, [], true) | S e' => conn_Read_loop P e' fuel c2 L end
             | _ => match i_input c2, i_raw c2 with
                    | None, t :: _ =>
                      if (t =? recordTypeAlert)%N then do c3 <- readRecord P fuel c2; Ok (c3, out, hc_err (i_hc c3))
                      else Ok (c2, out, false)
                    | _, _ => Ok (c2, out, false)
                    end
             end
           end.
  Proof. destruct e; reflexivity. Qed.

  (* one Read: what it returns, followed by what is still to come, is what was to come before *)
  Lemma conn_Read_loop_spec e : forall c L c' o er r tot cf,
    1 <= L -> tidy c ->
    conn_Read_loop P e fuel c L = Ok (c', o, er) -> recv_all P r fuel (wi c) = Ok (tot, cf) ->
    exists tot', recv_all P r fuel (wi c') = Ok (tot', cf) /\ pend c ++ tot = o ++ pend c' ++ tot' /\ tidy c'.
  Proof.
    induction e as [|e IH]; intros c L c' o er r tot cf HL Ht H Hr; rewrite conn_Read_loop_unfold in H;
      (destruct (fetch c) as [c1| | |] eqn:Ef; cbn [obind] in H; try discriminate;
       destruct (fetch_spec _ _ _ _ _ Ht Ef Hr) as [tot1 [Hr1 [Heq [Ht1 Hsome]]]];
       destruct (hc_err (i_hc c1)) eqn:Ee1;
       [injection H as <- <- _; exists tot1; split; [exact Hr1|]; split; [exact Heq|exact Ht1]|];
       destruct (Hsome eq_refl) as [d Hi1]; rewrite Hi1 in H; cbv zeta in H;
       set (c2 := with_input c1 (match skipn L d with [] => None | _ :: _ => Some (skipn L d) end)) in *;
       assert (Hwi : wi c2 = wi c1) by reflexivity;
       assert (Hp2 : pend c1 = firstn L d ++ pend c2)
         by (unfold pend, c2; rewrite Hi1; cbn [with_input i_input];
             rewrite <- (firstn_skipn L d) at 1; destruct (skipn L d); [rewrite app_nil_r|]; reflexivity);
       assert (Ht2 : tidy c2) by (unfold tidy, c2; cbn [with_input i_hc]; congruence);
       destruct (firstn L d) as [|x xs] eqn:Eo).
    - (* empty record, no retries left: io.ErrNoProgress *)
      injection H as <- <- _. exists tot1. rewrite Hwi. split; [exact Hr1|]. split; [|exact Ht2].
      rewrite Heq, Hp2. reflexivity.
    - (* data handed out, possibly followed by the look-ahead *)
      assert (Hbase : exists tot', recv_all P r fuel (wi c2) = Ok (tot', cf) /\
                                   pend c ++ tot = (x :: xs) ++ pend c2 ++ tot' /\ tidy c2).
      { exists tot1. rewrite Hwi. split; [exact Hr1|]. split; [|exact Ht2]. rewrite Heq, Hp2, <- app_assoc. reflexivity. }
      destruct (i_input c2) eqn:Ei2; [injection H as <- <- _; exact Hbase|].
      destruct (i_raw c2) as [|t rr] eqn:Eraw; [injection H as <- <- _; exact Hbase|].
      destruct (t =? recordTypeAlert)%N; [|injection H as <- <- _; exact Hbase].
      destruct (readRecord P fuel c2) as [c3| | |] eqn:Er3; cbn [obind] in H; try discriminate.
      injection H as <- <- _.
      assert (Hf2 : fetch c2 = Ok c3) by (unfold fetch; rewrite Ei2; unfold c2; cbn [with_input i_hc]; rewrite Ee1; exact Er3).
      destruct Hbase as [tot2 [Hr2 [Heq2 _]]].
      destruct (fetch_spec _ _ _ _ _ Ht2 Hf2 Hr2) as [tot3 [Hr3 [Heq3 [Ht3 _]]]].
      exists tot3. split; [exact Hr3|]. split; [|exact Ht3]. rewrite Heq2, Heq3. reflexivity.
    - (* empty record, retry *)
      destruct (IH c2 L c' o er r tot1 cf HL Ht2 H ltac:(rewrite Hwi; exact Hr1)) as [tot' [Hr' [Heq' Ht']]].
      exists tot'. split; [exact Hr'|]. split; [|exact Ht']. rewrite Heq, Hp2. cbn [app]. exact Heq'.
    - (* as in the base case *)
      assert (Hbase : exists tot', recv_all P r fuel (wi c2) = Ok (tot', cf) /\
                                   pend c ++ tot = (x :: xs) ++ pend c2 ++ tot' /\ tidy c2).
      { exists tot1. rewrite Hwi. split; [exact Hr1|]. split; [|exact Ht2]. rewrite Heq, Hp2, <- app_assoc. reflexivity. }
      destruct (i_input c2) eqn:Ei2; [injection H as <- <- _; exact Hbase|].
      destruct (i_raw c2) as [|t rr] eqn:Eraw; [injection H as <- <- _; exact Hbase|].
      destruct (t =? recordTypeAlert)%N; [|injection H as <- <- _; exact Hbase].
      destruct (readRecord P fuel c2) as [c3| | |] eqn:Er3; cbn [obind] in H; try discriminate.
      injection H as <- <- _.
      assert (Hf2 : fetch c2 = Ok c3) by (unfold fetch; rewrite Ei2; unfold c2; cbn [with_input i_hc]; rewrite Ee1; exact Er3).
      destruct Hbase as [tot2 [Hr2 [Heq2 _]]].
      destruct (fetch_spec _ _ _ _ _ Ht2 Hf2 Hr2) as [tot3 [Hr3 [Heq3 [Ht3 _]]]].
      exists tot3. split; [exact Hr3|]. split; [|exact Ht3]. rewrite Heq2, Heq3. reflexivity.
  Qed.

  (* a sequence of Reads *)
  Lemma read_calls_spec : forall bufs c out err c' r tot cf,
    Forall (fun L => 1 <= L) bufs -> tidy c ->
    read_calls P fuel c bufs = Ok (out, err, c') -> recv_all P r fuel (wi c) = Ok (tot, cf) ->
    exists tot', recv_all P r fuel (wi c') = Ok (tot', cf) /\ pend c ++ tot = out ++ pend c' ++ tot' /\ tidy c'.
  Proof.
    induction bufs as [|L rest IH]; intros c out err c' r tot cf HF Ht H Hr; cbn [read_calls] in H.
    - injection H as <- _ <-. exists tot. auto.
    - inversion HF as [|? ? HL HFr]; subst.
      destruct (conn_Read P fuel c L) as [[[c1 o] e]| | |] eqn:E1; cbn [obind] in H; try discriminate.
      unfold conn_Read in E1. destruct (Nat.eqb_spec L 0) as [|_]; [lia|].
      destruct (conn_Read_loop_spec _ _ _ _ _ _ _ _ _ HL Ht E1 Hr) as [tot1 [Hr1 [Heq1 Ht1]]].
      destruct e.
      + injection H as <- _ <-. exists tot1. auto.
      + destruct (read_calls P fuel c1 rest) as [[[o' e'] c2]| | |] eqn:E2; cbn [obind] in H; try discriminate.
        injection H as <- _ <-.
        destruct (IH _ _ _ _ _ _ _ HFr Ht1 E2 Hr1) as [tot2 [Hr2 [Heq2 Ht2]]].
        exists tot2. split; [exact Hr2|]. split; [|exact Ht2]. rewrite Heq1, Heq2, <- !app_assoc. reflexivity.
  Qed.

  Theorem read_calls_chunking bufs c out err c' r tot cf :
    Forall (fun L => 1 <= L) bufs -> i_input c = None ->
    read_calls P fuel c bufs = Ok (out, err, c') -> recv_all P r fuel c = Ok (tot, cf) ->
    is_prefix out tot /\ (hc_err (i_hc c') = true -> out = tot).
  Proof.
    intros HF Hi H Hr.
    assert (Ht : tidy c) by (intros _; exact Hi).
    rewrite <- (wi_id c Hi) in Hr.
    destruct (read_calls_spec _ _ _ _ _ _ _ _ HF Ht H Hr) as [tot' [Hr' [Heq Ht']]].
    unfold pend in Heq at 1. rewrite Hi in Heq. cbn [app] in Heq.
    split; [exists (pend c' ++ tot'); exact Heq|].
    intros He. unfold pend in Heq. rewrite (Ht' He) in Heq.
    assert (He' : hc_err (i_hc (wi c')) = true) by exact He.
    destruct (recv_all_err _ _ _ _ He' Hr') as [E _]. subst tot'.
    rewrite Heq. cbn [app]. rewrite app_nil_r. reflexivity.
  Qed.
End ReadChunks.
