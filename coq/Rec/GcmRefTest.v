(* Test of the GCM transcription Rec/GcmRef.v with SM4 as block cipher: RFC 8998 Appendix A.1
   (AEAD_SM4_GCM).  The vector constants are those of SM4/GCMSpec.v (another family's specification,
   imported read-only); the function under test is this family's own [gcm_seal] / [gcm_open]. *)
From Coq Require Import List NArith.
From GmsmVerif Require Import SM4.SM4Spec SM4.GCMSpec Rec.GcmRef.
Import ListNotations.

Example gcm_ref_rfc8998 :
  GcmRef.gcm_seal (sm4_encrypt_block A1_key) rfc8998_iv rfc8998_aad rfc8998_pt = rfc8998_ct ++ rfc8998_tag /\
  GcmRef.gcm_open (sm4_encrypt_block A1_key) rfc8998_iv rfc8998_aad (rfc8998_ct ++ rfc8998_tag) = Some rfc8998_pt /\
  GcmRef.gcm_open (sm4_encrypt_block A1_key) rfc8998_iv rfc8998_aad (rfc8998_ct ++ 0x82%N :: tl rfc8998_tag) = None.
Proof. vm_compute. repeat split; reflexivity. Qed.
