(* Model of the record layer of /repo/gmtls/conn.go (halfConn, Conn.readRecord, writeRecordLocked,
   Read, Write) with the MAC / AEAD wrappers of cipher_suites.go and gm_support.go, function by
   function.  No proofs in this file.  Bytes are N; lengths are nat.

   Scope: protocol version VersionGMSSL (0x0101) and the two cipher shapes of the GMSSL suites:
     cbcMode + macFunction  (GMTLS_ECC_SM4_CBC_SM3: cipherSM4 / macSM3 = tls10MAC{hmac(sm3)})
     aead                   (GMTLS_ECC_SM4_GCM_SM3: aeadSM4GCM = fixedNonceAEAD{4-byte prefix, GCM})
   The primitives (block cipher, MAC function, AEAD) are fields of a record [prims], so the same
   model runs with SM4 / HMAC-SM3 / GCM in the extracted runner and with abstract primitives in the
   proofs.  A "key" is whatever the primitive takes (the runner passes expanded round keys).

   Go objects:
     halfConn                 -> [halfConn]  (err, version, cipher, mac, seq)
     block b (b.data)         -> a byte list
     Conn (sending side)      -> [connOut]   (out, vers, bytesSent, packetsSent, config.rand(), ...)
     Conn (receiving side)    -> [connIn]    (in, vers, rawInput + the rest of the inbound stream, input, ...)
   Not modelled: SSL 3.0 / stream ciphers, ChangeCipherSpec, renegotiation (Config.Renegotiation =
   RenegotiateNever), temporary network errors, write errors of the underlying connection, locks. *)
From Coq Require Import List NArith Arith Bool.
From GmsmVerif Require Import Lib.Outcome.
Import ListNotations.

Notation byte := N (only parsing).

(* ---------- constants (common.go, gm_support.go, conn.go) ------------------------------------------ *)
Definition recordHeaderLen : nat := 5.
Definition maxPlaintext : nat := 16 * 1024.
Definition maxCiphertext : nat := 16 * 1024 + 2048.
Definition maxWarnAlertCount : nat := 5.
Definition VersionTLS10 : N := 0x0301.
Definition VersionTLS11 : N := 0x0302.
Definition VersionGMSSL : N := 0x0101.
Definition recordTypeChangeCipherSpec : byte := 20%N.
Definition recordTypeAlert : byte := 21%N.
Definition recordTypeHandshake : byte := 22%N.
Definition recordTypeApplicationData : byte := 23%N.
Definition alertLevelWarning : byte := 1%N.
Definition alertLevelError : byte := 2%N.
Definition alertCloseNotify : byte := 0%N.
Definition alertUnexpectedMessage : byte := 10%N.
Definition alertBadRecordMAC : byte := 20%N.
Definition alertRecordOverflow : byte := 22%N.
Definition alertProtocolVersion : byte := 70%N.
Definition alertNoRenegotiation : byte := 100%N.
Definition tcpMSSEstimate : nat := 1208.
Definition recordSizeBoostThreshold : N := (128 * 1024)%N.

(* ---------- primitives ------------------------------------------------------------------------------ *)
Record prims := mkPrims {
  p_bs : nat;                                                   (* cbcMode.BlockSize() *)
  p_enc : list byte -> list byte -> list byte;                  (* key -> block -> block *)
  p_dec : list byte -> list byte -> list byte;
  p_macSize : nat;                                              (* macFunction.Size() *)
  p_mac : list byte -> list byte -> list byte;                  (* key -> message -> tag *)
  p_overhead : nat;                                             (* cipher.AEAD.Overhead() *)
  p_seal : list byte -> list byte -> list byte -> list byte -> list byte;            (* key nonce ad plaintext *)
  p_open : list byte -> list byte -> list byte -> list byte -> option (list byte) }. (* key nonce ad ciphertext *)

Inductive cipher_state :=
| CipherNone                                          (* hc.cipher == nil *)
| CipherAEAD (key : list byte) (fixedNonce : list byte) (* fixedNonceAEAD: nonce[0:4], aead *)
| CipherCBC (key : list byte) (iv : list byte).         (* cbcMode: key, current IV *)

Record halfConn := mkHC {
  hc_err : bool;                     (* hc.err != nil: the first permanent error *)
  hc_version : N;
  hc_cipher : cipher_state;
  hc_mac : option (list byte);       (* hc.mac: None = nil, Some k = tls10MAC keyed with k *)
  hc_seq : list byte }.              (* [8]byte *)

Definition set_seq (hc : halfConn) (s : list byte) : halfConn :=
  mkHC (hc_err hc) (hc_version hc) (hc_cipher hc) (hc_mac hc) s.
Definition set_cipher (hc : halfConn) (c : cipher_state) : halfConn :=
  mkHC (hc_err hc) (hc_version hc) c (hc_mac hc) (hc_seq hc).
(* func (hc *halfConn) setErrorLocked(err error) error, err != nil *)
Definition setErrorLocked (hc : halfConn) : halfConn :=
  mkHC true (hc_version hc) (hc_cipher hc) (hc_mac hc) (hc_seq hc).

(* ---------- small helpers ---------------------------------------------------------------------------- *)
Fixpoint set_nth (i : nat) (v : byte) (l : list byte) : list byte :=
  match l, i with
  | [], _ => []
  | _ :: t, O => v :: t
  | x :: t, S i' => x :: set_nth i' v t
  end.

Fixpoint xor_bytes (a b : list byte) : list byte :=
  match a, b with
  | x :: a', y :: b' => N.lxor x y :: xor_bytes a' b'
  | _, _ => []
  end.

(* subtle.ConstantTimeCompare(a, b) == 1 *)
Fixpoint bytes_eqb (a b : list byte) : bool :=
  match a, b with
  | [], [] => true
  | x :: a', y :: b' => N.eqb x y && bytes_eqb a' b'
  | _, _ => false
  end.

(* byte(n >> 8), byte(n) of a Go int n >= -65536 given as n + 65536 *)
Definition len_bytes_biased (n : N) : list byte := [(n / 256) mod 256; n mod 256]%N.
Definition len_bytes (n : nat) : list byte := len_bytes_biased (N.of_nat n).

(* b.data[3] = byte(n >> 8); b.data[4] = byte(n) *)
Definition put_len (hdr : list byte) (n : nat) : list byte := firstn 3 hdr ++ len_bytes n.

(* ---------- func (hc *halfConn) incSeq() -------------------------------------------------------------
   for i := 7; i >= 0; i-- { hc.seq[i]++; if hc.seq[i] != 0 { return } };  panic(...) *)
Fixpoint incSeq_loop (i : nat) (seq : list byte) : outcome (list byte) :=
  let v := ((nth i seq 0 + 1) mod 256)%N in
  let seq' := set_nth i v seq in
  if negb (N.eqb v 0) then Ok seq'
  else match i with
       | O => Panic
       | S i' => incSeq_loop i' seq'
       end.

Definition incSeq (hc : halfConn) : outcome halfConn :=
  do s <- incSeq_loop 7 (hc_seq hc); Ok (set_seq hc s).

(* ---------- func extractPadding(payload []byte) (toRemove int, good byte) ------------------------------
   uint is 64 bits wide.  [uint_sub a b] is a - b on uint, [not_uint] is ^t,
   [sar31_byte x] is byte(int32(x) >> 31): 255 when bit 31 of x is set, else 0. *)
Definition two64 : N := (2 ^ 64)%N.
Definition uint_sub (a b : N) : N := ((a + two64 - b) mod two64)%N.
Definition not_uint (t : N) : N := N.lxor t (N.ones 64).
Definition sar31_byte (x : N) : byte := if N.testbit x 31 then 255%N else 0%N.

(* the loop  for i := 0; i < toCheck; i++ { ... good &^= mask&paddingLen ^ mask&b }  ([n] iterations left) *)
Fixpoint extractPadding_loop (n i : nat) (payload : list byte) (paddingLen good : byte) : byte :=
  match n with
  | O => good
  | S n' =>
    let t := uint_sub paddingLen (N.of_nat i) in
    let mask := sar31_byte (not_uint t) in
    let b := nth (length payload - 1 - i) payload 0%N in
    extractPadding_loop n' (S i) payload paddingLen
      (N.ldiff good (N.lxor (N.land mask paddingLen) (N.land mask b)))
  end.

Definition extractPadding (payload : list byte) : nat * byte :=
  if length payload <? 1 then (0, 0%N)
  else
    let paddingLen := nth (length payload - 1) payload 0%N in
    let t := uint_sub (N.of_nat (length payload - 1)) paddingLen in
    let good := sar31_byte (not_uint t) in
    let toCheck := if length payload <? 256 then length payload else 256 in
    let good := extractPadding_loop toCheck 0 payload paddingLen good in
    let good := N.land good ((good * 16) mod 256)%N in       (* good &= good << 4 *)
    let good := N.land good ((good * 4) mod 256)%N in        (* good &= good << 2 *)
    let good := N.land good ((good * 2) mod 256)%N in        (* good &= good << 1 *)
    let good := if N.testbit good 7 then 255%N else 0%N in   (* uint8(int8(good) >> 7) *)
    (N.to_nat paddingLen + 1, good).

(* func roundUp(a, b int) int   (b > 0) *)
Definition roundUp (a b : nat) : nat := a + (b - a mod b) mod b.

(* func padToBlockSize(payload []byte, blockSize int) (prefix, finalBlock []byte)   (blockSize > 0) *)
Definition padToBlockSize (payload : list byte) (blockSize : nat) : list byte * list byte :=
  let overrun := length payload mod blockSize in
  let paddingLen := blockSize - overrun in
  let prefix := firstn (length payload - overrun) payload in
  let finalBlock := skipn (length payload - overrun) payload
                    ++ repeat (N.of_nat (paddingLen - 1) mod 256)%N (blockSize - overrun) in
  (prefix, finalBlock).

Section WithPrims.
  Variable P : prims.

  (* ---------- crypto/cipher CBC: CryptBlocks of an encrypter / decrypter ------------------------------
     result: output bytes and the IV left in the mode object; panics on ragged input *)
  Fixpoint cbc_enc_go (fuel : nat) (key iv src : list byte) : list byte * list byte :=
    match fuel with
    | O => ([], iv)
    | S fuel' =>
      match src with
      | [] => ([], iv)
      | _ =>
        let c := p_enc P key (xor_bytes (firstn (p_bs P) src) iv) in
        let '(rest, iv') := cbc_enc_go fuel' key c (skipn (p_bs P) src) in
        (c ++ rest, iv')
      end
    end.
  Definition cbc_encrypt_blocks (key iv src : list byte) : outcome (list byte * list byte) :=
    if length src mod p_bs P =? 0 then Ok (cbc_enc_go (length src) key iv src) else Panic.

  Fixpoint cbc_dec_go (fuel : nat) (key iv src : list byte) : list byte * list byte :=
    match fuel with
    | O => ([], iv)
    | S fuel' =>
      match src with
      | [] => ([], iv)
      | _ =>
        let c := firstn (p_bs P) src in
        let p := xor_bytes (p_dec P key c) iv in
        let '(rest, iv') := cbc_dec_go fuel' key c (skipn (p_bs P) src) in
        (p ++ rest, iv')
      end
    end.
  Definition cbc_decrypt_blocks (key iv src : list byte) : outcome (list byte * list byte) :=
    if length src mod p_bs P =? 0 then Ok (cbc_dec_go (length src) key iv src) else Panic.

  (* func (s tls10MAC) MAC(digestBuf, seq, header, data, extra []byte) []byte: HMAC over seq, header, data *)
  Definition tls10MAC (key seq header data : list byte) : list byte :=
    p_mac P key (seq ++ header ++ data).

  (* fixedNonceAEAD.Seal / Open: copy(f.nonce[4:], nonce); nonce is 8 bytes at every call site *)
  Definition fixedNonce (fixed nonce : list byte) : list byte := fixed ++ firstn 8 nonce.

  (* hc.version >= VersionTLS11 || hc.version == VersionGMSSL *)
  Definition explicit_iv_version (v : N) : bool := (VersionTLS11 <=? v)%N || (v =? VersionGMSSL)%N.

  (* ---------- func (hc *halfConn) encrypt(b *block, explicitIVLen int) (bool, alert) -------------------
     [data] is b.data on entry (header, explicit IV / nonce, fragment); result: b.data on exit *)
  Definition encrypt (hc : halfConn) (data : list byte) (explicitIVLen : nat) : outcome (halfConn * list byte) :=
    if length data <? recordHeaderLen + explicitIVLen then Panic     (* slice bounds out of range *)
    else
      (* mac *)
      let data1 :=
        match hc_mac hc with
        | Some mk => data ++ tls10MAC mk (hc_seq hc) (firstn recordHeaderLen data)
                                      (skipn (recordHeaderLen + explicitIVLen) data)
        | None => data
        end in
      (* encrypt *)
      do '(cs, data2) <-
        match hc_cipher hc with
        | CipherNone => Ok (CipherNone, data1)
        | CipherAEAD key fixed =>
          let payloadLen := length data1 - recordHeaderLen - explicitIVLen in
          let nonce := firstn explicitIVLen (skipn recordHeaderLen data1) in
          let nonce := match nonce with [] => hc_seq hc | _ => nonce end in
          let payload := skipn (recordHeaderLen + explicitIVLen) data1 in
          let ad := hc_seq hc ++ firstn 3 data1 ++ len_bytes payloadLen in
          Ok (CipherAEAD key fixed,
              firstn (recordHeaderLen + explicitIVLen) data1 ++ p_seal P key (fixedNonce fixed nonce) ad payload)
        | CipherCBC key iv =>
          let payload := skipn recordHeaderLen data1 in
          if (0 <? explicitIVLen) && negb (explicitIVLen =? p_bs P) then Panic   (* SetIV: incorrect length IV *)
          else
            let iv1 := if 0 <? explicitIVLen then firstn explicitIVLen payload else iv in
            let payload1 := skipn explicitIVLen payload in
            let '(prefix, finalBlock) := padToBlockSize payload1 (p_bs P) in
            do '(c1, iv2) <- cbc_encrypt_blocks key iv1 prefix;
            do '(c2, iv3) <- cbc_encrypt_blocks key iv2 finalBlock;
            Ok (CipherCBC key iv3, firstn (recordHeaderLen + explicitIVLen) data1 ++ c1 ++ c2)
        end;
      (* update length to include MAC and any block padding needed *)
      let n := length data2 - recordHeaderLen in
      let data3 := put_len (firstn recordHeaderLen data2) n ++ skipn recordHeaderLen data2 in
      do hc' <- incSeq (set_cipher hc cs);
      Ok (hc', data3).

  (* ---------- func (hc *halfConn) decrypt(b *block) (ok bool, prefixLen int, alertValue alert) ----------
     [data] is b.data (the whole record).  Result: the half connection afterwards and, when ok,
     b.data[prefixLen:] (the plaintext fragment); None = (false, 0, alertBadRecordMAC).
     n := len(payload) - macSize - paddingLen clamped at 0 is truncated subtraction on nat. *)
  Definition decrypt (hc : halfConn) (data : list byte) : outcome (halfConn * option (list byte)) :=
    if length data <? recordHeaderLen then Panic
    else
      let hdr := firstn recordHeaderLen data in
      let payload := skipn recordHeaderLen data in
      let macSize := match hc_mac hc with Some _ => p_macSize P | None => 0 end in
      (* decrypt: None = bad record, Some (cipher state, payload, paddingLen, paddingGood) *)
      let step1 : outcome (option (cipher_state * list byte * nat * byte)) :=
        match hc_cipher hc with
        | CipherNone => Ok (Some (CipherNone, payload, 0, 255%N))
        | CipherAEAD key fixed =>
          let explicitIVLen := 8 in
          if length payload <? explicitIVLen then Ok None
          else
            let nonce := firstn explicitIVLen payload in
            let payload := skipn explicitIVLen payload in
            let n := (N.of_nat (length payload) + 65536 - N.of_nat (p_overhead P))%N in
            let ad := hc_seq hc ++ firstn 3 data ++ len_bytes_biased n in
            match p_open P key (fixedNonce fixed nonce) ad payload with
            | None => Ok None
            | Some pt => Ok (Some (CipherAEAD key fixed, pt, 0, 255%N))
            end
        | CipherCBC key iv =>
          let blockSize := p_bs P in
          let explicitIVLen := if explicit_iv_version (hc_version hc) then blockSize else 0 in
          if negb (length payload mod blockSize =? 0)
             || (length payload <? roundUp (explicitIVLen + macSize + 1) blockSize)
          then Ok None
          else
            let iv1 := if 0 <? explicitIVLen then firstn explicitIVLen payload else iv in
            let payload := skipn explicitIVLen payload in
            do '(pt, iv2) <- cbc_decrypt_blocks key iv1 payload;
            let '(paddingLen, paddingGood) := extractPadding pt in
            Ok (Some (CipherCBC key iv2, pt, paddingLen, paddingGood))
        end in
      do r <- step1;
      match r with
      | None => Ok (hc, None)
      | Some (cs, payload, paddingLen, paddingGood) =>
        let hc1 := set_cipher hc cs in
        (* check, strip mac *)
        let checked : option (list byte) :=
          match hc_mac hc with
          | Some mk =>
            if length payload <? macSize then None
            else
              let n := length payload - macSize - paddingLen in
              let hdr' := put_len hdr n in
              let remoteMAC := firstn macSize (skipn n payload) in
              let localMAC := tls10MAC mk (hc_seq hc) hdr' (firstn n payload) in
              if bytes_eqb localMAC remoteMAC && (paddingGood =? 255)%N then Some (firstn n payload) else None
          | None => Some payload
          end in
        match checked with
        | None => Ok (hc1, None)
        | Some frag => do hc2 <- incSeq hc1; Ok (hc2, Some frag)
        end
      end.

  (* ================================================================================================
     sending side of Conn *)
  Record connOut := mkOut {
    o_hc : halfConn;                 (* c.out *)
    o_vers : N;                      (* c.vers *)
    o_bytesSent : N;
    o_packetsSent : N;
    o_dynDisabled : bool;            (* c.config.DynamicRecordSizingDisabled *)
    o_rand : list byte;              (* what c.config.rand() will return, in order *)
    o_closeNotifySent : bool }.

  Definition out_with (c : connOut) (hc : halfConn) (bytesSent packetsSent : N) (rand : list byte) : connOut :=
    mkOut hc (o_vers c) bytesSent packetsSent (o_dynDisabled c) rand (o_closeNotifySent c).

  (* func (c *Conn) maxPayloadSizeForWrite(typ recordType, explicitIVLen int) int; also returns packetsSent *)
  Definition maxPayloadSizeForWrite (c : connOut) (typ : byte) (explicitIVLen : nat) : nat * N :=
    if o_dynDisabled c || negb (typ =? recordTypeApplicationData)%N then (maxPlaintext, o_packetsSent c)
    else if (recordSizeBoostThreshold <=? o_bytesSent c)%N then (maxPlaintext, o_packetsSent c)
    else
      let macSize := match hc_mac (o_hc c) with Some _ => p_macSize P | None => 0 end in
      let payloadBytes := tcpMSSEstimate - recordHeaderLen - explicitIVLen in
      let payloadBytes :=
        match hc_cipher (o_hc c) with
        | CipherNone => payloadBytes
        | CipherAEAD _ _ => payloadBytes - p_overhead P
        | CipherCBC _ _ =>
          (* (payloadBytes & ^(blockSize - 1)) - 1 - macSize *)
          N.to_nat (N.ldiff (N.of_nat payloadBytes) (N.of_nat (p_bs P - 1))) - 1 - macSize
        end in
      let pkt := o_packetsSent c in
      if (1000 <? pkt)%N then (maxPlaintext, (pkt + 1)%N)
      else
        let n := payloadBytes * N.to_nat (pkt + 1) in
        (if maxPlaintext <? n then maxPlaintext else n, (pkt + 1)%N).

  (* one pass of the loop of writeRecordLocked: Some (connection, record written, m) or None when
     io.ReadFull(c.config.rand(), explicitIV) fails *)
  Definition writeRecord_step (c : connOut) (typ : byte) (data : list byte)
    : outcome (option (connOut * list byte * nat)) :=
    let hc := o_hc c in
    let cbcIV := match hc_cipher hc with
                 | CipherCBC _ _ => if explicit_iv_version (hc_version hc) then p_bs P else 0
                 | _ => 0 end in
    let '(explicitIVLen, explicitIVIsSeq) :=
      if 0 <? cbcIV then (cbcIV, false)
      else match hc_cipher hc with CipherAEAD _ _ => (8, true) | _ => (0, false) end in
    let '(maxPayload, pkts) := maxPayloadSizeForWrite c typ explicitIVLen in
    let m := if maxPayload <? length data then maxPayload else length data in
    let vers := if (o_vers c =? 0)%N then VersionTLS10 else o_vers c in
    let hdr := [typ; (vers / 256) mod 256; vers mod 256]%N ++ len_bytes m in
    let iv_rand : option (list byte * list byte) :=
      if explicitIVIsSeq then Some (firstn explicitIVLen (hc_seq hc), o_rand c)
      else if length (o_rand c) <? explicitIVLen then None
      else Some (firstn explicitIVLen (o_rand c), skipn explicitIVLen (o_rand c)) in
    match iv_rand with
    | None => Ok None
    | Some (explicitIV, rand') =>
      do '(hc', rec) <- encrypt hc (hdr ++ explicitIV ++ firstn m data) explicitIVLen;
      Ok (Some (out_with c hc' (o_bytesSent c + N.of_nat (length rec))%N pkts rand', rec, m))
    end.

  (* func (c *Conn) writeRecordLocked(typ recordType, data []byte) (int, error), typ != ChangeCipherSpec.
     Result: connection, records written to c.conn (in order), n, err != nil *)
  Fixpoint writeRecordLocked (fuel : nat) (c : connOut) (typ : byte) (data : list byte)
    : outcome (connOut * list (list byte) * nat * bool) :=
    match data with
    | [] => Ok (c, [], 0, false)
    | _ =>
      match fuel with
      | O => Hang
      | S fuel' =>
        do r <- writeRecord_step c typ data;
        match r with
        | None => Ok (c, [], 0, true)
        | Some (c1, rec, m) =>
          do '(c2, recs, n, err) <- writeRecordLocked fuel' c1 typ (skipn m data);
          Ok (c2, rec :: recs, m + n, err)
        end
      end
    end.

  Definition out_set_err (c : connOut) (err : bool) : connOut :=
    if err then mkOut (setErrorLocked (o_hc c)) (o_vers c) (o_bytesSent c) (o_packetsSent c) (o_dynDisabled c)
                      (o_rand c) (o_closeNotifySent c)
    else c.

  Definition is_block_mode (cs : cipher_state) : bool :=
    match cs with CipherCBC _ _ => true | _ => false end.

  (* func (c *Conn) Write(b []byte) (int, error) after the handshake.
     Result: connection, records written, n, err != nil *)
  Definition conn_Write (fuel : nat) (c : connOut) (b : list byte)
    : outcome (connOut * list (list byte) * nat * bool) :=
    if hc_err (o_hc c) then Ok (c, [], 0, true)
    else if o_closeNotifySent c then Ok (c, [], 0, true)                  (* errShutdown *)
    else
      if (1 <? length b) && (o_vers c <=? VersionTLS10)%N && is_block_mode (hc_cipher (o_hc c)) then
        (* 1/n-1 record splitting *)
        do '(c1, recs1, n1, err1) <- writeRecordLocked fuel c recordTypeApplicationData (firstn 1 b);
        if (err1 : bool) then Ok (out_set_err c1 true, recs1, n1, true)
        else
          do '(c2, recs2, n2, err2) <- writeRecordLocked fuel c1 recordTypeApplicationData (skipn 1 b);
          Ok (out_set_err c2 err2, recs1 ++ recs2, n2 + 1, err2)
      else
        do '(c2, recs2, n2, err2) <- writeRecordLocked fuel c recordTypeApplicationData b;
        Ok (out_set_err c2 err2, recs2, n2, err2).

  (* the application calling Write with b1, b2, ...: all records written, in order; stops at the first
     error.  Result: connection, records, err != nil *)
  Fixpoint write_calls (fuel : nat) (c : connOut) (writes : list (list byte))
    : outcome (connOut * list (list byte) * bool) :=
    match writes with
    | [] => Ok (c, [], false)
    | b :: rest =>
      do '(c1, recs, n, err) <- conn_Write fuel c b;
      if (err : bool) then Ok (c1, recs, true)
      else do '(c2, recs', err') <- write_calls fuel c1 rest; Ok (c2, recs ++ recs', err')
    end.

  (* func (c *Conn) sendAlertLocked(err alert) error.  Result: connection, records written, error returned *)
  Definition sendAlertLocked (fuel : nat) (c : connOut) (err : byte) : outcome (connOut * list (list byte) * bool) :=
    let level := if (err =? alertNoRenegotiation)%N || (err =? alertCloseNotify)%N
                 then alertLevelWarning else alertLevelError in
    do '(c1, recs, n, werr) <- writeRecordLocked fuel c recordTypeAlert [level; err];
    if (err =? alertCloseNotify)%N then Ok (c1, recs, werr)              (* return writeErr *)
    else Ok (out_set_err c1 true, recs, true).                             (* c.out.setErrorLocked(&net.OpError{...}) *)

  (* ================================================================================================
     receiving side of Conn, handshake complete, c.haveVers *)
  Record connIn := mkIn {
    i_hc : halfConn;                 (* c.in *)
    i_vers : N;                      (* c.vers *)
    i_raw : list byte;               (* c.rawInput.data followed by everything c.conn will still deliver;
                                        after it the peer has closed the connection (io.EOF) *)
    i_input : option (list byte);    (* c.input: unread part of the current application data record *)
    i_warnCount : nat;
    i_alerts : list byte;            (* the alerts handed to c.sendAlert so far, newest first *)
    i_trace : list (halfConn * list byte) }.
                                     (* ghost, not Go state: the arguments (c.in before the call, b.data) of every
                                        call of c.in.decrypt so far, newest first; only the statement of the
                                        integrity theorems looks at it *)

  Definition in_fail (c : connIn) (raw : list byte) (sendAlert : option byte) : connIn :=
    mkIn (setErrorLocked (i_hc c)) (i_vers c) raw (i_input c) (i_warnCount c)
         (match sendAlert with Some a => a :: i_alerts c | None => i_alerts c end) (i_trace c).

  (* func (c *Conn) readRecord(want recordType) error with want = recordTypeApplicationData.
     The result carries c.in.err in [hc_err (i_hc _)]. *)
  Fixpoint readRecord (fuel : nat) (c : connIn) : outcome connIn :=
    match fuel with
    | O => Hang
    | S fuel' =>
      let b := i_raw c in
      if length b <? recordHeaderLen then Ok (in_fail c b None)                   (* io.EOF *)
      else
        let typ := nth 0 b 0%N in
        let vers := (nth 1 b 0 * 256 + nth 2 b 0)%N in
        let n := N.to_nat (nth 3 b 0 * 256 + nth 4 b 0)%N in
        if negb (vers =? i_vers c)%N then Ok (in_fail c b (Some alertProtocolVersion))
        else if maxCiphertext <? n then Ok (in_fail c b (Some alertRecordOverflow))
        else if length b <? recordHeaderLen + n then Ok (in_fail c b None)        (* io.ErrUnexpectedEOF *)
        else
          let rec_ := firstn (recordHeaderLen + n) b in
          let raw' := skipn (recordHeaderLen + n) b in
          do '(hc', r) <- decrypt (i_hc c) rec_;
          let tr := (i_hc c, rec_) :: i_trace c in
          let c1 := mkIn hc' (i_vers c) raw' (i_input c) (i_warnCount c) (i_alerts c) tr in
          match r with
          | None => Ok (in_fail c1 raw' (Some alertBadRecordMAC))
          | Some data =>
            if maxPlaintext <? length data then Ok (in_fail c1 raw' (Some alertRecordOverflow))
            else
              let warn := if negb (typ =? recordTypeAlert)%N && (0 <? length data) then 0 else i_warnCount c in
              let c2 := mkIn hc' (i_vers c) raw' (i_input c) warn (i_alerts c) tr in
              if (typ =? recordTypeAlert)%N then
                if negb (length data =? 2) then Ok (in_fail c2 raw' (Some alertUnexpectedMessage))
                else if (nth 1 data 0 =? alertCloseNotify)%N then Ok (in_fail c2 raw' None)     (* io.EOF *)
                else if (nth 0 data 0 =? alertLevelWarning)%N then
                  let c3 := mkIn hc' (i_vers c) raw' (i_input c) (S warn) (i_alerts c) tr in
                  if maxWarnAlertCount <? S warn then Ok (in_fail c3 raw' (Some alertUnexpectedMessage))
                  else readRecord fuel' c3                                          (* goto Again *)
                else if (nth 0 data 0 =? alertLevelError)%N then Ok (in_fail c2 raw' None)       (* remote error *)
                else Ok (in_fail c2 raw' (Some alertUnexpectedMessage))
              else if (typ =? recordTypeApplicationData)%N then
                Ok (mkIn hc' (i_vers c) raw' (Some data) warn (i_alerts c) tr)
              else if (typ =? recordTypeHandshake)%N then
                (* typ != want and no renegotiation (server, or Config.Renegotiation = RenegotiateNever) *)
                Ok (in_fail c2 raw' (Some alertNoRenegotiation))
              else
                (* ChangeCipherSpec (typ != want), unknown type *)
                Ok (in_fail c2 raw' (Some alertUnexpectedMessage))
          end
    end.

  (* func (c *Conn) Read(b []byte) (n int, err error) after the handshake, len(b) = L.
     Result: connection, bytes stored into b, err != nil. *)
  Fixpoint conn_Read_loop (emptyLeft fuel : nat) (c : connIn) (L : nat) : outcome (connIn * list byte * bool) :=
    do c1 <- (match i_input c with
              | None => if hc_err (i_hc c) then Ok c else readRecord fuel c
              | Some _ => Ok c
              end);
    if hc_err (i_hc c1) then Ok (c1, [], true)
    else
      match i_input c1 with
      | None => Ok (c1, [], true)          (* unreachable: readRecord returned without data and without error *)
      | Some d =>
        let out := firstn L d in
        let rest := skipn L d in
        let c2 := mkIn (i_hc c1) (i_vers c1) (i_raw c1) (match rest with [] => None | _ => Some rest end)
                       (i_warnCount c1) (i_alerts c1) (i_trace c1) in
        match out with
        | [] => match emptyLeft with
                | O => Ok (c2, [], true)                 (* io.ErrNoProgress *)
                | S e' => conn_Read_loop e' fuel c2 L
                end
        | _ =>
          (* the look-ahead for a waiting alert (close_notify):
               if ri := c.rawInput; ri != nil && n != 0 && err == nil && c.input == nil &&
                  len(ri.data) > 0 && recordType(ri.data[0]) == recordTypeAlert { if recErr := c.readRecord(...) ... }
             The model takes everything the connection will still deliver as already buffered in c.rawInput;
             when less is buffered the same readRecord call happens at the start of the next Read instead, which
             only changes which call reports the error, not what is delivered. *)
          match i_input c2, i_raw c2 with
          | None, t :: _ =>
            if (t =? recordTypeAlert)%N then do c3 <- readRecord fuel c2; Ok (c3, out, hc_err (i_hc c3))
            else Ok (c2, out, false)
          | _, _ => Ok (c2, out, false)
          end
        end
      end.

  Definition conn_Read (fuel : nat) (c : connIn) (L : nat) : outcome (connIn * list byte * bool) :=
    if L =? 0 then Ok (c, [], false) else conn_Read_loop 100 fuel c L.

  (* the application reading until the first error: every record the connection accepts, in order.
     Result: all bytes delivered, the connection afterwards *)
  Fixpoint recv_all (rounds fuel : nat) (c : connIn) : outcome (list byte * connIn) :=
    match rounds with
    | O => Hang
    | S rounds' =>
      if hc_err (i_hc c) then Ok ([], c)
      else
        do c1 <- readRecord fuel c;
        match i_input c1 with
        | Some d =>
          do '(rest, c2) <- recv_all rounds' fuel
                               (mkIn (i_hc c1) (i_vers c1) (i_raw c1) None (i_warnCount c1) (i_alerts c1) (i_trace c1));
          Ok (d ++ rest, c2)
        | None => if hc_err (i_hc c1) then Ok ([], c1) else Hang
        end
    end.

  (* the application calling Read with the given buffer sizes (used cyclically would need the sizes
     repeated by the caller): bytes delivered, whether an error was seen, bytes delivered after it *)
  Fixpoint read_calls (fuel : nat) (c : connIn) (bufs : list nat) : outcome (list byte * bool * connIn) :=
    match bufs with
    | [] => Ok ([], false, c)
    | L :: rest =>
      do '(c1, out, err) <- conn_Read fuel c L;
      if (err : bool) then Ok (out, true, c1)
      else do '(out', e, c2) <- read_calls fuel c1 rest; Ok (out ++ out', e, c2)
    end.
  (* ---------- readRecord during the handshake: want = recordTypeHandshake or recordTypeChangeCipherSpec -------
     (the `switch want` at the top of readRecord separates the two phases: these wants require
     !c.handshakeComplete(), want = recordTypeApplicationData above requires c.handshakeComplete()).
     The pending cipher spec (hc.nextCipher, hc.nextMac of c.in) is kept beside the connection. *)
  Definition pending := option (cipher_state * option (list byte)).

  (* func (hc *halfConn) changeCipherSpec() error; None = alertInternalError (nothing prepared) *)
  Definition changeCipherSpec (hc : halfConn) (next : pending) : option halfConn :=
    match next with
    | None => None
    | Some (cs, mac) => Some (mkHC (hc_err hc) (hc_version hc) cs mac (repeat 0%N 8))     (* seq reset to zero *)
    end.

  Record connHS := mkHS {
    s_in : connIn;                 (* c.in, c.vers, c.rawInput ..., as above *)
    s_haveVers : bool;             (* c.haveVers *)
    s_hand : list byte;            (* c.hand: handshake data waiting to be read *)
    s_next : pending }.            (* c.in.nextCipher / nextMac *)

  Definition hs_fail (s : connHS) (c : connIn) (raw : list byte) (a : option byte) : connHS :=
    mkHS (in_fail c raw a) (s_haveVers s) (s_hand s) (s_next s).

  Definition alertInternalError : byte := 80%N.

  Fixpoint readRecord_hs (fuel : nat) (want : byte) (s : connHS) : outcome connHS :=
    match fuel with
    | O => Hang
    | S fuel' =>
      let c := s_in s in
      let b := i_raw c in
      if negb ((want =? recordTypeHandshake) || (want =? recordTypeChangeCipherSpec))%N
      then Ok (hs_fail s c b (Some alertInternalError))        (* application data requested while in handshake / unknown *)
      else if length b <? recordHeaderLen then Ok (hs_fail s c b None)
      else
        let typ := nth 0 b 0%N in
        if (want =? recordTypeHandshake)%N && (typ =? 128)%N then Ok (hs_fail s c b (Some alertProtocolVersion))  (* SSLv2 *)
        else
        let vers := (nth 1 b 0 * 256 + nth 2 b 0)%N in
        let n := N.to_nat (nth 3 b 0 * 256 + nth 4 b 0)%N in
        if s_haveVers s && negb (vers =? i_vers c)%N then Ok (hs_fail s c b (Some alertProtocolVersion))
        else if maxCiphertext <? n then Ok (hs_fail s c b (Some alertRecordOverflow))
        else if negb (s_haveVers s) &&
                ((negb (typ =? recordTypeAlert)%N && negb (typ =? want)%N) || (4096 <=? vers)%N)
        then Ok (hs_fail s c b (Some alertUnexpectedMessage))     (* first record does not look like a TLS handshake *)
        else if length b <? recordHeaderLen + n then Ok (hs_fail s c b None)
        else
          let rec_ := firstn (recordHeaderLen + n) b in
          let raw' := skipn (recordHeaderLen + n) b in
          do '(hc', r) <- decrypt (i_hc c) rec_;
          let tr := (i_hc c, rec_) :: i_trace c in
          let c1 := mkIn hc' (i_vers c) raw' (i_input c) (i_warnCount c) (i_alerts c) tr in
          match r with
          | None => Ok (hs_fail s c1 raw' (Some alertBadRecordMAC))
          | Some data =>
            if maxPlaintext <? length data then Ok (hs_fail s c1 raw' (Some alertRecordOverflow))
            else
              let warn := if negb (typ =? recordTypeAlert)%N && (0 <? length data) then 0 else i_warnCount c in
              let c2 := mkIn hc' (i_vers c) raw' (i_input c) warn (i_alerts c) tr in
              if (typ =? recordTypeAlert)%N then
                if negb (length data =? 2) then Ok (hs_fail s c2 raw' (Some alertUnexpectedMessage))
                else if (nth 1 data 0 =? alertCloseNotify)%N then Ok (hs_fail s c2 raw' None)
                else if (nth 0 data 0 =? alertLevelWarning)%N then
                  let c3 := mkIn hc' (i_vers c) raw' (i_input c) (S warn) (i_alerts c) tr in
                  if maxWarnAlertCount <? S warn then Ok (hs_fail s c3 raw' (Some alertUnexpectedMessage))
                  else readRecord_hs fuel' want (mkHS c3 (s_haveVers s) (s_hand s) (s_next s))
                else if (nth 0 data 0 =? alertLevelError)%N then Ok (hs_fail s c2 raw' None)
                else Ok (hs_fail s c2 raw' (Some alertUnexpectedMessage))
              else if (typ =? recordTypeChangeCipherSpec)%N then
                if negb (typ =? want)%N || negb (length data =? 1) || negb (nth 0 data 0 =? 1)%N
                then Ok (hs_fail s c2 raw' (Some alertUnexpectedMessage))
                else
                  (* handshake messages are not allowed to fragment across the CCS *)
                  match s_hand s with
                  | _ :: _ => Ok (hs_fail s c2 raw' (Some alertUnexpectedMessage))
                  | [] =>
                    match changeCipherSpec hc' (s_next s) with
                    | None => Ok (hs_fail s c2 raw' (Some alertInternalError))
                    | Some hc2 =>
                      Ok (mkHS (mkIn hc2 (i_vers c) raw' (i_input c) warn (i_alerts c) tr) (s_haveVers s) [] None)
                    end
                  end
              else if (typ =? recordTypeApplicationData)%N then
                Ok (hs_fail s c2 raw' (Some alertUnexpectedMessage))            (* typ != want *)
              else if (typ =? recordTypeHandshake)%N then
                if negb (typ =? want)%N then Ok (hs_fail s c2 raw' (Some alertNoRenegotiation))
                else Ok (mkHS c2 (s_haveVers s) (s_hand s ++ data) (s_next s))  (* c.hand.Write(data) *)
              else Ok (hs_fail s c2 raw' (Some alertUnexpectedMessage))
          end
    end.

  (* readRecord called with wants[0], wants[1], ... until one call returns an error.
     Result: index of the failing call (None = all succeeded), the connection *)
  Fixpoint readRecords_hs (fuel : nat) (wants : list byte) (i : nat) (s : connHS) : outcome (option nat * connHS) :=
    match wants with
    | [] => Ok (None, s)
    | w :: rest =>
      do s' <- readRecord_hs fuel w s;
      if hc_err (i_hc (s_in s')) then Ok (Some i, s') else readRecords_hs fuel rest (S i) s'
    end.

  (* ---------- both directions of one Conn --------------------------------------------------------------------
     Conn.Read on the whole connection: the alert readRecord hands to c.sendAlert goes out through c.out
     (readRecord calls sendAlert before it returns; nothing else touches c.out in between).
     Result: connection, bytes stored, err != nil, records written to c.conn *)
  Record conn := mkConn { c_in : connIn; c_out : connOut }.

  Definition conn_Read_duplex (fuel : nat) (c : conn) (L : nat)
    : outcome (conn * list byte * bool * list (list byte)) :=
    do '(cin', out, err) <- conn_Read fuel (c_in c) L;
    match firstn (length (i_alerts cin') - length (i_alerts (c_in c))) (i_alerts cin') with
    | [] => Ok (mkConn cin' (c_out c), out, err, [])
    | a :: _ =>
      do '(cout', recs, _) <- sendAlertLocked fuel (c_out c) a;
      Ok (mkConn cin' cout', out, err, recs)
    end.

End WithPrims.

(* ---------- attacker scripts ---------------------------------------------------------------------------
   What a man in the middle can do to the stream of protected records of one direction.  [genuine] are
   the records the sender produced (in order), [other] records of the opposite direction, [foreign]
   records of another connection.  Each action emits bytes towards the receiver. *)
Inductive action :=
| Deliver (j : nat)                               (* genuine record j unmodified *)
| FlipBit (j pos : nat) (bit : N)                 (* genuine record j with one bit flipped *)
| Truncate (j k : nat) (fixHeader : bool)         (* last k bytes removed, header length rewritten or not *)
| Extend (j : nat) (extra : list byte) (fixHeader : bool)
| SetType (j : nat) (v : byte)                    (* header rewrites *)
| SetVersion (j : nat) (v : N)
| SetLength (j : nat) (v : N)
| ReplayOther (j : nat)                           (* record j of the other direction *)
| ReplayForeign (j : nat)                         (* record j of another connection *)
| Inject (bytes : list byte).                     (* arbitrary bytes *)
(* swap = [Deliver (j+1); Deliver j], duplicate = [Deliver j; Deliver j], drop = leaving j out *)

Definition fix_len (rec_ : list byte) : list byte :=
  put_len (firstn 5 rec_) (length rec_ - 5) ++ skipn 5 rec_.

Definition apply_action (genuine other foreign : list (list byte)) (a : action) : list byte :=
  match a with
  | Deliver j => nth j genuine []
  | FlipBit j pos bit =>
    let r := nth j genuine [] in
    set_nth pos (N.lxor (nth pos r 0%N) (2 ^ (bit mod 8)))%N r
  | Truncate j k fixh =>
    let r := nth j genuine [] in
    let r' := firstn (length r - k) r in
    if fixh then fix_len r' else r'
  | Extend j extra fixh =>
    let r := nth j genuine [] ++ extra in
    if fixh then fix_len r else r
  | SetType j v => set_nth 0 v (nth j genuine [])
  | SetVersion j v => let r := nth j genuine [] in set_nth 1 ((v / 256) mod 256)%N (set_nth 2 (v mod 256)%N r)
  | SetLength j v => let r := nth j genuine [] in set_nth 3 ((v / 256) mod 256)%N (set_nth 4 (v mod 256)%N r)
  | ReplayOther j => nth j other []
  | ReplayForeign j => nth j foreign []
  | Inject bytes => bytes
  end.

Definition apply_script (genuine other foreign : list (list byte)) (script : list action) : list byte :=
  flat_map (apply_action genuine other foreign) script.
