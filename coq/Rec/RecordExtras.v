(* Proofs about the record-layer model, part 5: (a) the fuel of the receiver model suffices (readRecord
   and the read-until-error loop never run out of fuel when given one unit per five inbound bytes: every
   pass consumes at least a record header); (b) what the idealisation [no_forgery] is about: when
   halfConn.decrypt accepts, the first component of [witness_of] is exactly the additional data under
   which the AEAD opened the record to the fragment, resp. the MAC input whose tag stands in the
   decrypted record right behind the fragment. *)
From Coq Require Import List NArith Arith Bool Lia ZifyN ZifyNat ZifyBool.
From GmsmVerif Require Import Lib.Outcome Rec.RecordSpec Rec.RecordModel Rec.RecordProofs Rec.RecordRoundtrip
  Rec.RecordIntegrity Rec.RecordFragment.
Import ListNotations.

Section NH.
  Variable P : prims.

  Ltac break_goal :=
    repeat match goal with
           | |- context [match ?x with _ => _ end] => destruct x eqn:?
           | |- context [if ?x then _ else _] => destruct x eqn:?
           end.

  Lemma incSeq_no_hang hc : incSeq hc <> Hang.
  Proof.
    unfold incSeq.
    assert (H : forall i s, incSeq_loop i s <> Hang).
    { induction i as [|i IH]; intros s; cbn [incSeq_loop]; destruct (negb _); try discriminate. apply IH. }
    specialize (H 7 (hc_seq hc)). destruct (incSeq_loop 7 (hc_seq hc)); cbn [obind]; congruence.
  Qed.

  Lemma decrypt_no_hang hc data : decrypt P hc data <> Hang.
  Proof.
    intros H. unfold decrypt in H.
    destruct (hc_cipher hc) eqn:Ec; destruct (hc_mac hc) eqn:Em; break_hyps;
      try match goal with Hx : incSeq ?x = Hang |- _ => exact (incSeq_no_hang x Hx) end;
      try match goal with
          | Hx : cbc_decrypt_blocks _ _ _ _ = Hang |- _ =>
            unfold cbc_decrypt_blocks in Hx; destruct (_ =? 0) in Hx; discriminate
          end.
  Qed.

  (* fuel: every pass of readRecord's loop consumes at least a record header *)
  Lemma readRecord_no_hang fuel : forall c, length (i_raw c) < 5 * fuel -> readRecord P fuel c <> Hang.
  Proof.
    induction fuel as [|fuel IH]; intros c Hf; [lia|].
    cbn [readRecord].
    destruct (length (i_raw c) <? recordHeaderLen) eqn:E1; [discriminate|].
    destruct (negb _); [discriminate|].
    destruct (maxCiphertext <? _); [discriminate|].
    destruct (length (i_raw c) <? recordHeaderLen + _) eqn:E4; [discriminate|].
    apply Nat.ltb_ge in E1, E4.
    destruct (decrypt P (i_hc c) _) as [[hc' r]| | |] eqn:Ed; cbn [obind]; try discriminate.
    2:{ exfalso. exact (decrypt_no_hang _ _ Ed). }
    destruct r as [data0|]; [|discriminate].
    break_goal; try discriminate.
    apply IH. cbn [i_raw]. rewrite skipn_length. unfold recordHeaderLen in *. lia.
  Qed.

  (* a call of readRecord from a state without pending input ends in the error state or with a record,
     and in the second case it has consumed at least a record header *)
  Lemma readRecord_progress fuel : forall c c', i_input c = None -> readRecord P fuel c = Ok c' ->
    (hc_err (i_hc c') = true /\ i_input c' = None) \/
    (exists d, i_input c' = Some d) /\ length (i_raw c') + 5 <= length (i_raw c).
  Proof.
    induction fuel as [|fuel IH]; intros c c' Hi H; cbn [readRecord] in H; [discriminate|].
    destruct (length (i_raw c) <? recordHeaderLen) eqn:E1;
      [injection H as <-; left; cbn [in_fail i_hc i_input setErrorLocked hc_err]; auto|].
    destruct (negb _); [injection H as <-; left; cbn [in_fail i_hc i_input setErrorLocked hc_err]; auto|].
    destruct (maxCiphertext <? _); [injection H as <-; left; cbn [in_fail i_hc i_input setErrorLocked hc_err]; auto|].
    destruct (length (i_raw c) <? recordHeaderLen + _) eqn:E4;
      [injection H as <-; left; cbn [in_fail i_hc i_input setErrorLocked hc_err]; auto|].
    apply Nat.ltb_ge in E1, E4.
    destruct (decrypt P (i_hc c) _) as [[hc' r]| | |] eqn:Ed; cbn [obind] in H; try discriminate.
    assert (Hsk : length (skipn (recordHeaderLen + N.to_nat (nth 3 (i_raw c) 0 * 256 + nth 4 (i_raw c) 0)%N) (i_raw c)) + 5
                  <= length (i_raw c)) by (rewrite skipn_length; unfold recordHeaderLen in *; lia).
    destruct r as [data0|];
      [|injection H as <-; left; cbn [in_fail i_hc i_input setErrorLocked hc_err]; auto].
    revert H. break_goal; intros H;
      try (injection H as <-; first [left; cbn [in_fail i_hc i_input setErrorLocked hc_err]; solve [auto]
                                    |right; cbn [i_input i_raw]; split; [eexists; reflexivity|exact Hsk]]).
    all: apply IH in H; [|cbn [i_input]; exact Hi]; cbn [i_raw] in H;
      destruct H as [H|[H1 H2]]; [left; exact H|right; split; [exact H1|lia]].
  Qed.

  Lemma recv_all_no_hang rounds fuel : forall c, i_input c = None ->
    length (i_raw c) < 5 * rounds -> length (i_raw c) < 5 * fuel -> recv_all P rounds fuel c <> Hang.
  Proof.
    induction rounds as [|rounds IH]; intros c Hi Hr Hf; [lia|].
    cbn [recv_all]. destruct (hc_err (i_hc c)); [discriminate|].
    destruct (readRecord P fuel c) as [c1| | |] eqn:Er; cbn [obind]; try discriminate.
    2:{ exfalso. exact (readRecord_no_hang _ _ Hf Er). }
    destruct (readRecord_progress _ _ _ Hi Er) as [[He Hn]|[[d Hd] Hlen]].
    - rewrite Hn, He. discriminate.
    - rewrite Hd.
      specialize (IH (mkIn (i_hc c1) (i_vers c1) (i_raw c1) None (i_warnCount c1) (i_alerts c1) (i_trace c1))
                     eq_refl ltac:(cbn [i_raw]; lia) ltac:(cbn [i_raw]; lia)).
      destruct (recv_all P rounds fuel _) as [[rest c2]| | |]; cbn [obind]; congruence.
  Qed.
End NH.

Section WS.
  Variable P : prims.

  (* what the idealisation talks about: when decrypt accepts, the first component of [witness_of] is
     exactly the additional data that opened to the fragment resp. the MAC input whose tag was found in
     the record *)
  Lemma witness_sound_aead hc key fixed data hc' frag :
    hc_cipher hc = CipherAEAD key fixed -> hc_mac hc = None ->
    decrypt P hc data = Ok (hc', Some frag) ->
    exists nonce ct,
      p_open P key (fixed ++ nonce) (fst (witness_of P hc data frag)) ct = Some frag /\
      snd (witness_of P hc data frag) = frag.
  Proof.
    intros Ec Em H. unfold decrypt in H. rewrite Ec, Em in H.
    destruct (length data <? recordHeaderLen) eqn:E5; [discriminate|].
    destruct (length (skipn recordHeaderLen data) <? 8) eqn:E8; cbn [obind] in H; [discriminate|].
    destruct (p_open P key _ _ _) as [pt|] eqn:Eo; cbn [obind] in H; [|discriminate].
    destruct (incSeq _) eqn:Ei; cbn [obind] in H; try discriminate. injection H as _ <-.
    eexists _, _. unfold witness_of. rewrite Ec. cbn [fst snd]. split; [|reflexivity].
    unfold fixedNonce in Eo. rewrite !skipn_length in Eo. unfold recordHeaderLen in Eo. exact Eo.
  Qed.

  Lemma witness_sound_mac hc key iv mk data hc' frag :
    hc_cipher hc = CipherCBC key iv -> hc_mac hc = Some mk ->
    decrypt P hc data = Ok (hc', Some frag) ->
    exists pt, frag = firstn (length frag) pt /\
      p_mac P mk (fst (witness_of P hc data frag)) = firstn (p_macSize P) (skipn (length frag) pt).
  Proof.
    intros Ec Em H. unfold decrypt in H. rewrite Ec, Em in H.
    destruct (length data <? recordHeaderLen) eqn:E5; [discriminate|].
    break_hyps;
      repeat match goal with Hb : _ && _ = true |- _ => apply andb_true_iff in Hb; destruct Hb as [Hb ?] end;
      match goal with
      | Hb : bytes_eqb (tls10MAC P mk _ _ (firstn ?n ?pt)) _ = true |- _ =>
        apply bytes_eqb_eq in Hb; exists pt;
        assert (Hl : length (firstn n pt) = n) by (rewrite firstn_length; lia);
        rewrite Hl; split; [reflexivity|];
        unfold witness_of; rewrite Ec; cbn [fst]; unfold tls10MAC in Hb; rewrite Hl; exact Hb
      end.
  Qed.
End WS.

Section ReadTail.
  Variable P : prims.

  Definition with_input (c : connIn) (inp : option (list N)) : connIn :=
    mkIn (i_hc c) (i_vers c) (i_raw c) inp (i_warnCount c) (i_alerts c) (i_trace c).

  (* Read with a buffer smaller than what is left of the current record: exactly the first L bytes are
     handed out, the rest stays in c.input, nothing else happens - in particular the look-ahead for a waiting
     alert does not run while unread data is pending (its guard c.input == nil) *)
  Lemma read_keeps_unread_tail fuel c d L :
    i_input c = Some d -> hc_err (i_hc c) = false -> 1 <= L -> L < length d ->
    conn_Read P fuel c L = Ok (with_input c (Some (skipn L d)), firstn L d, false).
  Proof.
    intros Hi He HL Hd. unfold conn_Read. destruct (Nat.eqb_spec L 0) as [|_]; [lia|].
    cbn [conn_Read_loop]. rewrite Hi. cbn [obind]. rewrite He, Hi.
    destruct (firstn L d) as [|x xs] eqn:Ef.
    { apply (f_equal (@length N)) in Ef. rewrite firstn_length in Ef. cbn in Ef. lia. }
    destruct (skipn L d) as [|y ys] eqn:Es.
    { apply (f_equal (@length N)) in Es. rewrite skipn_length in Es. cbn in Es. lia. }
    cbn [i_input]. reflexivity.
  Qed.

  (* Read with a buffer that holds the rest of the current record: all of it is handed out; only then may
     the look-ahead consume a waiting alert record *)
  Lemma read_hands_out_rest fuel c d L c' out err :
    i_input c = Some d -> hc_err (i_hc c) = false -> d <> [] -> length d <= L ->
    conn_Read P fuel c L = Ok (c', out, err) ->
    out = d /\ (c' = with_input c None \/ readRecord P fuel (with_input c None) = Ok c').
  Proof.
    intros Hi He Hne Hd. unfold conn_Read.
    destruct (Nat.eqb_spec L 0) as [->|_]; [destruct d; [congruence|cbn in Hd; lia]|].
    cbn [conn_Read_loop]. rewrite Hi. cbn [obind]. rewrite He, Hi.
    rewrite firstn_all2, skipn_all2 by exact Hd.
    destruct d as [|x xs]; [congruence|].
    cbn [i_input i_raw]. intros H.
    destruct (i_raw c) as [|t rr] eqn:Er0.
    - injection H as <- <- _. split; [reflexivity|]. left. unfold with_input. rewrite Er0. reflexivity.
    - destruct (t =? recordTypeAlert)%N.
      + assert (Ew : mkIn (i_hc c) (i_vers c) (t :: rr) None (i_warnCount c) (i_alerts c) (i_trace c) = with_input c None)
          by (unfold with_input; rewrite Er0; reflexivity).
        rewrite Ew in H.
        destruct (readRecord P fuel (with_input c None)) as [c3| | |] eqn:Er; cbn [obind] in H; try discriminate.
        injection H as <- <- _. auto.
      + injection H as <- <- _. split; [reflexivity|]. left. unfold with_input. rewrite Er0. reflexivity.
  Qed.
End ReadTail.
