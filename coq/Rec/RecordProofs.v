(* Proofs about the record-layer model, part 1: the concrete helpers (big-endian counters, incSeq,
   extractPadding, roundUp, padToBlockSize).  Property theorems are restated in Props/C07.v. *)
From Coq Require Import List NArith Arith Bool Lia ZifyN ZifyNat ZifyBool.
From GmsmVerif Require Import Lib.Outcome Rec.RecordSpec Rec.RecordModel.
Import ListNotations.
Local Open Scope N_scope.

(* ---------- list facts ------------------------------------------------------------------------------- *)
Lemma nth_app_len {A} (a : list A) x t d i : i = length a -> nth i (a ++ x :: t) d = x.
Proof. intros ->. rewrite app_nth2 by lia. rewrite Nat.sub_diag. reflexivity. Qed.

Lemma set_nth_app_len (a : list N) x t v i : i = length a -> set_nth i v (a ++ x :: t) = a ++ v :: t.
Proof.
  intros ->. induction a as [|y a IH]; cbn [length set_nth app]; [reflexivity|]. rewrite IH. reflexivity.
Qed.

Lemma set_nth_length i v l : length (set_nth i v l) = length l.
Proof. revert i; induction l as [|x l IH]; intros [|i]; cbn [set_nth length]; auto. Qed.

Lemma firstn_app_exact {A} (a b : list A) n : n = length a -> firstn n (a ++ b) = a.
Proof. intros ->. rewrite firstn_app, Nat.sub_diag, firstn_all. cbn. apply app_nil_r. Qed.

Lemma skipn_app_exact {A} (a b : list A) n : n = length a -> skipn n (a ++ b) = b.
Proof. intros ->. rewrite skipn_app, Nat.sub_diag, skipn_all. reflexivity. Qed.

Lemma forallb_byte_sweep (f : N -> bool) :
  forallb f (map N.of_nat (seq 0 256)) = true -> forall b, (b < 256)%N -> f b = true.
Proof.
  intros H b Hb. rewrite forallb_forall in H. apply H.
  apply in_map_iff. exists (N.to_nat b). split; [lia|]. apply in_seq. lia.
Qed.

(* ---------- big-endian numbers ------------------------------------------------------------------------ *)
Lemma be_length k n : length (be k n) = k.
Proof.
  revert n; induction k as [|k IH]; intros n; cbn [be]; [reflexivity|].
  rewrite app_length, IH. cbn. lia.
Qed.

Lemma be_bytes_ok k n : bytes_ok (be k n).
Proof.
  revert n; induction k as [|k IH]; intros n; cbn [be]; [constructor|].
  apply Forall_app. split; [apply IH|]. constructor; [|constructor].
  apply N.mod_lt. discriminate.
Qed.

Lemma pow256_succ k : (256 ^ N.of_nat (S k) = 256 * 256 ^ N.of_nat k)%N.
Proof. rewrite Nat2N.inj_succ, N.pow_succ_r'. reflexivity. Qed.

Lemma be_inj k n m :
  (n < 256 ^ N.of_nat k)%N -> (m < 256 ^ N.of_nat k)%N -> be k n = be k m -> n = m.
Proof.
  revert n m; induction k as [|k IH]; intros n m Hn Hm H.
  - cbn in Hn, Hm. lia.
  - cbn [be] in H. apply app_inj_tail in H. destruct H as [H1 H2].
    rewrite pow256_succ in Hn, Hm.
    assert (n / 256 = m / 256)%N by (apply IH; [| |exact H1]; apply N.div_lt_upper_bound; lia).
    rewrite (N.div_mod' n 256), (N.div_mod' m 256). congruence.
Qed.

Lemma be64_inj n m : (n < 2 ^ 64)%N -> (m < 2 ^ 64)%N -> be64 n = be64 m -> n = m.
Proof. intros Hn Hm. apply (be_inj 8); assumption. Qed.

(* ---------- incSeq -------------------------------------------------------------------------------------- *)
Lemma incSeq_loop_spec i : forall n tail,
  (n < 256 ^ N.of_nat (S i))%N ->
  incSeq_loop i (be (S i) n ++ tail) =
    if (n =? 256 ^ N.of_nat (S i) - 1)%N then Panic else Ok (be (S i) (n + 1) ++ tail).
Proof.
  induction i as [|i IH]; intros n tail Hn.
  - change (256 ^ N.of_nat 1)%N with 256%N in *.
    cbn [be app incSeq_loop]. cbn [nth set_nth].
    rewrite (N.mod_small n 256) by lia.
    destruct (N.eqb_spec n (256 - 1)) as [E|E].
    + subst n. reflexivity.
    + destruct (N.eqb_spec ((n + 1) mod 256) 0) as [E0|E0].
      * exfalso. rewrite N.mod_small in E0 by lia. lia.
      * cbn [negb]. reflexivity.
  - rewrite pow256_succ in Hn.
    assert (Hhi : (n / 256 < 256 ^ N.of_nat (S i))%N) by (apply N.div_lt_upper_bound; lia).
    pose proof (N.div_mod' n 256) as Hdm.
    pose proof (N.mod_lt n 256 ltac:(discriminate)) as Hlo.
    assert (Hpos : (0 < 256 ^ N.of_nat (S i))%N) by (apply N.neq_0_lt_0, N.pow_nonzero; discriminate).
    change (be (S (S i)) n) with (be (S i) (n / 256) ++ [n mod 256]).
    rewrite <- app_assoc. cbn [app].
    cbn [incSeq_loop].
    rewrite nth_app_len by (rewrite be_length; reflexivity).
    rewrite set_nth_app_len by (rewrite be_length; reflexivity).
    destruct (N.eqb_spec ((n mod 256 + 1) mod 256) 0) as [E0|E0]; cbn [negb].
    + (* carry *)
      assert (Elo : (n mod 256 = 255)%N).
      { destruct (N.eq_dec (n mod 256) 255) as [e|e]; [exact e|].
        rewrite N.mod_small in E0 by lia. lia. }
      rewrite E0.
      change (be (S i) (n / 256) ++ 0%N :: tail) with (be (S i) (n / 256) ++ ([0%N] ++ tail)).
      rewrite (IH (n / 256)%N ([0%N] ++ tail) Hhi).
      rewrite (pow256_succ (S i)).
      destruct (N.eqb_spec (n / 256) (256 ^ N.of_nat (S i) - 1)) as [E1|E1];
        destruct (N.eqb_spec n (256 * 256 ^ N.of_nat (S i) - 1)) as [E2|E2]; try reflexivity; try lia.
      change (be (S (S i)) (n + 1)) with (be (S i) ((n + 1) / 256) ++ [(n + 1) mod 256]).
      replace ((n + 1) / 256)%N with (n / 256 + 1)%N.
      2:{ apply N.div_unique with (r := 0%N); lia. }
      replace ((n + 1) mod 256)%N with 0%N.
      2:{ apply N.mod_unique with (q := (n / 256 + 1)%N); lia. }
      rewrite <- app_assoc. reflexivity.
    + (* no carry *)
      assert (Elo : (n mod 256 <> 255)%N) by (intros e; rewrite e in E0; apply E0; reflexivity).
      rewrite (pow256_succ (S i)).
      destruct (N.eqb_spec n (256 * 256 ^ N.of_nat (S i) - 1)) as [E2|E2].
      * exfalso. apply Elo. subst n. symmetry.
        apply N.mod_unique with (q := (256 ^ N.of_nat (S i) - 1)%N); lia.
      * change (be (S (S i)) (n + 1)) with (be (S i) ((n + 1) / 256) ++ [(n + 1) mod 256]).
        replace ((n + 1) / 256)%N with (n / 256)%N.
        2:{ apply N.div_unique with (r := (n mod 256 + 1)%N); lia. }
        replace ((n + 1) mod 256)%N with ((n mod 256 + 1) mod 256)%N.
        2:{ rewrite N.mod_small by lia. apply N.mod_unique with (q := (n / 256)%N); lia. }
        rewrite <- app_assoc. reflexivity.
Qed.

Lemma incSeq_loop_be64 n :
  (n < 2 ^ 64)%N ->
  incSeq_loop 7 (be64 n) = if (n =? 2 ^ 64 - 1)%N then Panic else Ok (be64 (n + 1)).
Proof.
  intros Hn. pose proof (incSeq_loop_spec 7 n [] Hn) as H.
  rewrite !app_nil_r in H. exact H.
Qed.

(* ---------- extractPadding ------------------------------------------------------------------------------ *)
(* the constant-time comparison: byte(int32(^(a - b)) >> 31) is 255 when b <= a, else 0 *)
Lemma ct_ge_mask a b :
  (a < 2 ^ 31)%N -> (b < 256)%N ->
  sar31_byte (not_uint (uint_sub a b)) = if (b <=? a)%N then 255%N else 0%N.
Proof.
  intros Ha Hb. unfold sar31_byte, not_uint, uint_sub, two64.
  rewrite N.lxor_spec, N.ones_spec_low by lia.
  change (2 ^ 31)%N with 2147483648%N in Ha.
  destruct (N.leb_spec b a) as [Hle|Hlt].
  - replace ((a + 2 ^ 64 - b) mod 2 ^ 64)%N with (a - b)%N.
    2:{ apply N.mod_unique with (q := 1%N); lia. }
    rewrite (N.testbit_eqb (a - b) 31).
    change (2 ^ 31)%N with 2147483648%N.
    rewrite N.div_small by lia. reflexivity.
  - rewrite N.mod_small by lia.
    rewrite (N.testbit_eqb (a + 2 ^ 64 - b) 31).
    change (2 ^ 31)%N with 2147483648%N. change (2 ^ 64)%N with 18446744073709551616%N.
    replace ((a + 18446744073709551616 - b) / 2147483648)%N with 8589934591%N.
    2:{ apply N.div_unique with (r := (a + 2147483648 - b)%N); lia. }
    reflexivity.
Qed.

(* good &^= mask&paddingLen ^ mask&b keeps 255 exactly when the compared bytes agree
   (finite domains swept completely) *)
Lemma forallb_byte2_sweep (f : N -> N -> bool) :
  forallb (fun a => forallb (f a) (map N.of_nat (seq 0 256))) (map N.of_nat (seq 0 256)) = true ->
  forall a b, (a < 256)%N -> (b < 256)%N -> f a b = true.
Proof.
  intros H a b Ha Hb.
  pose proof (forallb_byte_sweep _ H a Ha) as H1. cbn beta in H1.
  exact (forallb_byte_sweep _ H1 b Hb).
Qed.

Lemma lxor_byte_lt l b : (l < 256)%N -> (b < 256)%N -> (N.lxor l b < 256)%N.
Proof.
  intros Hl Hb. apply N.ltb_lt.
  apply (forallb_byte2_sweep (fun l b => N.lxor l b <? 256)%N); [vm_compute; reflexivity| |]; assumption.
Qed.

Lemma ldiff_255_sweep g x : (g < 256)%N -> (x < 256)%N ->
  (N.ldiff g x =? 255)%N = (g =? 255)%N && (x =? 0)%N.
Proof.
  intros Hg Hx. apply Bool.eqb_prop.
  apply (forallb_byte2_sweep (fun g x => Bool.eqb (N.ldiff g x =? 255)%N ((g =? 255)%N && (x =? 0)%N)));
    [vm_compute; reflexivity| |]; assumption.
Qed.

Lemma land_255_byte l : (l < 256)%N -> N.land 255 l = l.
Proof.
  intros Hl. rewrite N.land_comm. change 255%N with (N.ones 8). rewrite N.land_ones.
  apply N.mod_small. exact Hl.
Qed.

Lemma ldiff_step_255 : forall g l b : N, (g < 256)%N -> (l < 256)%N -> (b < 256)%N ->
  (N.ldiff g (N.lxor (N.land 255 l) (N.land 255 b)) =? 255)%N = (g =? 255)%N && (l =? b)%N.
Proof.
  intros g l b Hg Hl Hb.
  rewrite !land_255_byte by assumption.
  rewrite ldiff_255_sweep by (try assumption; apply lxor_byte_lt; assumption).
  f_equal.
  destruct (N.eqb_spec l b) as [E|E].
  - subst. rewrite N.lxor_nilpotent. reflexivity.
  - apply N.eqb_neq. intros e. apply E. apply N.lxor_eq. exact e.
Qed.

Lemma ldiff_lt a b c : (a < c)%N -> (N.ldiff a b < c)%N.
Proof.
  intros H. apply N.le_lt_trans with a; [|exact H].
  (* ldiff a b <= a *)
  apply N.ldiff_le. apply N.bits_inj_0. intros k. rewrite !N.ldiff_spec.
  destruct (N.testbit a k), (N.testbit b k); reflexivity.
Qed.

Local Close Scope N_scope.

Lemma bytes_ok_nth payload i : bytes_ok payload -> i < length payload -> (nth i payload 0 < 256)%N.
Proof. unfold bytes_ok. rewrite Forall_forall. intros H Hi. apply H. apply nth_In. exact Hi. Qed.

Lemma extractPadding_loop_spec payload l : bytes_ok payload -> (l < 256)%N ->
  forall n i g, (g < 256)%N -> i + n <= 256 -> i + n <= length payload ->
    (extractPadding_loop n i payload l g < 256)%N /\
    (extractPadding_loop n i payload l g = 255%N <->
     g = 255%N /\ forall j, i <= j < i + n -> j <= N.to_nat l -> nth (length payload - 1 - j) payload 0%N = l).
Proof.
  intros Hok Hl. induction n as [|n IH]; intros i g Hg Hn Hlen.
  - cbn [extractPadding_loop]. split; [exact Hg|]. split.
    + intros ->. split; [reflexivity|]. intros j Hj. lia.
    + intros [-> _]. reflexivity.
  - cbn [extractPadding_loop].
    set (b := nth (length payload - 1 - i) payload 0%N).
    assert (Hb : (b < 256)%N).
    { unfold b. apply bytes_ok_nth; [exact Hok|lia]. }
    rewrite ct_ge_mask by (try exact Hl; change (2 ^ 31)%N with 2147483648%N; lia).
    set (g' := N.ldiff g _).
    assert (Hg' : (g' < 256)%N) by (apply ldiff_lt; exact Hg).
    destruct (IH (S i) g' Hg' ltac:(lia) ltac:(lia)) as [IH1 IH2].
    split; [exact IH1|].
    rewrite IH2. clear IH1 IH2.
    assert (Hstep : g' = 255%N <-> g = 255%N /\ (i <= N.to_nat l -> b = l)).
    { unfold g'. destruct (N.leb_spec (N.of_nat i) l) as [Hle|Hgt].
      - pose proof (ldiff_step_255 g l b Hg Hl Hb) as E.
        rewrite <- N.eqb_eq. rewrite E. rewrite andb_true_iff, !N.eqb_eq.
        split; intros [H1 H2]; (split; [exact H1|]); [intros _; congruence|symmetry; apply H2; lia].
      - rewrite !N.land_0_l. cbn [N.lxor]. rewrite N.ldiff_0_r.
        split; [intros ->; split; [reflexivity|intros; lia]|intros [-> _]; reflexivity]. }
    rewrite Hstep. split.
    + intros [[-> Hi] Hrest]. split; [reflexivity|]. intros j Hj Hjl.
      destruct (Nat.eq_dec j i) as [->|Hne]; [apply Hi; exact Hjl|]. apply Hrest; lia.
    + intros [-> Hall]. split; [split; [reflexivity|]|].
      * intros Hi. apply Hall; lia.
      * intros j Hj Hjl. apply Hall; lia.
Qed.

(* good &= good << 4; good &= good << 2; good &= good << 1; good = uint8(int8(good) >> 7) *)
Lemma fold_good_spec g : (g < 256)%N ->
  (let g1 := N.land g ((g * 16) mod 256) in
   let g2 := N.land g1 ((g1 * 4) mod 256) in
   let g3 := N.land g2 ((g2 * 2) mod 256) in
   if N.testbit g3 7 then 255 else 0)%N = (if (g =? 255)%N then 255 else 0)%N.
Proof.
  intros Hg. apply N.eqb_eq.
  apply (forallb_byte_sweep (fun g =>
    ((let g1 := N.land g ((g * 16) mod 256) in
      let g2 := N.land g1 ((g1 * 4) mod 256) in
      let g3 := N.land g2 ((g2 * 2) mod 256) in
      if N.testbit g3 7 then 255 else 0) =? (if (g =? 255) then 255 else 0))%N));
    [vm_compute; reflexivity|exact Hg].
Qed.

Lemma last_nth {A} (l : list A) d : last l d = nth (length l - 1) l d.
Proof.
  induction l as [|x l IH]; [reflexivity|].
  destruct l as [|y l]; [reflexivity|].
  change (last (x :: y :: l) d) with (last (y :: l) d). rewrite IH.
  cbn [length]. replace (S (S (length l)) - 1) with (S (length l - 0)) by lia.
  cbn [nth]. rewrite Nat.sub_0_r. destruct l; reflexivity.
Qed.

(* extractPadding, for every payload the record layer can hold (bytes, fewer than 2^31 of them) *)
Lemma extractPadding_spec_lemma payload :
  bytes_ok payload -> (N.of_nat (length payload) < 2 ^ 31)%N ->
  match payload with
  | [] => extractPadding payload = (0, 0%N)
  | _ => fst (extractPadding payload) = N.to_nat (last payload 0%N) + 1 /\
         (snd (extractPadding payload) = 255%N \/ snd (extractPadding payload) = 0%N) /\
         (snd (extractPadding payload) = 255%N <-> pad_valid payload)
  end.
Proof.
  intros Hok Hlen. destruct payload as [|x0 rest] eqn:Ep; [reflexivity|].
  rewrite <- Ep in *. assert (Hpos : 1 <= length payload) by (rewrite Ep; cbn; lia).
  clear Ep x0 rest.
  unfold extractPadding.
  destruct (Nat.ltb_spec (length payload) 1) as [Hlt|_]; [lia|].
  rewrite <- last_nth.
  set (l := last payload 0%N).
  assert (Hl : (l < 256)%N).
  { unfold l. rewrite last_nth. apply bytes_ok_nth; [exact Hok|lia]. }
  rewrite ct_ge_mask by (try exact Hl; lia).
  set (toCheck := if length payload <? 256 then length payload else 256).
  assert (HtC : toCheck <= 256 /\ toCheck <= length payload /\ (length payload < 256 -> toCheck = length payload)
                /\ (256 <= length payload -> toCheck = 256)).
  { unfold toCheck. destruct (Nat.ltb_spec (length payload) 256); lia. }
  set (g0 := if (l <=? N.of_nat (length payload - 1))%N then 255%N else 0%N).
  assert (Hg0 : (g0 < 256)%N) by (unfold g0; destruct (l <=? _)%N; lia).
  destruct (extractPadding_loop_spec payload l Hok Hl toCheck 0 g0 Hg0 ltac:(lia) ltac:(lia)) as [Hlt Hiff].
  set (g := extractPadding_loop toCheck 0 payload l g0) in *.
  cbn [fst snd].
  pose proof (fold_good_spec g Hlt) as Hf. cbv zeta in Hf. rewrite Hf. clear Hf.
  split; [reflexivity|]. split; [destruct (g =? 255)%N; auto|].
  destruct (N.eqb_spec g 255) as [E|E].
  - split; [intros _|reflexivity].
    apply Hiff in E. destruct E as [E0 Hall]. unfold g0 in E0.
    destruct (N.leb_spec l (N.of_nat (length payload - 1))) as [Hle|Hgt]; [|discriminate].
    unfold pad_valid. fold l. split; [lia|].
    intros j Hj. apply Hall; lia.
  - split; [discriminate|]. intros [Hv1 Hv2]. fold l in Hv1, Hv2. exfalso. apply E. apply Hiff.
    split.
    + unfold g0. destruct (N.leb_spec l (N.of_nat (length payload - 1))); [reflexivity|lia].
    + intros j Hj Hjl. apply Hv2. exact Hjl.
Qed.

(* ---------- roundUp, padToBlockSize ---------------------------------------------------------------------- *)
Lemma roundUp_spec_lemma a b : 1 <= b -> is_round_up a b (roundUp a b).
Proof.
  intros Hb. unfold is_round_up, roundUp.
  pose proof (Nat.mod_upper_bound a b ltac:(lia)) as Hu.
  pose proof (Nat.div_mod a b ltac:(lia)) as Hd.
  destruct (Nat.eq_dec (a mod b) 0) as [E|E].
  - rewrite E, Nat.sub_0_r, Nat.mod_same by lia. rewrite Nat.add_0_r.
    split; [lia|]. split; [exact E|]. intros; lia.
  - rewrite (Nat.mod_small (b - a mod b) b) by lia.
    split; [lia|]. split.
    + replace (a + (b - a mod b)) with ((a / b + 1) * b) by nia. apply Nat.mod_mul. lia.
    + intros r' Hr' Hm.
      pose proof (Nat.div_mod r' b ltac:(lia)) as Hd'. rewrite Hm in Hd'.
      assert (a / b < r' / b) by nia. nia.
Qed.

Lemma padToBlockSize_spec_lemma payload bs :
  1 <= bs ->
  let '(prefix, finalBlock) := padToBlockSize payload bs in
  let k := bs - length payload mod bs in
  prefix ++ finalBlock = payload ++ repeat (N.of_nat (k - 1) mod 256)%N k /\
  1 <= k <= bs /\
  length prefix mod bs = 0 /\ length finalBlock = bs /\ length (prefix ++ finalBlock) mod bs = 0.
Proof.
  intros Hbs. unfold padToBlockSize.
  pose proof (Nat.mod_upper_bound (length payload) bs ltac:(lia)) as Hu.
  pose proof (Nat.div_mod (length payload) bs ltac:(lia)) as Hd.
  remember (length payload mod bs) as o eqn:Eo.
  remember (length payload / bs) as q eqn:Eq.
  split.
  - rewrite app_assoc, firstn_skipn. reflexivity.
  - split; [lia|].
    assert (Hp : length (firstn (length payload - o) payload) = bs * q).
    { rewrite firstn_length. lia. }
    split; [rewrite Hp, Nat.mul_comm; apply Nat.mod_mul; lia|].
    assert (Hf : length (skipn (length payload - o) payload ++ repeat (N.of_nat (bs - o - 1) mod 256)%N (bs - o)) = bs).
    { rewrite app_length, skipn_length, repeat_length. lia. }
    split; [exact Hf|].
    rewrite app_length, Hp, Hf.
    replace (bs * q + bs) with ((q + 1) * bs) by lia.
    apply Nat.mod_mul. lia.
Qed.

(* distinct sequence numbers give distinct GCM nonces *)
Lemma gcm_nonce_injective_lemma salt s1 s2 :
  (s1 < 2 ^ 64)%N -> (s2 < 2 ^ 64)%N ->
  gcm_nonce salt (be64 s1) = gcm_nonce salt (be64 s2) -> s1 = s2.
Proof.
  intros H1 H2 H. unfold gcm_nonce in H. apply app_inv_head in H. apply be64_inj; assumption.
Qed.
