(* GCM (NIST SP 800-38D) over an arbitrary 128-bit block cipher, 96-bit IVs only (the only IV
   length TLS / GM/T 0024 uses), 128-bit tags.  Specification; never looks at the Go code.
   The block cipher is a parameter [E : block -> block] (already keyed), so that the record-layer
   proofs can keep it abstract and the runner can plug in SM4.

   Blocks are handled as 128-bit numbers (N), the leftmost bit of the standard (bit 0) being the
   most significant bit of the number. *)
From Coq Require Import List NArith Arith.
Import ListNotations.
Local Open Scope N_scope.

Notation byte := N (only parsing).

(* ---------- bytes <-> numbers -------------------------------------------------------------------- *)
Definition be_to_N (l : list byte) : N := fold_left (fun acc b => acc * 256 + b) l 0.

(* the k-byte big-endian representation of (the low 8k bits of) n *)
Fixpoint be_bytes (k : nat) (n : N) : list byte :=
  match k with
  | O => []
  | S k' => be_bytes k' (n / 256) ++ [n mod 256]
  end.

Fixpoint xor_bytes (a b : list byte) : list byte :=
  match a, b with
  | x :: a', y :: b' => N.lxor x y :: xor_bytes a' b'
  | _, _ => []
  end.

(* a 16-byte block from at most 16 bytes, zero padded on the right *)
Definition pad16 (l : list byte) : list byte := l ++ repeat 0 (16 - length l).

(* ---------- 6.3 multiplication in GF(2^128) ------------------------------------------------------- *)
Definition R_poly : N := 0xe1 * 2 ^ 120.

(* step i of Algorithm 1: Z, V -> Z', V' with x_i = bit i (from the left) of X *)
Fixpoint gf_mul_loop (n : nat) (i : N) (X Z V : N) : N :=
  match n with
  | O => Z
  | S n' =>
    let Z' := if N.testbit X (127 - i) then N.lxor Z V else Z in
    let V' := if N.testbit V 0 then N.lxor (N.shiftr V 1) R_poly else N.shiftr V 1 in
    gf_mul_loop n' (i + 1) X Z' V'
  end.

Definition gf_mul (X Y : N) : N := gf_mul_loop 128 0 X 0 Y.

(* ---------- 6.4 GHASH ----------------------------------------------------------------------------- *)
(* [ghash_blocks fuel H Y data]: data is consumed 16 bytes at a time (a short last block is zero padded) *)
Fixpoint ghash_blocks (fuel : nat) (H Y : N) (data : list byte) : N :=
  match fuel with
  | O => Y
  | S fuel' =>
    match data with
    | [] => Y
    | _ => ghash_blocks fuel' H (gf_mul (N.lxor Y (be_to_N (pad16 (firstn 16 data)))) H) (skipn 16 data)
    end
  end.

Definition ghash (H : N) (A C : list byte) : N :=
  let Y1 := ghash_blocks (length A) H 0 A in
  let Y2 := ghash_blocks (length C) H Y1 C in
  gf_mul (N.lxor Y2 (be_to_N (be_bytes 8 (8 * N.of_nat (length A)) ++ be_bytes 8 (8 * N.of_nat (length C))))) H.

(* ---------- 6.2 inc32, 6.5 GCTR ------------------------------------------------------------------- *)
Definition inc32 (cb : list byte) : list byte :=
  firstn 12 cb ++ be_bytes 4 ((be_to_N (skipn 12 cb) + 1) mod 2 ^ 32).

Section GCM.
  Variable E : list byte -> list byte.     (* the keyed block cipher on 16-byte blocks *)

  Fixpoint gctr (fuel : nat) (cb : list byte) (x : list byte) : list byte :=
    match fuel with
    | O => []
    | S fuel' =>
      match x with
      | [] => []
      | _ => xor_bytes (firstn 16 x) (E cb) ++ gctr fuel' (inc32 cb) (skipn 16 x)
      end
    end.

  Definition gcm_H : N := be_to_N (E (repeat 0 16)).
  Definition gcm_J0 (iv : list byte) : list byte := iv ++ [0; 0; 0; 1].     (* |iv| = 12 *)

  Definition gcm_tag (iv A C : list byte) : list byte :=
    xor_bytes (be_bytes 16 (ghash gcm_H A C)) (E (gcm_J0 iv)).

  (* 7.1 authenticated encryption: ciphertext followed by the 16-byte tag (the layout of Go's Seal) *)
  Definition gcm_seal (iv A P : list byte) : list byte :=
    let C := gctr (length P) (inc32 (gcm_J0 iv)) P in
    C ++ gcm_tag iv A C.

  Definition bytes_eqb (a b : list byte) : bool :=
    (length a =? length b)%nat && forallb (fun p => N.eqb (fst p) (snd p)) (combine a b).

  (* 7.2 authenticated decryption of ciphertext-followed-by-tag; None = FAIL *)
  Definition gcm_open (iv A CT : list byte) : option (list byte) :=
    if (length CT <? 16)%nat then None
    else
      let C := firstn (length CT - 16) CT in
      let T := skipn (length CT - 16) CT in
      if bytes_eqb T (gcm_tag iv A C) then Some (gctr (length C) (inc32 (gcm_J0 iv)) C) else None.
End GCM.

(* ---------- tests of this transcription ------------------------------------------------------------
   GF(2^128) multiplication and GHASH do not depend on the block cipher: they are checked against the
   AES-based test cases 1 and 2 of the GCM specification (McGrew-Viega), using only the published
   H, C and GHASH values (no AES needed).  Test case 2: H = 66e94bd4ef8a2c3b884cfa59ca342b2e,
   C = 0388dace60b6a392f328c2b971b2fe78, len block 00..00 0000000000000080,
   GHASH(H, {}, C) = f38cbb1ad69223dcc3457ae5b6b0f885. *)
Example ghash_test_case_2 :
  ghash 0x66e94bd4ef8a2c3b884cfa59ca342b2e []
        (be_bytes 16 0x0388dace60b6a392f328c2b971b2fe78) = 0xf38cbb1ad69223dcc3457ae5b6b0f885.
Proof. vm_compute. reflexivity. Qed.

(* test case 1: GHASH(H, {}, {}) = 0 *)
Example ghash_test_case_1 : ghash 0x66e94bd4ef8a2c3b884cfa59ca342b2e [] [] = 0.
Proof. vm_compute. reflexivity. Qed.

Example inc32_wraps : inc32 (repeat 7 12 ++ [255; 255; 255; 255]) = repeat 7 12 ++ [0; 0; 0; 0].
Proof. vm_compute. reflexivity. Qed.
