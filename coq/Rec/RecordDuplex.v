(* Proofs about the record-layer model, part 7: both directions of a connection.  When readRecord fails
   on an inbound record it hands a fatal alert to sendAlert: the alert leaves through c.out as one
   protected record, c.out.err and c.in.err are set (the endpoint neither reads nor writes any more), and
   the peer - which has read everything sent before, in order - reads the alert and fails in turn: its
   Read returns the error forever.  Nothing is delivered in either direction after the failure. *)
From Coq Require Import List NArith Arith Bool Lia ZifyN ZifyNat ZifyBool.
From GmsmVerif Require Import Lib.Outcome Rec.RecordSpec Rec.RecordModel Rec.RecordProofs Rec.RecordRoundtrip
  Rec.RecordIntegrity Rec.RecordFragment Rec.RecordProgress.
Import ListNotations.

Section Duplex.
  Variable P : prims.
  Hypothesis Hok : prims_ok P.
  Hypothesis Hexp : p_bs P + p_macSize P + p_bs P + p_overhead P + 8 <= 2048.
  Hypothesis Hmp : forall c typ e, e <= 8 + p_bs P -> 1 <= fst (maxPayloadSizeForWrite P c typ e).

  (* ---------- a new alert means the receiving side has failed -------------------------------------------------- *)
  Lemma readRecord_alerts fuel : forall c c', readRecord P fuel c = Ok c' ->
    i_alerts c' = i_alerts c \/ hc_err (i_hc c') = true.
  Proof.
    induction fuel as [|fuel IH]; intros c c' H; cbn [readRecord] in H; [discriminate|].
    break_hyps; cbn [in_fail i_hc i_alerts setErrorLocked hc_err]; auto.
    apply IH in H. cbn [i_alerts] in H. exact H.
  Qed.

  Lemma conn_Read_loop_alerts e fuel : forall c L c' out err, conn_Read_loop P e fuel c L = Ok (c', out, err) ->
    i_alerts c' = i_alerts c \/ hc_err (i_hc c') = true.
  Proof.
    induction e as [|e IH]; intros c L c' out err H; cbn [conn_Read_loop] in H;
      (set (X := match i_input c with
                 | None => if hc_err (i_hc c) then Ok c else readRecord P fuel c
                 | Some _ => Ok c
                 end) in H;
       assert (HX : forall c1, X = Ok c1 -> i_alerts c1 = i_alerts c \/ hc_err (i_hc c1) = true);
       [unfold X; intros c1 E1; destruct (i_input c);
          [injection E1 as <-; auto|destruct (hc_err (i_hc c)); [injection E1 as <-; auto|exact (readRecord_alerts _ _ _ E1)]]|];
       destruct X as [c1| | |]; cbn [obind] in H; try discriminate; specialize (HX c1 eq_refl);
       destruct (hc_err (i_hc c1)) eqn:E1; [injection H as <- _ _; auto|];
       destruct HX as [HX|HX]; [|discriminate];
       destruct (i_input c1) as [d|]; [|injection H as <- _ _; auto];
       destruct (firstn L d);
         [|cbn [i_input i_raw] in H; destruct (skipn L d);
           [destruct (i_raw c1) as [|t rr];
            [injection H as <- _ _; cbn [i_alerts]; auto
            |destruct (t =? recordTypeAlert)%N;
             [destruct (readRecord P fuel _) as [c3| | |] eqn:Er3; cbn [obind] in H; try discriminate;
              injection H as <- _ _; apply readRecord_alerts in Er3; cbn [i_alerts] in Er3;
              destruct Er3 as [Er3|Er3]; [left; congruence|right; exact Er3]
             |injection H as <- _ _; cbn [i_alerts]; auto]]
           |injection H as <- _ _; cbn [i_alerts]; auto]]).
    - injection H as <- _ _. cbn [i_alerts]. auto.
    - apply IH in H. cbn [i_alerts i_hc] in H. destruct H as [H|H]; [left; congruence|right; exact H].
  Qed.

  Theorem duplex_alert_means_failed fuel c L c' out err recs :
    conn_Read_duplex P fuel c L = Ok (c', out, err, recs) -> recs <> [] ->
    hc_err (i_hc (c_in c')) = true.
  Proof.
    unfold conn_Read_duplex. intros H Hne.
    destruct (conn_Read P fuel (c_in c) L) as [[[cin' o] e]| | |] eqn:Er; cbn [obind] in H; try discriminate.
    assert (Ha : i_alerts cin' = i_alerts (c_in c) \/ hc_err (i_hc cin') = true).
    { unfold conn_Read in Er. destruct (L =? 0); [injection Er as <- _ _; auto|].
      eapply conn_Read_loop_alerts; exact Er. }
    destruct Ha as [Ha|Ha].
    - rewrite Ha, Nat.sub_diag in H. cbn [firstn] in H. injection H as _ _ _ <-. congruence.
    - destruct (firstn _ _); [injection H as _ _ _ <-; congruence|].
      destruct (sendAlertLocked P fuel (c_out c) _) as [[[co r] e2]| | |]; cbn [obind] in H; try discriminate.
      injection H as <- _ _ _. exact Ha.
  Qed.

  (* ---------- the sending half connection after a chain of records -------------------------------------------- *)
  Lemma chain_state typ hc recs frs hc' : chain P typ hc recs frs hc' ->
    forall s, protected hc -> hc_seq hc = be64 s -> (s + N.of_nat (length recs) < 2 ^ 64)%N ->
    protected hc' /\ hc_seq hc' = be64 (s + N.of_nat (length recs)).
  Proof.
    induction 1 as [hc|hc hc1 hc2 eiv fr rec_ recs frs He Heb Hnon Hfr Henc Hch IH]; intros s Hp Hs Hb.
    - cbn [length]. rewrite N.add_0_r. auto.
    - cbn [length] in Hb |- *.
      destruct (encrypt_fields P _ _ _ _ _ Henc) as [_ [_ [Hmac [Hk Hl]]]].
      rewrite Hs, incSeq_loop_be64 in Hl by lia.
      destruct (N.eqb_spec s (2 ^ 64 - 1)); [lia|]. injection Hl as Hl.
      destruct (IH (s + 1)%N (protected_kind _ _ Hp Hk Hmac) (eq_sym Hl) ltac:(lia)) as [Hp' Hs'].
      split; [exact Hp'|]. rewrite Hs'. f_equal. lia.
  Qed.

  (* ---------- sendAlertLocked with a fatal alert: one record, c.out.err set ------------------------------------ *)
  Lemma sendAlert_fatal fuel c a s :
    sender_ok c -> protected (o_hc c) -> hc_seq (o_hc c) = be64 s -> (s < 2 ^ 64 - 1)%N ->
    p_bs P <= length (o_rand c) -> (a =? alertNoRenegotiation)%N = false -> (a =? alertCloseNotify)%N = false ->
    exists c1 r eiv,
      sendAlertLocked P (S (S fuel)) c a = Ok (out_set_err c1 true, [r], true) /\
      length eiv = explicit_len P (hc_cipher (o_hc c)) /\ bytes_ok eiv /\
      encrypt P (o_hc c) ([recordTypeAlert; 1; 1]%N ++ len_bytes 2 ++ eiv ++ [alertLevelError; a]) (length eiv)
        = Ok (o_hc c1, r).
  Proof.
    intros Hs Hp Hseq Hlt Hr Ha1 Ha2. unfold sendAlertLocked. rewrite Ha1, Ha2. cbn [orb].
    set (data := [alertLevelError; a]).
    edestruct (writeRecord_step_progress P) with (typ := recordTypeAlert) (c := c) (data := data) (s := s)
      as [c1 [r [m [Hstep [_ Hm]]]]]; try eassumption.
    specialize (Hm eq_refl).
    assert (Hm2 : m = 2).
    { rewrite Hm. cbn [data length]. destruct (Nat.ltb_spec maxPlaintext 2); [unfold maxPlaintext in *; lia|reflexivity]. }
    subst m.
    destruct (writeRecord_step_chain P Hok Hexp _ _ _ _ _ _ Hs Hstep) as [_ [_ [Hch _]]].
    inversion Hch as [|? hc1 ? eiv fr ? ? ? Hel Heb Hnon Hfr Henc Hnil]; subst. inversion Hnil; subst.
    exists c1, r, eiv.
    cbn [writeRecordLocked]. fold data. rewrite Hstep. cbn [obind skipn data writeRecordLocked].
    split; [reflexivity|]. split; [exact Hel|]. split; [exact Heb|]. exact Henc.
  Qed.

  (* ---------- the peer reads a fatal alert: permanent error, nothing delivered ---------------------------------- *)
  Lemma readRecord_fatal_alert fuel hcR hcR' body a rest inp warn alerts trace :
    let rec_ := [recordTypeAlert; 1; 1]%N ++ len_bytes (length body) ++ body in
    length body <= maxCiphertext ->
    decrypt P hcR rec_ = Ok (hcR', Some [alertLevelError; a]) -> (a =? alertCloseNotify)%N = false ->
    exists c', readRecord P (S fuel) (mkIn hcR VersionGMSSL (rec_ ++ rest) inp warn alerts trace) = Ok c' /\
               hc_err (i_hc c') = true /\ i_input c' = inp /\ i_alerts c' = alerts.
  Proof.
    intros rec_ Hb Hd Ha.
    assert (Hlen : length rec_ = 5 + length body) by (unfold rec_; rewrite !app_length; reflexivity).
    set (b := rec_ ++ rest).
    set (L := N.of_nat (length body)).
    assert (HL : (L < 65536)%N) by (unfold L, maxCiphertext in *; lia).
    assert (Hb0 : nth 0 b 0%N = recordTypeAlert) by reflexivity.
    assert (Hb1 : nth 1 b 0%N = 1%N) by reflexivity.
    assert (Hb2 : nth 2 b 0%N = 1%N) by reflexivity.
    assert (Hb3 : nth 3 b 0%N = ((L / 256) mod 256)%N) by reflexivity.
    assert (Hb4 : nth 4 b 0%N = (L mod 256)%N) by reflexivity.
    cbn [readRecord i_raw i_vers i_hc i_input i_warnCount i_alerts i_trace]. fold b.
    rewrite Hb0, Hb1, Hb2, Hb3, Hb4, (len_bytes_value L HL). unfold L. rewrite Nat2N.id.
    assert (E1 : length b <? recordHeaderLen = false).
    { apply Nat.ltb_ge. unfold b. rewrite app_length, Hlen. unfold recordHeaderLen. lia. }
    assert (E3 : maxCiphertext <? length body = false) by (apply Nat.ltb_ge; exact Hb).
    assert (E4 : length b <? recordHeaderLen + length body = false).
    { apply Nat.ltb_ge. unfold b. rewrite app_length, Hlen. unfold recordHeaderLen. lia. }
    rewrite E1, E3, E4.
    change (negb ((1 * 256 + 1 =? VersionGMSSL)%N)) with false. cbv iota.
    unfold b. rewrite firstn_app_exact, skipn_app_exact by (unfold recordHeaderLen; lia).
    rewrite Hd. cbn [obind].
    assert (E5 : maxPlaintext <? length [alertLevelError; a] = false).
    { apply Nat.ltb_ge. cbn [length]. unfold maxPlaintext. lia. }
    rewrite E5.
    change ((recordTypeAlert =? recordTypeAlert)%N) with true.
    cbn [negb andb length Nat.eqb nth]. rewrite Ha.
    change ((alertLevelError =? alertLevelWarning)%N) with false.
    change ((alertLevelError =? alertLevelError)%N) with true. cbv iota.
    eexists. split; [reflexivity|]. cbn [in_fail i_hc i_input i_alerts setErrorLocked hc_err]. auto.
  Qed.

  (* ---------- both directions stop ------------------------------------------------------------------------------- *)
  (* A wrote [writes] (records recs) and then, because its readRecord failed, sends the fatal alert a.
     Then: A's c.out carries the error, so every later Write of A fails without writing anything; B - whose
     receiving half connection matches A's sending one - delivers exactly the bytes A wrote before, reads
     the alert, and ends in the permanent error state, whatever else (tail) follows on the wire. *)
  Theorem duplex_fatal_alert fuelW cw writes cw1 recs s0 hcR a fuelA fuel rounds tail :
    sender_ok cw -> protected (o_hc cw) -> hc_seq (o_hc cw) = be64 s0 ->
    (s0 + N.of_nat (length recs) + 1 < 2 ^ 64)%N ->
    write_calls P fuelW cw writes = Ok (cw1, recs, false) -> bytes_ok (concat writes) ->
    p_bs P <= length (o_rand cw1) ->
    (a < 256)%N -> (a =? alertNoRenegotiation)%N = false -> (a =? alertCloseNotify)%N = false ->
    same_keys (o_hc cw) hcR -> hc_version hcR = VersionGMSSL -> hc_err hcR = false ->
    length recs + 1 < rounds ->
    exists cw2 r cR',
      sendAlertLocked P (S (S fuelA)) cw1 a = Ok (cw2, [r], true) /\
      hc_err (o_hc cw2) = true /\
      (forall f b, conn_Write P f cw2 b = Ok (cw2, [], 0, true)) /\
      recv_all P rounds (S fuel) (receiver0 hcR VersionGMSSL (concat recs ++ r ++ tail)) = Ok (concat writes, cR') /\
      hc_err (i_hc cR') = true.
  Proof.
    intros Hs Hp Hseq Hb Hw Hbytes Hr Ha Ha1 Ha2 Hk Hv He Hrounds.
    destruct (write_calls_chain P Hok Hexp _ _ _ _ _ Hs Hw) as [Hs1 [frs [Hch Hcat]]].
    destruct (chain_state _ _ _ _ _ Hch s0 Hp Hseq ltac:(lia)) as [Hp1 Hseq1].
    destruct (sendAlert_fatal fuelA cw1 a _ Hs1 Hp1 Hseq1 ltac:(lia) Hr Ha1 Ha2) as [c1 [r [eiv [Hsend [Hel [Heb Henc]]]]]].
    exists (out_set_err c1 true), r.
    assert (Hfb : Forall bytes_ok frs) by (apply bytes_ok_concat_inv; rewrite Hcat; exact Hbytes).
    destruct (chain_recv P Hok Hexp _ _ _ _ Hch s0 hcR Hk Hseq ltac:(lia) Hv He Hfb (r ++ tail) 0 [] []
                (rounds - length recs) fuel)
      as [hcR' [warn' [trace' [He' [Hv' [Hk' Heq]]]]]].
    replace (length recs + (rounds - length recs)) with rounds in Heq by lia.
    (* the alert record at the peer *)
    assert (Hfrag : bytes_ok [alertLevelError; a]).
    { unfold bytes_ok. constructor; [reflexivity|]. constructor; [exact Ha|constructor]. }
    destruct (decrypt_encrypt_record_ok P Hok (o_hc cw1) hcR' _ [recordTypeAlert; 1; 1]%N eiv [alertLevelError; a]
                Hk' Hseq1 ltac:(lia) Hv' eq_refl Hel Heb Hfrag
                ltac:(cbn [length]; change (2 ^ 30)%N with 1073741824%N; lia))
      as [w' [rec' [r' [Henc' [Hdec [_ [_ [_ [_ [_ [_ [_ [body [Hshape Hbody]]]]]]]]]]]]]].
    cbn [app length] in Henc, Henc'. rewrite Henc in Henc'. injection Henc' as <- <-.
    assert (Hbody' : length body <= maxCiphertext).
    { pose proof (explicit_len_le P Hexp (hc_cipher (o_hc cw1))). cbn [length] in Hbody. unfold maxCiphertext. lia. }
    destruct (rounds - length recs) as [|r0] eqn:Er; [lia|].
    destruct (readRecord_fatal_alert fuel hcR' r' body a tail None warn' [] trace' Hbody'
                ltac:(rewrite <- Hshape; exact Hdec) Ha2) as [c' [Hrd [Herr' [Hin' _]]]].
    exists c'.
    split; [exact Hsend|]. split; [reflexivity|].
    split.
    { intros f b. unfold conn_Write. cbn [out_set_err o_hc setErrorLocked hc_err]. reflexivity. }
    unfold receiver0. rewrite Heq.
    cbn [recv_all i_hc]. rewrite He'. rewrite Hshape, Hrd. cbn [obind]. rewrite Hin', Herr'. cbn [obind].
    rewrite app_nil_r, Hcat. auto.
  Qed.
End Duplex.
