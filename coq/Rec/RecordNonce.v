(* Proofs about the record-layer model, part 10: the explicit nonce of the AEAD suites.  writeRecordLocked
   copies the sequence number into the explicit nonce; so over any history of Write calls on one connection
   (fewer than 2^64 records) record j carries the explicit nonce be64 (s0 + j), is sealed under the nonce
   salt || be64 (s0 + j) with additional data seq || type || version || length, and the nonces are pairwise
   distinct.  (Sibling of cbc_iv_from_stream for the CBC suite.) *)
From Coq Require Import List NArith Arith Bool Lia ZifyN ZifyNat ZifyBool.
From GmsmVerif Require Import Lib.Outcome Rec.RecordSpec Rec.RecordModel Rec.RecordProofs Rec.RecordRoundtrip
  Rec.RecordIntegrity Rec.RecordFragment.
Import ListNotations.

(* the explicit nonce field of a record on the wire: the 8 bytes behind the header *)
Definition explicit_nonce (rec_ : list N) : list N := firstn 8 (skipn 5 rec_).

Section Nonce.
  Variable P : prims.
  Hypothesis Hok : prims_ok P.
  Hypothesis Hexp : p_bs P + p_macSize P + p_bs P + p_overhead P + 8 <= 2048.

  (* one pass of the loop of writeRecordLocked with an AEAD cipher: the explicit nonce is the sequence number *)
  Lemma gcm_nonce_is_seq_lemma c typ data c1 rec_ m key fixed s :
    hc_cipher (o_hc c) = CipherAEAD key fixed -> hc_mac (o_hc c) = None ->
    hc_seq (o_hc c) = be64 s -> (s < 2 ^ 64 - 1)%N ->
    writeRecord_step P c typ data = Ok (Some (c1, rec_, m)) ->
    o_rand c1 = o_rand c /\
    exists hdr hdr', length hdr = 5 /\ length hdr' = 5 /\ firstn 3 hdr = firstn 3 hdr' /\
      encrypt P (o_hc c) (hdr ++ be64 s ++ firstn m data) 8 = Ok (o_hc c1, rec_) /\
      rec_ = hdr' ++ be64 s ++ p_seal P key (gcm_nonce fixed (be64 s))
                                    (be64 s ++ firstn 3 hdr ++ len_bytes (length (firstn m data))) (firstn m data).
  Proof.
    clear Hexp. intros Ec Em Hs Hlt H. unfold writeRecord_step in H. rewrite Ec in H.
    change (0 <? 0) with false in H. cbv beta iota zeta in H.
    destruct (maxPayloadSizeForWrite P c typ 8) as [maxPayload pkts].
    set (m0 := if maxPayload <? length data then maxPayload else length data) in *.
    assert (He8 : firstn 8 (hc_seq (o_hc c)) = be64 s) by (rewrite Hs; apply firstn_all2; unfold be64; rewrite be_length; lia).
    rewrite He8 in H.
    destruct (encrypt P (o_hc c) _ 8) as [[hc' r]| | |] eqn:Ee; cbn [obind] in H; try discriminate.
    injection H as <- <- <-. split; [reflexivity|].
    set (vers := if (o_vers c =? 0)%N then VersionTLS10 else o_vers c) in *.
    set (h3 := [typ; ((vers / 256) mod 256)%N; (vers mod 256)%N]) in *.
    assert (Hm0 : length (firstn m0 data) = m0).
    { rewrite firstn_length. unfold m0. destruct (Nat.ltb_spec maxPayload (length data)); lia. }
    pose proof (encrypt_aead_shape P Hok (o_hc c) key fixed s h3 (be64 s) (firstn m0 data) Ec Em Hs Hlt eq_refl
                  ltac:(unfold be64; apply be_length)) as Hshape.
    cbv zeta in Hshape. rewrite Hm0 in Hshape at 1.
    change ((h3 ++ len_bytes m0) ++ be64 s ++ firstn m0 data) with (h3 ++ len_bytes m0 ++ be64 s ++ firstn m0 data) in Ee.
    rewrite <- app_assoc in Hshape. rewrite Ee in Hshape. apply Ok_inj in Hshape. apply pair_equal_spec in Hshape. destruct Hshape as [Hhc Hr].
    exists (h3 ++ len_bytes m0), (put_len (h3 ++ len_bytes (length (firstn m0 data))) (8 + (length (firstn m0 data) + p_overhead P))).
    split; [reflexivity|]. split; [apply put_len_length; reflexivity|].
    split; [reflexivity|]. split.
    - cbn [out_with o_hc]. rewrite <- app_assoc. exact Ee.
    - rewrite Hr. reflexivity.
  Qed.

  (* ---------- a chain of records of an AEAD half connection ---------------------------------------------------- *)
  Lemma chain_aead typ hc recs frs hc' : chain P typ hc recs frs hc' ->
    forall key fixed s, hc_cipher hc = CipherAEAD key fixed -> hc_mac hc = None -> hc_seq hc = be64 s ->
      (s + N.of_nat (length recs) < 2 ^ 64)%N ->
      forall j r, nth_error recs j = Some r ->
        exists fr hdr', nth_error frs j = Some fr /\ length hdr' = 5 /\
          r = hdr' ++ be64 (s + N.of_nat j) ++
              p_seal P key (gcm_nonce fixed (be64 (s + N.of_nat j)))
                     (aad (s + N.of_nat j) typ VersionGMSSL (length fr)) fr.
  Proof.
    induction 1 as [hc|hc hc1 hc2 eiv fr rec_ recs frs He Heb Hnon Hfr Henc Hch IH];
      intros key fixed s Ec Em Hs Hb j r Hj.
    - destruct j; discriminate.
    - cbn [length] in Hb.
      assert (Heiv : eiv = be64 s) by (rewrite <- Hs; apply Hnon; rewrite Ec; reflexivity).
      subst eiv.
      pose proof (encrypt_aead_shape P Hok hc key fixed s [typ; 1; 1]%N (be64 s) fr Ec Em Hs ltac:(lia) eq_refl
                    ltac:(unfold be64; apply be_length)) as Hshape.
      cbv zeta in Hshape. rewrite <- app_assoc in Hshape.
      replace (length (be64 s)) with 8 in Henc by (unfold be64; rewrite be_length; reflexivity).
      cbn [app] in Henc, Hshape. rewrite Henc in Hshape. apply Ok_inj in Hshape. apply pair_equal_spec in Hshape. destruct Hshape as [Hhc Hr].
      destruct j as [|j].
      + cbn [nth_error] in Hj |- *. injection Hj as <-. exists fr. eexists. split; [reflexivity|].
        split; [|rewrite N.add_0_r; rewrite Hr; reflexivity].
        apply put_len_length. reflexivity.
      + cbn [nth_error] in Hj |- *.
        destruct (IH key fixed (s + 1)%N ltac:(rewrite Hhc; reflexivity) ltac:(rewrite Hhc; reflexivity)
                     ltac:(rewrite Hhc; reflexivity) ltac:(lia) j r Hj) as [fr' [hdr' [H1 [H2 H3]]]].
        exists fr', hdr'. split; [exact H1|]. split; [exact H2|].
        replace (s + N.of_nat (S j))%N with (s + 1 + N.of_nat j)%N by lia. exact H3.
  Qed.

  Lemma explicit_nonce_of hdr' n body : length hdr' = 5 -> length n = 8 -> explicit_nonce (hdr' ++ n ++ body) = n.
  Proof.
    intros H5 H8. unfold explicit_nonce. rewrite skipn_app_exact by (symmetry; exact H5).
    apply firstn_app_exact. symmetry; exact H8.
  Qed.

  Lemma chain_aead_nonces typ hc recs frs hc' key fixed s :
    chain P typ hc recs frs hc' -> hc_cipher hc = CipherAEAD key fixed -> hc_mac hc = None -> hc_seq hc = be64 s ->
    (s + N.of_nat (length recs) < 2 ^ 64)%N ->
    map explicit_nonce recs = map (fun j => be64 (s + N.of_nat j)) (seq 0 (length recs)).
  Proof.
    intros Hch Ec Em Hs Hb.
    apply nth_ext with (d := []) (d' := []); [rewrite !map_length, seq_length; reflexivity|].
    intros j Hj. rewrite map_length in Hj.
    destruct (nth_error recs j) as [r|] eqn:Er; [|apply nth_error_None in Er; lia].
    destruct (chain_aead _ _ _ _ _ Hch key fixed s Ec Em Hs Hb j r Er) as [fr [hdr' [_ [H5 Hr]]]].
    transitivity (explicit_nonce r).
    { rewrite (nth_indep _ [] (explicit_nonce [])) by (rewrite map_length; exact Hj).
      rewrite map_nth. rewrite (nth_error_nth _ _ _ Er). reflexivity. }
    transitivity ((fun j0 => be64 (s + N.of_nat j0)) (nth j (seq 0 (length recs)) 0)).
    { rewrite seq_nth by exact Hj. cbn [Nat.add]. rewrite Hr. apply explicit_nonce_of; [exact H5|unfold be64; apply be_length]. }
    rewrite (nth_indep _ [] ((fun j0 => be64 (s + N.of_nat j0)) 0)) by (rewrite map_length, seq_length; exact Hj).
    symmetry. apply (map_nth (fun j0 => be64 (s + N.of_nat j0))).
  Qed.

  Lemma NoDup_map_inj_in {A B} (f : A -> B) (l : list A) :
    (forall a b, In a l -> In b l -> f a = f b -> a = b) -> NoDup l -> NoDup (map f l).
  Proof.
    intros Hinj Hnd. induction Hnd as [|x l Hx Hnd IH]; cbn [map]; constructor.
    - intros Hin. apply in_map_iff in Hin. destruct Hin as [y [Hy Hyl]].
      apply Hx. rewrite <- (Hinj y x); [exact Hyl|right; exact Hyl|left; reflexivity|exact Hy].
    - apply IH. intros a b Ha Hb. apply Hinj; right; assumption.
  Qed.

  Lemma be64_seq_NoDup s n : (s + N.of_nat n < 2 ^ 64)%N -> NoDup (map (fun j => be64 (s + N.of_nat j)) (seq 0 n)).
  Proof.
    intros Hb. apply NoDup_map_inj_in; [|apply seq_NoDup].
    intros a b Ha Hb' E. apply in_seq in Ha, Hb'. apply be64_inj in E; lia.
  Qed.

  (* ---------- any history of Write calls ------------------------------------------------------------------------ *)
  Theorem gcm_nonces_never_repeat fuel cw writes cw' recs key fixed s0 :
    sender_ok cw -> hc_cipher (o_hc cw) = CipherAEAD key fixed -> hc_mac (o_hc cw) = None ->
    hc_seq (o_hc cw) = be64 s0 -> (s0 + N.of_nat (length recs) < 2 ^ 64)%N ->
    write_calls P fuel cw writes = Ok (cw', recs, false) ->
    map explicit_nonce recs = map (fun j => be64 (s0 + N.of_nat j)) (seq 0 (length recs)) /\
    NoDup (map explicit_nonce recs) /\
    exists frs, concat frs = concat writes /\
      forall j r, nth_error recs j = Some r ->
        exists fr hdr', nth_error frs j = Some fr /\ length hdr' = 5 /\
          r = hdr' ++ be64 (s0 + N.of_nat j) ++
              p_seal P key (gcm_nonce fixed (be64 (s0 + N.of_nat j)))
                     (aad (s0 + N.of_nat j) recordTypeApplicationData VersionGMSSL (length fr)) fr.
  Proof.
    intros Hs Ec Em Hseq Hb Hw.
    destruct (write_calls_chain P Hok Hexp _ _ _ _ _ Hs Hw) as [_ [frs [Hch Hcat]]].
    pose proof (chain_aead_nonces _ _ _ _ _ key fixed s0 Hch Ec Em Hseq Hb) as Hn.
    split; [exact Hn|]. split; [rewrite Hn; apply be64_seq_NoDup; exact Hb|].
    exists frs. split; [exact Hcat|]. exact (chain_aead _ _ _ _ _ Hch key fixed s0 Ec Em Hseq Hb).
  Qed.
End Nonce.
