(* Proofs about the record-layer model, part 10: the explicit nonce of the AEAD suites.  writeRecordLocked
   copies the sequence number into the explicit nonce; so over any history of Write calls on one connection
   (fewer than 2^64 records) record j carries the explicit nonce be64 (s0 + j), is sealed under the nonce
   salt || be64 (s0 + j) with additional data seq || type || version || length, and the nonces are pairwise
   distinct.  (Sibling of cbc_iv_from_stream for the CBC suite.) *)
From Coq Require Import List NArith Arith Bool Lia ZifyN ZifyNat ZifyBool.
From GmsmVerif Require Import Lib.Outcome Rec.RecordSpec Rec.RecordModel Rec.RecordProofs Rec.RecordRoundtrip
  Rec.RecordIntegrity Rec.RecordFragment.
Import ListNotations.

(* the explicit nonce field of a record on the wire: the 8 bytes behind the header *)
Definition explicit_nonce (rec_ : list N) : list N := firstn 8 (skipn 5 rec_).

Section Nonce.
  Variable P : prims.
  Hypothesis Hok : prims_ok P.
  Hypothesis Hexp : p_bs P + p_macSize P + p_bs P + p_overhead P + 8 <= 2048.

  (* one pass of the loop of writeRecordLocked with an AEAD cipher: the explicit nonce is the sequence number *)
  Lemma gcm_nonce_is_seq_lemma c typ data c1 rec_ m key fixed s :
    hc_cipher (o_hc c) = CipherAEAD key fixed -> hc_mac (o_hc c) = None ->
    hc_seq (o_hc c) = be64 s -> (s < 2 ^ 64 - 1)%N ->
    writeRecord_step P c typ data = Ok (Some (c1, rec_, m)) ->
    o_rand c1 = o_rand c /\
    exists hdr hdr', length hdr = 5 /\ length hdr' = 5 /\ firstn 3 hdr = firstn 3 hdr' /\
      encrypt P (o_hc c) (hdr ++ be64 s ++ firstn m data) 8 = Ok (o_hc c1, rec_) /\
      rec_ = hdr' ++ be64 s ++ p_seal P key (gcm_nonce fixed (be64 s))
                                    (be64 s ++ firstn 3 hdr ++ len_bytes (length (firstn m data))) (firstn m data).
  Proof.
    clear Hexp. intros Ec Em Hs Hlt H. unfold writeRecord_step in H. rewrite Ec in H.
    change (0 <? 0) with false in H. cbv beta iota zeta in H.
    destruct (maxPayloadSizeForWrite P c typ 8) as [maxPayload pkts].
    set (m0 := if maxPayload <? length data then maxPayload else length data) in *.
    assert (He8 : firstn 8 (hc_seq (o_hc c)) = be64 s) by (rewrite Hs; apply firstn_all2; unfold be64; rewrite be_length; lia).
    rewrite He8 in H.
    destruct (encrypt P (o_hc c) _ 8) as [[hc' r]| | |] eqn:Ee; cbn [obind] in H; try discriminate.
    injection H as <- <- <-. split; [reflexivity|].
    set (vers := if (o_vers c =? 0)%N then VersionTLS10 else o_vers c) in *.
    set (h3 := [typ; ((vers / 256) mod 256)%N; (vers mod 256)%N]) in *.
    assert (Hm0 : length (firstn m0 data) = m0).
    { rewrite firstn_length. unfold m0. destruct (Nat.ltb_spec maxPayload (length data)); lia. }
    pose proof (encrypt_aead_shape P Hok (o_hc c) key fixed s h3 (be64 s) (firstn m0 data) Ec Em Hs Hlt eq_refl
                  ltac:(unfold be64; apply be_length)) as Hshape.
    cbv zeta in Hshape. rewrite Hm0 in Hshape at 1.
    change ((h3 ++ len_bytes m0) ++ be64 s ++ firstn m0 data) with (h3 ++ len_bytes m0 ++ be64 s ++ firstn m0 data) in Ee.
    rewrite <- app_assoc in Hshape. rewrite Ee in Hshape. apply Ok_inj in Hshape. apply pair_equal_spec in Hshape. destruct Hshape as [Hhc Hr].
    exists (h3 ++ len_bytes m0), (put_len (h3 ++ len_bytes (length (firstn m0 data))) (8 + (length (firstn m0 data) + p_overhead P))).
    split; [reflexivity|]. split; [apply put_len_length; reflexivity|].
    split; [reflexivity|]. split.
    - cbn [out_with o_hc]. rewrite <- app_assoc. exact Ee.
    - rewrite Hr. reflexivity.
  Qed.

  (* ---------- a chain of records of an AEAD half connection ---------------------------------------------------- *)
  Lemma chain_aead typ hc recs frs hc' : chain P typ hc recs frs hc' ->
    forall key fixed s, hc_cipher hc = CipherAEAD key fixed -> hc_mac hc = None -> hc_seq hc = be64 s ->
      (s + N.of_nat (length recs) < 2 ^ 64)%N ->
      forall j r, nth_error recs j = Some r ->
        exists fr hdr', nth_error frs j = Some fr /\ length hdr' = 5 /\
          r = hdr' ++ be64 (s + N.of_nat j) ++
              p_seal P key (gcm_nonce fixed (be64 (s + N.of_nat j)))
                     (aad (s + N.of_nat j) typ VersionGMSSL (length fr)) fr.
  Proof.
    induction 1 as [hc|hc hc1 hc2 eiv fr rec_ recs frs He Heb Hnon Hfr Henc Hch IH];
      intros key fixed s Ec Em Hs Hb j r Hj.
    - destruct j; discriminate.
    - cbn [length] in Hb.
      assert (Heiv : eiv = be64 s) by (rewrite <- Hs; apply Hnon; rewrite Ec; reflexivity).
      subst eiv.
      pose proof (encrypt_aead_shape P Hok hc key fixed s [typ; 1; 1]%N (be64 s) fr Ec Em Hs ltac:(lia) eq_refl
                    ltac:(unfold be64; apply be_length)) as Hshape.
      cbv zeta in Hshape. rewrite <- app_assoc in Hshape.
      replace (length (be64 s)) with 8 in Henc by (unfold be64; rewrite be_length; reflexivity).
      cbn [app] in Henc, Hshape. rewrite Henc in Hshape. apply Ok_inj in Hshape. apply pair_equal_spec in Hshape. destruct Hshape as [Hhc Hr].
      destruct j as [|j].
      + cbn [nth_error] in Hj |- *. injection Hj as <-. exists fr. eexists. split; [reflexivity|].
        split; [|rewrite N.add_0_r; rewrite Hr; reflexivity].
        apply put_len_length. reflexivity.
      + cbn [nth_error] in Hj |- *.
        destruct (IH key fixed (s + 1)%N ltac:(rewrite Hhc; reflexivity) ltac:(rewrite Hhc; reflexivity)
                     ltac:(rewrite Hhc; reflexivity) ltac:(lia) j r Hj) as [fr' [hdr' [H1 [H2 H3]]]].
        exists fr', hdr'. split; [exact H1|]. split; [exact H2|].
        replace (s + N.of_nat (S j))%N with (s + 1 + N.of_nat j)%N by lia. exact H3.
  Qed.

  Lemma explicit_nonce_of hdr' n body : length hdr' = 5 -> length n = 8 -> explicit_nonce (hdr' ++ n ++ body) = n.
  Proof.
    intros H5 H8. unfold explicit_nonce. rewrite skipn_app_exact by (symmetry; exact H5).
    apply firstn_app_exact. symmetry; exact H8.
  Qed.

  Lemma chain_aead_nonces typ hc recs frs hc' key fixed s :
    chain P typ hc recs frs hc' -> hc_cipher hc = CipherAEAD key fixed -> hc_mac hc = None -> hc_seq hc = be64 s ->
    (s + N.of_nat (length recs) < 2 ^ 64)%N ->
    map explicit_nonce recs = map (fun j => be64 (s + N.of_nat j)) (seq 0 (length recs)).
  Proof.
    intros Hch Ec Em Hs Hb.
    apply nth_ext with (d := []) (d' := []); [rewrite !map_length, seq_length; reflexivity|].
    intros j Hj. rewrite map_length in Hj.
    destruct (nth_error recs j) as [r|] eqn:Er; [|apply nth_error_None in Er; lia].
    destruct (chain_aead _ _ _ _ _ Hch key fixed s Ec Em Hs Hb j r Er) as [fr [hdr' [_ [H5 Hr]]]].
    transitivity (explicit_nonce r).
    { rewrite (nth_indep _ [] (explicit_nonce [])) by (rewrite map_length; exact Hj).
      rewrite map_nth. rewrite (nth_error_nth _ _ _ Er). reflexivity. }
    transitivity ((fun j0 => be64 (s + N.of_nat j0)) (nth j (seq 0 (length recs)) 0)).
    { rewrite seq_nth by exact Hj. cbn [Nat.add]. rewrite Hr. apply explicit_nonce_of; [exact H5|unfold be64; apply be_length]. }
    rewrite (nth_indep _ [] ((fun j0 => be64 (s + N.of_nat j0)) 0)) by (rewrite map_length, seq_length; exact Hj).
    symmetry. apply (map_nth (fun j0 => be64 (s + N.of_nat j0))).
  Qed.

  Lemma NoDup_map_inj_in {A B} (f : A -> B) (l : list A) :
    (forall a b, In a l -> In b l -> f a = f b -> a = b) -> NoDup l -> NoDup (map f l).
  Proof.
    intros Hinj Hnd. induction Hnd as [|x l Hx Hnd IH]; cbn [map]; constructor.
    - intros Hin. apply in_map_iff in Hin. destruct Hin as [y [Hy Hyl]].
      apply Hx. rewrite <- (Hinj y x); [exact Hyl|right; exact Hyl|left; reflexivity|exact Hy].
    - apply IH. intros a b Ha Hb. apply Hinj; right; assumption.
  Qed.

  Lemma be64_seq_NoDup s n : (s + N.of_nat n < 2 ^ 64)%N -> NoDup (map (fun j => be64 (s + N.of_nat j)) (seq 0 n)).
  Proof.
    intros Hb. apply NoDup_map_inj_in; [|apply seq_NoDup].
    intros a b Ha Hb' E. apply in_seq in Ha, Hb'. apply be64_inj in E; lia.
  Qed.

  (* ---------- any history of Write calls ------------------------------------------------------------------------ *)
  Theorem gcm_nonces_never_repeat fuel cw writes cw' recs key fixed s0 :
    sender_ok cw -> hc_cipher (o_hc cw) = CipherAEAD key fixed -> hc_mac (o_hc cw) = None ->
    hc_seq (o_hc cw) = be64 s0 -> (s0 + N.of_nat (length recs) < 2 ^ 64)%N ->
    write_calls P fuel cw writes = Ok (cw', recs, false) ->
    map explicit_nonce recs = map (fun j => be64 (s0 + N.of_nat j)) (seq 0 (length recs)) /\
    NoDup (map explicit_nonce recs) /\
    exists frs, concat frs = concat writes /\
      forall j r, nth_error recs j = Some r ->
        exists fr hdr', nth_error frs j = Some fr /\ length hdr' = 5 /\
          r = hdr' ++ be64 (s0 + N.of_nat j) ++
              p_seal P key (gcm_nonce fixed (be64 (s0 + N.of_nat j)))
                     (aad (s0 + N.of_nat j) recordTypeApplicationData VersionGMSSL (length fr)) fr.
  Proof.
    intros Hs Ec Em Hseq Hb Hw.
    destruct (write_calls_chain P Hok Hexp _ _ _ _ _ Hs Hw) as [_ [frs [Hch Hcat]]].
    pose proof (chain_aead_nonces _ _ _ _ _ key fixed s0 Hch Ec Em Hseq Hb) as Hn.
    split; [exact Hn|]. split; [rewrite Hn; apply be64_seq_NoDup; exact Hb|].
    exists frs. split; [exact Hcat|]. exact (chain_aead _ _ _ _ _ Hch key fixed s0 Ec Em Hseq Hb).
  Qed.
End Nonce.

(* ================================================================================================================
   Part 11 (round 6): the explicit IVs of the CBC suite over a whole history of Write calls.  writeRecordLocked
   reads one block of config.rand() per record into the explicit IV field; so over ANY history of Write calls on
   one connection the explicit IVs on the wire are, in order, the consecutive blocks of the stream that the sender
   consumed - record j carries block j and nothing else - hence pairwise distinct whenever those blocks are.
   (Whole-history form of cbc_iv_from_stream; sibling of gcm_nonces_never_repeat.) *)

(* the first n blocks of bs bytes of a byte stream *)
Fixpoint stream_blocks (bs n : nat) (l : list N) : list (list N) :=
  match n with O => [] | S n' => firstn bs l :: stream_blocks bs n' (skipn bs l) end.

Lemma stream_blocks_concat bs xs rest :
  Forall (fun b => length b = bs) xs -> stream_blocks bs (length xs) (concat xs ++ rest) = xs.
Proof.
  induction 1 as [|x xs Hx _ IH]; [reflexivity|].
  cbn [length stream_blocks concat]. rewrite <- app_assoc.
  rewrite firstn_app_exact by (symmetry; exact Hx). rewrite skipn_app_exact by (symmetry; exact Hx).
  rewrite IH. reflexivity.
Qed.

Lemma skipn_skipn_add {A} a : forall b (l : list A), skipn a (skipn b l) = skipn (b + a) l.
Proof.
  induction b as [|b IH]; intros l; [reflexivity|].
  destruct l as [|x l]; [cbn [skipn Nat.add]; apply skipn_nil|]. cbn [skipn Nat.add]. apply IH.
Qed.

Lemma stream_blocks_nth bs : forall n l j b, nth_error (stream_blocks bs n l) j = Some b ->
  b = firstn bs (skipn (j * bs) l).
Proof.
  induction n as [|n IH]; intros l j b H; [destruct j; discriminate|].
  destruct j as [|j]; cbn [stream_blocks nth_error] in H.
  - injection H as <-. reflexivity.
  - rewrite (IH _ _ _ H). rewrite skipn_skipn_add. reflexivity.
Qed.

Section IVHistory.
  Variable P : prims.
  Hypothesis Hok : prims_ok P.

  (* the explicit IV field of a CBC record on the wire: the block behind the header *)
  Definition explicit_iv (rec_ : list N) : list N := firstn (p_bs P) (skipn 5 rec_).

  (* a sender half with the CBC suite of a protocol version with explicit IVs *)
  Definition cbc_sender (c : connOut) : Prop :=
    kind (hc_cipher (o_hc c)) = 2 /\ explicit_iv_version (hc_version (o_hc c)) = true.

  (* encrypt leaves the explicit IV it was handed in the clear behind the header *)
  Lemma encrypt_cbc_iv_clear hc hdr eiv frag hc' rec_ :
    kind (hc_cipher hc) = 2 -> length hdr = 5 -> length eiv = p_bs P ->
    encrypt P hc (hdr ++ eiv ++ frag) (p_bs P) = Ok (hc', rec_) ->
    firstn (p_bs P) (skipn 5 rec_) = eiv.
  Proof.
    intros Hk Hh He H. unfold encrypt in H.
    destruct (length (hdr ++ eiv ++ frag) <? recordHeaderLen + p_bs P); [discriminate|].
    set (data1 := match hc_mac hc with Some mk => _ | None => _ end) in H.
    assert (Hd1 : exists tl, data1 = hdr ++ eiv ++ tl).
    { unfold data1. destruct (hc_mac hc); [|eexists; reflexivity].
      eexists. rewrite <- !app_assoc. reflexivity. }
    destruct Hd1 as [tl Hd1]. clearbody data1. subst data1.
    destruct (hc_cipher hc) as [|key fixed|key iv]; try discriminate Hk.
    assert (Hf : firstn (recordHeaderLen + p_bs P) (hdr ++ eiv ++ tl) = hdr ++ eiv).
    { rewrite app_assoc. apply firstn_app_exact. rewrite app_length. unfold recordHeaderLen. lia. }
    rewrite Hf in H.
    destruct ((0 <? p_bs P) && negb (p_bs P =? p_bs P)); [discriminate|].
    destruct (padToBlockSize _ _) as [prefix finalBlock].
    destruct (cbc_encrypt_blocks _ _ _ prefix) as [[c1 iv2]| | |]; cbn [obind] in H; try discriminate.
    destruct (cbc_encrypt_blocks _ _ _ finalBlock) as [[c2 iv3]| | |]; cbn [obind] in H; try discriminate.
    destruct (incSeq _) as [hc1| | |]; cbn [obind] in H; try discriminate.
    apply Ok_inj in H. apply pair_equal_spec in H. destruct H as [_ H]. subst rec_.
    change 5 with recordHeaderLen at 1.
    assert (H5 : firstn recordHeaderLen ((hdr ++ eiv) ++ c1 ++ c2) = hdr).
    { rewrite <- app_assoc. apply firstn_app_exact. symmetry; exact Hh. }
    assert (S5 : skipn recordHeaderLen ((hdr ++ eiv) ++ c1 ++ c2) = eiv ++ c1 ++ c2).
    { rewrite <- app_assoc. apply skipn_app_exact. symmetry; exact Hh. }
    rewrite H5, S5.
    rewrite skipn_app_exact by (symmetry; unfold recordHeaderLen; apply put_len_length; exact Hh).
    apply firstn_app_exact. symmetry; exact He.
  Qed.

  (* what a stretch of the sender's run did: still a CBC sender, and the explicit IVs of the records written are,
     in order, exactly the bytes consumed from config.rand(), one block per record *)
  Definition iv_run (c c' : connOut) (recs : list (list N)) : Prop :=
    cbc_sender c' /\ concat (map explicit_iv recs) ++ o_rand c' = o_rand c /\
    Forall (fun r => length (explicit_iv r) = p_bs P) recs.

  Lemma iv_run_nil c : cbc_sender c -> iv_run c c [].
  Proof. intros H. split; [exact H|]. split; [reflexivity|constructor]. Qed.

  Lemma iv_run_app c c1 c2 recs1 recs2 : iv_run c c1 recs1 -> iv_run c1 c2 recs2 -> iv_run c c2 (recs1 ++ recs2).
  Proof.
    intros [_ [E1 F1]] [S2 [E2 F2]]. split; [exact S2|]. split.
    - rewrite map_app, concat_app, <- app_assoc, E2. exact E1.
    - apply Forall_app. split; assumption.
  Qed.

  Lemma iv_run_set_err c c' recs err : iv_run c c' recs -> iv_run c (out_set_err c' err) recs.
  Proof. intros H. destruct err; [|exact H]. exact H. Qed.

  (* one pass of the loop of writeRecordLocked *)
  Lemma writeRecord_step_iv c typ data c1 rec_ m :
    cbc_sender c -> writeRecord_step P c typ data = Ok (Some (c1, rec_, m)) -> iv_run c c1 [rec_].
  Proof.
    intros [Hk Hv] H. unfold writeRecord_step in H.
    destruct (hc_cipher (o_hc c)) as [|key fixed|k iv] eqn:Ec; try discriminate Hk.
    rewrite Hv in H. destruct (ok_bs P Hok) as [Hbs1 Hbs2].
    assert (Hpos : 0 <? p_bs P = true) by (apply Nat.ltb_lt; lia). rewrite Hpos in H.
    destruct (maxPayloadSizeForWrite P c typ (p_bs P)) as [maxPayload pkts].
    destruct (length (o_rand c) <? p_bs P) eqn:Er; [discriminate|]. apply Nat.ltb_ge in Er.
    destruct (encrypt P (o_hc c) _ (p_bs P)) as [[hc' r]| | |] eqn:Ee; cbn [obind] in H; try discriminate.
    apply Ok_inj in H. injection H as <- <- <-.
    assert (Hl : length (firstn (p_bs P) (o_rand c)) = p_bs P) by (rewrite firstn_length; lia).
    assert (Hiv : explicit_iv r = firstn (p_bs P) (o_rand c)).
    { unfold explicit_iv.
      match type of Ee with
      | encrypt _ _ (?h ++ ?e ++ ?f) _ = _ =>
        apply (encrypt_cbc_iv_clear (o_hc c) h e f hc' r); [rewrite Ec; reflexivity| |exact Hl|exact Ee]
      end.
      rewrite app_length, len_bytes_length. reflexivity. }
    destruct (encrypt_fields P _ _ _ _ _ Ee) as [_ [Hver [_ [Hkind _]]]].
    split; [|split].
    - split; cbn [out_with o_hc]; [rewrite Hkind, Ec; reflexivity|rewrite Hver; exact Hv].
    - cbn [map concat out_with o_rand]. rewrite app_nil_r, Hiv. apply firstn_skipn.
    - constructor; [rewrite Hiv; exact Hl|constructor].
  Qed.

  Lemma writeRecordLocked_iv typ fuel : forall c data c' recs n err,
    cbc_sender c -> writeRecordLocked P fuel c typ data = Ok (c', recs, n, err) -> iv_run c c' recs.
  Proof.
    induction fuel as [|fuel IH]; intros c data c' recs n err Hs H; destruct data as [|d0 data];
      cbn [writeRecordLocked] in H; try discriminate;
      try (injection H as <- <- <- <-; apply iv_run_nil; exact Hs).
    destruct (writeRecord_step P c typ (d0 :: data)) as [[[[c1 r] m]|]| | |] eqn:Es; cbn [obind] in H; try discriminate.
    - destruct (writeRecordLocked P fuel c1 typ (skipn m (d0 :: data))) as [[[[c2 recs2] n2] err2]| | |] eqn:E2;
        cbn [obind] in H; try discriminate.
      injection H as <- <- <- <-.
      pose proof (writeRecord_step_iv _ _ _ _ _ _ Hs Es) as H1.
      apply (iv_run_app _ _ _ [r] recs2 H1). eapply IH; [exact (proj1 H1)|exact E2].
    - injection H as <- <- <- <-. apply iv_run_nil; exact Hs.
  Qed.

  Lemma conn_Write_iv fuel c b c' recs n err :
    cbc_sender c -> conn_Write P fuel c b = Ok (c', recs, n, err) -> iv_run c c' recs.
  Proof.
    intros Hs H. unfold conn_Write in H.
    destruct (hc_err (o_hc c)); [injection H as <- <- <- <-; apply iv_run_nil; exact Hs|].
    destruct (o_closeNotifySent c); [injection H as <- <- <- <-; apply iv_run_nil; exact Hs|].
    destruct ((1 <? length b) && (o_vers c <=? VersionTLS10)%N && is_block_mode (hc_cipher (o_hc c))).
    - destruct (writeRecordLocked P fuel c _ (firstn 1 b)) as [[[[c1 recs1] n1] err1]| | |] eqn:E1;
        cbn [obind] in H; try discriminate.
      pose proof (writeRecordLocked_iv _ _ _ _ _ _ _ _ Hs E1) as H1.
      destruct err1.
      + injection H as <- <- <- <-. change (iv_run c (out_set_err c1 true) recs1). apply iv_run_set_err. exact H1.
      + destruct (writeRecordLocked P fuel c1 _ (skipn 1 b)) as [[[[c2 recs2] n2] err2]| | |] eqn:E2;
          cbn [obind] in H; try discriminate.
        injection H as <- <- <- <-. change (iv_run c (out_set_err c2 err2) (recs1 ++ recs2)).
        apply iv_run_set_err. apply (iv_run_app _ _ _ _ _ H1).
        eapply writeRecordLocked_iv; [exact (proj1 H1)|exact E2].
    - destruct (writeRecordLocked P fuel c _ b) as [[[[c2 recs2] n2] err2]| | |] eqn:E2; cbn [obind] in H; try discriminate.
      injection H as <- <- <- <-. change (iv_run c (out_set_err c2 err2) recs2).
      apply iv_run_set_err. eapply writeRecordLocked_iv; [exact Hs|exact E2].
  Qed.

  Lemma write_calls_iv fuel : forall writes c c' recs err,
    cbc_sender c -> write_calls P fuel c writes = Ok (c', recs, err) -> iv_run c c' recs.
  Proof.
    induction writes as [|b rest IH]; intros c c' recs err Hs H; cbn [write_calls] in H.
    - injection H as <- <- <-. apply iv_run_nil; exact Hs.
    - destruct (conn_Write P fuel c b) as [[[[c1 recs1] n1] err1]| | |] eqn:E1; cbn [obind] in H; try discriminate.
      pose proof (conn_Write_iv _ _ _ _ _ _ _ Hs E1) as H1.
      destruct err1; [injection H as <- <- <-; exact H1|].
      destruct (write_calls P fuel c1 rest) as [[[c2 recs2] err2]| | |] eqn:E2; cbn [obind] in H; try discriminate.
      injection H as <- <- <-. apply (iv_run_app _ _ _ _ _ H1). eapply IH; [exact (proj1 H1)|exact E2].
  Qed.

  (* ---------- any history of Write calls of a CBC sender -------------------------------------------------------
     (also one that ends in a failed Write): the explicit IVs of ALL records of the history, in order, are the
     consecutive blocks of what config.rand() delivered - record j carries block j, every block is used for one
     record only, nothing else of the stream is consumed; so the IVs of the history are pairwise distinct
     whenever the blocks the entropy source delivered are. *)
  Theorem cbc_ivs_fresh_over_history fuel cw writes cw' recs err :
    cbc_sender cw -> write_calls P fuel cw writes = Ok (cw', recs, err) ->
    concat (map explicit_iv recs) ++ o_rand cw' = o_rand cw /\
    map explicit_iv recs = stream_blocks (p_bs P) (length recs) (o_rand cw) /\
    (forall j r, nth_error recs j = Some r -> explicit_iv r = firstn (p_bs P) (skipn (j * p_bs P) (o_rand cw))) /\
    (NoDup (stream_blocks (p_bs P) (length recs) (o_rand cw)) -> NoDup (map explicit_iv recs)).
  Proof.
    intros Hs Hw. destruct (write_calls_iv _ _ _ _ _ _ Hs Hw) as [_ [E F]].
    assert (Hb : map explicit_iv recs = stream_blocks (p_bs P) (length recs) (o_rand cw)).
    { rewrite <- E. rewrite <- (map_length explicit_iv recs). symmetry. apply stream_blocks_concat.
      apply Forall_forall. intros x Hx. apply in_map_iff in Hx. destruct Hx as [r [<- Hr]].
      rewrite Forall_forall in F. apply F. exact Hr. }
    split; [exact E|]. split; [exact Hb|]. split.
    - intros j r Hj. pose proof (map_nth_error explicit_iv _ _ Hj) as Hn. rewrite Hb in Hn.
      apply (stream_blocks_nth _ _ _ _ _ Hn).
    - intros Hnd. rewrite Hb. exact Hnd.
  Qed.
End IVHistory.
