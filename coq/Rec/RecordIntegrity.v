(* Proofs about the record-layer model, part 3: integrity of the stream a receiver accepts.

   Setting.  The sender protected the items (type, fragment) number 0, 1, 2, ... with sequence numbers
   s0, s0+1, ...; [sender_log] lists what it thereby authenticated: for the AEAD suite the pairs
   (additional data, plaintext) it sealed, for the CBC suite the MAC inputs.  The receiver holds the
   same keys, sequence number s0, and is fed an ARBITRARY byte string (whatever the attacker made of
   the genuine records, of records of the other direction or of other connections, or invented).

   Idealisation (the only one): [no_forgery] - every call of halfConn.decrypt that the receiver makes
   in this run and that succeeds, succeeded on something the sender authenticated: the (additional
   data, plaintext) that opened resp. the MAC input whose tag matched is in the sender's log.  This is
   ideal authenticity (INT-CTXT) of the AEAD resp. unforgeability of the MAC, stated for the run; it is
   a premise of the theorems.  [i_trace] (ghost field of the model) records the calls.

   Conclusion: the receiver accepted exactly the items 0..k-1, in order, for some k; what it delivered
   to the application is the application data among them (a prefix of what the sender wrote); its
   sequence number is s0+k; it ended in the permanent error state. *)
From Coq Require Import List NArith Arith Bool Lia ZifyN ZifyNat ZifyBool.
From GmsmVerif Require Import Lib.Outcome Rec.RecordSpec Rec.RecordModel Rec.RecordProofs Rec.RecordRoundtrip.
Import ListNotations.

Definition item := (N * list N)%type.                       (* content type, fragment *)

(* the application data among the items, in order *)
Definition app_bytes (items : list item) : list N :=
  concat (map (fun it : item => if (fst it =? recordTypeApplicationData)%N then snd it else []) items).

Lemma app_eq_len {A} (a a' b b' : list A) : length a = length a' -> a ++ b = a' ++ b' -> a = a' /\ b = b'.
Proof.
  revert a'; induction a as [|x a IH]; intros [|y a'] Hl H; try discriminate.
  - auto.
  - cbn in H. injection H as -> H. cbn in Hl. destruct (IH a' ltac:(lia) H) as [-> ->]. auto.
Qed.

Lemma firstn_S_nth_error {A} (l : list A) k x : nth_error l k = Some x -> firstn (S k) l = firstn k l ++ [x].
Proof.
  revert k; induction l as [|y l IH]; intros [|k] H; try discriminate.
  - cbn in H. injection H as ->. reflexivity.
  - cbn [nth_error] in H. cbn [firstn app]. f_equal. apply IH. exact H.
Qed.

Lemma app_bytes_app a b : app_bytes (a ++ b) = app_bytes a ++ app_bytes b.
Proof. unfold app_bytes. rewrite map_app, concat_app. reflexivity. Qed.

Lemma app_bytes_prefix items k : is_prefix (app_bytes (firstn k items)) (app_bytes items).
Proof.
  exists (app_bytes (skipn k items)). rewrite <- app_bytes_app, firstn_skipn. reflexivity.
Qed.

Section Integrity.
  Variable P : prims.

  Definition kind (cs : cipher_state) : nat :=
    match cs with CipherNone => 0 | CipherAEAD _ _ => 1 | CipherCBC _ _ => 2 end.

  Definition is_aead (hc : halfConn) : bool := kind (hc_cipher hc) =? 1.

  (* the two shapes of the GMSSL suites *)
  Definition protected (hc : halfConn) : Prop :=
    (kind (hc_cipher hc) = 1 /\ hc_mac hc = None) \/ (kind (hc_cipher hc) = 2 /\ hc_mac hc <> None).

  (* what halfConn.decrypt authenticated when it accepted b.data = data and returned frag:
     AEAD: (additional data, plaintext); CBC + MAC: (MAC input, -) *)
  Definition witness_of (hc : halfConn) (data frag : list N) : list N * list N :=
    match hc_cipher hc with
    | CipherAEAD _ _ =>
      (hc_seq hc ++ firstn 3 data ++
       len_bytes_biased (N.of_nat (length data - 5 - 8) + 65536 - N.of_nat (p_overhead P))%N, frag)
    | _ => (hc_seq hc ++ put_len (firstn 5 data) (length frag) ++ frag, [])
    end.

  (* what the sender authenticated for item [it] under sequence number s *)
  Definition log_entry (aead : bool) (ver s : N) (it : item) : list N * list N :=
    if aead then (aad s (fst it) ver (length (snd it)), snd it)
    else (mac_input s (fst it) ver (snd it), []).

  Fixpoint sender_log (aead : bool) (ver s : N) (items : list item) : list (list N * list N) :=
    match items with
    | [] => []
    | it :: t => log_entry aead ver s it :: sender_log aead ver (s + 1) t
    end.

  Definition auth_ok (log : list (list N * list N)) (e : halfConn * list N) : Prop :=
    forall hc' frag, decrypt P (fst e) (snd e) = Ok (hc', Some frag) -> In (witness_of (fst e) (snd e) frag) log.

  (* the idealisation, for a finished run *)
  Definition no_forgery (log : list (list N * list N)) (c : connIn) : Prop := Forall (auth_ok log) (i_trace c).

  Lemma In_sender_log aead ver items : forall s w,
    In w (sender_log aead ver s items) ->
    exists j it, nth_error items j = Some it /\ w = log_entry aead ver (s + N.of_nat j) it.
  Proof.
    induction items as [|it0 t IH]; intros s w H; [contradiction|].
    destruct H as [<-|H].
    - exists 0, it0. split; [reflexivity|]. rewrite N.add_0_r. reflexivity.
    - destruct (IH _ _ H) as [j [it [Hn ->]]]. exists (S j), it. split; [exact Hn|]. f_equal. lia.
  Qed.

  (* ---------- what a call of decrypt does to the half connection ---------------------------------------- *)
  Ltac break_hyps :=
    repeat match goal with
           | H : context [obind ?x _] |- _ => destruct x eqn:?; cbn [obind] in *; try discriminate
           | H : context [match ?x with _ => _ end] |- _ =>
             first [is_var x; destruct x | destruct x eqn:?]; cbn [obind] in *; try discriminate
           | H : context [if ?x then _ else _] |- _ => destruct x eqn:?; cbn [obind] in *; try discriminate
           | H : Ok _ = Ok _ |- _ => injection H as ?; subst
           | H : Some _ = Some _ |- _ => injection H as ?; subst
           | H : (_, _) = (_, _) |- _ => injection H as ?; subst
           end.

  Lemma incSeq_fields hc hc' : incSeq hc = Ok hc' ->
    hc_err hc' = hc_err hc /\ hc_version hc' = hc_version hc /\ hc_cipher hc' = hc_cipher hc /\
    hc_mac hc' = hc_mac hc /\ incSeq_loop 7 (hc_seq hc) = Ok (hc_seq hc').
  Proof.
    unfold incSeq. destruct (incSeq_loop 7 (hc_seq hc)) as [s| | |] eqn:E; cbn [obind]; try discriminate.
    intros [= <-]. cbn. auto.
  Qed.

  Lemma decrypt_inv hc data hc' r : decrypt P hc data = Ok (hc', r) ->
    5 <= length data /\ hc_err hc' = hc_err hc /\ hc_version hc' = hc_version hc /\ hc_mac hc' = hc_mac hc /\
    kind (hc_cipher hc') = kind (hc_cipher hc) /\
    match r with
    | None => hc_seq hc' = hc_seq hc
    | Some _ => incSeq_loop 7 (hc_seq hc) = Ok (hc_seq hc')
    end.
  Proof.
    unfold decrypt. intros H.
    destruct (length data <? recordHeaderLen) eqn:E5; [discriminate|].
    apply Nat.ltb_ge in E5. unfold recordHeaderLen in E5. split; [exact E5|].
    destruct (hc_cipher hc) as [|key fixed|key iv] eqn:Ec; destruct (hc_mac hc) as [mk|] eqn:Em;
      break_hyps;
      repeat match goal with
             | Hi : incSeq _ = Ok _ |- _ =>
               apply incSeq_fields in Hi; cbn [set_cipher hc_err hc_version hc_mac hc_cipher hc_seq] in Hi;
               destruct Hi as [-> [-> [-> [-> ?]]]]
             end;
      cbn [set_cipher hc_err hc_version hc_mac hc_cipher hc_seq kind];
      rewrite ?Ec, ?Em; cbn [kind]; repeat split; auto.
  Qed.

  (* ---------- acceptance + authenticity pins the record to the sender's k-th item ------------------------ *)
  Lemma protected_cases hc : protected hc ->
    (exists key fixed, hc_cipher hc = CipherAEAD key fixed /\ hc_mac hc = None /\ is_aead hc = true) \/
    (exists key iv mk, hc_cipher hc = CipherCBC key iv /\ hc_mac hc = Some mk /\ is_aead hc = false).
  Proof.
    unfold protected, is_aead. intros [[Hk Hm]|[Hk Hm]]; destruct (hc_cipher hc) as [|key f|key iv]; try discriminate.
    - left. exists key, f. auto.
    - right. destruct (hc_mac hc) as [mk|]; [|congruence]. exists key, iv, mk. auto.
  Qed.

  Lemma accept_authentic ver s0 items hc data hc' frag k :
    protected hc -> hc_seq hc = be64 (s0 + N.of_nat k) ->
    (s0 + N.of_nat (length items) < 2 ^ 64)%N -> k <= length items ->
    decrypt P hc data = Ok (hc', Some frag) ->
    In (witness_of hc data frag) (sender_log (is_aead hc) ver s0 items) ->
    nth_error items k = Some (nth 0 data 0%N, frag).
  Proof.
    intros Hp Hs Hbound Hk Hd Hin.
    destruct (decrypt_inv _ _ _ _ Hd) as [H5 _].
    destruct (In_sender_log _ _ _ _ _ Hin) as [j [[typ fr] [Hn Hw]]].
    assert (Hj : j < length items) by (apply nth_error_Some; congruence).
    destruct data as [|d0 [|d1 [|d2 [|d3 [|d4 rest]]]]]; cbn [length] in H5; try lia.
    cbn [nth].
    assert (Hkj : forall a b, be64 (s0 + N.of_nat k) ++ a = be64 (s0 + N.of_nat j) ++ b -> k = j /\ a = b).
    { intros a b E. apply app_eq_len in E; [|unfold be64; rewrite !be_length; reflexivity].
      destruct E as [E1 E2]. apply be64_inj in E1; [|lia|lia]. split; [lia|exact E2]. }
    unfold witness_of, log_entry in Hw.
    destruct (protected_cases hc Hp) as [[key [fixed [Ec [Em Ea]]]]|[key [iv [mk [Ec [Em Ea]]]]]];
      rewrite Ec, Ea, Hs in Hw; cbn [fst snd] in Hw; apply pair_equal_spec in Hw; destruct Hw as [Hw1 Hw2].
    - unfold aad in Hw1. apply Hkj in Hw1. destruct Hw1 as [-> Hw1].
      cbn [firstn app] in Hw1. injection Hw1 as -> _. subst fr. exact Hn.
    - unfold mac_input in Hw1. apply Hkj in Hw1. destruct Hw1 as [-> Hw1].
      unfold put_len, len_bytes, len_bytes_biased, ver_bytes, u16 in Hw1. cbn [firstn app be] in Hw1.
      injection Hw1 as -> _ _ _ _ Hf. subst fr. exact Hn.
  Qed.

  Lemma nth_firstn_lt {A} (l : list A) i n d : i < n -> nth i (firstn n l) d = nth i l d.
  Proof.
    revert i n; induction l as [|x l IH]; intros i n Hi.
    - rewrite firstn_nil. reflexivity.
    - destruct n as [|n]; [lia|]. destruct i as [|i]; cbn [firstn nth]; [reflexivity|]. apply IH. lia.
  Qed.

  (* ---------- the ghost trace only grows ------------------------------------------------------------------- *)
  Lemma readRecord_trace_incl fuel : forall c c', readRecord P fuel c = Ok c' -> incl (i_trace c) (i_trace c').
  Proof.
    induction fuel as [|fuel IH]; intros c c' H; cbn [readRecord] in H; [discriminate|].
    break_hyps; cbn [in_fail i_trace]; try apply incl_refl; try (apply incl_tl, incl_refl).
    apply IH in H. cbn [i_trace] in H. eapply incl_tran; [|exact H]. apply incl_tl, incl_refl.
  Qed.

  Section Run.
    Variable ver s0 : N.
    Variable items : list item.
    Variable aead : bool.
    Hypothesis Hbound : (s0 + N.of_nat (length items) < 2 ^ 64)%N.
    Hypothesis Hsizes : Forall (fun it : item => length (snd it) <= maxPlaintext) items.
    Let log := sender_log aead ver s0 items.

    (* the state of a receiver that has accepted exactly the items 0..k-1 and has not failed *)
    Definition synced (k : nat) (hc : halfConn) : Prop :=
      hc_err hc = false /\ hc_seq hc = be64 (s0 + N.of_nat k) /\ protected hc /\ is_aead hc = aead /\ k <= length items.

    Lemma accepted_facts k hc data hc' frag :
      synced k hc -> decrypt P hc data = Ok (hc', Some frag) -> auth_ok log (hc, data) ->
      nth_error items k = Some (nth 0 data 0%N, frag) /\ synced (S k) hc'.
    Proof.
      intros [He [Hs [Hp [Ha Hk]]]] Hd Hauth.
      specialize (Hauth hc' frag Hd). cbn [fst snd] in Hauth. unfold log in Hauth. rewrite <- Ha in Hauth.
      pose proof (accept_authentic ver s0 items hc data hc' frag k Hp Hs Hbound Hk Hd Hauth) as Hn.
      split; [exact Hn|].
      assert (Hlt : k < length items) by (apply nth_error_Some; congruence).
      destruct (decrypt_inv _ _ _ _ Hd) as [_ [He' [_ [Hm' [Hk' Hseq]]]]].
      rewrite Hs, incSeq_loop_be64 in Hseq by lia.
      destruct (N.eqb_spec (s0 + N.of_nat k) (2 ^ 64 - 1)) as [E|_]; [lia|]. injection Hseq as Hseq.
      unfold synced. split; [congruence|]. split; [rewrite <- Hseq; f_equal; lia|].
      split; [unfold protected in *; rewrite Hk', Hm'; exact Hp|].
      split; [unfold is_aead in *; rewrite Hk'; exact Ha|lia].
    Qed.

    Lemma rejected_facts k hc data hc' :
      synced k hc -> decrypt P hc data = Ok (hc', None) -> synced k hc'.
    Proof.
      intros [He [Hs [Hp [Ha Hk]]]] Hd.
      destruct (decrypt_inv _ _ _ _ Hd) as [_ [He' [_ [Hm' [Hk' Hseq]]]]].
      unfold synced. split; [congruence|]. split; [congruence|].
      split; [unfold protected in *; rewrite Hk', Hm'; exact Hp|].
      split; [unfold is_aead in *; rewrite Hk'; exact Ha|lia].
    Qed.

    Definition contrib (it : item) : list N := if (fst it =? recordTypeApplicationData)%N then snd it else [].

    Lemma app_bytes_step k it : nth_error items k = Some it ->
      app_bytes (firstn (S k) items) = app_bytes (firstn k items) ++ contrib it.
    Proof.
      intros H. rewrite (firstn_S_nth_error _ _ _ H), app_bytes_app. f_equal.
      unfold app_bytes, contrib. cbn [map concat]. apply app_nil_r.
    Qed.

    (* the error state keeps the counters: a failed receiver that had accepted k items *)
    Definition failed (k : nat) (hc : halfConn) : Prop :=
      hc_err hc = true /\ hc_seq hc = be64 (s0 + N.of_nat k) /\ k <= length items.

    Lemma synced_fail k hc : synced k hc -> failed k (setErrorLocked hc).
    Proof. intros [He [Hs [Hp [Ha Hk]]]]. unfold failed, setErrorLocked. cbn. auto. Qed.

    (* one call of readRecord from a synced state, under the idealisation *)
    Lemma readRecord_synced fuel : forall c c' k,
      synced k (i_hc c) -> i_input c = None ->
      readRecord P fuel c = Ok c' -> Forall (auth_ok log) (i_trace c') ->
      exists k', k <= k' /\
        ((failed k' (i_hc c') /\ i_input c' = None /\ app_bytes (firstn k' items) = app_bytes (firstn k items)) \/
         (synced k' (i_hc c') /\ exists d, i_input c' = Some d /\
            app_bytes (firstn k' items) = app_bytes (firstn k items) ++ d)).
    Proof.
      induction fuel as [|fuel IH]; intros c c' k Hsync Hinp H Hall; cbn [readRecord] in H; [discriminate|].
      set (b := i_raw c) in *.
      set (n := N.to_nat (nth 3 b 0 * 256 + nth 4 b 0)%N) in *.
      set (rec_ := firstn (recordHeaderLen + n) b) in *.
      destruct (length b <? recordHeaderLen) eqn:E1.
      { injection H as <-. exists k. split; [lia|]. left. cbn [in_fail i_hc i_input]. auto using synced_fail. }
      destruct (negb (nth 1 b 0 * 256 + nth 2 b 0 =? i_vers c)%N) eqn:E2.
      { injection H as <-. exists k. split; [lia|]. left. cbn [in_fail i_hc i_input]. auto using synced_fail. }
      destruct (maxCiphertext <? n) eqn:E3.
      { injection H as <-. exists k. split; [lia|]. left. cbn [in_fail i_hc i_input]. auto using synced_fail. }
      destruct (length b <? recordHeaderLen + n) eqn:E4.
      { injection H as <-. exists k. split; [lia|]. left. cbn [in_fail i_hc i_input]. auto using synced_fail. }
      destruct (decrypt P (i_hc c) rec_) as [[hc' r]| | |] eqn:Ed; cbn [obind] in H; try discriminate.
      destruct r as [data0|].
      2:{ injection H as <-. exists k. split; [lia|]. left. cbn [in_fail i_hc i_input].
          pose proof (rejected_facts _ _ _ _ Hsync Ed). auto using synced_fail. }
      (* accepted: by the idealisation this is item k *)
      assert (Hin : In (i_hc c, rec_) (i_trace c')).
      { revert H. repeat match goal with |- context [if ?x then _ else _] => destruct x end; intros H;
          try (injection H as <-; cbn [in_fail i_trace]; left; reflexivity).
        all: apply readRecord_trace_incl in H; apply H; cbn [i_trace]; left; reflexivity. }
      rewrite Forall_forall in Hall. pose proof (Hall _ Hin) as Hauth.
      destruct (accepted_facts _ _ _ _ _ Hsync Ed Hauth) as [Hnth Hsync'].
      assert (Htyp : nth 0 rec_ 0%N = nth 0 b 0%N) by (apply nth_firstn_lt; unfold recordHeaderLen; lia).
      rewrite Htyp in Hnth.
      set (typ := nth 0 b 0%N) in *.
      pose proof (app_bytes_step k _ Hnth) as Hstep. unfold contrib in Hstep. cbn [fst snd] in Hstep.
      assert (Hsz : length data0 <= maxPlaintext).
      { rewrite Forall_forall in Hsizes. apply (Hsizes (typ, data0)). eapply nth_error_In. exact Hnth. }
      destruct (maxPlaintext <? length data0) eqn:E5; [apply Nat.ltb_lt in E5; lia|].
      assert (Hfail : forall c'', i_hc c'' = setErrorLocked hc' -> i_input c'' = None ->
                 (typ =? recordTypeApplicationData)%N = false ->
                 exists k', k <= k' /\
                   ((failed k' (i_hc c'') /\ i_input c'' = None /\ app_bytes (firstn k' items) = app_bytes (firstn k items)) \/
                    (synced k' (i_hc c'') /\ exists d, i_input c'' = Some d /\
                       app_bytes (firstn k' items) = app_bytes (firstn k items) ++ d))).
      { intros c'' Hhc Hi Ht. exists (S k). split; [lia|]. left. rewrite Hhc.
        split; [apply synced_fail; exact Hsync'|]. split; [exact Hi|]. rewrite Hstep, Ht. apply app_nil_r. }
      destruct (typ =? recordTypeAlert)%N eqn:Et.
      - assert (Ht : (typ =? recordTypeApplicationData)%N = false).
        { apply N.eqb_eq in Et. rewrite Et. reflexivity. }
        destruct (negb (length data0 =? 2)); [injection H as <-; apply Hfail; auto|].
        destruct (nth 1 data0 0 =? alertCloseNotify)%N; [injection H as <-; apply Hfail; auto|].
        destruct (nth 0 data0 0 =? alertLevelWarning)%N.
        + destruct (maxWarnAlertCount <? S _); [injection H as <-; apply Hfail; auto|].
          (* goto Again *)
          eapply (IH _ c' (S k)) in H; [|exact Hsync'|exact Hinp|rewrite Forall_forall; exact Hall].
          destruct H as [k' [Hk' Hres]].
          exists k'. split; [lia|]. rewrite Hstep, Ht, app_nil_r in Hres. exact Hres.
        + destruct (nth 0 data0 0 =? alertLevelError)%N; injection H as <-; apply Hfail; auto.
      - cbn [negb andb] in H.
        destruct (typ =? recordTypeApplicationData)%N eqn:Ea.
        + injection H as <-. exists (S k). split; [lia|]. right. cbn [i_hc i_input].
          split; [exact Hsync'|]. exists data0. split; [reflexivity|exact Hstep].
        + destruct (typ =? recordTypeHandshake)%N; injection H as <-; apply Hfail; auto.
    Qed.

    Lemma recv_all_trace_incl rounds fuel : forall c out c',
      recv_all P rounds fuel c = Ok (out, c') -> incl (i_trace c) (i_trace c').
    Proof.
      induction rounds as [|rounds IH]; intros c out c' H; cbn [recv_all] in H; [discriminate|].
      destruct (hc_err (i_hc c)); [injection H as _ <-; apply incl_refl|].
      destruct (readRecord P fuel c) as [c1| | |] eqn:Er; cbn [obind] in H; try discriminate.
      apply readRecord_trace_incl in Er.
      destruct (i_input c1) as [d|].
      - destruct (recv_all P rounds fuel _) as [[rest c2]| | |] eqn:E2; cbn [obind] in H; try discriminate.
        injection H as _ <-. apply IH in E2. cbn [i_trace] in E2. eapply incl_tran; eassumption.
      - destruct (hc_err (i_hc c1)); [|discriminate]. injection H as _ <-. exact Er.
    Qed.

    Lemma Forall_incl {A} (Q : A -> Prop) (l l' : list A) : incl l l' -> Forall Q l' -> Forall Q l.
    Proof. intros Hi H. rewrite Forall_forall in *. intros x Hx. apply H, Hi, Hx. Qed.

    (* the whole run *)
    Lemma recv_all_synced rounds fuel : forall c k out c',
      synced k (i_hc c) -> i_input c = None ->
      recv_all P rounds fuel c = Ok (out, c') -> Forall (auth_ok log) (i_trace c') ->
      exists k', k <= k' /\ failed k' (i_hc c') /\
                 app_bytes (firstn k' items) = app_bytes (firstn k items) ++ out.
    Proof.
      induction rounds as [|rounds IH]; intros c k out c' Hsync Hinp H Hall; cbn [recv_all] in H; [discriminate|].
      destruct Hsync as [He Hrest]. rewrite He in H. pose proof (conj He Hrest : synced k (i_hc c)) as Hsync.
      destruct (readRecord P fuel c) as [c1| | |] eqn:Er; cbn [obind] in H; try discriminate.
      destruct (i_input c1) as [d|] eqn:Ei.
      - destruct (recv_all P rounds fuel _) as [[rest c2]| | |] eqn:E2; cbn [obind] in H; try discriminate.
        injection H as <- <-.
        pose proof (recv_all_trace_incl _ _ _ _ _ E2) as Hincl. cbn [i_trace] in Hincl.
        destruct (readRecord_synced fuel c c1 k Hsync Hinp Er (Forall_incl _ _ _ Hincl Hall)) as [k1 [Hk1 [[Hf [Hi _]]|[Hs1 [d' [Hi Hb]]]]]].
        + congruence.
        + rewrite Ei in Hi. injection Hi as <-.
          eapply (IH _ k1 rest c2) in E2; [|exact Hs1|reflexivity|exact Hall].
          destruct E2 as [k' [Hk' [Hf' Hb']]].
          exists k'. split; [lia|]. split; [exact Hf'|]. rewrite Hb', Hb, app_assoc. reflexivity.
      - destruct (hc_err (i_hc c1)) eqn:He1; [|discriminate]. injection H as <- <-.
        destruct (readRecord_synced fuel c c1 k Hsync Hinp Er Hall) as [k1 [Hk1 [[Hf [_ Hb]]|[[Hs1 _] _]]]].
        + exists k1. split; [lia|]. split; [exact Hf|]. rewrite app_nil_r. exact Hb.
        + congruence.
    Qed.
  End Run.

  (* a receiver after the handshake: half connection hc, nothing buffered, [wire] still to come *)
  Definition receiver0 (hc : halfConn) (vers : N) (wire : list N) : connIn := mkIn hc vers wire None 0 [] [].

  (* ---------- theorem 3 ---------------------------------------------------------------------------------------- *)
  Theorem prefix_integrity_wire ver s0 items hc vers wire rounds fuel out c' :
    (s0 + N.of_nat (length items) < 2 ^ 64)%N ->
    Forall (fun it : item => length (snd it) <= maxPlaintext) items ->
    hc_err hc = false -> hc_seq hc = be64 s0 -> protected hc ->
    recv_all P rounds fuel (receiver0 hc vers wire) = Ok (out, c') ->
    no_forgery (sender_log (is_aead hc) ver s0 items) c' ->
    exists k, k <= length items /\ out = app_bytes (firstn k items) /\ is_prefix out (app_bytes items) /\
              hc_seq (i_hc c') = be64 (s0 + N.of_nat k) /\ hc_err (i_hc c') = true.
  Proof.
    intros Hb Hsz He Hs Hp H Hnf.
    assert (Hsync : synced s0 items (is_aead hc) 0 (i_hc (receiver0 hc vers wire))).
    { unfold synced. cbn [receiver0 i_hc]. rewrite N.add_0_r. repeat split; auto. lia. }
    destruct (recv_all_synced ver s0 items (is_aead hc) Hb Hsz rounds fuel _ 0 out c' Hsync eq_refl H Hnf)
      as [k [_ [[He' [Hs' Hk]] Hbytes]]].
    cbn [firstn app_bytes map concat app] in Hbytes.
    exists k. split; [exact Hk|]. split; [symmetry; exact Hbytes|].
    split; [rewrite <- Hbytes; apply app_bytes_prefix|]. auto.
  Qed.

  (* sticky error: once c.in.err is set, Read returns the error and delivers nothing, forever *)
  Lemma conn_Read_loop_err e fuel c L : hc_err (i_hc c) = true ->
    conn_Read_loop P e fuel c L = Ok (c, [], true).
  Proof.
    intros He. destruct e; cbn [conn_Read_loop]; destruct (i_input c); rewrite ?He; cbn [obind]; rewrite He; reflexivity.
  Qed.

  Lemma sticky_error_read fuel c L : hc_err (i_hc c) = true -> L <> 0 ->
    conn_Read P fuel c L = Ok (c, [], true).
  Proof.
    intros He HL. unfold conn_Read. destruct (Nat.eqb_spec L 0) as [|_]; [contradiction|].
    apply conn_Read_loop_err. exact He.
  Qed.

  Lemma sticky_error_recv rounds fuel c : hc_err (i_hc c) = true ->
    recv_all P (S rounds) fuel c = Ok ([], c).
  Proof. intros He. cbn [recv_all]. rewrite He. reflexivity. Qed.

  (* the sequence number moves by exactly one per accepted record and not at all on a rejected one *)
  Lemma seq_advances_by_one_lemma hc data hc' r s :
    hc_seq hc = be64 s -> (s < 2 ^ 64 - 1)%N -> decrypt P hc data = Ok (hc', r) ->
    hc_seq hc' = be64 (match r with Some _ => s + 1 | None => s end).
  Proof.
    intros Hs Hlt Hd. destruct (decrypt_inv _ _ _ _ Hd) as [_ [_ [_ [_ [_ Hseq]]]]].
    destruct r; [|congruence].
    rewrite Hs, incSeq_loop_be64 in Hseq by lia.
    destruct (N.eqb_spec s (2 ^ 64 - 1)); [lia|]. congruence.
  Qed.

  (* ---------- a decidable form of the idealisation, for concrete runs ---------------------------------------- *)
  Definition pair_eqb (a b : list N * list N) : bool := bytes_eqb (fst a) (fst b) && bytes_eqb (snd a) (snd b).

  Definition auth_ok_b (log : list (list N * list N)) (e : halfConn * list N) : bool :=
    match decrypt P (fst e) (snd e) with
    | Ok (_, Some frag) => existsb (pair_eqb (witness_of (fst e) (snd e) frag)) log
    | _ => true
    end.

  Lemma auth_ok_b_sound log e : auth_ok_b log e = true -> auth_ok log e.
  Proof.
    unfold auth_ok_b, auth_ok. intros H hc' frag Hd. rewrite Hd in H.
    apply existsb_exists in H. destruct H as [w [Hw Heq]].
    unfold pair_eqb in Heq. apply andb_true_iff in Heq. destruct Heq as [H1 H2].
    apply bytes_eqb_eq in H1, H2. destruct w as [w1 w2], (witness_of (fst e) (snd e) frag) as [v1 v2].
    cbn [fst snd] in *. subst. exact Hw.
  Qed.

  Lemma no_forgery_b_sound log c : forallb (auth_ok_b log) (i_trace c) = true -> no_forgery log c.
  Proof.
    unfold no_forgery. rewrite forallb_forall, Forall_forall. intros H e He. apply auth_ok_b_sound, H, He.
  Qed.
End Integrity.
