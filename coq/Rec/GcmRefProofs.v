(* Proofs about the GCM transcription Rec/GcmRef.v, for any block cipher E with 16-byte output:
   authenticated decryption undoes authenticated encryption, and the ciphertext is 16 bytes longer
   than the plaintext. *)
From Coq Require Import List NArith Arith Bool Lia.
From GmsmVerif Require Import Rec.GcmRef.
Import ListNotations.

Lemma gxor_length a b : length (xor_bytes a b) = Nat.min (length a) (length b).
Proof. revert b; induction a as [|x a IH]; intros [|y b]; cbn [xor_bytes length Nat.min]; auto. Qed.

Lemma gxor_invol_le a b : length a <= length b -> xor_bytes (xor_bytes a b) b = a.
Proof.
  revert b; induction a as [|x a IH]; intros [|y b] H; cbn [xor_bytes]; try reflexivity; [cbn in H; lia|].
  cbn [length] in H. rewrite IH by lia. f_equal.
  rewrite N.lxor_assoc, N.lxor_nilpotent, N.lxor_0_r. reflexivity.
Qed.

Lemma be_bytes_length k n : length (be_bytes k n) = k.
Proof. revert n; induction k as [|k IH]; intros n; cbn [be_bytes]; [reflexivity|]. rewrite app_length, IH. cbn. lia. Qed.

Lemma gbytes_eqb_refl a : bytes_eqb a a = true.
Proof.
  unfold bytes_eqb. rewrite Nat.eqb_refl. cbn [andb].
  induction a as [|x a IH]; cbn [combine forallb fst snd]; [reflexivity|]. rewrite N.eqb_refl, IH. reflexivity.
Qed.

Lemma firstn_app_len {A} (a b : list A) n : n = length a -> firstn n (a ++ b) = a.
Proof. intros ->. rewrite firstn_app, Nat.sub_diag, firstn_all. cbn. apply app_nil_r. Qed.
Lemma skipn_app_len {A} (a b : list A) n : n = length a -> skipn n (a ++ b) = b.
Proof. intros ->. rewrite skipn_app, Nat.sub_diag, skipn_all. reflexivity. Qed.

Section GCMProofs.
  Variable E : list N -> list N.
  Hypothesis E_len : forall b, length (E b) = 16.

  Lemma gctr_nil fuel cb : gctr E fuel cb [] = [].
  Proof. destruct fuel; reflexivity. Qed.

  Lemma gctr_step fuel cb x : x <> [] ->
    gctr E (S fuel) cb x = xor_bytes (firstn 16 x) (E cb) ++ gctr E fuel (inc32 cb) (skipn 16 x).
  Proof. destruct x; [congruence|reflexivity]. Qed.

  Lemma gctr_length fuel : forall cb x, length x <= fuel -> length (gctr E fuel cb x) = length x.
  Proof.
    induction fuel as [|fuel IH]; intros cb x H.
    - destruct x; [reflexivity|cbn in H; lia].
    - destruct x as [|x0 xs] eqn:Ex; [reflexivity|]. rewrite <- Ex in *.
      rewrite gctr_step by (rewrite Ex; discriminate).
      rewrite app_length, gxor_length, firstn_length, E_len, IH by (rewrite skipn_length; lia).
      rewrite skipn_length. lia.
  Qed.

  Lemma gctr_involutive fuel : forall cb x, length x <= fuel -> gctr E fuel cb (gctr E fuel cb x) = x.
  Proof.
    induction fuel as [|fuel IH]; intros cb x H.
    - destruct x; [reflexivity|cbn in H; lia].
    - destruct x as [|x0 xs] eqn:Ex; [reflexivity|]. rewrite <- Ex in *.
      assert (Hne : x <> []) by (rewrite Ex; discriminate).
      assert (Hpos : 1 <= length x) by (rewrite Ex; cbn; lia).
      rewrite (gctr_step fuel cb x Hne).
      set (a := xor_bytes (firstn 16 x) (E cb)).
      set (r := gctr E fuel (inc32 cb) (skipn 16 x)).
      assert (Ha : length a = Nat.min 16 (length x)).
      { unfold a. rewrite gxor_length, firstn_length, E_len. lia. }
      assert (Hr : length r = length x - 16).
      { unfold r. rewrite gctr_length by (rewrite skipn_length; lia). apply skipn_length. }
      assert (Hne' : a ++ r <> []).
      { intros E0. apply (f_equal (@length N)) in E0. rewrite app_length, Ha, Hr in E0. cbn [length] in E0. lia. }
      rewrite (gctr_step fuel cb (a ++ r) Hne').
      destruct (Nat.le_gt_cases 16 (length x)) as [Hge|Hlt].
      + assert (Ha16 : 16 = length a) by lia.
        rewrite (firstn_app_len a r 16 Ha16), (skipn_app_len a r 16 Ha16).
        unfold a. rewrite gxor_invol_le by (rewrite firstn_length, E_len; lia).
        unfold r. rewrite IH by (rewrite skipn_length; lia). apply firstn_skipn.
      + assert (Er : r = []) by (destruct r; [reflexivity|cbn in Hr; lia]).
        rewrite Er, app_nil_r.
        rewrite firstn_all2, skipn_all2 by lia. rewrite gctr_nil, app_nil_r.
        unfold a. rewrite gxor_invol_le by (rewrite firstn_length, E_len; lia).
        apply firstn_all2. lia.
  Qed.

  Lemma gcm_tag_length iv A C : length (gcm_tag E iv A C) = 16.
  Proof. unfold gcm_tag. rewrite gxor_length, be_bytes_length, E_len. reflexivity. Qed.

  Lemma gcm_seal_length iv A P : length (gcm_seal E iv A P) = length P + 16.
  Proof. unfold gcm_seal. rewrite app_length, gctr_length, gcm_tag_length by lia. reflexivity. Qed.

  Lemma gcm_open_seal iv A P : gcm_open E iv A (gcm_seal E iv A P) = Some P.
  Proof.
    unfold gcm_open. rewrite gcm_seal_length.
    destruct (Nat.ltb_spec (length P + 16) 16) as [H|_]; [lia|].
    replace (length P + 16 - 16) with (length P) by lia.
    unfold gcm_seal.
    set (C := gctr E (length P) (inc32 (gcm_J0 iv)) P).
    assert (HC : length C = length P) by (unfold C; apply gctr_length; lia).
    rewrite <- HC. rewrite firstn_app_len, skipn_app_len by reflexivity.
    rewrite gbytes_eqb_refl. f_equal.
    unfold C at 2. rewrite HC. apply gctr_involutive. lia.
  Qed.
End GCMProofs.
