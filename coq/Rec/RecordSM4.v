(* The record-layer theorems for the primitives gmtls really runs:
     block cipher  SM4 (SM4/SM4Spec.v; inverse and output shape proved in SM4/SM4Lemmas.v, C05),
     MAC           HMAC-SM3 (SM3/HMACSpec.v; 32-byte output proved in SM3/HMACProofs.v),
     AEAD          GCM (Rec/GcmRef.v, SP 800-38D; open after seal proved in Rec/GcmRefProofs.v) over SM4.
   A "key" of the block cipher / AEAD is the list of expanded round keys (what the runner passes); the
   facts hold for every list of round keys.  [sm4_prims] is the instance the extracted runner uses. *)
From Coq Require Import List NArith Arith Bool Lia.
From GmsmVerif Require Import Lib.Outcome SM4.SM4Spec SM4.SM4Lemmas SM3.SM3Spec SM3.HMACSpec SM3.HMACProofs
  Rec.GcmRef Rec.GcmRefProofs Rec.RecordSpec Rec.RecordModel Rec.RecordProofs Rec.RecordRoundtrip
  Rec.RecordIntegrity Rec.RecordFragment Rec.RecordProgress Rec.RecordDuplex.
From Coq Require Import ZifyN ZifyNat ZifyBool.
Import ListNotations.
Local Open Scope nat_scope.

Definition sm4_prims : prims :=
  mkPrims 16 sm4_encrypt_rk sm4_decrypt_rk
          32 hmac_sm3
          16 (fun rk nonce ad pt => GcmRef.gcm_seal (sm4_encrypt_rk rk) nonce ad pt)
             (fun rk nonce ad ct => GcmRef.gcm_open (sm4_encrypt_rk rk) nonce ad ct).

Lemma bytes_ok_bool l : SM4Spec.bytes_ok l = true <-> RecordSpec.bytes_ok l.
Proof.
  unfold SM4Spec.bytes_ok, RecordSpec.bytes_ok. rewrite forallb_forall, Forall_forall.
  split; intros H x Hx; specialize (H x Hx); apply N.ltb_lt; exact H.
Qed.

Lemma bytes_of_words_ok ws : RecordSpec.bytes_ok (bytes_of_words ws).
Proof.
  unfold RecordSpec.bytes_ok, bytes_of_words. apply Forall_forall. intros x Hx.
  apply in_flat_map in Hx. destruct Hx as [w [_ Hx]]. unfold SM3Spec.bytes_of_word in Hx.
  assert (Hland : forall v, (N.land v 255 < 256)%N).
  { intros v. change 255%N with (N.ones 8). rewrite N.land_ones. apply N.mod_lt. discriminate. }
  cbn [In] in Hx. destruct Hx as [<-|[<-|[<-|[<-|[]]]]]; apply Hland.
Qed.

Lemma hmac_sm3_bytes_ok k m : RecordSpec.bytes_ok (hmac_sm3 k m).
Proof. unfold hmac_sm3, sm3. apply bytes_of_words_ok. Qed.

Theorem sm4_prims_ok : prims_ok sm4_prims.
Proof.
  constructor; cbn [sm4_prims p_bs p_enc p_dec p_macSize p_mac p_overhead p_seal p_open].
  - lia.
  - intros k b _. unfold sm4_encrypt_rk. apply bytes_of_state_block16.
  - intros k b _ _. apply bytes_ok_bool. unfold sm4_encrypt_rk. apply bytes_of_state_block16.
  - intros k b Hl Hb. apply decrypt_encrypt_rk; [exact Hl|apply bytes_ok_bool; exact Hb].
  - intros k m. apply hmac_sm3_length.
  - intros k m. apply hmac_sm3_bytes_ok.
  - intros k n ad p. apply gcm_open_seal. intros b. unfold sm4_encrypt_rk. apply bytes_of_state_block16.
  - intros k n ad p. apply gcm_seal_length. intros b. unfold sm4_encrypt_rk. apply bytes_of_state_block16.
Qed.

Lemma sm4_expansion_ok : p_bs sm4_prims + p_macSize sm4_prims + p_bs sm4_prims + p_overhead sm4_prims + 8 <= 2048.
Proof. cbn. lia. Qed.

(* dynamic record sizing with the SM4 suites always leaves room for payload: the first record of a
   connection carries up to 1151 (CBC) / 1179 (GCM) bytes *)
Lemma ldiff_15_ge x : (x - 15 <= N.ldiff x 15)%N.
Proof.
  change 15%N with (N.ones 4). rewrite N.ldiff_ones_r, N.shiftr_div_pow2, N.shiftl_mul_pow2.
  change (2 ^ 4)%N with 16%N. change (N.ones 4) with 15%N. pose proof (N.div_mod' x 16). pose proof (N.mod_lt x 16 ltac:(discriminate)). lia.
Qed.

Lemma sm4_maxPayload_pos c typ e : e <= 8 + p_bs sm4_prims -> 1 <= fst (maxPayloadSizeForWrite sm4_prims c typ e).
Proof.
  cbn [sm4_prims p_bs]. intros He. unfold maxPayloadSizeForWrite. cbn [sm4_prims p_bs p_macSize p_overhead].
  assert (Hmax : 1 <= maxPlaintext) by (unfold maxPlaintext; lia).
  destruct (o_dynDisabled c || negb (typ =? recordTypeApplicationData)%N); [exact Hmax|].
  destruct (recordSizeBoostThreshold <=? o_bytesSent c)%N; [exact Hmax|].
  destruct (1000 <? o_packetsSent c)%N; [exact Hmax|].
  cbn [fst].
  set (pb := match hc_cipher (o_hc c) with
             | CipherNone => tcpMSSEstimate - recordHeaderLen - e
             | CipherAEAD _ _ => tcpMSSEstimate - recordHeaderLen - e - 16
             | CipherCBC _ _ =>
               N.to_nat (N.ldiff (N.of_nat (tcpMSSEstimate - recordHeaderLen - e)) (N.of_nat (16 - 1))) - 1 -
               match hc_mac (o_hc c) with Some _ => 32 | None => 0 end
             end).
  assert (Hpb : 1 <= pb).
  { unfold pb, tcpMSSEstimate, recordHeaderLen.
    destruct (hc_cipher (o_hc c)); try lia.
    pose proof (ldiff_15_ge (N.of_nat (1208 - 5 - e))). change (N.of_nat (16 - 1)) with 15%N.
    destruct (hc_mac (o_hc c)); lia. }
  assert (Hn : 1 <= pb * N.to_nat (o_packetsSent c + 1)) by nia.
  destruct (maxPlaintext <? pb * N.to_nat (o_packetsSent c + 1)); [exact Hmax|exact Hn].
Qed.
