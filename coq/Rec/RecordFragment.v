(* Proofs about the record-layer model, part 4: Write / writeRecordLocked cut the application's writes
   into records of at most 2^14 bytes (for CBC suites at this protocol version the first byte travels in
   a record of its own), each CBC record takes its explicit IV from fresh bytes of config.rand(), and a
   receiver with the same keys fed the records over a faithful channel delivers exactly the
   concatenation of the writes, in order. *)
From Coq Require Import List NArith Arith Bool Lia ZifyN ZifyNat ZifyBool.
From GmsmVerif Require Import Lib.Outcome Rec.RecordSpec Rec.RecordModel Rec.RecordProofs Rec.RecordRoundtrip
  Rec.RecordIntegrity.
Import ListNotations.

Ltac break_hyps :=
  repeat match goal with
         | H : context [obind ?x _] |- _ => destruct x eqn:?; cbn [obind] in *; try discriminate
         | H : context [match ?x with _ => _ end] |- _ =>
           first [is_var x; destruct x | destruct x eqn:?]; cbn [obind] in *; try discriminate
         | H : context [if ?x then _ else _] |- _ => destruct x eqn:?; cbn [obind] in *; try discriminate
         | H : Ok _ = Ok _ |- _ => injection H as ?; subst
         | H : Some _ = Some _ |- _ => injection H as ?; subst
         | H : (_, _) = (_, _) |- _ => injection H as ?; subst
         end.

Lemma Ok_inj {A} (a b : A) : Ok a = Ok b -> a = b.
Proof. intros H. injection H as H. exact H. Qed.

Lemma incSeq_loop_length i : forall s s', incSeq_loop i s = Ok s' -> length s' = length s.
Proof.
  induction i as [|i IH]; intros s s' H; cbn [incSeq_loop] in H;
    destruct (negb (((nth _ s 0 + 1) mod 256 =? 0)%N)).
  - apply Ok_inj in H. subst s'. apply set_nth_length.
  - discriminate.
  - apply Ok_inj in H. subst s'. apply set_nth_length.
  - apply IH in H. rewrite H. apply set_nth_length.
Qed.

Lemma len_bytes_value L : (L < 65536)%N -> (((L / 256) mod 256) * 256 + L mod 256 = L)%N.
Proof.
  intros H. rewrite (N.mod_small (L / 256) 256) by (apply N.div_lt_upper_bound; lia).
  pose proof (N.div_mod' L 256). lia.
Qed.

Section Fragment.
  Variable P : prims.
  Hypothesis Hok : prims_ok P.
  (* the ciphertext expansion fits the 2048 bytes the record layer allows *)
  Hypothesis Hexp : p_bs P + p_macSize P + p_bs P + p_overhead P + 8 <= 2048.

  (* ---------- what encrypt leaves of the half connection --------------------------------------------------- *)
  Lemma encrypt_fields hc data e hc' rec_ : encrypt P hc data e = Ok (hc', rec_) ->
    hc_err hc' = hc_err hc /\ hc_version hc' = hc_version hc /\ hc_mac hc' = hc_mac hc /\
    kind (hc_cipher hc') = kind (hc_cipher hc) /\ incSeq_loop 7 (hc_seq hc) = Ok (hc_seq hc').
  Proof.
    unfold encrypt. intros H.
    destruct (hc_cipher hc) as [|key fixed|key iv] eqn:Ec; break_hyps;
      match goal with
      | Hi : incSeq _ = Ok _ |- _ =>
        apply incSeq_fields in Hi; cbn [set_cipher hc_err hc_version hc_mac hc_cipher hc_seq] in Hi;
        destruct Hi as [-> [-> [-> [-> Hl]]]]
      end; rewrite ?Ec; cbn [kind]; auto.
  Qed.

  Lemma seq_step s sq' : (s < 2 ^ 64)%N -> incSeq_loop 7 (be64 s) = Ok sq' ->
    exists s', (s' < 2 ^ 64)%N /\ sq' = be64 s'.
  Proof.
    intros Hs H. rewrite incSeq_loop_be64 in H by exact Hs.
    destruct (N.eqb_spec s (2 ^ 64 - 1)) as [|Hne]; [discriminate|]. injection H as <-.
    exists (s + 1)%N. split; [lia|reflexivity].
  Qed.

  Lemma bytes_ok_firstn n l : bytes_ok l -> bytes_ok (firstn n l).
  Proof. unfold bytes_ok. intros H. rewrite <- (firstn_skipn n l) in H. apply Forall_app in H. apply H. Qed.
  Lemma bytes_ok_skipn n l : bytes_ok l -> bytes_ok (skipn n l).
  Proof. unfold bytes_ok. intros H. rewrite <- (firstn_skipn n l) in H. apply Forall_app in H. apply H. Qed.

  Lemma maxPayload_le c typ e : fst (maxPayloadSizeForWrite P c typ e) <= maxPlaintext.
  Proof.
    unfold maxPayloadSizeForWrite.
    repeat match goal with |- context [if ?x then _ else _] => destruct x eqn:? end; cbn [fst]; try lia.
  Qed.

  (* ---------- the records of one direction -------------------------------------------------------------------
     [chain hc recs frs hc']: starting from half connection hc, fragment j (application data, at most
     2^14 bytes) was protected by halfConn.encrypt under the state left by fragment j-1; hc' is the state
     after the last one *)
  Inductive chain (typ : N) : halfConn -> list (list N) -> list (list N) -> halfConn -> Prop :=
  | chain_nil hc : chain typ hc [] [] hc
  | chain_cons hc hc1 hc2 eiv fr rec_ recs frs :
      length eiv = explicit_len P (hc_cipher hc) -> bytes_ok eiv ->
      (kind (hc_cipher hc) = 1 -> eiv = hc_seq hc) ->      (* AEAD: the explicit nonce is the sequence number *)
      length fr <= maxPlaintext ->
      encrypt P hc ([typ; 1; 1]%N ++ len_bytes (length fr) ++ eiv ++ fr) (length eiv)
        = Ok (hc1, rec_) ->
      chain typ hc1 recs frs hc2 -> chain typ hc (rec_ :: recs) (fr :: frs) hc2.

  Lemma chain_app typ hc recs frs hc1 recs' frs' hc2 :
    chain typ hc recs frs hc1 -> chain typ hc1 recs' frs' hc2 -> chain typ hc (recs ++ recs') (frs ++ frs') hc2.
  Proof. induction 1; intros H'; cbn [app]; [exact H'|]. econstructor; eauto. Qed.

  Lemma chain_lengths typ hc recs frs hc' : chain typ hc recs frs hc' -> length recs = length frs.
  Proof. induction 1; cbn [length]; auto. Qed.

  Lemma chain_fragments typ hc recs frs hc' : chain typ hc recs frs hc' -> Forall (fun f => length f <= maxPlaintext) frs.
  Proof. induction 1; constructor; auto. Qed.

  (* sender side invariant *)
  Definition sender_ok (c : connOut) : Prop :=
    o_vers c = VersionGMSSL /\ hc_version (o_hc c) = VersionGMSSL /\
    (exists s, (s < 2 ^ 64)%N /\ hc_seq (o_hc c) = be64 s) /\
    kind (hc_cipher (o_hc c)) <> 0 /\ bytes_ok (o_rand c).

  (* ---------- one pass of the loop of writeRecordLocked -------------------------------------------------- *)
  Lemma writeRecord_step_chain typ c data c1 rec_ m :
    sender_ok c -> writeRecord_step P c typ data = Ok (Some (c1, rec_, m)) ->
    sender_ok c1 /\ m <= length data /\ chain typ (o_hc c) [rec_] [firstn m data] (o_hc c1) /\
    o_closeNotifySent c1 = o_closeNotifySent c /\ hc_err (o_hc c1) = hc_err (o_hc c).
  Proof.
    intros [Hv [Hhv [[s0 [Hs0 Hseq]] [Hkind Hrand]]]] H. unfold writeRecord_step in H.
    rewrite Hhv, Hv in H.
    change (explicit_iv_version VersionGMSSL) with true in H.
    change ((VersionGMSSL =? 0)%N) with false in H.
    change ((VersionGMSSL / 256) mod 256)%N with 1%N in H. change (VersionGMSSL mod 256)%N with 1%N in H.
    set (hc := o_hc c) in *.
    set (e := match hc_cipher hc with CipherCBC _ _ => p_bs P | _ => 0 end) in *.
    destruct (ok_bs P Hok) as [Hbs1 Hbs2].
    assert (Hcases : (0 <? e = true /\ e = p_bs P /\ exists k iv, hc_cipher hc = CipherCBC k iv) \/
                     (0 <? e = false /\ exists k f, hc_cipher hc = CipherAEAD k f)).
    { unfold e. destruct (hc_cipher hc) as [|k f|k iv] eqn:Ec; [cbn in Hkind; congruence| |].
      - right. split; [reflexivity|]. eauto.
      - left. split; [apply Nat.ltb_lt; lia|]. split; [reflexivity|]. eauto. }
    destruct Hcases as [[He1 [He2 [k [iv Ec]]]]|[He1 [k [f Ec]]]]; rewrite He1 in H.
    - (* CBC: IV from the random stream *)
      destruct (maxPayloadSizeForWrite P c typ e) as [maxPayload pkts] eqn:Emp.
      pose proof (maxPayload_le c typ e) as Hmp. rewrite Emp in Hmp. cbn [fst] in Hmp.
      set (m0 := if maxPayload <? length data then maxPayload else length data) in *.
      assert (Hm0 : m0 <= length data /\ m0 <= maxPlaintext).
      { unfold m0. destruct (Nat.ltb_spec maxPayload (length data)); lia. }
      destruct (length (o_rand c) <? e) eqn:Er; [discriminate|]. apply Nat.ltb_ge in Er.
      destruct (encrypt P hc _ e) as [[hc' r]| | |] eqn:Ee; cbn [obind] in H; try discriminate.
      injection H as <- <- <-.
      destruct (encrypt_fields _ _ _ _ _ Ee) as [Herr [Hver [_ [Hk Hl]]]].
      fold hc in Hseq. rewrite Hseq in Hl. destruct (seq_step _ _ Hs0 Hl) as [s1 [Hs1 Hseq1]].
      split; [unfold sender_ok, out_with; cbn [o_vers o_hc o_rand];
              split; [exact Hv|]; split; [congruence|]; split; [exists s1; auto|];
              split; [congruence|apply bytes_ok_skipn; exact Hrand]|].
      split; [lia|]. split; [|split; [reflexivity|exact Herr]].
      cbn [out_with o_hc].
      assert (Hfl : length (firstn m0 data) = m0) by (rewrite firstn_length; lia).
      eapply chain_cons with (eiv := firstn e (o_rand c)); [| | | | |apply chain_nil].
      + rewrite firstn_length, Ec. cbn [explicit_len]. lia.
      + apply bytes_ok_firstn; exact Hrand.
      + rewrite Ec. cbn [kind]. discriminate.
      + rewrite Hfl. lia.
      + rewrite Hfl. rewrite firstn_length. replace (Nat.min e (length (o_rand c))) with e by lia.
        cbn [app] in Ee |- *. exact Ee.
    - (* AEAD: the sequence number is the explicit nonce *)
      rewrite Ec in H.
      destruct (maxPayloadSizeForWrite P c typ 8) as [maxPayload pkts] eqn:Emp.
      pose proof (maxPayload_le c typ 8) as Hmp. rewrite Emp in Hmp. cbn [fst] in Hmp.
      set (m0 := if maxPayload <? length data then maxPayload else length data) in *.
      assert (Hm0 : m0 <= length data /\ m0 <= maxPlaintext).
      { unfold m0. destruct (Nat.ltb_spec maxPayload (length data)); lia. }
      destruct (encrypt P hc _ 8) as [[hc' r]| | |] eqn:Ee; cbn [obind] in H; try discriminate.
      injection H as <- <- <-.
      destruct (encrypt_fields _ _ _ _ _ Ee) as [Herr [Hver [_ [Hk Hl]]]].
      fold hc in Hseq. rewrite Hseq in Hl. destruct (seq_step _ _ Hs0 Hl) as [s1 [Hs1 Hseq1]].
      assert (Hlen : length (hc_seq hc) = 8) by (rewrite Hseq; apply be_length).
      split; [unfold sender_ok, out_with; cbn [o_vers o_hc o_rand];
              split; [exact Hv|]; split; [congruence|]; split; [exists s1; auto|];
              split; [congruence|exact Hrand]|].
      split; [lia|]. split; [|split; [reflexivity|exact Herr]].
      cbn [out_with o_hc].
      assert (Hfl : length (firstn m0 data) = m0) by (rewrite firstn_length; lia).
      eapply chain_cons with (eiv := firstn 8 (hc_seq hc)); [| | | | |apply chain_nil].
      + rewrite firstn_length, Ec. cbn [explicit_len]. lia.
      + apply bytes_ok_firstn. rewrite Hseq. apply be_bytes_ok.
      + intros _. apply firstn_all2. lia.
      + rewrite Hfl. lia.
      + rewrite Hfl. rewrite firstn_length. replace (Nat.min 8 (length (hc_seq hc))) with 8 by lia.
        cbn [app] in Ee |- *. exact Ee.
  Qed.

  (* ---------- writeRecordLocked -------------------------------------------------------------------------------- *)
  Lemma writeRecordLocked_chain typ fuel : forall c data c' recs n,
    sender_ok c -> writeRecordLocked P fuel c typ data = Ok (c', recs, n, false) ->
    sender_ok c' /\ n = length data /\
    (exists frs, chain typ (o_hc c) recs frs (o_hc c') /\ concat frs = data) /\
    o_closeNotifySent c' = o_closeNotifySent c /\ hc_err (o_hc c') = hc_err (o_hc c).
  Proof.
    induction fuel as [|fuel IH]; intros c data c' recs n Hs H.
    - destruct data; cbn [writeRecordLocked] in H; [|discriminate].
      injection H as <- <- <-. split; [exact Hs|]. split; [reflexivity|].
      split; [exists []; split; [constructor|reflexivity]|]. split; reflexivity.
    - destruct data as [|x data0]; cbn [writeRecordLocked] in H.
      { injection H as <- <- <-. split; [exact Hs|]. split; [reflexivity|].
        split; [exists []; split; [constructor|reflexivity]|]. split; reflexivity. }
      set (data := x :: data0) in *.
      destruct (writeRecord_step P c typ data) as [[[[c1 rec_] m]|]| | |] eqn:Es;
        cbn [obind] in H; try discriminate.
      destruct (writeRecordLocked P fuel c1 typ (skipn m data)) as [[[[c2 recs2] n2] err2]| | |] eqn:Er;
        cbn [obind] in H; try discriminate.
      injection H as <- <- <- ->.
      destruct (writeRecord_step_chain _ _ _ _ _ _ Hs Es) as [Hs1 [Hm [Hc1 [Hcn1 He1]]]].
      destruct (IH _ _ _ _ _ Hs1 Er) as [Hs2 [Hn2 [[frs2 [Hc2 Hcat]] [Hcn2 He2]]]].
      split; [exact Hs2|]. split; [rewrite Hn2, skipn_length; lia|].
      split; [|split; congruence].
      exists (firstn m data :: frs2). split.
      + change (rec_ :: recs2) with ([rec_] ++ recs2). change (firstn m data :: frs2) with ([firstn m data] ++ frs2).
        eapply chain_app; eassumption.
      + cbn [concat]. rewrite Hcat. apply firstn_skipn.
  Qed.

  (* ---------- Conn.Write, and a sequence of Writes ---------------------------------------------------------- *)
  Lemma conn_Write_chain fuel c b c' recs n :
    sender_ok c -> conn_Write P fuel c b = Ok (c', recs, n, false) ->
    sender_ok c' /\ (exists frs, chain recordTypeApplicationData (o_hc c) recs frs (o_hc c') /\ concat frs = b).
  Proof.
    intros Hs H. unfold conn_Write in H.
    destruct (hc_err (o_hc c)) eqn:He; [discriminate|].
    destruct (o_closeNotifySent c) eqn:Hcn; [discriminate|].
    destruct ((1 <? length b) && (o_vers c <=? VersionTLS10)%N && is_block_mode (hc_cipher (o_hc c))).
    - destruct (writeRecordLocked P fuel c recordTypeApplicationData (firstn 1 b)) as [[[[c1 recs1] n1] err1]| | |] eqn:E1;
        cbn [obind] in H; try discriminate.
      destruct err1; [discriminate|].
      destruct (writeRecordLocked P fuel c1 recordTypeApplicationData (skipn 1 b)) as [[[[c2 recs2] n2] err2]| | |] eqn:E2;
        cbn [obind] in H; try discriminate.
      injection H as <- <- <- ->. cbn [out_set_err].
      destruct (writeRecordLocked_chain _ _ _ _ _ _ _ Hs E1) as [Hs1 [_ [[frs1 [Hc1 Hcat1]] _]]].
      destruct (writeRecordLocked_chain _ _ _ _ _ _ _ Hs1 E2) as [Hs2 [_ [[frs2 [Hc2 Hcat2]] _]]].
      split; [exact Hs2|]. exists (frs1 ++ frs2). split; [eapply chain_app; eassumption|].
      rewrite concat_app, Hcat1, Hcat2. apply firstn_skipn.
    - destruct (writeRecordLocked P fuel c recordTypeApplicationData b) as [[[[c2 recs2] n2] err2]| | |] eqn:E2;
        cbn [obind] in H; try discriminate.
      injection H as <- <- <- ->. cbn [out_set_err].
      destruct (writeRecordLocked_chain _ _ _ _ _ _ _ Hs E2) as [Hs2 [_ [[frs2 [Hc2 Hcat2]] _]]].
      split; [exact Hs2|]. exists frs2. auto.
  Qed.

  Lemma write_calls_chain fuel : forall writes c c' recs,
    sender_ok c -> write_calls P fuel c writes = Ok (c', recs, false) ->
    sender_ok c' /\ exists frs, chain recordTypeApplicationData (o_hc c) recs frs (o_hc c') /\ concat frs = concat writes.
  Proof.
    induction writes as [|b rest IH]; intros c c' recs Hs H; cbn [write_calls] in H.
    - injection H as <- <-. split; [exact Hs|]. exists []. split; [constructor|reflexivity].
    - destruct (conn_Write P fuel c b) as [[[[c1 recs1] n1] err1]| | |] eqn:E1; cbn [obind] in H; try discriminate.
      destruct err1; [discriminate|].
      destruct (write_calls P fuel c1 rest) as [[[c2 recs2] err2]| | |] eqn:E2; cbn [obind] in H; try discriminate.
      injection H as <- <- ->.
      destruct (conn_Write_chain _ _ _ _ _ _ Hs E1) as [Hs1 [frs1 [Hc1 Hcat1]]].
      destruct (IH _ _ _ Hs1 E2) as [Hs2 [frs2 [Hc2 Hcat2]]].
      split; [exact Hs2|]. exists (frs1 ++ frs2). split; [eapply chain_app; eassumption|].
      cbn [concat]. rewrite concat_app, Hcat1, Hcat2. reflexivity.
  Qed.

  (* ---------- the receiver on a genuine record ----------------------------------------------------------------- *)
  Lemma readRecord_genuine fuel hcR hcR' body fr rest inp warn alerts trace :
    let rec_ := [recordTypeApplicationData; 1; 1]%N ++ len_bytes (length body) ++ body in
    length body <= maxCiphertext ->
    decrypt P hcR rec_ = Ok (hcR', Some fr) -> length fr <= maxPlaintext ->
    readRecord P (S fuel) (mkIn hcR VersionGMSSL (rec_ ++ rest) inp warn alerts trace) =
      Ok (mkIn hcR' VersionGMSSL rest (Some fr) (if 0 <? length fr then 0 else warn) alerts ((hcR, rec_) :: trace)).
  Proof.
    intros rec_ Hb Hd Hf.
    assert (Hlen : length rec_ = 5 + length body) by (unfold rec_; rewrite !app_length; reflexivity).
    set (b := rec_ ++ rest).
    set (L := N.of_nat (length body)).
    assert (HL : (L < 65536)%N) by (unfold L, maxCiphertext in *; lia).
    assert (Hb0 : nth 0 b 0%N = recordTypeApplicationData) by reflexivity.
    assert (Hb1 : nth 1 b 0%N = 1%N) by reflexivity.
    assert (Hb2 : nth 2 b 0%N = 1%N) by reflexivity.
    assert (Hb3 : nth 3 b 0%N = ((L / 256) mod 256)%N) by reflexivity.
    assert (Hb4 : nth 4 b 0%N = (L mod 256)%N) by reflexivity.
    cbn [readRecord i_raw i_vers i_hc i_input i_warnCount i_alerts i_trace]. fold b.
    rewrite Hb0, Hb1, Hb2, Hb3, Hb4, (len_bytes_value L HL). unfold L. rewrite Nat2N.id.
    assert (E1 : length b <? recordHeaderLen = false).
    { apply Nat.ltb_ge. unfold b. rewrite app_length, Hlen. unfold recordHeaderLen. lia. }
    assert (E3 : maxCiphertext <? length body = false) by (apply Nat.ltb_ge; exact Hb).
    assert (E4 : length b <? recordHeaderLen + length body = false).
    { apply Nat.ltb_ge. unfold b. rewrite app_length, Hlen. unfold recordHeaderLen. lia. }
    rewrite E1, E3, E4.
    change (negb ((1 * 256 + 1 =? VersionGMSSL)%N)) with false. cbv iota.
    unfold b. rewrite firstn_app_exact, skipn_app_exact by (unfold recordHeaderLen; lia).
    rewrite Hd. cbn [obind].
    assert (E5 : maxPlaintext <? length fr = false) by (apply Nat.ltb_ge; exact Hf). rewrite E5.
    change ((recordTypeApplicationData =? recordTypeAlert)%N) with false.
    change ((recordTypeApplicationData =? recordTypeApplicationData)%N) with true.
    cbn [negb andb]. reflexivity.
  Qed.

  Lemma obind_ret {A B} (X : outcome (A * B)) : (do '(a, b) <- X; Ok (a, b)) = X.
  Proof. destruct X as [[a b]| | |]; reflexivity. Qed.

  Lemma explicit_len_le cs : explicit_len P cs <= 8 + p_bs P.
  Proof. destruct cs; cbn [explicit_len]; lia. Qed.

  (* a receiver with the sender's keys and sequence number reads the whole chain, in order *)
  Lemma chain_recv hcW recs frs hcW' : chain recordTypeApplicationData hcW recs frs hcW' ->
    forall s hcR, same_keys hcW hcR -> hc_seq hcW = be64 s -> (s + N.of_nat (length recs) < 2 ^ 64)%N ->
      hc_version hcR = VersionGMSSL -> hc_err hcR = false -> Forall bytes_ok frs ->
      forall tail warn alerts trace rounds fuel,
      exists hcR' warn' trace', hc_err hcR' = false /\ hc_version hcR' = VersionGMSSL /\ same_keys hcW' hcR' /\
        recv_all P (length recs + rounds) (S fuel) (mkIn hcR VersionGMSSL (concat recs ++ tail) None warn alerts trace) =
          (do '(rest, c2) <- recv_all P rounds (S fuel) (mkIn hcR' VersionGMSSL tail None warn' alerts trace');
           Ok (concat frs ++ rest, c2)).
  Proof.
    induction 1 as [hc|hc hc1 hc2 eiv fr rec_ recs frs He Heb Hnon Hfr Henc Hch IH];
      intros s hcR Hk Hs Hb Hv Herr Hbytes tail warn alerts trace rounds fuel.
    - exists hcR, warn, trace. split; [exact Herr|]. split; [exact Hv|]. split; [exact Hk|].
      cbn [length concat app Nat.add]. symmetry. apply obind_ret.
    - inversion Hbytes as [|? ? Hbfr Hbrest]; subst.
      cbn [length] in Hb.
      destruct (decrypt_encrypt_record_ok P Hok hc hcR s [recordTypeApplicationData; 1; 1]%N eiv fr Hk Hs
                  ltac:(lia) Hv eq_refl He Heb Hbfr
                  ltac:(unfold maxPlaintext in Hfr; change (2 ^ 30)%N with 1073741824%N; lia))
        as [w' [rec' [r' [Henc' [Hdec [Hsw [Hsr [Hk' [Hvr [Her [_ [_ [body [Hshape Hbody]]]]]]]]]]]]]].
      cbn [app] in Henc, Henc'. rewrite Henc in Henc'. injection Henc' as <- <-.
      assert (Hbody' : length body <= maxCiphertext).
      { pose proof (explicit_len_le (hc_cipher hc)). unfold maxCiphertext, maxPlaintext in *. lia. }
      destruct (IH (s + 1)%N r' Hk' Hsw ltac:(lia) ltac:(congruence) ltac:(congruence) Hbrest tail
                   (if 0 <? length fr then 0 else warn) alerts ((hcR, rec_) :: trace) rounds fuel)
        as [hcR' [warn' [trace' [He' [Hv' [Hk2 Heq]]]]]].
      exists hcR', warn', trace'. split; [exact He'|]. split; [exact Hv'|]. split; [exact Hk2|].
      cbn [length Nat.add recv_all i_hc]. rewrite Herr.
      cbn [concat]. rewrite <- app_assoc.
      rewrite Hshape.
      rewrite (readRecord_genuine fuel hcR r' body fr (concat recs ++ tail) None warn alerts trace Hbody'
                 ltac:(rewrite <- Hshape; exact Hdec) Hfr).
      cbn [obind i_input i_hc i_vers i_raw i_warnCount i_alerts i_trace].
      rewrite <- Hshape. rewrite Heq.
      destruct (recv_all P rounds (S fuel) _) as [[rest c2]| | |]; cbn [obind]; try reflexivity.
      rewrite app_assoc. reflexivity.
  Qed.

  (* ---------- theorem 4 ------------------------------------------------------------------------------------------ *)
  Theorem fragmentation_in_order_lemma fuelW cw writes cw' recs s0 hcR rounds fuel :
    sender_ok cw -> hc_seq (o_hc cw) = be64 s0 -> (s0 + N.of_nat (length recs) < 2 ^ 64)%N ->
    write_calls P fuelW cw writes = Ok (cw', recs, false) -> bytes_ok (concat writes) ->
    same_keys (o_hc cw) hcR -> hc_version hcR = VersionGMSSL -> hc_err hcR = false ->
    length recs < rounds ->
    exists c' frs,
      recv_all P rounds (S fuel) (receiver0 hcR VersionGMSSL (concat recs)) = Ok (concat writes, c') /\
      hc_err (i_hc c') = true /\
      concat frs = concat writes /\ Forall (fun f => length f <= maxPlaintext) frs /\ length frs = length recs.
  Proof.
    intros Hs Hseq Hb Hw Hbytes Hk Hv He Hr.
    destruct (write_calls_chain _ _ _ _ _ Hs Hw) as [_ [frs [Hch Hcat]]].
    assert (Hfb : Forall bytes_ok frs) by (apply bytes_ok_concat_inv; rewrite Hcat; exact Hbytes).
    destruct (chain_recv _ _ _ _ Hch s0 hcR Hk Hseq Hb Hv He Hfb [] 0 [] [] (rounds - length recs) fuel)
      as [hcR' [warn' [trace' [He' [Hv' [_ Heq]]]]]].
    rewrite app_nil_r in Heq. replace (length recs + (rounds - length recs)) with rounds in Heq by lia.
    unfold receiver0. rewrite Heq.
    destruct (rounds - length recs) as [|r0] eqn:Er; [lia|].
    cbn [recv_all i_hc]. rewrite He'.
    cbn [readRecord i_raw length Nat.ltb Nat.leb recordHeaderLen obind in_fail i_input i_hc setErrorLocked hc_err].
    rewrite app_nil_r, Hcat.
    eexists _, frs. split; [reflexivity|]. split; [reflexivity|]. split; [exact Hcat|].
    split; [eapply chain_fragments; exact Hch|]. symmetry. eapply chain_lengths; exact Hch.
  Qed.

  (* ---------- explicit IVs of the CBC suite come from fresh bytes of config.rand() ------------------------------- *)
  Lemma cbc_iv_from_stream_lemma c typ data c1 rec_ m k iv :
    hc_cipher (o_hc c) = CipherCBC k iv -> explicit_iv_version (hc_version (o_hc c)) = true ->
    writeRecord_step P c typ data = Ok (Some (c1, rec_, m)) ->
    p_bs P <= length (o_rand c) /\ o_rand c1 = skipn (p_bs P) (o_rand c) /\
    exists hdr hc', length hdr = 5 /\
      encrypt P (o_hc c) (hdr ++ firstn (p_bs P) (o_rand c) ++ firstn m data) (p_bs P) = Ok (hc', rec_).
  Proof.
    clear Hexp. intros Ec Hv H. unfold writeRecord_step in H. rewrite Ec, Hv in H.
    destruct (ok_bs P Hok) as [Hbs1 Hbs2].
    assert (Hpos : 0 <? p_bs P = true) by (apply Nat.ltb_lt; lia). rewrite Hpos in H.
    destruct (maxPayloadSizeForWrite P c typ (p_bs P)) as [maxPayload pkts].
    destruct (length (o_rand c) <? p_bs P) eqn:Er; [discriminate|]. apply Nat.ltb_ge in Er.
    destruct (encrypt P (o_hc c) _ (p_bs P)) as [[hc' r]| | |] eqn:Ee; cbn [obind] in H; try discriminate.
    injection H as <- <- <-. split; [exact Er|]. split; [reflexivity|].
    eexists _, hc'. split; [|exact Ee]. reflexivity.
  Qed.
End Fragment.
