(* Proofs about the record-layer model, part 2: what halfConn.encrypt produces (layout of the MAC
   input, of the additional data, of the protected record) and that halfConn.decrypt with the same
   keys and sequence number gives the fragment back.  The primitives are abstract: a block cipher
   that is a length-preserving permutation on blocks, any MAC function with a fixed tag length, an
   AEAD whose open undoes seal. *)
From Coq Require Import List NArith Arith Bool Lia ZifyN ZifyNat ZifyBool.
From GmsmVerif Require Import Lib.Outcome Rec.RecordSpec Rec.RecordModel Rec.RecordProofs.
Import ListNotations.

(* ---------- bytes ---------------------------------------------------------------------------------------- *)
Lemma xor_bytes_length a b : length (xor_bytes a b) = Nat.min (length a) (length b).
Proof.
  revert b; induction a as [|x a IH]; intros [|y b]; cbn [xor_bytes length Nat.min]; auto.
Qed.

Lemma xor_bytes_involutive a b : length a = length b -> xor_bytes (xor_bytes a b) b = a.
Proof.
  revert b; induction a as [|x a IH]; intros [|y b] H; cbn [xor_bytes]; try reflexivity; try discriminate.
  cbn [length] in H. rewrite IH by lia. f_equal.
  rewrite N.lxor_assoc, N.lxor_nilpotent, N.lxor_0_r. reflexivity.
Qed.

Lemma bytes_eqb_refl a : bytes_eqb a a = true.
Proof. induction a as [|x a IH]; cbn [bytes_eqb]; [reflexivity|]. rewrite N.eqb_refl, IH. reflexivity. Qed.

Lemma bytes_eqb_eq a b : bytes_eqb a b = true -> a = b.
Proof.
  revert b; induction a as [|x a IH]; intros [|y b]; cbn [bytes_eqb]; intros H; try reflexivity; try discriminate.
  apply andb_true_iff in H. destruct H as [H1 H2]. apply N.eqb_eq in H1. f_equal; [exact H1|apply IH; exact H2].
Qed.

Lemma bytes_ok_app a b : bytes_ok a -> bytes_ok b -> bytes_ok (a ++ b).
Proof. unfold bytes_ok. intros; apply Forall_app; split; assumption. Qed.

Lemma bytes_ok_repeat v n : (v < 256)%N -> bytes_ok (repeat v n).
Proof. intros Hv. unfold bytes_ok. apply Forall_forall. intros x Hx. apply repeat_spec in Hx. subst. exact Hv. Qed.

Lemma len_bytes_length n : length (len_bytes n) = 2.
Proof. reflexivity. Qed.

Lemma put_len_length hdr n : length hdr = 5 -> length (put_len hdr n) = 5.
Proof. intros H. unfold put_len. rewrite app_length, firstn_length, len_bytes_length. lia. Qed.

Lemma put_len_put_len hdr n m : length hdr = 5 -> put_len (put_len hdr n) m = put_len hdr m.
Proof.
  intros H. unfold put_len. rewrite firstn_app_exact; [reflexivity|]. rewrite firstn_length. lia.
Qed.

Lemma put_len_same h3 n : length h3 = 3 -> put_len (h3 ++ len_bytes n) n = h3 ++ len_bytes n.
Proof. intros H. unfold put_len. rewrite firstn_app_exact by (symmetry; exact H). reflexivity. Qed.

Lemma last_indep {A} (l : list A) d d' : l <> [] -> last l d = last l d'.
Proof.
  induction l as [|x l IH]; [congruence|]. intros _.
  destruct l as [|y l]; [reflexivity|].
  change (last (x :: y :: l) d) with (last (y :: l) d).
  change (last (x :: y :: l) d') with (last (y :: l) d'). apply IH. discriminate.
Qed.

Lemma last_In {A} (l : list A) d : l <> [] -> In (last l d) l.
Proof.
  induction l as [|x l IH]; [congruence|]. intros _.
  destruct l as [|y l]; [left; reflexivity|]. right.
  change (last (x :: y :: l) d) with (last (y :: l) d). apply IH. discriminate.
Qed.

Lemma last_cons_default {A} (c : A) l d : last (c :: l) d = last l c.
Proof.
  destruct l as [|y l]; [reflexivity|].
  change (last (c :: y :: l) d) with (last (y :: l) d). apply last_indep. discriminate.
Qed.

Lemma nth_repeat_lt' {A} (v d : A) n j : j < n -> nth j (repeat v n) d = v.
Proof.
  revert j; induction n as [|n IH]; intros j Hj; [lia|].
  destruct j as [|j]; cbn [repeat nth]; [reflexivity|]. apply IH. lia.
Qed.

(* ---------- chunking ---------------------------------------------------------------------------------------- *)
Lemma chunks_exist bs : 1 <= bs -> forall n (l : list N), length l = n * bs ->
  exists bl, l = concat bl /\ Forall (fun b => length b = bs) bl /\ length bl = n.
Proof.
  intros Hbs. induction n as [|n IH]; intros l Hl.
  - exists []. destruct l; [auto|discriminate].
  - destruct (IH (skipn bs l)) as [bl [E [F L]]]; [rewrite skipn_length; lia|].
    exists (firstn bs l :: bl). cbn [concat length]. rewrite <- E, firstn_skipn.
    split; [reflexivity|]. split; [|lia]. constructor; [|exact F]. rewrite firstn_length. lia.
Qed.

Lemma chunks_of_multiple bs (l : list N) : 1 <= bs -> length l mod bs = 0 ->
  exists bl, l = concat bl /\ Forall (fun b => length b = bs) bl.
Proof.
  intros Hbs Hm. pose proof (Nat.div_mod (length l) bs ltac:(lia)) as Hd. rewrite Hm in Hd.
  destruct (chunks_exist bs Hbs (length l / bs) l ltac:(lia)) as [bl [E [F _]]]. exists bl. auto.
Qed.

Lemma concat_blocks_length bs (bl : list (list N)) :
  Forall (fun b => length b = bs) bl -> length (concat bl) = bs * length bl.
Proof.
  induction 1 as [|b bl Hb _ IH]; cbn [concat length]; [lia|]. rewrite app_length, IH, Hb. lia.
Qed.

(* ---------- the premises on the primitives, bundled ------------------------------------------------------------ *)
Record prims_ok (P : prims) : Prop := mkPrimsOk {
  ok_bs : 1 <= p_bs P <= 256;
  ok_enc_len : forall k b, length b = p_bs P -> length (p_enc P k b) = p_bs P;
  ok_enc_bytes : forall k b, length b = p_bs P -> bytes_ok b -> bytes_ok (p_enc P k b);
  ok_dec_enc : forall k b, length b = p_bs P -> bytes_ok b -> p_dec P k (p_enc P k b) = b;
  ok_mac_len : forall k m, length (p_mac P k m) = p_macSize P;
  ok_mac_bytes : forall k m, bytes_ok (p_mac P k m);
  ok_open_seal : forall k n ad p, p_open P k n ad (p_seal P k n ad p) = Some p;
  ok_seal_len : forall k n ad p, length (p_seal P k n ad p) = length p + p_overhead P }.

Lemma xor_bytes_ok a b : bytes_ok a -> bytes_ok b -> bytes_ok (xor_bytes a b).
Proof.
  unfold bytes_ok. revert b; induction a as [|x a IH]; intros [|y b] Ha Hb; cbn [xor_bytes]; try constructor.
  - inversion Ha; inversion Hb; subst. apply lxor_byte_lt; assumption.
  - inversion Ha; inversion Hb; subst. apply IH; assumption.
Qed.

Lemma bytes_ok_concat_inv (l : list (list N)) : bytes_ok (concat l) -> Forall bytes_ok l.
Proof.
  induction l as [|x l IH]; intros H; [constructor|]. cbn [concat] in H. unfold bytes_ok in H.
  apply Forall_app in H. destruct H as [H1 H2]. constructor; [exact H1|apply IH; exact H2].
Qed.

Section Roundtrip.
  Variable P : prims.
  Let bs := p_bs P.
  Hypothesis Hok : prims_ok P.
  Let Hbs : 1 <= p_bs P <= 256.
  Proof. apply Hok. Qed.
  Let Henc_len : forall k b, length b = p_bs P -> length (p_enc P k b) = p_bs P.
  Proof. apply Hok. Qed.
  Let Henc_ok : forall k b, length b = p_bs P -> bytes_ok b -> bytes_ok (p_enc P k b).
  Proof. apply Hok. Qed.
  Let Hdec_enc : forall k b, length b = p_bs P -> bytes_ok b -> p_dec P k (p_enc P k b) = b.
  Proof. apply Hok. Qed.
  Let Hmac_len : forall k m, length (p_mac P k m) = p_macSize P.
  Proof. apply Hok. Qed.
  Let Hmac_ok : forall k m, bytes_ok (p_mac P k m).
  Proof. apply Hok. Qed.
  Let Hopen_seal : forall k n ad p, p_open P k n ad (p_seal P k n ad p) = Some p.
  Proof. apply Hok. Qed.
  Let Hseal_len : forall k n ad p, length (p_seal P k n ad p) = length p + p_overhead P.
  Proof. apply Hok. Qed.

  (* ---------- CBC over a list of blocks ------------------------------------------------------------------- *)
  Fixpoint enc_blocks (key iv : list N) (bl : list (list N)) : list (list N) :=
    match bl with
    | [] => []
    | b :: t => let c := p_enc P key (xor_bytes b iv) in c :: enc_blocks key c t
    end.

  Fixpoint dec_blocks (key iv : list N) (cl : list (list N)) : list (list N) :=
    match cl with
    | [] => []
    | c :: t => xor_bytes (p_dec P key c) iv :: dec_blocks key c t
    end.

  Lemma enc_blocks_length key iv bl : length (enc_blocks key iv bl) = length bl.
  Proof. revert iv; induction bl as [|b t IH]; intros iv; cbn [enc_blocks length]; auto. Qed.

  Lemma enc_blocks_sizes key bl : forall iv, length iv = bs ->
    Forall (fun b => length b = bs) bl -> Forall (fun b => length b = bs) (enc_blocks key iv bl).
  Proof.
    induction bl as [|b t IH]; intros iv Hiv F; cbn [enc_blocks]; [constructor|].
    inversion F as [|? ? Hb Ft]; subst.
    assert (Hc : length (p_enc P key (xor_bytes b iv)) = bs).
    { apply Henc_len. rewrite xor_bytes_length. fold bs. lia. }
    constructor; [exact Hc|]. apply IH; assumption.
  Qed.

  Lemma enc_blocks_app key a : forall iv b,
    enc_blocks key iv (a ++ b) = enc_blocks key iv a ++ enc_blocks key (last (enc_blocks key iv a) iv) b.
  Proof.
    induction a as [|x a IH]; intros iv b; cbn [app enc_blocks]; [reflexivity|].
    rewrite IH. rewrite last_cons_default. reflexivity.
  Qed.

  Lemma dec_enc_blocks key bl : forall iv, length iv = bs -> bytes_ok iv ->
    Forall (fun b => length b = bs) bl -> Forall bytes_ok bl -> dec_blocks key iv (enc_blocks key iv bl) = bl.
  Proof.
    induction bl as [|b t IH]; intros iv Hiv Hivb F Fb; cbn [enc_blocks dec_blocks]; [reflexivity|].
    inversion F as [|? ? Hb Ft]; subst. inversion Fb as [|? ? Hbb Fbt]; subst.
    assert (Hx : length (xor_bytes b iv) = bs) by (rewrite xor_bytes_length; lia).
    assert (Hxb : bytes_ok (xor_bytes b iv)) by (apply xor_bytes_ok; assumption).
    rewrite Hdec_enc by assumption.
    rewrite xor_bytes_involutive by lia.
    rewrite IH; [reflexivity| | |exact Ft|exact Fbt]; [apply Henc_len; exact Hx|apply Henc_ok; assumption].
  Qed.

  Lemma cbc_enc_go_step fuel key iv src : src <> [] ->
    cbc_enc_go P (S fuel) key iv src =
      (let c := p_enc P key (xor_bytes (firstn bs src) iv) in
       let '(rest, iv') := cbc_enc_go P fuel key c (skipn bs src) in (c ++ rest, iv')).
  Proof. destruct src; [congruence|reflexivity]. Qed.

  Lemma cbc_enc_go_nil fuel key iv : cbc_enc_go P fuel key iv [] = ([], iv).
  Proof. destruct fuel; reflexivity. Qed.

  Lemma cbc_enc_go_blocks key bl : forall iv fuel,
    Forall (fun b => length b = bs) bl -> length bl <= fuel ->
    cbc_enc_go P fuel key iv (concat bl) = (concat (enc_blocks key iv bl), last (enc_blocks key iv bl) iv).
  Proof.
    induction bl as [|b t IH]; intros iv fuel F Hf.
    - cbn [concat enc_blocks last]. apply cbc_enc_go_nil.
    - inversion F as [|? ? Hb Ft]; subst. destruct fuel as [|fuel]; [cbn in Hf; lia|].
      cbn [concat]. rewrite cbc_enc_go_step.
      2:{ destruct b; [cbn in Hb; unfold bs in Hb; lia|discriminate]. }
      rewrite firstn_app_exact, skipn_app_exact by (symmetry; exact Hb).
      cbv zeta. rewrite (IH _ fuel Ft ltac:(cbn in Hf; lia)).
      cbn [enc_blocks concat]. rewrite last_cons_default. reflexivity.
  Qed.

  Lemma cbc_dec_go_step fuel key iv src : src <> [] ->
    cbc_dec_go P (S fuel) key iv src =
      (let c := firstn bs src in
       let p := xor_bytes (p_dec P key c) iv in
       let '(rest, iv') := cbc_dec_go P fuel key c (skipn bs src) in (p ++ rest, iv')).
  Proof. destruct src; [congruence|reflexivity]. Qed.

  Lemma cbc_dec_go_nil fuel key iv : cbc_dec_go P fuel key iv [] = ([], iv).
  Proof. destruct fuel; reflexivity. Qed.

  Lemma cbc_dec_go_blocks key cl : forall iv fuel,
    Forall (fun b => length b = bs) cl -> length cl <= fuel ->
    cbc_dec_go P fuel key iv (concat cl) = (concat (dec_blocks key iv cl), last cl iv).
  Proof.
    induction cl as [|c t IH]; intros iv fuel F Hf.
    - cbn [concat dec_blocks last]. apply cbc_dec_go_nil.
    - inversion F as [|? ? Hc Ft]; subst. destruct fuel as [|fuel]; [cbn in Hf; lia|].
      cbn [concat]. rewrite cbc_dec_go_step.
      2:{ destruct c; [cbn in Hc; unfold bs in Hc; lia|discriminate]. }
      rewrite firstn_app_exact, skipn_app_exact by (symmetry; exact Hc).
      cbv zeta. rewrite (IH _ fuel Ft ltac:(cbn in Hf; lia)).
      cbn [dec_blocks concat]. rewrite last_cons_default. reflexivity.
  Qed.

  Lemma cbc_encrypt_blocks_ok key iv bl : Forall (fun b => length b = bs) bl ->
    cbc_encrypt_blocks P key iv (concat bl) =
      Ok (concat (enc_blocks key iv bl), last (enc_blocks key iv bl) iv).
  Proof.
    intros F. unfold cbc_encrypt_blocks. fold bs.
    rewrite (concat_blocks_length bs bl F).
    rewrite Nat.mul_comm, Nat.mod_mul by lia. cbn [Nat.eqb].
    rewrite cbc_enc_go_blocks; [reflexivity|exact F|nia].
  Qed.

  Lemma cbc_decrypt_blocks_ok key iv cl : Forall (fun b => length b = bs) cl ->
    cbc_decrypt_blocks P key iv (concat cl) = Ok (concat (dec_blocks key iv cl), last cl iv).
  Proof.
    intros F. unfold cbc_decrypt_blocks. fold bs.
    rewrite (concat_blocks_length bs cl F).
    rewrite Nat.mul_comm, Nat.mod_mul by lia. cbn [Nat.eqb].
    rewrite cbc_dec_go_blocks; [reflexivity|exact F|nia].
  Qed.

  (* ---------- incSeq on a half connection ----------------------------------------------------------------- *)
  Lemma incSeq_ok hc s : hc_seq hc = be64 s -> (s < 2 ^ 64 - 1)%N ->
    incSeq hc = Ok (set_seq hc (be64 (s + 1))).
  Proof.
    intros Hs Hlt. unfold incSeq. rewrite Hs, incSeq_loop_be64 by lia.
    destruct (N.eqb_spec s (2 ^ 64 - 1)); [lia|]. reflexivity.
  Qed.

  (* ---------- the padded plaintext of a CBC record ---------------------------------------------------------- *)
  Definition cbc_body (mk : list N) (s : N) (hdr frag : list N) : list N :=
    frag ++ p_mac P mk (be64 s ++ hdr ++ frag).
  Definition cbc_padlen (body : list N) : nat := bs - length body mod bs.
  Definition cbc_padded (body : list N) : list N :=
    body ++ repeat (N.of_nat (cbc_padlen body - 1) mod 256)%N (cbc_padlen body).

  Lemma cbc_padlen_range body : 1 <= cbc_padlen body <= bs.
  Proof. unfold cbc_padlen. pose proof (Nat.mod_upper_bound (length body) bs ltac:(unfold bs; lia)). lia. Qed.

  Lemma extractPadding_padded body :
    bytes_ok body -> (N.of_nat (length body) < 2 ^ 30)%N ->
    extractPadding (cbc_padded body) = (cbc_padlen body, 255%N).
  Proof.
    intros Hbok Hlen. pose proof (cbc_padlen_range body) as Hk. set (k := cbc_padlen body) in *.
    assert (Hv : (N.of_nat (k - 1) mod 256 = N.of_nat (k - 1))%N) by (apply N.mod_small; unfold bs in Hk; lia).
    assert (Hp : cbc_padded body = body ++ repeat (N.of_nat (k - 1)) k).
    { unfold cbc_padded. fold k. rewrite Hv. reflexivity. }
    assert (Hlenp : length (cbc_padded body) = length body + k).
    { rewrite Hp, app_length, repeat_length. reflexivity. }
    assert (Hnth : forall j, j < k -> nth (length body + j) (cbc_padded body) 0%N = N.of_nat (k - 1)).
    { intros j Hj. rewrite Hp, app_nth2 by lia.
      replace (length body + j - length body) with j by lia.
      apply nth_repeat_lt'. exact Hj. }
    pose proof (extractPadding_spec_lemma (cbc_padded body)) as S.
    assert (Hokp : bytes_ok (cbc_padded body)).
    { rewrite Hp. apply bytes_ok_app; [exact Hbok|]. apply bytes_ok_repeat. unfold bs in Hk. lia. }
    specialize (S Hokp ltac:(rewrite Hlenp; unfold bs in Hk; change (2 ^ 31)%N with 2147483648%N;
                             change (2 ^ 30)%N with 1073741824%N in Hlen; lia)).
    destruct (cbc_padded body) as [|x0 r0] eqn:E; [cbn in Hlenp; lia|]. rewrite <- E in *.
    assert (Hlast : last (cbc_padded body) 0%N = N.of_nat (k - 1)).
    { rewrite last_nth, Hlenp. replace (length body + k - 1) with (length body + (k - 1)) by lia.
      apply Hnth. lia. }
    destruct S as [S1 [S2 S3]].
    assert (Hvalid : pad_valid (cbc_padded body)).
    { unfold pad_valid. rewrite Hlast, Hlenp. split; [lia|]. intros j Hj.
      replace (length body + k - 1 - j) with (length body + (k - 1 - j)) by lia. apply Hnth. lia. }
    apply S3 in Hvalid.
    rewrite (surjective_pairing (extractPadding (cbc_padded body))), S1, Hvalid, Hlast.
    f_equal. lia.
  Qed.

  (* ---------- halfConn.encrypt: layout of a protected CBC record ------------------------------------------ *)
  Lemma encrypt_cbc_shape hc key iv0 mk s hdr eiv frag :
    hc_cipher hc = CipherCBC key iv0 -> hc_mac hc = Some mk -> hc_seq hc = be64 s -> (s < 2 ^ 64 - 1)%N ->
    length hdr = 5 -> length eiv = bs ->
    let padded := cbc_padded (cbc_body mk s hdr frag) in
    exists bl iv3,
      padded = concat bl /\ Forall (fun b => length b = bs) bl /\
      encrypt P hc (hdr ++ eiv ++ frag) bs =
        Ok (mkHC (hc_err hc) (hc_version hc) (CipherCBC key iv3) (Some mk) (be64 (s + 1)),
            put_len hdr (bs + length padded) ++ eiv ++ concat (enc_blocks key eiv bl)).
  Proof.
    intros Hc Hm Hs Hlt Hh He padded.
    set (body := cbc_body mk s hdr frag) in *.
    pose proof (padToBlockSize_spec_lemma body bs ltac:(unfold bs; lia)) as Spec.
    destruct (padToBlockSize body bs) as [prefix final] eqn:Epad.
    destruct Spec as [Sapp [Sk [Spre [Sfin Sall]]]].
    destruct (chunks_of_multiple bs prefix ltac:(unfold bs; lia) Spre) as [bl1 [E1 F1]].
    exists (bl1 ++ [final]). eexists.
    assert (Hpadded : padded = concat (bl1 ++ [final])).
    { unfold padded, cbc_padded, cbc_padlen. rewrite concat_app. cbn [concat]. rewrite app_nil_r, <- E1.
      symmetry. exact Sapp. }
    split; [exact Hpadded|]. split; [apply Forall_app; split; [exact F1|constructor; [exact Sfin|constructor]]|].
    unfold encrypt.
    assert (Hlen0 : length (hdr ++ eiv ++ frag) <? recordHeaderLen + bs = false).
    { apply Nat.ltb_ge. rewrite !app_length. unfold recordHeaderLen. lia. }
    rewrite Hlen0, Hm, Hc.
    rewrite (firstn_app_exact hdr) by (unfold recordHeaderLen; lia).
    replace (skipn (recordHeaderLen + bs) (hdr ++ eiv ++ frag)) with frag.
    2:{ rewrite app_assoc. rewrite skipn_app_exact; [reflexivity|]. rewrite app_length. unfold recordHeaderLen. lia. }
    unfold tls10MAC. rewrite Hs.
    assert (Hbsb : (0 <? bs) && negb (bs =? p_bs P) = false).
    { unfold bs. rewrite Nat.eqb_refl. cbn. apply andb_false_r. }
    rewrite Hbsb.
    assert (Hpos : 0 <? bs = true) by (apply Nat.ltb_lt; unfold bs; lia). rewrite Hpos.
    rewrite <- app_assoc.
    rewrite (skipn_app_exact hdr) by (unfold recordHeaderLen; lia).
    rewrite <- app_assoc.
    rewrite (firstn_app_exact eiv) by (symmetry; exact He).
    rewrite (skipn_app_exact eiv) by (symmetry; exact He).
    change (frag ++ p_mac P mk (be64 s ++ hdr ++ frag)) with body.
    fold bs. rewrite Epad.
    rewrite E1, cbc_encrypt_blocks_ok by exact F1. cbn [obind].
    replace final with (concat [final]) at 1 by (cbn [concat]; apply app_nil_r).
    rewrite cbc_encrypt_blocks_ok by (constructor; [exact Sfin|constructor]). cbn [obind].
    rewrite enc_blocks_app.
    (* the record *)
    replace (firstn (recordHeaderLen + bs) (hdr ++ eiv ++ body)) with (hdr ++ eiv).
    2:{ rewrite app_assoc. rewrite firstn_app_exact; [reflexivity|]. rewrite app_length. unfold recordHeaderLen. lia. }
    rewrite <- !app_assoc.
    rewrite (firstn_app_exact hdr) by (unfold recordHeaderLen; lia).
    rewrite (skipn_app_exact hdr) by (unfold recordHeaderLen; lia).
    set (c1 := concat (enc_blocks key eiv bl1)).
    set (iv2 := last (enc_blocks key eiv bl1) eiv).
    set (c2 := concat (enc_blocks key iv2 [final])).
    assert (Hn : length (hdr ++ eiv ++ c1 ++ c2) - recordHeaderLen = bs + length padded).
    { rewrite !app_length. unfold recordHeaderLen. rewrite Hh, He.
      unfold c1, c2. rewrite Hpadded.
      assert (Hiv2 : length iv2 = bs).
      { unfold iv2. destruct bl1 as [|b0 t0]; [exact He|].
        pose proof (enc_blocks_sizes key (b0 :: t0) eiv He F1) as Fz.
        rewrite Forall_forall in Fz. apply Fz. apply last_In. cbn [enc_blocks]. discriminate. }
      rewrite (concat_blocks_length bs _ (enc_blocks_sizes key bl1 eiv He F1)).
      rewrite (concat_blocks_length bs _ (enc_blocks_sizes key [final] iv2 Hiv2 ltac:(constructor; [exact Sfin|constructor]))).
      rewrite (concat_blocks_length bs (bl1 ++ [final]) ltac:(apply Forall_app; split; [exact F1|constructor; [exact Sfin|constructor]])).
      rewrite !enc_blocks_length, app_length. cbn [length]. lia. }
    rewrite Hn.
    rewrite (incSeq_ok _ s) by (cbn [set_cipher hc_seq]; assumption).
    cbn [obind]. unfold set_seq, set_cipher. cbn [hc_err hc_version hc_cipher hc_mac hc_seq]. rewrite Hm.
    unfold c1, c2, iv2. rewrite concat_app. reflexivity.
  Qed.

  (* ---------- halfConn.decrypt on a record made by halfConn.encrypt (CBC + MAC) ---------------------------- *)
  Lemma explicit_iv_gmssl : explicit_iv_version VersionGMSSL = true.
  Proof. reflexivity. Qed.

  Lemma decrypt_cbc_record hc key ivR mk s h3 eiv frag bl n :
    hc_cipher hc = CipherCBC key ivR -> hc_mac hc = Some mk -> hc_seq hc = be64 s -> (s < 2 ^ 64 - 1)%N ->
    hc_version hc = VersionGMSSL ->
    length h3 = 3 -> length eiv = bs -> bytes_ok eiv -> bytes_ok frag ->
    (N.of_nat (length frag) + N.of_nat (p_macSize P) < 2 ^ 30)%N ->
    let hdr := h3 ++ len_bytes (length frag) in
    cbc_padded (cbc_body mk s hdr frag) = concat bl -> Forall (fun b => length b = bs) bl ->
    decrypt P hc (put_len hdr n ++ eiv ++ concat (enc_blocks key eiv bl)) =
      Ok (mkHC (hc_err hc) (hc_version hc) (CipherCBC key (last (enc_blocks key eiv bl) eiv)) (Some mk)
               (be64 (s + 1)), Some frag).
  Proof.
    intros Hc Hm Hs Hlt Hv Hh3 He Heb Hokf Hsz hdr Hpadded F.
    assert (Hh : length hdr = 5) by (unfold hdr; rewrite app_length, len_bytes_length; lia).
    set (body := cbc_body mk s hdr frag) in *.
    pose proof (cbc_padlen_range body) as Hk.
    assert (Hbody : length body = length frag + p_macSize P).
    { unfold body, cbc_body. rewrite app_length, Hmac_len. reflexivity. }
    assert (Hlenp : length (cbc_padded body) = length frag + p_macSize P + cbc_padlen body).
    { unfold cbc_padded. rewrite app_length, repeat_length, Hbody. reflexivity. }
    assert (Fc : Forall (fun b => length b = bs) (enc_blocks key eiv bl)) by (apply enc_blocks_sizes; assumption).
    assert (HlenC : length (concat (enc_blocks key eiv bl)) = length (cbc_padded body)).
    { rewrite (concat_blocks_length bs _ Fc), enc_blocks_length, Hpadded.
      rewrite (concat_blocks_length bs _ F). reflexivity. }
    unfold decrypt.
    assert (Hl5 : length (put_len hdr n ++ eiv ++ concat (enc_blocks key eiv bl)) <? recordHeaderLen = false).
    { apply Nat.ltb_ge. rewrite app_length, put_len_length by exact Hh. unfold recordHeaderLen. lia. }
    rewrite Hl5.
    rewrite (firstn_app_exact (put_len hdr n) _ recordHeaderLen) by (rewrite put_len_length by exact Hh; reflexivity).
    rewrite (skipn_app_exact (put_len hdr n) _ recordHeaderLen) by (rewrite put_len_length by exact Hh; reflexivity).
    rewrite Hm, Hc, Hv, explicit_iv_gmssl. fold bs.
    assert (Hcond : negb (length (eiv ++ concat (enc_blocks key eiv bl)) mod bs =? 0)
                    || (length (eiv ++ concat (enc_blocks key eiv bl)) <? roundUp (bs + p_macSize P + 1) bs) = false).
    { rewrite app_length, He, HlenC.
      assert (Hmod : (bs + length (cbc_padded body)) mod bs = 0).
      { rewrite Hpadded, (concat_blocks_length bs _ F).
        replace (bs + bs * length bl) with ((1 + length bl) * bs) by lia. apply Nat.mod_mul. unfold bs; lia. }
      rewrite Hmod. cbn [Nat.eqb negb orb].
      apply Nat.ltb_ge.
      destruct (roundUp_spec_lemma (bs + p_macSize P + 1) bs ltac:(unfold bs; lia)) as [_ [_ Hmin]].
      apply Hmin; [lia|exact Hmod]. }
    rewrite Hcond.
    assert (Hpos : 0 <? bs = true) by (apply Nat.ltb_lt; unfold bs; lia). rewrite Hpos.
    rewrite (firstn_app_exact eiv) by (symmetry; exact He).
    rewrite (skipn_app_exact eiv) by (symmetry; exact He).
    rewrite cbc_decrypt_blocks_ok by exact Fc. cbn [obind].
    assert (Hbodyok : bytes_ok body) by (unfold body, cbc_body; apply bytes_ok_app; [exact Hokf|apply Hmac_ok]).
    assert (Hblok : Forall bytes_ok bl).
    { apply bytes_ok_concat_inv. rewrite <- Hpadded. unfold cbc_padded. apply bytes_ok_app; [exact Hbodyok|].
      apply bytes_ok_repeat. apply N.mod_lt. discriminate. }
    rewrite dec_enc_blocks by assumption. rewrite <- Hpadded.
    rewrite extractPadding_padded.
    2:{ exact Hbodyok. }
    2:{ rewrite Hbody. lia. }
    cbn [obind].
    assert (Hms : length (cbc_padded body) <? p_macSize P = false) by (apply Nat.ltb_ge; lia).
    rewrite Hms.
    replace (length (cbc_padded body) - p_macSize P - cbc_padlen body) with (length frag) by lia.
    rewrite put_len_put_len by exact Hh.
    unfold hdr at 1. rewrite put_len_same by exact Hh3. fold hdr.
    assert (Hsplit : cbc_padded body = frag ++ p_mac P mk (be64 s ++ hdr ++ frag) ++
                       repeat (N.of_nat (cbc_padlen body - 1) mod 256)%N (cbc_padlen body)).
    { unfold cbc_padded, body, cbc_body. rewrite <- app_assoc. reflexivity. }
    rewrite Hsplit.
    rewrite (skipn_app_exact frag) by reflexivity.
    rewrite (firstn_app_exact (p_mac P mk (be64 s ++ hdr ++ frag))) by (symmetry; apply Hmac_len).
    rewrite (firstn_app_exact frag) by reflexivity.
    unfold tls10MAC. rewrite Hs, bytes_eqb_refl. cbn [andb N.eqb Pos.eqb].
    rewrite (incSeq_ok _ s) by (cbn [set_cipher hc_seq]; assumption).
    cbn [obind]. unfold set_seq, set_cipher. cbn [hc_err hc_version hc_cipher hc_mac hc_seq]. rewrite Hm, Hv.
    reflexivity.
  Qed.

  (* ---------- AEAD ------------------------------------------------------------------------------------------ *)
  Lemma len_bytes_biased_shift L : len_bytes_biased (N.of_nat L + 65536) = len_bytes L.
  Proof.
    unfold len_bytes, len_bytes_biased. f_equal; [|f_equal].
    - replace ((N.of_nat L + 65536) / 256)%N with (N.of_nat L / 256 + 1 * 256)%N.
      + apply N.mod_add. discriminate.
      + apply N.div_unique with (r := (N.of_nat L mod 256)%N); [apply N.mod_lt; discriminate|].
        pose proof (N.div_mod' (N.of_nat L) 256). lia.
    - replace (N.of_nat L + 65536)%N with (N.of_nat L + 256 * 256)%N by lia.
      apply N.mod_add. discriminate.
  Qed.

  Lemma encrypt_aead_shape hc key fixed s h3 eiv frag :
    hc_cipher hc = CipherAEAD key fixed -> hc_mac hc = None -> hc_seq hc = be64 s -> (s < 2 ^ 64 - 1)%N ->
    length h3 = 3 -> length eiv = 8 ->
    let hdr := h3 ++ len_bytes (length frag) in
    encrypt P hc (hdr ++ eiv ++ frag) 8 =
      Ok (mkHC (hc_err hc) (hc_version hc) (CipherAEAD key fixed) None (be64 (s + 1)),
          put_len hdr (8 + (length frag + p_overhead P)) ++ eiv ++
          p_seal P key (fixed ++ eiv) (be64 s ++ h3 ++ len_bytes (length frag)) frag).
  Proof.
    intros Hc Hm Hs Hlt Hh3 He hdr.
    assert (Hh : length hdr = 5) by (unfold hdr; rewrite app_length, len_bytes_length; lia).
    unfold encrypt.
    assert (Hlen0 : length (hdr ++ eiv ++ frag) <? recordHeaderLen + 8 = false).
    { apply Nat.ltb_ge. rewrite !app_length. unfold recordHeaderLen. lia. }
    rewrite Hlen0, Hm, Hc.
    rewrite (skipn_app_exact hdr) by (unfold recordHeaderLen; lia).
    rewrite (firstn_app_exact eiv) by (symmetry; exact He).
    replace (skipn (recordHeaderLen + 8) (hdr ++ eiv ++ frag)) with frag.
    2:{ rewrite app_assoc. rewrite skipn_app_exact; [reflexivity|]. rewrite app_length. unfold recordHeaderLen. lia. }
    replace (firstn (recordHeaderLen + 8) (hdr ++ eiv ++ frag)) with (hdr ++ eiv).
    2:{ rewrite app_assoc. rewrite firstn_app_exact; [reflexivity|]. rewrite app_length. unfold recordHeaderLen. lia. }
    replace (length (hdr ++ eiv ++ frag) - recordHeaderLen - 8) with (length frag).
    2:{ rewrite !app_length. unfold recordHeaderLen. lia. }
    replace (firstn 3 (hdr ++ eiv ++ frag)) with h3.
    2:{ unfold hdr. rewrite <- app_assoc. rewrite firstn_app_exact; [reflexivity|]. symmetry; exact Hh3. }
    assert (Hnonce : match eiv with [] => hc_seq hc | _ :: _ => eiv end = eiv).
    { destruct eiv; [discriminate|reflexivity]. }
    rewrite Hnonce. unfold fixedNonce. rewrite firstn_all2 by lia.
    cbn [obind].
    rewrite <- !app_assoc.
    rewrite (firstn_app_exact hdr) by (unfold recordHeaderLen; lia).
    rewrite (skipn_app_exact hdr) by (unfold recordHeaderLen; lia).
    replace (length (hdr ++ eiv ++ p_seal P key (fixed ++ eiv) (hc_seq hc ++ h3 ++ len_bytes (length frag)) frag)
             - recordHeaderLen) with (8 + (length frag + p_overhead P)).
    2:{ rewrite !app_length, Hseal_len. unfold recordHeaderLen. lia. }
    rewrite (incSeq_ok _ s) by (cbn [set_cipher hc_seq]; assumption).
    cbn [obind]. unfold set_seq, set_cipher. cbn [hc_err hc_version hc_cipher hc_mac hc_seq]. rewrite Hm, Hs.
    reflexivity.
  Qed.

  Lemma decrypt_aead_record hc key fixed s h3 eiv frag n :
    hc_cipher hc = CipherAEAD key fixed -> hc_mac hc = None -> hc_seq hc = be64 s -> (s < 2 ^ 64 - 1)%N ->
    length h3 = 3 -> length eiv = 8 ->
    let hdr := h3 ++ len_bytes (length frag) in
    decrypt P hc (put_len hdr n ++ eiv ++
                  p_seal P key (fixed ++ eiv) (be64 s ++ h3 ++ len_bytes (length frag)) frag) =
      Ok (mkHC (hc_err hc) (hc_version hc) (CipherAEAD key fixed) None (be64 (s + 1)), Some frag).
  Proof.
    intros Hc Hm Hs Hlt Hh3 He hdr.
    assert (Hh : length hdr = 5) by (unfold hdr; rewrite app_length, len_bytes_length; lia).
    set (ct := p_seal P key (fixed ++ eiv) (be64 s ++ h3 ++ len_bytes (length frag)) frag).
    assert (Hct : length ct = length frag + p_overhead P) by apply Hseal_len.
    unfold decrypt.
    assert (Hl5 : length (put_len hdr n ++ eiv ++ ct) <? recordHeaderLen = false).
    { apply Nat.ltb_ge. rewrite app_length, put_len_length by exact Hh. unfold recordHeaderLen. lia. }
    rewrite Hl5.
    rewrite (skipn_app_exact (put_len hdr n)) by (rewrite put_len_length by exact Hh; reflexivity).
    rewrite Hm, Hc.
    assert (Hl8 : length (eiv ++ ct) <? 8 = false) by (apply Nat.ltb_ge; rewrite app_length; lia).
    rewrite Hl8.
    rewrite (firstn_app_exact eiv) by (symmetry; exact He).
    rewrite (skipn_app_exact eiv) by (symmetry; exact He).
    replace (firstn 3 (put_len hdr n ++ eiv ++ ct)) with h3.
    2:{ unfold put_len, hdr. rewrite (firstn_app_exact h3) by (symmetry; exact Hh3).
        rewrite <- app_assoc. rewrite firstn_app_exact; [reflexivity|]. symmetry; exact Hh3. }
    replace (N.of_nat (length ct) + 65536 - N.of_nat (p_overhead P))%N with (N.of_nat (length frag) + 65536)%N by lia.
    rewrite len_bytes_biased_shift.
    unfold fixedNonce. rewrite firstn_all2 by lia.
    rewrite Hs. unfold ct. rewrite Hopen_seal. cbn [obind].
    rewrite (incSeq_ok _ s) by (cbn [set_cipher hc_seq]; assumption).
    cbn [obind]. unfold set_seq, set_cipher. cbn [hc_err hc_version hc_cipher hc_mac hc_seq]. rewrite Hm.
    reflexivity.
  Qed.

  (* ---------- theorem 2: decrypt after encrypt, both cipher shapes ------------------------------------------- *)
  (* what the two half connections must share *)
  Definition same_keys (w r : halfConn) : Prop :=
    hc_mac w = hc_mac r /\ hc_seq w = hc_seq r /\
    match hc_cipher w, hc_cipher r with
    | CipherAEAD k f, CipherAEAD k' f' => k = k' /\ f = f' /\ hc_mac w = None
    | CipherCBC k _, CipherCBC k' _ => k = k' /\ hc_mac w <> None
    | _, _ => False
    end.

  Definition explicit_len (cs : cipher_state) : nat :=
    match cs with CipherAEAD _ _ => 8 | CipherCBC _ _ => bs | CipherNone => 0 end.

  Lemma decrypt_encrypt_record_lemma w r s h3 eiv frag :
    same_keys w r -> hc_seq w = be64 s -> (s < 2 ^ 64 - 1)%N -> hc_version r = VersionGMSSL ->
    length h3 = 3 -> length eiv = explicit_len (hc_cipher w) -> bytes_ok eiv -> bytes_ok frag ->
    (N.of_nat (length frag) + N.of_nat (p_macSize P) < 2 ^ 30)%N ->
    exists w' rec_ r',
      encrypt P w (h3 ++ len_bytes (length frag) ++ eiv ++ frag) (length eiv) = Ok (w', rec_) /\
      decrypt P r rec_ = Ok (r', Some frag) /\
      hc_seq w' = be64 (s + 1) /\ hc_seq r' = be64 (s + 1) /\ same_keys w' r' /\
      hc_version r' = hc_version r /\ hc_err r' = hc_err r /\ hc_version w' = hc_version w /\ hc_err w' = hc_err w /\
      exists body, rec_ = h3 ++ len_bytes (length body) ++ body /\
                   length body <= length eiv + length frag + p_macSize P + p_bs P + p_overhead P.
  Proof.
    intros [Hmac [Hseq Hk]] Hs Hlt Hv Hh3 He Hebytes Hokf Hsz.
    assert (Hput : forall L N, put_len (h3 ++ len_bytes L) N = h3 ++ len_bytes N).
    { intros L N. unfold put_len. rewrite firstn_app_exact by (symmetry; exact Hh3). reflexivity. }
    destruct (hc_cipher w) as [|k f|k iv] eqn:Ew; destruct (hc_cipher r) as [|k' f'|k' iv'] eqn:Er; try contradiction.
    - (* AEAD *)
      destruct Hk as [<- [<- Hnone]]. cbn [explicit_len] in He.
      rewrite (app_assoc h3). rewrite He.
      pose proof (encrypt_aead_shape w k f s h3 eiv frag Ew Hnone Hs Hlt Hh3 He) as Henc. cbv zeta in Henc.
      pose proof (decrypt_aead_record r k f s h3 eiv frag (8 + (length frag + p_overhead P)) Er
                    ltac:(congruence) ltac:(congruence) Hlt Hh3 He) as Hdec. cbv zeta in Hdec.
      eexists _, _, _. split; [exact Henc|]. split; [exact Hdec|].
      cbn [hc_seq hc_version hc_err hc_cipher hc_mac]. repeat split; auto.
      exists (eiv ++ p_seal P k (f ++ eiv) (be64 s ++ h3 ++ len_bytes (length frag)) frag).
      rewrite Hput, <- app_assoc, app_length, Hseal_len, He. split; [reflexivity|lia].
    - (* CBC *)
      destruct Hk as [<- Hsome]. cbn [explicit_len] in He.
      destruct (hc_mac w) as [mk|] eqn:Em; [|congruence].
      rewrite (app_assoc h3). rewrite He.
      destruct (encrypt_cbc_shape w k iv mk s (h3 ++ len_bytes (length frag)) eiv frag Ew Em Hs Hlt
                  ltac:(rewrite app_length, len_bytes_length; lia) He) as [bl [iv3 [Hp [F Henc]]]].
      pose proof (decrypt_cbc_record r k iv' mk s h3 eiv frag bl (bs + length (cbc_padded (cbc_body mk s (h3 ++ len_bytes (length frag)) frag)))
                    Er ltac:(congruence) ltac:(congruence) Hlt Hv Hh3 He Hebytes Hokf Hsz Hp F) as Hdec.
      eexists _, _, _. split; [exact Henc|]. split; [exact Hdec|].
      cbn [hc_seq hc_version hc_err hc_cipher hc_mac]. repeat split; auto; try discriminate.
      exists (eiv ++ concat (enc_blocks k eiv bl)).
      assert (HlenC : length (concat (enc_blocks k eiv bl)) =
                      length (cbc_padded (cbc_body mk s (h3 ++ len_bytes (length frag)) frag))).
      { rewrite (concat_blocks_length bs _ (enc_blocks_sizes k bl eiv He F)), enc_blocks_length, Hp.
        rewrite (concat_blocks_length bs _ F). reflexivity. }
      rewrite Hput, <- app_assoc, app_length, HlenC, He. split; [reflexivity|].
      unfold cbc_padded, cbc_body. rewrite !app_length, repeat_length, Hmac_len.
      pose proof (cbc_padlen_range (frag ++ p_mac P mk (be64 s ++ (h3 ++ len_bytes (length frag)) ++ frag))).
      fold bs. lia.
  Qed.
End Roundtrip.

Tactic Notation "pose_ok" constr(lem) constr(P) constr(H) "as" ident(n) := pose proof (lem P H) as n.

Lemma len_bytes_u16 n : len_bytes n = u16 n.
Proof. reflexivity. Qed.

Lemma decrypt_encrypt_record_ok P (H : prims_ok P) w r s h3 eiv frag :
  same_keys w r -> hc_seq w = be64 s -> (s < 2 ^ 64 - 1)%N -> hc_version r = VersionGMSSL ->
  length h3 = 3 -> length eiv = explicit_len P (hc_cipher w) -> bytes_ok eiv -> bytes_ok frag ->
  (N.of_nat (length frag) + N.of_nat (p_macSize P) < 2 ^ 30)%N ->
  exists w' rec_ r',
    encrypt P w (h3 ++ len_bytes (length frag) ++ eiv ++ frag) (length eiv) = Ok (w', rec_) /\
    decrypt P r rec_ = Ok (r', Some frag) /\
    hc_seq w' = be64 (s + 1) /\ hc_seq r' = be64 (s + 1) /\ same_keys w' r' /\
    hc_version r' = hc_version r /\ hc_err r' = hc_err r /\ hc_version w' = hc_version w /\ hc_err w' = hc_err w /\
    exists body, rec_ = h3 ++ len_bytes (length body) ++ body /\
                 length body <= length eiv + length frag + p_macSize P + p_bs P + p_overhead P.
Proof.
  pose_ok decrypt_encrypt_record_lemma P H as L. apply L.
Qed.

(* additional data of the AEAD suites: seq_num + type + version + length, nonce = salt + explicit part *)
Lemma aad_layout_lemma P (H : prims_ok P) hc key fixed s typ ver eiv frag :
  hc_cipher hc = CipherAEAD key fixed -> hc_mac hc = None -> hc_seq hc = be64 s -> (s < 2 ^ 64 - 1)%N ->
  length eiv = 8 ->
  exists hc' hdr',
    encrypt P hc ([typ] ++ ver_bytes ver ++ u16 (length frag) ++ eiv ++ frag) 8 =
      Ok (hc', hdr' ++ eiv ++ p_seal P key (gcm_nonce fixed eiv) (aad s typ ver (length frag)) frag)
    /\ length hdr' = 5.
Proof.
  intros Hc Hm Hs Hlt He.
  pose_ok encrypt_aead_shape P H as L.
  pose proof (L hc key fixed s ([typ] ++ ver_bytes ver) eiv frag Hc Hm Hs Hlt
                ltac:(reflexivity) He) as E. cbv zeta in E.
  rewrite <- !app_assoc in E. change (u16 (length frag)) with (len_bytes (length frag)).
  eexists _, _. split; [exact E|]. apply put_len_length. reflexivity.
Qed.

(* MAC input of the CBC suites: seq_num + type + version + length + fragment; the protected record is
   header, explicit IV, CBC encryption (chained from the explicit IV) of fragment, MAC, padding *)
Lemma mac_input_layout_lemma P (H : prims_ok P) hc key iv0 mk s typ ver eiv frag :
  hc_cipher hc = CipherCBC key iv0 -> hc_mac hc = Some mk -> hc_seq hc = be64 s -> (s < 2 ^ 64 - 1)%N ->
  length eiv = p_bs P ->
  let body := frag ++ p_mac P mk (mac_input s typ ver frag) in
  let padded := body ++ tls_padding (p_bs P) (length body) in
  exists hc' hdr' bl,
    padded = concat bl /\ Forall (fun b => length b = p_bs P) bl /\
    encrypt P hc ([typ] ++ ver_bytes ver ++ u16 (length frag) ++ eiv ++ frag) (p_bs P) =
      Ok (hc', hdr' ++ eiv ++ concat (enc_blocks P key eiv bl))
    /\ length hdr' = 5.
Proof.
  intros Hc Hm Hs Hlt He body padded. pose proof (ok_bs P H) as ok_bs0.
  pose_ok encrypt_cbc_shape P H as L.
  destruct (L hc key iv0 mk s ([typ] ++ ver_bytes ver ++ len_bytes (length frag)) eiv frag
              Hc Hm Hs Hlt ltac:(reflexivity) He) as [bl [iv3 [Hp [F E]]]].
  rewrite <- !app_assoc in E.
  assert (Hpad : padded = cbc_padded P (cbc_body P mk s ([typ] ++ ver_bytes ver ++ len_bytes (length frag)) frag)).
  { unfold padded, body, cbc_padded, cbc_body, tls_padding, min_pad_len, cbc_padlen, mac_input.
    rewrite <- !app_assoc. change (len_bytes (length frag)) with (u16 (length frag)).
    set (b := frag ++ p_mac P mk (be64 s ++ [typ] ++ ver_bytes ver ++ u16 (length frag) ++ frag)).
    f_equal. f_equal. rewrite N.mod_small; [reflexivity|].
    pose proof (Nat.mod_upper_bound (length b) (p_bs P) ltac:(lia)). lia. }
  eexists _, _, bl. split; [rewrite Hpad; exact Hp|]. split; [exact F|].
  split; [change (u16 (length frag)) with (len_bytes (length frag)); exact E|]. apply put_len_length. reflexivity.
Qed.

(* ---------- a concrete instance of the premises (non-vacuity) -------------------------------------------------- *)
(* a position-sensitive checksum standing in for a MAC / an AEAD tag *)
Definition toy_tag (n : nat) (x : list N) : list N :=
  map (fun i => (fold_left (fun acc v => (acc * 33 + v + N.of_nat i) mod 65521) x (N.of_nat i + 1) mod 256)%N)
      (seq 0 n).

Definition toy_prims : prims :=
  mkPrims 16
    (fun k b => xor_bytes b (firstn 16 (map (fun x => (x mod 256)%N) k ++ repeat 90%N 16)))
    (fun k b => xor_bytes b (firstn 16 (map (fun x => (x mod 256)%N) k ++ repeat 90%N 16)))
    32 (fun k m => toy_tag 32 (k ++ m))
    16 (fun k n ad p => p ++ toy_tag 16 (k ++ n ++ ad ++ p))
    (fun k n ad c =>
       if length c <? 16 then None
       else let p := firstn (length c - 16) c in
            if bytes_eqb (skipn (length c - 16) c) (toy_tag 16 (k ++ n ++ ad ++ p)) then Some p else None).

Lemma In_firstn' {A} n (l : list A) x : In x (firstn n l) -> In x l.
Proof. intros H. rewrite <- (firstn_skipn n l). apply in_or_app. left. exact H. Qed.

Lemma toy_tag_length n x : length (toy_tag n x) = n.
Proof. unfold toy_tag. rewrite map_length, seq_length. reflexivity. Qed.

Lemma toy_prims_ok : prims_ok toy_prims.
Proof.
  constructor; cbn [toy_prims p_bs p_enc p_dec p_macSize p_mac p_overhead p_seal p_open].
  - lia.
  - intros k b Hb. rewrite xor_bytes_length, firstn_length, app_length, repeat_length. lia.
  - intros k b Hb Hbb. apply xor_bytes_ok; [exact Hbb|].
    unfold bytes_ok. apply Forall_forall. intros x Hx. apply In_firstn' in Hx.
    apply in_app_or in Hx. destruct Hx as [Hy|Hy].
    + apply in_map_iff in Hy. destruct Hy as [z [<- _]]. apply N.mod_lt. discriminate.
    + apply repeat_spec in Hy. subst. reflexivity.
  - intros k b Hb _. apply xor_bytes_involutive. rewrite firstn_length, app_length, repeat_length. lia.
  - intros k m. apply toy_tag_length.
  - intros k m. unfold bytes_ok, toy_tag. apply Forall_forall. intros x Hx.
    apply in_map_iff in Hx. destruct Hx as [y [<- _]]. apply N.mod_lt. discriminate.
  - intros k n ad p. rewrite app_length, toy_tag_length.
    destruct (Nat.ltb_spec (length p + 16) 16); [lia|].
    replace (length p + 16 - 16) with (length p) by lia. cbv zeta.
    rewrite firstn_app_exact, skipn_app_exact by reflexivity. rewrite bytes_eqb_refl. reflexivity.
  - intros k n ad p. rewrite app_length, toy_tag_length. reflexivity.
Qed.
