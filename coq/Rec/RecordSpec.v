(* The record layer as the standards state it (RFC 5246 6.2.3 as profiled by GM/T 0024-2014 6.3.3
   for the block-cipher suites with explicit IV, RFC 5288 / RFC 5116 for the GCM suites), and the
   vocabulary of property C07.  Never looks at the Go code. *)
From Coq Require Import List NArith Arith Bool.
Import ListNotations.
Local Open Scope N_scope.

Notation byte := N (only parsing).

Definition bytes_ok (l : list byte) : Prop := Forall (fun b => b < 256) l.

(* ---------- integers on the wire ----------------------------------------------------------------- *)
(* the k-byte big-endian representation of (the low 8k bits of) n *)
Fixpoint be (k : nat) (n : N) : list byte :=
  match k with
  | O => []
  | S k' => be k' (n / 256) ++ [n mod 256]
  end.

Definition be64 (s : N) : list byte := be 8 s.          (* uint64 seq_num *)
Definition u16 (n : nat) : list byte := be 2 (N.of_nat n). (* uint16 length *)

Definition VersionGMSSL : N := 0x0101.                    (* GM/T 0024: ProtocolVersion {1,1} *)
Definition ver_bytes (v : N) : list byte := be 2 v.

(* ---------- 6.2.3.1 / 6.2.3.3: what is authenticated --------------------------------------------- *)
(* MAC(MAC_write_key, seq_num + TLSCompressed.type + version + length + fragment) *)
Definition mac_input (seq : N) (typ : byte) (ver : N) (frag : list byte) : list byte :=
  be64 seq ++ [typ] ++ ver_bytes ver ++ u16 (length frag) ++ frag.

(* additional_data = seq_num + TLSCompressed.type + TLSCompressed.version + TLSCompressed.length *)
Definition aad (seq : N) (typ : byte) (ver : N) (len : nat) : list byte :=
  be64 seq ++ [typ] ++ ver_bytes ver ++ u16 len.

(* RFC 5288 section 3: nonce = salt (4 bytes, implicit, from the key block) + nonce_explicit (8 bytes) *)
Definition gcm_nonce (salt : list byte) (explicit : list byte) : list byte := salt ++ explicit.

(* ---------- 6.2.3.2: block-cipher padding ---------------------------------------------------------
   "padding_length bytes of padding, each filled with the padding length value, then the
   padding_length byte itself": the last l+1 bytes of the plaintext all equal l, l the last byte. *)
Definition tls_pad_ok (payload : list byte) : bool :=
  match rev payload with
  | [] => false
  | l :: _ =>
    (N.to_nat l <? length payload)%nat && forallb (N.eqb l) (firstn (N.to_nat l + 1) (rev payload))
  end.

(* the same, by positions: l is the last byte, l < |payload|, and the l+1 last bytes equal l *)
Definition pad_valid (payload : list byte) : Prop :=
  let l := last payload 0 in
  (N.to_nat l < length payload)%nat /\
  forall j, (j <= N.to_nat l)%nat -> nth (length payload - 1 - j) payload 0 = l.

(* the padding a sender adds to n bytes for block size bs when it pads minimally *)
Definition min_pad_len (bs n : nat) : nat := bs - n mod bs.          (* 1..bs bytes in total *)
Definition tls_padding (bs n : nat) : list byte :=
  repeat (N.of_nat (min_pad_len bs n - 1)) (min_pad_len bs n).

(* least multiple of b that is >= a *)
Definition is_round_up (a b r : nat) : Prop :=
  (a <= r /\ r mod b = 0 /\ forall r', a <= r' -> r' mod b = 0 -> r <= r')%nat.

(* ---------- vocabulary of the property -------------------------------------------------------------- *)
Definition is_prefix {A} (a b : list A) : Prop := exists c, b = a ++ c.

Definition maxFragment : nat := 16 * 1024.                 (* 2^14, 6.2.1 *)

(* a byte string cut into fragments of 1..2^14 bytes *)
Definition fragments_of (frs : list (list byte)) (data : list byte) : Prop :=
  concat frs = data /\ Forall (fun f => (1 <= length f <= maxFragment)%nat) frs.

(* content types (6.2.1) *)
Definition ct_change_cipher_spec : byte := 20.
Definition ct_alert : byte := 21.
Definition ct_handshake : byte := 22.
Definition ct_application_data : byte := 23.

(* tests of the transcription *)
Example be64_example : be64 0x0102030405060708 = [1; 2; 3; 4; 5; 6; 7; 8].
Proof. vm_compute. reflexivity. Qed.
Example aad_example : aad 1 23 VersionGMSSL 300 = [0; 0; 0; 0; 0; 0; 0; 1; 23; 1; 1; 1; 44].
Proof. vm_compute. reflexivity. Qed.
Example tls_pad_ok_examples :
  tls_pad_ok [9; 9; 2; 2; 2] = true /\ tls_pad_ok [9; 0] = true /\ tls_pad_ok [2; 2] = false
  /\ tls_pad_ok [9; 1; 2; 2] = false /\ tls_pad_ok [] = false.
Proof. vm_compute. repeat split; reflexivity. Qed.
