(* Proofs about the record-layer model, part 6: the sender makes progress.  Given enough bytes of
   config.rand() (one block per record for the CBC suite), a sequence number that stays below 2^64-1 and
   fuel for the loop, writeRecordLocked / Conn.Write / a sequence of Writes succeed: no error, no panic, all
   bytes accepted.  Together with part 4: whatever the application writes arrives, in order. *)
From Coq Require Import List NArith Arith Bool Lia ZifyN ZifyNat ZifyBool.
From GmsmVerif Require Import Lib.Outcome Rec.RecordSpec Rec.RecordModel Rec.RecordProofs Rec.RecordRoundtrip
  Rec.RecordIntegrity Rec.RecordFragment.
Import ListNotations.

Section Progress.
  Variable P : prims.
  Hypothesis Hok : prims_ok P.
  Hypothesis Hexp : p_bs P + p_macSize P + p_bs P + p_overhead P + 8 <= 2048.
  (* dynamic record sizing always leaves room for at least one byte of payload *)
  Hypothesis Hmp : forall c typ e, e <= 8 + p_bs P -> 1 <= fst (maxPayloadSizeForWrite P c typ e).

  Lemma encrypt_progress hc s typ eiv fr :
    protected hc -> hc_seq hc = be64 s -> (s < 2 ^ 64 - 1)%N -> length eiv = explicit_len P (hc_cipher hc) ->
    exists hc' rec_,
      encrypt P hc ([typ; 1; 1]%N ++ len_bytes (length fr) ++ eiv ++ fr) (length eiv) = Ok (hc', rec_).
  Proof.
    intros Hp Hs Hlt He.
    destruct (protected_cases hc Hp) as [[key [fixed [Ec [Em _]]]]|[key [iv [mk [Ec [Em _]]]]]];
      rewrite Ec in He; cbn [explicit_len] in He; rewrite He.
    - pose proof (encrypt_aead_shape P Hok hc key fixed s [typ; 1; 1]%N eiv fr Ec Em Hs Hlt eq_refl He) as E.
      cbv zeta in E. rewrite <- app_assoc in E. eexists _, _. exact E.
    - destruct (encrypt_cbc_shape P Hok hc key iv mk s ([typ; 1; 1]%N ++ len_bytes (length fr)) eiv fr Ec Em Hs Hlt
                  eq_refl He) as [bl [iv3 [_ [_ E]]]].
      rewrite <- app_assoc in E. eexists _, _. exact E.
  Qed.

  Lemma protected_kind hc hc' : protected hc -> kind (hc_cipher hc') = kind (hc_cipher hc) -> hc_mac hc' = hc_mac hc ->
    protected hc'.
  Proof. unfold protected. intros H -> ->. exact H. Qed.

  (* ---------- one pass of the loop ---------------------------------------------------------------------------- *)
  Lemma writeRecord_step_progress typ c data s :
    sender_ok c -> protected (o_hc c) -> hc_seq (o_hc c) = be64 s -> (s < 2 ^ 64 - 1)%N ->
    p_bs P <= length (o_rand c) ->
    exists c1 rec_ m, writeRecord_step P c typ data = Ok (Some (c1, rec_, m)) /\ (data <> [] -> 1 <= m) /\
      ((typ =? recordTypeApplicationData)%N = false ->
       m = if maxPlaintext <? length data then maxPlaintext else length data).
  Proof.
    intros [Hv [Hhv [_ [Hkind Hrand]]]] Hp Hs Hlt Hr. unfold writeRecord_step.
    assert (Hna : forall e, (typ =? recordTypeApplicationData)%N = false ->
              fst (maxPayloadSizeForWrite P c typ e) = maxPlaintext).
    { intros e Ht. unfold maxPayloadSizeForWrite. rewrite Ht. cbn [negb]. rewrite orb_true_r. reflexivity. }
    rewrite Hhv, Hv.
    change (explicit_iv_version VersionGMSSL) with true.
    change ((VersionGMSSL =? 0)%N) with false.
    change ((VersionGMSSL / 256) mod 256)%N with 1%N. change (VersionGMSSL mod 256)%N with 1%N.
    set (hc := o_hc c) in *.
    destruct (ok_bs P Hok) as [Hbs1 Hbs2].
    assert (Hm : forall maxPayload, 1 <= maxPayload ->
              let m0 := if maxPayload <? length data then maxPayload else length data in
              m0 <= length data /\ (data <> [] -> 1 <= m0)).
    { intros mp Hmp1. cbv zeta. destruct (Nat.ltb_spec mp (length data)); split; try lia.
      intros Hne. destruct data; [congruence|cbn; lia]. }
    destruct (protected_cases hc Hp) as [[key [fixed [Ec [Em _]]]]|[key [iv [mk [Ec [Em _]]]]]]; rewrite Ec.
    - cbv beta iota zeta. change (0 <? 0) with false. cbv beta iota zeta.
      change ((VersionGMSSL / 256) mod 256)%N with 1%N. change (VersionGMSSL mod 256)%N with 1%N.
      pose proof (Hmp c typ 8 ltac:(lia)) as Hmp8. pose proof (Hna 8) as Hna8.
      destruct (maxPayloadSizeForWrite P c typ 8) as [maxPayload pkts]. cbn [fst] in Hmp8, Hna8.
      destruct (Hm maxPayload Hmp8) as [Hm1 Hm2].
      set (m0 := if maxPayload <? length data then maxPayload else length data) in *.
      assert (Hfl : length (firstn m0 data) = m0) by (rewrite firstn_length; lia).
      assert (He8 : length (firstn 8 (hc_seq hc)) = 8).
      { rewrite Hs, firstn_length. unfold be64. rewrite be_length. reflexivity. }
      destruct (encrypt_progress hc s typ (firstn 8 (hc_seq hc)) (firstn m0 data) Hp Hs Hlt
                  ltac:(rewrite Ec; exact He8)) as [hc' [rec_ E]].
      rewrite Hfl, He8 in E. cbn [app] in E |- *. rewrite E. cbn [obind].
      eexists _, _, _. split; [reflexivity|]. split; [exact Hm2|]. intros Ht. unfold m0. rewrite (Hna8 Ht). reflexivity.
    - cbv beta iota zeta. assert (Hpos : 0 <? p_bs P = true) by (apply Nat.ltb_lt; lia). rewrite Hpos. cbv beta iota zeta.
      change ((VersionGMSSL / 256) mod 256)%N with 1%N. change (VersionGMSSL mod 256)%N with 1%N.
      pose proof (Hmp c typ (p_bs P) ltac:(lia)) as Hmpb. pose proof (Hna (p_bs P)) as Hna8.
      destruct (maxPayloadSizeForWrite P c typ (p_bs P)) as [maxPayload pkts]. cbn [fst] in Hmpb, Hna8.
      destruct (Hm maxPayload Hmpb) as [Hm1 Hm2].
      set (m0 := if maxPayload <? length data then maxPayload else length data) in *.
      assert (Hfl : length (firstn m0 data) = m0) by (rewrite firstn_length; lia).
      assert (Er : length (o_rand c) <? p_bs P = false) by (apply Nat.ltb_ge; exact Hr). rewrite Er.
      assert (Heb : length (firstn (p_bs P) (o_rand c)) = p_bs P) by (rewrite firstn_length; lia).
      destruct (encrypt_progress hc s typ (firstn (p_bs P) (o_rand c)) (firstn m0 data) Hp Hs Hlt
                  ltac:(rewrite Ec; exact Heb)) as [hc' [rec_ E]].
      rewrite Hfl, Heb in E. cbn [app] in E |- *. rewrite E. cbn [obind].
      eexists _, _, _. split; [reflexivity|]. split; [exact Hm2|]. intros Ht. unfold m0. rewrite (Hna8 Ht). reflexivity.
  Qed.

  Lemma writeRecord_step_rand typ c data c1 rec_ m :
    writeRecord_step P c typ data = Ok (Some (c1, rec_, m)) ->
    length (o_rand c) <= length (o_rand c1) + p_bs P.
  Proof.
    unfold writeRecord_step. intros H. break_hyps; cbn [out_with o_rand]; rewrite ?skipn_length; lia.
  Qed.

  (* the half connection after one record *)
  Lemma step_state typ c data c1 rec_ m s :
    sender_ok c -> protected (o_hc c) -> hc_seq (o_hc c) = be64 s -> (s < 2 ^ 64 - 1)%N ->
    writeRecord_step P c typ data = Ok (Some (c1, rec_, m)) ->
    sender_ok c1 /\ protected (o_hc c1) /\ hc_seq (o_hc c1) = be64 (s + 1) /\ m <= length data /\
    o_closeNotifySent c1 = o_closeNotifySent c /\ hc_err (o_hc c1) = hc_err (o_hc c).
  Proof.
    intros Hs Hp Hseq Hlt H.
    destruct (writeRecord_step_chain P Hok Hexp typ c data c1 rec_ m Hs H) as [Hs1 [Hm [Hch [Hcn He]]]].
    inversion Hch as [|? hc1 ? eiv fr ? ? ? Hel Heb Hnon Hfr Henc Hnil]; subst.
    inversion Hnil; subst.
    destruct (encrypt_fields P _ _ _ _ _ Henc) as [_ [_ [Hmac [Hk Hl]]]].
    split; [exact Hs1|]. split; [eapply protected_kind; eassumption|].
    split; [|auto].
    rewrite Hseq, incSeq_loop_be64 in Hl by lia.
    destruct (N.eqb_spec s (2 ^ 64 - 1)); [lia|]. congruence.
  Qed.

  (* ---------- writeRecordLocked ---------------------------------------------------------------------------------- *)
  Lemma writeRecordLocked_progress typ fuel : forall c data s,
    sender_ok c -> protected (o_hc c) -> hc_seq (o_hc c) = be64 s ->
    (s + N.of_nat (length data) < 2 ^ 64)%N ->
    p_bs P * length data <= length (o_rand c) -> length data <= fuel ->
    exists c' recs,
      writeRecordLocked P fuel c typ data = Ok (c', recs, length data, false) /\
      length recs <= length data /\ sender_ok c' /\ protected (o_hc c') /\
      hc_seq (o_hc c') = be64 (s + N.of_nat (length recs)) /\
      length (o_rand c) <= length (o_rand c') + p_bs P * length recs /\
      hc_err (o_hc c') = hc_err (o_hc c) /\ o_closeNotifySent c' = o_closeNotifySent c.
  Proof.
    induction fuel as [|fuel IH]; intros c data s Hs Hp Hseq Hb Hr Hf.
    - destruct data; [|cbn in Hf; lia]. exists c, []. cbn [writeRecordLocked length].
      rewrite N.add_0_r. split; [reflexivity|]; split; [lia|]; split; [exact Hs|]; split; [exact Hp|]; split; [exact Hseq|]; split; [lia|]; split; reflexivity.
    - destruct data as [|x data0] eqn:Ed.
      { exists c, []. cbn [writeRecordLocked length]. rewrite N.add_0_r. split; [reflexivity|]; split; [lia|]; split; [exact Hs|]; split; [exact Hp|]; split; [exact Hseq|]; split; [lia|]; split; reflexivity. }
      rewrite <- Ed in *. assert (Hne : data <> []) by (rewrite Ed; discriminate).
      assert (Hlen : 1 <= length data) by (rewrite Ed; cbn; lia).
      destruct (writeRecord_step_progress typ c data s Hs Hp Hseq ltac:(lia) ltac:(nia)) as [c1 [rec_ [m [Hstep [Hm1 _]]]]].
      specialize (Hm1 Hne).
      destruct (step_state _ _ _ _ _ _ _ Hs Hp Hseq ltac:(lia) Hstep) as [Hs1 [Hp1 [Hseq1 [Hm [Hcn1 He1]]]]].
      pose proof (writeRecord_step_rand _ _ _ _ _ _ Hstep) as Hr1.
      destruct (IH c1 (skipn m data) (s + 1)%N Hs1 Hp1 Hseq1
                  ltac:(rewrite skipn_length; lia) ltac:(rewrite skipn_length; nia)
                  ltac:(rewrite skipn_length; lia))
        as [c' [recs [Hw [Hn [Hs' [Hp' [Hseq' [Hr' [He' Hcn']]]]]]]]].
      exists c', (rec_ :: recs).
      rewrite Ed. cbn [writeRecordLocked]. rewrite <- Ed. rewrite Hstep. cbn [obind]. rewrite Hw. cbn [obind].
      rewrite skipn_length in *.
      split; [do 3 f_equal; lia|].
      cbn [length]. split; [lia|]. split; [exact Hs'|]. split; [exact Hp'|].
      split; [rewrite Hseq'; f_equal; lia|]. split; [nia|]. split; congruence.
  Qed.

  (* ---------- Conn.Write ------------------------------------------------------------------------------------------ *)
  Lemma conn_Write_progress fuel c b s :
    sender_ok c -> protected (o_hc c) -> hc_seq (o_hc c) = be64 s ->
    hc_err (o_hc c) = false -> o_closeNotifySent c = false ->
    (s + N.of_nat (length b) < 2 ^ 64)%N -> p_bs P * length b <= length (o_rand c) -> length b <= fuel ->
    exists c' recs,
      conn_Write P fuel c b = Ok (c', recs, length b, false) /\
      length recs <= length b /\ sender_ok c' /\ protected (o_hc c') /\
      hc_seq (o_hc c') = be64 (s + N.of_nat (length recs)) /\
      length (o_rand c) <= length (o_rand c') + p_bs P * length recs /\
      hc_err (o_hc c') = false /\ o_closeNotifySent c' = false.
  Proof.
    intros Hs Hp Hseq He Hcn Hb Hr Hf. unfold conn_Write. rewrite He, Hcn.
    destruct ((1 <? length b) && (o_vers c <=? VersionTLS10)%N && is_block_mode (hc_cipher (o_hc c))) eqn:Esplit.
    - assert (H1 : 1 < length b).
      { apply andb_true_iff in Esplit. destruct Esplit as [E _]. apply andb_true_iff in E. destruct E as [E _].
        apply Nat.ltb_lt. exact E. }
      assert (Hl1 : length (firstn 1 b) = 1) by (rewrite firstn_length; lia).
      destruct (writeRecordLocked_progress recordTypeApplicationData fuel c (firstn 1 b) s Hs Hp Hseq
                  ltac:(rewrite Hl1; lia) ltac:(rewrite Hl1; nia) ltac:(rewrite Hl1; lia))
        as [c1 [recs1 [Hw1 [Hn1 [Hs1 [Hp1 [Hseq1 [Hr1 [He1 Hcn1]]]]]]]]].
      rewrite Hl1 in *.
      destruct (writeRecordLocked_progress recordTypeApplicationData fuel c1 (skipn 1 b) _ Hs1 Hp1 Hseq1
                  ltac:(rewrite skipn_length; lia) ltac:(rewrite skipn_length; nia) ltac:(rewrite skipn_length; lia))
        as [c2 [recs2 [Hw2 [Hn2 [Hs2 [Hp2 [Hseq2 [Hr2 [He2 Hcn2]]]]]]]]].
      rewrite skipn_length in *.
      rewrite Hw1. cbn [obind]. rewrite Hw2. cbn [obind out_set_err].
      exists c2, (recs1 ++ recs2). rewrite app_length.
      split; [do 3 f_equal; lia|]. split; [lia|]. split; [exact Hs2|]. split; [exact Hp2|].
      split; [rewrite Hseq2; f_equal; lia|]. split; [nia|]. split; congruence.
    - destruct (writeRecordLocked_progress recordTypeApplicationData fuel c b s Hs Hp Hseq Hb Hr Hf)
        as [c2 [recs2 [Hw2 [Hn2 [Hs2 [Hp2 [Hseq2 [Hr2 [He2 Hcn2]]]]]]]]].
      rewrite Hw2. cbn [obind out_set_err].
      exists c2, recs2. split; [reflexivity|]. split; [exact Hn2|]. split; [exact Hs2|]. split; [exact Hp2|].
      split; [exact Hseq2|]. split; [exact Hr2|]. split; congruence.
  Qed.

  Definition total_len (writes : list (list N)) : nat := length (concat writes).
  Definition max_len (writes : list (list N)) : nat := fold_right (fun w m => Nat.max (length w) m) 0 writes.

  (* ---------- a sequence of Writes --------------------------------------------------------------------------------- *)
  Lemma write_calls_progress fuel : forall writes c s,
    sender_ok c -> protected (o_hc c) -> hc_seq (o_hc c) = be64 s ->
    hc_err (o_hc c) = false -> o_closeNotifySent c = false ->
    (s + N.of_nat (total_len writes) < 2 ^ 64)%N -> p_bs P * total_len writes <= length (o_rand c) ->
    max_len writes <= fuel ->
    exists c' recs, write_calls P fuel c writes = Ok (c', recs, false) /\ length recs <= total_len writes.
  Proof.
    induction writes as [|b rest IH]; intros c s Hs Hp Hseq He Hcn Hb Hr Hf.
    - exists c, []. cbn. split; [reflexivity|lia].
    - change (max_len (b :: rest)) with (Nat.max (length b) (max_len rest)) in Hf.
      unfold total_len in *. cbn [concat] in *. rewrite app_length in *.
      destruct (conn_Write_progress fuel c b s Hs Hp Hseq He Hcn ltac:(lia) ltac:(nia) ltac:(lia))
        as [c1 [recs1 [Hw1 [Hn1 [Hs1 [Hp1 [Hseq1 [Hr1 [He1 Hcn1]]]]]]]]].
      destruct (IH c1 (s + N.of_nat (length recs1))%N Hs1 Hp1 Hseq1 He1 Hcn1 ltac:(lia) ltac:(nia) ltac:(lia))
        as [c2 [recs2 [Hw2 Hn2]]].
      exists c2, (recs1 ++ recs2). cbn [write_calls]. rewrite Hw1. cbn [obind]. rewrite Hw2. cbn [obind].
      split; [reflexivity|]. rewrite app_length. lia.
  Qed.

  (* ---------- progress + reassembly: whatever the application writes arrives ------------------------------------ *)
  Theorem fragmentation_total fuelW cw writes s0 hcR rounds fuel :
    sender_ok cw -> protected (o_hc cw) -> hc_seq (o_hc cw) = be64 s0 ->
    hc_err (o_hc cw) = false -> o_closeNotifySent cw = false ->
    (s0 + N.of_nat (total_len writes) < 2 ^ 64)%N -> p_bs P * total_len writes <= length (o_rand cw) ->
    max_len writes <= fuelW -> bytes_ok (concat writes) ->
    same_keys (o_hc cw) hcR -> hc_version hcR = VersionGMSSL -> hc_err hcR = false ->
    total_len writes < rounds ->
    exists cw' recs c' frs,
      write_calls P fuelW cw writes = Ok (cw', recs, false) /\
      recv_all P rounds (S fuel) (receiver0 hcR VersionGMSSL (concat recs)) = Ok (concat writes, c') /\
      hc_err (i_hc c') = true /\
      concat frs = concat writes /\ Forall (fun f => length f <= maxPlaintext) frs /\ length frs = length recs.
  Proof.
    intros Hs Hp Hseq He Hcn Hb Hr Hf Hbytes Hk Hv HeR Hrounds.
    destruct (write_calls_progress fuelW writes cw s0 Hs Hp Hseq He Hcn Hb Hr Hf) as [cw' [recs [Hw Hn]]].
    destruct (fragmentation_in_order_lemma P Hok Hexp fuelW cw writes cw' recs s0 hcR rounds fuel Hs Hseq
                ltac:(lia) Hw Hbytes Hk Hv HeR ltac:(lia)) as [c' [frs H]].
    exists cw', recs, c', frs. split; [exact Hw|exact H].
  Qed.
End Progress.
