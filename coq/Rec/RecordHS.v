(* Proofs about the record-layer model, part 8: readRecord during the handshake.  The pending cipher spec
   (what prepareCipherSpec stored) is activated only by a ChangeCipherSpec record that was asked for
   (want = ChangeCipherSpec), has the one-byte body 1, and arrives while NO handshake bytes are waiting in
   c.hand; the activation installs exactly the pending cipher and MAC and resets the sequence number to
   zero.  Every other successful call leaves the pending spec alone. *)
From Coq Require Import List NArith Arith Bool Lia.
From GmsmVerif Require Import Lib.Outcome Rec.RecordSpec Rec.RecordModel Rec.RecordProofs Rec.RecordRoundtrip
  Rec.RecordIntegrity Rec.RecordFragment.
Import ListNotations.

Section HS.
  Variable P : prims.

  Theorem ccs_activation fuel : forall want s s',
    readRecord_hs P fuel want s = Ok s' -> hc_err (i_hc (s_in s')) = false ->
    s_next s' = s_next s \/
    (want = recordTypeChangeCipherSpec /\ s_hand s = [] /\ s_hand s' = [] /\ s_next s' = None /\
     exists cs mac, s_next s = Some (cs, mac) /\
       hc_cipher (i_hc (s_in s')) = cs /\ hc_mac (i_hc (s_in s')) = mac /\ hc_seq (i_hc (s_in s')) = repeat 0%N 8).
  Proof.
    induction fuel as [|fuel IH]; intros want s s' H He; cbn [readRecord_hs] in H; [discriminate|].
    break_hyps; cbn [hs_fail s_in in_fail i_hc setErrorLocked hc_err s_next] in He |- *; try discriminate; auto.
    all: try (apply IH in H; [|exact He]; cbn [s_next s_hand] in H; exact H).
    all: right;
      match goal with Hc : changeCipherSpec _ _ = Some _ |- _ => unfold changeCipherSpec in Hc end;
      destruct (s_next s) as [[cs mac]|] eqn:En; [|discriminate];
      match goal with Hc : Some _ = Some _ |- _ => injection Hc as <- end;
      cbn [s_hand hc_cipher hc_mac hc_seq];
      split; [match goal with
              | Hx : negb (?t =? ?w)%N || _ || _ = false, Ht : (?t =? recordTypeChangeCipherSpec)%N = true |- _ =>
                apply orb_false_iff in Hx; destruct Hx as [Hx _]; apply orb_false_iff in Hx; destruct Hx as [Hx _];
                apply negb_false_iff in Hx; apply N.eqb_eq in Hx; apply N.eqb_eq in Ht; congruence
              end|]; split; [reflexivity|]; split; [reflexivity|];
      split; [reflexivity|]; exists cs, mac; auto.
  Qed.

  (* in particular: handshake bytes waiting in c.hand make every ChangeCipherSpec fail *)
  Corollary ccs_rejected_with_pending_handshake fuel s s' :
    readRecord_hs P fuel recordTypeChangeCipherSpec s = Ok s' -> s_hand s <> [] ->
    hc_err (i_hc (s_in s')) = false -> s_next s' = s_next s.
  Proof.
    intros H Hh He. destruct (ccs_activation _ _ _ _ H He) as [E|[_ [E _]]]; [exact E|contradiction].
  Qed.
End HS.
