(* Pocklington's criterion over Z (Znumtheory.prime), with a boolean certificate checker.

   Theorem [pocklington]: N > 1, F = q1 * ... * qk a product of pairwise coprime primes with F | N - 1 and N < F * F,
   and for every qi a witness ai with  ai^(N-1) = 1 (mod N)  and  gcd(ai^((N-1)/qi) - 1, N) = 1.  Then N is prime.
   (Every prime divisor r of N is 1 modulo every qi, hence modulo F, hence r > F >= sqrt N.)

   The proof avoids the notion of multiplicative order: from a^(N-1) = 1 and a^(r-1) = 1 (Fermat, Ser/Fermat.v)
   modulo r one gets a^gcd(N-1, r-1) = 1 by Euclid's algorithm on the exponents; if qi did not divide r - 1 the gcd
   would divide (N-1)/qi, so r would divide gcd(ai^((N-1)/qi) - 1, N) = 1.

   A certificate is a list of entries (N, [(q1, a1); ...]) checked from left to right: each qi must be an earlier
   entry (already proved prime) or small enough to be decided by trial division.  [check_certs] is a boolean function
   evaluated by vm_compute; [check_certs_sound] lifts it: every N of an accepted list is prime. *)
From Coq Require Import List ZArith Znumtheory Zpow_facts Bool Lia.
From GmsmVerif Require Import Ser.Fermat.
Import ListNotations.
Open Scope Z_scope.

(* ---------- powers modulo r ---------------------------------------------------------------------------------- *)
Lemma pow_mod_1_mul : forall a m k r, 1 < r -> 0 <= m -> 0 <= k -> a ^ m mod r = 1 -> a ^ (m * k) mod r = 1.
Proof.
  intros a m k r Hr Hm Hk H. rewrite Z.pow_mul_r by lia. rewrite Zpower_mod by lia. rewrite H.
  rewrite Z.pow_1_l by lia. apply Z.mod_small. lia.
Qed.

(* Euclid on the exponents *)
Lemma pow_gcd_1 : forall a r, 1 < r -> forall n, 0 <= n -> forall m, 0 <= m ->
  a ^ m mod r = 1 -> a ^ n mod r = 1 -> a ^ (Z.gcd m n) mod r = 1.
Proof.
  intros a r Hr n Hn. pattern n. apply (Zlt_0_rec); [|exact Hn].
  clear n Hn. intros n IH Hn m Hm Ham Han.
  destruct (Z.eq_dec n 0) as [->|Hn0].
  - rewrite Z.gcd_0_r, Z.abs_eq by lia. exact Ham.
  - assert (Hmod : 0 <= m mod n < n) by (apply Z.mod_pos_bound; lia).
    assert (Hr' : a ^ (m mod n) mod r = 1).
    { pose proof (Z.div_mod m n Hn0) as E.
      assert (Hq : 0 <= m / n) by (apply Z.div_pos; lia).
      rewrite E in Ham. rewrite Z.pow_add_r in Ham by nia.
      rewrite Zmult_mod in Ham. rewrite (pow_mod_1_mul a n (m / n) r) in Ham by (auto; lia).
      rewrite Z.mul_1_l, Z.mod_mod in Ham by lia. exact Ham. }
    rewrite Z.gcd_comm. rewrite <- (Z.gcd_mod m n) by lia. rewrite Z.gcd_comm.
    apply (IH (m mod n)); auto; lia.
Qed.

(* ---------- one prime q of F ---------------------------------------------------------------------------------- *)
Lemma pock_step : forall N q a r, 1 < N -> prime q -> (q | N - 1) ->
  a ^ (N - 1) mod N = 1 -> Z.gcd (a ^ ((N - 1) / q) mod N - 1) N = 1 ->
  prime r -> (r | N) -> (q | r - 1).
Proof.
  intros N q a r HN Hq Hqd Ha Hg Hr Hrd.
  pose proof (prime_ge_2 _ Hr) as Hr2. pose proof (prime_ge_2 _ Hq) as Hq2.
  destruct (Zdivide_dec q (r - 1)) as [|Hnd]; auto. exfalso.
  (* modulo r *)
  assert (Hmodr : forall x, (x mod N) mod r = x mod r).
  { intros x. destruct Hrd as [k Hk]. rewrite (Z.mod_eq x N) by lia. rewrite Hk.
    replace (x - k * r * (x / (k * r))) with (x + (- k * (x / (k * r))) * r) by ring. apply Z.mod_add. lia. }
  assert (Har : a ^ (N - 1) mod r = 1).
  { rewrite <- Hmodr, Ha. apply Z.mod_small. lia. }
  assert (Hnz : a mod r <> 0).
  { intro E. rewrite Zpower_mod in Har by lia. rewrite E in Har. rewrite Z.pow_0_l in Har by lia.
    rewrite Z.mod_0_l in Har by lia. discriminate. }
  assert (Hf : a ^ (r - 1) mod r = 1).
  { rewrite Zpower_mod by lia. apply fermat_little_Z; auto.
    pose proof (Z.mod_pos_bound a r ltac:(lia)). lia. }
  pose proof (pow_gcd_1 a r ltac:(lia) (r - 1) ltac:(lia) (N - 1) ltac:(lia) Har Hf) as Ht.
  set (t := Z.gcd (N - 1) (r - 1)) in *.
  assert (Htpos : 0 < t).
  { unfold t. pose proof (Z.gcd_nonneg (N - 1) (r - 1)).
    destruct (Z.eq_dec (Z.gcd (N - 1) (r - 1)) 0) as [E|]; [|lia]. apply Z.gcd_eq_0_l in E. lia. }
  assert (Ht1 : (t | N - 1)) by apply Z.gcd_divide_l.
  assert (Ht2 : (t | r - 1)) by apply Z.gcd_divide_r.
  assert (Hqt : ~ (q | t)) by (intro D; apply Hnd; eapply Z.divide_trans; eauto).
  destruct Hqd as [M HM].
  assert (HMq : (N - 1) / q = M) by (rewrite HM; apply Z.div_mul; lia).
  assert (HtM : (t | M)).
  { apply (Gauss t q M); [rewrite Z.mul_comm, <- HM; exact Ht1|].
    apply rel_prime_sym. apply prime_rel_prime; auto. }
  destruct HtM as [k Hk].
  assert (HM0 : 0 < M) by nia.
  assert (Hk0 : 0 <= k) by nia.
  assert (HaM : a ^ M mod r = 1).
  { rewrite Hk, Z.mul_comm. apply pow_mod_1_mul; auto; lia. }
  (* r divides gcd (a^M mod N - 1) N = 1 *)
  rewrite HMq in Hg.
  assert (Hd1 : (r | a ^ M mod N - 1)).
  { apply Z.mod_divide; [lia|]. rewrite Zminus_mod, Hmodr, HaM. rewrite (Z.mod_small 1 r) by lia. reflexivity. }
  assert (Hd : (r | 1)).
  { rewrite <- Hg. apply Z.gcd_greatest; auto. }
  apply Z.divide_1_r_nonneg in Hd; lia.
Qed.

(* ---------- all primes of F ------------------------------------------------------------------------------------ *)
Definition zprod (l : list Z) : Z := fold_right Z.mul 1 l.

Lemma divide_coprime_mul : forall a b x, rel_prime a b -> (a | x) -> (b | x) -> (a * b | x).
Proof.
  intros a b x Hrp [k Hk] Hb. subst x.
  assert (D : (b | k)) by (apply (Gauss b a k); [rewrite Z.mul_comm; exact Hb|apply rel_prime_sym; exact Hrp]).
  destruct D as [j Hj]. exists j. subst k. ring.
Qed.

(* every divisor d > 1 of N has a prime divisor *)
Lemma prime_divisor_exists : forall n, 1 < n -> exists r, prime r /\ (r | n).
Proof.
  intros n Hn. assert (H0 : 0 <= n) by lia. revert Hn. pattern n. apply Zlt_0_rec; [|exact H0].
  clear n H0. intros n IH _ Hn.
  destruct (prime_dec n) as [Hp|Hnp].
  - exists n. split; auto. apply Z.divide_refl.
  - destruct (not_prime_divide n Hn Hnp) as (d & Hd & Hdn).
    destruct (IH d ltac:(lia) ltac:(lia)) as (r & Hr & Hrd).
    exists r. split; auto. eapply Z.divide_trans; eauto.
Qed.

Theorem pocklington : forall N F, 1 < N -> 0 < F -> N < F * F ->
  (forall r, prime r -> (r | N) -> (F | r - 1)) -> prime N.
Proof.
  intros N F HN HF HFF Hall.
  destruct (prime_dec N) as [|Hnp]; auto. exfalso.
  destruct (not_prime_divide N HN Hnp) as (d & Hd & [e He]).
  assert (Hbig : forall x, 1 < x -> (x | N) -> F + 1 <= x).
  { intros x Hx Hxd. destruct (prime_divisor_exists x Hx) as (r & Hr & Hrx).
    pose proof (prime_ge_2 _ Hr).
    assert (Hrn : (r | N)) by (eapply Z.divide_trans; eauto).
    pose proof (Hall r Hr Hrn) as D. apply Z.divide_pos_le in D; [|lia].
    apply Z.divide_pos_le in Hrx; lia. }
  assert (He1 : 1 < e) by nia.
  pose proof (Hbig d ltac:(lia) ltac:(exists e; lia)).
  pose proof (Hbig e He1 ltac:(exists d; lia)).
  nia.
Qed.

(* ---------- trial division ---------------------------------------------------------------------------------------- *)
Lemma trial_division_prime : forall q, 1 < q -> (forall d, 2 <= d -> d * d <= q -> q mod d <> 0) -> prime q.
Proof.
  intros q Hq H. destruct (prime_dec q) as [|Hnp]; auto. exfalso.
  destruct (not_prime_divide q Hq Hnp) as (d & Hd & [e He]).
  assert (He1 : 1 < e) by nia.
  destruct (Z_le_gt_dec (d * d) q) as [L|G].
  - apply (H d); [lia|exact L|]. rewrite He. apply Z.mod_mul. lia.
  - assert (e * e <= q) by nia.
    apply (H e); [lia|assumption|]. rewrite He, Z.mul_comm. apply Z.mod_mul. lia.
Qed.

(* no divisor in [d, d + fuel) with square <= q *)
Fixpoint no_divisor_from (fuel : nat) (d q : Z) : bool :=
  match fuel with
  | O => true
  | S f => if q <? d * d then true else negb (q mod d =? 0) && no_divisor_from f (d + 1) q
  end.

(* "if" rather than "&&": vm_compute evaluates the arguments of && eagerly, and the trial division must not be
   started on a large number *)
Definition small_prime (q : Z) : bool :=
  if (1 <? q) && (q <? 2 ^ 40) then no_divisor_from (Z.to_nat (Z.sqrt q)) 2 q else false.

Lemma no_divisor_from_spec : forall fuel d q, 0 < d -> no_divisor_from fuel d q = true ->
  forall x, d <= x < d + Z.of_nat fuel -> x * x <= q -> q mod x <> 0.
Proof.
  induction fuel; intros d q Hd H x Hx Hxx.
  - simpl in Hx. lia.
  - cbn [no_divisor_from] in H. destruct (Z.ltb_spec q (d * d)) as [L|L].
    + nia.
    + apply andb_true_iff in H. destruct H as [H1 H2].
      destruct (Z.eq_dec x d) as [->|Hne].
      * apply negb_true_iff in H1. apply Z.eqb_neq in H1. exact H1.
      * apply (IHfuel (d + 1) q); auto; lia.
Qed.

Lemma small_prime_sound : forall q, small_prime q = true -> prime q.
Proof.
  intros q H. unfold small_prime in H. destruct ((1 <? q) && (q <? 2 ^ 40)) eqn:H0; [|discriminate].
  rename H into H3. apply andb_true_iff in H0. destruct H0 as [H1 _]. apply Z.ltb_lt in H1.
  apply trial_division_prime; auto. intros d Hd Hdd.
  apply (no_divisor_from_spec _ 2 q ltac:(lia) H3); auto.
  rewrite Z2Nat.id by (apply Z.sqrt_nonneg).
  assert (d <= Z.sqrt q) by (apply Z.sqrt_le_square; lia). lia.
Qed.

(* ---------- certificates ------------------------------------------------------------------------------------------ *)
Definition entry := (Z * list (Z * Z))%type.     (* N, [(q, a)] *)

Definition known_prime (known : list Z) (q : Z) : bool := if existsb (Z.eqb q) known then true else small_prime q.

(* witnesses for the primes qs (processed with the product of the remaining ones) *)
Fixpoint check_wits (known : list Z) (N : Z) (w : list (Z * Z)) : bool :=
  match w with
  | [] => true
  | (q, a) :: rest =>
    known_prime known q
    && (Z.gcd q (zprod (map fst rest)) =? 1)
    && (Zpow_mod a (N - 1) N =? 1)
    && (Z.gcd (Zpow_mod a ((N - 1) / q) N - 1) N =? 1)
    && check_wits known N rest
  end.

Definition check_entry (known : list Z) (e : entry) : bool :=
  let N := fst e in
  let F := zprod (map fst (snd e)) in
  (1 <? N) && (0 <? F) && (N <? F * F) && ((N - 1) mod F =? 0) && check_wits known N (snd e).

Fixpoint check_certs (known : list Z) (certs : list entry) : bool :=
  match certs with
  | [] => true
  | e :: rest => check_entry known e && check_certs (fst e :: known) rest
  end.

Lemma known_prime_sound : forall known q, (forall k, In k known -> prime k) -> known_prime known q = true -> prime q.
Proof.
  intros known q Hk H. unfold known_prime in H. destruct (existsb (Z.eqb q) known) eqn:E0.
  - apply existsb_exists in E0. destruct E0 as (k & Hin & E). apply Z.eqb_eq in E. subst. auto.
  - apply small_prime_sound. exact H.
Qed.

Lemma check_wits_sound : forall known N w, (forall k, In k known -> prime k) -> 1 < N ->
  check_wits known N w = true -> (zprod (map fst w) | N - 1) ->
  forall r, prime r -> (r | N) -> (zprod (map fst w) | r - 1).
Proof.
  intros known N w Hk HN. induction w as [|[q a] rest IH]; intros H HF r Hr Hrd.
  - simpl. apply Z.divide_1_l.
  - cbn [check_wits] in H. repeat (apply andb_true_iff in H; destruct H as [H ?]).
    rename H into Hq, H0 into Hrest, H1 into Hg2, H2 into Hp, H3 into Hg1.
    cbn [map fst zprod fold_right] in *. fold (zprod (map fst rest)) in *.
    apply Z.eqb_eq in Hg1, Hp, Hg2.
    pose proof (known_prime_sound _ _ Hk Hq) as Pq.
    rewrite Zpow_mod_correct in Hp, Hg2 by lia.
    apply divide_coprime_mul.
    + apply Zgcd_1_rel_prime. exact Hg1.
    + apply (pock_step N q a r); auto. eapply Z.divide_trans; [|exact HF]. exists (zprod (map fst rest)). ring.
    + apply IH; auto. eapply Z.divide_trans; [|exact HF]. exists q. ring.
Qed.

Lemma check_entry_sound : forall known e, (forall k, In k known -> prime k) -> check_entry known e = true -> prime (fst e).
Proof.
  intros known [N w] Hk H. unfold check_entry in H. cbn [fst snd] in *.
  repeat (apply andb_true_iff in H; destruct H as [H ?]).
  apply Z.ltb_lt in H, H3, H2. apply Z.eqb_eq in H1.
  apply (pocklington N (zprod (map fst w))); auto.
  apply (check_wits_sound known N w Hk H H0).
  apply Z.mod_divide; [lia|exact H1].
Qed.

Theorem check_certs_sound : forall certs known, (forall k, In k known -> prime k) ->
  check_certs known certs = true -> forall e, In e certs -> prime (fst e).
Proof.
  induction certs as [|e rest IH]; intros known Hk H e' Hin; [contradiction|].
  cbn [check_certs] in H. apply andb_true_iff in H. destruct H as [H1 H2].
  pose proof (check_entry_sound known e Hk H1) as Pe.
  destruct Hin as [<-|Hin]; auto.
  apply (IH (fst e :: known)); auto.
  intros k [<-|Hkin]; auto.
Qed.
