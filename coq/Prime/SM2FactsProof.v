(* SM2Facts (EC/SM2Curve.v) PROVED, no premise ([SM2Facts_proved]); first with associativity of the affine addition as
   the only premise ([SM2Facts_from_assoc]), then with associativity taken from SM2/ECAssoc.v:
     sm2_p_prime, sm2_n_prime   Pocklington certificates (Prime/SM2Primes.v)
     sm2_G_on_curve             by computation
     sm2_nG_infinity            [n]G = infinity by computation (one 256-bit double-and-add in vm_compute)
     sm2_kG_finite              from n prime, [n]G = infinity, G <> infinity and the Z-module laws of SM2/SM2GroupMin.v
                                (which need p prime and associativity): if [k]G = infinity for 0 < k < n, take
                                u with u*k = 1 (mod n); then G = [u*k mod n]G = [u*k]G = [u]([k]G) = infinity. *)
From Coq Require Import List ZArith Znumtheory Lia.
From GmsmVerif Require Import EC.ECAffine EC.SM2Curve SM2.SM2GroupMin SM2.ECAssoc Prime.SM2Primes.
Open Scope Z_scope.

Definition sm2_add_assoc_statement : Prop :=
  forall P Q R : point, sm2_valid P = true -> sm2_valid Q = true -> sm2_valid R = true ->
                        sm2_add (sm2_add P Q) R = sm2_add P (sm2_add Q R).

Lemma sm2_G_on_curve_holds : sm2_on_curve sm2_Gx sm2_Gy = true.
Proof. vm_compute. reflexivity. Qed.

Lemma sm2_nG_infinity_holds : sm2_mul sm2_n sm2_G = None.
Proof. vm_compute. reflexivity. Qed.

Lemma mul_None : sm2_add_assoc_statement -> forall u, 0 <= u -> sm2_mul u None = None.
Proof.
  intros Ha u Hu. rewrite (mul_nmul sm2_p_is_prime Ha u None eq_refl Hu). apply nmul_None.
Qed.

Lemma sm2_kG_finite_holds : sm2_add_assoc_statement -> forall k, 0 < k < sm2_n -> sm2_mul k sm2_G <> None.
Proof.
  intros Ha k Hk Hnone.
  pose proof sm2_n_is_prime as Hn. pose proof (prime_ge_2 _ Hn) as Hn2.
  assert (Hrp : rel_prime k sm2_n) by (destruct Hn as [_ H]; apply H; lia).
  destruct (rel_prime_bezout _ _ Hrp) as [u v Huv].
  set (u' := u mod sm2_n).
  assert (Hu' : 0 <= u' < sm2_n) by (apply Z.mod_pos_bound; lia).
  assert (Hmod : (u' * k) mod sm2_n = 1).
  { unfold u'. rewrite Z.mul_mod_idemp_l by lia.
    replace (u * k) with (1 + (- v) * sm2_n) by lia. rewrite Z.mod_add by lia. apply Z.mod_small. lia. }
  pose proof (mul_mod_n sm2_p_is_prime Ha sm2_nG_infinity_holds (u' * k) ltac:(nia)) as E.
  rewrite Hmod in E.
  rewrite <- (mul_mul sm2_p_is_prime Ha u' k sm2_G sm2_G_valid ltac:(lia) ltac:(lia)) in E.
  rewrite Hnone in E. rewrite (mul_None Ha u' ltac:(lia)) in E.
  unfold sm2_mul, ec_mul, ec_mul_pos, sm2_G in E. discriminate.
Qed.

Theorem SM2Facts_from_assoc : sm2_add_assoc_statement -> SM2Facts.
Proof.
  intros Ha. exact (mkSM2Facts sm2_p_is_prime sm2_n_is_prime Ha sm2_G_on_curve_holds sm2_nG_infinity_holds
                                (sm2_kG_finite_holds Ha)).
Qed.

(* associativity itself is proved in SM2/ECAssoc.v under "prime sm2_p": no premise is left *)
Lemma sm2_add_assoc_holds : sm2_add_assoc_statement.
Proof. exact (sm2_add_assoc_proved sm2_p_is_prime). Qed.

Theorem SM2Facts_proved : SM2Facts.
Proof. exact (SM2Facts_from_assoc sm2_add_assoc_holds). Qed.

Lemma Add_assoc_holds : Add_assoc. Proof. exact sm2_add_assoc_holds. Qed.
Lemma G_multiples_finite_holds : G_multiples_finite. Proof. exact (sm2_kG_finite_holds sm2_add_assoc_holds). Qed.

(* the separate premises of SM2/SM2GroupMin.v *)
Lemma P_prime_holds : P_prime. Proof. exact sm2_p_is_prime. Qed.
Lemma N_prime_holds : N_prime. Proof. exact sm2_n_is_prime. Qed.
Lemma G_order_divides_n_holds : G_order_divides_n. Proof. exact sm2_nG_infinity_holds. Qed.
Lemma G_multiples_finite_from_assoc : Add_assoc -> G_multiples_finite.
Proof. intros Ha. exact (sm2_kG_finite_holds Ha). Qed.
