(* The SM2 field prime and group order are prime: the certificates of Prime/SM2Certs.v pass the checker of
   Prime/Pocklington.v (vm_compute), and the checker is sound. *)
From Coq Require Import List ZArith Znumtheory Lia.
From GmsmVerif Require Import EC.SM2Curve Prime.Pocklington Prime.SM2Certs.
Import ListNotations.
Open Scope Z_scope.

Lemma sm2_p_certs_ok : check_certs [] sm2_p_certs = true.
Proof. vm_compute. reflexivity. Qed.

Lemma sm2_n_certs_ok : check_certs [] sm2_n_certs = true.
Proof. vm_compute. reflexivity. Qed.

Theorem sm2_p_is_prime : prime sm2_p.
Proof.
  apply (check_certs_sound sm2_p_certs [] (fun k H => match H with end) sm2_p_certs_ok
           (sm2_p, [(66013261729388519804782124120027, 2); (417514796639753, 2)])).
  vm_compute. auto.
Qed.

Theorem sm2_n_is_prime : prime sm2_n.
Proof.
  apply (check_certs_sound sm2_n_certs [] (fun k H => match H with end) sm2_n_certs_ok
           (sm2_n, [(125197554539772723432468576818475380947471091418362477724521, 2)])).
  vm_compute. auto 12.
Qed.
