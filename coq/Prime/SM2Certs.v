(* Pocklington certificates for the SM2 field prime p and group order n (GM/T 0003.5), as DATA: every entry is
   (N, [(q, a); ...]) with the q's prime divisors of N - 1 whose product exceeds sqrt N and a witness a for each.
   The numbers were proposed offline by a script using sympy (factorisation of N - 1, search for witnesses); nothing
   here is trusted: the checker of Prime/Pocklington.v is evaluated on them by vm_compute in Prime/SM2Primes.v.
   Entries come in dependency order (a q above 2^40 is an earlier entry). *)
From Coq Require Import List ZArith.
Import ListNotations.
Open Scope Z_scope.

Definition sm2_p_certs : list (Z * list (Z * Z)) :=
  [(4773264379806847,
     [(363761, 2); (34511, 2)]);
   (66013261729388519804782124120027,
     [(4773264379806847, 2); (6158099, 2)]);
   (417514796639753,
     [(8214737, 2); (2473, 2)]);
   (115792089210356248756420345214020892766250353991924191454421193933289684991999,
     [(66013261729388519804782124120027, 2); (417514796639753, 2)])].

Definition sm2_n_certs : list (Z * list (Z * Z)) :=
  [(5636460199499,
     [(9061163, 2)]);
   (101456283590983,
     [(5636460199499, 2)]);
   (2566129871,
     [(84163, 2)]);
   (18120927127286907576013935251791662753637,
     [(101456283590983, 2); (2566129871, 2)]);
   (125197554539772723432468576818475380947471091418362477724521,
     [(18120927127286907576013935251791662753637, 2)]);
   (115792089210356248756420345214020892766061623724957744567843809356293439045923,
     [(125197554539772723432468576818475380947471091418362477724521, 2)])].
