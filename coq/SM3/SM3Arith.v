(* The compression function and the digest of GM/T 0004 with the 32-bit word operations written as
   plain arithmetic on natural numbers (mod, +, *, /, -) instead of N.land masks and shifts:

     a [+] b  = (a + b) mod 2^32
     ~a       = 2^32 - 1 - a
     x <<< k  = (x * 2^k) mod 2^32 + x / 2^(32-k)          (k = n mod 32)
     bytes -> word  = b0*2^24 + b1*2^16 + b2*2^8 + b3
     word -> bytes  = (w / 2^24) mod 2^8, (w / 2^16) mod 2^8, (w / 2^8) mod 2^8, w mod 2^8

   Bitwise xor / and / or stay N.lxor / N.land / N.lor (they are the standard's bit operations).
   Specification only; SM3ArithProofs.v proves it equal to SM3Spec on words below 2^32 and bytes
   below 2^8, with the range invariant for every intermediate value. *)
From Coq Require Import List NArith Arith.
From GmsmVerif Require Import SM3.SM3Spec.
Import ListNotations.
Open Scope N_scope.

Definition add_a (a b : N) : N := (a + b) mod 2 ^ 32.
Definition not_a (a : N) : N := 2 ^ 32 - 1 - a.
Definition rotl_a (x n : N) : N := let k := n mod 32 in (x * 2 ^ k) mod 2 ^ 32 + x / 2 ^ (32 - k).

Definition GG_a (j : nat) (x y z : N) : N :=
  if (j <? 16)%nat then N.lxor (N.lxor x y) z
  else N.lor (N.land x y) (N.land (not_a x) z).

Definition P0_a (x : N) : N := N.lxor (N.lxor x (rotl_a x 9)) (rotl_a x 17).
Definition P1_a (x : N) : N := N.lxor (N.lxor x (rotl_a x 15)) (rotl_a x 23).

Definition be32_a (b0 b1 b2 b3 : N) : N := b0 * 2 ^ 24 + b1 * 2 ^ 16 + b2 * 2 ^ 8 + b3.

Fixpoint words_of_bytes_a (b : list N) : list N :=
  match b with
  | b0 :: b1 :: b2 :: b3 :: r => be32_a b0 b1 b2 b3 :: words_of_bytes_a r
  | _ => []
  end.

Definition bytes_of_word_a (w : N) : list N :=
  [(w / 2 ^ 24) mod 2 ^ 8; (w / 2 ^ 16) mod 2 ^ 8; (w / 2 ^ 8) mod 2 ^ 8; w mod 2 ^ 8].

Definition W_next_a (W : list N) (j : nat) : N :=
  N.lxor (N.lxor (P1_a (N.lxor (N.lxor (nth (j - 16) W 0) (nth (j - 9) W 0)) (rotl_a (nth (j - 3) W 0) 15)))
                 (rotl_a (nth (j - 13) W 0) 7))
         (nth (j - 6) W 0).

Definition expand_a (B : list N) : list N :=
  fold_left (fun W j => W ++ [W_next_a W j]) (seq 16 52) (words_of_bytes_a B).

Definition round_a (W : list N) (r : regs) (j : nat) : regs :=
  let '(A, B, C, D, E, F, G, H) := r in
  let SS1 := rotl_a (add_a (add_a (rotl_a A 12) E) (rotl_a (T j) (N.of_nat j))) 7 in
  let SS2 := N.lxor SS1 (rotl_a A 12) in
  let TT1 := add_a (add_a (add_a (FF j A B C) D) SS2) (W' W j) in
  let TT2 := add_a (add_a (add_a (GG_a j E F G) H) SS1) (nth j W 0) in
  (TT1, A, rotl_a B 9, C, P0_a TT2, E, rotl_a F 19, G).

Definition cf_a (V : list N) (B : list N) : list N :=
  match V with
  | [a; b; c; d; e; f; g; h] =>
    let W := expand_a B in
    let '(A1, B1, C1, D1, E1, F1, G1, H1) := fold_left (round_a W) (seq 0 64) (a, b, c, d, e, f, g, h) in
    [N.lxor a A1; N.lxor b B1; N.lxor c C1; N.lxor d D1; N.lxor e E1; N.lxor f F1; N.lxor g G1; N.lxor h H1]
  | _ => V
  end.

(* padding in arithmetic: 0x80, zeros up to 56 mod 64, the bit length as eight base-256 digits *)
Definition be64_a (l : N) : list N :=
  [(l / 2 ^ 56) mod 2 ^ 8; (l / 2 ^ 48) mod 2 ^ 8; (l / 2 ^ 40) mod 2 ^ 8; (l / 2 ^ 32) mod 2 ^ 8;
   (l / 2 ^ 24) mod 2 ^ 8; (l / 2 ^ 16) mod 2 ^ 8; (l / 2 ^ 8) mod 2 ^ 8; l mod 2 ^ 8].

Definition pad_a (m : list N) : list N :=
  let len := N.of_nat (length m) in
  m ++ 0x80 :: repeat 0 (N.to_nat ((119 - len mod 64) mod 64)) ++ be64_a (8 * len).

(* iteration over the 64-byte blocks, by structural recursion on the number of blocks *)
Fixpoint iterate_a (n : nat) (V : list N) (m : list N) : list N :=
  match n with
  | O => V
  | S n' => iterate_a n' (cf_a V (firstn 64 m)) (skipn 64 m)
  end.

Definition sm3_a (m : list N) : list N :=
  let pm := pad_a m in
  flat_map bytes_of_word_a (iterate_a (length pm / 64) sm3_iv pm).
