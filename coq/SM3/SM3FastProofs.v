(* Proofs for SM3Fast, part 2: the window-based expansion, the list-walking rounds, the compression
   function, the iteration and the digest of SM3Fast equal those of SM3Spec.
   Main results: sm3_fast_eq : forall m, sm3_fast m = sm3 m;  hmac_sm3_fast_eq. *)
From Coq Require Import List NArith Arith Lia ZifyN ZifyNat ZifyBool Bool.
From GmsmVerif Require Import SM3.SM3Spec SM3.HMACSpec SM3.SM3Arith SM3.SM3ArithProofs SM3.SM3Model SM3.SM3Proofs
  SM3.SM3FastWord SM3.SM3Fast SM3.SM3FastBits.
Import ListNotations.
Open Scope N_scope.

(* ---------- the small functions ---------------------------------------------------------------------------- *)
Lemma P0_f_spec x : to_N (P0_f x) = P0 (to_N x).
Proof. unfold P0_f, P0. rewrite !xorw_spec, rotw9_spec, rotw17_spec. reflexivity. Qed.

Lemma P1_f_spec x : to_N (P1_f x) = P1 (to_N x).
Proof. unfold P1_f, P1. rewrite !xorw_spec, rotw15_spec, rotw23_spec. reflexivity. Qed.

Lemma nth_to_N l j : nth j (map to_N l) 0 = to_N (nth j l zero_word).
Proof. rewrite <- to_N_zero. apply map_nth. Qed.

Lemma nth_rev_back (R : list word) k : (1 <= k <= length R)%nat ->
  nth (length R - k) (rev R) zero_word = nth (k - 1) R zero_word.
Proof. intros H. rewrite rev_nth by lia. f_equal. lia. Qed.

(* ---------- expansion ---------------------------------------------------------------------------------------- *)
Lemma next_f_spec_R R : (16 <= length R)%nat ->
  to_N (next_f R) = W_next (map to_N (rev R)) (length R).
Proof.
  intros HL. unfold W_next. rewrite !nth_to_N.
  rewrite !nth_rev_back by lia.
  do 16 (destruct R as [|? R]; [cbn in HL; lia|]).
  cbn [Nat.sub nth next_f].
  rewrite !xorw_spec, P1_f_spec, !xorw_spec, rotw15_spec, rotw7_spec. reflexivity.
Qed.

Lemma next_f_spec Wf : (16 <= length Wf)%nat ->
  to_N (next_f (rev Wf)) = W_next (map to_N Wf) (length Wf).
Proof.
  intros HL. rewrite next_f_spec_R by (rewrite rev_length; exact HL).
  rewrite rev_involutive, rev_length. reflexivity.
Qed.

Lemma expand_rev_spec n : forall Wf, (16 <= length Wf)%nat ->
  map to_N (rev (expand_rev n (rev Wf))) =
  fold_left (fun W j => W ++ [W_next W j]) (seq (length Wf) n) (map to_N Wf).
Proof.
  induction n as [|n IH]; intros Wf HL; cbn [expand_rev seq fold_left].
  - rewrite rev_involutive. reflexivity.
  - replace (next_f (rev Wf) :: rev Wf) with (rev (Wf ++ [next_f (rev Wf)])) by apply rev_unit.
    rewrite IH by (rewrite app_length; lia).
    rewrite app_length, map_app. cbn [length map]. rewrite next_f_spec by exact HL.
    replace (length Wf + 1)%nat with (S (length Wf)) by lia. reflexivity.
Qed.

Lemma words_of_bytes_f_spec n : forall B, (length B <= n)%nat -> Forall byte_ok B ->
  map to_N (words_of_bytes_f B) = words_of_bytes B.
Proof.
  induction n as [|n IH]; intros B Hl HB.
  - destruct B; [reflexivity|cbn in Hl; lia].
  - destruct B as [|b0 [|b1 [|b2 [|b3 r]]]]; try reflexivity.
    inversion HB as [|? ? H0 HB1]; subst. inversion HB1 as [|? ? H1 HB2]; subst.
    inversion HB2 as [|? ? H2 HB3]; subst. inversion HB3 as [|? ? H3 HB4]; subst.
    cbn [words_of_bytes words_of_bytes_f map].
    rewrite word_of_4bytes_spec by assumption. rewrite IH; [reflexivity|cbn in Hl; lia|exact HB4].
Qed.

Lemma expand_f_spec B : length B = 64%nat -> Forall byte_ok B ->
  map to_N (expand_f (words_of_bytes_f B)) = expand B.
Proof.
  intros HL HB. unfold expand_f, expand.
  rewrite !rev_append_rev, !app_nil_r.
  pose proof (words_of_bytes_f_spec 64 B ltac:(lia) HB) as E.
  assert (L16 : length (words_of_bytes_f B) = 16%nat).
  { rewrite <- (map_length to_N), E. apply (words_length 16). exact HL. }
  rewrite expand_rev_spec by lia. rewrite L16, E. reflexivity.
Qed.

(* ---------- rounds --------------------------------------------------------------------------------------------- *)
Definition regsN (r : regsw) : regs :=
  let '(A, B, C, D, E, F, G, H) := r in
  (to_N A, to_N B, to_N C, to_N D, to_N E, to_N F, to_N G, to_N H).

Lemma round_f_spec W j w w' t r :
  to_N w = nth j W 0 -> to_N w' = W' W j -> to_N t = rotl32 (T j) (N.of_nat j) ->
  regsN (round_f (j <? 16)%nat w w' t r) = round W (regsN r) j.
Proof.
  intros Hw Hw' Ht. destruct r as [[[[[[[A B] C] D] E] F] G] H].
  unfold round_f, round, regsN, FF, GG, FF_lo, FF_hi, GG_lo, GG_hi. cbv zeta.
  destruct (j <? 16)%nat;
    rewrite ?rotw9_spec, ?rotw19_spec, ?P0_f_spec, ?addw_spec, ?xorw_spec, ?rotw7_spec, ?addw_spec,
            ?rotw12_spec, ?majw_spec, ?muxw_spec, ?xorw_spec, ?Hw, ?Hw', ?Ht; reflexivity.
Qed.

Lemma skipn_cons_nth {A} (d : A) j (l : list A) : (j < length l)%nat -> skipn j l = nth j l d :: skipn (S j) l.
Proof.
  revert l; induction j as [|j IH]; intros [|x l] H; cbn in H; try lia; cbn [skipn nth]; [reflexivity|].
  apply IH. lia.
Qed.

Lemma Tj_nth j : (j < 64)%nat -> to_N (nth j Tj_table zero_word) = rotl32 (T j) (N.of_nat j).
Proof.
  intros H. unfold Tj_table. rewrite nth_map_seq by exact H. cbn [Nat.add].
  apply word_of_N_spec. apply rotl32_lt.
Qed.

Lemma Tj_length : length Tj_table = 64%nat.
Proof. reflexivity. Qed.

Lemma rounds_f_spec Wf lo n : forall j r,
  (forall i, (j <= i < j + n)%nat -> (i <? 16)%nat = lo) ->
  (j + n + 4 <= length Wf)%nat -> (j + n <= 64)%nat ->
  regsN (rounds_f lo n (skipn j Wf) (skipn (j + 4) Wf) (skipn j Tj_table) r) =
  fold_left (round (map to_N Wf)) (seq j n) (regsN r).
Proof.
  induction n as [|n IH]; intros j r Hlo HL H64; cbn [rounds_f seq fold_left]; [reflexivity|].
  rewrite (skipn_cons_nth zero_word j Wf) by lia.
  rewrite (skipn_cons_nth zero_word (j + 4) Wf) by lia.
  rewrite (skipn_cons_nth zero_word j Tj_table) by (rewrite Tj_length; lia).
  change (S (j + 4)) with (S j + 4)%nat.
  rewrite IH; [|intros i Hi; apply Hlo; lia|lia|lia].
  f_equal. rewrite <- (Hlo j) by lia.
  apply round_f_spec.
  - symmetry. apply nth_to_N.
  - unfold W'. rewrite xorw_spec, !nth_to_N. reflexivity.
  - apply Tj_nth. lia.
Qed.

(* ---------- compression function -------------------------------------------------------------------------------- *)
Lemma seq_0_64 : seq 0 64 = seq 0 16 ++ seq 16 48.
Proof. reflexivity. Qed.

Lemma rounds_all Wf r0 : length Wf = 68%nat ->
  regsN (rounds_f false 48 (skipn 16 Wf) (skipn 20 Wf) (skipn 16 Tj_table)
           (rounds_f true 16 Wf (skipn 4 Wf) Tj_table r0)) =
  fold_left (round (map to_N Wf)) (seq 0 64) (regsN r0).
Proof.
  intros LW. rewrite seq_0_64, fold_left_app.
  assert (H1 : forall i, (0 <= i < 0 + 16)%nat -> (i <? 16)%nat = true) by (intros i Hi; apply Nat.ltb_lt; lia).
  assert (H2 : forall i, (16 <= i < 16 + 48)%nat -> (i <? 16)%nat = false) by (intros i Hi; apply Nat.ltb_ge; lia).
  rewrite <- (rounds_f_spec Wf true 16 0 r0 H1) by lia.
  rewrite <- (rounds_f_spec Wf false 48 16 _ H2) by lia.
  reflexivity.
Qed.

Lemma cf_f_spec a b c d e f g h B : length B = 64%nat -> Forall byte_ok B ->
  map to_N (cf_f [a; b; c; d; e; f; g; h] B) = sm3_cf [to_N a; to_N b; to_N c; to_N d; to_N e; to_N f; to_N g; to_N h] B.
Proof.
  intros HL HB. unfold cf_f, sm3_cf. cbv zeta.
  pose proof (expand_f_spec B HL HB) as EW.
  set (Wf := expand_f (words_of_bytes_f B)) in *.
  assert (LW : length Wf = 68%nat) by (rewrite <- (map_length to_N), EW; apply expand_length; exact HL).
  pose proof (rounds_all Wf (a, b, c, d, e, f, g, h) LW) as R.
  rewrite EW in R. cbn [regsN] in R. rewrite <- R.
  destruct (rounds_f false 48 (skipn 16 Wf) (skipn 20 Wf) (skipn 16 Tj_table)
              (rounds_f true 16 Wf (skipn 4 Wf) Tj_table (a, b, c, d, e, f, g, h))) as [[[[[[[A1 B1] C1] D1] E1] F1] G1] H1'].
  cbn [regsN map]. rewrite !xorw_spec. reflexivity.
Qed.

Lemma cf_f_length V B : length V = 8%nat -> length (cf_f V B) = 8%nat.
Proof.
  intros H. destruct V as [|a [|b [|c [|d [|e [|f [|g [|h [|x V]]]]]]]]]; cbn in H; try lia.
  unfold cf_f. cbv zeta.
  destruct (rounds_f false 48 _ _ _ _) as [[[[[[[A1 B1] C1] D1] E1] F1] G1] H1]. reflexivity.
Qed.

Lemma blocks_f_spec fuel : forall Vf m, length Vf = 8%nat -> Forall byte_ok m ->
  map to_N (blocks_f fuel Vf m) = sm3_blocks fuel (map to_N Vf) m.
Proof.
  induction fuel as [|x fuel IH]; intros Vf m HV Hm; cbn [blocks_f sm3_blocks]; [reflexivity|].
  destruct (length (firstn 64 m) =? 64)%nat eqn:E; [|reflexivity].
  apply Nat.eqb_eq in E.
  rewrite IH; [|apply cf_f_length; exact HV|apply Forall_skipn; exact Hm].
  f_equal.
  destruct Vf as [|a [|b [|c [|d [|e [|f [|g [|h [|y Vf]]]]]]]]]; cbn in HV; try lia.
  apply cf_f_spec; [exact E|apply Forall_firstn; exact Hm].
Qed.

(* ---------- the digest --------------------------------------------------------------------------------------------- *)
Lemma iv_f_spec : map to_N iv_f = sm3_iv.
Proof. reflexivity. Qed.

Lemma all_bytes_ok m : all_bytes m = true -> Forall byte_ok m.
Proof.
  unfold all_bytes. intros H. rewrite forallb_forall in H. apply Forall_forall. intros b Hb.
  specialize (H b Hb). apply N.ltb_lt in H. exact H.
Qed.

Lemma flat_map_map {A B C} (f : B -> list C) (g : A -> B) (l : list A) :
  flat_map f (map g l) = flat_map (fun x => f (g x)) l.
Proof. induction l as [|x l IH]; cbn [map flat_map]; [reflexivity|rewrite IH; reflexivity]. Qed.

Theorem sm3_fast_eq m : sm3_fast m = sm3 m.
Proof.
  unfold sm3_fast. destruct (all_bytes m) eqn:E; [|reflexivity].
  apply all_bytes_ok in E. pose proof (sm3_pad_ok m E) as Hp. cbv zeta.
  unfold sm3, sm3_absorb, bytes_of_words.
  rewrite <- iv_f_spec. rewrite <- blocks_f_spec by (try exact Hp; reflexivity).
  rewrite flat_map_map. apply flat_map_ext. intros w. apply bytes_of_word_f_spec.
Qed.

Theorem hmac_sm3_fast_eq key msg : hmac_sm3_fast key msg = hmac_sm3 key msg.
Proof. unfold hmac_sm3_fast, hmac_sm3, hmac_key_block. rewrite !sm3_fast_eq. reflexivity. Qed.
