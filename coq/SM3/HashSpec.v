(* The hash.Hash contract the property states, as a reference machine over any hash function
   H : message -> digest.  Specification only; never looks at the Go code.

     Write(p)  appends p to the message written so far and returns len(p)
     Sum(in)   returns in followed by H(message written so far); changes nothing
     Reset()   forgets the message written so far

   The operations and their results use the types of the model ([op], [out]). *)
From Coq Require Import List NArith.
From GmsmVerif Require Import Lib.Outcome SM3.SM3Spec SM3.SM3Model.
Import ListNotations.
Open Scope N_scope.

Section HashRef.
  Variable H : list N -> list N.

  (* the results of a history started with [written] already written *)
  Fixpoint ref_run (written : list N) (ops : list op) : list out :=
    match ops with
    | [] => []
    | OpWrite p :: ops' => OutWrite (N.of_nat (length p)) :: ref_run (written ++ p) ops'
    | OpSum in_ :: ops' => OutSum (Ok (in_ ++ H written)) :: ref_run written ops'
    | OpReset :: ops' => OutReset :: ref_run [] ops'
    end.

  (* the message written since the last Reset, after the history *)
  Fixpoint ref_written (written : list N) (ops : list op) : list N :=
    match ops with
    | [] => written
    | OpWrite p :: ops' => ref_written (written ++ p) ops'
    | OpSum _ :: ops' => ref_written written ops'
    | OpReset :: ops' => ref_written [] ops'
    end.
End HashRef.
