(* The code GENERATED from /repo/sm3/sm3.go (coq/Gen/SM3Code.v: block body of update / update2, the
   length bytes of pad - translated statement by statement on every run) is the hand-written model of
   SM3Model.v, for words below 2^32 and bytes below 2^8; hence, by SM3Proofs.v, the standard's
   compression function.  The proofs do not depend on how sub-expressions are bound to variables in the
   source (lets are expanded), only on the loop structure.  Restated in Props/C04.v. *)
From Coq Require Import List NArith Arith Lia ZifyN ZifyNat ZifyBool Bool.
From GmsmVerif Require Import Lib.Outcome SM3.SM3Spec SM3.SM3Arith SM3.SM3ArithProofs SM3.SM3Model SM3.SM3Proofs
  Gen.SM3Code.
Import ListNotations.
Open Scope N_scope.

(* ---------- the generated forms of the word operations ------------------------------------------------- *)
Lemma gen_add a b : (a + b) mod 4294967296 = add32 a b.
Proof. symmetry. apply add32_arith. Qed.

Lemma gen_not x : w32 x -> 4294967295 - x = not32 x.
Proof. intros H. rewrite (not32_arith x H). reflexivity. Qed.

(* x<<(k%32) | x>>(32-k%32) on uint32, the shift count 32-k%32 computed in uint32 *)
Lemma gen_rot x k : w32 x ->
  N.lor ((x * 2 ^ (k mod 32)) mod 4294967296) (x / 2 ^ ((32 + 4294967296 - k mod 32) mod 4294967296)) = rotl32 x k.
Proof.
  intros Hx. assert (Hk : k mod 32 < 32) by (apply N.mod_upper_bound; discriminate).
  set (j := k mod 32) in *.
  replace ((32 + 4294967296 - j) mod 4294967296) with (32 - j)
    by (symmetry; replace (32 + 4294967296 - j) with (32 - j + 1 * 4294967296) by lia;
        rewrite N.mod_add by discriminate; apply N.mod_small; lia).
  unfold rotl32. fold j. unfold trunc32. rewrite N.land_lor_distr_l.
  fold (trunc32 (N.shiftl x j)) (trunc32 (N.shiftr x (32 - j))).
  rewrite (trunc32_mod (N.shiftl x j)), N.shiftl_mul_pow2. change (2 ^ 32) with 4294967296.
  rewrite N.shiftr_div_pow2. f_equal. symmetry. apply trunc32_id. unfold w32 in *.
  eapply N.le_lt_trans; [|exact Hx]. apply N.div_le_upper_bound; [apply N.pow_nonzero; discriminate|].
  assert (1 <= 2 ^ (32 - j)) by (apply N.neq_0_lt_0 in Hx || idtac; pose proof (N.pow_nonzero 2 (32 - j) ltac:(discriminate)); lia).
  nia.
Qed.

Lemma rotl32_amount x k : rotl32 x (k mod 4294967296) = rotl32 x k.
Proof.
  unfold rotl32. replace ((k mod 4294967296) mod 32) with (k mod 32); [reflexivity|].
  change 4294967296 with (32 * 134217728). rewrite N.mod_mul_r by discriminate.
  rewrite N.mul_comm, N.mod_add by discriminate. rewrite N.mod_mod by discriminate. reflexivity.
Qed.

Lemma gen_upd_upd l : forall i v, gen_upd l i v = upd l i v.
Proof. induction l as [|x l IH]; intros [|i] v; cbn [gen_upd upd]; try reflexivity; try (rewrite IH; reflexivity). Qed.

Lemma gen_Uint32_Uint32 b0 b1 b2 b3 : byte_ok b0 -> byte_ok b1 -> byte_ok b2 -> byte_ok b3 ->
  gen_Uint32 b0 b1 b2 b3 = Uint32 b0 b1 b2 b3.
Proof.
  unfold byte_ok, gen_Uint32, Uint32. change (2 ^ 8) with 256. intros H0 H1 H2 H3.
  rewrite !N.shiftl_mul_pow2. change (2 ^ 16) with 65536. change (2 ^ 24) with 16777216.
  rewrite !N.mod_small by lia. reflexivity.
Qed.

(* ---------- ranges ------------------------------------------------------------------------------------------ *)
Lemma w32_mod a : w32 (a mod 4294967296).
Proof. unfold w32. apply N.mod_upper_bound. discriminate. Qed.

Lemma w32_div a b : w32 a -> w32 (a / b).
Proof.
  unfold w32. intros H. destruct (N.eq_dec b 0) as [->|Hb]; [destruct a; reflexivity|].
  eapply N.le_lt_trans; [apply N.div_le_upper_bound; [exact Hb|]|exact H]. nia.
Qed.

Lemma w32_sub a : w32 (4294967295 - a).
Proof. unfold w32. change (2 ^ 32) with 4294967296. lia. Qed.

Lemma w32_upd l i v : Forall w32 l -> w32 v -> Forall w32 (upd l i v).
Proof.
  revert i; induction l as [|x l IH]; intros [|i] Hl Hv; cbn [upd]; try exact Hl;
    inversion Hl; subst; constructor; auto.
Qed.

Lemma byte_nth l k : Forall byte_ok l -> byte_ok (nth k l 0).
Proof.
  intros H. destruct (nth_in_or_default k l 0) as [Hin|Hd].
  - rewrite Forall_forall in H. apply H; exact Hin.
  - rewrite Hd. reflexivity.
Qed.

Ltac solve_w32 :=
  repeat first
    [ assumption
    | apply w32_mod | apply add32_lt | apply rotl32_lt | apply w32_sub | apply trunc32_lt
    | apply nth_w32; assumption
    | apply lxor_lt | apply lor_lt | apply w32_div | apply land_lt | apply not32_lt
    | reflexivity ].

(* generated forms -> the word operations of the model, innermost occurrences included *)
Ltac canon :=
  repeat first
    [ rewrite gen_rot by solve_w32
    | rewrite gen_add
    | rewrite gen_not by solve_w32
    | rewrite rotl32_amount ].

(* ---------- folds ---------------------------------------------------------------------------------------------- *)
Lemma fold_left_inv_ext {S} (P : S -> Prop) (f g : S -> nat -> S) l : forall s,
  P s -> (forall s i, In i l -> P s -> f s i = g s i /\ P (g s i)) ->
  fold_left f l s = fold_left g l s /\ P (fold_left g l s).
Proof.
  induction l as [|x l IH]; intros s Hs H; cbn [fold_left]; [auto|].
  destruct (H s x (or_introl eq_refl) Hs) as [E Hp]. rewrite E.
  apply IH; [exact Hp|]. intros s' i Hi. apply H. right; exact Hi.
Qed.


(* ================= update: the five loops and the block body ================================================= *)
Lemma gen_update_loop1_spec w1 a b c d e f g h msg st i : Forall byte_ok msg ->
  gen_update_loop1 w1 a b c d e f g h msg st i =
  upd st i (Uint32 (nth (4 * i) msg 0) (nth (4 * i + 1) msg 0) (nth (4 * i + 2) msg 0) (nth (4 * i + 3) msg 0)).
Proof.
  intros Hm. unfold gen_update_loop1. cbv zeta. rewrite gen_upd_upd.
  rewrite gen_Uint32_Uint32 by (apply byte_nth; exact Hm). reflexivity.
Qed.

Lemma gen_update_loop1_w32 st i b0 b1 b2 b3 : Forall w32 st -> byte_ok b0 -> byte_ok b1 -> byte_ok b2 -> byte_ok b3 ->
  Forall w32 (upd st i (Uint32 b0 b1 b2 b3)).
Proof.
  intros Hs H0 H1 H2 H3. apply w32_upd; [exact Hs|]. rewrite Uint32_be32.
  apply (be32_arith b0 b1 b2 b3 H0 H1 H2 H3).
Qed.

Lemma gen_update_loop2_spec w1 a b c d e f g h msg st i : Forall w32 st ->
  gen_update_loop2 w1 a b c d e f g h msg st i =
  upd st i (N.lxor (N.lxor (p1 (N.lxor (N.lxor (nth (i - 16) st 0) (nth (i - 9) st 0)) (leftRotate (nth (i - 3) st 0) 15)))
                           (leftRotate (nth (i - 13) st 0) 7)) (nth (i - 6) st 0)) /\
  Forall w32 (upd st i (N.lxor (N.lxor (p1 (N.lxor (N.lxor (nth (i - 16) st 0) (nth (i - 9) st 0)) (leftRotate (nth (i - 3) st 0) 15)))
                           (leftRotate (nth (i - 13) st 0) 7)) (nth (i - 6) st 0))).
Proof.
  intros Hs. split.
  - unfold gen_update_loop2. cbv zeta. rewrite gen_upd_upd. unfold p1, leftRotate. canon. reflexivity.
  - apply w32_upd; [exact Hs|]. unfold p1, leftRotate. solve_w32.
Qed.

Lemma gen_update_loop3_spec w a b c d e f g h msg st i :
  gen_update_loop3 w a b c d e f g h msg st i = upd st i (N.lxor (nth i w 0) (nth (i + 4) w 0)).
Proof. unfold gen_update_loop3. cbv zeta. rewrite gen_upd_upd. reflexivity. Qed.

Lemma gen_update_loop4_spec w w1 a b c d e f g h msg st i : Forall w32 w -> Forall w32 w1 -> regs_w32 st ->
  gen_update_loop4 w w1 a b c d e f g h msg st i = round_lo w w1 st i /\ regs_w32 (round_lo w w1 st i).
Proof.
  intros Hw Hw1 Hr. destruct st as [[[[[[[A B] C] D] E] F] G] H].
  destruct Hr as (HA & HB & HC & HD & HE & HF & HG & HH). split.
  - unfold gen_update_loop4, round_lo, ff0, gg0, p0, leftRotate. cbv zeta. canon. reflexivity.
  - unfold round_lo, ff0, gg0, p0, leftRotate, regs_w32. cbv zeta. repeat split; solve_w32.
Qed.

Lemma gen_update_loop5_spec w w1 a b c d e f g h msg st i : Forall w32 w -> Forall w32 w1 -> regs_w32 st ->
  gen_update_loop5 w w1 a b c d e f g h msg st i = round_hi w w1 st i /\ regs_w32 (round_hi w w1 st i).
Proof.
  intros Hw Hw1 Hr. destruct st as [[[[[[[A B] C] D] E] F] G] H].
  destruct Hr as (HA & HB & HC & HD & HE & HF & HG & HH). split.
  - unfold gen_update_loop5, round_hi, ff1, gg1, p0, leftRotate. cbv zeta. canon. reflexivity.
  - unfold round_hi, ff1, gg1, p0, leftRotate, regs_w32. cbv zeta. repeat split; solve_w32.
Qed.

Theorem gen_update_body_is_model w w1 a b c d e f g h msg :
  Forall w32 w -> Forall w32 w1 -> regs_w32 (a, b, c, d, e, f, g, h) -> Forall byte_ok msg ->
  gen_update_body w w1 a b c d e f g h msg = block_body w w1 (a, b, c, d, e, f, g, h) msg.
Proof.
  intros Hw Hw1 Hr Hm. unfold gen_update_body, block_body, load_w, expand_w, fill_w1.
  change (16 - 0)%nat with 16%nat. change (68 - 16)%nat with 52%nat. change (64 - 0)%nat with 64%nat.
  change (64 - 16)%nat with 48%nat.
  (* loop 1 *)
  destruct (fold_left_inv_ext (Forall w32) (gen_update_loop1 w1 a b c d e f g h msg)
              (fun w i => upd w i (Uint32 (nth (4 * i) msg 0) (nth (4 * i + 1) msg 0) (nth (4 * i + 2) msg 0) (nth (4 * i + 3) msg 0)))
              (seq 0 16) w Hw) as [E1 P1].
  { intros s i _ Hs. split; [apply gen_update_loop1_spec; exact Hm|].
    apply gen_update_loop1_w32; try exact Hs; apply byte_nth; exact Hm. }
  rewrite E1. clear E1. set (W1 := fold_left _ (seq 0 16) w) in *.
  (* loop 2 *)
  destruct (fold_left_inv_ext (Forall w32) (gen_update_loop2 w1 a b c d e f g h msg)
              (fun w i => upd w i (N.lxor (N.lxor (p1 (N.lxor (N.lxor (nth (i - 16) w 0) (nth (i - 9) w 0)) (leftRotate (nth (i - 3) w 0) 15)))
                           (leftRotate (nth (i - 13) w 0) 7)) (nth (i - 6) w 0)))
              (seq 16 52) W1 P1) as [E2 P2].
  { intros s i _ Hs. apply gen_update_loop2_spec; exact Hs. }
  rewrite E2. clear E2. set (W2 := fold_left _ (seq 16 52) W1) in *.
  (* loop 3 *)
  destruct (fold_left_inv_ext (Forall w32) (gen_update_loop3 W2 a b c d e f g h msg)
              (fun w1 i => upd w1 i (N.lxor (nth i W2 0) (nth (i + 4) W2 0))) (seq 0 64) w1 Hw1) as [E3 P3].
  { intros s i _ Hs. split; [apply gen_update_loop3_spec|]. apply w32_upd; [exact Hs|]. solve_w32. }
  rewrite E3. clear E3. set (W3 := fold_left _ (seq 0 64) w1) in *.
  (* loops 4 and 5 *)
  destruct (fold_left_inv_ext regs_w32 (gen_update_loop4 W2 W3 a b c d e f g h msg) (round_lo W2 W3) (seq 0 16)
              (a, b, c, d, e, f, g, h) Hr) as [E4 P4].
  { intros s i _ Hs. apply gen_update_loop4_spec; assumption. }
  cbv zeta. setoid_rewrite E4. clear E4. set (R4 := fold_left (round_lo W2 W3) (seq 0 16) (a, b, c, d, e, f, g, h)) in *.
  destruct R4 as [[[[[[[A4 B4] C4] D4] E4 ] F4] G4] H4] eqn:ER4.
  destruct (fold_left_inv_ext regs_w32 (gen_update_loop5 W2 W3 a b c d e f g h msg) (round_hi W2 W3) (seq 16 48)
              (A4, B4, C4, D4, E4, F4, G4, H4) P4) as [E5 _].
  { intros s i _ Hs. apply gen_update_loop5_spec; assumption. }
  setoid_rewrite E5. clear E5.
  destruct (fold_left (round_hi W2 W3) (seq 16 48) (A4, B4, C4, D4, E4, F4, G4, H4)) as [[[[[[[A5 B5] C5] D5] E5 ] F5] G5] H5].
  reflexivity.
Qed.

(* ================= update2: the five loops and the block body ================================================= *)
Lemma gen_update2_loop1_spec w1 a b c d e f g h msg st i : Forall byte_ok msg ->
  gen_update2_loop1 w1 a b c d e f g h msg st i =
  upd st i (Uint32 (nth (4 * i) msg 0) (nth (4 * i + 1) msg 0) (nth (4 * i + 2) msg 0) (nth (4 * i + 3) msg 0)).
Proof.
  intros Hm. unfold gen_update2_loop1. cbv zeta. rewrite gen_upd_upd.
  rewrite gen_Uint32_Uint32 by (apply byte_nth; exact Hm). reflexivity.
Qed.

Lemma gen_update2_loop1_w32 st i b0 b1 b2 b3 : Forall w32 st -> byte_ok b0 -> byte_ok b1 -> byte_ok b2 -> byte_ok b3 ->
  Forall w32 (upd st i (Uint32 b0 b1 b2 b3)).
Proof.
  intros Hs H0 H1 H2 H3. apply w32_upd; [exact Hs|]. rewrite Uint32_be32.
  apply (be32_arith b0 b1 b2 b3 H0 H1 H2 H3).
Qed.

Lemma gen_update2_loop2_spec w1 a b c d e f g h msg st i : Forall w32 st ->
  gen_update2_loop2 w1 a b c d e f g h msg st i =
  upd st i (N.lxor (N.lxor (p1 (N.lxor (N.lxor (nth (i - 16) st 0) (nth (i - 9) st 0)) (leftRotate (nth (i - 3) st 0) 15)))
                           (leftRotate (nth (i - 13) st 0) 7)) (nth (i - 6) st 0)) /\
  Forall w32 (upd st i (N.lxor (N.lxor (p1 (N.lxor (N.lxor (nth (i - 16) st 0) (nth (i - 9) st 0)) (leftRotate (nth (i - 3) st 0) 15)))
                           (leftRotate (nth (i - 13) st 0) 7)) (nth (i - 6) st 0))).
Proof.
  intros Hs. split.
  - unfold gen_update2_loop2. cbv zeta. rewrite gen_upd_upd. unfold p1, leftRotate. canon. reflexivity.
  - apply w32_upd; [exact Hs|]. unfold p1, leftRotate. solve_w32.
Qed.

Lemma gen_update2_loop3_spec w a b c d e f g h msg st i :
  gen_update2_loop3 w a b c d e f g h msg st i = upd st i (N.lxor (nth i w 0) (nth (i + 4) w 0)).
Proof. unfold gen_update2_loop3. cbv zeta. rewrite gen_upd_upd. reflexivity. Qed.

Lemma gen_update2_loop4_spec w w1 a b c d e f g h msg st i : Forall w32 w -> Forall w32 w1 -> regs_w32 st ->
  gen_update2_loop4 w w1 a b c d e f g h msg st i = round_lo w w1 st i /\ regs_w32 (round_lo w w1 st i).
Proof.
  intros Hw Hw1 Hr. destruct st as [[[[[[[A B] C] D] E] F] G] H].
  destruct Hr as (HA & HB & HC & HD & HE & HF & HG & HH). split.
  - unfold gen_update2_loop4, round_lo, ff0, gg0, p0, leftRotate. cbv zeta. canon. reflexivity.
  - unfold round_lo, ff0, gg0, p0, leftRotate, regs_w32. cbv zeta. repeat split; solve_w32.
Qed.

Lemma gen_update2_loop5_spec w w1 a b c d e f g h msg st i : Forall w32 w -> Forall w32 w1 -> regs_w32 st ->
  gen_update2_loop5 w w1 a b c d e f g h msg st i = round_hi w w1 st i /\ regs_w32 (round_hi w w1 st i).
Proof.
  intros Hw Hw1 Hr. destruct st as [[[[[[[A B] C] D] E] F] G] H].
  destruct Hr as (HA & HB & HC & HD & HE & HF & HG & HH). split.
  - unfold gen_update2_loop5, round_hi, ff1, gg1, p0, leftRotate. cbv zeta. canon. reflexivity.
  - unfold round_hi, ff1, gg1, p0, leftRotate, regs_w32. cbv zeta. repeat split; solve_w32.
Qed.

Theorem gen_update2_body_is_model w w1 a b c d e f g h msg :
  Forall w32 w -> Forall w32 w1 -> regs_w32 (a, b, c, d, e, f, g, h) -> Forall byte_ok msg ->
  gen_update2_body w w1 a b c d e f g h msg = block_body w w1 (a, b, c, d, e, f, g, h) msg.
Proof.
  intros Hw Hw1 Hr Hm. unfold gen_update2_body, block_body, load_w, expand_w, fill_w1.
  change (16 - 0)%nat with 16%nat. change (68 - 16)%nat with 52%nat. change (64 - 0)%nat with 64%nat.
  change (64 - 16)%nat with 48%nat.
  (* loop 1 *)
  destruct (fold_left_inv_ext (Forall w32) (gen_update2_loop1 w1 a b c d e f g h msg)
              (fun w i => upd w i (Uint32 (nth (4 * i) msg 0) (nth (4 * i + 1) msg 0) (nth (4 * i + 2) msg 0) (nth (4 * i + 3) msg 0)))
              (seq 0 16) w Hw) as [E1 P1].
  { intros s i _ Hs. split; [apply gen_update2_loop1_spec; exact Hm|].
    apply gen_update2_loop1_w32; try exact Hs; apply byte_nth; exact Hm. }
  rewrite E1. clear E1. set (W1 := fold_left _ (seq 0 16) w) in *.
  (* loop 2 *)
  destruct (fold_left_inv_ext (Forall w32) (gen_update2_loop2 w1 a b c d e f g h msg)
              (fun w i => upd w i (N.lxor (N.lxor (p1 (N.lxor (N.lxor (nth (i - 16) w 0) (nth (i - 9) w 0)) (leftRotate (nth (i - 3) w 0) 15)))
                           (leftRotate (nth (i - 13) w 0) 7)) (nth (i - 6) w 0)))
              (seq 16 52) W1 P1) as [E2 P2].
  { intros s i _ Hs. apply gen_update2_loop2_spec; exact Hs. }
  rewrite E2. clear E2. set (W2 := fold_left _ (seq 16 52) W1) in *.
  (* loop 3 *)
  destruct (fold_left_inv_ext (Forall w32) (gen_update2_loop3 W2 a b c d e f g h msg)
              (fun w1 i => upd w1 i (N.lxor (nth i W2 0) (nth (i + 4) W2 0))) (seq 0 64) w1 Hw1) as [E3 P3].
  { intros s i _ Hs. split; [apply gen_update2_loop3_spec|]. apply w32_upd; [exact Hs|]. solve_w32. }
  rewrite E3. clear E3. set (W3 := fold_left _ (seq 0 64) w1) in *.
  (* loops 4 and 5 *)
  destruct (fold_left_inv_ext regs_w32 (gen_update2_loop4 W2 W3 a b c d e f g h msg) (round_lo W2 W3) (seq 0 16)
              (a, b, c, d, e, f, g, h) Hr) as [E4 P4].
  { intros s i _ Hs. apply gen_update2_loop4_spec; assumption. }
  cbv zeta. setoid_rewrite E4. clear E4. set (R4 := fold_left (round_lo W2 W3) (seq 0 16) (a, b, c, d, e, f, g, h)) in *.
  destruct R4 as [[[[[[[A4 B4] C4] D4] E4 ] F4] G4] H4] eqn:ER4.
  destruct (fold_left_inv_ext regs_w32 (gen_update2_loop5 W2 W3 a b c d e f g h msg) (round_hi W2 W3) (seq 16 48)
              (A4, B4, C4, D4, E4, F4, G4, H4) P4) as [E5 _].
  { intros s i _ Hs. apply gen_update2_loop5_spec; assumption. }
  setoid_rewrite E5. clear E5.
  destruct (fold_left (round_hi W2 W3) (seq 16 48) (A4, B4, C4, D4, E4, F4, G4, H4)) as [[[[[[[A5 B5] C5] D5] E5 ] F5] G5] H5].
  reflexivity.
Qed.

(* ================= pad: the eight length bytes ============================================================ *)
Lemma gen_pad_length_is_model l msg :
  gen_pad_length l msg =
  (((((((msg ++ [uint8 (N.land (N.shiftr l 56) 0xff)]) ++ [uint8 (N.land (N.shiftr l 48) 0xff)]) ++
        [uint8 (N.land (N.shiftr l 40) 0xff)]) ++ [uint8 (N.land (N.shiftr l 32) 0xff)]) ++
        [uint8 (N.land (N.shiftr l 24) 0xff)]) ++ [uint8 (N.land (N.shiftr l 16) 0xff)]) ++
        [uint8 (N.land (N.shiftr l 8) 0xff)]) ++ [uint8 (N.land (N.shiftr l 0) 0xff)].
Proof.
  gen_pad_unfold. cbv zeta.
  cbn [fold_left seq Nat.sub]. cbv zeta.
  repeat match goal with
  | |- context [N.of_nat ?n] => let v := eval vm_compute in (N.of_nat n) in change (N.of_nat n) with v
  end.
  unfold uint8. change 0xff with (N.ones 8). rewrite !N.land_ones, !N.shiftr_div_pow2.
  change (2 ^ 8) with 256. reflexivity.
Qed.

(* so the model's pad is: 0x80, the zero fill, then the generated length bytes, then the check *)
Lemma pad_uses_generated_length s :
  pad s = (do msg <- pad_loop 64 (s_unhandleMsg s ++ [0x80]);
           let msg := gen_pad_length (s_length s) msg in
           if negb (length msg mod 64 =? 0)%nat then Panic else Ok msg).
Proof.
  unfold pad. destruct (pad_loop 64 (s_unhandleMsg s ++ [128])) as [m|e| |]; cbn [obind]; try reflexivity.
  rewrite gen_pad_length_is_model. reflexivity.
Qed.
