(* GM/T 0004-2012 (SM3 cryptographic hash algorithm), transcribed over bytes.  Never looks at the
   Go code.  Section numbers refer to the standard.

   Interface (stable; imported and extracted by other families):
     sm3_iv  : list N                       the 8 words of IV                             (4.1)
     sm3_pad : list N -> list N             message bytes -> padded message bytes         (5.2)
     sm3_cf  : list N -> list N -> list N   8-word V(i), 64-byte block B(i) -> V(i+1)     (5.3.2, 5.3.3)
     sm3     : list N -> list N             message bytes -> the 32 digest bytes          (5.3.1, 5.4)

   Words are N below 2^32; every operation that can leave that range is followed by [trunc32]
   (= reduction mod 2^32, lemma [trunc32_mod]; written with N.land so the extracted code is fast).
   Bytes are N below 2^8.  The standard is defined for messages shorter than 2^64 bits; [sm3_pad]
   writes the low 64 bits of the bit length, so [sm3] is the standard's function for messages of
   fewer than 2^61 bytes.

   Everything that walks over the message ([lenN], [tl_app], [sm3_blocks]) is tail recursive, so the
   extracted [sm3] runs on multi-megabyte inputs without growing the stack. *)
From Coq Require Import List NArith Arith Lia.
Import ListNotations.
Open Scope N_scope.

Notation byte := N (only parsing).

(* ---------- 32-bit words (3, 4.4) ------------------------------------------------------------ *)
Definition mask32 : N := 0xffffffff.
Definition trunc32 (x : N) : N := N.land x mask32.

Lemma trunc32_mod x : trunc32 x = x mod 2 ^ 32.
Proof. unfold trunc32, mask32. change 0xffffffff with (N.ones 32). apply N.land_ones. Qed.

Definition add32 (a b : N) : N := trunc32 (a + b).                   (* + mod 2^32 *)
Definition not32 (a : N) : N := N.lxor a mask32.                      (* bitwise complement of a word *)
(* x <<< n, the rotation amount taken mod 32 (the standard writes T_j <<< j for j up to 63) *)
Definition rotl32 (x n : N) : N :=
  trunc32 (N.lor (N.shiftl x (n mod 32)) (N.shiftr x (32 - n mod 32))).

(* ---------- constants and boolean functions (4.1 - 4.4) -------------------------------------- *)
Definition sm3_iv : list N :=
  [0x7380166f; 0x4914b2b9; 0x172442d7; 0xda8a0600; 0xa96f30bc; 0x163138aa; 0xe38dee4d; 0xb0fb0e4e].

Definition T (j : nat) : N := if (j <? 16)%nat then 0x79cc4519 else 0x7a879d8a.

Definition FF (j : nat) (x y z : N) : N :=
  if (j <? 16)%nat then N.lxor (N.lxor x y) z
  else N.lor (N.lor (N.land x y) (N.land x z)) (N.land y z).

Definition GG (j : nat) (x y z : N) : N :=
  if (j <? 16)%nat then N.lxor (N.lxor x y) z
  else N.lor (N.land x y) (N.land (not32 x) z).

Definition P0 (x : N) : N := N.lxor (N.lxor x (rotl32 x 9)) (rotl32 x 17).
Definition P1 (x : N) : N := N.lxor (N.lxor x (rotl32 x 15)) (rotl32 x 23).

(* ---------- bytes <-> words, big endian (3) --------------------------------------------------- *)
Definition be32 (b0 b1 b2 b3 : byte) : N :=
  N.lor (N.lor (N.lor (N.shiftl b0 24) (N.shiftl b1 16)) (N.shiftl b2 8)) b3.

Fixpoint words_of_bytes (b : list byte) : list N :=
  match b with
  | b0 :: b1 :: b2 :: b3 :: r => be32 b0 b1 b2 b3 :: words_of_bytes r
  | _ => []
  end.

Definition bytes_of_word (w : N) : list byte :=
  [N.land (N.shiftr w 24) 0xff; N.land (N.shiftr w 16) 0xff; N.land (N.shiftr w 8) 0xff; N.land w 0xff].

Definition bytes_of_words (ws : list N) : list byte := flat_map bytes_of_word ws.

(* the 64-bit big-endian representation of (the low 64 bits of) l *)
Definition be64 (l : N) : list byte :=
  [N.land (N.shiftr l 56) 0xff; N.land (N.shiftr l 48) 0xff; N.land (N.shiftr l 40) 0xff;
   N.land (N.shiftr l 32) 0xff; N.land (N.shiftr l 24) 0xff; N.land (N.shiftr l 16) 0xff;
   N.land (N.shiftr l 8) 0xff; N.land l 0xff].

(* ---------- tail-recursive list helpers ------------------------------------------------------- *)
Definition lenN {A} (l : list A) : N := fold_left (fun n _ => N.succ n) l 0.
Definition tl_app {A} (a b : list A) : list A := rev_append (rev_append a []) b.

Lemma tl_app_app {A} (a b : list A) : tl_app a b = a ++ b.
Proof. unfold tl_app. rewrite !rev_append_rev, app_nil_r, rev_involutive. reflexivity. Qed.

Lemma lenN_length {A} (l : list A) : lenN l = N.of_nat (length l).
Proof.
  unfold lenN.
  assert (H : forall n, fold_left (fun n (_ : A) => N.succ n) l n = n + N.of_nat (length l)).
  { induction l as [|x l IH]; intros n; cbn [fold_left length].
    - lia.
    - rewrite IH. lia. }
  rewrite H. lia.
Qed.

(* ---------- 5.2 padding ------------------------------------------------------------------------
   message of l bits: append bit 1, then k zero bits, k the least with l+1+k = 448 (mod 512), then
   the 64-bit representation of l.  In bytes: 0x80, then (55 - len) mod 64 zero bytes, then 8 bytes. *)
Definition pad_zeros (len : N) : nat := N.to_nat ((119 - len mod 64) mod 64).

Definition sm3_pad (m : list byte) : list byte :=
  let len := lenN m in
  tl_app m (0x80 :: repeat 0 (pad_zeros len) ++ be64 (8 * len)).

(* ---------- 5.3.2 message expansion ------------------------------------------------------------
   W_0..W_15 = the block; W_j = P1(W_{j-16} xor W_{j-9} xor (W_{j-3} <<< 15)) xor (W_{j-13} <<< 7) xor W_{j-6}
   for j = 16..67; W'_j = W_j xor W_{j+4} for j = 0..63. *)
Definition W_next (W : list N) (j : nat) : N :=
  N.lxor (N.lxor (P1 (N.lxor (N.lxor (nth (j - 16) W 0) (nth (j - 9) W 0)) (rotl32 (nth (j - 3) W 0) 15)))
                 (rotl32 (nth (j - 13) W 0) 7))
         (nth (j - 6) W 0).

Definition expand (B : list byte) : list N :=
  fold_left (fun W j => W ++ [W_next W j]) (seq 16 52) (words_of_bytes B).

Definition W' (W : list N) (j : nat) : N := N.lxor (nth j W 0) (nth (j + 4) W 0).

(* ---------- 5.3.3 compression function --------------------------------------------------------- *)
Definition regs : Type := (N * N * N * N * N * N * N * N)%type.

Definition round (W : list N) (r : regs) (j : nat) : regs :=
  let '(A, B, C, D, E, F, G, H) := r in
  let SS1 := rotl32 (add32 (add32 (rotl32 A 12) E) (rotl32 (T j) (N.of_nat j))) 7 in
  let SS2 := N.lxor SS1 (rotl32 A 12) in
  let TT1 := add32 (add32 (add32 (FF j A B C) D) SS2) (W' W j) in
  let TT2 := add32 (add32 (add32 (GG j E F G) H) SS1) (nth j W 0) in
  (TT1, A, rotl32 B 9, C, P0 TT2, E, rotl32 F 19, G).

Definition sm3_cf (V : list N) (B : list byte) : list N :=
  match V with
  | [a; b; c; d; e; f; g; h] =>
    let W := expand B in
    let '(A1, B1, C1, D1, E1, F1, G1, H1) := fold_left (round W) (seq 0 64) (a, b, c, d, e, f, g, h) in
    [N.lxor a A1; N.lxor b B1; N.lxor c C1; N.lxor d D1; N.lxor e E1; N.lxor f F1; N.lxor g G1; N.lxor h H1]
  | _ => V
  end.

(* ---------- 5.3.1 iteration, 5.4 output ---------------------------------------------------------
   V(0) = IV, V(i+1) = CF(V(i), B(i)) over the 64-byte blocks B(i) of the padded message.
   [sm3_blocks fuel V m] absorbs the complete blocks of m; the fuel is any list at least as long as
   the number of blocks (the message itself is used), so the recursion is structural and tail. *)
Fixpoint sm3_blocks (fuel : list byte) (V : list N) (m : list byte) : list N :=
  match fuel with
  | [] => V
  | _ :: fuel' =>
    let b := firstn 64 m in
    if (length b =? 64)%nat then sm3_blocks fuel' (sm3_cf V b) (skipn 64 m) else V
  end.

Definition sm3_absorb (V : list N) (m : list byte) : list N := sm3_blocks m V m.

Definition sm3 (m : list byte) : list byte :=
  bytes_of_words (sm3_absorb sm3_iv (sm3_pad m)).

(* ---------- the standard's examples (tests of this transcription) ------------------------------ *)
(* A.1: "abc" *)
Example sm3_vector_abc :
  sm3 [0x61; 0x62; 0x63] =
  [0x66;0xc7;0xf0;0xf4; 0x62;0xee;0xed;0xd9; 0xd1;0xf2;0xd4;0x6b; 0xdc;0x10;0xe4;0xe2;
   0x41;0x67;0xc4;0x87; 0x5c;0xf2;0xf7;0xa2; 0x29;0x7d;0xa0;0x2b; 0x8f;0x4b;0xa8;0xe0].
Proof. vm_compute. reflexivity. Qed.

(* A.2: "abcd" repeated 16 times (one full block, so the padding is a block of its own) *)
Example sm3_vector_abcd16 :
  sm3 (concat (repeat [0x61; 0x62; 0x63; 0x64] 16)) =
  [0xde;0xbe;0x9f;0xf9; 0x22;0x75;0xb8;0xa1; 0x38;0x60;0x48;0x89; 0xc1;0x8e;0x5a;0x4d;
   0x6f;0xdb;0x70;0xe5; 0x38;0x7e;0x57;0x65; 0x29;0x3d;0xcb;0xa3; 0x9c;0x0c;0x57;0x32].
Proof. vm_compute. reflexivity. Qed.

(* A.1 intermediate values: the padded message and W_16..W_19 of the standard's table *)
Example sm3_pad_abc :
  sm3_pad [0x61; 0x62; 0x63] = [0x61; 0x62; 0x63; 0x80] ++ repeat 0 59 ++ [0x18].
Proof. vm_compute. reflexivity. Qed.

Example sm3_expand_abc :
  let W := expand (sm3_pad [0x61; 0x62; 0x63]) in
  (length W, firstn 4 (skipn 16 W)) = (68%nat, [0x9092e200; 0x00000000; 0x000c0606; 0x719c70ed]).
Proof. vm_compute. reflexivity. Qed.

Example sm3_empty :
  sm3 [] =
  [0x1a;0xb2;0x1d;0x83; 0x55;0xcf;0xa1;0x7f; 0x8e;0x61;0x19;0x48; 0x31;0xe8;0x1a;0x8f;
   0x22;0xbe;0xc8;0xc7; 0x28;0xfe;0xfb;0x74; 0x7e;0xd0;0x35;0xeb; 0x50;0x82;0xaa;0x2b].
Proof. vm_compute. reflexivity. Qed.
