(* Proofs about the model of sm3/sm3.go, part 1: the loop body of update/update2 (arrays w[68],
   w1[64], the two round loops) is the standard's compression function CF, and the block loop is the
   standard's iteration.  Property theorems are restated in Props/C04.v. *)
From Coq Require Import List NArith Arith Lia Bool.
From GmsmVerif Require Import Lib.Outcome SM3.SM3Spec SM3.SM3Model.
Import ListNotations.
Open Scope N_scope.

(* ---------- list / array facts ------------------------------------------------------------------ *)
Lemma upd_length l i v : length (upd l i v) = length l.
Proof.
  revert i; induction l as [|x l IH]; intros [|i]; cbn [upd length]; try reflexivity.
  rewrite IH; reflexivity.
Qed.

Lemma upd_app_here pre x post v : upd (pre ++ x :: post) (length pre) v = pre ++ v :: post.
Proof. induction pre as [|y pre IH]; cbn [app length upd]; [reflexivity|rewrite IH; reflexivity]. Qed.

Lemma fold_left_ext_in {A B} (f g : A -> B -> A) (l : list B) (a : A) :
  (forall x, In x l -> forall a, f a x = g a x) -> fold_left f l a = fold_left g l a.
Proof.
  revert a; induction l as [|x l IH]; intros a H; cbn [fold_left]; [reflexivity|].
  rewrite (H x (or_introl eq_refl)). apply IH. intros y Hy; apply H; right; exact Hy.
Qed.

Lemma fold_snoc_map {A} (g : nat -> A) (l : list nat) (W0 : list A) :
  fold_left (fun W j => W ++ [g j]) l W0 = W0 ++ map g l.
Proof.
  revert W0; induction l as [|j l IH]; intros W0; cbn [fold_left map].
  - rewrite app_nil_r; reflexivity.
  - rewrite IH, <- app_assoc; reflexivity.
Qed.

Lemma nth_map_seq {A} (g : nat -> A) (d : A) n a i :
  (i < n)%nat -> nth i (map g (seq a n)) d = g (a + i)%nat.
Proof.
  revert a i; induction n as [|n IH]; intros a i Hi; [lia|].
  destruct i as [|i]; cbn [seq map nth].
  - f_equal; lia.
  - rewrite IH by lia. f_equal; lia.
Qed.

(* an in-place loop "for i := j0; i < j0+n; i++ { w[i] = f(w, i) }" whose right-hand side only reads
   below i builds the same prefix as the functional "append the next element" recursion *)
Lemma fill_loop (f G : list N -> nat -> N) (m : nat) :
  (forall W rest, (m <= length W)%nat -> f (W ++ rest) (length W) = G W (length W)) ->
  forall n W rest, (n <= length rest)%nat -> (m <= length W)%nat ->
    fold_left (fun w i => upd w i (f w i)) (seq (length W) n) (W ++ rest) =
    fold_left (fun W j => W ++ [G W j]) (seq (length W) n) W ++ skipn n rest.
Proof.
  intros Hf n; induction n as [|n IH]; intros W rest Hn Hm; cbn [seq fold_left skipn].
  - reflexivity.
  - destruct rest as [|r0 rest]; [cbn in Hn; lia|].
    rewrite Hf by exact Hm. rewrite upd_app_here.
    replace (W ++ G W (length W) :: rest) with ((W ++ [G W (length W)]) ++ rest)
      by (rewrite <- app_assoc; reflexivity).
    replace (S (length W)) with (length (W ++ [G W (length W)])) by (rewrite app_length; cbn; lia).
    rewrite IH; [reflexivity| cbn in Hn; lia | rewrite app_length; lia].
Qed.

(* ---------- bytes to words ---------------------------------------------------------------------- *)
Lemma Uint32_be32 b0 b1 b2 b3 : Uint32 b0 b1 b2 b3 = be32 b0 b1 b2 b3.
Proof.
  unfold Uint32, be32.
  rewrite (N.lor_comm (N.lor (N.lor b3 (N.shiftl b2 8)) (N.shiftl b1 16)) (N.shiftl b0 24)).
  rewrite (N.lor_comm (N.lor b3 (N.shiftl b2 8)) (N.shiftl b1 16)).
  rewrite (N.lor_comm b3 (N.shiftl b2 8)).
  rewrite !N.lor_assoc. reflexivity.
Qed.

Lemma words_of_bytes_nth n : forall msg, (4 * n <= length msg)%nat ->
  map (fun i => Uint32 (nth (4 * i) msg 0) (nth (4 * i + 1) msg 0) (nth (4 * i + 2) msg 0) (nth (4 * i + 3) msg 0))
      (seq 0 n) = words_of_bytes (firstn (4 * n) msg).
Proof.
  induction n as [|n IH]; intros msg Hl.
  - reflexivity.
  - destruct msg as [|b0 [|b1 [|b2 [|b3 r]]]]; cbn [length] in Hl; try lia.
    replace (4 * S n)%nat with (S (S (S (S (4 * n))))) by lia.
    cbn [firstn words_of_bytes seq map].
    rewrite <- seq_shift, map_map. f_equal.
    + apply Uint32_be32.
    + rewrite <- IH by lia. apply map_ext; intros i.
      replace (4 * S i)%nat with (S (S (S (S (4 * i))))) by lia. reflexivity.
Qed.

(* ---------- the three array loops ---------------------------------------------------------------- *)
Lemma load_w_spec msg w : (64 <= length msg)%nat -> length w = 68%nat ->
  load_w msg w = words_of_bytes (firstn 64 msg) ++ skipn 16 w.
Proof.
  intros Hm Hw. unfold load_w.
  pose (g := fun i : nat => Uint32 (nth (4 * i) msg 0) (nth (4 * i + 1) msg 0) (nth (4 * i + 2) msg 0) (nth (4 * i + 3) msg 0)).
  pose proof (fill_loop (fun _ i => g i) (fun _ i => g i) 0 (fun _ _ _ => eq_refl) 16 [] w) as H.
  cbn [length app] in H. unfold g in H. rewrite H by lia. clear H.
  rewrite fold_snoc_map. cbn [app].
  rewrite (words_of_bytes_nth 16 msg) by lia. reflexivity.
Qed.

Lemma words_length n : forall b, length b = (4 * n)%nat -> length (words_of_bytes b) = n.
Proof.
  induction n as [|n IH]; intros b Hb.
  - destruct b; [reflexivity|cbn in Hb; lia].
  - destruct b as [|b0 [|b1 [|b2 [|b3 r]]]]; cbn [length] in Hb; try lia.
    cbn [words_of_bytes length]. rewrite IH by lia. reflexivity.
Qed.

Lemma expand_fold_length l : forall W, length (fold_left (fun W j => W ++ [W_next W j]) l W) = (length W + length l)%nat.
Proof.
  induction l as [|j l IH]; intros W; cbn [fold_left length]; [lia|].
  rewrite IH, app_length; cbn; lia.
Qed.

Lemma expand_length B : length B = 64%nat -> length (expand B) = 68%nat.
Proof.
  intros HB. unfold expand. rewrite expand_fold_length, seq_length, (words_length 16); [reflexivity|exact HB].
Qed.

Lemma expand_w_spec Wd rest : length Wd = 16%nat -> length rest = 52%nat ->
  expand_w (Wd ++ rest) = fold_left (fun W j => W ++ [W_next W j]) (seq 16 52) Wd.
Proof.
  intros HW Hr. unfold expand_w.
  assert (Hf : forall W r, (1 <= length W)%nat ->
    (fun w i => N.lxor (N.lxor (p1 (N.lxor (N.lxor (nth (i - 16) w 0) (nth (i - 9) w 0)) (leftRotate (nth (i - 3) w 0) 15)))
                               (leftRotate (nth (i - 13) w 0) 7)) (nth (i - 6) w 0)) (W ++ r) (length W)
    = W_next W (length W)).
  { intros W r Hm. unfold W_next, p1, P1, leftRotate. rewrite !app_nth1 by lia. reflexivity. }
  pose proof (fill_loop _ W_next 1 Hf 52 Wd rest) as H.
  cbv beta in H. rewrite HW in H. rewrite H by lia.
  rewrite skipn_all2 by lia. apply app_nil_r.
Qed.

Lemma expand_w_expand B rest : length (words_of_bytes B) = 16%nat -> length rest = 52%nat ->
  expand_w (words_of_bytes B ++ rest) = expand B.
Proof. intros HW Hr. unfold expand. apply expand_w_spec; assumption. Qed.

Lemma fill_w1_spec w w1 : length w1 = 64%nat ->
  fill_w1 w w1 = map (fun i => N.lxor (nth i w 0) (nth (i + 4) w 0)) (seq 0 64).
Proof.
  intros H1. unfold fill_w1.
  pose (g := fun i : nat => N.lxor (nth i w 0) (nth (i + 4) w 0)).
  pose proof (fill_loop (fun _ i => g i) (fun _ i => g i) 0 (fun _ _ _ => eq_refl) 64 [] w1) as H.
  cbn [length app] in H. unfold g in H. rewrite H by lia. clear H.
  rewrite fold_snoc_map. cbn [app]. rewrite skipn_all2 by lia. apply app_nil_r.
Qed.

(* ---------- the two round loops ------------------------------------------------------------------ *)
Lemma round_lo_spec W r i : (i < 16)%nat ->
  round_lo W (map (fun i => N.lxor (nth i W 0) (nth (i + 4) W 0)) (seq 0 64)) r i = round W r i.
Proof.
  intros Hi. destruct r as [[[[[[[A B] C] D] E] F] G] H].
  unfold round_lo, round, T, FF, GG, W', ff0, gg0, p0, P0, leftRotate.
  rewrite (proj2 (Nat.ltb_lt i 16) Hi). rewrite nth_map_seq by lia. reflexivity.
Qed.

Lemma round_hi_spec W r i : (16 <= i < 64)%nat ->
  round_hi W (map (fun i => N.lxor (nth i W 0) (nth (i + 4) W 0)) (seq 0 64)) r i = round W r i.
Proof.
  intros Hi. destruct r as [[[[[[[A B] C] D] E] F] G] H].
  unfold round_hi, round, T, FF, GG, W', ff1, gg1, p0, P0, leftRotate.
  rewrite (proj2 (Nat.ltb_ge i 16) (proj1 Hi)). rewrite nth_map_seq by lia. reflexivity.
Qed.

(* ---------- the loop body is CF ------------------------------------------------------------------- *)
Lemma block_body_spec w w1 r msg :
  length w = 68%nat -> length w1 = 64%nat -> (64 <= length msg)%nat ->
  exists w' w1' r', block_body w w1 r msg = (w', w1', r') /\
    length w' = 68%nat /\ length w1' = 64%nat /\
    digest_of_regs r' = sm3_cf (digest_of_regs r) (firstn 64 msg).
Proof.
  intros Hw Hw1 Hm. destruct r as [[[[[[[a b] c] d] e] f] g] h].
  unfold block_body.
  rewrite (load_w_spec msg w Hm Hw).
  assert (HB : length (firstn 64 msg) = 64%nat) by (rewrite firstn_length; lia).
  rewrite expand_w_expand; [| apply (words_length 16); exact HB | rewrite skipn_length; lia].
  set (W := expand (firstn 64 msg)).
  rewrite (fill_w1_spec W w1 Hw1).
  set (W1 := map (fun i => N.lxor (nth i W 0) (nth (i + 4) W 0)) (seq 0 64)).
  rewrite (fold_left_ext_in (round_lo W W1) (round W) (seq 0 16))
    by (intros x Hx r0; apply in_seq in Hx; apply round_lo_spec; lia).
  rewrite (fold_left_ext_in (round_hi W W1) (round W) (seq 16 48))
    by (intros x Hx r0; apply in_seq in Hx; apply round_hi_spec; lia).
  rewrite <- fold_left_app.
  change (seq 0 16 ++ seq 16 48) with (seq 0 64).
  cbn [digest_of_regs sm3_cf]. fold W.
  destruct (fold_left (round W) (seq 0 64) (a, b, c, d, e, f, g, h)) as [[[[[[[A1 B1] C1] D1] E1] F1] G1] H1].
  eexists _, _, _. split; [reflexivity|]. split; [|split].
  - subst W. apply expand_length; exact HB.
  - subst W1. rewrite map_length, seq_length. reflexivity.
  - reflexivity.
Qed.

(* ---------- the block loop is the iteration ---------------------------------------------------- *)
Lemma ge64_true msg : ge64 msg = true -> (64 <= length msg)%nat.
Proof.
  unfold ge64. intros H. apply Nat.eqb_eq in H. rewrite firstn_length in H. lia.
Qed.

Lemma block_loop_spec fuel : forall w w1 r msg,
  length w = 68%nat -> length w1 = 64%nat ->
  digest_of_regs (block_loop fuel w w1 r msg) = sm3_blocks fuel (digest_of_regs r) msg.
Proof.
  induction fuel as [|x fuel IH]; intros w w1 r msg Hw Hw1; cbn [block_loop sm3_blocks].
  - reflexivity.
  - fold (ge64 msg). destruct (ge64 msg) eqn:Hg; [|reflexivity].
    destruct (block_body_spec w w1 r msg Hw Hw1 (ge64_true msg Hg)) as (w' & w1' & r' & Hb & Hw' & Hw1' & Hr).
    rewrite Hb. rewrite IH by assumption. rewrite Hr. reflexivity.
Qed.

Lemma digest_regs_roundtrip V : length V = 8%nat -> digest_of_regs (regs_of_digest V) = V.
Proof.
  intros H. destruct V as [|a [|b [|c [|d [|e [|f [|g [|h [|x V]]]]]]]]]; cbn in H; try lia. reflexivity.
Qed.

Lemma update2_spec V l u msg : length V = 8%nat -> update2 (mkSM3 V l u) msg = sm3_absorb V msg.
Proof.
  intros HV. unfold update2, sm3_absorb. cbn [s_digest].
  rewrite block_loop_spec by (unfold zero_w, zero_w1; apply repeat_length).
  rewrite digest_regs_roundtrip by exact HV. reflexivity.
Qed.

Lemma update_spec V l u msg : length V = 8%nat -> update (mkSM3 V l u) msg = mkSM3 (sm3_absorb V msg) l u.
Proof.
  intros HV. unfold update. cbn [s_digest s_length s_unhandleMsg]. f_equal.
  apply (update2_spec V l u msg HV).
Qed.
