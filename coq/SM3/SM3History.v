(* Proofs about the model of sm3/sm3.go, part 2: every reachable state of the hash object is a
   function [st written] of the bytes written since the last Reset; Write, Sum, Reset act on it as
   the hash.Hash contract over the GM/T 0004 digest says.  Restated in Props/C04.v. *)
From Coq Require Import List NArith Arith ZArith Lia ZifyN ZifyNat ZifyBool Bool.
From GmsmVerif Require Import Lib.Outcome SM3.SM3Spec SM3.SM3Model SM3.SM3Proofs SM3.HashSpec.
Import ListNotations.
Open Scope N_scope.


(* ---------- shapes -------------------------------------------------------------------------------- *)
Lemma sm3_cf_length V B : length V = 8%nat -> length (sm3_cf V B) = 8%nat.
Proof.
  intros H. destruct V as [|a [|b [|c [|d [|e [|f [|g [|h [|x V]]]]]]]]]; cbn in H; try lia.
  unfold sm3_cf. cbv zeta.
  destruct (fold_left (round (expand B)) (seq 0 64) (a, b, c, d, e, f, g, h)) as [[[[[[[A1 B1] C1] D1] E1] F1] G1] H1].
  reflexivity.
Qed.

Lemma sm3_blocks_length fuel : forall V m, length V = 8%nat -> length (sm3_blocks fuel V m) = 8%nat.
Proof.
  induction fuel as [|x fuel IH]; intros V m H; cbn [sm3_blocks]; [exact H|].
  destruct (length (firstn 64 m) =? 64)%nat; [|exact H].
  apply IH. apply sm3_cf_length; exact H.
Qed.

Lemma sm3_absorb_length V m : length V = 8%nat -> length (sm3_absorb V m) = 8%nat.
Proof. apply sm3_blocks_length. Qed.

Lemma sm3_length m : length (sm3 m) = 32%nat.
Proof.
  unfold sm3. pose proof (sm3_absorb_length sm3_iv (sm3_pad m) eq_refl) as H.
  destruct (sm3_absorb sm3_iv (sm3_pad m)) as [|a [|b [|c [|d [|e [|f [|g [|h [|x V]]]]]]]]]; cbn in H; try lia.
  reflexivity.
Qed.

(* ---------- the iteration over blocks ------------------------------------------------------------ *)
Lemma sm3_blocks_fuel f1 : forall f2 V m, (length m <= length f1)%nat -> (length m <= length f2)%nat ->
  sm3_blocks f1 V m = sm3_blocks f2 V m.
Proof.
  induction f1 as [|x f1 IH]; intros f2 V m H1 H2.
  - destruct m; [|cbn in H1; lia]. destruct f2; reflexivity.
  - destruct f2 as [|y f2].
    + destruct m; [|cbn in H2; lia]. reflexivity.
    + cbn [sm3_blocks]. destruct (length (firstn 64 m) =? 64)%nat eqn:E; [|reflexivity].
      apply Nat.eqb_eq in E. rewrite firstn_length in E.
      apply IH; rewrite skipn_length; cbn [length] in *; lia.
Qed.

Lemma absorb_step V b m : length b = 64%nat -> sm3_absorb V (b ++ m) = sm3_absorb (sm3_cf V b) m.
Proof.
  intros Hb. unfold sm3_absorb.
  destruct b as [|x b']; [cbn in Hb; lia|].
  change ((x :: b') ++ m) with (x :: (b' ++ m)) at 1. cbn [sm3_blocks].
  assert (E1 : firstn 64 ((x :: b') ++ m) = x :: b').
  { rewrite <- Hb. rewrite firstn_app, Nat.sub_diag, firstn_all. cbn [firstn]. apply app_nil_r. }
  assert (E2 : skipn 64 ((x :: b') ++ m) = m).
  { rewrite <- Hb. rewrite skipn_app, Nat.sub_diag, skipn_all. reflexivity. }
  rewrite E1, E2, Hb. cbn [Nat.eqb].
  apply sm3_blocks_fuel; rewrite ?app_length; lia.
Qed.

Lemma absorb_short V m : (length m < 64)%nat -> sm3_absorb V m = V.
Proof.
  intros H. unfold sm3_absorb. destruct m as [|x m]; [reflexivity|].
  cbn [sm3_blocks]. destruct (length (firstn 64 (x :: m)) =? 64)%nat eqn:E; [|reflexivity].
  apply Nat.eqb_eq in E. rewrite firstn_length in E. lia.
Qed.

Lemma absorb_app k : forall a V m, length a = (64 * k)%nat ->
  sm3_absorb V (a ++ m) = sm3_absorb (sm3_absorb V a) m.
Proof.
  induction k as [|k IH]; intros a V m Ha.
  - destruct a; [|cbn in Ha; lia]. reflexivity.
  - rewrite <- (firstn_skipn 64 a).
    assert (H1 : length (firstn 64 a) = 64%nat) by (rewrite firstn_length; lia).
    assert (H2 : length (skipn 64 a) = (64 * k)%nat) by (rewrite skipn_length; lia).
    rewrite <- app_assoc.
    rewrite (absorb_step V (firstn 64 a) (skipn 64 a ++ m) H1).
    rewrite (absorb_step V (firstn 64 a) (skipn 64 a) H1). apply IH; exact H2.
Qed.

(* ---------- complete blocks and tail of the message written so far ------------------------------- *)
Definition hd64 (w : list N) : list N := firstn (64 * (length w / 64)) w.
Definition tl64 (w : list N) : list N := skipn (64 * (length w / 64)) w.

Lemma hd_tl w : w = hd64 w ++ tl64 w.
Proof. unfold hd64, tl64. symmetry. apply firstn_skipn. Qed.

Lemma hd64_length w : length (hd64 w) = (64 * (length w / 64))%nat.
Proof. unfold hd64. rewrite firstn_length. lia. Qed.

Lemma tl64_length w : length (tl64 w) = (length w mod 64)%nat.
Proof. unfold tl64. rewrite skipn_length. lia. Qed.

Lemma absorb_hd V w : sm3_absorb V w = sm3_absorb V (hd64 w).
Proof.
  rewrite (hd_tl w) at 1. rewrite (absorb_app (length w / 64)) by apply hd64_length.
  apply absorb_short. rewrite tl64_length. lia.
Qed.

Lemma absorb_resume V w x : sm3_absorb V (w ++ x) = sm3_absorb (sm3_absorb V w) (tl64 w ++ x).
Proof.
  assert (E : w ++ x = hd64 w ++ (tl64 w ++ x)) by (rewrite app_assoc, <- hd_tl; reflexivity).
  rewrite E. rewrite (absorb_app (length w / 64)) by apply hd64_length.
  rewrite <- absorb_hd. reflexivity.
Qed.

(* ---------- the state after writing w (since the last Reset) -------------------------------------- *)
Definition st (w : list N) : SM3 :=
  mkSM3 (sm3_absorb sm3_iv w) (uint64 (8 * N.of_nat (length w))) (tl64 w).

Lemma st_nil : st [] = init.
Proof. reflexivity. Qed.

Lemma Reset_st s : Reset s = st [].
Proof. reflexivity. Qed.

Lemma Write_spec w p : Write (st w) p = (st (w ++ p), N.of_nat (length p)).
Proof.
  unfold Write, st. cbn [s_digest s_length s_unhandleMsg].
  rewrite update_spec by (apply sm3_absorb_length; reflexivity).
  cbn [s_digest s_length s_unhandleMsg].
  f_equal; [|apply lenN_length]. f_equal.
  - symmetry. apply absorb_resume.
  - unfold uint64. rewrite lenN_length, app_length, Nat2N.inj_add.
    rewrite <- N.add_mod by (apply N.pow_nonzero; discriminate). f_equal. lia.
  - set (X := tl64 w ++ p).
    assert (E : w ++ p = hd64 w ++ X) by (unfold X; rewrite app_assoc, <- hd_tl; reflexivity).
    unfold tl64. rewrite E. rewrite app_length, hd64_length.
    rewrite skipn_app, hd64_length.
    rewrite (@skipn_all2 N _ (hd64 w)) by (rewrite hd64_length; lia).
    cbn [app]. unfold BlockSize. f_equal. lia.
Qed.

(* ---------- pad ------------------------------------------------------------------------------------ *)
Lemma pad_loop_spec z : forall fuel msg,
  (forall i, (i < z)%nat -> ((length msg + i) mod 64 <> 56)%nat) ->
  ((length msg + z) mod 64 = 56)%nat -> (z < fuel)%nat ->
  pad_loop fuel msg = Ok (msg ++ repeat 0 z).
Proof.
  induction z as [|z IH]; intros fuel msg Hlt Heq Hf; (destruct fuel as [|fuel]; [lia|]); cbn [pad_loop repeat].
  - rewrite Nat.add_0_r in Heq. rewrite Heq. cbn [Nat.eqb]. rewrite app_nil_r. reflexivity.
  - pose proof (Hlt 0%nat ltac:(lia)) as H0. rewrite Nat.add_0_r in H0.
    apply Nat.eqb_neq in H0. rewrite H0.
    rewrite IH.
    + rewrite <- app_assoc. reflexivity.
    + intros i Hi. rewrite app_length. cbn [length]. specialize (Hlt (S i) ltac:(lia)).
      replace (length msg + 1 + i)%nat with (length msg + S i)%nat by lia. exact Hlt.
    + rewrite app_length. cbn [length]. replace (length msg + 1 + z)%nat with (length msg + S z)%nat by lia. exact Heq.
    + lia.
Qed.

Lemma byte_of_uint64 L k : k + 8 <= 64 ->
  uint8 (N.land (N.shiftr (uint64 L) k) 0xff) = N.land (N.shiftr L k) 0xff.
Proof.
  intros Hk. unfold uint8, uint64. rewrite <- N.land_assoc, N.land_diag.
  apply N.bits_inj; intros i. rewrite !N.land_spec, !N.shiftr_spec'.
  destruct (N.ltb_spec i 8) as [Hi|Hi].
  - rewrite N.mod_pow2_bits_low by lia. reflexivity.
  - change 0xff with (N.ones 8). rewrite N.ones_spec_high by exact Hi. rewrite !andb_false_r. reflexivity.
Qed.

Lemma pad_zeros_nat (w : list N) : pad_zeros (lenN w) = ((119 - length w mod 64) mod 64)%nat.
Proof. unfold pad_zeros. rewrite lenN_length. lia. Qed.

Lemma pad_spec w :
  pad (st w) = Ok (tl64 w ++ 0x80 :: repeat 0 (pad_zeros (lenN w)) ++ be64 (8 * lenN w)).
Proof.
  unfold pad, st. cbn [s_unhandleMsg s_length].
  pose proof (tl64_length w) as Ht. pose proof (pad_zeros_nat w) as Hz.
  rewrite (pad_loop_spec (pad_zeros (lenN w))).
  - cbn [obind]. rewrite !byte_of_uint64 by lia.
    repeat rewrite <- app_assoc. cbn [app].
    rewrite <- lenN_length. rewrite N.shiftr_0_r. fold (be64 (8 * lenN w)).
    match goal with |- (if negb (?n =? 0)%nat then _ else _) = _ => replace n with 0%nat end.
    + reflexivity.
    + rewrite app_length. cbn [length]. rewrite app_length, repeat_length. cbn [be64 length]. lia.
  - intros i Hi. rewrite app_length. cbn [length]. lia.
  - rewrite app_length. cbn [length]. lia.
  - lia.
Qed.

Lemma Sum_spec w i : Sum (st w) i = Ok (i ++ sm3 w).
Proof.
  unfold Sum. rewrite pad_spec. cbn [obind]. do 2 f_equal.
  unfold st. rewrite update2_spec by (apply sm3_absorb_length; reflexivity).
  unfold sm3, bytes_of_words. change PutUint32 with bytes_of_word. f_equal.
  unfold sm3_pad. rewrite tl_app_app. symmetry. apply absorb_resume.
Qed.

(* ---------- histories ------------------------------------------------------------------------------ *)
Lemma run_st ops : forall w, run (st w) ops = (st (ref_written w ops), ref_run sm3 w ops).
Proof.
  induction ops as [|[p|i|] ops IH]; intros w; cbn [run ref_run ref_written step].
  - reflexivity.
  - rewrite Write_spec, IH. reflexivity.
  - rewrite Sum_spec, IH. reflexivity.
  - rewrite Reset_st, IH. reflexivity.
Qed.

Lemma run_init ops : run init ops = (st (ref_written [] ops), ref_run sm3 [] ops).
Proof. rewrite <- st_nil. apply run_st. Qed.

Lemma st_invariant w :
  (length (s_unhandleMsg (st w)) < 64)%nat /\
  s_length (st w) = (8 * N.of_nat (length w)) mod 2 ^ 64 /\
  s_digest (st w) = sm3_absorb sm3_iv w /\
  s_unhandleMsg (st w) = skipn (64 * (length w / 64)) w.
Proof.
  unfold st. cbn [s_unhandleMsg s_length s_digest]. rewrite tl64_length.
  repeat split. lia.
Qed.

Lemma history_invariant ops :
  let written := ref_written [] ops in
  let s := fst (run init ops) in
  snd (run init ops) = ref_run sm3 [] ops /\
  (length (s_unhandleMsg s) < 64)%nat /\
  s_length s = (8 * N.of_nat (length written)) mod 2 ^ 64 /\
  s_digest s = sm3_absorb sm3_iv written /\
  s_unhandleMsg s = skipn (64 * (length written / 64)) written.
Proof.
  cbv zeta. rewrite run_init. cbn [fst snd]. split; [reflexivity|apply st_invariant].
Qed.

Lemma Sum_reachable ops i : Sum (fst (run init ops)) i = Ok (i ++ sm3 (ref_written [] ops)).
Proof. rewrite run_init. cbn [fst]. apply Sum_spec. Qed.

Lemma ref_written_writes chunks : forall w, ref_written w (map OpWrite chunks) = w ++ concat chunks.
Proof.
  induction chunks as [|c chunks IH]; intros w; cbn [map ref_written concat].
  - rewrite app_nil_r; reflexivity.
  - rewrite IH, app_assoc. reflexivity.
Qed.

Lemma chunked_sum chunks i :
  Sum (fst (run init (map OpWrite chunks))) i = Ok (i ++ sm3 (concat chunks)).
Proof. rewrite Sum_reachable, ref_written_writes. reflexivity. Qed.

Lemma Sm3Sum_spec data : Sm3Sum data = Ok (sm3 data).
Proof. unfold Sm3Sum. rewrite Reset_st, Write_spec. cbn [fst app]. apply Sum_spec. Qed.

Lemma length_counter_exact w : (N.of_nat (length w) < 2 ^ 61) -> s_length (st w) = 8 * N.of_nat (length w).
Proof.
  intros H. unfold st. cbn [s_length]. unfold uint64. apply N.mod_small.
  change (2 ^ 64) with (8 * 2 ^ 61). lia.
Qed.
