(* Go 1.23 crypto/hmac with BOTH paths of its Reset / Sum, over a hash object that may or may not
   implement encoding.BinaryMarshaler / BinaryUnmarshaler.  No proofs in this file.

     type hmac struct { opad, ipad []byte; outer, inner hash.Hash; marshaled bool }

   Reset: if h.marshaled { inner.UnmarshalBinary(h.ipad); return }
          inner.Reset(); inner.Write(h.ipad)
          if inner or outer is not marshalable { return }
          imarshal := inner.MarshalBinary(); outer.Reset(); outer.Write(h.opad); omarshal := outer.MarshalBinary()
          h.ipad = imarshal; h.opad = omarshal; h.marshaled = true       (the pads are REPLACED by states)
   Sum:   in = inner.Sum(in)
          if h.marshaled { outer.UnmarshalBinary(h.opad) } else { outer.Reset(); outer.Write(h.opad) }
          outer.Write(in[origLen:]); return outer.Sum(in[:origLen])

   [marshalable] says whether the hash implements the two interfaces.  For *sm3.SM3 it does not (a fact the
   driver checks on every run with a type assertion), so crypto/hmac takes the path modelled in SM3Model.v;
   this file shows what would happen if it did: MarshalBinary / UnmarshalBinary are modelled as an exact
   snapshot / restore of the state (their contract), and errors of MarshalBinary as never occurring. *)
From Coq Require Import List NArith Arith.
From GmsmVerif Require Import Lib.Outcome SM3.SM3Spec SM3.SM3Model.
Import ListNotations.
Open Scope N_scope.

(* the contents of hmac.ipad / hmac.opad: the padded key, or (after the first Reset on the fast path) a marshaled state *)
Inductive padst : Type :=
| PadBytes (b : list N)
| Marshaled (s : SM3).

Record hmacM : Type := mkHmacM {
  m_opad : padst;
  m_ipad : padst;
  m_outer : SM3;
  m_inner : SM3;
  m_marshaled : bool
}.

Section WithMarshalable.
  Variable marshalable : bool.

  Definition hmacM_New (key : list N) : outcome hmacM :=
    do h <- hmac_New key;
    Ok (mkHmacM (PadBytes (h_opad h)) (PadBytes (h_ipad h)) (h_outer h) (h_inner h) false).

  Definition hmacM_Write (h : hmacM) (p : list N) : hmacM * N :=
    let '(inner, n) := Write (m_inner h) p in
    (mkHmacM (m_opad h) (m_ipad h) (m_outer h) inner (m_marshaled h), n).

  (* UnmarshalBinary of something that is not a marshaled state returns an error, on which hmac panics;
     Write of a marshaled state as if it were bytes cannot happen (marshaled = false <-> the fields hold bytes) *)
  Definition hmacM_Sum (h : hmacM) (in_ : list N) : hmacM * outcome (list N) :=
    let origLen := length in_ in
    match Sum (m_inner h) in_ with
    | Ok in' =>
      let o_outer :=
        if m_marshaled h
        then match m_opad h with Marshaled s => Ok s | PadBytes _ => Panic end
        else match m_opad h with
             | PadBytes b => Ok (fst (Write (Reset (m_outer h)) b))
             | Marshaled _ => Panic
             end in
      match o_outer with
      | Ok outer =>
        let outer := fst (Write outer (skipn origLen in')) in
        (mkHmacM (m_opad h) (m_ipad h) outer (m_inner h) (m_marshaled h), Sum outer (firstn origLen in'))
      | Err e => (h, Err e) | Panic => (h, Panic) | Hang => (h, Hang)
      end
    | Err e => (h, Err e) | Panic => (h, Panic) | Hang => (h, Hang)
    end.

  Definition hmacM_Reset (h : hmacM) : outcome hmacM :=
    if m_marshaled h
    then match m_ipad h with
         | Marshaled s => Ok (mkHmacM (m_opad h) (m_ipad h) (m_outer h) s true)
         | PadBytes _ => Panic
         end
    else match m_ipad h, m_opad h with
         | PadBytes ipad, PadBytes opad =>
           let inner := fst (Write (Reset (m_inner h)) ipad) in
           if negb marshalable then Ok (mkHmacM (m_opad h) (m_ipad h) (m_outer h) inner false)
           else
             let imarshal := inner in
             let outer := fst (Write (Reset (m_outer h)) opad) in
             let omarshal := outer in
             Ok (mkHmacM (Marshaled omarshal) (Marshaled imarshal) outer inner true)
         | _, _ => Panic
         end.

  (* the object as a hash.Hash state machine; a panic inside Reset is reported on the next result *)
  Definition hmacM_step (h : hmacM) (o : op) : hmacM * out :=
    match o with
    | OpWrite p => let '(h', n) := hmacM_Write h p in (h', OutWrite n)
    | OpSum in_ => let '(h', r) := hmacM_Sum h in_ in (h', OutSum r)
    | OpReset => match hmacM_Reset h with Ok h' => (h', OutReset) | _ => (h, OutSum Panic) end
    end.

  Fixpoint hmacM_run (h : hmacM) (ops : list op) : hmacM * list out :=
    match ops with
    | [] => (h, [])
    | o :: ops' =>
      let '(h1, r) := hmacM_step h o in
      let '(h2, rs) := hmacM_run h1 ops' in
      (h2, r :: rs)
    end.
End WithMarshalable.

(* *sm3.SM3 implements neither interface (checked by the driver: case class B) *)
Definition sm3_marshalable : bool := false.
