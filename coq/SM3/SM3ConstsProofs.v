(* The hand-written parts of the model of sm3/sm3.go are the constant-parametrised model
   (SM3ModelConsts.v) at the constants the translator reads from the source.  Restated in Props/C04.v. *)
From Coq Require Import List NArith Arith.
From GmsmVerif Require Import Lib.Outcome SM3.SM3Spec SM3.SM3Model SM3.SM3ModelConsts SM3.SM3CodeTie
  Gen.SM3Consts Gen.SM3Code.
Import ListNotations.
Open Scope N_scope.

(* (2) what the source says now is what the model hard-codes *)
Lemma K_gen_is_model : K_gen = K_model.
Proof. vm_compute. reflexivity. Qed.

(* (1) the model is the parametrised model at K_model *)
Lemma block_loop_at fuel : forall w w1 r msg, block_loop fuel w w1 r msg = block_loop_K K_model fuel w w1 r msg.
Proof.
  induction fuel as [|x fuel IH]; intros w w1 r msg; cbn [block_loop block_loop_K]; [reflexivity|].
  change (ge_K K_model msg) with (ge64 msg). destruct (ge64 msg); [|reflexivity].
  destruct (block_body w w1 r msg) as [[w' w1'] r'].
  change (k_step K_model) with 64%nat. apply IH.
Qed.

Lemma update2_at s msg : update2 s msg = update2_K K_model s msg.
Proof. unfold update2, update2_K. rewrite block_loop_at. reflexivity. Qed.

Lemma update_at s msg : update s msg = update_K K_model s msg.
Proof. unfold update, update_K. rewrite <- update2_at. reflexivity. Qed.

Lemma pad_loop_at fuel : forall msg, pad_loop fuel msg = pad_loop_K K_model fuel msg.
Proof. induction fuel as [|fuel IH]; intros msg; cbn [pad_loop pad_loop_K]; [reflexivity|]. rewrite IH. reflexivity. Qed.

Lemma pad_at s : pad s = pad_K K_model s.
Proof. rewrite pad_uses_generated_length. unfold pad_K. rewrite pad_loop_at. reflexivity. Qed.

Lemma Write_at s p : Write s p = Write_K K_model s p.
Proof. unfold Write, Write_K. cbv zeta. rewrite (update_at _ (s_unhandleMsg s ++ p)). reflexivity. Qed.

Lemma Sum_at s i : Sum s i = Sum_K K_model s i.
Proof.
  unfold Sum, Sum_K. rewrite pad_at. set (o := pad_K K_model s). clearbody o.
  destruct o as [m|e| |]; cbn [obind]; [rewrite (update2_at s m)| | |]; reflexivity.
Qed.

(* hence: at the constants of the source *)
Lemma model_uses_source_constants :
  (forall s msg, update s msg = update_K K_gen s msg) /\
  (forall s msg, update2 s msg = update2_K K_gen s msg) /\
  (forall s, pad s = pad_K K_gen s) /\
  (forall s p, Write s p = Write_K K_gen s p) /\
  (forall s i, Sum s i = Sum_K K_gen s i) /\
  BlockSize = k_BlockSize K_gen /\ Size = k_Size K_gen.
Proof.
  rewrite K_gen_is_model.
  split; [intros; apply update_at|]. split; [intros; apply update2_at|].
  split; [intros; apply pad_at|]. split; [intros; apply Write_at|]. split; [intros; apply Sum_at|].
  split; reflexivity.
Qed.
