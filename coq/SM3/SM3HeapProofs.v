(* Proofs about the heap-level model of sm3/sm3.go (SM3Heap.v): it refines the value-level model
   (SM3Model.v), Write never writes or retains an array it does not own, Sum writes only the 32 bytes
   after len(in) (or a fresh array) and leaves the object's observable state alone.
   Restated in Props/C04.v. *)
From Coq Require Import List NArith Arith Lia ZifyN ZifyNat ZifyBool Bool.
From GmsmVerif Require Import Lib.Outcome SM3.SM3Spec SM3.SM3Model SM3.SM3Heap.
Import ListNotations.
Open Scope N_scope.

(* ---------- lists and heaps ------------------------------------------------------------------------ *)
Lemma heap_set_length hp id a : (id < length hp)%nat -> length (heap_set hp id a) = length hp.
Proof.
  intros H. unfold heap_set. rewrite app_length, firstn_length. cbn [length]. rewrite skipn_length. lia.
Qed.

Lemma arr_get_set_same hp id a : (id < length hp)%nat -> arr_get (heap_set hp id a) id = a.
Proof.
  intros H. unfold arr_get, heap_set.
  rewrite app_nth2; rewrite firstn_length; [|lia].
  replace (id - Nat.min id (length hp))%nat with 0%nat by lia. reflexivity.
Qed.

Lemma arr_get_set_other hp id id' a : (id < length hp)%nat -> id' <> id ->
  arr_get (heap_set hp id a) id' = arr_get hp id'.
Proof.
  intros H Hne. unfold arr_get, heap_set.
  destruct (Nat.lt_ge_cases id' id) as [Hl|Hg].
  - rewrite app_nth1 by (rewrite firstn_length; lia).
    rewrite <- (firstn_skipn id hp) at 2. rewrite app_nth1 by (rewrite firstn_length; lia). reflexivity.
  - rewrite app_nth2 by (rewrite firstn_length; lia). rewrite firstn_length.
    replace (id' - Nat.min id (length hp))%nat with (S (id' - S id)) by lia. cbn [nth].
    rewrite <- (firstn_skipn (S id) hp) at 2.
    rewrite app_nth2 by (rewrite firstn_length; lia). rewrite firstn_length.
    f_equal. lia.
Qed.

Lemma arr_get_app_old hp x id : (id < length hp)%nat -> arr_get (hp ++ x) id = arr_get hp id.
Proof. intros H. unfold arr_get. apply app_nth1; exact H. Qed.

Lemma arr_get_app_new hp a : arr_get (hp ++ [a]) (length hp) = a.
Proof. unfold arr_get. rewrite app_nth2 by lia. rewrite Nat.sub_diag. reflexivity. Qed.

Lemma write_at_length a pos vs : (pos + length vs <= length a)%nat -> length (write_at a pos vs) = length a.
Proof.
  intros H. unfold write_at. rewrite !app_length, firstn_length, skipn_length. lia.
Qed.

Lemma write_at_firstn a pos vs n : (n <= pos)%nat -> (pos <= length a)%nat ->
  firstn n (write_at a pos vs) = firstn n a.
Proof.
  intros Hn Hp. unfold write_at.
  rewrite firstn_app, firstn_firstn. rewrite firstn_length.
  replace (n - Nat.min pos (length a))%nat with 0%nat by lia.
  cbn [firstn]. rewrite app_nil_r. f_equal. lia.
Qed.

Lemma write_at_skipn a pos vs : (pos + length vs <= length a)%nat ->
  skipn (pos + length vs) (write_at a pos vs) = skipn (pos + length vs) a.
Proof.
  intros H. unfold write_at. rewrite app_assoc.
  rewrite skipn_app. rewrite skipn_all2 by (rewrite app_length, firstn_length; lia).
  rewrite app_length, firstn_length.
  replace (pos + length vs - (Nat.min pos (length a) + length vs))%nat with 0%nat by lia. reflexivity.
Qed.

Lemma write_at_slice a off len vs : (off + len + length vs <= length a)%nat ->
  firstn (len + length vs) (skipn off (write_at a (off + len) vs)) = firstn len (skipn off a) ++ vs.
Proof.
  intros H. unfold write_at.
  rewrite skipn_app, firstn_length.
  replace (off - Nat.min (off + len) (length a))%nat with 0%nat by lia. cbn [skipn].
  assert (E : skipn off (firstn (off + len) a) = firstn len (skipn off a)) by (symmetry; apply firstn_skipn_comm).
  rewrite E. rewrite app_assoc.
  assert (L : length (firstn len (skipn off a) ++ vs) = (len + length vs)%nat)
    by (rewrite app_length, firstn_length, skipn_length; lia).
  rewrite <- L. rewrite firstn_app, Nat.sub_diag, firstn_all. cbn [firstn]. apply app_nil_r.
Qed.

Lemma firstn_app_exact {A} (a b : list A) n : length a = n -> firstn n (a ++ b) = a.
Proof. intros <-. rewrite firstn_app, Nat.sub_diag, firstn_all. cbn [firstn]. apply app_nil_r. Qed.

Lemma slice_bytes_length hp s : valid hp s -> length (slice_bytes hp s) = sl_len s.
Proof.
  intros (Ha & Hl & Hc). unfold slice_bytes. rewrite firstn_length, skipn_length. lia.
Qed.

(* the bytes of a slice depend only on the cells [off, off+len) of its array *)
Lemma slice_bytes_ext hp hp' s :
  firstn (sl_off s + sl_len s) (arr_get hp' (sl_arr s)) = firstn (sl_off s + sl_len s) (arr_get hp (sl_arr s)) ->
  slice_bytes hp' s = slice_bytes hp s.
Proof.
  intros H. unfold slice_bytes. rewrite !firstn_skipn_comm. rewrite H. reflexivity.
Qed.

Section WithGrowth.
  Variable grow : nat -> nat -> nat.
  Hypothesis grow_ge : forall c n, (n <= grow c n)%nat.

  (* ---------- append ------------------------------------------------------------------------------ *)
  (* (hp', s') is (hp, s) with vs appended, by any number of append calls *)
  Definition appended (hp : heap) (s : slice) (hp' : heap) (s' : slice) (vs : list N) : Prop :=
    valid hp' s' /\
    slice_bytes hp' s' = slice_bytes hp s ++ vs /\
    (length hp <= length hp')%nat /\
    (forall id, (id < length hp)%nat -> id <> sl_arr s -> arr_get hp' id = arr_get hp id) /\
    length (arr_get hp' (sl_arr s)) = length (arr_get hp (sl_arr s)) /\
    firstn (sl_off s + sl_len s) (arr_get hp' (sl_arr s)) = firstn (sl_off s + sl_len s) (arr_get hp (sl_arr s)) /\
    ((sl_arr s' = sl_arr s /\ sl_off s' = sl_off s) \/ (length hp <= sl_arr s')%nat) /\
    sl_len s' = (sl_len s + length vs)%nat.

  Lemma appended_refl hp s : valid hp s -> appended hp s hp s [].
  Proof.
    intros Hv. unfold appended. rewrite app_nil_r. cbn [length].
    split; [exact Hv|]. repeat split; auto; try lia.
  Qed.

  Lemma append_appended hp s vs hp' s' :
    valid hp s -> append grow hp s vs = (hp', s') -> appended hp s hp' s' vs.
  Proof.
    intros Hv. pose proof Hv as (Ha & Hl & Hc). unfold append.
    destruct (sl_len s + length vs <=? sl_cap s)%nat eqn:E; intros [= <- <-].
    - apply Nat.leb_le in E.
      assert (Hw : (sl_off s + sl_len s + length vs <= length (arr_get hp (sl_arr s)))%nat) by lia.
      unfold appended, valid. cbn [sl_arr sl_off sl_len sl_cap].
      rewrite heap_set_length by exact Ha. rewrite arr_get_set_same by exact Ha.
      rewrite write_at_length by lia.
      repeat split; try lia.
      + unfold slice_bytes. cbn [sl_arr sl_off sl_len]. rewrite arr_get_set_same by exact Ha.
        apply write_at_slice. exact Hw.
      + intros id Hid Hne. apply arr_get_set_other; assumption.
      + apply write_at_firstn; lia.
    - apply Nat.leb_gt in E.
      pose proof (grow_ge (sl_cap s) (sl_len s + length vs)) as Hg.
      pose proof (slice_bytes_length hp s Hv) as HL.
      unfold appended, valid. cbn [sl_arr sl_off sl_len sl_cap].
      rewrite app_length. cbn [length]. rewrite arr_get_app_new.
      rewrite !app_length, repeat_length, HL.
      repeat split; try lia.
      + unfold slice_bytes at 1. cbn [sl_arr sl_off sl_len]. rewrite arr_get_app_new. cbn [skipn].
        rewrite app_assoc. rewrite firstn_app.
        rewrite app_length, HL, Nat.sub_diag. cbn [firstn]. rewrite app_nil_r.
        apply firstn_all2. rewrite app_length, HL. lia.
      + intros id Hid Hne. apply arr_get_app_old; exact Hid.
      + rewrite arr_get_app_old by exact Ha. reflexivity.
      + rewrite arr_get_app_old by exact Ha. reflexivity.
  Qed.

  Lemma appended_trans hp s hp1 s1 hp2 s2 v1 v2 :
    valid hp s -> appended hp s hp1 s1 v1 -> appended hp1 s1 hp2 s2 v2 -> appended hp s hp2 s2 (v1 ++ v2).
  Proof.
    intros (Ha & Hl & Hc) (V1 & B1 & L1 & F1 & A1 & P1 & O1 & N1) (V2 & B2 & L2 & F2 & A2 & P2 & O2 & N2).
    unfold appended. rewrite app_length.
    assert (Hsame : length (arr_get hp2 (sl_arr s)) = length (arr_get hp (sl_arr s)) /\
                    firstn (sl_off s + sl_len s) (arr_get hp2 (sl_arr s)) =
                    firstn (sl_off s + sl_len s) (arr_get hp (sl_arr s))).
    { destruct O1 as [[Ea Eo]|Hfresh].
      - rewrite Ea, Eo in *. split; [congruence|].
        rewrite <- P1.
        replace (sl_off s + sl_len s)%nat with (Nat.min (sl_off s + sl_len s) (sl_off s + sl_len s1)) by lia.
        rewrite <- !firstn_firstn. rewrite P2. reflexivity.
      - rewrite (F2 (sl_arr s)) by lia. split; assumption. }
    destruct Hsame as [HA HP].
    split; [exact V2|]. split; [rewrite B2, B1, app_assoc; reflexivity|]. split; [lia|].
    split; [|split; [exact HA|split; [exact HP|split; [|lia]]]].
    - intros id Hid Hne.
      destruct O1 as [[Ea Eo]|Hfresh].
      + rewrite F2 by (try lia; congruence). apply F1; assumption.
      + rewrite F2 by lia. apply F1; assumption.
    - destruct O2 as [[Ea Eo]|Hfresh]; [|right; lia].
      destruct O1 as [[Ea1 Eo1]|Hfresh1]; [left; split; congruence|right; lia].
  Qed.

  (* every other valid slice of an old array keeps its validity; its bytes too when it lies on another
     array or inside the part of the array the appended slice already covered *)
  Lemma appended_valid_other hp s hp' s' vs t :
    appended hp s hp' s' vs -> valid hp t -> valid hp' t.
  Proof.
    intros (V1 & B1 & L1 & F1 & A1 & P1 & O1 & N1) (Ha & Hl & Hc). unfold valid.
    destruct (Nat.eq_dec (sl_arr t) (sl_arr s)) as [E|E].
    - rewrite E, A1, <- E. repeat split; lia.
    - rewrite F1 by assumption. repeat split; lia.
  Qed.

  Lemma appended_bytes_other hp s hp' s' vs t :
    appended hp s hp' s' vs -> valid hp t -> sl_arr t <> sl_arr s -> slice_bytes hp' t = slice_bytes hp t.
  Proof.
    intros (V1 & B1 & L1 & F1 & A1 & P1 & O1 & N1) (Ha & Hl & Hc) Hne.
    unfold slice_bytes. rewrite F1 by assumption. reflexivity.
  Qed.

  Lemma appended_bytes_self hp s hp' s' vs :
    appended hp s hp' s' vs -> slice_bytes hp' s = slice_bytes hp s.
  Proof. intros (V1 & B1 & L1 & F1 & A1 & P1 & O1 & N1). apply slice_bytes_ext. exact P1. Qed.

  (* ---------- pad ---------------------------------------------------------------------------------- *)
  Lemma h_pad_loop_refines fuel : forall hp msg, valid hp msg ->
    match h_pad_loop grow fuel hp msg with
    | Ok (hp', msg') => (exists suf, appended hp msg hp' msg' suf) /\
                        pad_loop fuel (slice_bytes hp msg) = Ok (slice_bytes hp' msg')
    | Hang => pad_loop fuel (slice_bytes hp msg) = Hang
    | _ => False
    end.
  Proof.
    induction fuel as [|fuel IH]; intros hp msg Hv; cbn [h_pad_loop pad_loop].
    - reflexivity.
    - rewrite (slice_bytes_length hp msg Hv).
      destruct (sl_len msg mod 64 =? 56)%nat.
      + split; [exists []; apply appended_refl; exact Hv|reflexivity].
      + destruct (append grow hp msg [0]) as [hp1 msg1] eqn:E.
        pose proof (append_appended _ _ _ _ _ Hv E) as Hap.
        pose proof Hap as (V1 & B1 & _).
        specialize (IH hp1 msg1 V1). rewrite B1 in IH.
        destruct (h_pad_loop grow fuel hp1 msg1) as [[hp2 msg2]| | |]; try exact IH.
        destruct IH as [[suf Hs] Hp]. split; [|exact Hp].
        exists ([0] ++ suf). eapply appended_trans; eassumption.
  Qed.

  Ltac step_append Hcur :=
    match goal with
    | |- context [append grow ?hp ?msg ?vs] =>
      let hp' := fresh "hp" in let msg' := fresh "msg" in let E := fresh "E" in let Hn := fresh "Hap" in
      destruct (append grow hp msg vs) as [hp' msg'] eqn:E;
      match type of Hcur with
      | appended ?hp0 ?s0 _ _ ?v0 =>
        assert (Hn : appended hp0 s0 hp' msg' (v0 ++ vs))
          by (eapply appended_trans; [eassumption|exact Hcur|
              apply (append_appended _ _ _ _ _ (proj1 Hcur) E)]);
        clear Hcur E; rename Hn into Hcur
      end
    end.

  Lemma h_pad_refines hp s : valid hp (hs_unhandleMsg s) ->
    match h_pad grow hp s with
    | Ok (hp', msg) => (exists suf, appended hp (hs_unhandleMsg s) hp' msg suf) /\
                       pad (abs hp s) = Ok (slice_bytes hp' msg)
    | Err e => pad (abs hp s) = Err e
    | Panic => pad (abs hp s) = Panic
    | Hang => pad (abs hp s) = Hang
    end.
  Proof.
    intros Hv. unfold h_pad, pad, abs. cbn [s_unhandleMsg s_length].
    pose proof (appended_refl hp _ Hv) as Hcur.
    step_append Hcur.
    pose proof (proj1 Hcur) as V0. pose proof (proj1 (proj2 Hcur)) as B0.
    cbn [app] in B0. rewrite <- B0.
    pose proof (h_pad_loop_refines 64 hp0 msg V0) as Hl.
    destruct (h_pad_loop grow 64 hp0 msg) as [[hp1 msg1]| | |]; try (rewrite Hl; reflexivity); try contradiction.
    destruct Hl as [[suf Hs] Hp]. rewrite Hp. cbn [obind].
    assert (Hcur1 : appended hp (hs_unhandleMsg s) hp1 msg1 (([] ++ [128]) ++ suf))
      by (eapply appended_trans; eassumption).
    clear Hcur Hs. rename Hcur1 into Hcur.
    pose proof (proj1 (proj2 Hcur)) as B1.
    do 8 step_append Hcur.
    pose proof Hcur as (V9 & B9 & _).
    rewrite <- (slice_bytes_length _ _ V9).
    assert (EB : slice_bytes hp9 msg8 =
      (((((((slice_bytes hp1 msg1 ++ [uint8 (N.land (N.shiftr (hs_length s) 56) 255)]) ++
            [uint8 (N.land (N.shiftr (hs_length s) 48) 255)]) ++ [uint8 (N.land (N.shiftr (hs_length s) 40) 255)]) ++
            [uint8 (N.land (N.shiftr (hs_length s) 32) 255)]) ++ [uint8 (N.land (N.shiftr (hs_length s) 24) 255)]) ++
            [uint8 (N.land (N.shiftr (hs_length s) 16) 255)]) ++ [uint8 (N.land (N.shiftr (hs_length s) 8) 255)]) ++
            [uint8 (N.land (N.shiftr (hs_length s) 0) 255)]).
    { rewrite B9, B1. repeat rewrite <- app_assoc. reflexivity. }
    rewrite <- EB.
    destruct (negb (length (slice_bytes hp9 msg8) mod 64 =? 0)%nat); [reflexivity|].
    split; [eexists; exact Hcur|reflexivity].
  Qed.

  (* ---------- Write -------------------------------------------------------------------------------- *)
  Lemma update_digest_only d l u l' u' m : s_digest (update (mkSM3 d l u) m) = s_digest (update (mkSM3 d l' u') m).
  Proof. reflexivity. Qed.

  Lemma update2_digest_only d l u l' u' m : update2 (mkSM3 d l u) m = update2 (mkSM3 d l' u') m.
  Proof. reflexivity. Qed.

  Lemma reslice_valid hp s n : valid hp s -> (n <= sl_len s)%nat -> valid hp (reslice_from s n).
  Proof. intros (Ha & Hl & Hc) Hn. unfold valid, reslice_from. cbn [sl_arr sl_off sl_len sl_cap]. lia. Qed.

  Lemma reslice_bytes hp s n : slice_bytes hp (reslice_from s n) = skipn n (slice_bytes hp s).
  Proof.
    unfold slice_bytes, reslice_from. cbn [sl_arr sl_off sl_len].
    rewrite skipn_firstn_comm. f_equal.
    generalize (arr_get hp (sl_arr s)) as a. intros a.
    revert a; induction (sl_off s) as [|k IH]; intros a; cbn [Nat.add skipn]; [reflexivity|].
    destruct a as [|x a]; [rewrite !skipn_nil; reflexivity|apply IH].
  Qed.

  Lemma h_Write_refines hp s p hp' s' n :
    valid hp (hs_unhandleMsg s) -> valid hp p -> h_Write grow hp s p = (hp', s', n) ->
    Write (abs hp s) (slice_bytes hp p) = (abs hp' s', n) /\
    valid hp' (hs_unhandleMsg s') /\ (length hp <= length hp')%nat /\
    (forall id, (id < length hp)%nat -> id <> sl_arr (hs_unhandleMsg s) -> arr_get hp' id = arr_get hp id) /\
    (sl_arr (hs_unhandleMsg s') = sl_arr (hs_unhandleMsg s) \/ (length hp <= sl_arr (hs_unhandleMsg s'))%nat).
  Proof.
    intros Hv Hp. unfold h_Write.
    destruct (append grow hp (hs_unhandleMsg s) (slice_bytes hp p)) as [hp1 msg] eqn:E.
    pose proof (append_appended _ _ _ _ _ Hv E) as (V1 & B1 & L1 & F1 & A1 & P1 & O1 & N1).
    intros [= <- <- <-].
    pose proof (slice_bytes_length hp p Hp) as HLp.
    pose proof (slice_bytes_length hp1 msg V1) as HLm.
    assert (Hn : (sl_len msg / BlockSize * BlockSize <= sl_len msg)%nat) by (unfold BlockSize; lia).
    split; [|split; [|split; [|split]]].
    - unfold Write, abs. cbn [s_digest s_length s_unhandleMsg hs_digest hs_length hs_unhandleMsg].
      rewrite lenN_length, HLp. f_equal.
      rewrite <- B1. rewrite HLm. rewrite reslice_bytes. f_equal.
    - cbn [hs_unhandleMsg]. apply reslice_valid; assumption.
    - exact L1.
    - exact F1.
    - cbn [hs_unhandleMsg]. unfold reslice_from. cbn [sl_arr].
      destruct O1 as [[Ea _]|Hf]; [left; exact Ea|right; exact Hf].
  Qed.

  (* ---------- Sum ---------------------------------------------------------------------------------- *)
  Lemma digest_bytes_length dg : length (flat_map PutUint32 dg) = (4 * length dg)%nat.
  Proof. induction dg as [|w dg IH]; cbn [flat_map length app PutUint32]; [reflexivity|]. rewrite IH. lia. Qed.

  Lemma update2_length s m : length (update2 s m) = 8%nat.
  Proof.
    unfold update2. destruct (block_loop m zero_w zero_w1 (regs_of_digest (s_digest s)) m) as [[[[[[[a b] c] d] e] f] g] h].
    reflexivity.
  Qed.

  Lemma h_Sum_refines hp s in_ :
    valid hp (hs_unhandleMsg s) -> valid hp in_ -> sl_arr in_ <> sl_arr (hs_unhandleMsg s) ->
    match h_Sum grow hp s in_ with
    | Ok (hp', res) => Sum (abs hp s) (slice_bytes hp in_) = Ok (slice_bytes hp' res) /\ sum_frame hp s in_ hp' res
    | Err e => Sum (abs hp s) (slice_bytes hp in_) = Err e
    | Panic => Sum (abs hp s) (slice_bytes hp in_) = Panic
    | Hang => Sum (abs hp s) (slice_bytes hp in_) = Hang
    end.
  Proof.
    intros Hv Hin Hne. unfold h_Sum, Sum.
    pose proof (h_pad_refines hp s Hv) as Hp.
    destruct (h_pad grow hp s) as [[hp1 msg]| | |]; try (rewrite Hp; reflexivity).
    destruct Hp as [[suf Hap] Hp]. rewrite Hp. cbn [obind].
    pose proof Hap as (V1 & B1 & L1 & F1 & A1 & P1 & O1 & N1).
    pose proof (appended_valid_other _ _ _ _ _ _ Hap Hin) as Hin1.
    pose proof (appended_bytes_other _ _ _ _ _ _ Hap Hin Hne) as Bin1.
    pose proof (appended_valid_other _ _ _ _ _ _ Hap Hv) as Hv1.
    pose proof (appended_bytes_self _ _ _ _ _ Hap) as Bs1.
    pose proof Hin as (Ha & Hl & Hc). pose proof Hin1 as (Ha1 & _ & Hc1).
    replace (update2 (abs hp s) (slice_bytes hp1 msg))
      with (update2 {| s_digest := hs_digest s; s_length := hs_length s; s_unhandleMsg := [] |} (slice_bytes hp1 msg))
      by reflexivity.
    set (dg := update2 {| s_digest := hs_digest s; s_length := hs_length s; s_unhandleMsg := [] |} (slice_bytes hp1 msg)).
    assert (Hdl : length (flat_map PutUint32 dg) = 32%nat)
      by (rewrite digest_bytes_length; unfold dg; rewrite update2_length; reflexivity).
    pose proof (slice_bytes_length hp in_ Hin) as HLin.
    unfold Size in *.
    destruct (sl_cap in_ - sl_len in_ <? 32)%nat eqn:Ecap.
    - (* reallocation *)
      cbn [sl_arr sl_off sl_len sl_cap].
      assert (Hlen1 : forall x : list N, (length hp1 < length (hp1 ++ [x]))%nat)
        by (intros x; rewrite app_length; cbn; lia).
      rewrite arr_get_app_new. cbn [Nat.add].
      set (hp2 := heap_set _ _ _).
      assert (Hnew : arr_get hp2 (length hp1) = slice_bytes hp in_ ++ flat_map PutUint32 dg).
      { unfold hp2. rewrite arr_get_set_same by apply Hlen1.
        unfold write_at. rewrite Bin1.
        rewrite (firstn_app_exact _ _ _ HLin).
        rewrite Hdl. rewrite skipn_all2 by (rewrite app_length, repeat_length, HLin; lia).
        rewrite app_nil_r. reflexivity. }
      assert (Hold : forall id, (id < length hp1)%nat -> arr_get hp2 id = arr_get hp1 id).
      { intros id Hid. unfold hp2. rewrite arr_get_set_other by (try apply Hlen1; lia). apply arr_get_app_old; exact Hid. }
      assert (Hlen2 : length hp2 = S (length hp1)).
      { unfold hp2. rewrite heap_set_length by apply Hlen1. rewrite app_length. cbn. lia. }
      assert (Hres : slice_bytes hp2 (mkSlice (length hp1) 0 (sl_len in_ + 32) (sl_len in_ + 32)) =
                     slice_bytes hp in_ ++ flat_map PutUint32 dg).
      { unfold slice_bytes at 1. cbn [sl_arr sl_off sl_len]. rewrite Hnew. cbn [skipn].
        apply firstn_all2. rewrite app_length, HLin, Hdl. lia. }
      split; [rewrite Hres; reflexivity|].
      unfold sum_frame. cbn [sl_arr sl_off sl_len sl_cap]. unfold Size. rewrite Ecap.
      assert (Hown : arr_get hp2 (sl_arr (hs_unhandleMsg s)) = arr_get hp1 (sl_arr (hs_unhandleMsg s)))
        by (apply Hold; apply Hv1).
      split; [|split; [|split; [|split; [|split; [|split; [|split; [|split; [|split]]]]]]]].
      + unfold valid. cbn [sl_arr sl_off sl_len sl_cap]. rewrite Hnew, app_length, HLin, Hdl. lia.
      + lia.
      + destruct Hv1 as (X1 & X2 & X3). unfold valid. rewrite Hown. repeat split; lia.
      + unfold abs. f_equal. rewrite <- Bs1. unfold slice_bytes. rewrite Hown. reflexivity.
      + intros id Hid H1 H2. rewrite Hold by lia. apply F1; assumption.
      + rewrite Hold by lia. rewrite F1 by assumption. reflexivity.
      + rewrite Hold by lia. rewrite F1 by assumption. reflexivity.
      + rewrite Hold by lia. rewrite F1 by assumption. repeat split; lia.
      + reflexivity.
      + rewrite Hres. apply firstn_app_exact; exact HLin.
    - (* in place *)
      apply Nat.ltb_ge in Ecap.
      set (hp2 := heap_set _ _ _).
      assert (Hw : (sl_off in_ + sl_len in_ + length (flat_map PutUint32 dg) <= length (arr_get hp1 (sl_arr in_)))%nat)
        by (rewrite Hdl; lia).
      assert (Hnew : arr_get hp2 (sl_arr in_) =
                     write_at (arr_get hp1 (sl_arr in_)) (sl_off in_ + sl_len in_) (flat_map PutUint32 dg))
        by (unfold hp2; apply arr_get_set_same; exact Ha1).
      assert (Hold : forall id, id <> sl_arr in_ -> arr_get hp2 id = arr_get hp1 id)
        by (intros id Hid; unfold hp2; apply arr_get_set_other; assumption).
      assert (Hlen2 : length hp2 = length hp1) by (unfold hp2; apply heap_set_length; exact Ha1).
      assert (Hres : slice_bytes hp2 (mkSlice (sl_arr in_) (sl_off in_) (sl_len in_ + 32) (sl_cap in_)) =
                     slice_bytes hp in_ ++ flat_map PutUint32 dg).
      { unfold slice_bytes at 1. cbn [sl_arr sl_off sl_len]. rewrite Hnew.
        rewrite <- Hdl. rewrite write_at_slice by exact Hw. rewrite <- Bin1. reflexivity. }
      split; [rewrite Hres; reflexivity|].
      unfold sum_frame. cbn [sl_arr sl_off sl_len sl_cap]. unfold Size.
      replace (sl_cap in_ - sl_len in_ <? 32)%nat with false by (symmetry; apply Nat.ltb_ge; exact Ecap).
      assert (Hown : arr_get hp2 (sl_arr (hs_unhandleMsg s)) = arr_get hp1 (sl_arr (hs_unhandleMsg s)))
        by (apply Hold; congruence).
      assert (E1 : arr_get hp1 (sl_arr in_) = arr_get hp (sl_arr in_)) by (apply F1; assumption).
      split; [|split; [|split; [|split; [|split; [|split; [|split; [|split; [|split]]]]]]]].
      + unfold valid. cbn [sl_arr sl_off sl_len sl_cap]. rewrite Hlen2, Hnew, write_at_length by exact Hw. lia.
      + lia.
      + destruct Hv1 as (X1 & X2 & X3). unfold valid. rewrite Hown, Hlen2. repeat split; lia.
      + unfold abs. f_equal. rewrite <- Bs1. unfold slice_bytes. rewrite Hown. reflexivity.
      + intros id Hid H1 H2. rewrite Hold by assumption. apply F1; assumption.
      + rewrite Hnew, write_at_length by exact Hw. rewrite E1. reflexivity.
      + rewrite Hnew, write_at_firstn by lia. rewrite E1. reflexivity.
      + repeat split. rewrite Hnew. rewrite <- Hdl. rewrite write_at_skipn by exact Hw. rewrite E1. reflexivity.
      + reflexivity.
      + rewrite Hres. apply firstn_app_exact; exact HLin.
  Qed.

  (* ---------- histories ------------------------------------------------------------------------------ *)
  Lemma hstep_refines hp s o hp' s' r :
    valid hp (hs_unhandleMsg s) -> caller_pre hp s o -> hstep grow hp s o = (hp', s', r) ->
    valid hp' (hs_unhandleMsg s') /\
    match r with
    | Some (vo, out) => step (abs hp s) vo = (abs hp' s', out)
    | None => abs hp' s' = abs hp s
    end.
  Proof.
    intros Hv Hpre. destruct o as [p|in_| |id idx v|a]; cbn [hstep caller_pre] in *.
    - destruct Hpre as [Hp Hne].
      destruct (h_Write grow hp s p) as [[hp1 s1] n] eqn:E. intros [= <- <- <-].
      destruct (h_Write_refines _ _ _ _ _ _ Hv Hp E) as (HW & V1 & _).
      split; [exact V1|]. cbn [step]. rewrite HW. reflexivity.
    - destruct Hpre as [Hin Hne].
      pose proof (h_Sum_refines hp s in_ Hv Hin Hne) as HS.
      destruct (h_Sum grow hp s in_) as [[hp1 res]|e| |]; intros [= <- <- <-]; cbn [step].
      + destruct HS as [HS (_ & _ & V1 & A1 & _)]. split; [exact V1|]. rewrite HS, A1. reflexivity.
      + split; [exact Hv|]. rewrite HS. reflexivity.
      + split; [exact Hv|]. rewrite HS. reflexivity.
      + split; [exact Hv|]. rewrite HS. reflexivity.
    - intros [= <- <- <-]. split.
      + unfold valid. cbn [hs_unhandleMsg sl_arr sl_off sl_len sl_cap]. rewrite app_length, arr_get_app_new. cbn. lia.
      + cbn [step]. unfold abs, Reset. cbn [hs_digest hs_length hs_unhandleMsg]. reflexivity.
    - destruct Hpre as (Hne & Hid & Hidx). intros [= <- <- <-].
      destruct Hv as (X1 & X2 & X3).
      assert (E : arr_get (heap_set hp id (write_at (arr_get hp id) idx [v])) (sl_arr (hs_unhandleMsg s)) =
                  arr_get hp (sl_arr (hs_unhandleMsg s))) by (apply arr_get_set_other; [exact Hid|congruence]).
      split.
      + unfold valid. rewrite E, heap_set_length by exact Hid. repeat split; lia.
      + unfold abs, slice_bytes. rewrite E. reflexivity.
    - intros [= <- <- <-]. destruct Hv as (X1 & X2 & X3).
      assert (E : arr_get (hp ++ [a]) (sl_arr (hs_unhandleMsg s)) = arr_get hp (sl_arr (hs_unhandleMsg s)))
        by (apply arr_get_app_old; exact X1).
      split.
      + unfold valid. rewrite E, app_length. repeat split; lia.
      + unfold abs, slice_bytes. rewrite E. reflexivity.
  Qed.

  Lemma hrun_refines ops : forall hp s,
    valid hp (hs_unhandleMsg s) -> caller_ok grow hp s ops ->
    let '(hp', s', tr) := hrun grow hp s ops in
    run (abs hp s) (map fst tr) = (abs hp' s', map snd tr) /\ valid hp' (hs_unhandleMsg s').
  Proof.
    induction ops as [|o ops IH]; intros hp s Hv Hok; cbn [hrun caller_ok] in *.
    - split; [reflexivity|exact Hv].
    - destruct Hok as [Hpre Hok].
      destruct (hstep grow hp s o) as [[hp1 s1] r] eqn:E.
      destruct (hstep_refines _ _ _ _ _ _ Hv Hpre E) as [V1 Hr].
      specialize (IH hp1 s1 V1 Hok).
      destruct (hrun grow hp1 s1 ops) as [[hp2 s2] rs].
      destruct IH as [IH V2]. split; [|exact V2].
      destruct r as [[vo out]|].
      + cbn [map fst snd run]. rewrite Hr, IH. reflexivity.
      + rewrite <- Hr. exact IH.
  Qed.

  (* (a) Write and the caller's array *)
  Lemma h_Write_frame hp s p hp' s' n :
    valid hp (hs_unhandleMsg s) -> valid hp p -> sl_arr p <> sl_arr (hs_unhandleMsg s) ->
    h_Write grow hp s p = (hp', s', n) ->
    arr_get hp' (sl_arr p) = arr_get hp (sl_arr p) /\
    (forall id, (id < length hp)%nat -> id <> sl_arr (hs_unhandleMsg s) -> arr_get hp' id = arr_get hp id) /\
    sl_arr (hs_unhandleMsg s') <> sl_arr p /\
    (sl_arr (hs_unhandleMsg s') = sl_arr (hs_unhandleMsg s) \/ (length hp <= sl_arr (hs_unhandleMsg s'))%nat) /\
    valid hp' (hs_unhandleMsg s') /\
    Write (abs hp s) (slice_bytes hp p) = (abs hp' s', n).
  Proof.
    intros Hv Hp Hne E.
    destruct (h_Write_refines _ _ _ _ _ _ Hv Hp E) as (HW & V1 & L1 & F1 & O1).
    pose proof Hp as (Ha & _).
    split; [apply F1; assumption|]. split; [exact F1|]. split; [|split; [exact O1|split; [exact V1|exact HW]]].
    destruct O1 as [Eq|Hf]; [congruence|lia].
  Qed.

  (* (c) histories from New(), the caller owning every array that exists before and scribbling at will *)
  Lemma heap_history hp0 ops :
    let '(hp1, s1) := h_New hp0 in
    caller_ok grow hp1 s1 ops ->
    let '(hp', s', tr) := hrun grow hp1 s1 ops in
    run init (map fst tr) = (abs hp' s', map snd tr) /\ valid hp' (hs_unhandleMsg s').
  Proof.
    unfold h_New, h_Reset. intros Hok.
    match type of Hok with caller_ok _ ?h ?s _ =>
      assert (Hv : valid h (hs_unhandleMsg s));
      [unfold valid; cbn [hs_unhandleMsg sl_arr sl_off sl_len sl_cap]; rewrite app_length, arr_get_app_new; cbn; lia|];
      pose proof (hrun_refines ops h s Hv Hok) as H
    end.
    exact H.
  Qed.
End WithGrowth.
