(* Proofs about the models of crypto/hmac and x/crypto/pbkdf2 running on the SM3 model: the
   operation sequences they issue on the hash object compute HMAC-SM3 (RFC 2104) and
   PBKDF2-HMAC-SM3 (RFC 8018).  Restated in Props/C04.v. *)
From Coq Require Import List NArith Arith ZArith Lia ZifyN ZifyNat ZifyBool Bool.
From GmsmVerif Require Import Lib.Outcome SM3.SM3Spec SM3.HMACSpec SM3.SM3Model SM3.SM3Proofs
  SM3.HashSpec SM3.SM3History.
Import ListNotations.
Open Scope N_scope.

Definition ipad_of (key : list N) : list N := map (N.lxor 0x36) (hmac_key_block key).
Definition opad_of (key : list N) : list N := map (N.lxor 0x5c) (hmac_key_block key).

(* the hmac object for [key] after [written] has been written since its last Reset
   (nothing is required of the outer hash: Sum resets it before use) *)
Definition hinv (key written : list N) (h : hmac) : Prop :=
  h_ipad h = ipad_of key /\ h_opad h = opad_of key /\ h_inner h = st (ipad_of key ++ written).

Lemma New_st : New = st [].
Proof. reflexivity. Qed.

Lemma copy_into_block_short k : (length k <= 64)%nat -> copy_into_block k = k ++ repeat 0 (64 - length k).
Proof. intros H. unfold copy_into_block, BlockSize. rewrite firstn_all2 by exact H. reflexivity. Qed.

Lemma hmac_New_spec key : exists h, hmac_New key = Ok h /\ hinv key [] h.
Proof.
  unfold hmac_New. rewrite New_st. unfold BlockSize at 1.
  assert (HK : exists outer,
    (if (64 <? length key)%nat
     then do k <- Sum (fst (Write (st []) key)) []; Ok (k, fst (Write (st []) key))
     else Ok (key, st [])) = Ok (if (64 <? length key)%nat then sm3 key else key, outer)).
  { destruct (64 <? length key)%nat.
    - rewrite Write_spec. cbn [fst app]. rewrite Sum_spec. cbn [obind app]. eexists; reflexivity.
    - eexists; reflexivity. }
  destruct HK as [outer HK]. rewrite HK. cbn [obind].
  set (k0 := if (64 <? length key)%nat then sm3 key else key).
  assert (Hk0 : (length k0 <= 64)%nat).
  { unfold k0. destruct (64 <? length key)%nat eqn:E.
    - rewrite sm3_length. lia.
    - apply Nat.ltb_ge in E. exact E. }
  rewrite Write_spec. cbn [fst app].
  eexists. split; [reflexivity|].
  assert (Hb : copy_into_block k0 = hmac_key_block key).
  { rewrite copy_into_block_short by exact Hk0. reflexivity. }
  unfold hinv. cbn [h_ipad h_opad h_inner]. rewrite Hb. unfold ipad_of, opad_of.
  rewrite app_nil_r.
  assert (E1 : forall l, map (fun b => N.lxor b 0x36) l = map (N.lxor 0x36) l)
    by (intros l; apply map_ext; intros b; apply N.lxor_comm).
  assert (E2 : forall l, map (fun b => N.lxor b 0x5c) l = map (N.lxor 0x5c) l)
    by (intros l; apply map_ext; intros b; apply N.lxor_comm).
  rewrite E1, E2. auto.
Qed.

Lemma hmac_Write_spec key w h p :
  hinv key w h -> hinv key (w ++ p) (fst (hmac_Write h p)) /\ snd (hmac_Write h p) = N.of_nat (length p).
Proof.
  intros (Hi & Ho & Hin). unfold hmac_Write. rewrite Hin, Write_spec.
  cbn [fst snd]. split; [|reflexivity].
  unfold hinv. cbn [h_ipad h_opad h_inner]. rewrite app_assoc. auto.
Qed.

Lemma hmac_Reset_spec key w h : hinv key w h -> hinv key [] (hmac_Reset h).
Proof.
  intros (Hi & Ho & Hin). unfold hmac_Reset, hinv. cbn [h_ipad h_opad h_inner].
  rewrite Reset_st, Write_spec, Hi. cbn [fst app]. rewrite app_nil_r. auto.
Qed.

Lemma firstn_length_app {A} (a b : list A) : firstn (length a) (a ++ b) = a.
Proof. rewrite firstn_app, Nat.sub_diag, firstn_all. cbn [firstn]. apply app_nil_r. Qed.

Lemma skipn_length_app {A} (a b : list A) : skipn (length a) (a ++ b) = b.
Proof. rewrite skipn_app, Nat.sub_diag, skipn_all. reflexivity. Qed.

Lemma hmac_Sum_spec key w h i :
  hinv key w h ->
  hinv key w (fst (hmac_Sum h i)) /\ snd (hmac_Sum h i) = Ok (i ++ hmac_sm3 key w).
Proof.
  intros (Hi & Ho & Hin). unfold hmac_Sum. rewrite Hin, Sum_spec.
  rewrite Reset_st, Write_spec. cbn [fst app]. rewrite Write_spec. cbn [fst snd].
  rewrite skipn_length_app, firstn_length_app, Sum_spec.
  split.
  - unfold hinv. cbn [h_ipad h_opad h_inner]. auto.
  - rewrite Ho. reflexivity.
Qed.

(* the hmac object honours the hash.Hash contract with H = HMAC-SM3(key, .) *)
Lemma hmac_run_spec key ops : forall w h, hinv key w h ->
  snd (hmac_run h ops) = ref_run (hmac_sm3 key) w ops.
Proof.
  induction ops as [|[p|i|] ops IH]; intros w h Hh; cbn [hmac_run ref_run hmac_step].
  - reflexivity.
  - destruct (hmac_Write_spec key w h p Hh) as [H1 H2].
    destruct (hmac_Write h p) as [h' n]. cbn [fst snd] in H1, H2.
    specialize (IH _ _ H1). destruct (hmac_run h' ops) as [h2 rs]. cbn [snd] in *.
    rewrite H2, IH. reflexivity.
  - destruct (hmac_Sum_spec key w h i Hh) as [H1 H2].
    destruct (hmac_Sum h i) as [h' r]. cbn [fst snd] in H1, H2.
    specialize (IH _ _ H1). destruct (hmac_run h' ops) as [h2 rs]. cbn [snd] in *.
    rewrite H2, IH. reflexivity.
  - pose proof (hmac_Reset_spec key w h Hh) as H1.
    specialize (IH _ _ H1). destruct (hmac_run (hmac_Reset h) ops) as [h2 rs]. cbn [snd] in *.
    rewrite IH. reflexivity.
Qed.

Lemma hmac_oneshot_spec key msg : hmac_oneshot key msg = Ok (hmac_sm3 key msg).
Proof.
  unfold hmac_oneshot. destruct (hmac_New_spec key) as (h & Hn & Hh). rewrite Hn. cbn [obind].
  destruct (hmac_Write_spec key [] h msg Hh) as [H1 _]. cbn [app] in H1.
  destruct (hmac_Sum_spec key msg _ [] H1) as [_ H2]. rewrite H2. reflexivity.
Qed.

(* ---------- PBKDF2 ---------------------------------------------------------------------------------- *)
Lemma hmac_sm3_length key msg : length (hmac_sm3 key msg) = 32%nat.
Proof. unfold hmac_sm3. apply sm3_length. Qed.

Lemma xor_range_bytes T : forall U, length T = length U -> xor_range T U = xor_bytes T U.
Proof.
  induction T as [|t T IH]; intros [|u U] H; cbn in H; try lia; cbn [xor_range xor_bytes]; [reflexivity|].
  rewrite IH by lia. reflexivity.
Qed.

Lemma xor_bytes_length T : forall U, length T = length U -> length (xor_bytes T U) = length T.
Proof.
  induction T as [|t T IH]; intros [|u U] H; cbn in H; try lia; cbn [xor_bytes length]; [reflexivity|].
  rewrite IH by lia. reflexivity.
Qed.

Lemma pbkdf2_inner_spec key k : forall prf w U T, hinv key w prf -> length T = 32%nat ->
  exists prf' U' w', pbkdf2_inner k prf U T = Ok (prf', U', pbkdf2_iter key k U T) /\ hinv key w' prf'.
Proof.
  induction k as [|k IH]; intros prf w U T Hh HT; cbn [pbkdf2_inner pbkdf2_iter].
  - eexists _, _, _. split; [reflexivity|exact Hh].
  - pose proof (hmac_Reset_spec key w prf Hh) as H1.
    destruct (hmac_Write_spec key [] _ U H1) as [H2 _]. cbn [app] in H2.
    destruct (hmac_Sum_spec key U _ (firstn 0 U) H2) as [H3 H4].
    destruct (hmac_Sum (fst (hmac_Write (hmac_Reset prf) U)) (firstn 0 U)) as [prf3 r].
    cbn [fst snd] in H3, H4. rewrite H4. cbn [firstn app obind].
    rewrite xor_range_bytes by (rewrite hmac_sm3_length; exact HT).
    apply (IH prf3 U). exact H3.
    rewrite xor_bytes_length; rewrite ?hmac_sm3_length; exact HT.
Qed.

Lemma pbkdf2_outer_spec key iter salt blocks : forall prf w dk U, hinv key w prf ->
  pbkdf2_outer blocks iter 32 salt prf dk U = Ok (dk ++ flat_map (pbkdf2_F key salt iter) blocks).
Proof.
  induction blocks as [|block blocks IH]; intros prf w dk U Hh; cbn [pbkdf2_outer flat_map].
  - rewrite app_nil_r. reflexivity.
  - pose proof (hmac_Reset_spec key w prf Hh) as H1.
    destruct (hmac_Write_spec key [] _ salt H1) as [H2 _]. cbn [app] in H2.
    match goal with |- context [hmac_Write (fst (hmac_Write (hmac_Reset prf) salt)) ?b] => set (buf := b) end.
    destruct (hmac_Write_spec key salt _ buf H2) as [H3 _].
    destruct (hmac_Sum_spec key (salt ++ buf) _ dk H3) as [H4 H5].
    destruct (hmac_Sum (fst (hmac_Write (fst (hmac_Write (hmac_Reset prf) salt)) buf)) dk) as [prf4 r].
    cbn [fst snd] in H4, H5. rewrite H5. cbn [obind].
    set (U1 := hmac_sm3 key (salt ++ buf)).
    assert (HU1 : length U1 = 32%nat) by apply hmac_sm3_length.
    assert (E1 : (length (dk ++ U1) - 32 = length dk)%nat) by (rewrite app_length; lia).
    rewrite E1, skipn_length_app, firstn_length_app.
    destruct (pbkdf2_inner_spec key (iter - 1) prf4 (salt ++ buf) U1 U1 H4 HU1) as (prf' & U' & w' & Hin & Hh').
    rewrite Hin. cbn [obind].
    rewrite (IH prf' w' _ U' Hh'). rewrite <- app_assoc. reflexivity.
Qed.

Lemma pbkdf2_Key_spec password salt iter keyLen :
  pbkdf2_Key password salt iter keyLen = Ok (pbkdf2_hmac_sm3 password salt iter keyLen).
Proof.
  unfold pbkdf2_Key. destruct (hmac_New_spec password) as (h & Hn & Hh). rewrite Hn. cbn [obind].
  unfold Size. rewrite (pbkdf2_outer_spec password iter salt _ h [] [] _ Hh). cbn [obind app].
  unfold pbkdf2_hmac_sm3. replace (keyLen + 32 - 1)%nat with (keyLen + 31)%nat by lia. reflexivity.
Qed.
