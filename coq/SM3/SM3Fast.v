(* A fast variant of the SM3 specification for the extracted runners.  Same results as SM3Spec.sm3
   (theorem sm3_fast_eq in SM3FastProofs.v), different data layout:

   - a word is a record of 32 booleans (SM3FastWord.v): xor / and / or / not / + / <<< k build one
     record instead of walking a binary positive bit by bit;
   - the expanded message is built newest-first with the 16-word window taken by pattern matching,
     then reversed once; the rounds walk W, W shifted by 4 and the table of T_j <<< j in step (no
     nth, no index arithmetic); rounds 0-15 and 16-63 are two loops;
   - bytes are converted to bits when a block is loaded and back when the digest is produced.

   sm3_fast checks that its input consists of bytes below 2^8 and falls back to sm3 otherwise, so
   sm3_fast = sm3 holds for every list.  Definitions only. *)
From Coq Require Import List NArith Arith Bool.
From GmsmVerif Require Import SM3.SM3Spec SM3.HMACSpec SM3.SM3FastWord.
Import ListNotations.
Open Scope N_scope.

(* ---------- bits <-> numbers -------------------------------------------------------------------------- *)
Definition bcons (b : bool) (n : N) : N := if b then N.succ_double n else N.double n.

Fixpoint N_of_bits (l : list bool) : N :=
  match l with
  | [] => 0
  | b :: r => bcons b (N_of_bits r)
  end.

Definition to_N (w : word) : N := N_of_bits (bits w).

(* the k low bits of n, least significant first *)
Fixpoint bits_of_N (k : nat) (n : N) : list bool :=
  match k with
  | O => []
  | S k' => N.odd n :: bits_of_N k' (N.div2 n)
  end.

Definition word_of_N (n : N) : word := of_bits (bits_of_N 32 n).

(* big endian: b0 is the most significant byte *)
Definition word_of_4bytes (b0 b1 b2 b3 : N) : word :=
  of_bits (bits_of_N 8 b3 ++ bits_of_N 8 b2 ++ bits_of_N 8 b1 ++ bits_of_N 8 b0).

Fixpoint words_of_bytes_f (b : list N) : list word :=
  match b with
  | b0 :: b1 :: b2 :: b3 :: r => word_of_4bytes b0 b1 b2 b3 :: words_of_bytes_f r
  | _ => []
  end.

Definition bytes_of_word_f (w : word) : list N :=
  [N_of_bits [b24 w; b25 w; b26 w; b27 w; b28 w; b29 w; b30 w; b31 w];
   N_of_bits [b16 w; b17 w; b18 w; b19 w; b20 w; b21 w; b22 w; b23 w];
   N_of_bits [b08 w; b09 w; b10 w; b11 w; b12 w; b13 w; b14 w; b15 w];
   N_of_bits [b00 w; b01 w; b02 w; b03 w; b04 w; b05 w; b06 w; b07 w]].

(* ---------- the functions of the standard on words --------------------------------------------------- *)
Definition P0_f (x : word) : word := xorw (xorw x (rotw9 x)) (rotw17 x).
Definition P1_f (x : word) : word := xorw (xorw x (rotw15 x)) (rotw23 x).

Definition FF_lo (x y z : word) : word := xorw (xorw x y) z.
Definition FF_hi (x y z : word) : word := majw x y z.
Definition GG_lo (x y z : word) : word := xorw (xorw x y) z.
Definition GG_hi (x y z : word) : word := muxw x y z.

(* W_j from the window W_{j-1}, W_{j-2}, ... (newest first) *)
Definition next_f (rv : list word) : word :=
  match rv with
  | w1 :: w2 :: w3 :: w4 :: w5 :: w6 :: w7 :: w8 :: w9 :: w10 :: w11 :: w12 :: w13 :: w14 :: w15 :: w16 :: _ =>
    xorw (xorw (P1_f (xorw (xorw w16 w9) (rotw15 w3))) (rotw7 w13)) w6
  | _ => zero_word
  end.

Fixpoint expand_rev (n : nat) (rv : list word) : list word :=
  match n with
  | O => rv
  | S n' => expand_rev n' (next_f rv :: rv)
  end.

Definition expand_f (ws16 : list word) : list word :=
  rev_append (expand_rev 52 (rev_append ws16 [])) [].

Definition regsw : Type := (word * word * word * word * word * word * word * word)%type.

(* one round: w = W_j, w' = W'_j, t = T_j <<< j *)
Definition round_f (lo : bool) (w w' t : word) (r : regsw) : regsw :=
  let '(A, B, C, D, E, F, G, H) := r in
  let a12 := rotw12 A in
  let SS1 := rotw7 (addw (addw a12 E) t) in
  let SS2 := xorw SS1 a12 in
  let TT1 := addw (addw (addw (if lo then FF_lo A B C else FF_hi A B C) D) SS2) w' in
  let TT2 := addw (addw (addw (if lo then GG_lo E F G else GG_hi E F G) H) SS1) w in
  (TT1, A, rotw9 B, C, P0_f TT2, E, rotw19 F, G).

(* n rounds walking W_j.., W_{j+4}.., T_j.. in step *)
Fixpoint rounds_f (lo : bool) (n : nat) (ws ws4 ts : list word) (r : regsw) : regsw :=
  match n with
  | O => r
  | S n' =>
    match ws, ws4, ts with
    | w :: ws', w4 :: ws4', t :: ts' => rounds_f lo n' ws' ws4' ts' (round_f lo w (xorw w w4) t r)
    | _, _, _ => r
    end
  end.

(* T_j <<< j for j = 0..63 (computed once) *)
Definition Tj_table : list word :=
  map (fun j => word_of_N (rotl32 (T j) (N.of_nat j))) (seq 0 64).

Definition cf_f (V : list word) (B : list N) : list word :=
  match V with
  | [a; b; c; d; e; f; g; h] =>
    let W := expand_f (words_of_bytes_f B) in
    let r1 := rounds_f true 16 W (skipn 4 W) Tj_table (a, b, c, d, e, f, g, h) in
    let '(A1, B1, C1, D1, E1, F1, G1, H1) :=
      rounds_f false 48 (skipn 16 W) (skipn 20 W) (skipn 16 Tj_table) r1 in
    [xorw a A1; xorw b B1; xorw c C1; xorw d D1; xorw e E1; xorw f F1; xorw g G1; xorw h H1]
  | _ => V
  end.

Fixpoint blocks_f (fuel : list N) (V : list word) (m : list N) : list word :=
  match fuel with
  | [] => V
  | _ :: fuel' =>
    let b := firstn 64 m in
    if (length b =? 64)%nat then blocks_f fuel' (cf_f V b) (skipn 64 m) else V
  end.

Definition iv_f : list word := map word_of_N sm3_iv.

Definition all_bytes (m : list N) : bool := forallb (fun b => b <? 256) m.

Definition sm3_fast (m : list N) : list N :=
  if all_bytes m
  then let pm := sm3_pad m in flat_map bytes_of_word_f (blocks_f pm iv_f pm)
  else sm3 m.

(* HMAC-SM3 and PBKDF2-HMAC-SM3 (HMACSpec.v) over sm3_fast *)
Definition hmac_sm3_fast (key msg : list N) : list N :=
  let k0 := if (64 <? length key)%nat then sm3_fast key else key in
  let k := k0 ++ repeat 0 (64 - length k0) in
  sm3_fast (map (N.lxor 0x5c) k ++ sm3_fast (map (N.lxor 0x36) k ++ msg)).
