(* Proofs for SM3Fast, part 1: lists of booleans as numbers, and the record word operations of
   SM3FastWord.v as the word operations of SM3Spec on to_N. *)
From Coq Require Import List NArith Arith Lia ZifyN ZifyNat ZifyBool Bool.
From GmsmVerif Require Import SM3.SM3Spec SM3.SM3Arith SM3.SM3ArithProofs SM3.SM3FastWord SM3.SM3Fast.
Import ListNotations.
Open Scope N_scope.

(* ---------- list-level operations the record operations are instances of ------------------------------ *)
Fixpoint zipw (f : bool -> bool -> bool) (l1 l2 : list bool) : list bool :=
  match l1, l2 with
  | x :: r1, y :: r2 => f x y :: zipw f r1 r2
  | _, _ => []
  end.

Fixpoint add_bits (l1 l2 : list bool) (c : bool) : list bool :=
  match l1, l2 with
  | x :: r1, y :: r2 => let p := xorb x y in xorb p c :: add_bits r1 r2 (if p then c else x)
  | _, _ => []
  end.

Definition rot_list (k : nat) (l : list bool) : list bool := skipn (32 - k) l ++ firstn (32 - k) l.

(* ---------- bcons / N_of_bits ---------------------------------------------------------------------------- *)
Lemma bcons_spec b n : bcons b n = 2 * n + N.b2n b.
Proof. destruct b; unfold bcons; cbn [N.b2n]; [rewrite N.succ_double_spec|rewrite N.double_spec]; lia. Qed.

Lemma N_of_bits_lt l : N_of_bits l < 2 ^ N.of_nat (length l).
Proof.
  induction l as [|b l IH]; cbn [N_of_bits length].
  - reflexivity.
  - rewrite bcons_spec, Nat2N.inj_succ, N.pow_succ_r'. destruct b; cbn [N.b2n]; lia.
Qed.

Lemma N_of_bits_app l1 l2 : N_of_bits (l1 ++ l2) = N_of_bits l1 + 2 ^ N.of_nat (length l1) * N_of_bits l2.
Proof.
  induction l1 as [|b l1 IH]; cbn [N_of_bits length app].
  - change (2 ^ N.of_nat 0) with 1. lia.
  - rewrite !bcons_spec, IH, Nat2N.inj_succ, N.pow_succ_r'. lia.
Qed.

Lemma lxor_bcons x p y q : N.lxor (bcons x p) (bcons y q) = bcons (xorb x y) (N.lxor p q).
Proof. destruct x, y; destruct p, q; reflexivity. Qed.

Lemma land_bcons x p y q : N.land (bcons x p) (bcons y q) = bcons (andb x y) (N.land p q).
Proof. destruct x, y; destruct p, q; reflexivity. Qed.

Lemma lor_bcons x p y q : N.lor (bcons x p) (bcons y q) = bcons (orb x y) (N.lor p q).
Proof. destruct x, y; destruct p, q; reflexivity. Qed.

Lemma zip_lxor l1 : forall l2, length l1 = length l2 ->
  N.lxor (N_of_bits l1) (N_of_bits l2) = N_of_bits (zipw xorb l1 l2).
Proof.
  induction l1 as [|x l1 IH]; intros [|y l2] H; cbn in H; try lia; cbn [N_of_bits zipw]; [reflexivity|].
  rewrite lxor_bcons, IH by lia. reflexivity.
Qed.

Lemma zip_land l1 : forall l2, length l1 = length l2 ->
  N.land (N_of_bits l1) (N_of_bits l2) = N_of_bits (zipw andb l1 l2).
Proof.
  induction l1 as [|x l1 IH]; intros [|y l2] H; cbn in H; try lia; cbn [N_of_bits zipw]; [reflexivity|].
  rewrite land_bcons, IH by lia. reflexivity.
Qed.

Lemma zip_lor l1 : forall l2, length l1 = length l2 ->
  N.lor (N_of_bits l1) (N_of_bits l2) = N_of_bits (zipw orb l1 l2).
Proof.
  induction l1 as [|x l1 IH]; intros [|y l2] H; cbn in H; try lia; cbn [N_of_bits zipw]; [reflexivity|].
  rewrite lor_bcons, IH by lia. reflexivity.
Qed.

Lemma zipw_length f l1 : forall l2, length l1 = length l2 -> length (zipw f l1 l2) = length l1.
Proof.
  induction l1 as [|x l1 IH]; intros [|y l2] H; cbn in H; try lia; cbn [zipw length]; [reflexivity|].
  rewrite IH by lia. reflexivity.
Qed.

(* (2a + s) mod 2m = 2 (a mod m) + s *)
Lemma mod_double a s m : m <> 0 -> s < 2 -> (2 * a + s) mod (2 * m) = 2 * (a mod m) + s.
Proof.
  intros Hm Hs. symmetry. apply (N.mod_unique _ _ (a / m)).
  - pose proof (N.mod_upper_bound a m Hm). lia.
  - pose proof (N.div_mod a m Hm). lia.
Qed.

Lemma add_bits_spec l1 : forall l2 c, length l1 = length l2 ->
  N_of_bits (add_bits l1 l2 c) = (N_of_bits l1 + N_of_bits l2 + N.b2n c) mod 2 ^ N.of_nat (length l1).
Proof.
  induction l1 as [|x l1 IH]; intros [|y l2] c H; cbn in H; try lia; cbn [N_of_bits add_bits length].
  - cbn. rewrite N.mod_1_r. reflexivity.
  - cbv zeta. rewrite IH by lia. rewrite !bcons_spec, Nat2N.inj_succ, N.pow_succ_r'.
    set (m := 2 ^ N.of_nat (length l1)). assert (Hm : m <> 0) by (apply N.pow_nonzero; discriminate).
    set (p := N_of_bits l1). set (q := N_of_bits l2).
    destruct x, y, c; cbn [xorb N.b2n];
      match goal with |- 2 * ((p + q + ?k) mod m) + ?s = ?rhs mod _ =>
        replace rhs with (2 * (p + q + k) + s) by lia; rewrite mod_double by (try exact Hm; lia); reflexivity
      end.
Qed.

Lemma bits_of_N_length k : forall n, length (bits_of_N k n) = k.
Proof. induction k as [|k IH]; intros n; cbn [bits_of_N length]; [reflexivity|rewrite IH; reflexivity]. Qed.

Lemma bits_of_N_spec k : forall n, N_of_bits (bits_of_N k n) = n mod 2 ^ N.of_nat k.
Proof.
  induction k as [|k IH]; intros n; cbn [bits_of_N N_of_bits].
  - cbn. rewrite N.mod_1_r. reflexivity.
  - rewrite bcons_spec, IH, Nat2N.inj_succ, N.pow_succ_r'.
    pose proof (N.div2_odd n) as E.
    assert (Ho : N.b2n (N.odd n) < 2) by (destruct (N.odd n); cbn; lia).
    set (d := N.div2 n) in *. set (o := N.b2n (N.odd n)) in *. clearbody d o.
    rewrite E. rewrite mod_double; [reflexivity|apply N.pow_nonzero; discriminate|exact Ho].
Qed.

(* rotation of a 32-bit list is rotl32 *)
Lemma rot_list_spec k l : length l = 32%nat -> (0 < k < 32)%nat ->
  N_of_bits (rot_list k l) = rotl32 (N_of_bits l) (N.of_nat k).
Proof.
  intros Hl Hk. unfold rot_list.
  set (lo := firstn (32 - k) l). set (hi := skipn (32 - k) l).
  assert (Hlo : length lo = (32 - k)%nat) by (unfold lo; rewrite firstn_length; lia).
  assert (Hhi : length hi = k) by (unfold hi; rewrite skipn_length; lia).
  assert (Hx : N_of_bits l = N_of_bits lo + 2 ^ N.of_nat (32 - k) * N_of_bits hi).
  { rewrite <- (firstn_skipn (32 - k) l). fold lo hi. rewrite N_of_bits_app, Hlo. reflexivity. }
  pose proof (N_of_bits_lt lo) as Blo. pose proof (N_of_bits_lt hi) as Bhi. rewrite Hlo in Blo. rewrite Hhi in Bhi.
  rewrite N_of_bits_app, Hhi.
  set (L := N_of_bits lo) in *. set (Hh := N_of_bits hi) in *. set (x := N_of_bits l) in *.
  assert (Hsplit : 2 ^ 32 = 2 ^ N.of_nat (32 - k) * 2 ^ N.of_nat k)
    by (rewrite <- N.pow_add_r; f_equal; lia).
  assert (Hw : w32 x).
  { unfold w32. rewrite Hx, Hsplit.
    assert (0 < 2 ^ N.of_nat (32 - k)) by (apply N.neq_0_lt_0, N.pow_nonzero; discriminate). nia. }
  rewrite (rotl32_arith x (N.of_nat k) Hw). unfold rotl_a. cbv zeta.
  rewrite (N.mod_small (N.of_nat k) 32) by lia.
  replace (32 - N.of_nat k) with (N.of_nat (32 - k)) by lia.
  assert (P1 : 2 ^ N.of_nat (32 - k) <> 0) by (apply N.pow_nonzero; discriminate).
  assert (P2 : 2 ^ N.of_nat k <> 0) by (apply N.pow_nonzero; discriminate).
  assert (E1 : x / 2 ^ N.of_nat (32 - k) = Hh).
  { symmetry. apply (N.div_unique _ _ _ L); [exact Blo|]. rewrite Hx. lia. }
  assert (E2 : (x * 2 ^ N.of_nat k) mod 2 ^ 32 = L * 2 ^ N.of_nat k).
  { symmetry. apply (N.mod_unique _ _ Hh); [rewrite Hsplit; nia|]. rewrite Hx, Hsplit. lia. }
  rewrite E1, E2. lia.
Qed.

(* ---------- the record operations ----------------------------------------------------------------------- *)
Lemma bits_length w : length (bits w) = 32%nat.
Proof. reflexivity. Qed.

Lemma bits_of_bits l : length l = 32%nat -> bits (of_bits l) = l.
Proof.
  intros H.
  do 32 (destruct l as [|? l]; [cbn in H; lia|]). destruct l; [reflexivity|cbn in H; lia].
Qed.

Lemma to_N_lt w : w32 (to_N w).
Proof. unfold to_N, w32. pose proof (N_of_bits_lt (bits w)) as H. rewrite bits_length in H. exact H. Qed.

Lemma to_N_zero : to_N zero_word = 0.
Proof. reflexivity. Qed.

Lemma xorw_spec a b : to_N (xorw a b) = N.lxor (to_N a) (to_N b).
Proof.
  unfold to_N. rewrite zip_lxor by reflexivity. f_equal; try (destruct a, b; reflexivity).
Qed.

Fixpoint zip3 (f : bool -> bool -> bool -> bool) (la lb lc : list bool) : list bool :=
  match la, lb, lc with
  | x :: ra, y :: rb, z :: rc => f x y z :: zip3 f ra rb rc
  | _, _, _ => []
  end.

Lemma zip3_maj la : forall lb lc,
  zip3 (fun x y z => if x then orb y z else andb y z) la lb lc =
  zipw orb (zipw orb (zipw andb la lb) (zipw andb la lc)) (zipw andb lb lc).
Proof.
  induction la as [|x la IH]; intros [|y lb] [|z lc]; cbn [zip3 zipw]; try reflexivity.
  f_equal; [destruct x, y, z; reflexivity|apply IH].
Qed.

Lemma zip3_mux la : forall lb lc n,
  zip3 (fun x y z => if x then y else z) la lb lc =
  zipw orb (zipw andb la lb) (zipw andb (zipw xorb la (repeat true (length la + n))) lc).
Proof.
  induction la as [|x la IH]; intros [|y lb] [|z lc] n; cbn [zip3 zipw length repeat Nat.add]; try reflexivity.
  f_equal; [destruct x, y, z; reflexivity|apply IH].
Qed.

Lemma majw_spec a b c :
  to_N (majw a b c) = N.lor (N.lor (N.land (to_N a) (to_N b)) (N.land (to_N a) (to_N c))) (N.land (to_N b) (to_N c)).
Proof.
  unfold to_N.
  rewrite !zip_land by reflexivity.
  rewrite zip_lor by (rewrite !zipw_length; reflexivity).
  rewrite zip_lor by (rewrite !zipw_length; reflexivity).
  rewrite <- zip3_maj. f_equal; try (destruct a, b, c; reflexivity).
Qed.

Lemma ones32_bits : mask32 = N_of_bits (repeat true 32).
Proof. reflexivity. Qed.

Lemma muxw_spec a b c :
  to_N (muxw a b c) = N.lor (N.land (to_N a) (to_N b)) (N.land (not32 (to_N a)) (to_N c)).
Proof.
  unfold to_N, not32. rewrite ones32_bits.
  rewrite (zip_lxor (bits a)) by reflexivity.
  rewrite !zip_land by (rewrite ?zipw_length; reflexivity).
  rewrite zip_lor by (rewrite !zipw_length; reflexivity).
  change 32%nat with (length (bits a) + 0)%nat. rewrite <- zip3_mux.
  f_equal; try (destruct a, b, c; reflexivity).
Qed.

Lemma addw_spec a b : to_N (addw a b) = add32 (to_N a) (to_N b).
Proof.
  rewrite add32_arith. unfold add_a, to_N.
  assert (E : bits (addw a b) = add_bits (bits a) (bits b) false) by (destruct a, b; reflexivity).
  rewrite E, add_bits_spec by reflexivity. rewrite bits_length. cbn [N.b2n]. rewrite N.add_0_r. reflexivity.
Qed.

Lemma rotw7_spec a : to_N (rotw7 a) = rotl32 (to_N a) 7.
Proof. unfold to_N. rewrite <- (rot_list_spec 7) by (try reflexivity; lia). f_equal; try (destruct a; reflexivity). Qed.
Lemma rotw9_spec a : to_N (rotw9 a) = rotl32 (to_N a) 9.
Proof. unfold to_N. rewrite <- (rot_list_spec 9) by (try reflexivity; lia). f_equal; try (destruct a; reflexivity). Qed.
Lemma rotw12_spec a : to_N (rotw12 a) = rotl32 (to_N a) 12.
Proof. unfold to_N. rewrite <- (rot_list_spec 12) by (try reflexivity; lia). f_equal; try (destruct a; reflexivity). Qed.
Lemma rotw15_spec a : to_N (rotw15 a) = rotl32 (to_N a) 15.
Proof. unfold to_N. rewrite <- (rot_list_spec 15) by (try reflexivity; lia). f_equal; try (destruct a; reflexivity). Qed.
Lemma rotw17_spec a : to_N (rotw17 a) = rotl32 (to_N a) 17.
Proof. unfold to_N. rewrite <- (rot_list_spec 17) by (try reflexivity; lia). f_equal; try (destruct a; reflexivity). Qed.
Lemma rotw19_spec a : to_N (rotw19 a) = rotl32 (to_N a) 19.
Proof. unfold to_N. rewrite <- (rot_list_spec 19) by (try reflexivity; lia). f_equal; try (destruct a; reflexivity). Qed.
Lemma rotw23_spec a : to_N (rotw23 a) = rotl32 (to_N a) 23.
Proof. unfold to_N. rewrite <- (rot_list_spec 23) by (try reflexivity; lia). f_equal; try (destruct a; reflexivity). Qed.

(* ---------- conversions ------------------------------------------------------------------------------------ *)
Lemma word_of_N_spec n : w32 n -> to_N (word_of_N n) = n.
Proof.
  intros H. unfold to_N, word_of_N. rewrite bits_of_bits by apply bits_of_N_length.
  rewrite bits_of_N_spec. apply N.mod_small. exact H.
Qed.

Lemma word_of_4bytes_spec b0 b1 b2 b3 : byte_ok b0 -> byte_ok b1 -> byte_ok b2 -> byte_ok b3 ->
  to_N (word_of_4bytes b0 b1 b2 b3) = be32 b0 b1 b2 b3.
Proof.
  intros H0 H1 H2 H3. destruct (be32_arith b0 b1 b2 b3 H0 H1 H2 H3) as [E _]. rewrite E.
  unfold to_N, word_of_4bytes.
  rewrite bits_of_bits by (rewrite !app_length, !bits_of_N_length; reflexivity).
  rewrite !N_of_bits_app, !bits_of_N_length, !bits_of_N_spec.
  unfold byte_ok in *. rewrite !N.mod_small by assumption.
  unfold be32_a. change (N.of_nat 8) with 8. change (2 ^ 8) with 256. change (2 ^ 16) with 65536. change (2 ^ 24) with 16777216. lia.
Qed.

Lemma bytes_of_word_f_spec w : bytes_of_word_f w = bytes_of_word (to_N w).
Proof.
  rewrite bytes_of_word_arith. unfold bytes_of_word_a, bytes_of_word_f, to_N.
  destruct w as [x0 x1 x2 x3 x4 x5 x6 x7 x8 x9 x10 x11 x12 x13 x14 x15 x16 x17 x18 x19 x20 x21 x22 x23 x24 x25 x26 x27 x28 x29 x30 x31].
  cbv [bits b00 b01 b02 b03 b04 b05 b06 b07 b08 b09 b10 b11 b12 b13 b14 b15 b16
    b17 b18 b19 b20 b21 b22 b23 b24 b25 b26 b27 b28 b29 b30 b31].
  change [x0; x1; x2; x3; x4; x5; x6; x7; x8; x9; x10; x11; x12; x13; x14; x15; x16; x17; x18; x19; x20; x21; x22; x23;
          x24; x25; x26; x27; x28; x29; x30; x31]
    with ([x0; x1; x2; x3; x4; x5; x6; x7] ++ [x8; x9; x10; x11; x12; x13; x14; x15] ++
          [x16; x17; x18; x19; x20; x21; x22; x23] ++ [x24; x25; x26; x27; x28; x29; x30; x31]).
  set (l0 := [x0; x1; x2; x3; x4; x5; x6; x7]). set (l1 := [x8; x9; x10; x11; x12; x13; x14; x15]).
  set (l2 := [x16; x17; x18; x19; x20; x21; x22; x23]). set (l3 := [x24; x25; x26; x27; x28; x29; x30; x31]).
  rewrite !N_of_bits_app.
  pose proof (N_of_bits_lt l0) as B0. pose proof (N_of_bits_lt l1) as B1.
  pose proof (N_of_bits_lt l2) as B2. pose proof (N_of_bits_lt l3) as B3.
  change (length l0) with 8%nat in *. change (length l1) with 8%nat in *.
  change (length l2) with 8%nat in *. change (length l3) with 8%nat in *.
  change (N.of_nat 8) with 8 in *. change (2 ^ 8) with 256 in *. change (2 ^ 16) with 65536. change (2 ^ 24) with 16777216.
  set (n0 := N_of_bits l0) in *. set (n1 := N_of_bits l1) in *. set (n2 := N_of_bits l2) in *. set (n3 := N_of_bits l3) in *.
  repeat f_equal; lia.
Qed.
