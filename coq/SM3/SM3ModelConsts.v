(* The model of sm3/sm3.go with every numeric constant taken from a record: rotation amounts, the two
   T constants, loop bounds, array sizes, index offsets, block and digest size, the constants of pad.
   [K_model] holds the values SM3Model.v hard-codes; [K_gen] is built from coq/Gen/SM3Consts.v, i.e.
   from what the translator reads in /repo/sm3/sm3.go on every run.  SM3ConstsProofs.v proves
   (1) every model function is the parametrised function at K_model and (2) K_gen = K_model; so a
   change of a rotation amount, a loop bound or a constant in the source breaks a theorem.
   Definitions only. *)
From Coq Require Import List NArith Arith.
From GmsmVerif Require Import Lib.Outcome SM3.SM3Spec SM3.SM3Model Gen.SM3Consts.
Import ListNotations.
Open Scope N_scope.

Record consts : Type := mkConsts {
  k_p0a : N; k_p0b : N; k_p1a : N; k_p1b : N;               (* p0: 9, 17; p1: 15, 23 *)
  k_rm0 : N; k_rm1 : N; k_rm2 : N;                           (* leftRotate: x<<(i%32) | x>>(32-i%32) *)
  k_e1 : N; k_e2 : N;                                        (* expansion: <<<15, <<<7 *)
  k_lo_ss1 : N; k_lo_a : N; k_lo_ss2 : N; k_lo_b : N; k_lo_f : N;   (* rounds 0-15: 7, 12, 12, 9, 19 *)
  k_hi_ss1 : N; k_hi_a : N; k_hi_ss2 : N; k_hi_b : N; k_hi_f : N;   (* rounds 16-63 *)
  k_Tlo : N; k_Thi : N;
  k_l1 : nat * nat; k_l2 : nat * nat; k_l3 : nat * nat; k_l4 : nat * nat; k_l5 : nat * nat;   (* the five for loops *)
  k_cond : nat; k_step : nat; k_word : nat;                  (* len(msg) >= 64; msg[64:]; msg[4*i:...] *)
  k_wlen : nat; k_w1len : nat;                               (* [68]uint32, [64]uint32 *)
  k_o16 : nat; k_o9 : nat; k_o3 : nat; k_o13 : nat; k_o6 : nat; k_o4 : nat;   (* w[i-16] ... w[i+4] *)
  k_pad_first : N; k_pad_fill : N;                           (* 0x80, 0x00 *)
  k_pad_bs : nat; k_pad_target : nat;                        (* blockSize := 64; != 56 *)
  k_pad_shifts : list N; k_pad_masks : list N;               (* >>56 ... >>0, &0xff *)
  k_pad_chk_val : nat; k_pad_chk_mod : nat;                  (* len(msg)%64 != 0 *)
  k_BlockSize : nat; k_Size : nat; k_bits : N;               (* BlockSize(), Size(), len(p)*8 *)
  k_sum_loop : nat * nat                                     (* for i := 0; i < 8; i++ in Sum *)
}.

Definition K_model : consts :=
  mkConsts 9 17 15 23  32 32 32  15 7  7 12 12 9 19  7 12 12 9 19  0x79cc4519 0x7a879d8a
           (0, 16)%nat (16, 68)%nat (0, 64)%nat (0, 16)%nat (16, 64)%nat
           64 64 4  68 64  16 9 3 13 6 4
           0x80 0  64 56  [56; 48; 40; 32; 24; 16; 8; 0] [0xff; 0xff; 0xff; 0xff; 0xff; 0xff; 0xff; 0xff]
           0 64  64 32 8  (0, 8)%nat.

Definition gN (l : list N) (i : nat) : N := nth i l 0.
Definition gn (l : list N) (i : nat) : nat := N.to_nat (nth i l 0).
Definition gpair (l : list (list N)) (i : nat) : nat * nat := (gn (nth i l []) 0, gn (nth i l []) 1).

Definition K_gen : consts :=
  mkConsts (gN gen_p0_rots 0) (gN gen_p0_rots 1) (gN gen_p1_rots 0) (gN gen_p1_rots 1)
           (gN gen_leftRotate_lits 0) (gN gen_leftRotate_lits 1) (gN gen_leftRotate_lits 2)
           (gN gen_update_rots 0) (gN gen_update_rots 1)
           (gN gen_update_rots 2) (gN gen_update_rots 3) (gN gen_update_rots 4) (gN gen_update_rots 5) (gN gen_update_rots 6)
           (gN gen_update_rots 7) (gN gen_update_rots 8) (gN gen_update_rots 9) (gN gen_update_rots 10) (gN gen_update_rots 11)
           (gN gen_update_T 0) (gN gen_update_T 1)
           (gpair gen_update_loops 0) (gpair gen_update_loops 1) (gpair gen_update_loops 2)
           (gpair gen_update_loops 3) (gpair gen_update_loops 4)
           (gn gen_update_conds 0) (gn gen_update_slices 1) (gn gen_update_slices 0)
           (gn gen_update_arrays 0) (gn gen_update_arrays 1)
           (gn gen_update_w_minus 0) (gn gen_update_w_minus 1) (gn gen_update_w_minus 2)
           (gn gen_update_w_minus 3) (gn gen_update_w_minus 4) (gn gen_update_w_plus 0)
           (gN gen_pad_appends 0) (gN gen_pad_appends 1)
           (gn gen_pad_assigns 0) (gn gen_pad_neqs 0)
           gen_pad_shifts gen_pad_masks
           (gn gen_pad_neqs 1) (gn gen_pad_neqs 2)
           (N.to_nat gen_BlockSize) (N.to_nat gen_Size) (gN gen_Write_muls 0)
           (gpair gen_Sum_loops 0).

(* the shape of the source: how many constants of each kind it contains *)
Definition gen_shape : list nat :=
  [length gen_p0_rots; length gen_p1_rots; length gen_leftRotate_lits; length gen_update_rots; length gen_update_T;
   length gen_update_loops; length gen_update_conds; length gen_update_arrays; length gen_update_w_minus;
   length gen_update_w_plus; length gen_update_slices; length gen_pad_appends; length gen_pad_assigns;
   length gen_pad_neqs; length gen_pad_shifts; length gen_pad_masks; length gen_Write_muls; length gen_Sum_loops].
Definition model_shape : list nat := [2; 2; 3; 12; 2; 5; 1; 2; 5; 1; 2; 2; 1; 3; 8; 8; 1; 1]%nat.

Section WithConsts.
  Variable K : consts.

  Definition range (ab : nat * nat) : list nat := seq (fst ab) (snd ab - fst ab).

  Definition leftRotate_K (x i : N) : N :=
    trunc32 (N.lor (N.shiftl x (i mod k_rm0 K)) (N.shiftr x (k_rm1 K - i mod k_rm2 K))).
  Definition p0_K (x : N) : N := N.lxor (N.lxor x (leftRotate_K x (k_p0a K))) (leftRotate_K x (k_p0b K)).
  Definition p1_K (x : N) : N := N.lxor (N.lxor x (leftRotate_K x (k_p1a K))) (leftRotate_K x (k_p1b K)).

  Definition load_w_K (msg : list N) (w : list N) : list N :=
    fold_left (fun w i =>
      upd w i (Uint32 (nth (k_word K * i) msg 0) (nth (k_word K * i + 1) msg 0)
                      (nth (k_word K * i + 2) msg 0) (nth (k_word K * i + 3) msg 0)))
      (range (k_l1 K)) w.

  Definition expand_w_K (w : list N) : list N :=
    fold_left (fun w i =>
      upd w i (N.lxor (N.lxor (p1_K (N.lxor (N.lxor (nth (i - k_o16 K) w 0) (nth (i - k_o9 K) w 0))
                                            (leftRotate_K (nth (i - k_o3 K) w 0) (k_e1 K))))
                              (leftRotate_K (nth (i - k_o13 K) w 0) (k_e2 K)))
                      (nth (i - k_o6 K) w 0)))
      (range (k_l2 K)) w.

  Definition fill_w1_K (w w1 : list N) : list N :=
    fold_left (fun w1 i => upd w1 i (N.lxor (nth i w 0) (nth (i + k_o4 K) w 0))) (range (k_l3 K)) w1.

  Definition round_lo_K (w w1 : list N) (r : regs) (i : nat) : regs :=
    let '(A, B, C, D, E, F, G, H) := r in
    let SS1 := leftRotate_K (add32 (add32 (leftRotate_K A (k_lo_a K)) E) (leftRotate_K (k_Tlo K) (N.of_nat i))) (k_lo_ss1 K) in
    let SS2 := N.lxor SS1 (leftRotate_K A (k_lo_ss2 K)) in
    let TT1 := add32 (add32 (add32 (ff0 A B C) D) SS2) (nth i w1 0) in
    let TT2 := add32 (add32 (add32 (gg0 E F G) H) SS1) (nth i w 0) in
    let D := C in let C := leftRotate_K B (k_lo_b K) in let B := A in let A := TT1 in
    let H := G in let G := leftRotate_K F (k_lo_f K) in let F := E in let E := p0_K TT2 in
    (A, B, C, D, E, F, G, H).

  Definition round_hi_K (w w1 : list N) (r : regs) (i : nat) : regs :=
    let '(A, B, C, D, E, F, G, H) := r in
    let SS1 := leftRotate_K (add32 (add32 (leftRotate_K A (k_hi_a K)) E) (leftRotate_K (k_Thi K) (N.of_nat i))) (k_hi_ss1 K) in
    let SS2 := N.lxor SS1 (leftRotate_K A (k_hi_ss2 K)) in
    let TT1 := add32 (add32 (add32 (ff1 A B C) D) SS2) (nth i w1 0) in
    let TT2 := add32 (add32 (add32 (gg1 E F G) H) SS1) (nth i w 0) in
    let D := C in let C := leftRotate_K B (k_hi_b K) in let B := A in let A := TT1 in
    let H := G in let G := leftRotate_K F (k_hi_f K) in let F := E in let E := p0_K TT2 in
    (A, B, C, D, E, F, G, H).

  Definition block_body_K (w w1 : list N) (r : regs) (msg : list N) : list N * list N * regs :=
    let '(a, b, c, d, e, f, g, h) := r in
    let w := load_w_K msg w in
    let w := expand_w_K w in
    let w1 := fill_w1_K w w1 in
    let R := (a, b, c, d, e, f, g, h) in
    let R := fold_left (round_lo_K w w1) (range (k_l4 K)) R in
    let R := fold_left (round_hi_K w w1) (range (k_l5 K)) R in
    let '(A, B, C, D, E, F, G, H) := R in
    (w, w1, (N.lxor a A, N.lxor b B, N.lxor c C, N.lxor d D, N.lxor e E, N.lxor f F, N.lxor g G, N.lxor h H)).

  Definition ge_K (msg : list N) : bool := (length (firstn (k_cond K) msg) =? k_cond K)%nat.

  Fixpoint block_loop_K (fuel : list N) (w w1 : list N) (r : regs) (msg : list N) : regs :=
    match fuel with
    | [] => r
    | _ :: fuel' =>
      if ge_K msg then
        let '(w, w1, r) := block_body_K w w1 r msg in
        block_loop_K fuel' w w1 r (skipn (k_step K) msg)
      else r
    end.

  Definition update2_K (sm3 : SM3) (msg : list N) : list N :=
    digest_of_regs (block_loop_K msg (repeat 0 (k_wlen K)) (repeat 0 (k_w1len K)) (regs_of_digest (s_digest sm3)) msg).

  Definition update_K (sm3 : SM3) (msg : list N) : SM3 :=
    mkSM3 (update2_K sm3 msg) (s_length sm3) (s_unhandleMsg sm3).

  Fixpoint pad_loop_K (fuel : nat) (msg : list N) : outcome (list N) :=
    match fuel with
    | O => Hang
    | S fuel' =>
      if (length msg mod k_pad_bs K =? k_pad_target K)%nat then Ok msg else pad_loop_K fuel' (msg ++ [k_pad_fill K])
    end.

  Definition pad_K (sm3 : SM3) : outcome (list N) :=
    let msg := s_unhandleMsg sm3 ++ [k_pad_first K] in
    do msg <- pad_loop_K 64 msg;
    let l := s_length sm3 in
    let msg := fold_left (fun msg sm => msg ++ [uint8 (N.land (N.shiftr l (fst sm)) (snd sm))])
                         (combine (k_pad_shifts K) (k_pad_masks K)) msg in
    if negb (length msg mod k_pad_chk_mod K =? k_pad_chk_val K)%nat then Panic else Ok msg.

  Definition Write_K (sm3 : SM3) (p : list N) : SM3 * N :=
    let toWrite := lenN p in
    let sm3 := mkSM3 (s_digest sm3) (uint64 (s_length sm3 + uint64 (lenN p * k_bits K))) (s_unhandleMsg sm3) in
    let msg := s_unhandleMsg sm3 ++ p in
    let nblocks := (length msg / k_BlockSize K)%nat in
    let sm3 := update_K sm3 msg in
    let sm3 := mkSM3 (s_digest sm3) (s_length sm3) (skipn (nblocks * k_BlockSize K) msg) in
    (sm3, toWrite).

  Definition Sum_K (sm3 : SM3) (in_ : list N) : outcome (list N) :=
    do msg <- pad_K sm3;
    let digest := update2_K sm3 msg in
    Ok (in_ ++ flat_map PutUint32 digest).
End WithConsts.
