(* The parts of the model of sm3/sm3.go that are NOT regenerated from the source (Gen/SM3Code.v covers
   the block body of update/update2 and the length bytes of pad, see SM3CodeTie.v) with their numeric
   constants taken from a record: the block loop (len(msg) >= 64, msg[64:]), the scratch array sizes,
   pad's first byte / fill byte / block size / target residue, BlockSize(), Size(), len(p)*8.
   [K_model] holds the values SM3Model.v hard-codes; [K_gen] is built from coq/Gen/SM3Consts.v, i.e.
   from what the translator reads in /repo/sm3/sm3.go on every run.  SM3ConstsProofs.v proves
   (1) every such model function is the parametrised function at K_model and (2) K_gen = K_model.
   Definitions only. *)
From Coq Require Import List NArith Arith.
From GmsmVerif Require Import Lib.Outcome SM3.SM3Spec SM3.SM3Model Gen.SM3Consts Gen.SM3Code.
Import ListNotations.
Open Scope N_scope.

Record consts : Type := mkConsts {
  k_cond : nat; k_step : nat;                                (* for len(msg) >= 64 { ...; msg = msg[64:] } *)
  k_wlen : nat; k_w1len : nat;                               (* var w [68]uint32; var w1 [64]uint32 *)
  k_pad_first : N; k_pad_fill : N;                           (* append(msg, 0x80); append(msg, 0x00) *)
  k_pad_bs : nat; k_pad_target : nat;                        (* blockSize := 64; len(msg)%blockSize != 56 *)
  k_BlockSize : nat; k_Size : nat; k_bits : N                (* BlockSize(), Size(), len(p)*8 *)
}.

Definition K_model : consts := mkConsts 64 64 68 64 0x80 0 64 56 64 32 8.

Definition gN (l : list N) (i : nat) : N := nth i l 0.
Definition gn (l : list N) (i : nat) : nat := N.to_nat (nth i l 0).

Definition K_gen : consts :=
  mkConsts (gn gen_update_conds 0) (N.to_nat (last gen_update_slices 0))
           (gn gen_update_arrays 0) (gn gen_update_arrays 1)
           (gN gen_pad_appends 0) (gN gen_pad_appends 1)
           (gn gen_pad_assigns 0) (gn gen_pad_neqs 0)
           (N.to_nat gen_BlockSize) (N.to_nat gen_Size) (gN gen_Write_muls 0).

Section WithConsts.
  Variable K : consts.

  Definition ge_K (msg : list N) : bool := (length (firstn (k_cond K) msg) =? k_cond K)%nat.

  Fixpoint block_loop_K (fuel : list N) (w w1 : list N) (r : regs) (msg : list N) : regs :=
    match fuel with
    | [] => r
    | _ :: fuel' =>
      if ge_K msg then
        let '(w, w1, r) := block_body w w1 r msg in
        block_loop_K fuel' w w1 r (skipn (k_step K) msg)
      else r
    end.

  Definition update2_K (sm3 : SM3) (msg : list N) : list N :=
    digest_of_regs (block_loop_K msg (repeat 0 (k_wlen K)) (repeat 0 (k_w1len K)) (regs_of_digest (s_digest sm3)) msg).

  Definition update_K (sm3 : SM3) (msg : list N) : SM3 :=
    mkSM3 (update2_K sm3 msg) (s_length sm3) (s_unhandleMsg sm3).

  Fixpoint pad_loop_K (fuel : nat) (msg : list N) : outcome (list N) :=
    match fuel with
    | O => Hang
    | S fuel' =>
      if (length msg mod k_pad_bs K =? k_pad_target K)%nat then Ok msg else pad_loop_K fuel' (msg ++ [k_pad_fill K])
    end.

  (* the length bytes are the GENERATED gen_pad_length; the final sanity check (dead code: the length is a
     multiple of 64 by construction) is kept as in the model *)
  Definition pad_K (sm3 : SM3) : outcome (list N) :=
    let msg := s_unhandleMsg sm3 ++ [k_pad_first K] in
    do msg <- pad_loop_K 64 msg;
    let msg := gen_pad_length (s_length sm3) msg in
    if negb (length msg mod 64 =? 0)%nat then Panic else Ok msg.

  Definition Write_K (sm3 : SM3) (p : list N) : SM3 * N :=
    let toWrite := lenN p in
    let sm3 := mkSM3 (s_digest sm3) (uint64 (s_length sm3 + uint64 (lenN p * k_bits K))) (s_unhandleMsg sm3) in
    let msg := s_unhandleMsg sm3 ++ p in
    let nblocks := (length msg / k_BlockSize K)%nat in
    let sm3 := update_K sm3 msg in
    let sm3 := mkSM3 (s_digest sm3) (s_length sm3) (skipn (nblocks * k_BlockSize K) msg) in
    (sm3, toWrite).

  Definition Sum_K (sm3 : SM3) (in_ : list N) : outcome (list N) :=
    do msg <- pad_K sm3;
    let digest := update2_K sm3 msg in
    Ok (in_ ++ flat_map PutUint32 digest).
End WithConsts.
