(* The word operations of SM3Spec (N.land masks, shifts, N.lor) are the arithmetic operations of
   SM3Arith on words below 2^32; every intermediate value of the compression function is below 2^32;
   hence sm3_cf = cf_a and sm3 = sm3_a on well-formed input.  Restated in Props/C04.v. *)
From Coq Require Import List NArith Arith Lia ZifyN ZifyNat ZifyBool Bool.
From GmsmVerif Require Import SM3.SM3Spec SM3.SM3Arith.
Import ListNotations.
Open Scope N_scope.

Definition w32 (x : N) : Prop := x < 2 ^ 32.
Definition byte_ok (b : N) : Prop := b < 2 ^ 8.

(* ---------- bits of bounded numbers ------------------------------------------------------------------ *)
Lemma testbit_high a n j : a < 2 ^ n -> n <= j -> N.testbit a j = false.
Proof.
  intros Ha Hj. rewrite <- (N.mod_small a (2 ^ n) Ha). apply N.mod_pow2_bits_high. exact Hj.
Qed.

Lemma lor_add_disjoint a b : N.land a b = 0 -> N.lor a b = a + b.
Proof. intros H. rewrite <- N.lxor_lor by exact H. symmetry. apply N.add_nocarry_lxor. exact H. Qed.

(* a number shifted left by n and a number below 2^n have no bit in common *)
Lemma shiftl_lor_low b n a : a < 2 ^ n -> N.lor (N.shiftl b n) a = b * 2 ^ n + a.
Proof.
  intros Ha. rewrite lor_add_disjoint; [rewrite N.shiftl_mul_pow2; reflexivity|].
  apply N.bits_inj; intros i. rewrite N.land_spec, N.bits_0.
  destruct (N.lt_ge_cases i n) as [Hi|Hi].
  - rewrite N.shiftl_spec_low by exact Hi. reflexivity.
  - rewrite (testbit_high a n i Ha Hi). apply andb_false_r.
Qed.

(* ---------- trunc32, add32, not32 ------------------------------------------------------------------- *)
Lemma trunc32_lt x : w32 (trunc32 x).
Proof. unfold w32. rewrite trunc32_mod. apply N.mod_upper_bound. discriminate. Qed.

Lemma trunc32_id x : w32 x -> trunc32 x = x.
Proof. intros H. rewrite trunc32_mod. apply N.mod_small. exact H. Qed.

Lemma w32_of_fix x : trunc32 x = x -> w32 x.
Proof. intros H. rewrite <- H. apply trunc32_lt. Qed.

Lemma add32_arith a b : add32 a b = add_a a b.
Proof. unfold add32, add_a. apply trunc32_mod. Qed.

Lemma add32_lt a b : w32 (add32 a b).
Proof. apply trunc32_lt. Qed.

Lemma not32_arith a : w32 a -> not32 a = not_a a.
Proof.
  intros Ha. unfold not32, not_a, mask32. change 0xffffffff with (N.ones 32).
  change (N.lxor a (N.ones 32)) with (N.lnot a 32).
  destruct (N.eq_dec a 0) as [->|Hn].
  - reflexivity.
  - rewrite N.lnot_sub_low by (apply N.log2_lt_pow2; [lia|exact Ha]).
    rewrite N.ones_equiv. lia.
Qed.

Lemma w32_bits x : (forall j, 32 <= j -> N.testbit x j = false) -> w32 x.
Proof.
  intros H. apply w32_of_fix. unfold trunc32, mask32. change 0xffffffff with (N.ones 32).
  apply N.bits_inj; intros i. rewrite N.land_spec.
  destruct (N.lt_ge_cases i 32) as [Hi|Hi].
  - rewrite N.ones_spec_low by exact Hi. apply andb_true_r.
  - rewrite N.ones_spec_high by exact Hi. rewrite (H i Hi). apply andb_false_r.
Qed.

Lemma lxor_lt a b : w32 a -> w32 b -> w32 (N.lxor a b).
Proof.
  intros Ha Hb. apply w32_bits. intros j Hj.
  rewrite N.lxor_spec, (testbit_high a 32 j Ha Hj), (testbit_high b 32 j Hb Hj). reflexivity.
Qed.

Lemma lor_lt a b : w32 a -> w32 b -> w32 (N.lor a b).
Proof.
  intros Ha Hb. apply w32_bits. intros j Hj.
  rewrite N.lor_spec, (testbit_high a 32 j Ha Hj), (testbit_high b 32 j Hb Hj). reflexivity.
Qed.

Lemma land_lt a b : w32 b -> w32 (N.land a b).
Proof.
  intros Hb. apply w32_of_fix. unfold trunc32. rewrite <- N.land_assoc.
  fold (trunc32 b). rewrite trunc32_id by assumption. reflexivity.
Qed.

Lemma not32_lt a : w32 a -> w32 (not32 a).
Proof. intros Ha. unfold not32. apply lxor_lt; [exact Ha|reflexivity]. Qed.

(* ---------- rotl32 ------------------------------------------------------------------------------------ *)
Lemma rotl32_lt x n : w32 (rotl32 x n).
Proof. apply trunc32_lt. Qed.

Lemma rotl32_arith x n : w32 x -> rotl32 x n = rotl_a x n.
Proof.
  intros Hx. unfold rotl32, rotl_a. cbv zeta.
  assert (Hk : n mod 32 < 32) by (apply N.mod_upper_bound; discriminate).
  set (k := n mod 32) in *.
  (* the two halves have no bit in common *)
  rewrite lor_add_disjoint.
  2:{ apply N.bits_inj; intros i. rewrite N.land_spec, N.bits_0.
      destruct (N.lt_ge_cases i k) as [Hi|Hi].
      - rewrite N.shiftl_spec_low by exact Hi. reflexivity.
      - rewrite N.shiftr_spec'. rewrite (testbit_high x 32) by (try exact Hx; lia). apply andb_false_r. }
  rewrite N.shiftl_mul_pow2, N.shiftr_div_pow2, trunc32_mod.
  set (q := x / 2 ^ (32 - k)).
  assert (Hq : q < 2 ^ k).
  { unfold q. apply N.div_lt_upper_bound; [apply N.pow_nonzero; discriminate|].
    rewrite <- N.pow_add_r. replace (32 - k + k) with 32 by lia. exact Hx. }
  assert (Hsplit : 2 ^ 32 = 2 ^ (32 - k) * 2 ^ k) by (rewrite <- N.pow_add_r; f_equal; lia).
  assert (Hm : (x * 2 ^ k) mod 2 ^ 32 = (x mod 2 ^ (32 - k)) * 2 ^ k).
  { rewrite Hsplit. apply N.mul_mod_distr_r; apply N.pow_nonzero; discriminate. }
  rewrite N.add_mod by (apply N.pow_nonzero; discriminate).
  rewrite (N.mod_small q) by (eapply N.lt_le_trans; [exact Hq|apply N.pow_le_mono_r; [discriminate|lia]]).
  apply N.mod_small. rewrite Hm.
  assert (Hr : x mod 2 ^ (32 - k) < 2 ^ (32 - k)) by (apply N.mod_upper_bound; apply N.pow_nonzero; discriminate).
  rewrite Hsplit. nia.
Qed.

(* ---------- bytes and words -------------------------------------------------------------------------- *)
Lemma be32_arith b0 b1 b2 b3 : byte_ok b0 -> byte_ok b1 -> byte_ok b2 -> byte_ok b3 ->
  be32 b0 b1 b2 b3 = be32_a b0 b1 b2 b3 /\ w32 (be32 b0 b1 b2 b3).
Proof.
  unfold byte_ok, w32. change (2 ^ 8) with 256. change (2 ^ 32) with 4294967296. intros H0 H1 H2 H3.
  assert (E : be32 b0 b1 b2 b3 = ((b0 * 256 + b1) * 256 + b2) * 256 + b3).
  { unfold be32.
    rewrite (N.shiftl_mul_pow2 b1 16). change (2 ^ 16) with 65536.
    rewrite (shiftl_lor_low b0 24 (b1 * 65536)) by (change (2 ^ 24) with 16777216; lia).
    change (2 ^ 24) with 16777216.
    replace (b0 * 16777216 + b1 * 65536) with ((b0 * 256 + b1) * 2 ^ 16) by (change (2 ^ 16) with 65536; lia).
    rewrite <- N.shiftl_mul_pow2. rewrite (N.shiftl_mul_pow2 b2 8). change (2 ^ 8) with 256.
    rewrite (shiftl_lor_low (b0 * 256 + b1) 16 (b2 * 256)) by (change (2 ^ 16) with 65536; lia).
    change (2 ^ 16) with 65536.
    replace ((b0 * 256 + b1) * 65536 + b2 * 256) with (((b0 * 256 + b1) * 256 + b2) * 2 ^ 8) by (change (2 ^ 8) with 256; lia).
    rewrite <- N.shiftl_mul_pow2.
    rewrite (shiftl_lor_low ((b0 * 256 + b1) * 256 + b2) 8 b3) by (change (2 ^ 8) with 256; lia).
    reflexivity. }
  rewrite E. unfold be32_a. change (2 ^ 8) with 256. change (2 ^ 16) with 65536. change (2 ^ 24) with 16777216.
  split; lia.
Qed.

Lemma bytes_of_word_arith w : bytes_of_word w = bytes_of_word_a w.
Proof.
  unfold bytes_of_word, bytes_of_word_a. change 0xff with (N.ones 8).
  rewrite !N.land_ones, !N.shiftr_div_pow2. reflexivity.
Qed.

Lemma bytes_of_word_ok w : Forall byte_ok (bytes_of_word w).
Proof.
  rewrite bytes_of_word_arith. unfold bytes_of_word_a, byte_ok.
  repeat constructor; apply N.mod_upper_bound; discriminate.
Qed.

Lemma be64_arith l : be64 l = be64_a l.
Proof.
  unfold be64, be64_a. change 0xff with (N.ones 8).
  rewrite !N.land_ones, !N.shiftr_div_pow2. reflexivity.
Qed.

Lemma be64_ok l : Forall byte_ok (be64 l).
Proof.
  rewrite be64_arith. unfold be64_a, byte_ok. repeat constructor; apply N.mod_upper_bound; discriminate.
Qed.

Lemma words_of_bytes_arith n : forall B, (length B <= n)%nat -> Forall byte_ok B ->
  words_of_bytes B = words_of_bytes_a B /\ Forall w32 (words_of_bytes B).
Proof.
  induction n as [|n IH]; intros B Hl HB.
  - destruct B; [split; [reflexivity|constructor]|cbn in Hl; lia].
  - destruct B as [|b0 [|b1 [|b2 [|b3 r]]]]; try (split; [reflexivity|constructor]).
    inversion HB as [|? ? H0 HB1]; subst. inversion HB1 as [|? ? H1 HB2]; subst.
    inversion HB2 as [|? ? H2 HB3]; subst. inversion HB3 as [|? ? H3 HB4]; subst.
    cbn [words_of_bytes words_of_bytes_a].
    destruct (be32_arith b0 b1 b2 b3 H0 H1 H2 H3) as [E W].
    destruct (IH r) as [E' W']; [cbn in Hl; lia|exact HB4|].
    split; [rewrite E, E'; reflexivity|]. constructor; assumption.
Qed.

(* ---------- the functions of the standard --------------------------------------------------------------- *)
Lemma nth_w32 W j : Forall w32 W -> w32 (nth j W 0).
Proof.
  intros H. destruct (nth_in_or_default j W 0) as [Hin|Hd].
  - rewrite Forall_forall in H. apply H; exact Hin.
  - rewrite Hd. reflexivity.
Qed.

Lemma P0_arith x : w32 x -> P0 x = P0_a x /\ w32 (P0 x).
Proof.
  intros H. unfold P0, P0_a. rewrite !rotl32_arith by exact H. split; [reflexivity|].
  rewrite <- !rotl32_arith by exact H. repeat apply lxor_lt; try exact H; apply rotl32_lt.
Qed.

Lemma P1_arith x : w32 x -> P1 x = P1_a x /\ w32 (P1 x).
Proof.
  intros H. unfold P1, P1_a. rewrite !rotl32_arith by exact H. split; [reflexivity|].
  rewrite <- !rotl32_arith by exact H. repeat apply lxor_lt; try exact H; apply rotl32_lt.
Qed.

Lemma FF_lt j x y z : w32 x -> w32 y -> w32 z -> w32 (FF j x y z).
Proof.
  intros Hx Hy Hz. unfold FF. destruct (j <? 16)%nat.
  - repeat apply lxor_lt; assumption.
  - repeat apply lor_lt; apply land_lt; assumption.
Qed.

Lemma GG_arith j x y z : w32 x -> w32 y -> w32 z -> GG j x y z = GG_a j x y z /\ w32 (GG j x y z).
Proof.
  intros Hx Hy Hz. unfold GG, GG_a. destruct (j <? 16)%nat.
  - split; [reflexivity|repeat apply lxor_lt; assumption].
  - rewrite not32_arith by exact Hx. split; [reflexivity|].
    apply lor_lt; apply land_lt; assumption.
Qed.

Lemma T_lt j : w32 (T j).
Proof. unfold T. destruct (j <? 16)%nat; reflexivity. Qed.

Lemma W_next_arith W j : Forall w32 W -> W_next W j = W_next_a W j /\ w32 (W_next W j).
Proof.
  intros HW. unfold W_next, W_next_a.
  pose proof (nth_w32 W (j - 16) HW) as H16. pose proof (nth_w32 W (j - 9) HW) as H9.
  pose proof (nth_w32 W (j - 3) HW) as H3. pose proof (nth_w32 W (j - 13) HW) as H13.
  pose proof (nth_w32 W (j - 6) HW) as H6.
  set (x := N.lxor (N.lxor (nth (j - 16) W 0) (nth (j - 9) W 0)) (rotl32 (nth (j - 3) W 0) 15)).
  assert (Hx : w32 x) by (unfold x; repeat apply lxor_lt; try assumption; apply rotl32_lt).
  destruct (P1_arith x Hx) as [E1 L1].
  rewrite <- !rotl32_arith by assumption. fold x. rewrite <- E1.
  split; [reflexivity|]. repeat apply lxor_lt; try assumption; apply rotl32_lt.
Qed.

Lemma fold_snoc_arith (f g : list N -> nat -> N) l :
  (forall W j, Forall w32 W -> f W j = g W j /\ w32 (f W j)) ->
  forall W0, Forall w32 W0 ->
    fold_left (fun W j => W ++ [f W j]) l W0 = fold_left (fun W j => W ++ [g W j]) l W0 /\
    Forall w32 (fold_left (fun W j => W ++ [f W j]) l W0).
Proof.
  intros H. induction l as [|j l IH]; intros W0 H0; cbn [fold_left].
  - split; [reflexivity|exact H0].
  - destruct (H W0 j H0) as [E L]. rewrite <- E. apply IH.
    apply Forall_app; split; [exact H0|constructor; [exact L|constructor]].
Qed.

Lemma expand_arith B : Forall byte_ok B -> expand B = expand_a B /\ Forall w32 (expand B).
Proof.
  intros HB. unfold expand, expand_a.
  destruct (words_of_bytes_arith (length B) B (le_n _) HB) as [E W]. rewrite <- E.
  apply fold_snoc_arith; [intros; apply W_next_arith; assumption|exact W].
Qed.

Definition regs_w32 (r : regs) : Prop :=
  let '(A, B, C, D, E, F, G, H) := r in
  w32 A /\ w32 B /\ w32 C /\ w32 D /\ w32 E /\ w32 F /\ w32 G /\ w32 H.

Lemma round_arith W r j : Forall w32 W -> regs_w32 r -> round W r j = round_a W r j /\ regs_w32 (round W r j).
Proof.
  intros HW Hr. destruct r as [[[[[[[A B] C] D] E] F] G] H].
  destruct Hr as (HA & HB & HC & HD & HE & HF & HG & HH).
  unfold round, round_a.
  pose proof (nth_w32 W j HW) as Hj. pose proof (nth_w32 W (j + 4) HW) as Hj4.
  destruct (GG_arith j E F G HE HF HG) as [EG LG]. rewrite <- EG.
  rewrite <- !add32_arith.
  rewrite <- (rotl32_arith A 12 HA), <- (rotl32_arith (T j) (N.of_nat j) (T_lt j)).
  rewrite <- (rotl32_arith _ 7 (add32_lt _ _)).
  rewrite <- (rotl32_arith B 9 HB), <- (rotl32_arith F 19 HF).
  destruct (P0_arith _ (add32_lt (add32 (add32 (GG j E F G) H)
             (rotl32 (add32 (add32 (rotl32 A 12) E) (rotl32 (T j) (N.of_nat j))) 7)) (nth j W 0))) as [EP LP].
  rewrite <- EP. split; [reflexivity|].
  unfold regs_w32. repeat split; try assumption; try apply add32_lt; try apply rotl32_lt.
Qed.

Lemma fold_rounds_arith W l : Forall w32 W -> forall r, regs_w32 r ->
  fold_left (round W) l r = fold_left (round_a W) l r /\ regs_w32 (fold_left (round W) l r).
Proof.
  intros HW. induction l as [|j l IH]; intros r Hr; cbn [fold_left].
  - split; [reflexivity|exact Hr].
  - destruct (round_arith W r j HW Hr) as [E L]. rewrite <- E. apply IH. exact L.
Qed.

Lemma cf_arith V B : Forall w32 V -> Forall byte_ok B -> sm3_cf V B = cf_a V B /\ Forall w32 (sm3_cf V B).
Proof.
  intros HV HB.
  destruct V as [|a [|b [|c [|d [|e [|f [|g [|h [|x V]]]]]]]]]; try (split; [reflexivity|exact HV]).
  unfold sm3_cf, cf_a. cbv zeta.
  destruct (expand_arith B HB) as [EE LE]. rewrite <- EE.
  assert (Hr : regs_w32 (a, b, c, d, e, f, g, h)).
  { unfold regs_w32. repeat match goal with H : Forall _ (_ :: _) |- _ => inversion H; clear H; subst end.
    repeat split; assumption. }
  destruct (fold_rounds_arith (expand B) (seq 0 64) LE _ Hr) as [ER LR]. rewrite <- ER.
  destruct (fold_left (round (expand B)) (seq 0 64) (a, b, c, d, e, f, g, h)) as [[[[[[[A1 B1] C1] D1] E1] F1] G1] H1].
  split; [reflexivity|].
  destruct Hr as (Ha & Hb & Hc & Hd & He & Hf & Hg & Hh).
  destruct LR as (HA & HB' & HC & HD & HE & HF & HG & HH).
  repeat constructor; apply lxor_lt; assumption.
Qed.

(* ---------- padding, iteration, digest ---------------------------------------------------------------- *)
Lemma sm3_pad_arith m : sm3_pad m = pad_a m.
Proof.
  unfold sm3_pad, pad_a. cbv zeta. rewrite tl_app_app, lenN_length, be64_arith. reflexivity.
Qed.

Lemma sm3_pad_ok m : Forall byte_ok m -> Forall byte_ok (sm3_pad m).
Proof.
  intros H. unfold sm3_pad. cbv zeta. rewrite tl_app_app.
  apply Forall_app; split; [exact H|]. constructor; [reflexivity|].
  apply Forall_app; split; [|apply be64_ok].
  apply Forall_forall. intros x Hx. apply repeat_spec in Hx. subst x. reflexivity.
Qed.

Lemma Forall_firstn {A} (P : A -> Prop) n l : Forall P l -> Forall P (firstn n l).
Proof. intros H. rewrite <- (firstn_skipn n l) in H. apply Forall_app in H. apply H. Qed.

Lemma Forall_skipn {A} (P : A -> Prop) n l : Forall P l -> Forall P (skipn n l).
Proof. intros H. rewrite <- (firstn_skipn n l) in H. apply Forall_app in H. apply H. Qed.

Lemma blocks_iterate n : forall m fuel V, (length m / 64 = n)%nat -> (n <= length fuel)%nat ->
  Forall w32 V -> Forall byte_ok m ->
  sm3_blocks fuel V m = iterate_a n V m /\ Forall w32 (sm3_blocks fuel V m).
Proof.
  induction n as [|n IH]; intros m fuel V Hn Hf HV Hm.
  - assert (HS : sm3_blocks fuel V m = V).
    { destruct fuel as [|x fuel]; [reflexivity|]. cbn [sm3_blocks].
      destruct (length (firstn 64 m) =? 64)%nat eqn:E; [|reflexivity].
      apply Nat.eqb_eq in E. rewrite firstn_length in E. lia. }
    rewrite HS. split; [reflexivity|exact HV].
  - destruct fuel as [|x fuel]; [cbn in Hf; lia|]. cbn [sm3_blocks iterate_a].
    assert (E : (length (firstn 64 m) =? 64)%nat = true) by (apply Nat.eqb_eq; rewrite firstn_length; lia).
    rewrite E.
    destruct (cf_arith V (firstn 64 m) HV (Forall_firstn _ _ _ Hm)) as [EC LC]. rewrite <- EC.
    apply IH; [rewrite skipn_length; lia|cbn in Hf; lia|exact LC|apply Forall_skipn; exact Hm].
Qed.

Lemma sm3_iv_w32 : Forall w32 sm3_iv.
Proof. repeat constructor. Qed.

Lemma sm3_arith m : Forall byte_ok m -> sm3 m = sm3_a m /\ Forall byte_ok (sm3 m).
Proof.
  intros Hm. unfold sm3, sm3_a, sm3_absorb. cbv zeta.
  pose proof (sm3_pad_ok m Hm) as Hp.
  destruct (blocks_iterate (length (sm3_pad m) / 64) (sm3_pad m) (sm3_pad m) sm3_iv eq_refl) as [E L];
    [lia|exact sm3_iv_w32|exact Hp|].
  rewrite E. rewrite <- sm3_pad_arith. unfold bytes_of_words. split.
  - apply flat_map_ext. intros w. apply bytes_of_word_arith.
  - rewrite <- E. apply Forall_forall. intros b Hb. apply in_flat_map in Hb. destruct Hb as (w & _ & Hb).
    pose proof (bytes_of_word_ok w) as Hw. rewrite Forall_forall in Hw. apply Hw; exact Hb.
Qed.

(* every value the compression function computes is below 2^32: the expanded words, the eight
   registers after any number of rounds, the output *)
Lemma compress_in_range a b c d e f g h B :
  Forall w32 [a; b; c; d; e; f; g; h] -> Forall byte_ok B ->
  Forall w32 (expand B) /\
  (forall n, regs_w32 (fold_left (round (expand B)) (seq 0 n) (a, b, c, d, e, f, g, h))) /\
  Forall w32 (sm3_cf [a; b; c; d; e; f; g; h] B).
Proof.
  intros HV HB. destruct (expand_arith B HB) as [_ LE].
  split; [exact LE|]. split; [|apply cf_arith; assumption].
  intros n. apply fold_rounds_arith; [exact LE|].
  unfold regs_w32. repeat match goal with H : Forall _ (_ :: _) |- _ => inversion H; clear H; subst end.
  repeat split; assumption.
Qed.

Lemma word_ops_arith x n a b :
  trunc32 x = x mod 2 ^ 32 /\
  add32 a b = (a + b) mod 2 ^ 32 /\
  (x < 2 ^ 32 -> not32 x = 2 ^ 32 - 1 - x) /\
  (x < 2 ^ 32 -> rotl32 x n = (x * 2 ^ (n mod 32)) mod 2 ^ 32 + x / 2 ^ (32 - n mod 32)).
Proof.
  split; [apply trunc32_mod|]. split; [apply add32_arith|]. split.
  - intros H. apply not32_arith. exact H.
  - intros H. apply rotl32_arith. exact H.
Qed.
