(* HMAC (RFC 2104) and PBKDF2 (RFC 8018, 5.2) instantiated with SM3 (block size B = 64 bytes,
   output size L = hLen = 32 bytes).  Specifications only; never looks at the Go code.

     hmac_sm3        : key -> message -> 32 bytes
     pbkdf2_hmac_sm3 : password -> salt -> iteration count c -> dkLen -> dkLen bytes *)
From Coq Require Import List NArith Arith.
From GmsmVerif Require Import SM3.SM3Spec.
Import ListNotations.
Open Scope N_scope.

Notation byte := N (only parsing).

(* bytewise xor of two strings of the same length (the shorter length if they differ) *)
Fixpoint xor_bytes (a b : list byte) : list byte :=
  match a, b with
  | x :: a', y :: b' => N.lxor x y :: xor_bytes a' b'
  | _, _ => []
  end.

(* RFC 2104 section 2: keys longer than B are first hashed; K is then zero-padded to B bytes;
   HMAC(K, text) = H((K xor opad) || H((K xor ipad) || text)), ipad = 0x36.., opad = 0x5c.. *)
Definition hmac_key_block (key : list byte) : list byte :=
  let k0 := if (64 <? length key)%nat then sm3 key else key in
  k0 ++ repeat 0 (64 - length k0).

Definition hmac_sm3 (key msg : list byte) : list byte :=
  let k := hmac_key_block key in
  sm3 (map (N.lxor 0x5c) k ++ sm3 (map (N.lxor 0x36) k ++ msg)).

(* RFC 8018 5.2:  DK = T_1 || T_2 || ... || T_l <0..dkLen-1>,  l = ceil(dkLen / hLen),
   T_i = U_1 xor U_2 xor ... xor U_c,  U_1 = PRF(P, S || INT(i)),  U_j = PRF(P, U_{j-1}).
   (c = 0 is outside the RFC; it is given the value of c = 1.) *)
Definition int32_be (i : N) : list byte := bytes_of_word i.

(* [pbkdf2_iter P n U T]: n further iterations from the last U, accumulating into T *)
Fixpoint pbkdf2_iter (P : list byte) (n : nat) (U T : list byte) : list byte :=
  match n with
  | O => T
  | S n' => let U' := hmac_sm3 P U in pbkdf2_iter P n' U' (xor_bytes T U')
  end.

Definition pbkdf2_F (P S : list byte) (c : nat) (i : nat) : list byte :=
  let U1 := hmac_sm3 P (S ++ int32_be (N.of_nat i)) in
  pbkdf2_iter P (c - 1) U1 U1.

Definition pbkdf2_hmac_sm3 (P S : list byte) (c dkLen : nat) : list byte :=
  firstn dkLen (flat_map (pbkdf2_F P S c) (seq 1 ((dkLen + 31) / 32))).

(* ---------- tests of this transcription ----------------------------------------------------------
   There is no HMAC-SM3 vector in RFC 2104 or GM/T 0004; the values below were computed with an
   independent implementation (OpenSSL 3: hmac / PBKDF2 with the sm3 digest) and are regression
   values of the transcription, not citations of a standard. *)
Example hmac_sm3_regression_short_key :
  hmac_sm3 [0x6b; 0x65; 0x79] [0x61; 0x62; 0x63] =
  [0x28; 0xe6; 0x32; 0x56; 0xe7; 0xc5; 0xa0; 0x87; 0xb1; 0xf0; 0x73; 0x26; 0x5d; 0xc5; 0x30; 0x92; 0x16; 0x3f; 0x7b; 0x82; 0x72; 0x97; 0x35; 0xd0; 0x6f; 0x28; 0xf1; 0x0a; 0xf9; 0xd5; 0x23; 0x93].
Proof. vm_compute. reflexivity. Qed.

(* a 65-byte key ("k" x 65): the key is hashed first *)
Example hmac_sm3_regression_long_key :
  hmac_sm3 (repeat 0x6b 65) [0x61; 0x62; 0x63] =
  [0x65; 0x82; 0x28; 0xfe; 0x54; 0x6a; 0xf0; 0x04; 0x5d; 0x7b; 0x5f; 0x69; 0xa7; 0xe5; 0xd6; 0x47; 0x06; 0xac; 0x9e; 0xc7; 0xf3; 0x96; 0x7e; 0x39; 0xb9; 0x32; 0xcc; 0x52; 0x30; 0x13; 0x7d; 0x74].
Proof. vm_compute. reflexivity. Qed.

(* password "password", salt "salt", c = 2, dkLen = 40 (two blocks, the second truncated) *)
Example pbkdf2_hmac_sm3_regression :
  pbkdf2_hmac_sm3 [0x70; 0x61; 0x73; 0x73; 0x77; 0x6f; 0x72; 0x64] [0x73; 0x61; 0x6c; 0x74] 2 40 =
  [0xfe; 0xe7; 0x23; 0xa2; 0xbc; 0x96; 0x6e; 0x11; 0xdf; 0xfb; 0x66; 0x13; 0x3f; 0x4e; 0x8d; 0xf5; 0x77; 0x38; 0x3c; 0x78; 0xad; 0xe3; 0x0e; 0x32; 0x98; 0xed; 0xbd; 0x3e; 0x54; 0xed; 0x85; 0xb7; 0x65; 0x00; 0x06; 0xf9; 0xe1; 0x5d; 0x37; 0x98].
Proof. vm_compute. reflexivity. Qed.
