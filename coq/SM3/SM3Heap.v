(* Model of the Go slices of /repo/sm3/sm3.go with backing arrays.  No proofs in this file.

   heap   : the arrays that exist, array id -> contents (an array never changes its length)
   slice  : array id, offset, len, cap            (Go: pointer, len, cap)
   append : writes into the spare capacity of the backing array when len+n <= cap, otherwise
            allocates a new array of capacity [grow cap (len+n)] >= len+n (Go's growth policy is
            not specified; the theorems hold for every [grow] with that bound), copies, appends.
            The appended values are read before anything is written (Go's append is a memmove).

   Modelled with arrays: SM3.unhandleMsg, the argument p of Write, the argument and the result of Sum,
   the local msg of pad (its appends go into the spare capacity of unhandleMsg's array or into a
   fresh array), the local msg of Write and the re-slicing msg[nblocks*BlockSize:].
   The compression loops only read msg; they are the value-level [update] / [update2] of SM3Model
   applied to the bytes of the slice.

   The eight PutUint32 stores of Sum are modelled as one store of the 32 digest bytes at
   in[len(in) : len(in)+32]. *)
From Coq Require Import List NArith Arith.
From GmsmVerif Require Import Lib.Outcome SM3.SM3Spec SM3.SM3Model.
Import ListNotations.
Open Scope N_scope.

Notation byte := N (only parsing).

Definition heap : Type := list (list byte).

Record slice : Type := mkSlice {
  sl_arr : nat;      (* backing array *)
  sl_off : nat;      (* index of element 0 in the backing array *)
  sl_len : nat;
  sl_cap : nat       (* counted from sl_off *)
}.

Definition arr_get (hp : heap) (id : nat) : list byte := nth id hp [].

Definition heap_set (hp : heap) (id : nat) (a : list byte) : heap :=
  firstn id hp ++ a :: skipn (S id) hp.

(* the bytes a slice denotes *)
Definition slice_bytes (hp : heap) (s : slice) : list byte :=
  firstn (sl_len s) (skipn (sl_off s) (arr_get hp (sl_arr s))).

(* a[pos : pos+len(vs)] = vs *)
Definition write_at (a : list byte) (pos : nat) (vs : list byte) : list byte :=
  firstn pos a ++ vs ++ skipn (pos + length vs) a.

(* s[n:] *)
Definition reslice_from (s : slice) (n : nat) : slice :=
  mkSlice (sl_arr s) (sl_off s + n) (sl_len s - n) (sl_cap s - n).

Section WithGrowth.
  Variable grow : nat -> nat -> nat.     (* old capacity, needed length -> new capacity *)

  Definition append (hp : heap) (s : slice) (vs : list byte) : heap * slice :=
    if (sl_len s + length vs <=? sl_cap s)%nat
    then (heap_set hp (sl_arr s) (write_at (arr_get hp (sl_arr s)) (sl_off s + sl_len s) vs),
          mkSlice (sl_arr s) (sl_off s) (sl_len s + length vs) (sl_cap s))
    else
      let need := (sl_len s + length vs)%nat in
      let c := grow (sl_cap s) need in
      (hp ++ [slice_bytes hp s ++ vs ++ repeat 0 (c - need)], mkSlice (length hp) 0 need c).

  (* the SM3 object: digest and length by value, unhandleMsg as a slice *)
  Record HSM3 : Type := mkHSM3 {
    hs_digest : list N;
    hs_length : N;
    hs_unhandleMsg : slice
  }.

  (* what the object denotes at the value level *)
  Definition abs (hp : heap) (s : HSM3) : SM3 :=
    mkSM3 (hs_digest s) (hs_length s) (slice_bytes hp (hs_unhandleMsg s)).

  (* for len(msg)%blockSize != 56 { msg = append(msg, 0x00) } *)
  Fixpoint h_pad_loop (fuel : nat) (hp : heap) (msg : slice) : outcome (heap * slice) :=
    match fuel with
    | O => Hang
    | S fuel' =>
      if (sl_len msg mod 64 =? 56)%nat then Ok (hp, msg)
      else let '(hp, msg) := append hp msg [0] in h_pad_loop fuel' hp msg
    end.

  (* func (sm3 *SM3) pad() []byte : msg := sm3.unhandleMsg; msg = append(msg, ...) ... *)
  Definition h_pad (hp : heap) (sm3 : HSM3) : outcome (heap * slice) :=
    let msg := hs_unhandleMsg sm3 in
    let '(hp, msg) := append hp msg [0x80] in
    do r <- h_pad_loop 64 hp msg;
    let '(hp, msg) := r in
    let l := hs_length sm3 in
    let '(hp, msg) := append hp msg [uint8 (N.land (N.shiftr l 56) 0xff)] in
    let '(hp, msg) := append hp msg [uint8 (N.land (N.shiftr l 48) 0xff)] in
    let '(hp, msg) := append hp msg [uint8 (N.land (N.shiftr l 40) 0xff)] in
    let '(hp, msg) := append hp msg [uint8 (N.land (N.shiftr l 32) 0xff)] in
    let '(hp, msg) := append hp msg [uint8 (N.land (N.shiftr l 24) 0xff)] in
    let '(hp, msg) := append hp msg [uint8 (N.land (N.shiftr l 16) 0xff)] in
    let '(hp, msg) := append hp msg [uint8 (N.land (N.shiftr l 8) 0xff)] in
    let '(hp, msg) := append hp msg [uint8 (N.land (N.shiftr l 0) 0xff)] in
    if negb (sl_len msg mod 64 =? 0)%nat then Panic else Ok (hp, msg).

  (* sm3.unhandleMsg = []byte{} : a zero-length slice of its own (empty) array *)
  Definition h_Reset (hp : heap) (sm3 : HSM3) : heap * HSM3 :=
    (hp ++ [[]],
     mkHSM3 [0x7380166f; 0x4914b2b9; 0x172442d7; 0xda8a0600; 0xa96f30bc; 0x163138aa; 0xe38dee4d; 0xb0fb0e4e]
            0 (mkSlice (length hp) 0 0 0)).

  (* var sm3 SM3: unhandleMsg is nil; nil is a zero-capacity slice (of array 0: never dereferenced) *)
  Definition h_zero : HSM3 := mkHSM3 (repeat 0 8) 0 (mkSlice 0 0 0 0).
  Definition h_New (hp : heap) : heap * HSM3 := h_Reset hp h_zero.

  Definition h_Write (hp : heap) (sm3 : HSM3) (p : slice) : heap * HSM3 * N :=
    let toWrite := N.of_nat (sl_len p) in
    let length' := uint64 (hs_length sm3 + uint64 (N.of_nat (sl_len p) * 8)) in
    let '(hp, msg) := append hp (hs_unhandleMsg sm3) (slice_bytes hp p) in      (* msg := append(sm3.unhandleMsg, p...) *)
    let nblocks := (sl_len msg / BlockSize)%nat in
    let digest' := s_digest (update (mkSM3 (hs_digest sm3) length' []) (slice_bytes hp msg)) in   (* sm3.update(msg) *)
    let unhandle' := reslice_from msg (nblocks * BlockSize) in                    (* msg[nblocks*BlockSize:] *)
    (hp, mkHSM3 digest' length' unhandle', toWrite).

  (* returns the heap and the returned slice; the receiver's fields are not assigned *)
  Definition h_Sum (hp : heap) (sm3 : HSM3) (in_ : slice) : outcome (heap * slice) :=
    do r <- h_pad hp sm3;
    let '(hp, msg) := r in
    let digest := update2 (mkSM3 (hs_digest sm3) (hs_length sm3) []) (slice_bytes hp msg) in
    let needed := Size in
    let '(hp, in_) :=
      if (sl_cap in_ - sl_len in_ <? needed)%nat
      then (* newIn := make([]byte, len(in), len(in)+needed); copy(newIn, in); in = newIn *)
           (hp ++ [slice_bytes hp in_ ++ repeat 0 needed], mkSlice (length hp) 0 (sl_len in_) (sl_len in_ + needed))
      else (hp, in_) in
    (* out := in[len(in) : len(in)+needed]; PutUint32(out[i*4:], digest[i]) for i = 0..7 *)
    let hp := heap_set hp (sl_arr in_)
                (write_at (arr_get hp (sl_arr in_)) (sl_off in_ + sl_len in_) (flat_map PutUint32 digest)) in
    (* return in[:len(in)+needed] *)
    Ok (hp, mkSlice (sl_arr in_) (sl_off in_) (sl_len in_ + needed) (sl_cap in_)).

  (* a slice that lies inside an existing array *)
  Definition valid (hp : heap) (s : slice) : Prop :=
    (sl_arr s < length hp)%nat /\ (sl_len s <= sl_cap s)%nat /\
    (sl_off s + sl_cap s <= length (arr_get hp (sl_arr s)))%nat.

  (* what h_Sum may change in the heap, and what it returns *)
  Definition sum_frame (hp : heap) (s : HSM3) (in_ : slice) (hp' : heap) (res : slice) : Prop :=
    let own := sl_arr (hs_unhandleMsg s) in
    valid hp' res /\ (length hp <= length hp')%nat /\
    (* the object: its slice still valid, its bytes unchanged, its array only touched beyond len *)
    valid hp' (hs_unhandleMsg s) /\ abs hp' s = abs hp s /\
    (* arrays of third parties are untouched *)
    (forall id, (id < length hp)%nat -> id <> own -> id <> sl_arr in_ -> arr_get hp' id = arr_get hp id) /\
    (* the caller's array: only the 32 cells after len(in), and only if they fit in cap(in) *)
    length (arr_get hp' (sl_arr in_)) = length (arr_get hp (sl_arr in_)) /\
    firstn (sl_off in_ + sl_len in_) (arr_get hp' (sl_arr in_)) = firstn (sl_off in_ + sl_len in_) (arr_get hp (sl_arr in_)) /\
    (if (sl_cap in_ - sl_len in_ <? Size)%nat
     then arr_get hp' (sl_arr in_) = arr_get hp (sl_arr in_) /\ (length hp <= sl_arr res)%nat /\ sl_off res = 0%nat
     else skipn (sl_off in_ + sl_len in_ + Size) (arr_get hp' (sl_arr in_)) =
          skipn (sl_off in_ + sl_len in_ + Size) (arr_get hp (sl_arr in_)) /\
          sl_arr res = sl_arr in_ /\ sl_off res = sl_off in_ /\ sl_cap res = sl_cap in_) /\
    sl_len res = (sl_len in_ + Size)%nat /\
    (* the result starts with the caller's prefix *)
    firstn (sl_len in_) (slice_bytes hp' res) = slice_bytes hp in_.

  (* ---------- histories: the hash object and a caller that owns every other array ---------------- *)
  Inductive hop : Type :=
  | HWrite (p : slice)                     (* h.Write(p) *)
  | HSum (in_ : slice)                     (* h.Sum(in) *)
  | HReset                                 (* h.Reset() *)
  | HStore (id idx : nat) (v : byte)       (* the caller stores v at index idx of array id *)
  | HAlloc (a : list byte).                (* the caller allocates a new array with contents a *)

  (* one step: new heap, new object, the value-level operation performed (as read from the heap at the
     time of the call) and its result, if the step is a call *)
  Definition hstep (hp : heap) (s : HSM3) (o : hop) : heap * HSM3 * option (op * out) :=
    match o with
    | HWrite p =>
      let vp := slice_bytes hp p in
      let '(hp', s', n) := h_Write hp s p in (hp', s', Some (OpWrite vp, OutWrite n))
    | HSum in_ =>
      let vin := slice_bytes hp in_ in
      match h_Sum hp s in_ with
      | Ok (hp', res) => (hp', s, Some (OpSum vin, OutSum (Ok (slice_bytes hp' res))))
      | Err e => (hp, s, Some (OpSum vin, OutSum (Err e)))
      | Panic => (hp, s, Some (OpSum vin, OutSum Panic))
      | Hang => (hp, s, Some (OpSum vin, OutSum Hang))
      end
    | HReset => let '(hp', s') := h_Reset hp s in (hp', s', Some (OpReset, OutReset))
    | HStore id idx v =>
      (heap_set hp id (write_at (arr_get hp id) idx [v]), s, None)
    | HAlloc a => (hp ++ [a], s, None)
    end.

  Fixpoint hrun (hp : heap) (s : HSM3) (ops : list hop) : heap * HSM3 * list (op * out) :=
    match ops with
    | [] => (hp, s, [])
    | o :: ops' =>
      let '(hp1, s1, r) := hstep hp s o in
      let '(hp2, s2, rs) := hrun hp1 s1 ops' in
      (hp2, s2, match r with Some x => x :: rs | None => rs end)
    end.

  (* what a caller can do: pass valid slices of arrays other than the one the object holds, store
     inside arrays other than that one (the object never hands its array out: theorem), allocate *)
  Definition caller_pre (hp : heap) (s : HSM3) (o : hop) : Prop :=
    match o with
    | HWrite p => valid hp p /\ sl_arr p <> sl_arr (hs_unhandleMsg s)
    | HSum in_ => valid hp in_ /\ sl_arr in_ <> sl_arr (hs_unhandleMsg s)
    | HReset => True
    | HStore id idx v => id <> sl_arr (hs_unhandleMsg s) /\ (id < length hp)%nat /\ (idx < length (arr_get hp id))%nat
    | HAlloc a => True
    end.

  Fixpoint caller_ok (hp : heap) (s : HSM3) (ops : list hop) : Prop :=
    match ops with
    | [] => True
    | o :: ops' =>
      caller_pre hp s o /\
      let '(hp1, s1, _) := hstep hp s o in caller_ok hp1 s1 ops'
    end.
End WithGrowth.
