(* Model of /repo/sm3/sm3.go as it is now, function by function (same names), and of the two
   standard-library clients the property names (Go 1.23 crypto/hmac, golang.org/x/crypto/pbkdf2)
   as the sequences of hash.Hash operations they issue.  No proofs in this file.

   Go objects modelled:
     type SM3 struct { digest [8]uint32; length uint64; unhandleMsg []byte }   -> record [SM3]
     [68]uint32 w, [64]uint32 w1 (declared once per update call, reused for every block)
                                                     -> lists updated in place with [upd]
     uint32 arithmetic   -> N with the word operations of SM3Spec (trunc32 / add32 / rotl32 / not32:
                            the only things shared with the specification)
     uint64 length       -> N reduced mod 2^64 after every addition; int -> uint64 conversion of
                            len(p)*8 is reduction mod 2^64 (two's complement)
     for len(msg) >= 64  -> recursion on fuel; the loop runs len(msg)/64 times, the message itself
                            is passed as fuel (its length is more than enough)
     pad's zero-fill loop-> recursion on fuel 64, [Hang] if exhausted; the final length test -> [Panic]
   Slices have value semantics here: append in pad / Write never aliases in the model (the Go code
   appends into spare capacity of the tail buffer; covered by the correspondence run: repeated Sum,
   Sum after Sum, prefixes with spare capacity). *)
From Coq Require Import List NArith Arith.
From GmsmVerif Require Import Lib.Outcome SM3.SM3Spec.
Import ListNotations.
Open Scope N_scope.

Notation byte := N (only parsing).

Record SM3 : Type := mkSM3 {
  s_digest : list N;          (* digest [8]uint32 *)
  s_length : N;               (* length uint64: number of message BITS so far, mod 2^64 *)
  s_unhandleMsg : list byte   (* unhandleMsg []byte *)
}.

Definition uint64 (x : N) : N := x mod 2 ^ 64.
Definition uint8 (x : N) : N := N.land x 0xff.

(* w[i] = v on a fixed-size array (index out of range cannot happen: constant bounds) *)
Fixpoint upd (l : list N) (i : nat) (v : N) : list N :=
  match l, i with
  | [], _ => []
  | _ :: r, O => v :: r
  | x :: r, S i' => x :: upd r i' v
  end.

Definition ff0 (x y z : N) : N := N.lxor (N.lxor x y) z.
Definition ff1 (x y z : N) : N := N.lor (N.lor (N.land x y) (N.land x z)) (N.land y z).
Definition gg0 (x y z : N) : N := N.lxor (N.lxor x y) z.
Definition gg1 (x y z : N) : N := N.lor (N.land x y) (N.land (not32 x) z).
(* x<<(i%32) | x>>(32-i%32) on uint32 *)
Definition leftRotate (x i : N) : N := rotl32 x i.
Definition p0 (x : N) : N := N.lxor (N.lxor x (leftRotate x 9)) (leftRotate x 17).
Definition p1 (x : N) : N := N.lxor (N.lxor x (leftRotate x 15)) (leftRotate x 23).

(* binary.BigEndian.Uint32(b) = uint32(b[3]) | uint32(b[2])<<8 | uint32(b[1])<<16 | uint32(b[0])<<24 *)
Definition Uint32 (b0 b1 b2 b3 : byte) : N :=
  N.lor (N.lor (N.lor b3 (N.shiftl b2 8)) (N.shiftl b1 16)) (N.shiftl b0 24).
(* binary.BigEndian.PutUint32(b, v): b[0] = byte(v>>24) ... b[3] = byte(v) *)
Definition PutUint32 (v : N) : list byte :=
  [uint8 (N.shiftr v 24); uint8 (N.shiftr v 16); uint8 (N.shiftr v 8); uint8 v].

(* ---------- pad --------------------------------------------------------------------------------- *)
(* for len(msg)%blockSize != 56 { msg = append(msg, 0x00) } *)
Fixpoint pad_loop (fuel : nat) (msg : list byte) : outcome (list byte) :=
  match fuel with
  | O => Hang
  | S fuel' =>
    if (length msg mod 64 =? 56)%nat then Ok msg else pad_loop fuel' (msg ++ [0])
  end.

Definition pad (sm3 : SM3) : outcome (list byte) :=
  let msg := s_unhandleMsg sm3 in
  let msg := msg ++ [0x80] in
  do msg <- pad_loop 64 msg;
  let l := s_length sm3 in
  let msg := msg ++ [uint8 (N.land (N.shiftr l 56) 0xff)] in
  let msg := msg ++ [uint8 (N.land (N.shiftr l 48) 0xff)] in
  let msg := msg ++ [uint8 (N.land (N.shiftr l 40) 0xff)] in
  let msg := msg ++ [uint8 (N.land (N.shiftr l 32) 0xff)] in
  let msg := msg ++ [uint8 (N.land (N.shiftr l 24) 0xff)] in
  let msg := msg ++ [uint8 (N.land (N.shiftr l 16) 0xff)] in
  let msg := msg ++ [uint8 (N.land (N.shiftr l 8) 0xff)] in
  let msg := msg ++ [uint8 (N.land (N.shiftr l 0) 0xff)] in
  if negb (length msg mod 64 =? 0)%nat then Panic else Ok msg.

(* ---------- the body of "for len(msg) >= 64 { ... }" shared by update and update2 --------------- *)
(* for i := 0; i < 16; i++ { w[i] = binary.BigEndian.Uint32(msg[4*i : 4*(i+1)]) } *)
Definition load_w (msg : list byte) (w : list N) : list N :=
  fold_left (fun w i =>
    upd w i (Uint32 (nth (4 * i) msg 0) (nth (4 * i + 1) msg 0) (nth (4 * i + 2) msg 0) (nth (4 * i + 3) msg 0)))
    (seq 0 16) w.

(* for i := 16; i < 68; i++ { w[i] = p1(w[i-16]^w[i-9]^leftRotate(w[i-3], 15)) ^ leftRotate(w[i-13], 7) ^ w[i-6] } *)
Definition expand_w (w : list N) : list N :=
  fold_left (fun w i =>
    upd w i (N.lxor (N.lxor (p1 (N.lxor (N.lxor (nth (i - 16) w 0) (nth (i - 9) w 0)) (leftRotate (nth (i - 3) w 0) 15)))
                            (leftRotate (nth (i - 13) w 0) 7))
                    (nth (i - 6) w 0)))
    (seq 16 52) w.

(* for i := 0; i < 64; i++ { w1[i] = w[i] ^ w[i+4] } *)
Definition fill_w1 (w w1 : list N) : list N :=
  fold_left (fun w1 i => upd w1 i (N.lxor (nth i w 0) (nth (i + 4) w 0))) (seq 0 64) w1.

(* one iteration of "for i := 0; i < 16; i++" *)
Definition round_lo (w w1 : list N) (r : regs) (i : nat) : regs :=
  let '(A, B, C, D, E, F, G, H) := r in
  let SS1 := leftRotate (add32 (add32 (leftRotate A 12) E) (leftRotate 0x79cc4519 (N.of_nat i))) 7 in
  let SS2 := N.lxor SS1 (leftRotate A 12) in
  let TT1 := add32 (add32 (add32 (ff0 A B C) D) SS2) (nth i w1 0) in
  let TT2 := add32 (add32 (add32 (gg0 E F G) H) SS1) (nth i w 0) in
  let D := C in let C := leftRotate B 9 in let B := A in let A := TT1 in
  let H := G in let G := leftRotate F 19 in let F := E in let E := p0 TT2 in
  (A, B, C, D, E, F, G, H).

(* one iteration of "for i := 16; i < 64; i++" *)
Definition round_hi (w w1 : list N) (r : regs) (i : nat) : regs :=
  let '(A, B, C, D, E, F, G, H) := r in
  let SS1 := leftRotate (add32 (add32 (leftRotate A 12) E) (leftRotate 0x7a879d8a (N.of_nat i))) 7 in
  let SS2 := N.lxor SS1 (leftRotate A 12) in
  let TT1 := add32 (add32 (add32 (ff1 A B C) D) SS2) (nth i w1 0) in
  let TT2 := add32 (add32 (add32 (gg1 E F G) H) SS1) (nth i w 0) in
  let D := C in let C := leftRotate B 9 in let B := A in let A := TT1 in
  let H := G in let G := leftRotate F 19 in let F := E in let E := p0 TT2 in
  (A, B, C, D, E, F, G, H).

(* the whole loop body: returns the arrays (they persist across iterations) and a..h *)
Definition block_body (w w1 : list N) (r : regs) (msg : list byte) : list N * list N * regs :=
  let '(a, b, c, d, e, f, g, h) := r in
  let w := load_w msg w in
  let w := expand_w w in
  let w1 := fill_w1 w w1 in
  let R := (a, b, c, d, e, f, g, h) in
  let R := fold_left (round_lo w w1) (seq 0 16) R in
  let R := fold_left (round_hi w w1) (seq 16 48) R in
  let '(A, B, C, D, E, F, G, H) := R in
  (w, w1, (N.lxor a A, N.lxor b B, N.lxor c C, N.lxor d D, N.lxor e E, N.lxor f F, N.lxor g G, N.lxor h H)).

(* len(msg) >= 64, without walking the whole slice *)
Definition ge64 (msg : list byte) : bool := (length (firstn 64 msg) =? 64)%nat.

(* for len(msg) >= 64 { body; msg = msg[64:] } *)
Fixpoint block_loop (fuel : list byte) (w w1 : list N) (r : regs) (msg : list byte) : regs :=
  match fuel with
  | [] => r
  | _ :: fuel' =>
    if ge64 msg then
      let '(w, w1, r) := block_body w w1 r msg in
      block_loop fuel' w w1 r (skipn 64 msg)
    else r
  end.

Definition regs_of_digest (dg : list N) : regs :=
  (nth 0 dg 0, nth 1 dg 0, nth 2 dg 0, nth 3 dg 0, nth 4 dg 0, nth 5 dg 0, nth 6 dg 0, nth 7 dg 0).
Definition digest_of_regs (r : regs) : list N :=
  let '(a, b, c, d, e, f, g, h) := r in [a; b; c; d; e; f; g; h].

Definition zero_w : list N := repeat 0 68.     (* var w [68]uint32 *)
Definition zero_w1 : list N := repeat 0 64.    (* var w1 [64]uint32 *)

(* func (sm3 *SM3) update(msg []byte) *)
Definition update (sm3 : SM3) (msg : list byte) : SM3 :=
  let r := block_loop msg zero_w zero_w1 (regs_of_digest (s_digest sm3)) msg in
  mkSM3 (digest_of_regs r) (s_length sm3) (s_unhandleMsg sm3).

(* func (sm3 *SM3) update2(msg []byte) [8]uint32 : same text as update, result returned instead of stored *)
Definition update2 (sm3 : SM3) (msg : list byte) : list N :=
  let r := block_loop msg zero_w zero_w1 (regs_of_digest (s_digest sm3)) msg in
  digest_of_regs r.

(* ---------- the hash.Hash methods ---------------------------------------------------------------- *)
Definition BlockSize : nat := 64.
Definition Size : nat := 32.

Definition Reset (sm3 : SM3) : SM3 :=
  mkSM3 [0x7380166f; 0x4914b2b9; 0x172442d7; 0xda8a0600; 0xa96f30bc; 0x163138aa; 0xe38dee4d; 0xb0fb0e4e]
        0 [].

(* var sm3 SM3 *)
Definition zero_SM3 : SM3 := mkSM3 (repeat 0 8) 0 [].

Definition New : SM3 := Reset zero_SM3.

(* returns the new state and toWrite (the error is always nil) *)
Definition Write (sm3 : SM3) (p : list byte) : SM3 * N :=
  let toWrite := lenN p in
  let sm3 := mkSM3 (s_digest sm3) (uint64 (s_length sm3 + uint64 (lenN p * 8))) (s_unhandleMsg sm3) in
  let msg := s_unhandleMsg sm3 ++ p in
  let nblocks := (length msg / BlockSize)%nat in
  let sm3 := update sm3 msg in
  let sm3 := mkSM3 (s_digest sm3) (s_length sm3) (skipn (nblocks * BlockSize) msg) in
  (sm3, toWrite).

(* the receiver is not modified; the result is in ++ 32 digest bytes (in place when cap(in) allows,
   in a fresh array otherwise: the same value) *)
Definition Sum (sm3 : SM3) (in_ : list byte) : outcome (list byte) :=
  do msg <- pad sm3;
  let digest := update2 sm3 msg in
  Ok (in_ ++ flat_map PutUint32 digest).

Definition Sm3Sum (data : list byte) : outcome (list byte) :=
  let sm3 := Reset zero_SM3 in
  let sm3 := fst (Write sm3 data) in
  Sum sm3 [].

(* ---------- a hash.Hash object as a state machine ------------------------------------------------ *)
Inductive op : Type :=
| OpWrite (p : list byte)
| OpSum (in_ : list byte)
| OpReset.

Inductive out : Type :=
| OutWrite (n : N)
| OutSum (r : outcome (list byte))
| OutReset.

Definition init : SM3 := New.

Definition step (s : SM3) (o : op) : SM3 * out :=
  match o with
  | OpWrite p => let '(s', n) := Write s p in (s', OutWrite n)
  | OpSum in_ => (s, OutSum (Sum s in_))
  | OpReset => (Reset s, OutReset)
  end.

Fixpoint run (s : SM3) (ops : list op) : SM3 * list out :=
  match ops with
  | [] => (s, [])
  | o :: ops' =>
    let '(s1, r) := step s o in
    let '(s2, rs) := run s1 ops' in
    (s2, r :: rs)
  end.

(* ---------- crypto/hmac (Go 1.23) instantiated with sm3.New ------------------------------------
   type hmac struct { opad, ipad []byte; outer, inner hash.Hash; marshaled bool }
   *sm3.SM3 has no MarshalBinary, so marshaled stays false and Reset stops after inner.Write(ipad). *)
Record hmac : Type := mkHmac {
  h_opad : list byte;
  h_ipad : list byte;
  h_outer : SM3;
  h_inner : SM3
}.

(* copy(dst, key) into a zeroed block of blocksize bytes *)
Definition copy_into_block (key : list byte) : list byte :=
  firstn BlockSize key ++ repeat 0 (BlockSize - length key).

Definition hmac_New (key : list byte) : outcome hmac :=
  let outer := New in
  let inner := New in
  do ko <- (if (BlockSize <? length key)%nat
            then let outer' := fst (Write outer key) in
                 do k <- Sum outer' []; Ok (k, outer')
            else Ok (key, outer));
  let '(key, outer) := ko in
  let ipad := map (fun b => N.lxor b 0x36) (copy_into_block key) in
  let opad := map (fun b => N.lxor b 0x5c) (copy_into_block key) in
  let inner := fst (Write inner ipad) in
  Ok (mkHmac opad ipad outer inner).

Definition hmac_Write (h : hmac) (p : list byte) : hmac * N :=
  let '(inner, n) := Write (h_inner h) p in
  (mkHmac (h_opad h) (h_ipad h) (h_outer h) inner, n).

Definition hmac_Sum (h : hmac) (in_ : list byte) : hmac * outcome (list byte) :=
  let origLen := length in_ in
  match Sum (h_inner h) in_ with
  | Ok in' =>
    let outer := Reset (h_outer h) in
    let outer := fst (Write outer (h_opad h)) in
    let outer := fst (Write outer (skipn origLen in')) in
    (mkHmac (h_opad h) (h_ipad h) outer (h_inner h), Sum outer (firstn origLen in'))
  | Err e => (h, Err e) | Panic => (h, Panic) | Hang => (h, Hang)
  end.

Definition hmac_Reset (h : hmac) : hmac :=
  let inner := Reset (h_inner h) in
  let inner := fst (Write inner (h_ipad h)) in
  mkHmac (h_opad h) (h_ipad h) (h_outer h) inner.

Definition hmac_step (h : hmac) (o : op) : hmac * out :=
  match o with
  | OpWrite p => let '(h', n) := hmac_Write h p in (h', OutWrite n)
  | OpSum in_ => let '(h', r) := hmac_Sum h in_ in (h', OutSum r)
  | OpReset => (hmac_Reset h, OutReset)
  end.

Fixpoint hmac_run (h : hmac) (ops : list op) : hmac * list out :=
  match ops with
  | [] => (h, [])
  | o :: ops' =>
    let '(h1, r) := hmac_step h o in
    let '(h2, rs) := hmac_run h1 ops' in
    (h2, r :: rs)
  end.

(* hmac.New(sm3.New, key); Write(msg); Sum(nil) *)
Definition hmac_oneshot (key msg : list byte) : outcome (list byte) :=
  do h <- hmac_New key;
  let h := fst (hmac_Write h msg) in
  snd (hmac_Sum h []).

(* ---------- golang.org/x/crypto/pbkdf2.Key(password, salt, iter, keyLen, sm3.New) ---------------- *)
(* for x := range U { T[x] ^= U[x] } *)
Fixpoint xor_range (T U : list byte) : list byte :=
  match U, T with
  | [], _ => T
  | _ :: _, [] => []
  | u :: U', t :: T' => N.lxor t u :: xor_range T' U'
  end.

(* for n := 2; n <= iter; n++ { prf.Reset(); prf.Write(U); U = U[:0]; U = prf.Sum(U); T ^= U }
   k = number of iterations left; returns prf, U, T *)
Fixpoint pbkdf2_inner (k : nat) (prf : hmac) (U T : list byte) : outcome (hmac * list byte * list byte) :=
  match k with
  | O => Ok (prf, U, T)
  | S k' =>
    let prf := hmac_Reset prf in
    let prf := fst (hmac_Write prf U) in
    let U := firstn 0 U in
    let '(prf, r) := hmac_Sum prf U in
    do U <- r;
    pbkdf2_inner k' prf U (xor_range T U)
  end.

(* for block := 1; block <= numBlocks; block++ { ... }; blocks = the values of block still to do *)
Fixpoint pbkdf2_outer (blocks : list nat) (iter hashLen : nat) (salt : list byte) (prf : hmac) (dk U : list byte)
  : outcome (list byte) :=
  match blocks with
  | [] => Ok dk
  | block :: blocks' =>
    let prf := hmac_Reset prf in
    let prf := fst (hmac_Write prf salt) in
    let b := N.of_nat block in
    let buf := [uint8 (N.shiftr b 24); uint8 (N.shiftr b 16); uint8 (N.shiftr b 8); uint8 b] in
    let prf := fst (hmac_Write prf buf) in
    let '(prf, r) := hmac_Sum prf dk in
    do dk <- r;
    let T := skipn (length dk - hashLen) dk in
    let U := T in                                  (* copy(U, T): both hashLen long *)
    do res <- pbkdf2_inner (iter - 1) prf U T;
    let '(prf, U, T) := res in
    let dk := firstn (length dk - hashLen) dk ++ T in   (* T aliases the tail of dk *)
    pbkdf2_outer blocks' iter hashLen salt prf dk U
  end.

Definition pbkdf2_Key (password salt : list byte) (iter keyLen : nat) : outcome (list byte) :=
  do prf <- hmac_New password;
  let hashLen := Size in
  let numBlocks := ((keyLen + hashLen - 1) / hashLen)%nat in
  do dk <- pbkdf2_outer (seq 1 numBlocks) iter hashLen salt prf [] (repeat 0 hashLen);
  Ok (firstn keyLen dk).
