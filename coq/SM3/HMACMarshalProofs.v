(* Both paths of crypto/hmac (HMACMarshal.v) honour the hash.Hash contract with H = HMAC-SM3(key, .);
   on the path taken for sm3 the object behaves as the model of SM3Model.v.  Restated in Props/C04.v. *)
From Coq Require Import List NArith Arith Lia.
From GmsmVerif Require Import Lib.Outcome SM3.SM3Spec SM3.HMACSpec SM3.SM3Model SM3.HashSpec SM3.SM3History
  SM3.HMACProofs SM3.HMACMarshal.
Import ListNotations.
Open Scope N_scope.

Section WithMarshalable.
  Variable mar : bool.

  Definition hinvM (key written : list N) (h : hmacM) : Prop :=
    m_inner h = st (ipad_of key ++ written) /\
    (if m_marshaled h
     then m_ipad h = Marshaled (st (ipad_of key)) /\ m_opad h = Marshaled (st (opad_of key))
     else m_ipad h = PadBytes (ipad_of key) /\ m_opad h = PadBytes (opad_of key)).

  Lemma hmacM_New_spec key : exists h, hmacM_New key = Ok h /\ hinvM key [] h.
  Proof.
    unfold hmacM_New. destruct (hmac_New_spec key) as (h & Hn & Hi & Ho & Hin). rewrite Hn. cbn [obind].
    eexists. split; [reflexivity|]. unfold hinvM. cbn [m_inner m_marshaled m_ipad m_opad].
    rewrite Hi, Ho. auto.
  Qed.

  Lemma hmacM_Write_spec key w h p :
    hinvM key w h -> hinvM key (w ++ p) (fst (hmacM_Write h p)) /\ snd (hmacM_Write h p) = N.of_nat (length p).
  Proof.
    intros (Hin & Hm). unfold hmacM_Write. rewrite Hin, Write_spec. cbn [fst snd]. split; [|reflexivity].
    unfold hinvM. cbn [m_inner m_marshaled m_ipad m_opad]. rewrite app_assoc. auto.
  Qed.

  Lemma hmacM_Sum_spec key w h i :
    hinvM key w h ->
    hinvM key w (fst (hmacM_Sum h i)) /\ snd (hmacM_Sum h i) = Ok (i ++ hmac_sm3 key w).
  Proof.
    intros (Hin & Hm). unfold hmacM_Sum. rewrite Hin, Sum_spec.
    destruct (m_marshaled h) eqn:E; destruct Hm as [Hi Ho]; rewrite Ho.
    - rewrite Write_spec. cbn [fst snd]. rewrite skipn_length_app, firstn_length_app, Sum_spec.
      split; [|reflexivity]. unfold hinvM. cbn [m_inner m_marshaled m_ipad m_opad]. auto.
    - rewrite Reset_st, Write_spec. cbn [fst app]. rewrite Write_spec. cbn [fst snd].
      rewrite skipn_length_app, firstn_length_app, Sum_spec.
      split; [|reflexivity]. unfold hinvM. cbn [m_inner m_marshaled m_ipad m_opad]. auto.
  Qed.

  Lemma hmacM_Reset_spec key w h : hinvM key w h -> exists h', hmacM_Reset mar h = Ok h' /\ hinvM key [] h'.
  Proof.
    intros (Hin & Hm). unfold hmacM_Reset.
    destruct (m_marshaled h) eqn:E; destruct Hm as [Hi Ho]; rewrite Hi.
    - eexists. split; [reflexivity|]. unfold hinvM. cbn [m_inner m_marshaled m_ipad m_opad].
      rewrite app_nil_r. auto.
    - rewrite Ho. rewrite !Reset_st, !Write_spec. cbn [fst app].
      destruct mar; cbn [negb]; eexists; (split; [reflexivity|]); unfold hinvM; cbn [m_inner m_marshaled m_ipad m_opad];
        rewrite app_nil_r; auto.
  Qed.

  Lemma hmacM_run_spec key ops : forall w h, hinvM key w h ->
    snd (hmacM_run mar h ops) = ref_run (hmac_sm3 key) w ops.
  Proof.
    induction ops as [|[p|i|] ops IH]; intros w h Hh; cbn [hmacM_run ref_run hmacM_step].
    - reflexivity.
    - destruct (hmacM_Write_spec key w h p Hh) as [H1 H2].
      destruct (hmacM_Write h p) as [h' n]. cbn [fst snd] in H1, H2.
      specialize (IH _ _ H1). destruct (hmacM_run mar h' ops) as [h2 rs]. cbn [snd] in *.
      rewrite H2, IH. reflexivity.
    - destruct (hmacM_Sum_spec key w h i Hh) as [H1 H2].
      destruct (hmacM_Sum h i) as [h' r]. cbn [fst snd] in H1, H2.
      specialize (IH _ _ H1). destruct (hmacM_run mar h' ops) as [h2 rs]. cbn [snd] in *.
      rewrite H2, IH. reflexivity.
    - destruct (hmacM_Reset_spec key w h Hh) as (h' & Hr & H1). rewrite Hr.
      specialize (IH _ _ H1). destruct (hmacM_run mar h' ops) as [h2 rs]. cbn [snd] in *.
      rewrite IH. reflexivity.
  Qed.
End WithMarshalable.

(* whichever path is taken, the results are those of the path modelled in SM3Model.v *)
Lemma hmacM_agrees_with_hmac mar key ops :
  exists hM h, hmacM_New key = Ok hM /\ hmac_New key = Ok h /\
    snd (hmacM_run mar hM ops) = snd (hmac_run h ops) /\
    snd (hmacM_run mar hM ops) = ref_run (hmac_sm3 key) [] ops.
Proof.
  destruct (hmacM_New_spec key) as (hM & HnM & HhM). destruct (hmac_New_spec key) as (h & Hn & Hh).
  exists hM, h. split; [exact HnM|]. split; [exact Hn|].
  rewrite (hmacM_run_spec mar key ops [] hM HhM), (hmac_run_spec key ops [] h Hh). split; reflexivity.
Qed.
