(* gmtls's uses of SM3 as the hash.Hash operations they issue: pHash / prf12(sm3.New) of
   /repo/gmtls/prf.go and tls10MAC.MAC over macSM3 of /repo/gmtls/gm_support.go, cipher_suites.go, run on
   the model of crypto/hmac over the model of sm3/sm3.go (SM3Model.v).  No proofs in this file.

   func pHash(result, secret, seed []byte, hash func() hash.Hash) {
     h := hmac.New(hash, secret); h.Write(seed); a := h.Sum(nil)
     j := 0
     for j < len(result) {
       h.Reset(); h.Write(a); h.Write(seed); b := h.Sum(nil)
       todo := len(b); if j+todo > len(result) { todo = len(result) - j }
       copy(result[j:j+todo], b); j += todo
       h.Reset(); h.Write(a); a = h.Sum(nil)
     }
   }
   The loop is unbounded in the source: fuel, Hang when it runs out.  result (a caller-allocated slice
   of length n) is modelled by the bytes written so far. *)
From Coq Require Import List NArith Arith.
From GmsmVerif Require Import Lib.Outcome SM3.SM3Spec SM3.SM3Model.
Import ListNotations.

Notation byte := N (only parsing).
Local Open Scope nat_scope.

Fixpoint pHash_ops_loop (fuel : nat) (h : hmac) (seed a : list byte) (n j : nat) (result : list byte)
  : outcome (list byte) :=
  if Nat.ltb j n then
    match fuel with
    | O => Hang
    | S fuel' =>
      let h := hmac_Reset h in
      let h := fst (hmac_Write h a) in
      let h := fst (hmac_Write h seed) in
      let '(h, r) := hmac_Sum h [] in
      do b <- r;
      let todo := if Nat.ltb n (j + length b) then n - j else length b in
      let result := result ++ firstn todo b in
      let h := hmac_Reset h in
      let h := fst (hmac_Write h a) in
      let '(h, r) := hmac_Sum h [] in
      do a' <- r;
      pHash_ops_loop fuel' h seed a' n (j + todo) result
    end
  else Ok result.

Definition pHash_ops (fuel n : nat) (secret seed : list byte) : outcome (list byte) :=
  do h <- hmac_New secret;
  let h := fst (hmac_Write h seed) in
  let '(h, r) := hmac_Sum h [] in
  do a <- r;
  pHash_ops_loop fuel h seed a n 0 [].

(* prf12(sm3.New)(result, secret, label, seed): labelAndSeed := label ++ seed; pHash(result, secret, labelAndSeed, sm3.New) *)
Definition prf12_sm3_ops (fuel n : nat) (secret label seed : list byte) : outcome (list byte) :=
  pHash_ops fuel n secret (label ++ seed).

(* macSM3(version, key) = tls10MAC{hmac.New(sm3.New, key)}
   func (s tls10MAC) MAC(digestBuf, seq, header, data, extra []byte) []byte {
     s.h.Reset(); s.h.Write(seq); s.h.Write(header); s.h.Write(data)
     res := s.h.Sum(digestBuf[:0])
     if extra != nil { s.h.Write(extra) }
     return res } *)
Definition macSM3 (key : list byte) : outcome hmac := hmac_New key.

Definition tls10MAC_MAC (h : hmac) (digestBuf seq header data : list byte) (extra : option (list byte))
  : hmac * outcome (list byte) :=
  let h := hmac_Reset h in
  let h := fst (hmac_Write h seq) in
  let h := fst (hmac_Write h header) in
  let h := fst (hmac_Write h data) in
  let '(h, res) := hmac_Sum h (firstn 0 digestBuf) in
  let h := match extra with Some e => fst (hmac_Write h e) | None => h end in
  (h, res).

(* one MAC object used for a whole connection direction: a list of records (seq, header, data, extra) *)
Fixpoint tls10MAC_run (h : hmac) (recs : list (list byte * list byte * list byte * option (list byte)))
  : list (outcome (list byte)) :=
  match recs with
  | [] => []
  | (seq, header, data, extra) :: recs' =>
    let '(h', r) := tls10MAC_MAC h [] seq header data extra in
    r :: tls10MAC_run h' recs'
  end.
