(* The op-level models of gmtls's pHash / prf12(sm3.New) and tls10MAC over macSM3 (GmtlsOps.v), run on the
   hmac and SM3 models, equal the function-level model of gmtls/prf.go used by C06 (Agree/KeyModel.v)
   instantiated with the HMAC-SM3 specification, hence P_SM3 of GM/T 0024 / RFC 5246 (build-res's
   prf12_sm3_is_P_SM3), and HMAC-SM3 of seq ++ header ++ data.  Restated in Props/C04.v. *)
From Coq Require Import List NArith Arith Lia.
From GmsmVerif Require Import Lib.Outcome SM3.SM3Spec SM3.HMACSpec SM3.SM3Model SM3.HashSpec SM3.SM3History
  SM3.HMACProofs SM3.GmtlsOps Agree.KeyModel Agree.PrfSM3.
Import ListNotations.

(* Reset; Write x; [Write y;] Sum(in) on an hmac object *)
Lemma hmac_reset_write_sum key w h x i :
  hinv key w h ->
  let '(h', r) := hmac_Sum (fst (hmac_Write (hmac_Reset h) x)) i in
  r = Ok (i ++ hmac_sm3 key x) /\ hinv key x h'.
Proof.
  intros Hh. pose proof (hmac_Reset_spec key w h Hh) as H1.
  destruct (hmac_Write_spec key [] _ x H1) as [H2 _]. cbn [app] in H2.
  destruct (hmac_Sum_spec key x _ i H2) as [H3 H4].
  destruct (hmac_Sum (fst (hmac_Write (hmac_Reset h) x)) i) as [h' r]. cbn [fst snd] in *. auto.
Qed.

Lemma hmac_reset_write2_sum key w h x y i :
  hinv key w h ->
  let '(h', r) := hmac_Sum (fst (hmac_Write (fst (hmac_Write (hmac_Reset h) x)) y)) i in
  r = Ok (i ++ hmac_sm3 key (x ++ y)) /\ hinv key (x ++ y) h'.
Proof.
  intros Hh. pose proof (hmac_Reset_spec key w h Hh) as H1.
  destruct (hmac_Write_spec key [] _ x H1) as [H2 _]. cbn [app] in H2.
  destruct (hmac_Write_spec key x _ y H2) as [H3 _].
  destruct (hmac_Sum_spec key (x ++ y) _ i H3) as [H4 H5].
  destruct (hmac_Sum (fst (hmac_Write (fst (hmac_Write (hmac_Reset h) x)) y)) i) as [h' r]. cbn [fst snd] in *. auto.
Qed.

Lemma pHash_ops_loop_spec key fuel : forall h w seed a n j result, hinv key w h ->
  pHash_ops_loop fuel h seed a n j result = pHash_loop hmac_sm3 fuel key seed a n j result.
Proof.
  induction fuel as [|fuel IH]; intros h w seed a n j result Hh; cbn [pHash_ops_loop pHash_loop].
  - reflexivity.
  - destruct (Nat.ltb j n); [|reflexivity].
    pose proof (hmac_reset_write2_sum key w h a seed [] Hh) as H1.
    destruct (hmac_Sum (fst (hmac_Write (fst (hmac_Write (hmac_Reset h) a)) seed)) []) as [h1 r1].
    destruct H1 as [E1 Hh1]. rewrite E1. cbn [app obind].
    pose proof (hmac_reset_write_sum key (a ++ seed) h1 a [] Hh1) as H2.
    destruct (hmac_Sum (fst (hmac_Write (hmac_Reset h1) a)) []) as [h2 r2].
    destruct H2 as [E2 Hh2]. rewrite E2. cbn [app obind].
    apply (IH h2 a). exact Hh2.
Qed.

Lemma pHash_ops_spec fuel n secret seed : pHash_ops fuel n secret seed = pHash hmac_sm3 fuel n secret seed.
Proof.
  unfold pHash_ops, pHash. destruct (hmac_New_spec secret) as (h & Hn & Hh). rewrite Hn. cbn [obind].
  destruct (hmac_Write_spec secret [] h seed Hh) as [H1 _]. cbn [app] in H1.
  destruct (hmac_Sum_spec secret seed _ [] H1) as [H2 H3].
  destruct (hmac_Sum (fst (hmac_Write h seed)) []) as [h1 r1]. cbn [fst snd] in *. rewrite H3. cbn [app obind].
  apply (pHash_ops_loop_spec secret fuel h1 seed). exact H2.
Qed.

Lemma prf12_sm3_ops_spec fuel n secret label seed :
  prf12_sm3_ops fuel n secret label seed = prf12 hmac_sm3 fuel n secret label seed.
Proof. unfold prf12_sm3_ops, prf12. apply pHash_ops_spec. Qed.

(* the chain: sm3.go -> hash.Hash -> crypto/hmac -> pHash's operations -> P_SM3 *)
Lemma prf12_sm3_ops_is_P_SM3 fuel n secret label seed : n <= fuel ->
  prf12_sm3_ops fuel n secret label seed = Ok (PRF_spec hmac_sm3 n secret label seed).
Proof. intros H. rewrite prf12_sm3_ops_spec. apply prf12_sm3_is_P_SM3. exact H. Qed.

(* ---------- tls10MAC over macSM3 ------------------------------------------------------------------------ *)
Lemma tls10MAC_MAC_spec key w h digestBuf seq header data extra :
  hinv key w h ->
  let '(h', r) := tls10MAC_MAC h digestBuf seq header data extra in
  r = Ok (hmac_sm3 key (seq ++ header ++ data)) /\ exists w', hinv key w' h'.
Proof.
  intros Hh. unfold tls10MAC_MAC.
  pose proof (hmac_Reset_spec key w h Hh) as H1.
  destruct (hmac_Write_spec key [] _ seq H1) as [H2 _]. cbn [app] in H2.
  destruct (hmac_Write_spec key seq _ header H2) as [H3 _].
  destruct (hmac_Write_spec key (seq ++ header) _ data H3) as [H4 _].
  destruct (hmac_Sum_spec key ((seq ++ header) ++ data) _ (firstn 0 digestBuf) H4) as [H5 H6].
  destruct (hmac_Sum _ (firstn 0 digestBuf)) as [h5 r5]. cbn [fst snd] in *.
  split; [rewrite H6, <- app_assoc; reflexivity|].
  destruct extra as [e|].
  - destruct (hmac_Write_spec key _ h5 e H5) as [H7 _]. eexists; exact H7.
  - eexists; exact H5.
Qed.

Lemma tls10MAC_run_spec key recs : forall w h, hinv key w h ->
  tls10MAC_run h recs = map (fun '(seq, header, data, extra) => Ok (hmac_sm3 key (seq ++ header ++ data))) recs.
Proof.
  induction recs as [|[[[seq header] data] extra] recs IH]; intros w h Hh; cbn [tls10MAC_run map]; [reflexivity|].
  pose proof (tls10MAC_MAC_spec key w h [] seq header data extra Hh) as H.
  destruct (tls10MAC_MAC h [] seq header data extra) as [h' r]. destruct H as [E [w' Hh']].
  rewrite E, (IH w' h' Hh'). reflexivity.
Qed.

Lemma macSM3_run_spec key recs :
  exists h, macSM3 key = Ok h /\
    tls10MAC_run h recs = map (fun '(seq, header, data, extra) => Ok (hmac_sm3 key (seq ++ header ++ data))) recs.
Proof.
  unfold macSM3. destruct (hmac_New_spec key) as (h & Hn & Hh). exists h. split; [exact Hn|].
  apply (tls10MAC_run_spec key recs [] h Hh).
Qed.
