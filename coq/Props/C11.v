(* C11 - the SM4 ECB/CBC/CFB/OFB helpers equal the standard PKCS#7-padded modes and invert.
   Property theorems only: each is closed by lemmas of SM4/ModesProofs.v and followed by Print Assumptions.
   Specification: SM4/ModesSpec.v (NIST SP 800-38A, RFC 5652 6.3); model: SM4/ModesModel.v (follows the
   helpers of /repo/sm4/sm4.go function by function).  The block cipher is abstract: any E, D with
   [block_cipher E D]; C05 proves that NewCipher/Encrypt/Decrypt of sm4.go are SM4Spec, which is one
   (C11_sm4_is_block_cipher). *)
From Coq Require Import List NArith Arith Bool Lia.
From Coq Require String.
From GmsmVerif Require Import Lib.Outcome Gen.SM4Consts SM4.SM4Spec SM4.ModesSpec SM4.ModesModel SM4.ModesProofs SM4.SM4ConstsBlock SM4.SM4ConstsModes SM4.ModesCodeLib Gen.ModesCode SM4.ModesCodeTie.
Import ListNotations.
Local Open Scope nat_scope.

(* what the theorems need of c.Encrypt / c.Decrypt: 16-byte outputs with byte values, D inverts E *)
Record block_cipher (E D : list N -> list N -> list N) : Prop := {
  bc_E_len : forall k b, length (E k b) = 16;
  bc_D_len : forall k b, length (D k b) = 16;
  bc_E_ok : forall k b, bytes_ok (E k b) = true;
  bc_DE : forall k b, length b = 16 -> bytes_ok b = true -> D k (E k b) = b }.

Theorem C11_sm4_is_block_cipher : block_cipher sm4_encrypt_block sm4_decrypt_block.
Proof. constructor; [exact sm4_E_len|exact sm4_D_len|exact sm4_E_ok|exact sm4_DE]. Qed.
Print Assumptions C11_sm4_is_block_cipher.

(* ---- 1. PKCS#7 -------------------------------------------------------------------------------------------- *)
Theorem C11_pkcs7_pad_spec : forall m,
  pkcs7Padding m = pkcs7_pad m /\ pkcs7_padded (pkcs7Padding m) m /\
  length (pkcs7Padding m) = 16 * (length m / 16 + 1).
Proof.
  intros m. rewrite pkcs7Padding_is_pad. split; [reflexivity|]. split; [|apply pkcs7_pad_length].
  exists (pad_len (length m)). split; [apply pad_len_range|reflexivity].
Qed.
Print Assumptions C11_pkcs7_pad_spec.

Theorem C11_pkcs7_unpad_pad : forall m, pkcs7UnPadding (pkcs7Padding m) = Ok m.
Proof. intros m. rewrite pkcs7Padding_is_pad. apply unpad_pad. Qed.
Print Assumptions C11_pkcs7_unpad_pad.

(* what pkcs7UnPadding accepts ends in one valid pad, and every such string is accepted *)
Theorem C11_pkcs7_unpad_iff : forall s m, pkcs7UnPadding s = Ok m <-> pkcs7_padded s m.
Proof.
  intros s m. split; [apply unpad_sound|]. intros (k & Hk & ->). apply unpad_padded. exact Hk.
Qed.
Print Assumptions C11_pkcs7_unpad_iff.

(* ---- 2. encryption = the textbook mode over pad(m), for every key, IV and length ---------------------------- *)
Theorem C11_ecb_encrypt_is_standard : forall E D p key m, block_cipher E D ->
  length key = 16 -> Sm4Ecb E D p key m true = Ok (ecb_pkcs7 (E key) m).
Proof.
  intros E D p key m [H1 H2 H3 H4] Hk.
  change (Sm4Ecb E D p key m true) with (Sm4Ecb E D init_pkg key m true).
  exact (ecb_encrypt_std E D H1 H2 H3 H4 init_pkg key Hk eq_refl m).
Qed.
Print Assumptions C11_ecb_encrypt_is_standard.

Theorem C11_cbc_encrypt_is_standard : forall E D p key m, block_cipher E D ->
  length key = 16 -> length (IV p) = 16 -> Sm4Cbc E D p key m true = Ok (cbc_pkcs7 (E key) (IV p) m).
Proof. intros E D p key m [H1 H2 H3 H4] Hk Hi. exact (cbc_encrypt_std E D H1 H2 H3 H4 p key Hk Hi m). Qed.
Print Assumptions C11_cbc_encrypt_is_standard.

Theorem C11_cfb_encrypt_is_standard : forall E D p key m, block_cipher E D ->
  length key = 16 -> length (IV p) = 16 -> Sm4CFB E p key m true = Ok (cfb_pkcs7 (E key) (IV p) m).
Proof. intros E D p key m [H1 H2 H3 H4] Hk Hi. exact (cfb_encrypt_std E D H1 H2 H3 H4 p key Hk Hi m). Qed.
Print Assumptions C11_cfb_encrypt_is_standard.

Theorem C11_ofb_encrypt_is_standard : forall E D p key m, block_cipher E D ->
  length key = 16 -> length (IV p) = 16 -> Sm4OFB E p key m true = Ok (ofb_pkcs7 (E key) (IV p) m).
Proof. intros E D p key m [H1 H2 H3 H4] Hk Hi. exact (ofb_encrypt_std E D H1 H2 H3 H4 p key Hk Hi m). Qed.
Print Assumptions C11_ofb_encrypt_is_standard.

(* decryption of any whole number of blocks = the textbook decryption, then the pad is removed; when the
   pad is invalid the helpers return an empty result and no error (the error of pkcs7UnPadding is dropped) *)
Theorem C11_decrypt_is_standard : forall E D p key c n, block_cipher E D ->
  length key = 16 -> length (IV p) = 16 -> length c = 16 * n ->
  Sm4Ecb E D p key c false = unpad_or_nil (concat (ecb_decrypt (D key) (blocks c))) /\
  Sm4Cbc E D p key c false = unpad_or_nil (concat (cbc_decrypt (D key) (IV p) (blocks c))) /\
  Sm4CFB E p key c false = unpad_or_nil (concat (cfb_decrypt (E key) (IV p) (blocks c))) /\
  Sm4OFB E p key c false = unpad_or_nil (concat (ofb_crypt (E key) (IV p) (blocks c))).
Proof.
  intros E D p key c n [H1 H2 H3 H4] Hk Hi Hc. repeat split.
  - exact (ecb_decrypt_std E D H1 H2 H3 H4 p key Hk Hi c n Hc).
  - exact (cbc_decrypt_std E D H1 H2 H3 H4 p key Hk Hi c n Hc).
  - exact (cfb_decrypt_std E D H1 H2 H3 H4 p key Hk Hi c n Hc).
  - exact (ofb_decrypt_std E D H1 H2 H3 H4 p key Hk Hi c n Hc).
Qed.
Print Assumptions C11_decrypt_is_standard.

(* ---- 3. decrypting what encryption produced returns exactly the plaintext ------------------------------------ *)
Theorem C11_ecb_decrypt_encrypt : forall E D p key m c, block_cipher E D ->
  length key = 16 -> bytes_ok m = true ->
  Sm4Ecb E D p key m true = Ok c -> Sm4Ecb E D p key c false = Ok m.
Proof.
  intros E D p key m c [H1 H2 H3 H4] Hk Hm.
  change (Sm4Ecb E D p key m true) with (Sm4Ecb E D init_pkg key m true).
  change (Sm4Ecb E D p key c false) with (Sm4Ecb E D init_pkg key c false).
  rewrite (ecb_encrypt_std E D H1 H2 H3 H4 init_pkg key Hk eq_refl m).
  intros [= <-]. exact (ecb_roundtrip E D H1 H2 H3 H4 init_pkg key Hk eq_refl m Hm).
Qed.
Print Assumptions C11_ecb_decrypt_encrypt.

Theorem C11_cbc_decrypt_encrypt : forall E D p key m c, block_cipher E D ->
  length key = 16 -> length (IV p) = 16 -> bytes_ok (IV p) = true -> bytes_ok m = true ->
  Sm4Cbc E D p key m true = Ok c -> Sm4Cbc E D p key c false = Ok m.
Proof.
  intros E D p key m c [H1 H2 H3 H4] Hk Hi Hib Hm. rewrite (cbc_encrypt_std E D H1 H2 H3 H4 p key Hk Hi m).
  intros [= <-]. exact (cbc_roundtrip E D H1 H2 H3 H4 p key Hk Hi m Hm Hib).
Qed.
Print Assumptions C11_cbc_decrypt_encrypt.

Theorem C11_cfb_decrypt_encrypt : forall E D p key m c, block_cipher E D ->
  length key = 16 -> length (IV p) = 16 ->
  Sm4CFB E p key m true = Ok c -> Sm4CFB E p key c false = Ok m.
Proof.
  intros E D p key m c [H1 H2 H3 H4] Hk Hi. rewrite (cfb_encrypt_std E D H1 H2 H3 H4 p key Hk Hi m).
  intros [= <-]. exact (cfb_roundtrip E D H1 H2 H3 H4 p key Hk Hi m).
Qed.
Print Assumptions C11_cfb_decrypt_encrypt.

Theorem C11_ofb_decrypt_encrypt : forall E D p key m c, block_cipher E D ->
  length key = 16 -> length (IV p) = 16 ->
  Sm4OFB E p key m true = Ok c -> Sm4OFB E p key c false = Ok m.
Proof.
  intros E D p key m c [H1 H2 H3 H4] Hk Hi. rewrite (ofb_encrypt_std E D H1 H2 H3 H4 p key Hk Hi m).
  intros [= <-]. exact (ofb_roundtrip E D H1 H2 H3 H4 p key Hk Hi m).
Qed.
Print Assumptions C11_ofb_decrypt_encrypt.

(* ---- 4. output length: the next multiple of 16 strictly greater than |m| --------------------------------------- *)
Theorem C11_out_length : forall E D p key m c, block_cipher E D ->
  length key = 16 -> length (IV p) = 16 ->
  (Sm4Ecb E D p key m true = Ok c \/ Sm4Cbc E D p key m true = Ok c \/
   Sm4CFB E p key m true = Ok c \/ Sm4OFB E p key m true = Ok c) ->
  length c = 16 * (length m / 16 + 1) /\ length m < length c <= length m + 16 /\ length c mod 16 = 0.
Proof.
  intros E D p key m c [H1 H2 H3 H4] Hk Hi H.
  destruct (out_lengths E H1 p key m) as (L1 & L2 & L3 & L4).
  assert (Hc : length c = 16 * (length m / 16 + 1)).
  { destruct H as [H|[H|[H|H]]].
    - rewrite (ecb_encrypt_std E D H1 H2 H3 H4 p key Hk Hi m) in H. injection H as <-. exact L1.
    - rewrite (cbc_encrypt_std E D H1 H2 H3 H4 p key Hk Hi m) in H. injection H as <-. exact L2.
    - rewrite (cfb_encrypt_std E D H1 H2 H3 H4 p key Hk Hi m) in H. injection H as <-. exact L3.
    - rewrite (ofb_encrypt_std E D H1 H2 H3 H4 p key Hk Hi m) in H. injection H as <-. exact L4. }
  split; [exact Hc|].
  pose proof (Nat.div_mod_eq (length m) 16). pose proof (Nat.mod_upper_bound (length m) 16).
  split; [lia|]. rewrite Hc, Nat.mul_comm. apply Nat.mod_mul. lia.
Qed.
Print Assumptions C11_out_length.

(* ---- 5. no memory of the caller is written: neither in nor the spare capacity behind it ------------------------ *)
(* [in] is a slice header into a heap of arrays.  The heap-level model of the four helpers (ModesModel:
   Sm4Ecb_mem .. Sm4OFB_mem) performs pkcs7Padding's make/copy/append and the helpers' own writes
   out = make(len(inData)); copy(out[i*16:i*16+16], x) on the heap, and reads block i of the input from the heap
   as it is in iteration i.  For each of the four helpers: every array that exists when it is called - in
   particular the whole backing array of in, spare capacity included - is unchanged afterwards (and no shorter
   heap results), and the result is the value-level helper on the bytes of in.  (Destinations that are made and
   used only inside a helper - iv, out_tmp, K, cipherBlock, plainBlock, shiftIV - are modelled on values.) *)
Theorem C11_caller_memory_untouched : forall E D p h key in_ mode,
  slice_valid h in_ ->
  let frame (r : outcome (heap * list N)) :=
    forall h2 o, r = Ok (h2, o) -> length h <= length h2 /\ forall a, a < length h -> array h2 a = array h a in
  (omap snd (Sm4Ecb_mem E D p h key in_ mode) = Sm4Ecb E D p key (read h in_) mode /\ frame (Sm4Ecb_mem E D p h key in_ mode)) /\
  (omap snd (Sm4Cbc_mem E D p h key in_ mode) = Sm4Cbc E D p key (read h in_) mode /\ frame (Sm4Cbc_mem E D p h key in_ mode)) /\
  (omap snd (Sm4CFB_mem E p h key in_ mode) = Sm4CFB E p key (read h in_) mode /\ frame (Sm4CFB_mem E p h key in_ mode)) /\
  (omap snd (Sm4OFB_mem E p h key in_ mode) = Sm4OFB E p key (read h in_) mode /\ frame (Sm4OFB_mem E p h key in_ mode)).
Proof.
  intros E D p h key in_ mode Hv. cbv zeta.
  assert (K : forall cm c, core_mem_ok cm c ->
              omap snd (helper_mem cm p h key in_ mode) = helper c p key (read h in_) mode /\
              (forall h2 o, helper_mem cm p h key in_ mode = Ok (h2, o) ->
                 length h <= length h2 /\ forall a, a < length h -> array h2 a = array h a)).
  { intros cm c Hok. destruct (helper_mem_spec cm c p h key in_ mode Hok Hv) as [H1 H2]. split; [exact H1|].
    intros h2 o Hr. exact (H2 h2 o Hr). }
  split; [exact (K _ _ (Sm4Ecb_core_mem_ok E D))|]. split; [exact (K _ _ (Sm4Cbc_core_mem_ok E D))|].
  split; [exact (K _ _ (Sm4CFB_core_mem_ok E))|exact (K _ _ (Sm4OFB_core_mem_ok E))].
Qed.
Print Assumptions C11_caller_memory_untouched.

(* ---- 6. the package-level IV: SetIV accepts exactly 16 bytes; the helpers use the IV stored at call time ----- *)
Theorem C11_iv_global_semantics : forall E D p iv key m, block_cipher E D -> length key = 16 ->
  (length iv <> 16 -> SetIV iv p = (Err 1, p)) /\
  (length iv = 16 ->
     SetIV iv p = (Ok tt, mkPkg iv) /\
     Sm4Cbc E D (snd (SetIV iv p)) key m true = Ok (cbc_pkcs7 (E key) iv m) /\
     Sm4CFB E (snd (SetIV iv p)) key m true = Ok (cfb_pkcs7 (E key) iv m) /\
     Sm4OFB E (snd (SetIV iv p)) key m true = Ok (ofb_pkcs7 (E key) iv m) /\
     Sm4Ecb E D (snd (SetIV iv p)) key m true = Sm4Ecb E D p key m true).
Proof.
  intros E D p iv key m [H1 H2 H3 H4] Hk. destruct (SetIV_spec iv p) as [Hok Hbad].
  split; [exact Hbad|]. intros Hi. rewrite (Hok Hi). cbn [snd]. split; [reflexivity|].
  split; [exact (cbc_encrypt_std E D H1 H2 H3 H4 (mkPkg iv) key Hk Hi m)|].
  split; [exact (cfb_encrypt_std E D H1 H2 H3 H4 (mkPkg iv) key Hk Hi m)|].
  split; [exact (ofb_encrypt_std E D H1 H2 H3 H4 (mkPkg iv) key Hk Hi m)|].
  reflexivity.
Qed.
Print Assumptions C11_iv_global_semantics.

(* keys of any other length: error, for every helper body *)
Theorem C11_bad_key_rejected : forall core p key m mode, length key <> 16 -> helper core p key m mode = Err 1.
Proof. exact helper_bad_key. Qed.
Print Assumptions C11_bad_key_rejected.

(* ---- 7. histories: SetIV and helper calls in any order, on buffers the caller reuses ---------------------------- *)
(* every helper result is the standard's value on the VALUES of its arguments at call time and the IV installed
   by the last successful SetIV (initially the package default); a rejected SetIV changes nothing; no call
   changes the package IV or depends on the keys / data of earlier calls.  (Decryption calls: whole blocks.) *)
Theorem C11_history : forall E D (calls : list mode_call) p, block_cipher E D ->
  length (IV p) = 16 ->
  Forall (fun c => length (m_key c) = 16 /\ (m_mode c = false -> exists n, length (m_in c) = 16 * n)) calls ->
  modes_run E D p calls = modes_spec_run E D (IV p) calls.
Proof. intros E D calls p [H1 H2 H3 H4] Hiv HF. exact (modes_run_spec E D H1 H2 H3 H4 calls HF p Hiv). Qed.
Print Assumptions C11_history.

(* ---- 8. the same statements for SM4 itself: no premise left ------------------------------------------------------ *)
(* E = sm4_encrypt_block, D = sm4_decrypt_block, which C05_go_cipher_is_sm4 proves to be what the cipher.Block
   returned by sm4.NewCipher(key) computes on every 16-byte block *)
Theorem C11_encrypt_is_standard_sm4 : forall p key m, length key = 16 -> length (IV p) = 16 ->
  let E := sm4_encrypt_block in let D := sm4_decrypt_block in
  Sm4Ecb E D p key m true = Ok (ecb_pkcs7 (E key) m) /\ Sm4Cbc E D p key m true = Ok (cbc_pkcs7 (E key) (IV p) m) /\
  Sm4CFB E p key m true = Ok (cfb_pkcs7 (E key) (IV p) m) /\ Sm4OFB E p key m true = Ok (ofb_pkcs7 (E key) (IV p) m).
Proof.
  intros p key m Hk Hi. pose proof C11_sm4_is_block_cipher as B. cbv zeta. repeat split.
  - exact (C11_ecb_encrypt_is_standard _ _ p key m B Hk).
  - exact (C11_cbc_encrypt_is_standard _ _ p key m B Hk Hi).
  - exact (C11_cfb_encrypt_is_standard _ _ p key m B Hk Hi).
  - exact (C11_ofb_encrypt_is_standard _ _ p key m B Hk Hi).
Qed.
Print Assumptions C11_encrypt_is_standard_sm4.

Theorem C11_decrypt_encrypt_sm4 : forall p key m c, length key = 16 -> length (IV p) = 16 ->
  bytes_ok (IV p) = true -> bytes_ok m = true ->
  let E := sm4_encrypt_block in let D := sm4_decrypt_block in
  (Sm4Ecb E D p key m true = Ok c -> Sm4Ecb E D p key c false = Ok m) /\
  (Sm4Cbc E D p key m true = Ok c -> Sm4Cbc E D p key c false = Ok m) /\
  (Sm4CFB E p key m true = Ok c -> Sm4CFB E p key c false = Ok m) /\
  (Sm4OFB E p key m true = Ok c -> Sm4OFB E p key c false = Ok m).
Proof.
  intros p key m c Hk Hi Hib Hm. pose proof C11_sm4_is_block_cipher as B. cbv zeta. repeat split.
  - exact (C11_ecb_decrypt_encrypt _ _ p key m c B Hk Hm).
  - exact (C11_cbc_decrypt_encrypt _ _ p key m c B Hk Hi Hib Hm).
  - exact (C11_cfb_decrypt_encrypt _ _ p key m c B Hk Hi).
  - exact (C11_ofb_decrypt_encrypt _ _ p key m c B Hk Hi).
Qed.
Print Assumptions C11_decrypt_encrypt_sm4.

Theorem C11_history_sm4 : forall (calls : list mode_call) p, length (IV p) = 16 ->
  Forall (fun c => length (m_key c) = 16 /\ (m_mode c = false -> exists n, length (m_in c) = 16 * n)) calls ->
  modes_run sm4_encrypt_block sm4_decrypt_block p calls = modes_spec_run sm4_encrypt_block sm4_decrypt_block (IV p) calls.
Proof. intros calls p. exact (C11_history _ _ calls p C11_sm4_is_block_cipher). Qed.
Print Assumptions C11_history_sm4.

(* ---- 9. the model is the source --------------------------------------------------------------------------------------- *)
(* 9a. The four mode helpers: Gen/ModesCode.v is the statement-by-statement translation of Sm4Ecb / Sm4Cbc / Sm4CFB /
   Sm4OFB of sm4/sm4.go, regenerated from the source by every check (translator target modescode; vocabulary
   SM4/ModesCodeLib.v).  It computes the hand-written model for EVERY key, input, package IV and both modes: key
   length check, padding call, iv := make; copy(iv, currentIV()), out = make, the loop bound, per iteration the
   slices read (as values: block i / block i-1), the operations and their order (xor, c.Encrypt / c.Decrypt),
   the window of out written (must be 16*i : 16*i+16), the feedback assignment, the un-padding call and the
   dropped error.  Slice and loop bounds are compared as values (lia), so naming or hoisting them, renaming
   locals or writing 16 as BlockSize changes nothing here. *)
Theorem C11_helpers_are_source : forall E D p key in_ mode,
  gen_Sm4Ecb (E key) (D key) (IV p) key in_ mode = Sm4Ecb E D p key in_ mode /\
  gen_Sm4Cbc (E key) (D key) (IV p) key in_ mode = Sm4Cbc E D p key in_ mode /\
  gen_Sm4CFB (E key) (D key) (IV p) key in_ mode = Sm4CFB E p key in_ mode /\
  ((forall b, length (E key b) = 16) -> gen_Sm4OFB (E key) (D key) (IV p) key in_ mode = Sm4OFB E p key in_ mode) /\
  gen_modescode_errors = [].
Proof.
  intros. split; [apply gen_Sm4Ecb_eq|]. split; [apply gen_Sm4Cbc_eq|]. split; [apply gen_Sm4CFB_eq|].
  split; [apply gen_Sm4OFB_eq|]. exact modescode_translated.
Qed.
Print Assumptions C11_helpers_are_source.

(* ... so the source's helpers themselves are the standard modes (SM4 instance; the premise of the OFB tie is
   sm4_E_len) *)
Theorem C11_source_helpers_sm4 : forall p key in_ mode,
  let E := sm4_encrypt_block in let D := sm4_decrypt_block in
  gen_Sm4Ecb (E key) (D key) (IV p) key in_ mode = Sm4Ecb E D p key in_ mode /\
  gen_Sm4Cbc (E key) (D key) (IV p) key in_ mode = Sm4Cbc E D p key in_ mode /\
  gen_Sm4CFB (E key) (D key) (IV p) key in_ mode = Sm4CFB E p key in_ mode /\
  gen_Sm4OFB (E key) (D key) (IV p) key in_ mode = Sm4OFB E p key in_ mode.
Proof.
  intros p key in_ mode. cbv zeta.
  destruct (C11_helpers_are_source sm4_encrypt_block sm4_decrypt_block p key in_ mode) as (H1 & H2 & H3 & H4 & _).
  repeat split; try assumption. apply H4. intros b. apply sm4_E_len.
Qed.
Print Assumptions C11_source_helpers_sm4.

(* 9b. the leaf functions xor, pkcs7Padding and pkcs7UnPadding, translated the same way: the source's functions
   return the model's values for all operands - xor and pkcs7Padding never panic; pkcs7UnPadding has the model's
   error classes (1 empty, 2 pad value 0 or > 16, 3 a pad byte differs) and the model's out-of-range panic
   (src[len(src)-unpadding:] with unpadding > len(src)) *)
Theorem C11_leaves_are_source :
  (forall a b, gen_xor a b = Ok (xor a b)) /\ (forall src, gen_pkcs7Padding src = Ok (pkcs7Padding src)) /\
  (forall src, gen_pkcs7UnPadding src = pkcs7UnPadding src).
Proof. split; [exact gen_xor_eq |]. split; [exact gen_pkcs7Padding_eq | exact gen_pkcs7UnPadding_eq]. Qed.
Print Assumptions C11_leaves_are_source.

(* 9c. SetIV and the package variables: BlockSize in SetIV, the literal sequence of SetIV (no semantic tie:
   positional), and: IV is the only package-level variable of sm4.go besides its mutex ivMu and the constant tables
   (what record pkg assumes); the padding of the source in closed form *)
Theorem C11_source_constants :
  (forall src, gen_pkcs7Padding src = Ok (let padding := 16 - length src mod 16 in src ++ repeat (N.of_nat padding mod 256)%N padding)) /\
  (forall iv pk, SetIV iv pk = if negb (Nat.eqb (length iv) (nlit gen_lits_SetIV 0)) then (Err 1, pk) else (Ok Datatypes.tt, mkPkg iv)) /\
  gen_lits_SetIV = [16]%N /\
  gen_pkg_vars_sm4 = sm4_pkg_vars_expected (* "IV", "ivMu", "fk", "ck", "sbox", "sbox0", "sbox1", "sbox2", "sbox3" *).
Proof.
  split; [exact gen_pkcs7Padding_eq|]. split; [exact SetIV_at_source|]. repeat split; reflexivity.
Qed.
Print Assumptions C11_source_constants.

(* ... the literal sequence of the one function that has no semantic tie (all others: 9a, 9b) *)
Theorem C11_source_literals_frozen : gen_lits_SetIV = [16]%N.
Proof. exact lits_modes_frozen. Qed.
Print Assumptions C11_source_literals_frozen.

(* ---- non-vacuity: SM4 instances, evaluated ------------------------------------------------------------------------ *)
Definition ex_key : list N := A1_key.
Definition ex_iv : list N := [0;1;2;3;4;5;6;7;8;9;10;11;12;13;14;15]%N.
Definition ex_msg : list N := [1;2;3;4;5;6;7;8;9;10;11;12;13;14;15;16;17;18;19;3;3;3]%N.

Example C11_example_roundtrips :
  let p := snd (SetIV ex_iv init_pkg) in
  let E := sm4_encrypt_block in let D := sm4_decrypt_block in
  length (IV p) = 16 /\ bytes_ok (IV p) = true /\ bytes_ok ex_msg = true /\
  (do c <- Sm4Ecb E D p ex_key ex_msg true; Sm4Ecb E D p ex_key c false) = Ok ex_msg /\
  (do c <- Sm4Cbc E D p ex_key ex_msg true; Sm4Cbc E D p ex_key c false) = Ok ex_msg /\
  (do c <- Sm4CFB E p ex_key ex_msg true; Sm4CFB E p ex_key c false) = Ok ex_msg /\
  (do c <- Sm4OFB E p ex_key ex_msg true; Sm4OFB E p ex_key c false) = Ok ex_msg /\
  omap (@length N) (Sm4Cbc E D p ex_key ex_msg true) = Ok 32 /\
  Sm4Ecb E D init_pkg ex_key A1_key true = Ok (A1_cipher ++ sm4_encrypt_block ex_key (repeat 16%N 16)).
Proof. vm_compute. repeat split; reflexivity. Qed.

(* a slice with spare capacity: in = arr[2:5] of an 11-byte array; encryption and decryption leave the array alone *)
Example C11_example_memory :
  let h := [[9;9;1;2;3;7;7;7;7;7;7]%N] in
  let in_ := mkSlice 0 2 3 9 in
  slice_valid h in_ /\ read h in_ = [1;2;3]%N /\
  match Sm4Cbc_mem sm4_encrypt_block sm4_decrypt_block init_pkg h ex_key in_ true with
  | Ok (h2, c) => firstn 1 h2 = h /\ length c = 16 /\
                  match Sm4OFB_mem sm4_encrypt_block init_pkg (h2 ++ [c]) ex_key (mkSlice (length h2) 0 16 16) false with
                  | Ok (h3, _) => firstn (S (length h2)) h3 = h2 ++ [c]
                  | _ => False
                  end
  | _ => False
  end.
Proof. vm_compute. repeat split; repeat constructor. Qed.

(* ciphertexts that are not what encryption produces: empty result, no error (recorded, not a violation) *)
Example C11_example_invalid_inputs :
  let E := sm4_encrypt_block in let D := sm4_decrypt_block in
  Sm4Cbc E D init_pkg ex_key [1;2;3]%N false = Ok [] /\
  Sm4Ecb E D init_pkg ex_key [] false = Ok [] /\
  Sm4Ecb E D init_pkg ex_key (repeat 0%N 16) false = Ok [] /\
  Sm4Cbc E D init_pkg [1;2;3]%N ex_msg true = Err 1.
Proof. vm_compute. repeat split; reflexivity. Qed.

(* a history: CBC under the default IV, a rejected SetIV, CBC again (same result), a new IV, then decryption *)
Example C11_example_history :
  let E := sm4_encrypt_block in let D := sm4_decrypt_block in
  let c0 := cbc_pkcs7 (E ex_key) (repeat 0%N 16) ex_msg in
  let c1 := cbc_pkcs7 (E ex_key) ex_iv ex_msg in
  modes_run E D init_pkg
    [mkMCall None FnCbc ex_key ex_msg true; mkMCall (Some [1; 2; 3]%N) FnCbc ex_key ex_msg true;
     mkMCall (Some ex_iv) FnCbc ex_key ex_msg true; mkMCall None FnCbc ex_key c1 false]
  = [(None, Ok c0); (Some (Err 1), Ok c0); (Some (Ok tt), Ok c1); (None, Ok ex_msg)].
Proof. vm_compute. reflexivity. Qed.
