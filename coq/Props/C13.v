(* C13 - SM2 key exchange gives both parties the same key and the standard's values.
   Property theorems only; each is closed by lemmas of SM2/SM2KxProofs.v and followed by
   Print Assumptions.  Model: SM2/SM2Model.v (keyExchange, KeyExchangeA/B, keXHat, keCoordBytes, ZA, kdf
   as /repo/sm2/sm2.go has them, RELATIVE TO C03: curve methods = affine operations of EC/SM2Curve.v with
   infinity written (0,0)).  Specification: SM2/SM2Spec.v (GM/T 0003.3 6.1, both roles). *)
From Coq Require Import List NArith ZArith Bool Lia Arith.
From GmsmVerif Require Import Lib.Outcome EC.ECAffine EC.SM2Curve SM3.SM3Spec
     SM2.SM2Bytes SM2.SM2BytesProofs SM2.SM2Spec SM2.DER SM2.SM2Model SM2.SM2SignProofs SM2.SM2GroupMin
     SM2.SM2EncProofs SM2.SM2KxProofs SM2.SM2Unconditional SM2.SM2KxExample.
From GmsmVerif Require Import SM2.SM2ParamsTie Gen.SM2Params Gen.SM2SigParams.
Import ListNotations.
Open Scope Z_scope.

(* ---- 4. keXHat: for every non-negative x of any byte length, x~ = 2^127 + (x mod 2^127) --------------- *)
Theorem C13_keXHat_spec : forall x, 0 <= x -> keXHat x = 2 ^ 127 + x mod 2 ^ 127.
Proof. exact keXHat_is_x_bar. Qed.
Print Assumptions C13_keXHat_spec.

(* ---- 1. keyExchange = GM/T 0003.3 in both roles (thisISA = true: initiator A) ---------------------------
   x~ = 2^w + (x mod 2^w), w = 127; t = (d + x~ r) mod n; V = [h t](Ppeer + [x~]Rpeer), h = 1;
   K = KDF(xV || yV || ZA || ZB, klen); S1 = H(02 || yV || H(xV || ZA || ZB || x1 || y1 || x2 || y2)), S2 with 03;
   all coordinates 32 bytes; (x1,y1) is the INITIATOR's ephemeral point in both roles.
   For all keys (own coordinates below 2^256, peer long-term key a curve point), ephemerals, identities below
   8192 bytes and key lengths.  The code additionally refuses an all-zero K (the standard is silent).
   Only premise: p is prime (closure of the group operations, so that the API pair (0,0) is never a finite
   point); no associativity, nothing about n or the order of G. *)
Theorem C13_kx_is_standard :
  P_prime -> forall klen ida idb pri pub rpri rpub thisISA,
    Z.of_nat (length ida) < 8192 -> Z.of_nat (length idb) < 8192 ->
    in256 (Pub pri) -> in256 (Pub rpri) -> sm2_valid (Some pub) = true -> 0 <= fst rpub -> 0 <= snd rpub ->
    (forall o, kx_spec thisISA (Z.to_nat klen) ida idb (D pri) (Pub pri) (D rpri) (Pub rpri) pub rpub = Some o ->
               keyExchange klen ida idb pri pub rpri rpub thisISA =
               if all_zero (kx_K o) then Err 6 else Ok (kx_K o, kx_S1 o, kx_S2 o)) /\
    (kx_spec thisISA (Z.to_nat klen) ida idb (D pri) (Pub pri) (D rpri) (Pub rpri) pub rpub = None ->
     exists e, keyExchange klen ida idb pri pub rpri rpub thisISA = Err e).
Proof. exact keyExchange_is_spec. Qed.
Print Assumptions C13_kx_is_standard.

(* ---- 2. agreement: A's (K, S1, S2) equal B's, for all key pairs and ephemerals in [1, n-1] ------------
   Premises: p prime, associativity, [n]G = O, [k]G finite for 0 < k < n ("n prime" is not needed). *)
Theorem C13_kx_agree :
  P_prime -> Add_assoc -> G_order_divides_n -> G_multiples_finite -> forall klen ida idb dA dB rA rB,
    Z.of_nat (length ida) < 8192 -> Z.of_nat (length idb) < 8192 ->
    1 <= dA < sm2_n -> 1 <= dB < sm2_n -> 1 <= rA < sm2_n -> 1 <= rB < sm2_n ->
    KeyExchangeA klen ida idb (key_of dA) (ScalarBaseMult dB) (key_of rA) (ScalarBaseMult rB) =
    KeyExchangeB klen ida idb (key_of dB) (ScalarBaseMult dA) (key_of rB) (ScalarBaseMult rA) \/
    (exists e e', KeyExchangeA klen ida idb (key_of dA) (ScalarBaseMult dB) (key_of rA) (ScalarBaseMult rB) = Err e /\
                  KeyExchangeB klen ida idb (key_of dB) (ScalarBaseMult dA) (key_of rB) (ScalarBaseMult rA) = Err e').
Proof. exact KeyExchange_agree. Qed.
Print Assumptions C13_kx_agree.

(* the specification itself is symmetric (same V, hence same K, S1, S2) *)
Theorem C13_kx_spec_agree :
  P_prime -> Add_assoc -> G_order_divides_n -> G_multiples_finite -> forall klen ida idb dA dB rA rB,
    1 <= dA < sm2_n -> 1 <= dB < sm2_n -> 1 <= rA < sm2_n -> 1 <= rB < sm2_n ->
    kx_spec true klen ida idb dA (ScalarBaseMult dA) rA (ScalarBaseMult rA) (ScalarBaseMult dB) (ScalarBaseMult rB) =
    kx_spec false klen ida idb dB (ScalarBaseMult dB) rB (ScalarBaseMult rB) (ScalarBaseMult dA) (ScalarBaseMult rA).
Proof. exact kx_spec_agree. Qed.
Print Assumptions C13_kx_spec_agree.

(* the same under the bundled premise SM2Facts *)
Theorem C13_kx_agree_facts :
  SM2Facts -> forall klen ida idb dA dB rA rB,
    Z.of_nat (length ida) < 8192 -> Z.of_nat (length idb) < 8192 ->
    1 <= dA < sm2_n -> 1 <= dB < sm2_n -> 1 <= rA < sm2_n -> 1 <= rB < sm2_n ->
    KeyExchangeA klen ida idb (key_of dA) (ScalarBaseMult dB) (key_of rA) (ScalarBaseMult rB) =
    KeyExchangeB klen ida idb (key_of dB) (ScalarBaseMult dA) (key_of rB) (ScalarBaseMult rA) \/
    (exists e e', KeyExchangeA klen ida idb (key_of dA) (ScalarBaseMult dB) (key_of rA) (ScalarBaseMult rB) = Err e /\
                  KeyExchangeB klen ida idb (key_of dB) (ScalarBaseMult dA) (key_of rB) (ScalarBaseMult rA) = Err e').
Proof. intros F. destruct (facts_split F) as (Hp & _ & Ha & Hg & Hf). exact (KeyExchange_agree Hp Ha Hg Hf). Qed.
Print Assumptions C13_kx_agree_facts.

(* associativity is a theorem (SM2/ECAssoc.v): agreement without that premise *)
Theorem C13_kx_agree_noassoc :
  P_prime -> G_order_divides_n -> G_multiples_finite -> forall klen ida idb dA dB rA rB,
    Z.of_nat (length ida) < 8192 -> Z.of_nat (length idb) < 8192 ->
    1 <= dA < sm2_n -> 1 <= dB < sm2_n -> 1 <= rA < sm2_n -> 1 <= rB < sm2_n ->
    KeyExchangeA klen ida idb (key_of dA) (ScalarBaseMult dB) (key_of rA) (ScalarBaseMult rB) =
    KeyExchangeB klen ida idb (key_of dB) (ScalarBaseMult dA) (key_of rB) (ScalarBaseMult rA) \/
    (exists e e', KeyExchangeA klen ida idb (key_of dA) (ScalarBaseMult dB) (key_of rA) (ScalarBaseMult rB) = Err e /\
                  KeyExchangeB klen ida idb (key_of dB) (ScalarBaseMult dA) (key_of rB) (ScalarBaseMult rA) = Err e').
Proof. intros Hp. exact (KeyExchange_agree Hp (add_assoc_holds Hp)). Qed.
Print Assumptions C13_kx_agree_noassoc.

(* ---- 3. refusals (no premise): a peer ephemeral that is not a point of the curve with coordinates in
   [0,p) - this includes (0,0), the API's infinity - yields an error; so does V = O ---------------------- *)
Theorem C13_kx_rejects_invalid_ephemeral :
  forall klen ida idb pri pub rpri rpub thisISA,
    0 <= fst rpub -> 0 <= snd rpub -> sm2_valid (Some rpub) = false ->
    exists e, keyExchange klen ida idb pri pub rpri rpub thisISA = Err e.
Proof. exact keyExchange_rejects_invalid_ephemeral. Qed.
Print Assumptions C13_kx_rejects_invalid_ephemeral.

Theorem C13_kx_rejects_infinite_V :
  forall klen ida idb pri pub rpri rpub thisISA,
    ScalarMult (Add pub (ScalarMult rpub (keXHat (fst rpub)))) ((D pri + keXHat (fst (Pub rpri)) * D rpri) mod sm2_n) = (0, 0) ->
    exists e, keyExchange klen ida idb pri pub rpri rpub thisISA = Err e.
Proof. exact keyExchange_rejects_infinite_V. Qed.
Print Assumptions C13_kx_rejects_infinite_V.

(* ---- tie to the source: curve constants and the ID length limit of ZA ---------------------------------------- *)
Theorem C13_source_constants_tied :
  (gen_P = sm2_p /\ gen_N = sm2_n /\ gen_A = sm2_a /\ gen_B = sm2_b /\ gen_Gx = sm2_Gx /\ gen_Gy = sm2_Gy /\
   gen_BitSize / gen_rand_div + gen_rand_extra = 40) /\
  (gen_default_uid = default_uid /\ gen_uid_limit = 8192 /\ gen_C1C3C2 = 0 /\ gen_C1C2C3 = 1 /\
   gen_decrypt_min = Z.of_nat (1 + 64 + 32 + 1)).
Proof. exact (conj curve_params_tied sig_params_tied). Qed.
Print Assumptions C13_source_constants_tied.

(* ---- tie to the source, structure: slice bounds, offsets, padding widths, prefix bytes of Encrypt / Decrypt /
   CipherMarshal / CipherUnmarshal / ZA / keCoordBytes as the translator reads them now (SM2/SM2ParamsTie.v) --- *)
Theorem C13_source_layout_tied : layout_statement.
Proof. exact layout_tied. Qed.
Print Assumptions C13_source_layout_tied.

(* ---- non-vacuity: concrete instances, evaluated.  A complete exchange needs 128- and 256-bit scalar
   multiplications (minutes under vm_compute); complete exchanges, incl. the GM/T 0003.5 Annex example,
   are evaluated by the extracted model in the differential run (corpus/c13). ------------------------------- *)
Example C13_keXHat_example :
  keXHat 5 = 2 ^ 127 + 5 /\ keXHat (2 ^ 127 + 9) = 2 ^ 127 + 9 /\ keXHat (2 ^ 200 + 2 ^ 128 + 7) = 2 ^ 127 + 7 /\
  keXHat (2 ^ 120 - 1) = 2 ^ 127 + 2 ^ 120 - 1.
Proof. vm_compute. repeat split; reflexivity. Qed.

Example C13_reject_example :
  (exists e, keyExchange 16 [1%N] [2%N] (key_of 1) (ScalarBaseMult 2) (key_of 3) (0, 0) true = Err e) /\
  (exists e, keyExchange 16 [1%N] [2%N] (key_of 1) (ScalarBaseMult 2) (key_of 3) (sm2_Gx, sm2_Gy + 1) false = Err e) /\
  (exists e, keyExchange 16 [1%N] [2%N] (key_of 1) (ScalarBaseMult 2) (key_of 3) (sm2_Gx + sm2_p, sm2_Gy) false = Err e) /\
  sm2_valid (Some (sm2_Gx, sm2_Gy + 1)) = false /\ sm2_valid (Some (0, 0)) = false /\
  sm2_valid (Some (ScalarBaseMult 2)) = true /\ in256 (Pub (key_of 1)) /\ in256 (Pub (key_of 3)).
Proof. vm_compute. repeat split; try reflexivity; try discriminate; eexists; reflexivity. Qed.

(* a COMPLETED exchange evaluated in Coq on the model (long-term scalars 1 and 2, ephemerals 3 and 4, identities
   "Alice" / "Bob", 16-byte key): both roles return the same (K, S1, S2).  The evaluation (two 128-bit and one 256-bit
   scalar multiplication per side, about two minutes under vm_compute) lives in SM2/SM2KxExample.v, compiled once. *)
Example C13_completed_exchange_example :
  exists K S1 S2,
    KeyExchangeA 16 [65; 108; 105; 99; 101]%N [66; 111; 98]%N (key_of 1) (ScalarBaseMult 2) (key_of 3) (ScalarBaseMult 4) = Ok (K, S1, S2) /\
    KeyExchangeB 16 [65; 108; 105; 99; 101]%N [66; 111; 98]%N (key_of 2) (ScalarBaseMult 1) (key_of 4) (ScalarBaseMult 3) = Ok (K, S1, S2) /\
    length K = 16%nat /\ length S1 = 32%nat /\ length S2 = 32%nat.
Proof. exact kx_completed_exchange. Qed.
