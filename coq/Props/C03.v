(* C03 - The SM2 curve object implements the group law; generated keys lie on it.
   Property theorems only: each is closed by a lemma of coq/EC/*.v and followed by Print Assumptions.
   Specification: EC/ECAffine.v (affine chord-and-tangent law over Z mod p), EC/SM2Curve.v (GM/T 0003.5
   constants typed from the standard, record SM2Facts).  Model: EC/P256Model.v (follows sm2/p256.go and
   GenerateKey of sm2/sm2.go function by function at the level "field element = integer mod p").
   Generated constants: Gen/SM2Params.v, Gen/P256Tables.v (re-read from /repo on every run).
   Premises are explicit hypotheses: [prime sm2_p] where inverses are needed, [SM2Facts] where the group
   structure is needed (both are proved elsewhere: coq/Prime/SM2FactsProof.v, coq/Props/SM2Premises.v).
   The 9-limb 28/29-bit arithmetic below fe_of_limbs IS proved: sections LIMB LAYER / limb pipeline at the end
   (generated code Gen/P256Limbs.v, proofs EC/Limb*.v). *)
From Coq Require Import ZArith Znumtheory List Bool Lia.
From GmsmVerif Require Import Lib.Outcome EC.ECAffine EC.SM2Curve EC.ECAffineProofs EC.JacFormulas
  EC.P256Model EC.P256Proofs EC.P256Instance EC.WnafProofs EC.BaseMultProofs EC.TableCheck EC.C03Final
  EC.LimbModel EC.LimbProofs EC.LimbReduceDefs EC.LimbUnpack EC.LimbStepEven EC.LimbStepOdd EC.LimbStepLast
  EC.LimbReduceFinal EC.LimbOld EC.LimbRefine EC.LimbPoint EC.LimbSelect EC.LimbScalar EC.LimbScalarMult EC.LimbAPI
  Gen.P256Limbs
  Gen.SM2Params Gen.P256Tables.
Import ListNotations.
Open Scope Z_scope.

(* ---- 1. the published parameters and the generated limb constants -------------------------------- *)
Theorem C03_params_are_GMT0003_5 :
  Params_model = (sm2_p, sm2_n, sm2_b, sm2_Gx, sm2_Gy, 256) /\ gen_A = sm2_a /\ sm2_a = sm2_p - 3.
Proof. repeat split; reflexivity. Qed.
Print Assumptions C03_params_are_GMT0003_5.

Theorem C03_G_on_curve : sm2_on_curve gen_Gx gen_Gy = true /\ sm2_valid (Some (gen_Gx, gen_Gy)) = true.
Proof. exact G_on_curve. Qed.
Print Assumptions C03_G_on_curve.

Theorem C03_RInverse_is_inverse_of_R : (gen_RInverse * 2 ^ 257) mod sm2_p = 1.
Proof. exact RInverse_correct. Qed.
Print Assumptions C03_RInverse_is_inverse_of_R.

Theorem C03_Zero31_is_zero_and_large_enough :
  length gen_sm2P256Zero31 = 9%nat /\
  limbs_value gen_sm2P256Zero31 mod sm2_p = 0 /\
  forallb_i zero31_limb_ok 0 gen_sm2P256Zero31 = true.
Proof. exact Zero31_correct. Qed.
Print Assumptions C03_Zero31_is_zero_and_large_enough.

Theorem C03_Carry_and_Factor_tables :
  (forall k, (k < 8)%nat -> limbs_value (carry_row k) = (Z.of_nat k * 2 ^ 257) mod sm2_p) /\
  (forall k, (k <= 8)%nat ->
     limbs_value (nth k gen_sm2P256Factor []) mod sm2_p = (Z.of_nat k * 2 ^ 257) mod sm2_p /\
     factor gen_curve gen_RInverse gen_sm2P256Factor k = Z.of_nat k mod sm2_p).
Proof.
  split.
  - intros k Hk. destruct Carry_correct as [_ H]. rewrite forallb_forall in H.
    specialize (H k). rewrite in_seq in H. specialize (H ltac:(lia)).
    apply andb_true_iff in H. destruct H as [H _]. apply Z.eqb_eq in H. exact H.
  - intros k Hk. destruct Factor_correct as [_ H]. rewrite forallb_forall in H.
    specialize (H k). rewrite in_seq in H. specialize (H ltac:(lia)).
    apply andb_true_iff in H. destruct H as [H1 H2]. apply Z.eqb_eq in H1. apply Z.eqb_eq in H2.
    split; assumption.
Qed.
Print Assumptions C03_Carry_and_Factor_tables.

(* the comb table: entry idx (1..15) of half h (0, 1), read through fe_of_limbs (Montgomery form), is the
   point [sum_b bit_b(idx) 2^(64b+32h)] G.  Computed relations between the entries hold unconditionally
   (EC/TableCheck.v: T_0_1, T_h_k_pow, T_h_s_sum, entries_valid); the identification with multiples of G uses
   the Z-module lemmas, hence SM2Facts. *)
Theorem C03_precomputed_table_correct : SM2Facts ->
  forall h idx, (h = 0 \/ h = 1) -> 1 <= idx <= 15 ->
    Some (sm2P256SelectAffinePoint gen_curve gen_RInverse (skipn (Z.to_nat (270 * h)) gen_sm2P256Precomputed) idx)
    = sm2_mul (idx_val h idx) sm2_G.
Proof. exact precomputed_table_correct. Qed.
Print Assumptions C03_precomputed_table_correct.

Theorem C03_precomputed_table_relations :
  length gen_sm2P256Precomputed = 540%nat /\ T 0 1 = sm2_G /\
  sm2_mul (2 ^ 64) (T 0 1) = T 0 2 /\ sm2_mul (2 ^ 64) (T 0 2) = T 0 4 /\ sm2_mul (2 ^ 64) (T 0 4) = T 0 8 /\
  sm2_mul (2 ^ 32) (T 0 1) = T 1 1 /\ sm2_mul (2 ^ 32) (T 0 2) = T 1 2 /\
  sm2_mul (2 ^ 32) (T 0 4) = T 1 4 /\ sm2_mul (2 ^ 32) (T 0 8) = T 1 8 /\
  sm2_add (T 0 1) (T 0 2) = T 0 3 /\ sm2_add (T 0 7) (T 0 8) = T 0 15 /\ sm2_add (T 1 7) (T 1 8) = T 1 15.
Proof.
  exact (conj table_length (conj T_0_1 (conj T_0_2_pow (conj T_0_4_pow (conj T_0_8_pow
        (conj T_1_1_pow (conj T_1_2_pow (conj T_1_4_pow (conj T_1_8_pow
        (conj T_0_3_sum (conj T_0_15_sum T_1_15_sum))))))))))).
Qed.
Print Assumptions C03_precomputed_table_relations.

(* ---- 2. formula lemmas over ANY field (EC/JacFormulas.v) -------------------------------------------- *)
(* F is any carrier with a setoid equality and a field_theory; jdouble / jadd_mixed / jadd_generic are the
   formulas of sm2P256PointDouble / PointAddMixed / PointAdd (generic branch) with the same temporaries;
   (X,Y,Z) represents (x,y) when Z <> 0, X == x*Z^2, Y == y*Z^3 (jrep); aff_double / aff_add are the
   tangent and chord rules.  The Montgomery factor does not appear: on represented values sm2P256Mul is
   the field multiplication (EC/P256Model.v header). *)
Section AnyField.
  Context (F : Type) (f0 f1 : F) (fadd fmul fsub : F -> F -> F) (fopp : F -> F) (fdiv : F -> F -> F)
          (finv : F -> F) (feq : F -> F -> Prop).
  Context {feq_equiv : RelationClasses.Equivalence feq}.
  Context {add_p : Morphisms.Proper (Morphisms.respectful feq (Morphisms.respectful feq feq)) fadd}
          {mul_p : Morphisms.Proper (Morphisms.respectful feq (Morphisms.respectful feq feq)) fmul}
          {sub_p : Morphisms.Proper (Morphisms.respectful feq (Morphisms.respectful feq feq)) fsub}
          {opp_p : Morphisms.Proper (Morphisms.respectful feq feq) fopp}
          {div_p : Morphisms.Proper (Morphisms.respectful feq (Morphisms.respectful feq feq)) fdiv}
          {inv_p : Morphisms.Proper (Morphisms.respectful feq feq) finv}.
  Hypothesis FT : Field_theory.field_theory f0 f1 fadd fmul fsub fopp fdiv finv feq.
  Variable a : F.
  Hypothesis char_not_2 : ~ feq (c2 F f1 fadd) f0.
  Notation JR := (jrep F f0 fmul feq).
  Notation "x == y" := (feq x y) (at level 70).

  (* doubling: represents 2P for Z <> 0, y <> 0; Z3 = 2*Y*Z, so Z = 0 or Y = 0 give infinity *)
  Theorem C03_formula_double : forall X Y Z x y,
    JR (X, Y, Z) (x, y) -> ~ y == f0 ->
    JR (jdouble F f1 fadd fmul fsub a X Y Z) (aff_double F f1 fadd fmul fsub fdiv a x y).
  Proof. exact (jdouble_correct F f0 f1 fadd fmul fsub fopp fdiv finv feq FT a char_not_2). Qed.

  Theorem C03_formula_double_infinity : forall X Y Z,
    Z == f0 \/ Y == f0 -> snd (jdouble F f1 fadd fmul fsub a X Y Z) == f0.
  Proof. exact (jdouble_infinity F f0 f1 fadd fmul fsub fopp fdiv finv feq FT a). Qed.

  (* mixed addition: P + Q for P finite, x1 <> x2; equal abscissae (P = Q or P = -Q) or Z1 = 0 give Z3 = 0 *)
  Theorem C03_formula_add_mixed : forall X1 Y1 Z1 x1 y1 x2 y2,
    JR (X1, Y1, Z1) (x1, y1) -> ~ fsub x2 x1 == f0 ->
    JR (jadd_mixed F fadd fmul fsub X1 Y1 Z1 x2 y2) (aff_add F fmul fsub fdiv x1 y1 x2 y2).
  Proof. exact (jadd_mixed_correct F f0 f1 fadd fmul fsub fopp fdiv finv feq FT char_not_2). Qed.

  Theorem C03_formula_add_mixed_exceptional : forall X1 Y1 Z1 x2 y2,
    Z1 == f0 \/ X1 == fmul x2 (fmul Z1 Z1) -> snd (jadd_mixed F fadd fmul fsub X1 Y1 Z1 x2 y2) == f0.
  Proof. exact (jadd_mixed_Z0 F f0 f1 fadd fmul fsub fopp fdiv finv feq FT). Qed.

  (* full addition, generic branch: P + Q for both finite and x1 <> x2; u1 = u2 (same abscissa, which in
     that branch means P = -Q) gives Z3 = 0; the tests u1 = u2, s1 = s2 mean x1 = x2, y1 = y2 *)
  Theorem C03_formula_add : forall X1 Y1 Z1 X2 Y2 Z2 x1 y1 x2 y2,
    JR (X1, Y1, Z1) (x1, y1) -> JR (X2, Y2, Z2) (x2, y2) -> ~ fsub x2 x1 == f0 ->
    JR (jadd_generic F f1 fadd fmul fsub X1 Y1 Z1 X2 Y2 Z2) (aff_add F fmul fsub fdiv x1 y1 x2 y2).
  Proof. exact (jadd_generic_correct F f0 f1 fadd fmul fsub fopp fdiv finv feq FT). Qed.

  Theorem C03_formula_add_opposite : forall X1 Y1 Z1 X2 Y2 Z2,
    jadd_u1 F fmul X1 Z2 == jadd_u1 F fmul X2 Z1 ->
    snd (jadd_generic F f1 fadd fmul fsub X1 Y1 Z1 X2 Y2 Z2) == f0.
  Proof. exact (jadd_generic_Z0 F f0 f1 fadd fmul fsub fopp fdiv finv feq FT). Qed.

  Theorem C03_formula_add_tests : forall X1 Y1 Z1 X2 Y2 Z2 x1 y1 x2 y2,
    JR (X1, Y1, Z1) (x1, y1) -> JR (X2, Y2, Z2) (x2, y2) ->
    (jadd_u1 F fmul X1 Z2 == jadd_u1 F fmul X2 Z1 <-> x1 == x2) /\
    (jadd_s1 F fmul Y1 Z2 == jadd_s1 F fmul Y2 Z1 <-> y1 == y2).
  Proof.
    intros. split.
    - exact (jadd_u_eq F f0 f1 fadd fmul fsub fopp fdiv finv feq FT X1 Y1 Z1 X2 Y2 Z2 x1 y1 x2 y2 H H0).
    - exact (jadd_s_eq F f0 f1 fadd fmul fsub fopp fdiv finv feq FT X1 Y1 Z1 X2 Y2 Z2 x1 y1 x2 y2 H H0).
  Qed.
End AnyField.
Print Assumptions C03_formula_double.
Print Assumptions C03_formula_double_infinity.
Print Assumptions C03_formula_add_mixed.
Print Assumptions C03_formula_add_mixed_exceptional.
Print Assumptions C03_formula_add.
Print Assumptions C03_formula_add_opposite.
Print Assumptions C03_formula_add_tests.

(* non-vacuity: the rationals are not available here, but Z mod sm2_p is such a field (given prime sm2_p):
   this is how the lemmas are used in EC/P256Proofs.v (Fp_field). *)

(* ---- 3. Add and Double are the group law ------------------------------------------------------------- *)
Theorem C03_Add_is_group_add : prime sm2_p ->
  forall Q1 Q2 : point, sm2_valid Q1 = true -> sm2_valid Q2 = true ->
  Add_model (fst (encode_point Q1)) (snd (encode_point Q1)) (fst (encode_point Q2)) (snd (encode_point Q2))
  = encode_point (sm2_add Q1 Q2).
Proof. exact Add_is_group_add. Qed.
Print Assumptions C03_Add_is_group_add.

Theorem C03_Double_is_group_double : prime sm2_p ->
  forall Q : point, sm2_valid Q = true ->
  Double_model (fst (encode_point Q)) (snd (encode_point Q)) = encode_point (sm2_double Q).
Proof. exact Double_is_group_double. Qed.
Print Assumptions C03_Double_is_group_double.

(* ---- 6. IsOnCurve ------------------------------------------------------------------------------------------ *)
(* for ALL integers (the code reduces mod p first), in particular for 0 <= x,y < p *)
Theorem C03_IsOnCurve_iff : forall x y,
  IsOnCurve_model x y = true <-> (y * y) mod sm2_p = (x * x * x + sm2_a * x + sm2_b) mod sm2_p.
Proof. intros x y. rewrite IsOnCurve_is_equation. unfold sm2_on_curve, on_curve. apply Z.eqb_eq. Qed.
Print Assumptions C03_IsOnCurve_iff.

(* ---- 3b. the Jacobian functions are total (needed by 4; also "equal inputs give the doubling", the
   Z1 = 0 / Z2 = 0 branches, P = -Q, and ToAffine of Z = 0) ------------------------------------------------ *)
(* Jpt c J Q: the triple J represents the affine point Q (Z == 0 for infinity) *)
Theorem C03_PointDouble_total : prime sm2_p ->
  forall J Q, Jpt gen_curve J Q -> Jpt gen_curve (PointDouble_model J) (sm2_double Q).
Proof. intros Hp. exact (PointDouble_total gen_curve _ _ (gen_hyps Hp)). Qed.
Print Assumptions C03_PointDouble_total.

Theorem C03_PointAdd_total : prime sm2_p ->
  forall J1 J2 Q1 Q2, Jpt gen_curve J1 Q1 -> Jpt gen_curve J2 Q2 -> sm2_valid Q1 = true -> sm2_valid Q2 = true ->
    Jpt gen_curve (PointAdd_model J1 J2) (sm2_add Q1 Q2).
Proof. intros Hp. exact (PointAdd_total gen_curve _ _ (gen_hyps Hp)). Qed.
Print Assumptions C03_PointAdd_total.

Theorem C03_PointSub_total : prime sm2_p ->
  forall J1 J2 Q1 Q2, Jpt gen_curve J1 Q1 -> Jpt gen_curve J2 Q2 -> sm2_valid Q1 = true -> sm2_valid Q2 = true ->
    Jpt gen_curve (fst (PointSub_model J1 J2)) (sm2_add Q1 (sm2_neg Q2)) /\
    Jpt gen_curve (fst (fst J2), snd (PointSub_model J1 J2), snd J2) (sm2_neg Q2).
Proof. intros Hp. exact (PointSub_total gen_curve _ _ (gen_hyps Hp)). Qed.
Print Assumptions C03_PointSub_total.

Theorem C03_PointAddMixed_total : prime sm2_p ->
  forall J1 x1 y1 x2 y2, Jpt gen_curve J1 (Some (x1, y1)) ->
    sm2_valid (Some (x1, y1)) = true -> sm2_valid (Some (x2, y2)) = true -> (x1, y1) <> (x2, y2) ->
    Jpt gen_curve (PointAddMixed_model J1 x2 y2) (sm2_add (Some (x1, y1)) (Some (x2, y2))).
Proof. intros Hp. exact (PointAddMixed_total gen_curve _ _ (gen_hyps Hp)). Qed.
Print Assumptions C03_PointAddMixed_total.

Theorem C03_ToAffine : prime sm2_p ->
  (forall X Y Z, Z mod sm2_p = 0 -> sm2P256ToAffine gen_curve (X, Y, Z) = (0, 0)) /\
  (forall J Q, Jpt gen_curve J Q -> sm2_valid Q = true -> sm2P256ToAffine gen_curve J = encode_point Q).
Proof.
  intros Hp. split.
  - intros X Y Z HZ. apply (ToAffine_infinity gen_curve _ _ (gen_hyps Hp)). exact HZ.
  - intros J Q HJ HQ. apply (ToAffine_Jpt gen_curve _ _ (gen_hyps Hp)); [exact HJ|].
    apply point_ok_red. exact HQ.
Qed.
Print Assumptions C03_ToAffine.

(* ---- 4. recoding and variable-point multiplication ------------------------------------------------------- *)
(* for EVERY byte string: the digits (least significant first) sum to OS2IP(k) mod n (the code reduces only
   when >= n, which is the same value), each digit is 0 or odd with |d| <= 7, the top digit is positive, the
   zero scalar is [0]; never Panic (array index) or Hang (fuel bitLen+2) *)
Theorem C03_wnaf_value : forall k : list N,
  exists ds, sm2GenrateWNaf_model k = Ok ds /\
             wval ds = os2ip k mod sm2_n /\ Forall digit_ok ds /\
             (os2ip k mod sm2_n = 0 -> ds = [0]) /\ (0 < os2ip k mod sm2_n -> last ds 0 > 0) /\
             Z.of_nat (length ds) <= 257.
Proof. exact wnaf_value. Qed.
Print Assumptions C03_wnaf_value.

(* every byte string (any length, leading zeros, values >= n), every finite curve point whose multiples
   [1]P..[6]P are finite (all finite points of SM2, cofactor 1; see small_multiples_of_kG for the [j]G) *)
Theorem C03_ScalarMult_is_smul : SM2Facts ->
  forall x y (k : list N), sm2_valid (Some (x, y)) = true -> small_multiples_finite (Some (x, y)) ->
    ScalarMult_model x y k = Ok (encode_point (sm2_mul (os2ip k mod sm2_n) (Some (x, y)))).
Proof. exact ScalarMult_is_smul. Qed.
Print Assumptions C03_ScalarMult_is_smul.

Theorem C03_small_multiples_of_kG : SM2Facts ->
  forall j, 0 < j < sm2_n -> small_multiples_finite (sm2_mul j sm2_G).
Proof. exact small_multiples_of_kG. Qed.
Print Assumptions C03_small_multiples_of_kG.

(* NOTE on C03_ScalarMult_is_smul: the conclusion is [k mod n]P - the code reduces the scalar mod n.  It is the group
   result [k]P whenever [n]P = infinity.  SM2Facts states that for the multiples of G only; for every finite curve
   point it is the cofactor-1 fact (the same fact as small_multiples_finite), which is not proved here.  For P = [j]G,
   0 < j < n, both follow from SM2Facts: the result is [k]P = [k j]G for every byte string k, without "mod n". *)
Theorem C03_ScalarMult_on_multiples_of_G : SM2Facts ->
  forall j x y (k : list N), 0 < j < sm2_n -> sm2_mul j sm2_G = Some (x, y) ->
    ScalarMult_model x y k = Ok (encode_point (sm2_mul (os2ip k) (Some (x, y)))) /\
    sm2_mul (os2ip k) (Some (x, y)) = sm2_mul (os2ip k * j) sm2_G.
Proof. exact ScalarMult_on_multiples_of_G. Qed.
Print Assumptions C03_ScalarMult_on_multiples_of_G.

(* ---- 5. base-point multiplication: every byte string, no side condition on the scalar --------------------- *)
Theorem C03_ScalarBaseMult_is_smul : SM2Facts ->
  forall k : list N, ScalarBaseMult_model k = Ok (encode_point (sm2_base_mul (os2ip k mod sm2_n))).
Proof. exact ScalarBaseMult_is_smul. Qed.
Print Assumptions C03_ScalarBaseMult_is_smul.

(* ---- 7. GenerateKey ------------------------------------------------------------------------------------------ *)
(* rnd = the bytes the reader will deliver: fails on fewer than 40, otherwise consumes exactly 40,
   d = (OS2IP(first 40 bytes) mod (n-2)) + 1 in [1, n-2], public key [d]G *)
Theorem C03_GenerateKey_model : SM2Facts ->
  forall rnd : list N,
    let d := os2ip (firstn 40 rnd) mod (sm2_n - 2) + 1 in
    1 <= d <= sm2_n - 2 /\
    GenerateKey_model rnd = if (length rnd <? 40)%nat then Err 1 else Ok (d, encode_point (sm2_base_mul d), 40%nat).
Proof. exact GenerateKey_is_spec. Qed.
Print Assumptions C03_GenerateKey_model.

(* non-vacuity *)
Example C03_examples :
  sm2_valid sm2_G = true /\ IsOnCurve_model sm2_Gx sm2_Gy = true /\ IsOnCurve_model sm2_Gx (sm2_Gy + 1) = false /\
  Add_model sm2_Gx sm2_Gy sm2_Gx sm2_Gy = Double_model sm2_Gx sm2_Gy /\
  Add_model sm2_Gx sm2_Gy sm2_Gx (sm2_p - sm2_Gy) = (0, 0) /\
  Add_model 0 0 sm2_Gx sm2_Gy = (sm2_Gx, sm2_Gy).
Proof. vm_compute. repeat split; reflexivity. Qed.

Example C03_examples_scalar :
  forallb (fun j => match sm2_mul j sm2_G with Some _ => true | None => false end) [1;2;3;4;5;6] = true /\
  sm2GenrateWNaf_model [200; 7]%N = Ok [7; 0; 0; 0; 0; 0; 0; 0; 0; 0; 0; -7; 0; 0; 0; 0; 1] /\
  wval [7; 0; 0; 0; 0; 0; 0; 0; 0; 0; 0; -7; 0; 0; 0; 0; 1] = 51207 /\
  ScalarMult_model sm2_Gx sm2_Gy [0; 0; 11]%N = Ok (encode_point (sm2_mul 11 sm2_G)) /\
  ScalarBaseMult_model [11]%N = Ok (encode_point (sm2_base_mul 11)) /\
  ScalarBaseMult_model []%N = Ok (0, 0) /\
  GenerateKey_model (repeat 0%N 39) = Err 1.
Proof. vm_compute. repeat split; reflexivity. Qed.

(* ==== LIMB LAYER =====================================================================================================
   The 9-limb 28/29-bit code of sm2/p256.go, translated mechanically from the Go AST (Gen/P256Limbs.v, regenerated on
   every run by harness/cmd/gen/target_sm2limbs.go; EC/LimbModel.v wraps it as list functions), with explicit uint32 /
   uint64 wrap-around.  limbs_valueN l = sum l[i] 2^off(i), off = 0,29,57,86,...; "loose" = limb i < 2^30 (even i) /
   < 2^29 (odd i): the bound invariant every function accepts and re-establishes. *)
Theorem C03_limb_Add : forall a b : list N, looseL a -> looseL b ->
  looseL (sm2P256Add_limbs a b) /\
  limbs_valueN (sm2P256Add_limbs a b) mod sm2_p = (limbs_valueN a + limbs_valueN b) mod sm2_p.
Proof. exact Add_limbs_correct. Qed.
Print Assumptions C03_limb_Add.

(* Sub adds sm2P256Zero31 (0 mod p, every limb >= twice the limb modulus) so that no limb difference underflows *)
Theorem C03_limb_Sub : forall a b : list N, looseL a -> looseL b ->
  looseL (sm2P256Sub_limbs a b) /\
  limbs_valueN (sm2P256Sub_limbs a b) mod sm2_p = (limbs_valueN a - limbs_valueN b) mod sm2_p.
Proof. exact Sub_limbs_correct. Qed.
Print Assumptions C03_limb_Sub.

(* the schoolbook products: exact integer product in the 17 x uint64 array, no uint64 overflow, and the bounds
   sm2P256ReduceDegree needs (every word < 2^63, the top word < 2^60) *)
Theorem C03_limb_products : forall a b : list N, looseL a -> looseL b ->
  (largeOK (sm2P256Mul_product a b) /\ large_valueN (sm2P256Mul_product a b) = limbs_valueN a * limbs_valueN b) /\
  (largeOK (sm2P256Square_product a) /\ large_valueN (sm2P256Square_product a) = limbs_valueN a * limbs_valueN a).
Proof. intros a b Ha Hb. split; [apply Mul_product_correct|apply Square_product_correct]; assumption. Qed.
Print Assumptions C03_limb_products.

(* FromBig: 9 normalised limbs with value a*2^257 mod p (Montgomery form, R = 2^257); ToBig(FromBig a) = a mod p *)
Theorem C03_limb_FromBig_ToBig : forall a : Z,
  looseL (sm2P256FromBig_limbs a) /\
  limbs_valueN (sm2P256FromBig_limbs a) = (a * 2 ^ 257) mod sm2_p /\
  sm2P256ToBig_limbs (sm2P256FromBig_limbs a) = a mod sm2_p.
Proof.
  intros a. destruct (FromBig_limbs_correct a) as (_ & _ & H1 & H2).
  split; [apply FromBig_loose|]. split; assumption.
Qed.
Print Assumptions C03_limb_FromBig_ToBig.

(* ---- sm2P256ReduceDegree (Montgomery reduction), the function in which defect D36 lived ---------------------------
   unpack (17 x uint64 -> 18 x uint32, value preserved) ; 9 elimination steps ; repack + ReduceCarry.
   One elimination step, as a statement over the RELATIVE window, for EVERY window within the bound invariant PE / PO
   (EC/LimbReduceDefs.v): no uint32 operation wraps, the lowest limb becomes 0, x*p is added to the value of the
   window, and the results satisfy the invariant of the next step.  All 33 paths through the borrow logic
   (`< 0x20000000` / `< 0x10000000` tests, set4/set7 resp. set5/set8/set9, `&& x > 1`) are executed symbolically. *)
Theorem C03_limb_elimination_step_even : forall t0 t1 t2 t3 t4 t5 t6 t7 t8 t9 : N,
  PE t0 t1 t2 t3 t4 t5 t6 t7 t8 t9 ->
  even_post t0 t1 t2 t3 t4 t5 t6 t7 t8 t9 (gen_rd_step_even t0 t1 t2 t3 t4 t5 t6 t7 t8 t9).
Proof. exact gen_rd_step_even_correct. Qed.
Print Assumptions C03_limb_elimination_step_even.

Theorem C03_limb_elimination_step_odd : forall t1 t2 t3 t4 t5 t6 t7 t8 t9 t10 : N,
  PO t1 t2 t3 t4 t5 t6 t7 t8 t9 t10 ->
  odd_post t1 t2 t3 t4 t5 t6 t7 t8 t9 t10 (gen_rd_step_odd t1 t2 t3 t4 t5 t6 t7 t8 t9 t10).
Proof. exact gen_rd_step_odd_correct. Qed.
Print Assumptions C03_limb_elimination_step_odd.

(* non-vacuity of the bound invariant: the normalised limbs delivered by the unpacking satisfy PE, so do its extreme
   values; the odd invariant PO holds e.g. for the window the even step produces from them (computed) *)
Example C03_limb_invariant_examples :
  PE 536870911 268435455 536870911 268435455 536870911 268435455 536870911 268435455 536870911 268435455 /\
  PE 1610612737 805306366 1073741950 536870911 1073741823 536870911 1073741823 536870911 805306366 268435455 /\
  PO 805306369 1610612734 536871038 1073741823 536870911 1073741823 536870911 1073741823 536870910 536870911 /\
  (let '(o0, o1, o2, o3, o4, o5, o6, o7, o8, o9) :=
     gen_rd_step_even 536870911 268435455 536870911 268435455 536870911 268435455 536870911 268435455 536870911 268435455 in
   o0 = 0%N /\ PO o1 o2 o3 o4 o5 o6 o7 o8 o9 536870911).
Proof. vm_compute. repeat split; discriminate. Qed.

(* D36: the step theorem is FALSE for the even step as it was before the repair a3cb9c3 (EC/LimbOld.v, the same
   translator run on the old source): the window (1,0,...,0) is within PE, the old step leaves 2^32-1 in limb 9 and
   its value is off by 2^32 * 2^257; the repaired step satisfies the post-condition on the same window. *)
Theorem C03_limb_D36_old_step_refuted :
  exists t0 t1 t2 t3 t4 t5 t6 t7 t8 t9 : N,
    PE t0 t1 t2 t3 t4 t5 t6 t7 t8 t9 /\
    (let '(o0, o1, o2, o3, o4, o5, o6, o7, o8, o9) := reduce_step_even_old t0 t1 t2 t3 t4 t5 t6 t7 t8 t9 in
     o9 = 4294967295%N /\
     value10e o0 o1 o2 o3 o4 o5 o6 o7 o8 o9 =
       (value10e t0 t1 t2 t3 t4 t5 t6 t7 t8 t9 + (t0 mod 536870912) * pN + 2 ^ 32 * 2 ^ 257)%N) /\
    ~ even_post t0 t1 t2 t3 t4 t5 t6 t7 t8 t9 (reduce_step_even_old t0 t1 t2 t3 t4 t5 t6 t7 t8 t9) /\
    even_post t0 t1 t2 t3 t4 t5 t6 t7 t8 t9 (gen_rd_step_even t0 t1 t2 t3 t4 t5 t6 t7 t8 t9).
Proof. exact reduce_step_even_old_refuted. Qed.
Print Assumptions C03_limb_D36_old_step_refuted.

(* the whole function, for every 17-word input with words < 2^63 and top word < 2^60 (what the products deliver):
   loose result, value(out) * 2^257 = value64(b) (mod p).  The bound side conditions of all nine steps are discharged
   (EC/LimbReduceFinal.v gen_rd_eliminate_correct): nothing is assumed about reachable tmp values. *)
Theorem C03_limb_ReduceDegree_Mul_Square :
  (forall b : list N, largeOK b ->
     looseL (sm2P256ReduceDegree_limbs b) /\
     (limbs_valueN (sm2P256ReduceDegree_limbs b) * 2 ^ 257) mod sm2_p = large_valueN b mod sm2_p) /\
  (forall a b : list N, looseL a -> looseL b ->
     (looseL (sm2P256Mul_limbs a b) /\
      (limbs_valueN (sm2P256Mul_limbs a b) * 2 ^ 257) mod sm2_p = (limbs_valueN a * limbs_valueN b) mod sm2_p) /\
     (looseL (sm2P256Square_limbs a) /\
      (limbs_valueN (sm2P256Square_limbs a) * 2 ^ 257) mod sm2_p = (limbs_valueN a * limbs_valueN a) mod sm2_p)).
Proof.
  split; [exact ReduceDegree_limbs_correct|].
  intros a b Ha Hb. split; [apply Mul_limbs_correct|apply Square_limbs_correct]; assumption.
Qed.
Print Assumptions C03_limb_ReduceDegree_Mul_Square.

(* ---- connection: the limb layer refines the F_p-level model that items 2-5 are about -------------------------------
   fe = sm2P256ToBig (value * RInverse mod p).  Each limb function commutes with fe on loose operands and returns loose
   limbs; hence every straight-line program over them (fexpr: Add, Sub, Mul, Square, Scalar k, constants) computes on
   limbs a representation of what the F_p-level model computes - instantiated for sm2P256PointDouble. *)
Theorem C03_limb_refines_Fp_model :
  (forall a b : list N, looseL a -> looseL b ->
     (looseL (sm2P256Add_limbs a b) /\ fe (sm2P256Add_limbs a b) = AddFe_model (fe a) (fe b)) /\
     (looseL (sm2P256Sub_limbs a b) /\ fe (sm2P256Sub_limbs a b) = SubFe_model (fe a) (fe b)) /\
     (looseL (sm2P256Mul_limbs a b) /\ fe (sm2P256Mul_limbs a b) = Mul_model (fe a) (fe b)) /\
     (looseL (sm2P256Square_limbs a) /\ fe (sm2P256Square_limbs a) = Square_model (fe a))) /\
  (forall x : Z, looseL (sm2P256FromBig_limbs x) /\ fe (sm2P256FromBig_limbs x) = FromBig_model x) /\
  (* every straight-line program *)
  (forall (rho : nat -> list N) (e : fexpr), (forall i, looseL (rho i)) -> scalars_ok e ->
     looseL (eval_limbs rho e) /\ fe (eval_limbs rho e) = eval_fe (fun i => fe (rho i)) e) /\
  (* sm2P256PointDouble on limbs represents the F_p-level PointDouble_model *)
  (forall X Y Z : list N, looseL X -> looseL Y -> looseL Z ->
     let rho := fun i => match i with 0%nat => X | 1%nat => Y | _ => Z end in
     (looseL (eval_limbs rho pd_x3) /\ looseL (eval_limbs rho pd_y3) /\ looseL (eval_limbs rho pd_z3)) /\
     (fe (eval_limbs rho pd_x3), fe (eval_limbs rho pd_y3), fe (eval_limbs rho pd_z3)) =
     PointDouble_model (fe X, fe Y, fe Z)).
Proof.
  split; [|split; [exact fe_FromBig|split; [exact fexpr_refines|exact PointDouble_limbs_refines]]].
  intros a b Ha Hb. split; [apply fe_Add; assumption|]. split; [apply fe_Sub; assumption|].
  split; [apply fe_Mul; assumption|]. apply fe_Square; assumption.
Qed.
Print Assumptions C03_limb_refines_Fp_model.

(* ---- the point functions, the selections and the scalar multiplications on limbs ---------------------------------------
   EC/LimbPoint.v: sm2P256PointDouble / PointAddMixed / PointAdd / PointSub as programs over the proved limb operations,
   with PointAdd's decisions taken on sm2P256ToBig values; looseJ = all three coordinates loose, feJ = fe coordinatewise. *)
Theorem C03_limb_point_functions :
  (forall J, looseJ J -> looseJ (PointDouble_limbs J) /\ feJ (PointDouble_limbs J) = PointDouble_model (feJ J)) /\
  (forall J x2 y2, looseJ J -> looseL x2 -> looseL y2 ->
     looseJ (PointAddMixed_limbs J x2 y2) /\
     feJ (PointAddMixed_limbs J x2 y2) = PointAddMixed_model (feJ J) (fe x2) (fe y2)) /\
  (forall J1 J2, looseJ J1 -> looseJ J2 ->
     looseJ (PointAdd_limbs J1 J2) /\ feJ (PointAdd_limbs J1 J2) = PointAdd_model (feJ J1) (feJ J2)) /\
  (forall J1 J2, looseJ J1 -> looseJ J2 ->
     looseJ (fst (PointSub_limbs J1 J2)) /\ looseL (snd (PointSub_limbs J1 J2)) /\
     feJ (fst (PointSub_limbs J1 J2)) = fst (PointSub_model (feJ J1) (feJ J2)) /\
     fe (snd (PointSub_limbs J1 J2)) = snd (PointSub_model (feJ J1) (feJ J2))).
Proof.
  exact (conj PointDouble_limbs_correct (conj PointAddMixed_limbs_correct
        (conj PointAdd_limbs_correct PointSub_limbs_correct))).
Qed.
Print Assumptions C03_limb_point_functions.

(* EC/LimbSelect.v: the constant-time selections on uint32 masks (hand-modelled with explicit wrap-around):
   the mask of (i, index) is all-ones exactly for i = index (sweep 15 x 16), nonZeroToAllOnes, CopyConditional is
   if-then-else on words < 2^32, the OR-accumulation over i = 1..15 returns exactly the indexed entry (0 for index 0),
   SelectJacobianPoint returns table[index], and every SelectAffinePoint of the generated table is what the F_p-level
   model selects (sweep over both halves x 16 indices). *)
Theorem C03_limb_selections :
  (forall i index, In i [1;2;3;4;5;6;7;8;9;10;11;12;13;14;15]%N -> In index [0;1;2;3;4;5;6;7;8;9;10;11;12;13;14;15]%N ->
     select_mask i index = if (i =? index)%N then ones32 else 0%N) /\
  (forall out inp, words32 out -> words32 inp -> length out = length inp ->
     CopyConditional_limbs out inp 0%N = out /\ CopyConditional_limbs out inp ones32 = inp) /\
  (forall f index, (index <= 15)%N -> (forall i, (f i < W32)%N) ->
     select_word f index = if (index =? 0)%N then 0%N else f index) /\
  (forall table index, (index <= 15)%N -> (forall i, looseJ (nth i table zeroJ)) ->
     SelectJacobianPoint_limbs table index = if (index =? 0)%N then zeroJ else nth (N.to_nat index) table zeroJ) /\
  (forall off idx, (off = 0 \/ off = 270)%nat -> (idx <= 15)%N ->
     let '(px, py) := SelectAffinePoint_limbs (skipn off precomputedN) idx in
     looseL px /\ looseL py /\
     (fe px, fe py) = sm2P256SelectAffinePoint gen_curve gen_RInverse (skipn off gen_sm2P256Precomputed) (Z.of_N idx)).
Proof.
  split; [|exact (conj CopyConditional_spec (conj select_word_spec (conj SelectJacobianPoint_limbs_spec select_affine_ok)))].
  intros i index Hi Hx. pose proof select_mask_spec as H. rewrite forallb_forall in H.
  specialize (H i Hi). rewrite forallb_forall in H. specialize (H index Hx). apply N.eqb_eq in H. exact H.
Qed.
Print Assumptions C03_limb_selections.

(* EC/LimbScalar.v, LimbScalarMult.v, LimbAPI.v: every public method built on the limb pipeline (FromBig, limb-level
   point functions, mask selections, ToBig) equals the F_p-level model function - for ALL inputs, no premise *)
Theorem C03_limb_pipeline_is_model :
  (forall X Y, IsOnCurve_limbs X Y = IsOnCurve_model X Y) /\
  (forall x1 y1 x2 y2, Add_limbs x1 y1 x2 y2 = Add_model x1 y1 x2 y2) /\
  (forall x1 y1, Double_limbs x1 y1 = Double_model x1 y1) /\
  (forall x1 y1 k, ScalarMult_limbs x1 y1 k = ScalarMult_model x1 y1 k) /\
  (forall k, ScalarBaseMult_limbs k = ScalarBaseMult_model k) /\
  (forall rnd, GenerateKey_limbs rnd = GenerateKey_model rnd).
Proof.
  exact (conj IsOnCurve_limbs_is_model (conj Add_limbs_is_model (conj Double_limbs_is_model
        (conj ScalarMult_limbs_is_model (conj ScalarBaseMult_limbs_is_model GenerateKey_limbs_is_model))))).
Qed.
Print Assumptions C03_limb_pipeline_is_model.

(* ... hence the property theorems hold for the limb-level code: items 3, 4, 5, 6, 7 on the limb pipeline *)
Theorem C03_limb_pipeline_properties :
  (prime sm2_p ->
     (forall Q1 Q2 : point, sm2_valid Q1 = true -> sm2_valid Q2 = true ->
        Add_limbs (fst (encode_point Q1)) (snd (encode_point Q1)) (fst (encode_point Q2)) (snd (encode_point Q2))
        = encode_point (sm2_add Q1 Q2)) /\
     (forall Q : point, sm2_valid Q = true ->
        Double_limbs (fst (encode_point Q)) (snd (encode_point Q)) = encode_point (sm2_double Q))) /\
  (forall x y, IsOnCurve_limbs x y = true <-> (y * y) mod sm2_p = (x * x * x + sm2_a * x + sm2_b) mod sm2_p) /\
  (SM2Facts ->
     (forall k : list N, ScalarBaseMult_limbs k = Ok (encode_point (sm2_base_mul (os2ip k mod sm2_n)))) /\
     (forall x y (k : list N), sm2_valid (Some (x, y)) = true -> small_multiples_finite (Some (x, y)) ->
        ScalarMult_limbs x y k = Ok (encode_point (sm2_mul (os2ip k mod sm2_n) (Some (x, y))))) /\
     (forall rnd : list N,
        let d := os2ip (firstn 40 rnd) mod (sm2_n - 2) + 1 in
        1 <= d <= sm2_n - 2 /\
        GenerateKey_limbs rnd =
          if (length rnd <? 40)%nat then Err 1 else Ok (d, encode_point (sm2_base_mul d), 40%nat))).
Proof.
  split; [|split].
  - intros Hp. split.
    + intros Q1 Q2 H1 H2. rewrite Add_limbs_is_model. exact (Add_is_group_add Hp Q1 Q2 H1 H2).
    + intros Q H. rewrite Double_limbs_is_model. exact (Double_is_group_double Hp Q H).
  - intros x y. rewrite IsOnCurve_limbs_is_model. apply C03_IsOnCurve_iff.
  - intros HF. split; [|split].
    + intros k. rewrite ScalarBaseMult_limbs_is_model. exact (ScalarBaseMult_is_smul HF k).
    + intros x y k Hv Hs. rewrite ScalarMult_limbs_is_model. exact (ScalarMult_is_smul HF x y k Hv Hs).
    + intros rnd. rewrite GenerateKey_limbs_is_model. exact (GenerateKey_is_spec HF rnd).
Qed.
Print Assumptions C03_limb_pipeline_properties.

Example C03_limb_examples :
  sm2P256Add_limbs [1; 0; 0; 0; 0; 0; 0; 0; 536870911]%N [536870911; 268435455; 0; 0; 0; 0; 0; 0; 536870911]%N
    = [2; 0; 536870657; 2047; 0; 0; 0; 33554432; 536870910]%N /\
  sm2P256ToBig_limbs (sm2P256Sub_limbs (sm2P256FromBig_limbs 0) (sm2P256FromBig_limbs 1)) = sm2_p - 1 /\
  sm2P256ToBig_limbs (sm2P256Mul_limbs (sm2P256FromBig_limbs 3) (sm2P256FromBig_limbs 5)) = 15 /\
  sm2P256ToBig_limbs (sm2P256Square_limbs (sm2P256FromBig_limbs (sm2_p - 1))) = 1.
Proof. vm_compute. repeat split; reflexivity. Qed.
