(* C10 - Chain verification accepts exactly the chains a reference path validator accepts.

   Specification: X509/PathSpec.v ([valid_chain], written from the property text) and
   X509/NameMatchSpec.v (host names, IP literals, DNS subtrees).  Model: X509/VerifyModel.v (follows
   x509/verify.go, cert_pool.go and CheckSignatureFrom function by function).  Each theorem is
   closed by a lemma of X509/NameMatchProofs.v or X509/VerifyProofs.v.

   What is quantified: ALL byte strings (matchers), ALL chains and usage lists (EKU), ALL pools,
   options, leaves, signature relations [sig_ok], IP parsers [parse_ip] (net.ParseIP by contract)
   and rune-error oracles.

   Readings and restrictions (see PathSpec.v): the property text does not speak about (a) usages
   of ISSUERS, (b) name constraints when no host name is requested, (c) the leaf's own permitted
   subtrees.  The implementation is fail-closed on all three; they are collected in
   [strict_extras]: soundness proves them in addition, completeness assumes them, and
   [C10_strict_extras_are_needed] exhibits chains that satisfy [valid_chain] and are rejected for
   each of these reasons alone.  Completeness further assumes well-formed key identifiers on the
   chain ([keyids_wf]; [C10_complete_needs_keyids] shows it cannot be dropped) and that the search
   stays within the budget of maxChainSignatureChecks = 100 signature checks (read from verify.go by
   the translator; [sigchecks_used] <= 100, implied by a condition on the pool sizes alone:
   [verify_complete_small_pools]).  [C10_incomplete_beyond_budget] and
   [C10_budget_reached_by_small_pki] show what happens otherwise: a valid chain is missed - this is the
   known finding "verify-sigcheck-budget" of the check (the budget is a deliberate DoS guard).  Soundness assumes that roots are
   version-3 certificates and that no certificate carries the Entrust SPKI blob for which
   CheckSignatureFrom waives the CA test (both hold for everything CreateCertificate produces). *)
From Coq Require Import List NArith ZArith Bool Arith Lia.
From GmsmVerif Require Import Lib.Outcome X509.NameMatchSpec X509.PathSpec X509.VerifyModel
  X509.NameMatchProofs X509.VerifyProofs.
From GmsmVerif Require Gen.X509Verify Gen.X509Tables.
From GmsmVerif Require Import X509.DerLayer X509.DerLayerProofs X509.ExtModel X509.ExtProofs.
Import ListNotations.

(* ---------- 1. the matchers, all strings ----------------------------------------------------------- *)
Theorem matchHostnames_spec :
  forall pattern host, matchHostnames_model pattern host = true <-> dns_match pattern host.
Proof. exact matchHostnames_iff. Qed.
Print Assumptions matchHostnames_spec.

Theorem matchNameConstraint_spec :
  forall domain constraint, matchNameConstraint_model domain constraint = true <-> in_dns_domain domain constraint.
Proof. exact matchNameConstraint_iff. Qed.
Print Assumptions matchNameConstraint_spec.

Theorem toLowerCaseASCII_spec :
  forall rune_error s, toLowerCaseASCII_model rune_error s = lower s.
Proof. exact toLowerCaseASCII_lower. Qed.
Print Assumptions toLowerCaseASCII_spec.

(* exact match, leftmost-label wildcard, trailing dot, IP and bracketed IP, SAN overrides CN *)
Theorem VerifyHostname_spec :
  forall parse_ip rune_error c h,
    VerifyHostname_model parse_ip rune_error c h = true <-> host_matches parse_ip c h.
Proof. exact VerifyHostname_iff. Qed.
Print Assumptions VerifyHostname_spec.

(* the chain is acceptable for the requested usages iff it is non-empty and one requested usage is
   allowed by every certificate (no usage requested: vacuous; the caller substitutes serverAuth) *)
Theorem checkChainForKeyUsage_spec :
  forall chain usages, ~ In invalidUsage usages ->
    (checkChainForKeyUsage_model chain usages = true <->
     chain <> [] /\ (usages = [] \/ exists u, In u usages /\ forall c, In c chain -> cert_allows c u)).
Proof. exact checkChainForKeyUsage_iff. Qed.
Print Assumptions checkChainForKeyUsage_spec.

Example matchers_examples :
  matchHostnames_model [120;46;97;46;98]%N [88;46;97;46;98;46]%N = false    (* "x.a.b" vs "X.a.b." : case is folded by the caller *)
  /\ matchHostnames_model [42;46;97;46;98]%N [120;46;97;46;98;46]%N = true  (* "*.a.b" vs "x.a.b." *)
  /\ matchHostnames_model [42;46;97;46;98]%N [121;46;120;46;97;46;98]%N = false (* the wildcard is one label *)
  /\ matchNameConstraint_model [120;46;65;46;98]%N [97;46;98]%N = true      (* "x.A.b" in "a.b" *)
  /\ matchNameConstraint_model [120;97;46;98]%N [97;46;98]%N = false        (* "xa.b" not in "a.b" *)
  /\ matchNameConstraint_model [97;46;98]%N [46;97;46;98]%N = false         (* "a.b" not in ".a.b" *)
  /\ toLowerCaseASCII_model (fun _ => false) [65;98;90;91]%N = [97;98;122;91]%N.
Proof. vm_compute. repeat split; reflexivity. Qed.

(* ---------- 2. soundness ------------------------------------------------------------------------------ *)
(* Every chain Verify returns is a valid chain in the sense of the property text (and additionally
   satisfies the fail-closed extras); in particular leaf first, a supplied root last, supplied
   intermediates in between, no certificate twice.  An Ok result is never the empty list. *)
Theorem verify_sound :
  forall sig_ok parse_ip rune_error roots inters opts fuel leaf chains,
    (forall r, In r roots -> c_v3 r = true) ->
    (forall i, In i inters -> c_entrust_spki i = false) ->
    c_entrust_spki leaf = false ->
    (forall r, In r roots -> c_id r = c_id leaf -> r = leaf) ->
    ~ In invalidUsage (o_keyusages opts) ->
    Verify_model sig_ok parse_ip rune_error roots inters opts fuel leaf = Ok chains ->
    chains <> [] /\
    forall ch, In ch chains ->
      valid_chain sig_ok parse_ip roots inters opts leaf ch /\ strict_extras opts ch.
Proof. exact verify_sound_lemma. Qed.
Print Assumptions verify_sound.

(* ---------- 3. completeness --------------------------------------------------------------------------- *)
Theorem verify_complete :
  forall sig_ok parse_ip rune_error roots inters opts fuel leaf ch,
    valid_chain sig_ok parse_ip roots inters opts leaf ch ->
    strict_extras opts ch ->
    (forall ups, ch = leaf :: ups -> keyids_wf roots inters leaf ups) ->
    ~ In invalidUsage (o_keyusages opts) ->
    length inters < fuel ->
    sigchecks_used sig_ok roots inters opts fuel leaf <= maxChainSignatureChecks ->
    exists chains,
      Verify_model sig_ok parse_ip rune_error roots inters opts fuel leaf = Ok chains /\ chains <> [].
Proof. exact verify_complete_lemma. Qed.
Print Assumptions verify_complete.

(* completeness without the extras: when no certificate of the pools restricts usages or names
   (and the leaf has no permitted subtrees of its own), every chain valid in the sense of the
   property text is enough *)
Theorem verify_complete_plain :
  forall sig_ok parse_ip rune_error roots inters opts fuel leaf ch,
    (forall c, In c roots \/ In c inters -> unrestricted c) ->
    c_permitted leaf = [] ->
    valid_chain sig_ok parse_ip roots inters opts leaf ch ->
    (forall ups, ch = leaf :: ups -> keyids_wf roots inters leaf ups) ->
    ~ In invalidUsage (o_keyusages opts) ->
    length inters < fuel ->
    sigchecks_used sig_ok roots inters opts fuel leaf <= maxChainSignatureChecks ->
    exists chains,
      Verify_model sig_ok parse_ip rune_error roots inters opts fuel leaf = Ok chains /\ chains <> [].
Proof.
  intros sig_ok parse_ip rune_error roots inters opts fuel leaf ch Hpool Hleaf Hv.
  apply verify_complete_lemma; [exact Hv|]. exact (plain_strict_extras _ _ _ _ _ _ _ Hpool Hleaf Hv).
Qed.
Print Assumptions verify_complete_plain.

(* the budget as a condition on pool sizes: with P = |roots| + |intermediates| candidates per call and
   at most r recursive calls below a chain with r unused intermediates, a search makes at most
   budget_bound P |intermediates| signature checks, whatever the certificates are; e.g. 3 roots with 3
   intermediates (96) or 8 roots with 2 intermediates (50) can never exhaust the budget.  (3 roots
   with 4 intermediates can: C10_budget_reached_by_small_pki.) *)
Theorem sigchecks_bounded_by_pool_sizes :
  forall sig_ok roots inters opts fuel leaf,
    sigchecks_used sig_ok roots inters opts fuel leaf <= budget_bound (length roots + length inters) (length inters).
Proof. exact sigchecks_used_bound. Qed.
Print Assumptions sigchecks_bounded_by_pool_sizes.

Theorem verify_complete_small_pools :
  forall sig_ok parse_ip rune_error roots inters opts leaf ch,
    budget_bound (length roots + length inters) (length inters) <= maxChainSignatureChecks ->
    valid_chain sig_ok parse_ip roots inters opts leaf ch ->
    strict_extras opts ch ->
    (forall ups, ch = leaf :: ups -> keyids_wf roots inters leaf ups) ->
    ~ In invalidUsage (o_keyusages opts) ->
    exists chains,
      Verify_model sig_ok parse_ip rune_error roots inters opts (length inters + 1) leaf = Ok chains /\ chains <> [].
Proof.
  intros sig_ok parse_ip rune_error roots inters opts leaf ch Hb Hv He Hk Hu.
  apply (verify_complete_lemma sig_ok parse_ip rune_error roots inters opts _ leaf ch Hv He Hk Hu); [lia|].
  pose proof (sigchecks_used_bound sig_ok roots inters opts (length inters + 1) leaf). lia.
Qed.
Print Assumptions verify_complete_small_pools.

Example budget_bound_examples :
  budget_bound (3 + 3) 3 = 96 /\ budget_bound (8 + 2) 2 = 50 /\ budget_bound (3 + 4) 4 = 455
  /\ maxChainSignatureChecks = 100.
Proof. vm_compute. repeat split; reflexivity. Qed.

(* the constants of the model are the constants of x509/verify.go (Gen/X509Verify.v is regenerated
   from the source on every run) *)
Theorem model_constants_are_the_source_constants :
  N.of_nat maxChainSignatureChecks = X509Verify.gen_maxChainSignatureChecks /\
  N.of_nat leafCertificate = X509Verify.gen_leafCertificate /\
  N.of_nat intermediateCertificate = X509Verify.gen_intermediateCertificate /\
  N.of_nat rootCertificate = X509Verify.gen_rootCertificate.
Proof. vm_compute. repeat split; reflexivity. Qed.
Print Assumptions model_constants_are_the_source_constants.

(* ... and the key-usage / extended-key-usage constants the specification names are those of x509.go *)
Theorem spec_constants_are_the_source_constants :
  KeyUsageCertSign = X509Tables.c_KeyUsageCertSign /\
  EKU_Any = Z.of_N X509Tables.c_ExtKeyUsageAny /\
  EKU_ServerAuth = Z.of_N X509Tables.c_ExtKeyUsageServerAuth /\
  EKU_MicrosoftSGC = Z.of_N X509Tables.c_ExtKeyUsageMicrosoftServerGatedCrypto /\
  EKU_NetscapeSGC = Z.of_N X509Tables.c_ExtKeyUsageNetscapeServerGatedCrypto.
Proof. vm_compute. repeat split; reflexivity. Qed.
Print Assumptions spec_constants_are_the_source_constants.

(* ---------- 3b. the two readings of the path-length constraint --------------------------------------------
   [valid_chain] counts every intermediate (what the implementation does); [valid_chain_rfc] does not
   count self-issued intermediates (RFC 5280 4.2.1.9 / 6.1.4 (l)).  Soundness holds for both readings;
   completeness for the RFC reading needs the premise that the chain has no self-issued intermediate,
   and [C10_self_issued_intermediates_are_counted] shows that it cannot be dropped: the
   implementation is fail-closed on key roll-over certificates under a tight path length. *)
Theorem verify_sound_rfc :
  forall sig_ok parse_ip rune_error roots inters opts fuel leaf chains,
    (forall r, In r roots -> c_v3 r = true) ->
    (forall i, In i inters -> c_entrust_spki i = false) ->
    c_entrust_spki leaf = false ->
    (forall r, In r roots -> c_id r = c_id leaf -> r = leaf) ->
    ~ In invalidUsage (o_keyusages opts) ->
    Verify_model sig_ok parse_ip rune_error roots inters opts fuel leaf = Ok chains ->
    forall ch, In ch chains -> valid_chain_rfc sig_ok parse_ip roots inters opts leaf ch.
Proof.
  intros sig_ok parse_ip rune_error roots inters opts fuel leaf chains H1 H2 H3 H4 H5 H6 ch Hch.
  destruct (verify_sound_lemma sig_ok parse_ip rune_error roots inters opts fuel leaf chains H1 H2 H3 H4 H5 H6) as [_ H].
  apply valid_chain_to_rfc. exact (proj1 (H ch Hch)).
Qed.
Print Assumptions verify_sound_rfc.

Theorem verify_complete_rfc :
  forall sig_ok parse_ip rune_error roots inters opts fuel leaf ups,
    valid_chain_rfc sig_ok parse_ip roots inters opts leaf (leaf :: ups) ->
    no_self_issued_intermediate ups ->
    strict_extras opts (leaf :: ups) ->
    keyids_wf roots inters leaf ups ->
    ~ In invalidUsage (o_keyusages opts) ->
    length inters < fuel ->
    sigchecks_used sig_ok roots inters opts fuel leaf <= maxChainSignatureChecks ->
    exists chains,
      Verify_model sig_ok parse_ip rune_error roots inters opts fuel leaf = Ok chains /\ chains <> [].
Proof.
  intros sig_ok parse_ip rune_error roots inters opts fuel leaf ups Hv Hns He Hk Hu Hf Hs.
  apply (verify_complete_lemma sig_ok parse_ip rune_error roots inters opts fuel leaf (leaf :: ups)); try assumption.
  - apply valid_chain_of_rfc; assumption.
  - intros ups' E. injection E as <-. exact Hk.
Qed.
Print Assumptions verify_complete_rfc.

(* ---------- 4. termination ----------------------------------------------------------------------------- *)
(* fuel |intermediates| + 1 suffices for every call of buildChains: each level adds a new intermediate *)
Theorem buildChains_terminates :
  forall sig_ok roots inters opts fuel c currentChain sigChecks,
    length inters + 1 <= fuel ->
    exists r, buildChains_model sig_ok roots inters opts fuel c currentChain sigChecks = Ok r.
Proof.
  intros. apply buildChains_terminates_lemma. lia.
Qed.
Print Assumptions buildChains_terminates.

(* ---------- examples: a small PKI -------------------------------------------------------------------- *)
Definition mk_ca (id : nat) (subj iss : list byte) : cert :=
  mkCert id true subj iss [] [] 0 100 true true (-1) 0 [] [] [] [] [] false false false.
Definition mk_ee (id : nat) (subj iss : list byte) (dns : list byte) : cert :=
  mkCert id true subj iss [] [] 0 100 false false (-1) 0 [] [dns] [] [] [] false false false.
(* signatures: certificate number i is signed by the key of certificate number (signer i) *)
Definition sig_by (signer : nat -> nat) (c p : cert) : bool := Nat.eqb (c_id p) (signer (c_id c)).
Definition no_ip (_ : list byte) : option (list byte) := None.
Definition no_re (_ : list byte) : bool := false.

Definition exR := mk_ca 0 [1]%N [1]%N.
Definition exI := mk_ca 1 [2]%N [1]%N.
Definition exL := mk_ee 2 [3]%N [2]%N [97;46;98]%N.                       (* dNSName "a.b" *)
Definition ex_sig := sig_by (fun i => match i with 2 => 1 | 1 => 0 | _ => 0 end).
Definition ex_opts := mkOpts [65;46;98;46]%N 50 [].                   (* "A.b." at time 50, default usage *)

Example verify_example :
  Verify_model ex_sig no_ip no_re [exR] [exI] ex_opts 2 exL = Ok [[exL; exI; exR]]
  /\ sigchecks_used ex_sig [exR] [exI] ex_opts 2 exL = 2.
Proof. vm_compute. split; reflexivity. Qed.

(* the hypotheses of verify_complete are satisfiable (non-vacuity): the chain above is a valid chain *)
Example verify_example_valid :
  valid_chain ex_sig no_ip [exR] [exI] ex_opts exL [exL; exI; exR] /\ strict_extras ex_opts [exL; exI; exR]
  /\ keyids_wf [exR] [exI] exL [exI; exR].
Proof.
  assert (H : Verify_model ex_sig no_ip no_re [exR] [exI] ex_opts 2 exL = Ok [[exL; exI; exR]]) by (vm_compute; reflexivity).
  eapply verify_sound in H.
  - destruct H as [_ H]. destruct (H _ (or_introl eq_refl)) as [H1 H2]. split; [exact H1|]. split; [exact H2|].
    cbn. repeat split; left; reflexivity.
  - intros r [<-|[]]. reflexivity.
  - intros i [<-|[]]. reflexivity.
  - reflexivity.
  - intros r [<-|[]]. discriminate.
  - cbn. intros [].
Qed.

(* ---------- 5. the premises cannot be dropped ------------------------------------------------------- *)
Ltac validity := unfold in_validity; vm_compute; split; intro; discriminate.
Ltac by_hand_issuer :=
  unfold issuer_ok, is_ca, may_sign, in_validity, pathlen_ok, dns_constraints_ok, host_requested; cbn;
  repeat split; try reflexivity; try lia; try (left; reflexivity); try (intros; discriminate); try (intros; contradiction);
  try (vm_compute; intro; discriminate).

(* (a) beyond the budget: 101 roots with the issuer's name whose signature check fails come first;
   the 102nd root is the real issuer.  A valid chain exists, Verify gives up. *)
Definition bad_root (i : nat) : cert := mk_ca (10 + i) [1]%N [1]%N.
Definition many_roots : list cert := map bad_root (seq 0 101) ++ [exR].
Definition exL1 := mk_ee 2 [3]%N [1]%N [97;46;98]%N.
Definition sig1 := sig_by (fun i => match i with 2 => 0 | _ => 0 end).

Theorem C10_incomplete_beyond_budget :
  exists sig_ok roots inters opts leaf ch,
    valid_chain sig_ok no_ip roots inters opts leaf ch /\ strict_extras opts ch /\
    (forall ups, ch = leaf :: ups -> keyids_wf roots inters leaf ups) /\
    Verify_model sig_ok no_ip no_re roots inters opts (length inters + 1) leaf = Err 4 /\
    maxChainSignatureChecks < sigchecks_used sig_ok roots inters opts (length inters + 1) leaf.
Proof.
  exists sig1, many_roots, [], ex_opts, exL1, [exL1; exR].
  split.
  { exists [exR]. split; [reflexivity|]. split.
    { unfold leaf_ok. split; [reflexivity|]. split; [validity|]. split.
      - intros _. apply (VerifyHostname_iff no_ip no_re). vm_compute. reflexivity.
      - right. exists EKU_ServerAuth. split; [left; reflexivity|]. intros c [<-|[]]. left. split; reflexivity. }
    split. { cbn [issuers_ok]. split; [|exact I]. by_hand_issuer. }
    split. { cbn. repeat constructor; cbn; intuition discriminate. }
    unfold from_pools. cbn [rev app]. split; [|intros ? []]. unfold many_roots. apply in_or_app. right. left. reflexivity. }
  split.
  { split.
    - right. exists EKU_ServerAuth. split; [left; reflexivity|]. intros c [<-|[<-|[]]]; left; split; reflexivity.
    - intros c [<-|[<-|[]]] H; exfalso; apply H; reflexivity. }
  split. { intros ups E. injection E as <-. cbn. repeat split; left; reflexivity. }
  split; vm_compute; [reflexivity|lia].
Qed.
Print Assumptions C10_incomplete_beyond_budget.

(* (b) key identifiers: the leaf names key id 7, its issuer carries no key id, an unrelated root
   carries key id 7: the issuer is never tried. *)
Definition exR_nokid := mk_ca 0 [1]%N [1]%N.
Definition exR_kid7 := mkCert 5 true [9]%N [9]%N [7]%N [] 0 100 true true (-1) 0 [] [] [] [] [] false false false.
Definition exL_aki7 := mkCert 2 true [3]%N [1]%N [] [7]%N 0 100 false false (-1) 0 [] [[97;46;98]%N] [] [] [] false false false.

Theorem C10_complete_needs_keyids :
  exists sig_ok roots inters opts leaf ch,
    valid_chain sig_ok no_ip roots inters opts leaf ch /\ strict_extras opts ch /\
    sigchecks_used sig_ok roots inters opts (length inters + 1) leaf <= maxChainSignatureChecks /\
    Verify_model sig_ok no_ip no_re roots inters opts (length inters + 1) leaf = Err 4.
Proof.
  exists sig1, [exR_nokid; exR_kid7], [], ex_opts, exL_aki7, [exL_aki7; exR_nokid].
  split.
  { exists [exR_nokid]. split; [reflexivity|]. split.
    { unfold leaf_ok. split; [reflexivity|]. split; [validity|]. split.
      - intros _. apply (VerifyHostname_iff no_ip no_re). vm_compute. reflexivity.
      - right. exists EKU_ServerAuth. split; [left; reflexivity|]. intros c [<-|[]]. left. split; reflexivity. }
    split. { cbn [issuers_ok]. split; [|exact I]. by_hand_issuer. }
    split. { cbn. repeat constructor; cbn; intuition discriminate. }
    unfold from_pools. cbn [rev app]. split; [left; reflexivity|intros ? []]. }
  split.
  { split.
    - right. exists EKU_ServerAuth. split; [left; reflexivity|]. intros c [<-|[<-|[]]]; left; split; reflexivity.
    - intros c [<-|[<-|[]]] H; exfalso; apply H; reflexivity. }
  split; vm_compute; [lia|reflexivity].
Qed.
Print Assumptions C10_complete_needs_keyids.

(* (c) the fail-closed extras: a chain valid in the sense of the property text is rejected
   1. because an ISSUER restricts its usages to clientAuth (usage 2) while serverAuth is requested,
   2. because an issuer has permitted DNS subtrees and no host name is requested. *)
Definition exI_client := mkCert 1 true [2]%N [1]%N [] [] 0 100 true true (-1) 0 [] [] [] [] [2%Z] false false false.
Definition exI_constrained := mkCert 1 true [2]%N [1]%N [] [] 0 100 true true (-1) 0 [[97;46;98]%N] [] [] [] [] false false false.
Definition ex_opts_noname := mkOpts [] 50 [].

Theorem C10_strict_extras_are_needed :
  (exists ch, valid_chain ex_sig no_ip [exR] [exI_client] ex_opts exL ch /\
              Verify_model ex_sig no_ip no_re [exR] [exI_client] ex_opts 2 exL = Err 5) /\
  (exists ch, valid_chain ex_sig no_ip [exR] [exI_constrained] ex_opts_noname exL ch /\
              Verify_model ex_sig no_ip no_re [exR] [exI_constrained] ex_opts_noname 2 exL = Err 4).
Proof.
  split.
  - exists [exL; exI_client; exR]. split; [|vm_compute; reflexivity].
    exists [exI_client; exR]. split; [reflexivity|]. split.
    { unfold leaf_ok. split; [reflexivity|]. split; [validity|]. split.
      - intros _. apply (VerifyHostname_iff no_ip no_re). vm_compute. reflexivity.
      - right. exists EKU_ServerAuth. split; [left; reflexivity|]. intros c [<-|[]]. left. split; reflexivity. }
    split. { cbn [issuers_ok]. split; [by_hand_issuer|]. split; [by_hand_issuer|exact I]. }
    split. { cbn. repeat constructor; cbn; intuition discriminate. }
    unfold from_pools. cbn [rev app]. split; [left; reflexivity|]. intros m [<-|[]]. left. reflexivity.
  - exists [exL; exI_constrained; exR]. split; [|vm_compute; reflexivity].
    exists [exI_constrained; exR]. split; [reflexivity|]. split.
    { unfold leaf_ok. split; [reflexivity|]. split; [validity|]. split.
      - intros H. exfalso. apply H. reflexivity.
      - right. exists EKU_ServerAuth. split; [left; reflexivity|]. intros c [<-|[]]. left. split; reflexivity. }
    split. { cbn [issuers_ok]. split; [by_hand_issuer|]. split; [by_hand_issuer|exact I]. }
    split. { cbn. repeat constructor; cbn; intuition discriminate. }
    unfold from_pools. cbn [rev app]. split; [left; reflexivity|]. intros m [<-|[]]. left. reflexivity.
Qed.
Print Assumptions C10_strict_extras_are_needed.

(* (d) the budget is reachable inside the sizes the property names (3 roots, 4 intermediates):
   three self-issued intermediates sharing name and key (each verifies under each), a fourth with
   the same name and key issued by the root R (MaxPathLen 1), two further roots with that name and
   another key.  The search below I1, I2, I3 spends 105 signature checks before I4 is tried, so the
   valid chain [leaf; I4; R] is not found; with I4 first in the pool it is found (101 checks). *)
Definition sR := mkCert 0 true [1]%N [1]%N [] [] 0 100 true true 1 0 [] [] [] [] [] false false false.
Definition sB1 := mk_ca 1 [2]%N [2]%N.
Definition sB2 := mk_ca 2 [2]%N [2]%N.
Definition sI1 := mk_ca 11 [2]%N [2]%N.
Definition sI2 := mk_ca 12 [2]%N [2]%N.
Definition sI3 := mk_ca 13 [2]%N [2]%N.
Definition sI4 := mk_ca 14 [2]%N [1]%N.
Definition sL := mk_ee 20 [3]%N [2]%N [97;46;98]%N.
Definition s_sig (c p : cert) : bool :=
  if Nat.eqb (c_id c) 14 then Nat.eqb (c_id p) 0
  else if Nat.eqb (c_id c) 20 || (Nat.leb 11 (c_id c) && Nat.leb (c_id c) 13)
       then Nat.leb 11 (c_id p) && Nat.leb (c_id p) 14
       else false.
Definition s_opts := mkOpts [97;46;98]%N 50 [].

Theorem C10_budget_reached_by_small_pki :
  valid_chain s_sig no_ip [sB1; sB2; sR] [sI1; sI2; sI3; sI4] s_opts sL [sL; sI4; sR] /\
  strict_extras s_opts [sL; sI4; sR] /\ keyids_wf [sB1; sB2; sR] [sI1; sI2; sI3; sI4] sL [sI4; sR] /\
  Verify_model s_sig no_ip no_re [sB1; sB2; sR] [sI1; sI2; sI3; sI4] s_opts 5 sL = Err 4 /\
  sigchecks_used s_sig [sB1; sB2; sR] [sI1; sI2; sI3; sI4] s_opts 5 sL = 105 /\
  Verify_model s_sig no_ip no_re [sB1; sB2; sR] [sI4; sI1; sI2; sI3] s_opts 5 sL = Ok [[sL; sI4; sR]].
Proof.
  split.
  { exists [sI4; sR]. split; [reflexivity|]. split.
    { unfold leaf_ok. split; [reflexivity|]. split; [validity|]. split.
      - intros _. apply (VerifyHostname_iff no_ip no_re). vm_compute. reflexivity.
      - right. exists EKU_ServerAuth. split; [left; reflexivity|]. intros c [<-|[]]. left. split; reflexivity. }
    split. { cbn [issuers_ok]. split; [by_hand_issuer|]. split; [by_hand_issuer|exact I]. }
    split. { cbn. repeat constructor; cbn; intuition discriminate. }
    unfold from_pools. cbn [rev app]. split; [right; right; left; reflexivity|].
    intros m [<-|[]]. right. right. right. left. reflexivity. }
  split.
  { split.
    - right. exists EKU_ServerAuth. split; [left; reflexivity|]. intros c [<-|[<-|[<-|[]]]]; left; split; reflexivity.
    - intros c [<-|[<-|[<-|[]]]] H; exfalso; apply H; reflexivity. }
  split. { cbn. repeat split; left; reflexivity. }
  vm_compute. repeat split; reflexivity.
Qed.
Print Assumptions C10_budget_reached_by_small_pki.

(* (e) self-issued intermediates are counted: root R (MaxPathLen 1) certifies A (old key); A certifies
   its own new key (a self-issued roll-over certificate S); the new key certifies the leaf.  RFC 5280
   does not count S, so [leaf; S; A; R] respects R's path length; the implementation counts it and
   finds no chain. *)
Definition rR := mkCert 0 true [1]%N [1]%N [] [] 0 100 true true 1 0 [] [] [] [] [] false false false.
Definition rA := mk_ca 31 [2]%N [1]%N.
Definition rS := mk_ca 32 [2]%N [2]%N.
Definition rL := mk_ee 33 [3]%N [2]%N [97;46;98]%N.
Definition r_sig := sig_by (fun i => match i with 33 => 32 | 32 => 31 | 31 => 0 | _ => 0 end).

Theorem C10_self_issued_intermediates_are_counted :
  valid_chain_rfc r_sig no_ip [rR] [rA; rS] s_opts rL [rL; rS; rA; rR] /\
  strict_extras s_opts [rL; rS; rA; rR] /\ keyids_wf [rR] [rA; rS] rL [rS; rA; rR] /\
  ~ no_self_issued_intermediate [rS; rA; rR] /\
  Verify_model r_sig no_ip no_re [rR] [rA; rS] s_opts 3 rL = Err 4.
Proof.
  split.
  { exists [rS; rA; rR]. split; [reflexivity|]. split.
    { unfold leaf_ok. split; [reflexivity|]. split; [validity|]. split.
      - intros _. apply (VerifyHostname_iff no_ip no_re). vm_compute. reflexivity.
      - right. exists EKU_ServerAuth. split; [left; reflexivity|]. intros c [<-|[]]. left. split; reflexivity. }
    split.
    { cbn [issuers_ok_rfc]. split; [by_hand_issuer|].
      destruct (self_issued_dec rS) as [_|n]; [|exfalso; apply n; reflexivity].
      split; [by_hand_issuer|].
      destruct (self_issued_dec rA) as [e|_]; [discriminate e|].
      split; [by_hand_issuer|exact I]. }
    split. { cbn. repeat constructor; cbn; intuition discriminate. }
    unfold from_pools. cbn [rev app]. split; [left; reflexivity|].
    intros m [<-|[<-|[]]]; [left|right; left]; reflexivity. }
  split.
  { split.
    - right. exists EKU_ServerAuth. split; [left; reflexivity|]. intros c [<-|[<-|[<-|[<-|[]]]]]; left; split; reflexivity.
    - intros c [<-|[<-|[<-|[<-|[]]]]] H; exfalso; apply H; reflexivity. }
  split. { cbn. repeat split; left; reflexivity. }
  split. { intro H. apply (H rS); [cbn; left; reflexivity|reflexivity]. }
  vm_compute. reflexivity.
Qed.
Print Assumptions C10_self_issued_intermediates_are_counted.

(* ---------- 6. name constraints the package does not handle -----------------------------------------------
   Verify reads only Certificate.PermittedDNSDomains.  What happens to every other constraint is decided
   when the certificate is parsed (parseCertificate, case 30; byte-level model X509/ExtModel.v).  For ALL
   NameConstraints values with arbitrary GeneralNames as subtree bases ([nc_value permitted excluded];
   [gn_ok]: low tag number, dNSName bases are IA5; [small]: below 2^31 bytes): *)

(* a CRITICAL extension with any excluded subtree, or with a permitted subtree that is not a non-empty
   dNSName (iPAddress, rfc822Name, directoryName, URI ...), makes ParseCertificate fail with
   UnhandledCriticalExtension: such a certificate never reaches a pool or Verify *)
Theorem name_constraints_critical_unhandled_rejected :
  forall permitted excluded,
    Forall gn_ok permitted -> Forall gn_ok excluded -> small (nc_value permitted excluded) ->
    (excluded <> [] \/ exists g, In g permitted /\ name_of g = []) ->
    parse_name_constraints true (nc_value permitted excluded) = Err 4.
Proof.
  intros permitted excluded Hp He Hs H. rewrite (parse_nc_general true permitted excluded Hp He Hs).
  destruct excluded as [|e es]; [|reflexivity]. cbn [List.length Nat.eqb negb andb].
  destruct H as [H|[g [Hg Hn]]]; [contradiction|].
  rewrite permitted_loop_critical_empty; [reflexivity|]. rewrite <- Hn. apply in_map. exact Hg.
Qed.
Print Assumptions name_constraints_critical_unhandled_rejected.

(* in a NON-critical extension the same constraints are dropped without a trace: the parsed certificate
   keeps the non-empty dNSName bases of the permitted subtrees and nothing else, so excluded subtrees and
   IP / e-mail / directory constraints are not enforced by Verify (RFC 5280 requires the extension to be
   critical; the property text speaks of permitted DNS domains only) *)
Theorem name_constraints_noncritical_others_dropped :
  forall permitted excluded,
    Forall gn_ok permitted -> Forall gn_ok excluded -> small (nc_value permitted excluded) ->
    parse_name_constraints false (nc_value permitted excluded) = Ok (nonempty_names (map name_of permitted), false).
Proof.
  intros permitted excluded Hp He Hs. rewrite (parse_nc_general false permitted excluded Hp He Hs).
  rewrite andb_false_r. rewrite permitted_loop_noncritical. reflexivity.
Qed.
Print Assumptions name_constraints_noncritical_others_dropped.

(* the leaf's own unhandled critical extensions stop Verify before anything else *)
Theorem verify_rejects_unhandled_critical_leaf :
  forall sig_ok parse_ip rune_error roots inters opts fuel leaf,
    c_unhandled_critical leaf = true ->
    Verify_model sig_ok parse_ip rune_error roots inters opts fuel leaf = Err 1.
Proof. intros. unfold Verify_model. rewrite H. reflexivity. Qed.
Print Assumptions verify_rejects_unhandled_critical_leaf.

Example name_constraints_unhandled_examples :
  (* critical, excluded dNSName "a.b" *)
  parse_name_constraints true (nc_value [] [(ID_CTX_DNS, [97;46;98]%N)]) = Err 4
  (* critical, permitted iPAddress 10.0.0.0/8 *)
  /\ parse_name_constraints true (nc_value [(ID_CTX_IP, [10;0;0;0;255;0;0;0]%N)] []) = Err 4
  (* not critical: permitted "a.b" kept, permitted IP range and excluded "x" dropped *)
  /\ parse_name_constraints false (nc_value [(ID_CTX_DNS, [97;46;98]%N); (ID_CTX_IP, [10;0;0;0;255;0;0;0]%N)] [(ID_CTX_DNS, [120]%N)])
     = Ok ([[97;46;98]%N], false).
Proof. vm_compute. repeat split; reflexivity. Qed.
