(* C02 - SM2 encryption round-trips, matches GM/T 0003.4 and rejects forged ciphertexts.
   Property theorems only; each is closed by lemmas of SM2/SM2EncProofs.v, SM2/SM2Asn1Proofs.v and
   followed by Print Assumptions.
   Model: SM2/SM2Model.v (Encrypt, Decrypt, EncryptAsn1, DecryptAsn1, CipherMarshal, CipherUnmarshal, kdf
   as /repo/sm2/sm2.go has them, RELATIVE TO C03: curve methods = affine operations of EC/SM2Curve.v with
   infinity written (0,0)), SM2/DER.v (encoding/asn1).  Specification: SM2/SM2Spec.v (GM/T 0003.4). *)
From Coq Require Import List NArith ZArith Bool Lia Arith.
From GmsmVerif Require Import Lib.Outcome EC.ECAffine EC.SM2Curve SM3.SM3Spec
     SM2.SM2Bytes SM2.SM2BytesProofs SM2.SM2Spec SM2.DER SM2.SM2Model SM2.SM2SignProofs SM2.SM2GroupMin
     SM2.SM2EncProofs SM2.SM2Asn1Proofs SM2.SM2OtherKey SM2.SM2Unconditional SM2.SM2Consumers SM2.SM2Audit1.
From GmsmVerif Require Import SM2.SM2ParamsTie Gen.SM2Params Gen.SM2SigParams.
Import ListNotations.
Open Scope Z_scope.

(* ---- 5. KDF: counter mode over SM3, ct from 1, 32-bit big endian, last block cut, all lengths; the
   boolean reports whether some output byte is non-zero ------------------------------------------------ *)
Theorem C02_kdf_model_is_standard :
  forall len z, kdf len z = (kdf_spec z len, negb (all_zero (kdf_spec z len))).
Proof. exact kdf_is_spec. Qed.
Print Assumptions C02_kdf_model_is_standard.

(* ---- 1. encryption = GM/T 0003.4 for the first admissible nonce of the stream ---------------------------
   For every public key with coordinates in [0,p), every non-empty plaintext, stream and mode: attempt i
   uses k_i = (OS2IP(rho[40i,40i+40)) mod (n-1)) + 1; the result is the standard's C1||C3||C2 (mode 0 and
   any mode other than 1) or C1||C2||C3 (mode 1) for the first k_i whose KDF output is not all zero;
   the reader is left after byte 40(i+1); a reader error exactly when no full attempt passes. *)
Theorem C02_encrypt_is_standard :
  forall fuel pub data rho mode,
    0 <= fst pub < sm2_p -> 0 <= snd pub < sm2_p -> data <> [] -> (length rho / 40 < fuel)%nat ->
    Encrypt fuel pub data rho mode =
    match encrypt_spec (go_decode pub) data rho (order_of mode) with
    | Some (i, c) => Ok (c, skipn (40 * S i) rho)
    | None => Err 2
    end.
Proof. exact Encrypt_is_spec. Qed.
Print Assumptions C02_encrypt_is_standard.

Theorem C02_encrypt_spec_first_nonce :
  forall PB M rho o i c,
    encrypt_spec PB M rho o = Some (i, c) <->
    (i < length rho / 40)%nat /\ encrypt_with_nonce PB M (nonce_at rho i) o = Some c /\
    (forall j, (j < i)%nat -> encrypt_with_nonce PB M (nonce_at rho j) o = None).
Proof.
  intros. unfold encrypt_spec. rewrite encrypt_search_some. cbn [Nat.add].
  split; intros (H1 & H2 & H3); (split; [lia|split; [exact H2|intros j Hj; apply H3; lia]]).
Qed.
Print Assumptions C02_encrypt_spec_first_nonce.

(* 04 prefix, 32-byte coordinates: the ciphertext has 97 + |M| bytes *)
Theorem C02_ciphertext_length :
  forall PB M k o c, encrypt_with_nonce PB M k o = Some c -> length c = (97 + length M)%nat /\ hd 0%N c = 4%N.
Proof. exact encrypt_with_nonce_length. Qed.
Print Assumptions C02_ciphertext_length.

(* ---- 2. totality: a ciphertext or an error for EVERY plaintext length, key, stream and mode with fuel
   |rho|/40 + 1 (no hang, no panic); the empty plaintext is an error -------------------------------------- *)
Theorem C02_encrypt_total :
  forall fuel pub data rho mode, (length rho / 40 < fuel)%nat -> no_crash (Encrypt fuel pub data rho mode).
Proof. exact Encrypt_total. Qed.
Print Assumptions C02_encrypt_total.

Theorem C02_encrypt_empty_is_error :
  forall fuel pub rho mode, Encrypt fuel pub [] rho mode = Err 3.
Proof. reflexivity. Qed.
Print Assumptions C02_encrypt_empty_is_error.

(* ---- 3. round trip, both orderings, raw and ASN.1 -----------------------------------------------------
   Minimal premises (SM2/SM2GroupMin.v): p prime (closure of the group operations), associativity of the affine
   addition on curve points, [k]G finite for 0 < k < n.  Neither "n prime" nor "[n]G = O" is needed.
   The versions with the bundled premise SM2Facts follow. *)
Theorem C02_decrypt_encrypt_min :
  P_prime -> Add_assoc -> G_multiples_finite -> forall fuel d M rho mode c rho',
    1 <= d < sm2_n -> (length rho / 40 < fuel)%nat ->
    Encrypt fuel (ScalarBaseMult d) M rho mode = Ok (c, rho') ->
    Decrypt (key_of d) c mode = Ok M.
Proof. exact Decrypt_Encrypt. Qed.
Print Assumptions C02_decrypt_encrypt_min.

Theorem C02_decryptAsn1_encryptAsn1_min :
  P_prime -> Add_assoc -> G_multiples_finite -> forall fuel d M rho der rho',
    1 <= d < sm2_n -> (length rho / 40 < fuel)%nat -> Z.of_nat (length M) < 65000 ->
    EncryptAsn1 fuel (ScalarBaseMult d) M rho = Ok (der, rho') ->
    DecryptAsn1 (key_of d) der = Ok M.
Proof. exact DecryptAsn1_EncryptAsn1. Qed.
Print Assumptions C02_decryptAsn1_encryptAsn1_min.

Theorem C02_decrypt_encrypt :
  SM2Facts -> forall fuel d M rho mode c rho',
    1 <= d < sm2_n -> (length rho / 40 < fuel)%nat ->
    Encrypt fuel (ScalarBaseMult d) M rho mode = Ok (c, rho') ->
    Decrypt (key_of d) c mode = Ok M.
Proof. intros F. destruct (facts_split F) as (Hp & _ & Ha & _ & Hf). exact (Decrypt_Encrypt Hp Ha Hf). Qed.
Print Assumptions C02_decrypt_encrypt.

Theorem C02_decryptAsn1_encryptAsn1 :
  SM2Facts -> forall fuel d M rho der rho',
    1 <= d < sm2_n -> (length rho / 40 < fuel)%nat -> Z.of_nat (length M) < 65000 ->
    EncryptAsn1 fuel (ScalarBaseMult d) M rho = Ok (der, rho') ->
    DecryptAsn1 (key_of d) der = Ok M.
Proof. intros F. destruct (facts_split F) as (Hp & _ & Ha & _ & Hf). exact (DecryptAsn1_EncryptAsn1 Hp Ha Hf). Qed.
Print Assumptions C02_decryptAsn1_encryptAsn1.

(* CipherUnmarshal restores exactly the 32-byte coordinates, for all x, y below 2^256 incl. short ones *)
Theorem C02_asn1_ciphertext_roundtrip :
  forall x y H C2,
    0 <= x < 2 ^ 256 -> 0 <= y < 2 ^ 256 -> length H = 32%nat -> Z.of_nat (length C2) < 65000 ->
    CipherMarshal (4%N :: fe_bytes x ++ fe_bytes y ++ H ++ C2) = Ok (asn1_marshal_cipher x y H C2) /\
    CipherUnmarshal (asn1_marshal_cipher x y H C2) = Ok (4%N :: fe_bytes x ++ fe_bytes y ++ H ++ C2).
Proof. exact asn1_ciphertext_roundtrip. Qed.
Print Assumptions C02_asn1_ciphertext_roundtrip.

(* ---- 4. decryption = GM/T 0003.4 7.1 on the parsed components, for ALL byte strings, keys and modes:
   an error (never a panic) unless the string has at least 98 bytes, starts with 04, C1 is a point of
   the curve with coordinates in [0,p), the KDF output is not all zero and C3 = SM3(x2 || M' || y2) --- *)
Theorem C02_decrypt_is_standard :
  forall pr c mode,
    (forall M, decrypt_bytes_spec (D pr) c (order_of mode) = Some M -> Decrypt pr c mode = Ok M) /\
    (decrypt_bytes_spec (D pr) c (order_of mode) = None -> exists e, Decrypt pr c mode = Err e).
Proof. exact Decrypt_is_spec. Qed.
Print Assumptions C02_decrypt_is_standard.

Theorem C02_decrypt_never_crashes : forall pr c mode, no_crash (Decrypt pr c mode).
Proof.
  intros. destruct (decrypt_bytes_spec (D pr) c (order_of mode)) as [M|] eqn:E.
  - rewrite (proj1 (Decrypt_is_spec pr c mode) M E). exact I.
  - destruct (proj2 (Decrypt_is_spec pr c mode) E) as [e ->]. exact I.
Qed.
Print Assumptions C02_decrypt_never_crashes.

Theorem C02_decrypt_rejects_short :
  forall pr c mode, (length c < 98)%nat -> exists e, Decrypt pr c mode = Err e.
Proof.
  intros pr c mode H. apply (proj2 (Decrypt_is_spec pr c mode)). unfold decrypt_bytes_spec.
  destruct (Nat.ltb_spec (length c) 98); [reflexivity|lia].
Qed.
Print Assumptions C02_decrypt_rejects_short.

(* whatever is accepted satisfies the standard's equations *)
Theorem C02_decrypt_ok_implies :
  forall pr c mode M,
    Decrypt pr c mode = Ok M ->
    (98 <= length c)%nat /\ hd 0%N c = 4%N /\
    let '(x, y, C3, C2) := split_ciphertext (order_of mode) c in
    sm2_valid (Some (x, y)) = true /\
    let S := sm2_mul (D pr) (Some (x, y)) in
    M = xor_bytes C2 (kdf_spec (fe_bytes (x_of S) ++ fe_bytes (y_of S)) (length C2)) /\
    C3 = sm3 (fe_bytes (x_of S) ++ M ++ fe_bytes (y_of S)).
Proof. exact Decrypt_ok_implies. Qed.
Print Assumptions C02_decrypt_ok_implies.

(* C1 not on the curve (or not made of field elements): an error whatever the private key is - the
   outcome carries no information about d (no invalid-curve oracle) *)
Theorem C02_no_invalid_curve_oracle :
  forall c mode,
    (let '(x, y, _, _) := split_ciphertext (order_of mode) c in sm2_valid (Some (x, y)) = false) ->
    forall pr, exists e, Decrypt pr c mode = Err e.
Proof. exact Decrypt_invalid_C1. Qed.
Print Assumptions C02_no_invalid_curve_oracle.

(* altered C3: with C1 and C2 fixed at most one C3 is accepted *)
Theorem C02_altered_C3_rejected :
  forall d x y C3 C3' C2 M, decrypt_spec d x y C3 C2 = Some M -> C3' <> C3 -> decrypt_spec d x y C3' C2 = None.
Proof.
  intros d x y C3 C3' C2 M H Hne. destruct (decrypt_spec d x y C3' C2) as [M'|] eqn:E; [|reflexivity].
  exfalso. apply Hne. symmetry. exact (decrypt_spec_C3_unique d x y C3 C3' C2 M M' H E).
Qed.
Print Assumptions C02_altered_C3_rejected.

(* altered C2: rejected, or the two plaintexts are different and collide under SM3 (with x2, y2 around) *)
Theorem C02_altered_C2_rejected_or_collision :
  forall d x y C3 C2 C2' M, decrypt_spec d x y C3 C2 = Some M -> C2' <> C2 ->
    decrypt_spec d x y C3 C2' = None \/
    exists M', decrypt_spec d x y C3 C2' = Some M' /\ M <> M' /\
      let S := sm2_mul d (Some (x, y)) in
      sm3 (fe_bytes (x_of S) ++ M ++ fe_bytes (y_of S)) = sm3 (fe_bytes (x_of S) ++ M' ++ fe_bytes (y_of S)).
Proof.
  intros d x y C3 C2 C2' M H Hne. destruct (decrypt_spec d x y C3 C2') as [M'|] eqn:E; [right|left; reflexivity].
  exists M'. split; [reflexivity|]. apply (decrypt_spec_C2_collision d x y C3 C2 C2' M M' H E). congruence.
Qed.
Print Assumptions C02_altered_C2_rejected_or_collision.

(* made for a different key: if a ciphertext produced for [d]G is decrypted without error under another key
   d' (d, d' in [1, n-1], d <> d'), then the two shared points S = [d]C1 and S' = [d']C1 are different and
   SM3(x2' || M' || y2') = SM3(x2 || M || y2) for the DIFFERENT byte strings built from them: an explicit SM3
   collision.  Otherwise the result is an error.  Premises: all five components of SM2Facts. *)
Theorem C02_other_key_rejected_or_collision :
  P_prime -> Add_assoc -> G_order_divides_n -> G_multiples_finite -> N_prime ->
  forall fuel d d' M rho mode c rho' M',
    1 <= d < sm2_n -> 1 <= d' < sm2_n -> d <> d' -> (length rho / 40 < fuel)%nat ->
    Encrypt fuel (ScalarBaseMult d) M rho mode = Ok (c, rho') ->
    Decrypt (key_of d') c mode = Ok M' ->
    exists k, 1 <= k < sm2_n /\
      let S := sm2_mul d (sm2_base_mul k) in let S' := sm2_mul d' (sm2_base_mul k) in
      S' <> S /\
      sm3 (fe_bytes (x_of S') ++ M' ++ fe_bytes (y_of S')) = sm3 (fe_bytes (x_of S) ++ M ++ fe_bytes (y_of S)) /\
      fe_bytes (x_of S') ++ M' ++ fe_bytes (y_of S') <> fe_bytes (x_of S) ++ M ++ fe_bytes (y_of S).
Proof. exact other_key_collision. Qed.
Print Assumptions C02_other_key_rejected_or_collision.

(* the shared points of different receivers differ: [d']C1 <> [d]C1 for C1 = [k]G *)
Theorem C02_shared_points_differ :
  P_prime -> Add_assoc -> G_order_divides_n -> G_multiples_finite -> N_prime ->
  forall d d' k, 1 <= d < sm2_n -> 1 <= d' < sm2_n -> d <> d' -> 1 <= k < sm2_n ->
    sm2_mul d' (sm2_base_mul k) <> sm2_mul d (sm2_base_mul k).
Proof. exact shared_points_differ. Qed.
Print Assumptions C02_shared_points_differ.

(* ---- associativity is a theorem (SM2/ECAssoc.v): round trip and different-key results without that premise --- *)
Theorem C02_decrypt_encrypt_noassoc :
  P_prime -> G_multiples_finite -> forall fuel d M rho mode c rho',
    1 <= d < sm2_n -> (length rho / 40 < fuel)%nat ->
    Encrypt fuel (ScalarBaseMult d) M rho mode = Ok (c, rho') ->
    Decrypt (key_of d) c mode = Ok M.
Proof. intros Hp. exact (Decrypt_Encrypt Hp (add_assoc_holds Hp)). Qed.
Print Assumptions C02_decrypt_encrypt_noassoc.

Theorem C02_decryptAsn1_encryptAsn1_noassoc :
  P_prime -> G_multiples_finite -> forall fuel d M rho der rho',
    1 <= d < sm2_n -> (length rho / 40 < fuel)%nat -> Z.of_nat (length M) < 65000 ->
    EncryptAsn1 fuel (ScalarBaseMult d) M rho = Ok (der, rho') ->
    DecryptAsn1 (key_of d) der = Ok M.
Proof. intros Hp. exact (DecryptAsn1_EncryptAsn1 Hp (add_assoc_holds Hp)). Qed.
Print Assumptions C02_decryptAsn1_encryptAsn1_noassoc.

Theorem C02_shared_points_differ_noassoc :
  P_prime -> G_order_divides_n -> G_multiples_finite -> N_prime ->
  forall d d' k, 1 <= d < sm2_n -> 1 <= d' < sm2_n -> d <> d' -> 1 <= k < sm2_n ->
    sm2_mul d' (sm2_base_mul k) <> sm2_mul d (sm2_base_mul k).
Proof. intros Hp. exact (shared_points_differ Hp (add_assoc_holds Hp)). Qed.
Print Assumptions C02_shared_points_differ_noassoc.

Theorem C02_other_key_rejected_or_collision_noassoc :
  P_prime -> G_order_divides_n -> G_multiples_finite -> N_prime ->
  forall fuel d d' M rho mode c rho' M',
    1 <= d < sm2_n -> 1 <= d' < sm2_n -> d <> d' -> (length rho / 40 < fuel)%nat ->
    Encrypt fuel (ScalarBaseMult d) M rho mode = Ok (c, rho') ->
    Decrypt (key_of d') c mode = Ok M' ->
    exists k, 1 <= k < sm2_n /\
      let S := sm2_mul d (sm2_base_mul k) in let S' := sm2_mul d' (sm2_base_mul k) in
      S' <> S /\
      sm3 (fe_bytes (x_of S') ++ M' ++ fe_bytes (y_of S')) = sm3 (fe_bytes (x_of S) ++ M ++ fe_bytes (y_of S)) /\
      fe_bytes (x_of S') ++ M' ++ fe_bytes (y_of S') <> fe_bytes (x_of S) ++ M ++ fe_bytes (y_of S).
Proof. intros Hp. exact (other_key_collision Hp (add_assoc_holds Hp)). Qed.
Print Assumptions C02_other_key_rejected_or_collision_noassoc.

(* ---- the consumer named by the anchors: the TLS ECC key exchange returns a premaster secret only when the
   ciphertext unmarshals, DECRYPTS WITHOUT ERROR (hence all of C02_decrypt_ok_implies) and gives 48 bytes -------- *)
Theorem C02_processClientKeyExchange_reports_errors :
  forall pr ct plain,
    processClientKeyExchange pr ct = Ok plain ->
    exists b0 b1 cipher raw,
      ct = b0 :: b1 :: cipher /\ Z.of_N b0 * 256 + Z.of_N b1 = Z.of_nat (length cipher) /\
      CipherUnmarshal cipher = Ok raw /\ Decrypt pr raw 0 = Ok plain /\ length plain = 48%nat.
Proof. exact processClientKeyExchange_ok. Qed.
Print Assumptions C02_processClientKeyExchange_reports_errors.

(* ---- the ASN.1 forms are one-step compositions ----------------------------------------------------------------------
   EncryptAsn1 = DER SEQUENCE{INTEGER x1, INTEGER y1, OCTET STRING C3, OCTET STRING C2} of the components of the
   standard's ciphertext for the first admissible nonce; DecryptAsn1 = CipherUnmarshal, then Decrypt: a plaintext comes
   out only through an error-free Decrypt of the unmarshalled bytes, so every rejection theorem above (short, prefix,
   C1 off the curve, altered C2 / C3, other key) applies to the ASN.1 form through C02_decrypt_ok_implies. *)
Theorem C02_encryptAsn1_is_standard :
  forall fuel pub M rho,
    0 <= fst pub < sm2_p -> 0 <= snd pub < sm2_p -> M <> [] -> (length rho / 40 < fuel)%nat ->
    Z.of_nat (length M) < 65000 ->
    EncryptAsn1 fuel pub M rho =
    match encrypt_spec (go_decode pub) M rho C1C3C2 with
    | Some (i, c) =>
      Ok (asn1_marshal_cipher (os2ip (slice c 1 33)) (os2ip (slice c 33 65)) (slice c 65 97) (skipn 97 c),
          skipn (40 * S i) rho)
    | None => Err 2
    end.
Proof. exact EncryptAsn1_is_standard. Qed.
Print Assumptions C02_encryptAsn1_is_standard.

Theorem C02_decryptAsn1_ok_implies :
  forall pr der M,
    DecryptAsn1 pr der = Ok M ->
    exists raw, CipherUnmarshal der = Ok raw /\ Decrypt pr raw 0 = Ok M /\
      (98 <= length raw)%nat /\ hd 0%N raw = 4%N /\
      let '(x, y, C3, C2) := split_ciphertext C1C3C2 raw in
      sm2_valid (Some (x, y)) = true /\
      let S := sm2_mul (D pr) (Some (x, y)) in
      M = xor_bytes C2 (kdf_spec (fe_bytes (x_of S) ++ fe_bytes (y_of S)) (length C2)) /\
      C3 = sm3 (fe_bytes (x_of S) ++ M ++ fe_bytes (y_of S)).
Proof.
  intros pr der M H. apply DecryptAsn1_ok_implies in H as (raw & Hu & Hd). exists raw.
  split; [exact Hu|]. split; [exact Hd|]. exact (Decrypt_ok_implies pr raw 0 M Hd).
Qed.
Print Assumptions C02_decryptAsn1_ok_implies.

Theorem C02_decryptAsn1_never_crashes : forall pr der, no_crash (DecryptAsn1 pr der).
Proof. exact DecryptAsn1_never_crashes. Qed.
Print Assumptions C02_decryptAsn1_never_crashes.

(* ---- tie to the source: curve constants, 40 nonce bytes, mode values, minimal ciphertext length ---------- *)
Theorem C02_source_constants_tied :
  (gen_P = sm2_p /\ gen_N = sm2_n /\ gen_A = sm2_a /\ gen_B = sm2_b /\ gen_Gx = sm2_Gx /\ gen_Gy = sm2_Gy /\
   gen_BitSize / gen_rand_div + gen_rand_extra = 40) /\
  (gen_default_uid = default_uid /\ gen_uid_limit = 8192 /\ gen_C1C3C2 = 0 /\ gen_C1C2C3 = 1 /\
   gen_decrypt_min = Z.of_nat (1 + 64 + 32 + 1)).
Proof. exact (conj curve_params_tied sig_params_tied). Qed.
Print Assumptions C02_source_constants_tied.

(* ---- tie to the source, structure: slice bounds, offsets, padding widths, prefix bytes of Encrypt / Decrypt /
   CipherMarshal / CipherUnmarshal / ZA / keCoordBytes as the translator reads them now (SM2/SM2ParamsTie.v) --- *)
Theorem C02_source_layout_tied : layout_statement.
Proof. exact layout_tied. Qed.
Print Assumptions C02_source_layout_tied.

(* every coordinate-padding site of Encrypt, Decrypt, CipherUnmarshal, ZA, keCoordBytes (inline block or a helper that is
   exactly that block), read with the constants of the source, is the model's pad32 on every buffer *)
Theorem C02_source_pad_sites_tied : pad_sites_statement.
Proof. exact pad_sites_tied. Qed.
Print Assumptions C02_source_pad_sites_tied.

(* ---- non-vacuity: concrete instances, evaluated (key d = 1, nonce k = 2, three-byte plaintext) ------- *)
Example C02_kdf_example :
  fst (kdf 33 [1; 2]%N) = firstn 33 (sm3 [1; 2; 0; 0; 0; 1]%N ++ sm3 [1; 2; 0; 0; 0; 2]%N) /\ snd (kdf 33 [1; 2]%N) = true /\
  kdf 0 [1; 2]%N = ([], false).
Proof. vm_compute. repeat split; reflexivity. Qed.

Example C02_roundtrip_example :
  let rho := repeat 0%N 39 ++ [1%N] in
  (forall mode, In mode [0; 1] ->
     exists c, Encrypt 2 (ScalarBaseMult 1) [7; 8; 9]%N rho mode = Ok (c, []) /\ length c = 100%nat /\
               Decrypt (key_of 1) c mode = Ok [7; 8; 9]%N /\
               (exists e, Decrypt (key_of 1) (firstn 97 c) mode = Err e) /\
               (exists e, Decrypt (key_of 1) (0%N :: tl c) mode = Err e) /\
               (exists e, Decrypt (key_of 2) c mode = Err e)) /\
  (exists der, EncryptAsn1 2 (ScalarBaseMult 1) [7; 8; 9]%N rho = Ok (der, []) /\
               DecryptAsn1 (key_of 1) der = Ok [7; 8; 9]%N) /\
  Encrypt 1 (ScalarBaseMult 1) [7; 8; 9]%N (repeat 0%N 39) 0 = Err 2.
Proof.
  cbv zeta. split; [|split].
  - intros mode [<-|[<-|[]]]; eexists; (split; [vm_compute; reflexivity|]); vm_compute;
      repeat split; try reflexivity; eexists; reflexivity.
  - eexists. split; [vm_compute; reflexivity|vm_compute; reflexivity].
  - vm_compute. reflexivity.
Qed.
