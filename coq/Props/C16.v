(* C16 - Resumption preserves the session or falls back; tickets are authenticated.
   Property theorems only: each is closed by a lemma of Resume/{Ticket,Resume,Lru}Proofs.v and followed by
   Print Assumptions.  Models: Resume/TicketModel.v (bytes: sessionState codec, encryptTicket/decryptTicket),
   Resume/ResumeModel.v (symbolic: gate, decision, connections, histories), Resume/LruModel.v (client cache).
   Idealisation: the ticket MAC is ideal - premise [ideal_mac] (a tag decides equality, different
   (key, message) pairs have different tags, no key produces the "junk" tag); AES-CTR and HMAC of the byte
   level are arbitrary functions with the stated length / involution premises. *)
From Coq Require Import List NArith Arith Bool Lia.
From GmsmVerif Require Import Lib.Outcome Gen.TLSSuites Resume.LruModel Resume.LruProofs
  Resume.TicketModel Resume.TicketProofs Resume.ResumeModel Resume.ResumeProofs
  Resume.TicketReach Resume.TicketEncoding Resume.ResumeRecords Resume.ResumeClone
  Rec.RecordSpec Rec.RecordModel Rec.RecordRoundtrip Agree.KeyModel Agree.ConstTie.
Import ListNotations.
Close Scope N_scope.

(* 1. sessionState codec (byte level).  Every state whose fields fit the widths the code writes
   (16-bit version, suite, master-secret length and certificate count; 32-bit certificate lengths)
   survives marshal/unmarshal; usedOldKey is not serialised.  unmarshal never panics. *)
Theorem C16_sessionState_roundtrip :
  forall s, wf_state s ->
    unmarshal (marshal s) = Ok (mkSS (ss_vers s) (ss_suite s) (ss_ms s) (ss_certs s) false).
Proof. exact unmarshal_marshal. Qed.
Print Assumptions C16_sessionState_roundtrip.

Theorem C16_sessionState_unmarshal_total : forall data, no_crash (unmarshal data).
Proof. exact unmarshal_total. Qed.
Print Assumptions C16_sessionState_unmarshal_total.

(* ... and every state the handshake code serialises fits those widths: the state sendSessionTicket builds
   after a full handshake (uint16 version and suite, the 48-byte master secret, the certificates of one
   Certificate message of at most maxHandshake bytes) and the one it builds when it refreshes a ticket in a
   resumed handshake (master secret and certificates of whatever unmarshal returned) - so the round trip
   holds for all reachable states; whatever unmarshal accepts fits them too. *)
Theorem C16_created_states_roundtrip :
  forall s, created s ->
    wf_state s /\ unmarshal (marshal s) = Ok (mkSS (ss_vers s) (ss_suite s) (ss_ms s) (ss_certs s) false).
Proof. intros s H. split; [exact (created_wf s H)|exact (unmarshal_marshal s (created_wf s H))]. Qed.
Print Assumptions C16_created_states_roundtrip.

Theorem C16_unmarshal_wf :
  forall data s, TicketReach.bytes_ok data -> unmarshal data = Ok s -> wf_state s.
Proof. exact unmarshal_wf. Qed.
Print Assumptions C16_unmarshal_wf.

(* 2. decryptTicket on bytes: total for all byte strings, keys, and primitives; success implies the
   length minimum (key name 16 + IV 16 + MAC 32), tickets enabled, the first key of that name, a MAC over
   everything but the last 32 bytes under that key, usedOldKey <-> index > 0; what encryptTicket makes is
   opened again. *)
Theorem C16_ticket_bytes_total :
  forall ctr hmacf disabled keys enc, no_crash (decryptTicket_bytes ctr hmacf disabled keys enc).
Proof. exact decryptTicket_bytes_total. Qed.
Print Assumptions C16_ticket_bytes_total.

Theorem C16_ticket_bytes_gate :
  forall ctr hmacf disabled keys enc st,
    decryptTicket_bytes ctr hmacf disabled keys enc = Ok st ->
    disabled = false /\ (16 + 16 + 32 <= length enc)%nat
    /\ exists i key,
         nth_error keys i = Some key /\ kb_name key = firstn 16 enc
         /\ (forall m k', m < i -> nth_error keys m = Some k' -> kb_name k' <> firstn 16 enc)
         /\ skipn (length enc - 32) enc = hmacf (kb_hmac key) (firstn (length enc - 32) enc)
         /\ ss_old st = Nat.ltb 0 i
         /\ exists st0, unmarshal (ctr (kb_aes key) (firstn 16 (skipn 16 enc))
                                     (firstn (length enc - 64) (skipn 32 enc))) = Ok st0
                        /\ ss_vers st = ss_vers st0 /\ ss_suite st = ss_suite st0
                        /\ ss_ms st = ss_ms st0 /\ ss_certs st = ss_certs st0.
Proof. exact decryptTicket_bytes_gate. Qed.
Print Assumptions C16_ticket_bytes_gate.

Theorem C16_ticket_bytes_roundtrip :
  forall ctr hmacf,
    (forall k m, length (hmacf k m) = 32) ->
    (forall k iv m, length (ctr k iv m) = length m) ->
    (forall k iv m, ctr k iv (ctr k iv m) = m) ->
    forall keys key iv st pre,
      wf_state st -> length (kb_name key) = 16 -> length iv = 16 ->
      Forall (fun k => kb_name k <> kb_name key) pre ->
      decryptTicket_bytes ctr hmacf false (pre ++ key :: keys)
        (kb_name key ++ iv ++ ctr (kb_aes key) iv (marshal st)
         ++ hmacf (kb_hmac key) (kb_name key ++ iv ++ ctr (kb_aes key) iv (marshal st)))
      = Ok (mkSS (ss_vers st) (ss_suite st) (ss_ms st) (ss_certs st) (Nat.ltb 0 (length pre))).
Proof. exact decrypt_encrypt_bytes. Qed.
Print Assumptions C16_ticket_bytes_roundtrip.

(* the key-name length of the byte model is the source's ticketKeyNameLen (Gen/TLSSuites.v, regenerated from
   /repo on every run); the other two lengths are aes.BlockSize and sha256.Size of the Go standard library *)
Theorem C16_ticket_constants : N.of_nat TicketModel.ticketKeyNameLen = gen_ticketKeyNameLen.
Proof. exact ticket_constants_tie. Qed.
Print Assumptions C16_ticket_constants.

(* 3. The gate with an ideal MAC: decryptTicket succeeds exactly when tickets are enabled, some configured
   key has the ticket's key name, and the ticket is what encryptTicket produced under that key for the
   returned state; usedOldKey <-> that key is not the first one. *)
Theorem C16_ticket_gate :
  forall (tagT : Type) (mac : N -> N * N * sst -> tagT) tag_eqb junk, ideal_mac mac tag_eqb junk ->
  forall disabled keys (t : ticket tagT) st old,
    decryptTicket_model mac tag_eqb disabled keys t = Some (st, old) <->
    disabled = false /\ exists i, find_idx (tk_name t) keys 0 = Some i
                                  /\ t = seal mac (tk_name t) (tk_iv t) st /\ old = Nat.ltb 0 i.
Proof. intros tagT mac tag_eqb junk (H1 & H2 & H3). exact (ticket_gate mac tag_eqb H1). Qed.
Print Assumptions C16_ticket_gate.

(* ... and the key found is the first configured key of that name *)
Theorem C16_ticket_gate_first_key :
  forall name keys j, find_idx name keys 0 = Some j ->
    nth_error keys j = Some name /\ (forall m, m < j -> nth_error keys m <> Some name).
Proof.
  intros name keys j H. apply find_idx_spec in H. rewrite Nat.sub_0_r in H. destruct H as (_ & A & B). auto.
Qed.
Print Assumptions C16_ticket_gate_first_key.

(* Any ticket that differs from every issued ticket and whose tag is one the adversary has seen (or no MAC
   value at all) is rejected, under every key list: every single-byte change, every truncation. *)
Theorem C16_modified_ticket_rejected :
  forall (tagT : Type) (mac : N -> N * N * sst -> tagT) tag_eqb junk, ideal_mac mac tag_eqb junk ->
  forall disabled keys (issued : list (ticket tagT)) t,
    (forall t', In t' issued -> authentic mac t') ->
    (tk_tag t = junk \/ In (tk_tag t) (map (@tk_tag tagT) issued)) ->
    ~ In t issued ->
    decryptTicket_model mac tag_eqb disabled keys t = None.
Proof. intros tagT mac tag_eqb junk (H1 & H2 & H3). exact (modified_ticket_rejected mac tag_eqb junk H1 H2 H3). Qed.
Print Assumptions C16_modified_ticket_rejected.

(* The two ticket models are tied: interpret key numbers as ticket keys with distinct 16-byte names, nonces
   as 16-byte IVs and symbolic states as byte states that fit the widths; then opening the byte encoding of
   an authentic symbolic ticket with decryptTicket_bytes yields the encoding of what decryptTicket_model
   yields - same success, same state, same usedOldKey - for every key list, tickets enabled or not. *)
Theorem C16_ticket_encoding :
  forall (ctr : list N -> list N -> list N -> list N) (hmacf : list N -> list N -> list N),
    (forall k m, length (hmacf k m) = 32) ->
    (forall k iv m, length (ctr k iv m) = length m) ->
    (forall k iv m, ctr k iv (ctr k iv m) = m) ->
  forall (tagT : Type) (mac : N -> N * N * sst -> tagT) tag_eqb,
    (forall a b, tag_eqb a b = true <-> a = b) ->
  forall (kb : N -> tkeyB) (ivb : N -> list N) (stb : sst -> sstate),
    (forall k, length (kb_name (kb k)) = 16) ->
    (forall k k', kb_name (kb k) = kb_name (kb k') -> k = k') ->
    (forall i, length (ivb i) = 16) ->
    (forall st, wf_state (stb st)) ->
  forall disabled keys (t : ticket tagT),
    authentic mac t ->
    decryptTicket_bytes ctr hmacf disabled (map kb keys) (ticket_bytes ctr hmacf kb ivb stb t) =
    match decryptTicket_model mac tag_eqb disabled keys t with
    | Some (st, old) => Ok (with_old (stb st) old)
    | None => Err 1
    end.
Proof. exact encoding_commutes. Qed.
Print Assumptions C16_ticket_encoding.

(* 4. The decision (GM variant gm = true, TLS variant gm = false) is the conjunction of the statement:
   tickets enabled, the ticket passes the gate, same version as negotiated, suite offered by the client,
   suite supported by the server configuration, client-certificate policy compatible with the stored
   certificates. *)
Theorem C16_resume_decision :
  forall (tagT : Type) (mac : N -> N * N * sst -> tagT) tag_eqb junk, ideal_mac mac tag_eqb junk ->
  forall gm cfg vers offered (t : option (ticket tagT)) st old,
    checkForResumption_model mac tag_eqb gm cfg vers offered t = Some (st, old) <->
    s_disabled cfg = false
    /\ (exists tk, t = Some tk /\ decryptTicket_model mac tag_eqb (s_disabled cfg) (s_keys cfg) tk = Some (st, old))
    /\ vers = st_vers st
    /\ In (st_suite st) offered
    /\ suite_supported_spec gm cfg (st_suite st) (st_vers st)
    /\ policy_compatible (s_auth cfg) (st_certs st).
Proof. intros tagT mac tag_eqb junk (H1 & H2 & H3). exact (resume_decision mac tag_eqb junk H1 H2 H3). Qed.
Print Assumptions C16_resume_decision.

(* 5. A full handshake stored a session; the same client configuration connects again to the unchanged
   server configuration (whether it lists its suites explicitly or not) and offers that session: the
   connection is resumed and completes, with the version, suite, master secret and both peer identities of
   the full handshake. *)
Theorem C16_explicit_suite_resumes :
  forall (tagT : Type) (mac : N -> N * N * sst -> tagT) tag_eqb junk, ideal_mac mac tag_eqb junk ->
  forall cfg c idx idx' sess0 (r : crec tagT) s,
    connect mac tag_eqb cfg c idx sess0 = (r, Some s) -> r_cls r = Full ->
    exists r', connect mac tag_eqb cfg c idx' (Some s) = (r', None) /\ r_cls r' = Resumed
      /\ r_vers r' = r_vers r /\ r_suite r' = r_suite r /\ r_ms r' = r_ms r
      /\ r_ccert r' = r_ccert r /\ r_scert r' = r_scert r.
Proof. intros tagT mac tag_eqb junk (H1 & H2 & H3). exact (valid_ticket_resumes mac tag_eqb junk H1 H2 H3). Qed.
Print Assumptions C16_explicit_suite_resumes.

(* 5a. Fall-back.  A connection that offers a session which is not resumed - the client drops the cached
   session (its suite or version is no longer configured), or checkForResumption refuses the ticket (tickets
   disabled, key no longer configured, MAC does not verify, other version, suite not offered / not supported,
   client-certificate policy) - is, for everything the property observes (outcome class, version, suite,
   master secret, both peer identities, ticket issued) and for the session the client stores, the connection
   WITHOUT a session: a silent full handshake (or the same failure a first connection would have had). *)
Theorem C16_fallback_is_full_handshake :
  forall (tagT : Type) (mac : N -> N * N * sst -> tagT) tag_eqb cfg c idx (s : csess tagT),
    (session_usable c s = true ->
     forall gm vers, server_version (s_mode cfg) (hello_vers (c_kind c)) = Some (gm, vers) ->
       checkForResumption_model mac tag_eqb gm cfg vers (hello_suites c) (Some (cs_ticket s)) = None) ->
    obs_of (fst (connect mac tag_eqb cfg c idx (Some s))) = obs_of (fst (connect mac tag_eqb cfg c idx None))
    /\ snd (connect mac tag_eqb cfg c idx (Some s)) = snd (connect mac tag_eqb cfg c idx None).
Proof. intros tagT mac tag_eqb. exact (fallback_is_full_handshake mac tag_eqb). Qed.
Print Assumptions C16_fallback_is_full_handshake.

(* 5b. The third outcome.  Once checkForResumption has accepted the ticket the server has committed to the
   abbreviated handshake (the ServerHello echoing the session id is on its way): the connection is Resumed, or
   it FAILS on both sides and nothing is stored - exactly when (i) the client certificates stored in the
   ticket no longer verify under the current policy (processCertsFromClient inside doResumeHandshake: a
   forged-issuer certificate accepted under RequestClientCert / RequireAnyClientCert, then ChangeClientAuth
   to VerifyClientCertIfGiven / RequireAndVerifyClientCert), or (ii) the client's cached session disagrees
   with what the server resumed: version or suite (processServerHello; only after ForgeVers / ForgeSuite) or
   master secret (Finished).  It is never resumed in these cases and never silently falls back; a first
   connection of the same client would fail in case (i) as well.  The Crashed disjunct (empty key list although
   an old key was found) is unreachable. *)
Theorem C16_resume_attempt_outcomes :
  forall (tagT : Type) (mac : N -> N * N * sst -> tagT) tag_eqb cfg c idx (s : csess tagT) gm vers st old,
    session_usable c s = true ->
    server_version (s_mode cfg) (hello_vers (c_kind c)) = Some (gm, vers) ->
    checkForResumption_model mac tag_eqb gm cfg vers (hello_suites c) (Some (cs_ticket s)) = Some (st, old) ->
    let r := fst (connect mac tag_eqb cfg c idx (Some s)) in
    (r_cls r = Resumed /\ stored_certs_ok (s_auth cfg) (st_certs st) = true
       /\ cs_vers s = vers /\ cs_suite s = st_suite st /\ cs_ms s = st_ms st)
    \/ (r_cls r = Failed /\ snd (connect mac tag_eqb cfg c idx (Some s)) = None
        /\ (stored_certs_ok (s_auth cfg) (st_certs st) = false \/ cs_vers s <> vers
            \/ cs_suite s <> st_suite st \/ cs_ms s <> st_ms st))
    \/ (r_cls r = Crashed /\ old = true /\ s_keys cfg = []).
Proof. intros tagT mac tag_eqb. exact (resume_attempt_outcomes mac tag_eqb). Qed.
Print Assumptions C16_resume_attempt_outcomes.

(* 6. Every history (any length) of connections with arbitrary client configurations, ticket-key
   rotations, suite-list and ClientAuth changes, disabling / enabling tickets, forged client-side session
   fields, tampered tickets, client cache of any capacity, any number of server configurations: every
   resumed connection has the version, suite, master secret, client identity and server identity of the
   earlier full handshake that created its master secret. *)
Theorem C16_history_invariant :
  forall (tagT : Type) (mac : N -> N * N * sst -> tagT) tag_eqb junk, ideal_mac mac tag_eqb junk ->
  forall capacity srvs ops i r,
    nth_error (h_log (hrun mac tag_eqb junk (hinit capacity srvs) ops)) i = Some r ->
    r_cls r = Resumed ->
    exists r0, nth_error (h_log (hrun mac tag_eqb junk (hinit capacity srvs) ops)) (N.to_nat (r_ms r)) = Some r0
               /\ r_cls r0 = Full /\ N.to_nat (r_ms r) < i
               /\ r_vers r0 = r_vers r /\ r_suite r0 = r_suite r /\ r_ms r0 = r_ms r
               /\ r_ccert r0 = r_ccert r /\ r_scert r0 = r_scert r.
Proof.
  intros tagT mac tag_eqb junk (H1 & H2 & H3) capacity srvs ops i r Hn Hc.
  destruct (history_invariant mac tag_eqb junk H1 H2 H3 capacity srvs ops i r Hn) as (_ & HR).
  destruct (HR Hc) as (r0 & A & B & C & D & E & F & G & H). exists r0. repeat split; assumption.
Qed.
Print Assumptions C16_history_invariant.

(* 6b. Configurations derived from one another (Config.Clone(), children handed out by GetConfigForClient).  A clone
   is a copy of every field (clone_hops: keys, suite list, ClientAuth, disabled flag of position dst set to c's);
   whatever is done afterwards to OTHER configurations - SetSessionTicketKeys rotations on the parent, suite / policy
   changes, connections, forgeries (hop_target o <> Some dst) - the clone is still exactly the configuration it was
   cloned from, so (connect takes the configuration found at the position) it resumes and refuses tickets by ITS
   OWN key history.  With dst := the parent's position the same statement protects the parent from its clones. *)
Theorem C16_clone_own_key_history :
  forall (tagT : Type) (mac : N -> N * N * sst -> tagT) tag_eqb junk (h : hstate tagT) c d dst ops,
    nth_error (h_srv h) dst = Some d -> s_mode d = s_mode c -> s_prefer d = s_prefer c -> s_keys c <> [] ->
    Forall (fun o => hop_target o <> Some dst) ops ->
    nth_error (h_srv (hrun mac tag_eqb junk h (clone_hops c dst ++ ops))) dst = Some c.
Proof. intros tagT mac tag_eqb junk. exact (clone_own_key_history mac tag_eqb junk). Qed.
Print Assumptions C16_clone_own_key_history.

(* 6a. The re-issued ticket.  When a resumed handshake stores a session (the offered ticket was opened with a
   key that is no longer the first one, so the server sends a fresh ticket), the new ticket is a seal under
   the server's first key of EXACTLY the state of the offered ticket - version, suite, master secret and the
   client certificates of the original handshake - and the client's new session keeps the master secret
   and the server identity; the server reports those client certificates for the resumed connection. *)
Theorem C16_reissued_ticket_same_identity :
  forall (tagT : Type) (mac : N -> N * N * sst -> tagT) tag_eqb junk, ideal_mac mac tag_eqb junk ->
  forall cfg c idx sess (r : crec tagT) s',
    connect mac tag_eqb cfg c idx sess = (r, Some s') -> r_cls r = Resumed ->
    exists s st k ks,
      sess = Some s
      /\ decryptTicket_model mac tag_eqb (s_disabled cfg) (s_keys cfg) (cs_ticket s) = Some (st, true)
      /\ s_keys cfg = k :: ks
      /\ cs_ticket s' = seal mac k idx st
      /\ st_certs (tk_state (cs_ticket s')) = st_certs (tk_state (cs_ticket s))
      /\ st_ms (tk_state (cs_ticket s')) = st_ms (tk_state (cs_ticket s))
      /\ cs_vers s' = st_vers st /\ cs_suite s' = st_suite st
      /\ cs_ms s' = cs_ms s /\ cs_srv s' = cs_srv s
      /\ r_ccert r = st_certs st /\ r_ms r = st_ms st.
Proof. intros tagT mac tag_eqb junk (H1 & H2 & H3). exact (reissued_ticket_same_identity mac tag_eqb junk H1 H2 H3). Qed.
Print Assumptions C16_reissued_ticket_same_identity.

(* 6b. Record protection of a resumed connection is that of a full handshake.  A resumed handshake runs the
   establishKeys of a full one over the master secret it took from the ticket / the cached session (by
   C16_history_invariant: the issuing handshake's) and the fresh hello randoms.  For every master secret,
   randoms and suite lengths both ends cut the same key block and install it mirrored, and every fragment
   sealed by one end under sequence number s is opened by the other, both moving to s+1 - the record-layer
   round trip of C07 (premise prims_ok: the block cipher, MAC and AEAD are functions with the right lengths
   and open(seal) = id).  The key-agreement half (same slices, mirrored installation: resumed_keys_agree) holds
   for every version; the record round trip is stated for VersionGMSSL because C07's
   decrypt_encrypt_record_ok is (its premise hc_version r = VersionGMSSL: explicit IV per record); TLS 1.1/1.2
   records have the same shape, TLS 1.0 chains the CBC IV - not covered by C07, hence not here. *)
Theorem C16_resumed_record_protection :
  forall (hmac : list N -> list N -> list N) (P : prims), prims_ok P ->
  forall fuel ms cr sr macLen keyLen ivLen slices (aead : bool) s h3 eiv frag,
    keysFromMasterSecret_model hmac fuel ms cr sr macLen keyLen ivLen = Ok slices ->
    (s < 2 ^ 64 - 1)%N -> length h3 = 3 ->
    length eiv = (if aead then 8 else p_bs P) -> RecordSpec.bytes_ok eiv -> RecordSpec.bytes_ok frag ->
    (N.of_nat (length frag) + N.of_nat (p_macSize P) < 2 ^ 30)%N ->
    forall client_writes : bool,
    let c := establishKeys_client slices in
    let sv := establishKeys_server slices in
    let w := half_conn aead VersionGMSSL (if client_writes then ck_out c else ck_out sv) (be64 s) in
    let r := half_conn aead VersionGMSSL (if client_writes then ck_in sv else ck_in c) (be64 s) in
    exists w' rec_ r',
      encrypt P w (h3 ++ len_bytes (length frag) ++ eiv ++ frag) (length eiv) = Ok (w', rec_)
      /\ decrypt P r rec_ = Ok (r', Some frag)
      /\ hc_seq w' = be64 (s + 1) /\ hc_seq r' = be64 (s + 1) /\ same_keys w' r'.
Proof. intros hmac P HP. exact (resumed_record_roundtrip hmac P HP). Qed.
Print Assumptions C16_resumed_record_protection.

(* ... and a connection is only ever resumed when the decision said so: by construction of [connect],
   stated for one connection *)
Theorem C16_resumed_only_if_decided :
  forall (tagT : Type) (mac : N -> N * N * sst -> tagT) tag_eqb cfg c idx sess (r : crec tagT) stored,
    connect mac tag_eqb cfg c idx sess = (r, stored) -> r_cls r = Resumed ->
    exists gm vers s st old,
      server_version (s_mode cfg) (hello_vers (c_kind c)) = Some (gm, vers)
      /\ sess = Some s /\ session_usable c s = true
      /\ checkForResumption_model mac tag_eqb gm cfg vers (hello_suites c) (Some (cs_ticket s)) = Some (st, old).
Proof.
  intros tagT mac tag_eqb cfg c idx sess r stored. unfold connect. cbv zeta.
  destruct (server_version (s_mode cfg) (hello_vers (c_kind c))) as [[gm vers]|]; [|intros [= <- _]; discriminate].
  destruct sess as [s|].
  - destruct (session_usable c s) eqn:Eu; cbn [option_map].
    + destruct (checkForResumption_model mac tag_eqb gm cfg vers (hello_suites c) (Some (cs_ticket s))) as [[st old]|] eqn:E.
      * intros _ _. exists gm, vers, s, st, old. auto.
      * intros H Hc. exfalso. revert H Hc.
        destruct (pick_suite gm cfg vers (hello_suites c)); [|intros [= <- _]; discriminate].
        destruct (negb (newFinishedHash_prf_ok vers)); [intros [= <- _]; discriminate|].
        destruct (client_auth (s_auth cfg) (cert_id gm (c_cert c))); [|intros [= <- _]; discriminate].
        destruct (if c_cache c && negb (s_disabled cfg) then s_keys cfg else [0%N]); intros [= <- _]; discriminate.
    + intros H Hc. exfalso. revert H Hc.
      destruct (checkForResumption_model mac tag_eqb gm cfg vers (hello_suites c) None) as [[st old]|];
      (destruct (pick_suite gm cfg vers (hello_suites c)); [|intros [= <- _]; discriminate];
       destruct (negb (newFinishedHash_prf_ok vers)); [intros [= <- _]; discriminate|];
       destruct (client_auth (s_auth cfg) (cert_id gm (c_cert c))); [|intros [= <- _]; discriminate];
       destruct (if c_cache c && negb (s_disabled cfg) then s_keys cfg else [0%N]); intros [= <- _]; discriminate).
  - cbn [option_map]. intros H Hc. exfalso. revert H Hc.
    destruct (checkForResumption_model mac tag_eqb gm cfg vers (hello_suites c) None) as [[st old]|];
    (destruct (pick_suite gm cfg vers (hello_suites c)); [|intros [= <- _]; discriminate];
     destruct (negb (newFinishedHash_prf_ok vers)); [intros [= <- _]; discriminate|];
     destruct (client_auth (s_auth cfg) (cert_id gm (c_cert c))); [|intros [= <- _]; discriminate];
     destruct (if c_cache c && negb (s_disabled cfg) then s_keys cfg else [0%N]); intros [= <- _]; discriminate).
Qed.
Print Assumptions C16_resumed_only_if_decided.

(* 7. The LRU client session cache refines "finite map + recency order", for every operation sequence *)
Theorem C16_lru_refines_map :
  forall (V : Type) (capacity : nat) (ops : list (lru_op V)),
    let cap := if Nat.ltb capacity 1 then 64 else capacity in
    let '(c, outs) := lru_run (lru_new capacity) ops in
    let '(s, souts) := spec_run cap [] ops in
    outs = souts /\ l_q c = s /\ lru_inv c.
Proof. intros V. exact (@lru_refines_map V). Qed.
Print Assumptions C16_lru_refines_map.

Theorem C16_lru_get_after_put :
  forall (V : Type) (c : lru V) k v, lru_inv c -> fst (lru_get (lru_put c k v) k) = Some v.
Proof. intros V. exact (@lru_get_after_put V). Qed.
Print Assumptions C16_lru_get_after_put.

Theorem C16_lru_capacity_bound :
  forall (V : Type) capacity (ops : list (lru_op V)),
    length (l_q (fst (lru_run (lru_new capacity) ops))) <= l_cap (fst (lru_run (lru_new capacity) ops)).
Proof. intros V capacity ops. pose proof (@lru_reachable_inv V capacity ops) as (_ & H & _). exact H. Qed.
Print Assumptions C16_lru_capacity_bound.

Theorem C16_lru_evicts_least_recent :
  forall (V : Type) (c : lru V) k v, lru_inv c -> ~ In k (l_m c) -> length (l_q c) = l_cap c ->
    forall k', k' <> k ->
      find_key k' (l_q (lru_put c k v)) = if N.eqb k' (fst (last (l_q c) (k, v))) then None else find_key k' (l_q c).
Proof. intros V. exact (@lru_evicts_least_recent V). Qed.
Print Assumptions C16_lru_evicts_least_recent.

(* ---------- non-vacuity ---------------------------------------------------------------------------- *)
(* the ideal-MAC premise is met by the term instance the runner executes *)
Example C16_ideal_mac_satisfiable : ideal_mac term_mac term_tag_eqb term_junk.
Proof. exact term_ideal_mac. Qed.

Open Scope N_scope.
Definition ex_gm : scfg := mkS SGM (Some [57363; 57427]) false 0 false [1].
Definition ex_cli : ccfg := mkC CG (Some [57363]) 0 0 true.
Definition ex_show (h : hstate term_tag) := map (fun r => (r_cls r, r_vers r, r_suite r, r_ms r)) (h_log h).

(* full, resumed, resumed with a refreshed ticket after a rotation that keeps the old key, full after the
   old key is dropped, full after the ticket was tampered with *)
Example C16_history_example :
  ex_show (hrun_term 2 [ex_gm]
     [Connect 0 ex_cli; Connect 0 ex_cli; RotateKeys 0 [3; 1]; Connect 0 ex_cli; Connect 0 ex_cli;
      RotateKeys 0 [4]; Connect 0 ex_cli; TamperTicket 0; Connect 0 ex_cli; Connect 0 ex_cli])
  = [(Full, 257, 57363, 0); (Resumed, 257, 57363, 0); (Resumed, 257, 57363, 0); (Resumed, 257, 57363, 0);
     (Full, 257, 57363, 4); (Full, 257, 57363, 5); (Resumed, 257, 57363, 5)].
Proof. vm_compute. reflexivity. Qed.

(* clone taken after a ticket exists, rotation on the parent: the clone keeps resuming the pre-rotation ticket (key 1),
   the parent falls back and issues under key 9, resumes on that, and the clone refuses the key-9 ticket *)
Example C16_clone_own_key_history_example :
  let h := hrun_term 2 [ex_gm; mkS SGM None false 0 false [2]]
     ([Connect 0 ex_cli] ++ clone_hops ex_gm 1 ++
      [Connect 1 ex_cli; RotateKeys 0 [9]; Connect 1 ex_cli; Connect 0 ex_cli; Connect 0 ex_cli; Connect 1 ex_cli]) in
  ex_show h = [(Full, 257, 57363, 0); (Resumed, 257, 57363, 0); (Resumed, 257, 57363, 0); (Full, 257, 57363, 3);
               (Resumed, 257, 57363, 3); (Full, 257, 57363, 5)]
  /\ map s_keys (h_srv h) = [[9]; [1]].
Proof. vm_compute. split; reflexivity. Qed.

(* a session with a client certificate, a rotation that keeps the old key, and three more connections: the
   first resumption gets a re-issued ticket, the later ones resume on it - always with the client identity 1 *)
Example C16_reissue_example :
  let cfg := mkS SGM (Some [57363]) false 4 false [1] in
  let cli := mkC CG (Some [57363]) 1 0 true in
  map (fun r => (r_cls r, r_ms r, r_ccert r, r_stored r))
      (h_log (hrun_term 2 [cfg] [Connect 0 cli; RotateKeys 0 [3; 1]; Connect 0 cli; Connect 0 cli; Connect 0 cli]))
  = [(Full, 0, 1, true); (Resumed, 0, 1, true); (Resumed, 0, 1, false); (Resumed, 0, 1, false)].
Proof. vm_compute. reflexivity. Qed.

(* the Failed outcome of an accepted ticket: a forged-issuer client certificate accepted under RequestClientCert
   travels in the ticket; after ChangeClientAuth to RequireAndVerifyClientCert the resumption attempt fails on
   both sides (not resumed, no fall-back), and so does a fresh connection of that client *)
Example C16_failed_resume_example :
  let cfg := mkS SGM (Some [57363]) false 1 false [1] in
  let cli := mkC CG (Some [57363]) 2 0 true in
  map (@r_cls term_tag) (h_log (hrun_term 2 [cfg] [Connect 0 cli; Connect 0 cli; ChangeClientAuth 0 4; Connect 0 cli;
                                                   Connect 0 (mkC CG (Some [57363]) 2 7 true)]))
  = [Full; Resumed; Failed; Failed].
Proof. vm_compute. reflexivity. Qed.

(* fall-back: after the key is dropped the connection is the one without a session, and stores a new ticket *)
Example C16_fallback_example :
  let cfg := mkS SGM (Some [57363]) false 0 false [1] in
  let cli := mkC CG (Some [57363]) 0 0 true in
  map (fun r => (r_cls r, r_ms r, r_stored r))
      (h_log (hrun_term 2 [cfg] [Connect 0 cli; RotateKeys 0 [5]; Connect 0 cli; Connect 0 cli]))
  = [(Full, 0, true); (Full, 1, true); (Resumed, 1, false)].
Proof. vm_compute. reflexivity. Qed.

(* the hypothesis "keysFromMasterSecret_model ... = Ok slices" of C16_resumed_record_protection is met
   (toy 32-byte MAC; SM4-CBC + HMAC-SM3 lengths 32/16/16, fuel = the 128 bytes needed) *)
Example C16_key_block_hypothesis_example :
  let hmac := fun (k m : list N) => firstn 32 (m ++ k ++ repeat 0 32) in
  exists slices, keysFromMasterSecret_model hmac 128 (repeat 7 48) (repeat 1 32) (repeat 2 32) 32 16 16 = Ok slices
    /\ ck_out (establishKeys_client slices) = ck_in (establishKeys_server slices).
Proof. eexists. vm_compute. split; reflexivity. Qed.

(* the hypotheses of C16_explicit_suite_resumes are met: the first connection is a full handshake that
   stores a session *)
Example C16_explicit_suite_example :
  exists r s, connect term_mac term_tag_eqb ex_gm ex_cli 0 None = (r, Some s) /\ r_cls r = Full.
Proof. eexists. eexists. vm_compute. split; reflexivity. Qed.

(* policy: a session with client certificates is not resumed under NoClientCert, one without is not
   resumed under RequireAndVerifyClientCert; TLS: ticket for another version / suite not offered *)
Example C16_decision_examples :
  let st := mkSt 257 57363 0 1 in
  let t := seal term_mac 1 0 st in
  let cfg1 := mkS SGM (Some [57363; 57427]) false 1 false [1] in
  checkForResumption_model term_mac term_tag_eqb true cfg1 257 [57363] (Some t) = Some (st, false)
  /\ checkForResumption_model term_mac term_tag_eqb true (mkS SGM None false 0 false [1]) 257 [57363] (Some t) = None
  /\ checkForResumption_model term_mac term_tag_eqb true (mkS SGM None false 4 false [1]) 257 [57363]
       (Some (seal term_mac 1 0 (mkSt 257 57363 0 0))) = None
  /\ checkForResumption_model term_mac term_tag_eqb true cfg1 257 [57427] (Some t) = None
  /\ checkForResumption_model term_mac term_tag_eqb true cfg1 771 [57363] (Some t) = None
  /\ checkForResumption_model term_mac term_tag_eqb true (mkS SGM (Some [57427]) false 1 false [1]) 257 [57363] (Some t) = None
  /\ checkForResumption_model term_mac term_tag_eqb true (mkS SGM None false 1 true [1]) 257 [57363] (Some t) = None
  /\ checkForResumption_model term_mac term_tag_eqb true (mkS SGM None false 1 false [2; 3]) 257 [57363] (Some t) = None
  /\ checkForResumption_model term_mac term_tag_eqb true (mkS SGM None false 1 false [2; 1]) 257 [57363] (Some t) = Some (st, true).
Proof. vm_compute. repeat split; reflexivity. Qed.

(* reachable states: a full-handshake state with a client certificate chain *)
Example C16_created_example :
  created (mkSS 257 57363 (repeat 7 48) [repeat 48 700; repeat 49 650] false).
Proof. apply created_full; try reflexivity; vm_compute; try reflexivity; discriminate. Qed.

(* the encoding equation on a concrete instance (toy primitives: identity "CTR", constant 32-byte "MAC") *)
Example C16_ticket_encoding_example :
  let ctr := fun (_ _ m : list N) => m in
  let hmacf := fun (_ _ : list N) => repeat 9 32 in
  let kb := fun k => mkKeyB (repeat k 16) [k] [k] in
  let ivb := fun i => repeat i 16 in
  let stb := fun st => mkSS (st_vers st) (st_suite st) (repeat (st_ms st) 48) [] false in
  let t := seal term_mac 3 5 (mkSt 257 57363 2 0) in
  decryptTicket_bytes ctr hmacf false (map kb [4; 3]) (ticket_bytes ctr hmacf kb ivb stb t)
    = Ok (mkSS 257 57363 (repeat 2 48) [] true)
  /\ decryptTicket_model term_mac term_tag_eqb false [4; 3] t = Some (mkSt 257 57363 2 0, true)
  /\ decryptTicket_bytes ctr hmacf false (map kb [4; 6]) (ticket_bytes ctr hmacf kb ivb stb t) = Err 1.
Proof. vm_compute. repeat split; reflexivity. Qed.

(* bytes: a state round-trips; a truncated encoding is refused without a panic *)
Example C16_codec_example :
  let s := mkSS 257 57363 (repeat 7 48) [[48; 1; 2]; []] false in
  unmarshal (marshal s) = Ok s /\ unmarshal (removelast (marshal s)) = Err 1 /\ unmarshal [1; 2; 3] = Err 1.
Proof. vm_compute. repeat split; reflexivity. Qed.
