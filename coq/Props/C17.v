(* C17 - PKCS#7 / PKCS#12 containers return what was put in, only to the right holder.
   Property theorems only; each is closed by a lemma of P7/P7Proofs.v, P12/*.v or Dec/ByteProofs.v and
   followed by Print Assumptions.  Cryptographic primitives and what encoding/asn1 does are Section
   variables; their idealisation (decryption inverts encryption) is a Section hypothesis, visible in
   every statement after the Section is closed.  Models: P7/P7Model.v (x509/pkcs7.go),
   P12/MacModel.v (pkcs12/mac.go, getSafeContents), P12/PbkdfModel.v, P12/BmpModel.v, P12/RC2Model.v,
   Dec/ByteModels.v (pad / unpad).  Tables: Gen/PKCS7Tables.v, Gen/RC2Tables.v (from the source). *)
From Coq Require Import List NArith ZArith Bool String Lia.
From GmsmVerif Require Import Lib.Outcome Dec.Access Dec.DecSpec Dec.ByteModels Dec.ByteProofs
  Gen.PKCS7Tables P7.P7Model P7.P7Proofs P7.P7SignModel P7.P7SignProofs P12.MacModel P12.MacProofs
  P12.RC2Model P12.RC2Proofs P12.PbkdfSpec P12.PbkdfModel P12.PbkdfProofs P12.BmpModel P12.BmpProofs
  P12.ContainerModel P12.ContainerProofs P12.ContainerInst P12.ContainerToy P12.ContainerToyProofs.
From GmsmVerif Require EC.SM2Curve SM2.SM2Model P7.P7SM2Model P7.P7SM2Proofs Props.C02.
Import ListNotations.
Local Open Scope nat_scope.
Notation length := List.length (only parsing).

(* ================= 1. enveloped data ========================================================= *)
Section C17_Envelope.
  Variable Cert : Type.
  Variable cert_serial : Cert -> Z.
  Variable cert_rawIssuer : Cert -> list N.
  Variables SK Rnd : Type.
  Variable wrap : Cert -> list N -> Rnd -> outcome (list N).      (* sm2.Encrypt(mode) / rsa.EncryptPKCS1v15 *)
  Variable unwrap : SK -> list N -> outcome (list N).             (* sm2.Decrypt(mode) / rsa.DecryptPKCS1v15 *)
  Variables cbc_enc cbc_dec gcm_seal : list N -> list N -> list N -> list N.
  Variable gcm_open : list N -> list N -> list N -> option (list N).
  Variable key_ok : calg -> list N -> bool.
  Variable sk_of : Cert -> SK.                                    (* the private key that belongs to a certificate *)
  Hypothesis unwrap_wrap : forall c k r e, wrap c k r = Ok e -> unwrap (sk_of c) e = Ok k.
  Hypothesis cbc_len_enc : forall k iv p, length (cbc_enc k iv p) = length p.
  Hypothesis cbc_len_dec : forall k iv c, length (cbc_dec k iv c) = length c.
  Hypothesis cbc_dec_enc : forall k iv p, cbc_dec k iv (cbc_enc k iv p) = p.
  Hypothesis gcm_open_seal : forall k n p, gcm_open k n (gcm_seal k n p) = Some p.

  Let Encrypt := PKCS7Encrypt Cert cert_serial cert_rawIssuer Rnd wrap cbc_enc gcm_seal.
  Let Decrypt := Decrypt Cert cert_serial cert_rawIssuer SK unwrap cbc_dec gcm_open key_ok.
  Let ident := ident Cert cert_serial cert_rawIssuer.

  (* every content, both content ciphers, any list of recipients with distinct issuer+serial, any
     randomness: each listed recipient gets the content back, exactly *)
  Theorem C17_envelope_roundtrip :
    forall alg content rs key iv rnd env c,
      key_ok alg key = true -> length iv = (match alg with DESCBC => 8 | AES128GCM => 12 end) ->
      Encrypt alg content rs key iv rnd = Ok env -> In c rs -> NoDup (map ident rs) ->
      Decrypt env c (sk_of c) = Ok content.
  Proof.
    intros alg content rs key iv rnd env c.
    exact (envelope_roundtrip Cert cert_serial cert_rawIssuer (fun _ x => x) (fun _ => None) (fun _ _ _ _ => true)
             SK Rnd wrap unwrap cbc_enc cbc_dec gcm_seal gcm_open key_ok sk_of
             unwrap_wrap cbc_len_enc cbc_len_dec cbc_dec_enc gcm_open_seal alg content rs key iv rnd env c).
  Qed.

  (* a certificate that is not among the recipients gets an error, whatever private key it comes with *)
  Theorem C17_envelope_not_a_recipient :
    forall alg content rs key iv rnd env c sk,
      Encrypt alg content rs key iv rnd = Ok env -> ~ In (ident c) (map ident rs) ->
      Decrypt env c sk = Err 23.
  Proof.
    exact (envelope_stranger Cert cert_serial cert_rawIssuer SK Rnd wrap unwrap cbc_enc cbc_dec gcm_seal gcm_open key_ok).
  Qed.

  (* a listed certificate with a private key that does not open the wrapped content key gets that error
     (that another SM2 / RSA key does not open it is the business of C02 / RSA, tested by the driver) *)
  Theorem C17_envelope_wrong_key :
    forall alg content rs key iv rnd env c sk e,
      Encrypt alg content rs key iv rnd = Ok env -> In c rs -> NoDup (map ident rs) ->
      (forall enc, wrap c key (rnd c) = Ok enc -> unwrap sk enc = Err e) ->
      Decrypt env c sk = Err e.
  Proof.
    exact (envelope_wrong_key Cert cert_serial cert_rawIssuer SK Rnd wrap unwrap cbc_enc cbc_dec gcm_seal gcm_open key_ok).
  Qed.
End C17_Envelope.
Print Assumptions C17_envelope_roundtrip.
Print Assumptions C17_envelope_not_a_recipient.
Print Assumptions C17_envelope_wrong_key.

(* non-vacuity: three recipients, toy primitives (xor with the key byte / identity wrap), both ciphers *)
Definition toy_xor (k iv d : list N) : list N := map (fun x => N.lxor x (hd 0%N k)) d.
Example C17_envelope_example :
  let wrap := fun (c : Z) (k : list N) (_ : unit) => Ok (N.of_nat (Z.to_nat c) :: k) in
  let unwrap := fun (sk : Z) (e : list N) => match e with x :: k => if (x =? N.of_nat (Z.to_nat sk))%N then Ok k else Err 9 | [] => Err 9 end in
  let enc := PKCS7Encrypt Z (fun c => c) (fun c => [7%N]) unit wrap toy_xor (fun k n p => p ++ k) in
  let dec := P7Model.Decrypt Z (fun c => c) (fun c => [7%N]) Z unwrap toy_xor
               (fun k n c => if Nat.leb (length k) (length c) then Some (firstn (length c - length k) c) else None) (fun _ _ => true) in
  (do env <- enc DESCBC [1;2;3;4;5;6;7;8;9]%N [11;12;13]%Z [42]%N [0;0;0;0;0;0;0;0]%N (fun _ => tt); dec env 12%Z 12%Z) = Ok [1;2;3;4;5;6;7;8;9]%N /\
  (do env <- enc DESCBC [1;2;3]%N [11;12;13]%Z [42]%N [0;0;0;0;0;0;0;0]%N (fun _ => tt); dec env 14%Z 14%Z) = Err 23 /\
  (do env <- enc DESCBC [1;2;3]%N [11;12;13]%Z [42]%N [0;0;0;0;0;0;0;0]%N (fun _ => tt); dec env 12%Z 13%Z) = Err 9 /\
  (do env <- enc AES128GCM [] [11]%Z [42]%N (repeat 0%N 12) (fun _ => tt); dec env 11%Z 11%Z) = Ok [].
Proof. vm_compute. repeat split; reflexivity. Qed.

(* ---- C17 o C02: the SM2 key transport is the SM2 model of the C02 family, and its round trip is C02's theorem with
   the SM2 facts proved (Prime/SM2FactsProof.v).  What is left as a premise is the content cipher (DES-CBC / AES-GCM
   decryption inverts encryption), nothing about SM2.  A certificate is used through the private scalar cert_d its
   public key [cert_d]G belongs to; the randomness of a recipient is the byte stream sm2.Encrypt draws from. *)
Section C17_Envelope_SM2.
  Variable Cert : Type.
  Variable cert_serial : Cert -> Z.
  Variable cert_rawIssuer : Cert -> list N.
  Variable cert_d : Cert -> Z.
  Variable fuel : nat.
  Variable mode : Z.                                               (* C1C3C2 / C1C2C3 *)
  Variables cbc_enc cbc_dec gcm_seal : list N -> list N -> list N -> list N.
  Variable gcm_open : list N -> list N -> list N -> option (list N).
  Variable key_ok : calg -> list N -> bool.
  Hypothesis cbc_len_enc : forall k iv p, length (cbc_enc k iv p) = length p.
  Hypothesis cbc_len_dec : forall k iv c, length (cbc_dec k iv c) = length c.
  Hypothesis cbc_dec_enc : forall k iv p, cbc_dec k iv (cbc_enc k iv p) = p.
  Hypothesis gcm_open_seal : forall k n p, gcm_open k n (gcm_seal k n p) = Some p.

  Let wrap := fun (c : Cert) (k rho : list N) => P7SM2Model.sm2_wrap fuel mode (cert_d c) k rho.
  Let unwrap := fun (d : Z) (e : list N) => P7SM2Model.sm2_unwrap mode d e.
  Let EncryptSM2 := PKCS7Encrypt Cert cert_serial cert_rawIssuer (list N) wrap cbc_enc gcm_seal.
  Let DecryptSM2 := Decrypt Cert cert_serial cert_rawIssuer Z unwrap cbc_dec gcm_open key_ok.
  Let ident := ident Cert cert_serial cert_rawIssuer.

  Theorem C17_envelope_roundtrip_sm2 :
    forall alg content rs key iv rnd env c,
      key_ok alg key = true -> length iv = (match alg with DESCBC => 8 | AES128GCM => 12 end) ->
      EncryptSM2 alg content rs key iv rnd = Ok env -> In c rs -> NoDup (map ident rs) ->
      DecryptSM2 env c (cert_d c) = Ok content.
  Proof.
    intros alg content rs key iv rnd env c.
    refine (envelope_roundtrip Cert cert_serial cert_rawIssuer (fun _ x => x) (fun _ => None) (fun _ _ _ _ => true)
             Z (list N) wrap unwrap cbc_enc cbc_dec gcm_seal gcm_open key_ok cert_d
             _ cbc_len_enc cbc_len_dec cbc_dec_enc gcm_open_seal alg content rs key iv rnd env c).
    intros c0 k r e. unfold wrap, unwrap. apply P7SM2Proofs.sm2_unwrap_wrap.
  Qed.
End C17_Envelope_SM2.
Print Assumptions C17_envelope_roundtrip_sm2.

(* non-vacuity of the SM2 key transport: sm2_wrap returns a wrapped key that the SM2 decryption opens (key d = 1,
   fuel 2, ordering C1C3C2).  The SM2 computation behind it is C02's evaluated example, cited by name; nothing of the
   curve arithmetic is evaluated here. *)
Example C17_envelope_sm2_example :
  exists e, P7SM2Model.sm2_wrap 2 0 1 [7; 8; 9]%N (repeat 0%N 39 ++ [1%N]) = Ok e /\
            SM2Model.Decrypt (SM2Model.key_of 1) e 0 = Ok [7; 8; 9]%N.
Proof.
  pose proof C02.C02_roundtrip_example as X. cbv zeta in X. destruct X as [X _].
  destruct (X 0%Z (or_introl eq_refl)) as (c & E & _ & D & _).
  exists c. split; [|exact D].
  unfold P7SM2Model.sm2_wrap.
  assert (G : ((1 <=? 1)%Z && (1 <? SM2Curve.sm2_n)%Z && Nat.ltb (length (repeat 0%N 39 ++ [1%N]) / 40) 2)%bool = true)
    by (vm_compute; reflexivity).
  rewrite G, E. reflexivity.
Qed.

(* ================= 2. signed data ============================================================ *)
Section C17_Signed.
  Variable Cert : Type.
  Variable cert_serial : Cert -> Z.
  Variable cert_rawIssuer : Cert -> list N.
  Variable hash_sum : string -> list N -> list N.
  Variable parse_octets : list N -> option (list N).
  Variable marshalAttributes : list attribute -> outcome (list N).
  Variable check_signature : Cert -> string -> list N -> list N -> bool.

  (* Verify accepts exactly when there is a signer and, for every signer: the digest algorithm is in the
     table; if signed attributes are present the message-digest attribute equals the hash of the content and
     the signature is checked over the DER SET OF attributes, otherwise over the content; the signer's
     certificate is found by issuer and serial; the (hash, signature OID) pair is in the table *)
  Theorem C17_signed_verify_iff :
    forall p7,
      Verify Cert cert_serial cert_rawIssuer hash_sum parse_octets marshalAttributes check_signature p7 = Ok tt <->
      p7_signers Cert p7 <> [] /\
      Forall (signer_accepted Cert cert_serial cert_rawIssuer hash_sum parse_octets marshalAttributes check_signature p7)
             (p7_signers Cert p7).
  Proof.
    exact (signed_verify_iff Cert cert_serial cert_rawIssuer hash_sum parse_octets marshalAttributes check_signature).
  Qed.

  (* Verify has no memory: its verdict is a function of the content PRESENT AT THE CALL (and the certificates and
     signer infos).  So when one parsed object is verified, its Content field changed, and verified again, the second
     call accepts only if, for every signer with signed attributes, the digest of the content present at the second
     call equals the digest of the content of the first call (both equal the signed messageDigest attribute) - a
     collision, or the same content.  (Round 6: a digest remembered from an earlier call breaks exactly this; the driver
     replays call histories on one parsed object against the verdict of a single call, class VER hist=.) *)
  Theorem C17_verify_again_other_content :
    forall content1 content2 certs signers,
      Verify Cert cert_serial cert_rawIssuer hash_sum parse_octets marshalAttributes check_signature
             (mkP7 Cert content1 certs signers) = Ok tt ->
      Verify Cert cert_serial cert_rawIssuer hash_sum parse_octets marshalAttributes check_signature
             (mkP7 Cert content2 certs signers) = Ok tt ->
      forall s, In s signers ->
        exists h, getHashForOID (si_digestAlg s) = Ok h /\
                  (si_attrs s <> [] ->
                   unmarshalAttribute parse_octets (si_attrs s) gen_oid_AttributeMessageDigest = Ok (hash_sum h content2) /\
                   hash_sum h content2 = hash_sum h content1).
  Proof.
    intros c1 c2 certs signers V1 V2 s Hin.
    apply C17_signed_verify_iff in V1. apply C17_signed_verify_iff in V2.
    destruct V1 as [_ F1]. destruct V2 as [_ F2]. cbn [p7_signers] in F1, F2.
    rewrite Forall_forall in F1, F2. specialize (F1 s Hin). specialize (F2 s Hin).
    destruct F1 as (h1 & H1 & sg1 & A1 & _). destruct F2 as (h2 & H2 & sg2 & A2 & _).
    rewrite H1 in H2. injection H2 as <-.
    exists h1. split; [exact H1|]. intros Hne.
    destruct (si_attrs s) as [|a r]; [contradiction Hne; reflexivity|].
    destruct A1 as (d1 & U1 & D1 & _). destruct A2 as (d2 & U2 & D2 & _).
    cbn [p7_content] in D1, D2. subst d1 d2.
    split; [exact U2|]. rewrite U1 in U2. injection U2 as E. symmetry. exact E.
  Qed.
End C17_Signed.
Print Assumptions C17_signed_verify_iff.
Print Assumptions C17_verify_again_other_content.

(* non-vacuity: a history of three calls on the same certificates and signer infos - the signed content verifies, a
   content with another digest then does not (Err 13: messageDigest mismatch), the signed content then verifies again *)
Example C17_verify_again_example :
  let signers := [mkSigner (mkIAS [9]%N 6) gen_oid_SM3 [mkAttr gen_oid_AttributeMessageDigest [77;1;2;3]%N] gen_oid_SM3withSM2 [1;1]%N] in
  let V := Verify Z (fun c => c) (fun _ => [9]%N) (fun _ d => 77%N :: d) (fun v => Some v)
             (fun attrs => Ok (List.concat (map at_value attrs))) (fun c alg signed sig => (c =? 6)%Z) in
  map (fun content => V (mkP7 Z content [5;6]%Z signers)) [[1;2;3]%N; [1;2;4]%N; [1;2;3]%N; []] = [Ok tt; Err 13; Ok tt; Err 13].
Proof. vm_compute. reflexivity. Qed.

(* the algorithm tables as the source has them now: both SM3 OIDs select SM3 (defect D27, repaired) *)
Theorem C17_hash_table :
  getHashForOID gen_oid_SM3 = Ok "SM3"%string /\ getHashForOID gen_oid_HashSM3 = Ok "SM3"%string /\
  getHashForOID gen_oid_SHA256 = Ok "SHA256"%string /\ getHashForOID gen_oid_DigestAlgorithmSHA1 = Ok "SHA1"%string.
Proof. exact hash_table_sm3. Qed.
Print Assumptions C17_hash_table.

(* ... and the SM2 signature algorithms Verify knows (what it knows for RSA signers is exercised by the
   driver: class S rsa-lib of checks/c17.py) *)
Theorem C17_sigalg_table :
  getSignatureAlgorithmByHash "SM3" gen_oid_SM3withSM2 = Some "SM2WithSM3"%string /\
  getSignatureAlgorithmByHash "SHA256" gen_oid_DSASM2 = Some "SM2WithSHA256"%string.
Proof. exact sigalg_table_sm2. Qed.
Print Assumptions C17_sigalg_table.

Example C17_signed_example :
  let p7 := mkP7 Z [1;2;3]%N [5;6]%Z
              [mkSigner (mkIAS [9]%N 6) gen_oid_SM3 [mkAttr gen_oid_AttributeMessageDigest [77;1;2;3]%N] gen_oid_SM3withSM2 [1;1]%N] in
  let V := Verify Z (fun c => c) (fun _ => [9]%N) (fun _ d => 77%N :: d) (fun v => Some v)
             (fun attrs => Ok (List.concat (map at_value attrs))) in
  V (fun c alg signed sig => (c =? 6)%Z && Nat.eqb (length signed) 4) p7 = Ok tt /\
  V (fun c alg signed sig => false) p7 = Err 16 /\
  V (fun c alg signed sig => true) (mkP7 Z [1;2;4]%N [5;6]%Z (p7_signers Z p7)) = Err 13 /\
  V (fun c alg signed sig => true) (mkP7 Z [1;2;3]%N [5]%Z (p7_signers Z p7)) = Err 14 /\
  V (fun c alg signed sig => true) (mkP7 Z [1;2;3]%N [5;6]%Z []) = Err 17.
Proof. vm_compute. repeat split; reflexivity. Qed.

(* ================= 2b. the signing side: what AddSigner builds, Verify accepts ==================== *)
(* P7/P7SignModel.v follows NewSignedData, attributes.ForMarshaling (sorted by encoding), AddSigner, signAttributes
   and Finish + Parse at the level of the decoded structures; the digest OID, signature OID and content hash AddSigner
   picks are read from the source (Gen/PKCS7Tables.v).  Relative to: the signature scheme is correct for the key that
   belongs to the certificate (sign_correct: the statement of C01 for SM2, of PKCS#1 v1.5 for RSA), the OCTET STRING
   codec inverts, and the DER codec of the whole structure gives content, certificates and signer infos back
   (finish_parse; checked end to end by the driver classes S, VER and SGN). *)
Section C17_Signing.
  Variable Cert : Type.
  Variable cert_serial : Cert -> Z.
  Variable cert_rawIssuer : Cert -> list N.
  Variable hash_sum : string -> list N -> list N.
  Variable parse_octets : list N -> option (list N).
  Variable marshalAttributes : list attribute -> outcome (list N).
  Variable check_signature : Cert -> string -> list N -> list N -> bool.
  Variable marshal_octets marshal_oid : list N -> list N.
  Variable enc_attr : attribute -> list N.
  Variables SK Rnd : Type.
  Variable key_kind : SK -> keyKind.
  Variable sign : SK -> list N -> Rnd -> outcome (list N).
  Variable holds : Cert -> SK -> Prop.                    (* sk is the private key of the certificate's public key *)
  Hypothesis sign_correct : forall c sk m r s,
    holds c sk -> sign sk m r = Ok s -> check_signature c (algo_of (key_kind sk)) m s = true.
  Hypothesis octets_codec : forall d, parse_octets (marshal_octets d) = Some d.

  Let add_signers := add_signers Cert cert_serial cert_rawIssuer hash_sum marshalAttributes marshal_octets marshal_oid enc_attr SK Rnd key_kind sign.
  Let Verify := Verify Cert cert_serial cert_rawIssuer hash_sum parse_octets marshalAttributes check_signature.
  Let ident := ident Cert cert_serial cert_rawIssuer.

  (* every content, one or more signers (SM2 or RSA keys, any extra signed attributes that do not claim to be the
     message digest, any signing time, any randomness) with distinct certificates, each signing with the key of its
     certificate: if AddSigner succeeds for all, the result verifies *)
  Theorem C17_sign_then_verify :
    forall data l sd,
      add_signers (NewSignedData Cert data) l = Ok sd -> l <> [] ->
      Forall (fun sp => extra_ok Cert SK Rnd sp /\ holds (sp_cert Cert SK Rnd sp) (sp_key Cert SK Rnd sp)) l ->
      NoDup (map ident (map (sp_cert Cert SK Rnd) l)) ->
      Verify (finish_parse Cert sd) = Ok tt.
  Proof.
    exact (sign_then_verify Cert cert_serial cert_rawIssuer hash_sum parse_octets marshalAttributes check_signature
             marshal_octets marshal_oid enc_attr SK Rnd key_kind sign holds sign_correct octets_codec).
  Qed.

  (* the same certificates and signer infos around ANOTHER content verify only if, for every signer, the digest of
     the other content equals the digest of the signed one (a collision of SHA-1 / SM3, or the same content) *)
  Theorem C17_tampered_content_rejected :
    forall data l sd content',
      add_signers (NewSignedData Cert data) l = Ok sd ->
      Forall (fun sp => extra_ok Cert SK Rnd sp) l ->
      Verify (mkP7 Cert content' (b_certs Cert sd) (b_signers Cert sd)) = Ok tt ->
      forall sp, In sp l ->
        hash_sum (spec_hash Cert SK Rnd key_kind sp) content' = hash_sum (spec_hash Cert SK Rnd key_kind sp) data.
  Proof.
    exact (tampered_content_rejected Cert cert_serial cert_rawIssuer hash_sum parse_octets marshalAttributes check_signature
             marshal_octets marshal_oid enc_attr SK Rnd key_kind sign octets_codec).
  Qed.
End C17_Signing.
Print Assumptions C17_sign_then_verify.
Print Assumptions C17_tampered_content_rejected.

(* SM2 signers: the signature premise is C01's theorem (PublicKey.Verify accepts what PrivateKey.Sign returns, SM2
   facts proved), cited by name; private keys are scalars d with 1 <= d <= n-2, a certificate carries [cert_d]G *)
Section C17_Signing_SM2.
  Variable Cert : Type.
  Variable cert_serial : Cert -> Z.
  Variable cert_rawIssuer : Cert -> list N.
  Variable cert_d : Cert -> Z.
  Variable fuel : nat.
  Variable hash_sum : string -> list N -> list N.
  Variable parse_octets : list N -> option (list N).
  Variable marshalAttributes : list attribute -> outcome (list N).
  Variable marshal_octets marshal_oid : list N -> list N.
  Variable enc_attr : attribute -> list N.
  Hypothesis octets_codec : forall d, parse_octets (marshal_octets d) = Some d.

  Let add_signers := add_signers Cert cert_serial cert_rawIssuer hash_sum marshalAttributes marshal_octets marshal_oid enc_attr
                       Z (list N) (fun _ => KeySM2) (P7SM2Model.sm2_p7_sign fuel).
  Let Verify := Verify Cert cert_serial cert_rawIssuer hash_sum parse_octets marshalAttributes (P7SM2Model.sm2_p7_check cert_d).
  Let ident := ident Cert cert_serial cert_rawIssuer.

  Theorem C17_sign_then_verify_sm2 :
    forall data l sd,
      add_signers (NewSignedData Cert data) l = Ok sd -> l <> [] ->
      Forall (fun sp => extra_ok Cert Z (list N) sp /\
                        sp_key Cert Z (list N) sp = cert_d (sp_cert Cert Z (list N) sp) /\
                        (1 <= sp_key Cert Z (list N) sp <= SM2Curve.sm2_n - 2)%Z) l ->
      NoDup (map ident (map (sp_cert Cert Z (list N)) l)) ->
      Verify (finish_parse Cert sd) = Ok tt.
  Proof.
    intros data l sd E Hne Hall Hnd.
    refine (sign_then_verify Cert cert_serial cert_rawIssuer hash_sum parse_octets marshalAttributes (P7SM2Model.sm2_p7_check cert_d)
              marshal_octets marshal_oid enc_attr Z (list N) (fun _ => KeySM2) (P7SM2Model.sm2_p7_sign fuel)
              (fun c d => d = cert_d c /\ (1 <= d <= SM2Curve.sm2_n - 2)%Z) _ octets_codec data l sd E Hne Hall Hnd).
    intros c d m r s [Hd Hr] Hs.
    exact (P7SM2Proofs.sm2_p7_sign_correct Cert cert_d fuel c d m r s _ Hd Hr Hs).
  Qed.
End C17_Signing_SM2.
Print Assumptions C17_sign_then_verify_sm2.

(* non-vacuity, toy scheme (signature = key byte :: message, certificates and keys are numbers): two signers, one with
   an RSA-like and one with an SM2-like key; AddSigner succeeds, the result verifies, another content is rejected,
   a signer holding another key is rejected *)
Example C17_signing_example :
  let key_kind := fun (sk : Z) => if (sk <? 100)%Z then KeySM2 else KeyRSA in
  let sign := fun (sk : Z) (m : list N) (_ : unit) => Ok (Z.to_N sk :: m) in
  let check := fun (c : Z) (_ : string) (m sig : list N) => bytes_eqb sig (Z.to_N c :: m) in
  let hash := fun (h : string) (d : list N) => [N.of_nat (String.length h); N.of_nat (List.length d); hd 0%N d] in
  let marshalAttrs := fun (l : list attribute) => Ok (List.concat (map (fun a => at_type a ++ at_value a) l)) in
  let mo := fun d : list N => 4%N :: d in
  let po := fun d : list N => match d with 4%N :: r => Some r | _ => None end in
  let add := add_signers Z (fun c => c) (fun _ => [7%N]) hash marshalAttrs mo (fun o => o) (fun a => at_type a ++ at_value a) Z unit key_kind sign in
  let ver := P7Model.Verify Z (fun c => c) (fun _ => [7%N]) hash po marshalAttrs check in
  let specs := fun k2 => [mkSpec Z Z unit 5%Z 5%Z [] [1%N] tt; mkSpec Z Z unit 200%Z k2 [mkAttr [9%N] [9%N]] [2%N] tt] in
  (do sd <- add (NewSignedData Z [1; 2; 3]%N) (specs 200%Z); ver (finish_parse Z sd)) = Ok tt /\
  (do sd <- add (NewSignedData Z [1; 2; 3]%N) (specs 200%Z); ver (mkP7 Z [1; 2; 4; 4]%N (b_certs Z sd) (b_signers Z sd))) = Err 13 /\
  (do sd <- add (NewSignedData Z [1; 2; 3]%N) (specs 201%Z); ver (finish_parse Z sd)) = Err 16 /\
  (do sd <- add (NewSignedData Z [1; 2; 3]%N) (specs 200%Z);
   Ok (map (fun s => (si_digestAlg s, si_digestEncAlg s, map at_type (si_attrs s))) (b_signers Z sd)))
  = Ok [(gen_oid_HashSM3, gen_oid_SM3withSM2, [gen_oid_AttributeContentType; gen_oid_AttributeMessageDigest; gen_oid_AttributeSigningTime]);
        (gen_oid_DigestAlgorithmSHA1, gen_oid_SignatureSHA1WithRSA, [gen_oid_AttributeContentType; gen_oid_AttributeMessageDigest; gen_oid_AttributeSigningTime; [9%N]])].
Proof. vm_compute. repeat split; reflexivity. Qed.

(* ================= 3. content padding ======================================================== *)
Theorem C17_unpad_total : forall data bl, no_crash (unpad data bl).
Proof. exact unpad_total. Qed.
Print Assumptions C17_unpad_total.

Theorem C17_unpad_pad : forall m bl, 1 <= bl <= 255 -> (do p <- pad m bl; unpad p bl) = Ok m.
Proof. exact unpad_pad. Qed.
Print Assumptions C17_unpad_pad.

Theorem C17_unpad_accepts_iff_valid :
  forall data bl m, 1 <= bl <= 255 -> (unpad data bl = Ok m <-> p7_padded bl data m).
Proof. intros data bl m H. split; [apply unpad_sound; exact H|apply unpad_complete; exact H]. Qed.
Print Assumptions C17_unpad_accepts_iff_valid.

(* ================= 4. PKCS#12: the MAC gate ================================================== *)
(* decoding gets past getSafeContents only if HMAC-SHA1 under the key derived from the password (or from
   the empty password when the given one is the BMP encoding of "") over the RECEIVED authenticated safe
   equals the received MAC value; everything Decode returns is computed from those bytes by [rest] *)
Theorem C17_p12_mac_gate :
  forall (kdf_mac : list N -> list N -> Z -> list N) (hmac_sha1 : list N -> list N -> list N)
         (R : Type) (rest : list N -> list N -> outcome R) pfx pw r,
    getSafeContents kdf_mac hmac_sha1 rest pfx pw = Ok r ->
    exists content pw',
      pfx_authSafeContent pfx = Some content /\ (pw' = pw \/ (pw = [0; 0]%N /\ pw' = [])) /\
      md_digest (pfx_mac pfx) = hmac_sha1 (kdf_mac (md_salt (pfx_mac pfx)) pw' (md_iterations (pfx_mac pfx))) content /\
      rest content pw' = Ok r.
Proof. intros kdf_mac hmac_sha1 R rest. exact (p12_mac_gate kdf_mac hmac_sha1 rest). Qed.
Print Assumptions C17_p12_mac_gate.

Example C17_p12_mac_example :
  let kdf := fun salt pw (it : Z) => salt ++ pw in
  let hm := fun key msg => key ++ msg in
  let pfx d := mkPfx 3 true (Some [5;5]%N) (mkMac true true d [1]%N 1) in
  getSafeContents kdf hm (fun c p => Ok (c, p)) (pfx [1;8;5;5]%N) [8]%N = Ok ([5;5]%N, [8]%N) /\
  getSafeContents kdf hm (fun c p => Ok (c, p)) (pfx [1;8;5;5]%N) [9]%N = Err 2 /\
  getSafeContents kdf hm (fun c p => Ok (c, p)) (pfx [1;5;5]%N) [0;0]%N = Ok ([5;5]%N, []) /\
  getSafeContents kdf hm (fun c p => Ok (c, p)) (pfx [1;8;5;6]%N) [8]%N = Err 2.
Proof. vm_compute. repeat split; reflexivity. Qed.

(* ================= 5. PKCS#12: key derivation, password encoding, RC2 ======================== *)
(* the model of pkcs12/pbkdf.go equals the key derivation of RFC 7292 Appendix B.2 (P12/PbkdfSpec.v, written
   from the RFC) for every hash with 20-byte output (the Go code hard-codes 20 where the RFC says u), every
   block length v > 0, salt, password, iteration count r >= 1, ID byte and output size *)
Theorem C17_pbkdf_model_is_spec :
  forall (H : list N -> list N) (v : nat),
    (0 < v)%nat -> (forall x, length (H x) = 20%nat) ->
    forall salt password r ID size, (1 <= r)%nat ->
      pbkdf_model H 20 v salt password (Z.of_nat r) ID size = Ok (pbkdf_spec H 20 v salt password r ID size).
Proof. exact pbkdf_model_is_spec. Qed.
Print Assumptions C17_pbkdf_model_is_spec.

(* an iteration count r <= 0 (the field is a signed INTEGER of the input) is not rejected: it derives the key of r = 1 *)
Theorem C17_pbkdf_nonpositive_iterations :
  forall H u v salt password r ID size, (r <= 0)%Z ->
    pbkdf_model H u v salt password r ID size = pbkdf_model H u v salt password 1 ID size.
Proof. exact pbkdf_nonpositive_r. Qed.
Print Assumptions C17_pbkdf_nonpositive_iterations.

(* passwords: whatever bmpString accepts of a Go string (runes as "range s" yields them: no surrogates) is
   decoded back to the same string; it rejects exactly the strings with a rune outside the BMP *)
Theorem C17_bmpString_roundtrip :
  forall s b, Forall go_rune s -> bmpString s = Ok b -> decodeBMPString b = Ok s.
Proof. exact bmpString_roundtrip. Qed.
Print Assumptions C17_bmpString_roundtrip.

Theorem C17_bmpString_rejects_iff :
  forall s, Forall go_rune s -> (bmpString s = Err 1 <-> Exists (fun r => (surrSelf <= r)%N) s).
Proof. exact bmpString_rejects_iff. Qed.
Print Assumptions C17_bmpString_rejects_iff.

(* RC2 (pkcs12/rc2.go, piTable from the source): decryption inverts encryption and vice versa, for every
   expanded key (any list of words: missing words read as 0, words are reduced mod 2^16) and every block *)
Theorem C17_rc2_decrypt_encrypt :
  forall (k : list N) (blk : list N),
    length blk = 8%nat -> Forall (fun b => (b < 256)%N) blk ->
    obind (rc2_encrypt k blk) (rc2_decrypt k) = Ok blk.
Proof. exact rc2_decrypt_encrypt. Qed.
Print Assumptions C17_rc2_decrypt_encrypt.

Theorem C17_rc2_encrypt_decrypt :
  forall (k : list N) (blk : list N),
    length blk = 8%nat -> Forall (fun b => (b < 256)%N) blk ->
    obind (rc2_decrypt k blk) (rc2_encrypt k) = Ok blk.
Proof. exact rc2_encrypt_decrypt. Qed.
Print Assumptions C17_rc2_encrypt_decrypt.

(* validation of the models against published vectors / concrete instances *)
Example C17_p12_examples :
  rc2_enc_kat (repeat 0%N 8) 63 (repeat 0%N 8) = Ok [0xeb; 0xb7; 0x73; 0xf9; 0x93; 0x27; 0x8e; 0xff]%N /\
  rc2_enc_kat [0x88; 0xbc; 0xa9; 0x0e; 0x90; 0x87; 0x5a]%N 64 (repeat 0%N 8) = Ok [0x6c; 0xcf; 0x43; 0x08; 0x97; 0x4c; 0x26; 0x7f]%N /\
  rc2_dec_kat (repeat 0%N 8) 63 [0xeb; 0xb7; 0x73; 0xf9; 0x93; 0x27; 0x8e; 0xff]%N = Ok (repeat 0%N 8) /\
  bmpString [0x4e2d; 0x6587; 0x41]%N = Ok [0x4e; 0x2d; 0x65; 0x87; 0; 0x41; 0; 0]%N /\
  decodeBMPString [0x4e; 0x2d; 0x65; 0x87; 0; 0x41; 0; 0]%N = Ok [0x4e2d; 0x6587; 0x41]%N /\
  bmpString [0x41; 0x1F511]%N = Err 1.
Proof. vm_compute. repeat split; reflexivity. Qed.

(* ================= 6. PKCS#12: the whole container ============================================ *)
(* Encode / Decode / DecodeAll at the level of safe bags (P12/ContainerModel.v): certificate bags encrypted
   with PBE-SHA1-RC2-40 (the RC2 model of section 5, CBC and padding modelled concretely), the key bag
   with PBE-SHA1-3DES (3DES abstract: a block cipher whose Decrypt inverts Encrypt), keys and IVs from
   the model of pbkdf.go (proved equal to RFC 7292 B.2), MAC over the authenticated safe.  SHA-1 is any
   function with 20 output bytes; encoding/asn1 is a codec per structure (unmarshal after marshal is the
   identity); HMAC-SHA1 is any function. *)
Section C17_P12_Container.
  Variable H : list N -> list N.
  Hypothesis H_len : forall x, length (H x) = 20.
  Hypothesis H_bytes : forall x, bytes_ok (H x).
  Variable des_enc des_dec : list N -> list N -> list N.
  Hypothesis des_ok : forall key x, length x = 8 -> bytes_ok x ->
    length (des_enc key x) = 8 /\ bytes_ok (des_enc key x) /\ des_dec key (des_enc key x) = x.
  Variable hmac_sha1 : list N -> list N -> list N.
  Variables Key Cert : Type.
  Variable cert_raw : Cert -> list N.
  Variable parse_certs : list N -> outcome (list Cert).
  Variable ser_key : Key -> outcome (list N).
  Variable de_key : list N -> outcome Key.
  Variable ser_blob : pbeBlob -> list N.
  Variable de_blob : list N -> outcome pbeBlob.
  Variable ser_certbag : list N -> list N.
  Variable de_certbag : list N -> outcome (list N).
  Variable ser_bags : list safeBag -> list N.
  Variable de_bags : list N -> outcome (list safeBag).
  Variable ser_authsafe : list safeCI -> list N.
  Variable de_authsafe : list N -> outcome (list safeCI).
  Hypothesis key_codec : forall k b, ser_key k = Ok b -> de_key b = Ok k /\ bytes_ok b.
  Hypothesis blob_codec : forall e, de_blob (ser_blob e) = Ok e.
  Hypothesis certbag_codec : forall b, de_certbag (ser_certbag b) = Ok b.
  Hypothesis bags_codec : forall l, de_bags (ser_bags l) = Ok l /\ bytes_ok (ser_bags l).
  Hypothesis authsafe_codec : forall l, de_authsafe (ser_authsafe l) = Ok l.
  Hypothesis certs_parse : forall c, parse_certs (cert_raw c) = Ok [c].

  Let kdf := kdf_inst H.
  Let create := create_inst des_enc des_dec.
  Let Encode := Encode kdf create hmac_sha1 Key Cert cert_raw ser_key ser_blob ser_certbag ser_bags ser_authsafe.
  Let DecodeAll := DecodeAll kdf create hmac_sha1 Key Cert parse_certs de_key de_blob de_certbag de_bags de_authsafe.
  Let Decode := ContainerModel.Decode kdf create hmac_sha1 Key Cert parse_certs de_key de_blob de_certbag de_bags de_authsafe.

  (* every key, certificate, list of CA certificates, BMP-encoded password and salts the encoder accepts:
     DecodeAll with the same password returns the key and all certificates, in order *)
  Theorem C17_p12_roundtrip :
    forall k certificate caCerts pw s1 s2 s3 pfx, bytes_ok pw ->
      Encode k certificate caCerts pw s1 s2 s3 = Ok pfx ->
      DecodeAll pfx pw = Ok (k, certificate :: caCerts).
  Proof.
    intros; unfold DecodeAll, Encode in *; eapply p12_roundtrip_all;
      try eassumption; first [unfold kdf; apply kdf_inst_ok; assumption | unfold create; apply create_inst_ok; assumption].
  Qed.

  (* Decode (one certificate) returns the key and the certificate of a bundle without CA certificates ... *)
  Theorem C17_p12_roundtrip_decode :
    forall k certificate pw s1 s2 s3 pfx, bytes_ok pw ->
      Encode k certificate [] pw s1 s2 s3 = Ok pfx -> Decode pfx pw = Ok (k, certificate).
  Proof.
    intros; unfold Decode, Encode in *; eapply p12_roundtrip_one;
      try eassumption; first [unfold kdf; apply kdf_inst_ok; assumption | unfold create; apply create_inst_ok; assumption].
  Qed.

  (* ... and refuses a bundle with CA certificates instead of answering with another certificate as the leaf
     (the rule repaired in 03f783d) *)
  Theorem C17_p12_decode_refuses_extra_certificates :
    forall k certificate ca caCerts pw s1 s2 s3 pfx, bytes_ok pw ->
      Encode k certificate (ca :: caCerts) pw s1 s2 s3 = Ok pfx -> Decode pfx pw = Err 40.
  Proof.
    intros; unfold Decode, Encode in *; eapply p12_decode_refuses_extra_certificates;
      try eassumption; first [unfold kdf; apply kdf_inst_ok; assumption | unfold create; apply create_inst_ok; assumption].
  Qed.

  (* unit test of the model, not a property theorem (it holds by evaluation of bag_loop): a second key bag is an
     error in Decode and DecodeAll, a second certificate bag in Decode, whatever the bags hold *)
  Example C17_p12_exactly_one_bag_unit_test :
    forall one v rest pw k0 key c acc,
      bag_loop kdf create Key Cert parse_certs de_key de_blob de_certbag one (mkBag BagKey v :: rest) pw (Some k0) acc = Err 42 /\
      bag_loop kdf create Key Cert parse_certs de_key de_blob de_certbag true (mkBag BagCert v :: rest) pw key (c :: acc) = Err 40.
  Proof. intros. split; reflexivity. Qed.

  (* no substitution: what DecodeAll returns is computed from the received authenticated safe, which carries a
     matching MAC under the key derived from the given password *)
  Theorem C17_p12_no_substitution :
    forall pfx pw k certs, DecodeAll pfx pw = Ok (k, certs) ->
      exists content pw' bags,
        pfx_authSafeContent pfx = Some content /\ (pw' = pw \/ (pw = [0; 0]%N /\ pw' = [])) /\
        md_digest (pfx_mac pfx) = hmac_sha1 (kdf_mac kdf (md_salt (pfx_mac pfx)) pw' (md_iterations (pfx_mac pfx))) content /\
        after_mac kdf create de_bags de_authsafe content pw' = Ok (bags, pw') /\
        (do res <- bag_loop kdf create Key Cert parse_certs de_key de_blob de_certbag false bags pw' None [];
         finish Key Cert res) = Ok (k, certs).
  Proof.
    exact (p12_no_substitution kdf create hmac_sha1 Key Cert parse_certs de_key de_blob de_certbag de_bags de_authsafe).
  Qed.

  (* another password opens the bundle only if HMAC under its derived key collides with the genuine MAC *)
  Theorem C17_p12_wrong_password :
    forall k certificate caCerts pw s1 s2 s3 pfx pw2 r,
      Encode k certificate caCerts pw s1 s2 s3 = Ok pfx -> DecodeAll pfx pw2 = Ok r ->
      exists content pw2', pfx_authSafeContent pfx = Some content /\ (pw2' = pw2 \/ (pw2 = [0; 0]%N /\ pw2' = [])) /\
        hmac_sha1 (kdf_mac kdf s3 pw 1) content = hmac_sha1 (kdf_mac kdf s3 pw2' 1) content.
  Proof.
    intros; unfold DecodeAll, Encode in *; eapply p12_wrong_password;
      try eassumption; first [unfold kdf; apply kdf_inst_ok; assumption | unfold create; apply create_inst_ok; assumption].
  Qed.
End C17_P12_Container.
Print Assumptions C17_p12_roundtrip.
Print Assumptions C17_p12_roundtrip_decode.
Print Assumptions C17_p12_decode_refuses_extra_certificates.
Print Assumptions C17_p12_no_substitution.
Print Assumptions C17_p12_wrong_password.

(* the hypotheses of the section hold together, and Encode = Ok happens: the section instantiated with the toy
   hash, block function, HMAC, keys, certificates and codecs of P12/ContainerToy.v (every hypothesis is proved for them in
   P12/ContainerToyProofs.v, the codecs for every structure), the KDF and RC2 being the real models.  Encode of a key, a
   certificate and a CA certificate returns a container (toy_encode_ok: evaluated once, 2048 iterations, in that file);
   the theorems above, applied to it, say what DecodeAll and Decode do.  Nothing is evaluated here. *)
Example C17_p12_hypotheses_hold_together :
  exists pfx,
    Encode (kdf_inst toy_H) (create_inst toy_des toy_des) toy_hmac bool (list N) toy_cert_raw toy_ser_key
           toy_ser_blob toy_certbag toy_ser_bags toy_ser_authsafe
           true [1; 2]%N [[3]%N] [0; 112; 0; 0]%N [1;2;3;4;5;6;7;8]%N [8;7;6;5;4;3;2;1]%N [9;9;9;9;9;9;9;9]%N = Ok pfx /\
    DecodeAll (kdf_inst toy_H) (create_inst toy_des toy_des) toy_hmac bool (list N) toy_parse_certs toy_de_key
              toy_de_blob toy_de_certbag toy_de_bags toy_de_authsafe pfx [0; 112; 0; 0]%N = Ok (true, [1; 2]%N :: [[3]%N]) /\
    ContainerModel.Decode (kdf_inst toy_H) (create_inst toy_des toy_des) toy_hmac bool (list N) toy_parse_certs toy_de_key
              toy_de_blob toy_de_certbag toy_de_bags toy_de_authsafe pfx [0; 112; 0; 0]%N = Err 40.
Proof.
  destruct toy_encode_ok as [pfx E]. exists pfx.
  assert (Hpw : bytes_ok [0; 112; 0; 0]%N) by (repeat constructor).
  split; [exact E|]. split.
  - exact (C17_p12_roundtrip toy_H toy_H_len toy_H_bytes toy_des toy_des toy_des_ok toy_hmac bool (list N) toy_cert_raw
             toy_parse_certs toy_ser_key toy_de_key toy_ser_blob toy_de_blob toy_certbag toy_de_certbag toy_ser_bags toy_de_bags
             toy_ser_authsafe toy_de_authsafe toy_key_codec toy_blob_codec toy_certbag_codec toy_bags_codec toy_authsafe_codec
             toy_certs_parse true [1;2]%N [[3]%N] [0; 112; 0; 0]%N [1;2;3;4;5;6;7;8]%N [8;7;6;5;4;3;2;1]%N [9;9;9;9;9;9;9;9]%N pfx Hpw E).
  - exact (C17_p12_decode_refuses_extra_certificates toy_H toy_H_len toy_H_bytes toy_des toy_des toy_des_ok toy_hmac bool (list N) toy_cert_raw
             toy_parse_certs toy_ser_key toy_de_key toy_ser_blob toy_de_blob toy_certbag toy_de_certbag toy_ser_bags toy_de_bags
             toy_ser_authsafe toy_de_authsafe toy_key_codec toy_blob_codec toy_certbag_codec toy_bags_codec toy_authsafe_codec
             toy_certs_parse true [1;2]%N [3]%N [] [0; 112; 0; 0]%N [1;2;3;4;5;6;7;8]%N [8;7;6;5;4;3;2;1]%N [9;9;9;9;9;9;9;9]%N pfx Hpw E).
Qed.

(* non-vacuity: the password-based encryption with the real RC2 model, the model of pbkdf.go over a toy
   20-byte hash, CBC and padding, evaluated (5-byte key, 8-byte IV, 3 iterations each) *)
Example C17_p12_pbe_example :
  let kdf := kdf_inst (toy_hash 20) in
  let create := create_inst (fun k b => b) (fun k b => b) in
  (do e <- pbEncrypt kdf create (mkBlob PBERC2 [1;2;3;4;5;6;7;8]%N 3 []) [10;20;30;40;50;60;70;80;90]%N [0;112;0;119;0;0]%N;
   pbDecrypt kdf create e [0;112;0;119;0;0]%N) = Ok [10;20;30;40;50;60;70;80;90]%N /\
  (do e <- pbEncrypt kdf create (mkBlob PBERC2 [1;2;3;4;5;6;7;8]%N 3 []) [10;20;30;40;50;60;70;80;90]%N [0;112;0;119;0;0]%N;
   Ok (length (pb_data e))) = Ok 16.
Proof. vm_compute. split; reflexivity. Qed.
