(* C19 - Streaming PKCS#7 padding is independent of how reads and writes are chunked.
   Property theorems only: each is closed by a lemma of Pad/PadProofs.v and followed by
   Print Assumptions.  Model: Pad/PadModel.v (follows /repo/sm4/padding function by function);
   specification: Pad/PadSpec.v. *)
From Coq Require Import List NArith Arith Lia.
From GmsmVerif Require Import Lib.Outcome Pad.PadModel Pad.PadSpec Pad.PadProofs.
Import ListNotations.

(* 1. The padding reader.  For every data, every block size 1..255, every source schedule (1-byte
   answers, short non-EOF answers, zero-byte answers, EOF together with the last data) and every
   list of caller buffer sizes >= 1: no panic, no hang (fuel |schedule|+2 suffices for each call);
   what is delivered is the first (sum of sizes) bytes of data ++ pad; io.EOF is reported exactly
   when a call starts with everything already delivered. *)
Theorem C19_reader_any_chunking :
  forall data bs sched bufs fuel,
    1 <= bs <= 255 -> Forall (fun L => 1 <= L) bufs -> fuel >= length sched + 2 ->
    run_reader fuel (new_reader (mkSrc data sched) bs) bufs =
      Ok (firstn (list_sum bufs) (pkcs7_pad bs data),
          eof_seen (length (pkcs7_pad bs data)) 0 bufs).
Proof.
  intros data bs sched bufs fuel Hbs HF Hfuel.
  exact (run_reader_spec data bs Hbs fuel bufs _ 0 (RInv_init data bs Hbs sched) HF Hfuel).
Qed.
Print Assumptions C19_reader_any_chunking.

(* ... so a caller that keeps reading gets exactly the source bytes followed by one valid pad, then EOF *)
Theorem C19_reader_output :
  forall data bs sched bufs fuel,
    1 <= bs <= 255 -> Forall (fun L => 1 <= L) bufs -> fuel >= length sched + 2 ->
    length (pkcs7_pad bs data) < length bufs ->
    run_reader fuel (new_reader (mkSrc data sched) bs) bufs = Ok (pkcs7_pad bs data, true).
Proof.
  intros data bs sched bufs fuel Hbs HF Hfuel Hlen.
  rewrite (C19_reader_any_chunking data bs sched bufs fuel Hbs HF Hfuel).
  pose proof (list_sum_ge_length bufs HF).
  rewrite firstn_all2 by lia.
  rewrite eof_seen_enough; [reflexivity|exact HF|lia|lia].
Qed.
Print Assumptions C19_reader_output.

(* ... and whenever EOF has been reported, everything had been delivered *)
Theorem C19_reader_eof_means_complete :
  forall data bs sched bufs fuel out,
    1 <= bs <= 255 -> Forall (fun L => 1 <= L) bufs -> fuel >= length sched + 2 ->
    run_reader fuel (new_reader (mkSrc data sched) bs) bufs = Ok (out, true) ->
    out = pkcs7_pad bs data.
Proof.
  intros data bs sched bufs fuel out Hbs HF Hfuel.
  rewrite (C19_reader_any_chunking data bs sched bufs fuel Hbs HF Hfuel).
  intros [= <- He]. apply eof_seen_all in He; [|lia].
  apply firstn_all2. lia.
Qed.
Print Assumptions C19_reader_eof_means_complete.

(* 2. The un-padding writer: the result depends only on the concatenation of the writes ... *)
Theorem C19_writer_chunking_independent :
  forall bs chunks, run_writer bs chunks = writer_spec bs (concat chunks).
Proof. exact run_writer_spec. Qed.
Print Assumptions C19_writer_chunking_independent.

(* ... Final succeeds exactly on streams that end in one valid pad, and then the sink holds the
   unpadded bytes; before Final the sink holds everything but the last block. *)
Theorem C19_writer_accepts_iff_valid_pad :
  forall bs chunks d, 1 <= bs ->
    (run_writer bs chunks = Ok d <-> valid_padded bs (concat chunks) d).
Proof.
  intros bs chunks d Hbs. rewrite run_writer_spec. split.
  - apply writer_spec_sound; exact Hbs.
  - apply writer_spec_complete; exact Hbs.
Qed.
Print Assumptions C19_writer_accepts_iff_valid_pad.

Theorem C19_writer_roundtrip :
  forall bs data chunks, 1 <= bs -> concat chunks = pkcs7_pad bs data -> run_writer bs chunks = Ok data.
Proof.
  intros bs data chunks Hbs Hc. rewrite run_writer_spec. rewrite Hc. apply writer_spec_pad; exact Hbs.
Qed.
Print Assumptions C19_writer_roundtrip.

Theorem C19_writer_never_panics :
  forall bs chunks, no_crash (run_writer bs chunks).
Proof.
  intros bs chunks. unfold run_writer, pwr_final.
  repeat match goal with |- context [if ?c then _ else _] => destruct c end; exact I.
Qed.
Print Assumptions C19_writer_never_panics.

(* non-vacuity: concrete instances of the hypotheses, evaluated *)
Example C19_reader_example :
  run_reader 5 (new_reader (mkSrc [1;2;3;4;5;6;7;8;9;10]%N [(3,false);(0,false);(4,true)]) 8) [4;1;7;9;2]
  = Ok ([1;2;3;4;5;6;7;8;9;10;6;6;6;6;6;6]%N, true).
Proof. vm_compute. reflexivity. Qed.

Example C19_writer_example :
  run_writer 8 [[1;2;3]; [4;5;6;7;8;9;10;6;6]; []; [6;6;6;6]]%N = Ok [1;2;3;4;5;6;7;8;9;10]%N
  /\ run_writer 8 [[1;2;3;4;5;9;3;3]]%N = Err 1.
Proof. vm_compute. split; reflexivity. Qed.

(* 3. The stream helpers.  cipher.BlockMode is abstract: any state machine that is block-aligned
   stream-compatible (stream_ok) - CBC, ECB, the toy chaining mode of the correspondence run.
   P7BlockEnc writes exactly mode(data ++ pad), whatever the source schedule; P7BlockDecrypt of a
   block-aligned ciphertext is the un-padding writer applied to mode(ct), whatever the schedule. *)
From GmsmVerif Require Import Pad.StreamProofs.

Theorem C19_stream_enc_any_schedule :
  forall (MS : Type) bs (crypt : MS -> list N -> MS * list N) data sched fuel st0,
    1 <= bs <= 255 -> BUF mod bs = 0 -> stream_ok bs crypt ->
    fuel >= length (pkcs7_pad bs data) / BUF + length sched + 3 ->
    p7_block_enc bs crypt fuel st0 (mkSrc data sched) = Ok (snd (crypt st0 (pkcs7_pad bs data))).
Proof. intros MS bs crypt data sched fuel st0 Hbs Hdiv Hok. exact (p7_block_enc_spec bs crypt Hbs Hdiv Hok data sched fuel st0). Qed.
Print Assumptions C19_stream_enc_any_schedule.

Theorem C19_stream_dec_any_schedule :
  forall (MS : Type) bs (crypt : MS -> list N -> MS * list N) ct sched fuel st0,
    1 <= bs <= 255 -> BUF mod bs = 0 -> stream_ok bs crypt ->
    length ct mod bs = 0 -> fuel >= length ct / BUF + length sched + 3 ->
    p7_block_decrypt bs crypt fuel st0 (mkSrc ct sched) = writer_spec bs (snd (crypt st0 ct)).
Proof. intros MS bs crypt ct sched fuel st0 Hbs Hdiv Hok. exact (p7_block_decrypt_spec bs crypt Hbs Hdiv Hok ct sched fuel st0). Qed.
Print Assumptions C19_stream_dec_any_schedule.

(* Encrypting a stream with the helper and decrypting it with the helper returns the original
   stream for every length and every pair of source schedules. *)
Theorem C19_stream_roundtrip :
  forall (ES DS : Type) bs (ecrypt : ES -> list N -> ES * list N) (dcrypt : DS -> list N -> DS * list N)
         e0 d0 data sched1 sched2 fuel1 fuel2,
    1 <= bs <= 255 -> BUF mod bs = 0 -> stream_ok bs ecrypt -> stream_ok bs dcrypt ->
    (forall s, length s mod bs = 0 -> length (snd (ecrypt e0 s)) = length s) ->
    (forall s, length s mod bs = 0 -> snd (dcrypt d0 (snd (ecrypt e0 s))) = s) ->
    fuel1 >= length (pkcs7_pad bs data) / BUF + length sched1 + 3 ->
    fuel2 >= length (pkcs7_pad bs data) / BUF + length sched2 + 3 ->
    exists ct, p7_block_enc bs ecrypt fuel1 e0 (mkSrc data sched1) = Ok ct /\
               p7_block_decrypt bs dcrypt fuel2 d0 (mkSrc ct sched2) = Ok data.
Proof.
  intros ES DS bs ecrypt dcrypt e0 d0 data sched1 sched2 fuel1 fuel2 Hbs Hdiv Hoe Hod Hlen Hinv Hf1 Hf2.
  assert (Hal : length (pkcs7_pad bs data) mod bs = 0).
  { rewrite length_pkcs7_pad. apply pad_total_multiple; lia. }
  exists (snd (ecrypt e0 (pkcs7_pad bs data))). split.
  - apply (p7_block_enc_spec bs ecrypt Hbs Hdiv Hoe); exact Hf1.
  - rewrite (p7_block_decrypt_spec bs dcrypt Hbs Hdiv Hod).
    + rewrite Hinv by exact Hal. apply writer_spec_pad; lia.
    + rewrite Hlen by exact Hal. exact Hal.
    + rewrite Hlen by exact Hal. exact Hf2.
Qed.
Print Assumptions C19_stream_roundtrip.

(* non-vacuity of the BlockMode hypotheses: the identity mode satisfies them *)
Example C19_stream_hyps_satisfiable :
  stream_ok 16 (fun (st : unit) (b : list N) => (st, b)) /\ BUF mod 16 = 0.
Proof. split; [split; [reflexivity | intros st a b _; reflexivity] | reflexivity]. Qed.

Example C19_stream_example :
  let data := [1;2;3;4;5;6;7;8;9;10]%N in
  let iv := [0;0;0;0;0;0;0;0]%N in
  p7_block_enc 8 (toy_enc 8 7) 9 iv (mkSrc data [(3,false);(0,false);(1,true)])
    = Ok [8;9;10;11;12;13;14;15;24;26;23;24;25;26;27;28]%N /\
  p7_block_decrypt 8 (toy_dec 8 7) 9 iv (mkSrc [8;9;10;11;12;13;14;15;24;26;23;24;25;26;27;28]%N [(5,false)]) = Ok data.
Proof. vm_compute. split; reflexivity. Qed.

(* ... instantiated with CBC over ANY block permutation E/D (D (E b) = b on blocks) - what
   cipher.NewCBCEncrypter / NewCBCDecrypter over sm4.NewCipher are (C05 proves SM4 is such a
   permutation, C11 that CBC is the textbook mode): the helper round trip holds for every data,
   IV and pair of source schedules. *)
From GmsmVerif Require Import Pad.CBCInstance.

Theorem C19_stream_roundtrip_cbc :
  forall bs (E D : list N -> list N) iv data sched1 sched2 fuel1 fuel2,
    1 <= bs <= 255 -> BUF mod bs = 0 ->
    (forall b, length b = bs -> length (E b) = bs) ->
    (forall b, length b = bs -> D (E b) = b) ->
    length iv = bs ->
    fuel1 >= length (pkcs7_pad bs data) / BUF + length sched1 + 3 ->
    fuel2 >= length (pkcs7_pad bs data) / BUF + length sched2 + 3 ->
    exists ct, p7_block_enc bs (cbc_enc bs E) fuel1 iv (mkSrc data sched1) = Ok ct /\
               p7_block_decrypt bs (cbc_dec bs D) fuel2 iv (mkSrc ct sched2) = Ok data.
Proof.
  intros bs E D iv data sched1 sched2 fuel1 fuel2 Hbs Hdiv HEl HDE Hiv Hf1 Hf2.
  destruct (cbc_inverse bs E D ltac:(lia) HEl HDE iv Hiv) as [Hlen Hinv].
  apply (C19_stream_roundtrip (list N) (list N) bs (cbc_enc bs E) (cbc_dec bs D) iv iv data sched1 sched2 fuel1 fuel2
           Hbs Hdiv (cbc_enc_stream_ok bs E ltac:(lia)) (cbc_dec_stream_ok bs D ltac:(lia)) Hlen Hinv Hf1 Hf2).
Qed.
Print Assumptions C19_stream_roundtrip_cbc.

(* ... and with the real cipher, NO premise left: CBC over SM4Spec (the GM/T 0002 specification, which
   C05_go_cipher_is_sm4 proves sm4.NewCipher / Encrypt / Decrypt compute; Pad/SM4CBC.v uses the inversion
   lemma of SM4/ModesProofs.v, which holds on byte-valued blocks, and Pad/CBCBytes.v threads the byte
   invariant through CBC).  Neither file depends on tables regenerated from the source, so this corollary
   cannot be broken by a change to sm4.go (C05/C11 report those).  The driver's X cases run exactly this
   composition on /repo (sm4.NewCipher + cipher.NewCBCEncrypter/Decrypter + P7BlockEnc / P7BlockDecrypt). *)
From GmsmVerif Require Import Pad.SM4CBC SM4.SM4Spec.
Local Open Scope nat_scope.

Theorem C19_stream_roundtrip_sm4_cbc :
  forall key iv data sched1 sched2 fuel1 fuel2,
    length iv = 16 -> bytes_ok iv = true -> bytes_ok data = true ->
    fuel1 >= length (pkcs7_pad 16 data) / BUF + length sched1 + 3 ->
    fuel2 >= length (pkcs7_pad 16 data) / BUF + length sched2 + 3 ->
    exists ct, p7_block_enc 16 (cbc_enc 16 (sm4_encrypt_block key)) fuel1 iv (mkSrc data sched1) = Ok ct /\
               p7_block_decrypt 16 (cbc_dec 16 (sm4_decrypt_block key)) fuel2 iv (mkSrc ct sched2) = Ok data.
Proof. exact sm4_cbc_stream_roundtrip. Qed.
Print Assumptions C19_stream_roundtrip_sm4_cbc.

(* a concrete instance, computed: GM/T 0002 example key, 20 bytes, ragged schedules on both sides *)
Example C19_sm4_cbc_example :
  let key := [0x01;0x23;0x45;0x67;0x89;0xab;0xcd;0xef;0xfe;0xdc;0xba;0x98;0x76;0x54;0x32;0x10]%N in
  let iv := repeat 0%N 16 in
  let data := [1;2;3;4;5;6;7;8;9;10;11;12;13;14;15;16;17;18;19;20]%N in
  match p7_block_enc 16 (cbc_enc 16 (sm4_encrypt_block key)) 9 iv (mkSrc data [(3,false);(0,false);(7,false)]) with
  | Ok ct => length ct = 32 /\
             p7_block_decrypt 16 (cbc_dec 16 (sm4_decrypt_block key)) 9 iv (mkSrc ct [(5,false);(1,true)]) = Ok data
  | _ => False
  end.
Proof. vm_compute. split; reflexivity. Qed.
