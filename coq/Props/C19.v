(* C19 - Streaming PKCS#7 padding is independent of how reads and writes are chunked.
   Property theorems only: each is closed by a lemma of Pad/PadProofs.v and followed by
   Print Assumptions.  Model: Pad/PadModel.v (follows /repo/sm4/padding function by function);
   specification: Pad/PadSpec.v. *)
From Coq Require Import List NArith Arith Lia.
From GmsmVerif Require Import Lib.Outcome Pad.PadModel Pad.PadSpec Pad.PadProofs.
Import ListNotations.

(* 1. The padding reader.  For every data, every block size 1..255, every source schedule (1-byte
   answers, short non-EOF answers, zero-byte answers, EOF together with the last data) and every
   list of caller buffer sizes >= 1: no panic, no hang (fuel |schedule|+2 suffices for each call);
   what is delivered is the first (sum of sizes) bytes of data ++ pad; io.EOF is reported exactly
   when a call starts with everything already delivered. *)
Theorem C19_reader_any_chunking :
  forall data bs sched bufs fuel,
    1 <= bs <= 255 -> Forall (fun L => 1 <= L) bufs -> fuel >= length sched + 2 ->
    run_reader fuel (new_reader (mkSrc data sched) bs) bufs =
      Ok (firstn (list_sum bufs) (pkcs7_pad bs data),
          eof_seen (length (pkcs7_pad bs data)) 0 bufs).
Proof.
  intros data bs sched bufs fuel Hbs HF Hfuel.
  exact (run_reader_spec data bs Hbs fuel bufs _ 0 (RInv_init data bs Hbs sched) HF Hfuel).
Qed.
Print Assumptions C19_reader_any_chunking.

(* ... so a caller that keeps reading gets exactly the source bytes followed by one valid pad, then EOF *)
Theorem C19_reader_output :
  forall data bs sched bufs fuel,
    1 <= bs <= 255 -> Forall (fun L => 1 <= L) bufs -> fuel >= length sched + 2 ->
    length (pkcs7_pad bs data) < length bufs ->
    run_reader fuel (new_reader (mkSrc data sched) bs) bufs = Ok (pkcs7_pad bs data, true).
Proof.
  intros data bs sched bufs fuel Hbs HF Hfuel Hlen.
  rewrite (C19_reader_any_chunking data bs sched bufs fuel Hbs HF Hfuel).
  pose proof (list_sum_ge_length bufs HF).
  rewrite firstn_all2 by lia.
  rewrite eof_seen_enough; [reflexivity|exact HF|lia|lia].
Qed.
Print Assumptions C19_reader_output.

(* ... and whenever EOF has been reported, everything had been delivered *)
Theorem C19_reader_eof_means_complete :
  forall data bs sched bufs fuel out,
    1 <= bs <= 255 -> Forall (fun L => 1 <= L) bufs -> fuel >= length sched + 2 ->
    run_reader fuel (new_reader (mkSrc data sched) bs) bufs = Ok (out, true) ->
    out = pkcs7_pad bs data.
Proof.
  intros data bs sched bufs fuel out Hbs HF Hfuel.
  rewrite (C19_reader_any_chunking data bs sched bufs fuel Hbs HF Hfuel).
  intros [= <- He]. apply eof_seen_all in He; [|lia].
  apply firstn_all2. lia.
Qed.
Print Assumptions C19_reader_eof_means_complete.

(* 2. The un-padding writer: the result depends only on the concatenation of the writes ... *)
Theorem C19_writer_chunking_independent :
  forall bs chunks, run_writer bs chunks = writer_spec bs (concat chunks).
Proof. exact run_writer_spec. Qed.
Print Assumptions C19_writer_chunking_independent.

(* ... Final succeeds exactly on streams that end in one valid pad, and then the sink holds the
   unpadded bytes; before Final the sink holds everything but the last block. *)
Theorem C19_writer_accepts_iff_valid_pad :
  forall bs chunks d, 1 <= bs ->
    (run_writer bs chunks = Ok d <-> valid_padded bs (concat chunks) d).
Proof.
  intros bs chunks d Hbs. rewrite run_writer_spec. split.
  - apply writer_spec_sound; exact Hbs.
  - apply writer_spec_complete; exact Hbs.
Qed.
Print Assumptions C19_writer_accepts_iff_valid_pad.

Theorem C19_writer_roundtrip :
  forall bs data chunks, 1 <= bs -> concat chunks = pkcs7_pad bs data -> run_writer bs chunks = Ok data.
Proof.
  intros bs data chunks Hbs Hc. rewrite run_writer_spec. rewrite Hc. apply writer_spec_pad; exact Hbs.
Qed.
Print Assumptions C19_writer_roundtrip.

Theorem C19_writer_never_panics :
  forall bs chunks, no_crash (run_writer bs chunks).
Proof.
  intros bs chunks. unfold run_writer, pwr_final.
  repeat match goal with |- context [if ?c then _ else _] => destruct c end; exact I.
Qed.
Print Assumptions C19_writer_never_panics.

(* non-vacuity: concrete instances of the hypotheses, evaluated *)
Example C19_reader_example :
  run_reader 5 (new_reader (mkSrc [1;2;3;4;5;6;7;8;9;10]%N [(3,false);(0,false);(4,true)]) 8) [4;1;7;9;2]
  = Ok ([1;2;3;4;5;6;7;8;9;10;6;6;6;6;6;6]%N, true).
Proof. vm_compute. reflexivity. Qed.

Example C19_writer_example :
  run_writer 8 [[1;2;3]; [4;5;6;7;8;9;10;6;6]; []; [6;6;6;6]]%N = Ok [1;2;3;4;5;6;7;8;9;10]%N
  /\ run_writer 8 [[1;2;3;4;5;9;3;3]]%N = Err 1.
Proof. vm_compute. split; reflexivity. Qed.
