(* C14 - keys, signatures and ciphertexts survive every offered serialisation unchanged.
   One theorem per codec gmsm owns, for ALL values; models in Ser/SerModel.v (function by function),
   lemmas in Ser/SerBytesProofs.v and Ser/SerProofs.v.
   Modelled by their contracts, NOT verified: PEM armour, encoding/asn1's struct handling (the DER pieces used
   here - INTEGER, OCTET STRING, definite lengths - are the model coq/SM2/DER.v shared with C01/C02, through the
   N-typed interface Ser/SerDER.v, and compared with Go byte for byte by the differential run), encoding/hex (concrete model, same), math/big Bytes/SetBytes,
   elliptic.Marshal/Unmarshal, PBKDF2 and AES-CBC (abstract with D after E = id), curve.ScalarBaseMult. *)
From Coq Require Import List NArith ZArith Znumtheory Arith Bool Lia.
From GmsmVerif Require Import Lib.Outcome SM2.DER Ser.SerBytes Ser.SerBytesProofs Ser.SerDER Ser.SerModel Ser.SerSpec Ser.SerProofs.
Import ListNotations.
Open Scope N_scope.

(* ---- hexadecimal --------------------------------------------------------------------------------------------- *)
(* every d (any size; d.Bytes() shorter than 32 bytes is padded, leading zero nibbles are kept): reading back
   gives d, except that ReadPrivateKeyFromHex refuses d >= n-1 (GenerateKey only produces 1 <= d <= n-2) *)
Theorem hex_priv_roundtrip : forall d,
  ReadPrivateKeyFromHex (WritePrivateKeyToHex d) = if sm2N - 1 <=? d then Err 2 else Ok d.
Proof. exact hex_priv. Qed.
Print Assumptions hex_priv_roundtrip.

Example hex_priv_short_d :
  WritePrivateKeyToHex 0x0abc = repeat 48 61 ++ [97; 98; 99]      (* sixty-one '0' then "abc" *)
  /\ ReadPrivateKeyFromHex (WritePrivateKeyToHex 0x0abc) = Ok 0x0abc.
Proof. vm_compute. auto. Qed.

(* 04 || X || Y, both coordinates padded to 32 bytes *)
Theorem hex_pub_roundtrip : forall x y, x < 2 ^ 256 -> y < 2 ^ 256 ->
  ReadPublicKeyFromHex (WritePublicKeyToHex x y) = Ok (x, y).
Proof. exact hex_pub. Qed.
Print Assumptions hex_pub_roundtrip.

Example hex_pub_short_coordinates :
  ReadPublicKeyFromHex (WritePublicKeyToHex 0xff 0) = Ok (0xff, 0)
  /\ length (WritePublicKeyToHex 0xff 0) = 130%nat.
Proof. vm_compute. auto. Qed.

(* ---- compressed points ---------------------------------------------------------------------------------------- *)
(* for every curve y^2 = x^3 + ax + b over a prime field with p = 3 mod 4 (big.Int.ModSqrt is then a^((p+1)/4)):
   Decompress(Compress P) = P for every curve point.  The only mathematical premise is the primality of p (for the SM2
   prime the usual premise of this development, DESIGN section 8); Fermat's little theorem is proved (Ser/Fermat.v). *)
Theorem compress_decompress : forall p a b : N,
  prime (Z.of_N p) -> p mod 4 = 3 -> p <= 2 ^ 256 ->
  forall x y, on_curve p a b x y = true -> Decompress p a b (Compress x y) = Some (x, y).
Proof. exact compress_decompress_curve. Qed.
Print Assumptions compress_decompress.

(* ... and Decompress returns nil on a wrong length, a tag other than 0/1, x >= p, or x^3+ax+b a non-residue *)
Theorem decompress_rejects_invalid : forall p a b c,
  (length c <> 33%nat \/ 1 < hd 0 c \/ p <= of_be (tl c)
   \/ (forall y, y < p -> (y * y) mod p <> rhs p a b (of_be (tl c)))) ->
  Decompress p a b c = None.
Proof. exact decompress_rejects. Qed.
Print Assumptions decompress_rejects_invalid.

(* non-vacuity: the premises hold for p = 7 (proved), and the SM2 base point round-trips by computation; for the SM2
   prime itself the theorem leaves exactly one premise *)
Example prime_7 : prime 7.
Proof.
  apply prime_intro; [lia|]. intros n Hn.
  assert (n = 1 \/ n = 2 \/ n = 3 \/ n = 4 \/ n = 5 \/ n = 6)%Z as H by lia.
  destruct H as [->|[->|[->|[->|[->| ->]]]]]; apply Zgcd_1_rel_prime; reflexivity.
Qed.

Example compress_decompress_F7 : forall x y, on_curve 7 1 1 x y = true -> Decompress 7 1 1 (Compress x y) = Some (x, y).
Proof. apply compress_decompress; [exact prime_7|reflexivity|vm_compute; discriminate]. Qed.
Example F7_has_points : on_curve 7 1 1 0 1 = true /\ on_curve 7 1 1 2 5 = true /\ Decompress 7 1 1 (Compress 2 5) = Some (2, 5).
Proof. vm_compute. auto. Qed.

Example compress_decompress_sm2 : prime (Z.of_N sm2P) ->
  forall x y, on_curve sm2P sm2A sm2B x y = true -> Decompress_sm2 (Compress x y) = Some (x, y).
Proof. intros Hp. apply compress_decompress; [exact Hp|reflexivity|vm_compute; discriminate]. Qed.

Definition sm2Gx : N := 0x32C4AE2C1F1981195F9904466A39C9948FE30BBFF2660BE1715A4589334C74C7.
Definition sm2Gy : N := 0xBC3736A2F4F6779C59BDCEE36B692153D0A9877CC62A474002DF32E52139F0A0.
Example compress_decompress_sm2_G :
  on_curve sm2P sm2A sm2B sm2Gx sm2Gy = true
  /\ Decompress_sm2 (Compress sm2Gx sm2Gy) = Some (sm2Gx, sm2Gy)
  /\ sm2P mod 4 = 3
  /\ Decompress_sm2 (2 :: tl (Compress sm2Gx sm2Gy)) = None /\ Decompress_sm2 (tl (Compress sm2Gx sm2Gy)) = None.
Proof. vm_compute. auto 6. Qed.

(* ---- ASN.1 signature ---------------------------------------------------------------------------------------------- *)
(* all r, s >= 0 whose magnitude has fewer than 2^21 bytes (the DER reader, like Go's, limits lengths): zero, short
   values, values with the top bit set (a 00 is inserted), long-form lengths *)
Theorem asn1_sig_roundtrip : forall r s,
  (Z.of_nat (length (Bytes r)) < 2 ^ 21)%Z -> (Z.of_nat (length (Bytes s)) < 2 ^ 21)%Z ->
  SignDataToSignDigit (SignDigitToSignData r s) = Ok (r, s).
Proof. exact sig_roundtrip. Qed.
Print Assumptions asn1_sig_roundtrip.

(* one DER model: the helper writes exactly what the model of PrivateKey.Sign writes (SM2/DER.v sig_encode), and the
   byte conversions of this family are those of SM2/SM2Bytes.v *)
Example asn1_sig_same_der : forall r s, SignDigitToSignData r s = DER.sig_encode (Z.of_N r) (Z.of_N s).
Proof. reflexivity. Qed.
Example ser_bytes_same : (forall n, Bytes n = SM2Bytes.be_bytes (Z.of_N n)) /\ (forall l, Z.of_N (of_be l) = SM2Bytes.os2ip l).
Proof. split; [exact Bytes_be_bytes|exact of_be_os2ip]. Qed.

Example asn1_sig_bytes : SignDigitToSignData 0x80 0x7f = [48; 7; 2; 2; 0; 128; 2; 1; 127]
  /\ SignDigitToSignData 0 1 = [48; 6; 2; 1; 0; 2; 1; 1].
Proof. vm_compute. auto. Qed.

(* ---- ASN.1 ciphertext --------------------------------------------------------------------------------------------- *)
(* every C1||C3||C2 ciphertext 04||x||y||hash||c (x, y, hash 32 bytes; c any length, may be empty): the
   coordinates - including ones with leading zero bytes - come back exactly as they were (ciphertexts below 4 MiB) *)
Theorem asn1_cipher_roundtrip : forall data, bytes_ok data -> (97 <= length data)%nat ->
  (Z.of_nat (length data) < 2 ^ 22)%Z -> hd 0 data = 4 ->
  exists der, CipherMarshal data = Ok der /\ CipherUnmarshal der = Ok data.
Proof. exact cipher_roundtrip. Qed.
Print Assumptions asn1_cipher_roundtrip.

Example asn1_cipher_short_coordinates :
  let data := 4 :: repeat 0 31 ++ [7] ++ repeat 0 32 ++ repeat 9 32 ++ [1; 2; 3] in
  match CipherMarshal data with Ok der => CipherUnmarshal der = Ok data /\ length der = 47%nat | _ => False end.
Proof. vm_compute. auto. Qed.

(* ---- PKCS#8, plain --------------------------------------------------------------------------------------------------- *)
(* every key with 0 <= d < n: the parser re-pads d.Bytes() (shorter than 32 bytes for small d), recomputes the
   public point from d (the embedded copy is not read) and ignores bytes after the structure *)
Theorem pkcs8_plain_roundtrip : forall (base_mult : N -> N * N) d x y tail, d < sm2N ->
  ParsePKCS8UnecryptedPrivateKey base_mult (MarshalSm2UnecryptedPrivateKey d x y ++ tail)
  = let '(X, Y) := base_mult d in Ok (d, X, Y).
Proof. exact pkcs8_plain. Qed.
Print Assumptions pkcs8_plain_roundtrip.

Example pkcs8_plain_short_d :
  ParsePKCS8UnecryptedPrivateKey (fun d => (d + 1, d + 2)) (MarshalSm2UnecryptedPrivateKey 5 sm2Gx sm2Gy) = Ok (5, 6, 7)
  /\ ParsePKCS8UnecryptedPrivateKey (fun d => (d + 1, d + 2)) (MarshalSm2UnecryptedPrivateKey sm2N sm2Gx sm2Gy) = Err 2.
Proof. vm_compute. auto. Qed.

(* PKIX public key: 04 || X || Y inside the BIT STRING, for every point of the curve *)
Theorem pkix_public_key_roundtrip : forall x y, on_curve sm2P sm2A sm2B x y = true ->
  ParseSm2PublicKey (MarshalSm2PublicKey x y) = Some (x, y).
Proof. exact pkix_pub_roundtrip. Qed.
Print Assumptions pkix_public_key_roundtrip.

(* ---- PKCS#8, password protected -------------------------------------------------------------------------------- *)
(* PBKDF2 and AES-CBC abstract: any kdf, any length-preserving cbc_enc/cbc_dec with dec after enc = id on whole
   blocks; the PKCS#7-style tail added before encryption is skipped by the ASN.1 parser *)
Theorem pkcs8_encrypted_roundtrip :
  forall (base_mult : N -> N * N) (kdf : list N -> list N -> list N) (cbc_enc cbc_dec : list N -> list N -> list N -> list N),
    (forall key iv m, (length m mod 16 = 0)%nat -> cbc_dec key iv (cbc_enc key iv m) = m) ->
    (forall key iv m, length (cbc_enc key iv m) = length m) ->
    forall d x y pwd salt iv, d < sm2N -> length iv = 16%nat ->
      ParsePKCS8EcryptedPrivateKey base_mult kdf cbc_dec (MarshalSm2EcryptedPrivateKey kdf cbc_enc d x y pwd salt iv) pwd
      = let '(X, Y) := base_mult d in Ok (d, X, Y).
Proof. intros bm kdf e dd H1 H2. exact (pkcs8_encrypted bm kdf e dd H1 H2). Qed.
Print Assumptions pkcs8_encrypted_roundtrip.

(* decoding with ANOTHER password: an error, unless the wrongly decrypted bytes happen to parse as a PKCS#8 SM2
   key (then that key is returned).  MODEL-LEVEL DECISION, close to the definition of the model function: the
   theorem is this disjunction, i.e. it only says that the decoder has no third outcome (no key other than the one
   the decrypted bytes denote, no success without a parse).  That a wrong password IS refused is not proved - it cannot
   be without assumptions about AES / PBKDF2 - and is established only differentially: tie = the PW cases of the
   driver (every wrong password against the real ParsePKCS8EcryptedPrivateKey, HMAC-equivalent passwords excluded). *)
Theorem wrong_password_outcome :
  forall (base_mult : N -> N * N) (kdf : list N -> list N -> list N) (cbc_dec : list N -> list N -> list N -> list N)
         (e : enc_blob) (pwd' : list N),
    (exists n, ParsePKCS8EcryptedPrivateKey base_mult kdf cbc_dec e pwd' = Err n)
    \/ (exists k, ParsePKCS8UnecryptedPrivateKey base_mult (cbc_dec (kdf pwd' (eb_salt e)) (eb_iv e) (eb_ct e)) = Ok k
                  /\ ParsePKCS8EcryptedPrivateKey base_mult kdf cbc_dec e pwd' = Ok k).
Proof. intros. apply wrong_password. Qed.
Print Assumptions wrong_password_outcome.

(* a toy instance of the abstract primitives (xor with the first key byte) exercises both theorems by computation *)
Definition toy_kdf (pwd salt : list N) : list N := [N.of_nat (length pwd) + hd 0 salt].
Definition toy_cbc (key iv m : list N) : list N := map (fun b => N.lxor b (hd 0 key)) m.
Example pkcs8_encrypted_toy :
  let blob := MarshalSm2EcryptedPrivateKey toy_kdf toy_cbc 0x1234 sm2Gx sm2Gy [1;2;3] [9] (repeat 0 16) in
  ParsePKCS8EcryptedPrivateKey (fun d => (d, d)) toy_kdf toy_cbc blob [1;2;3] = Ok (0x1234, 0x1234, 0x1234)
  /\ ParsePKCS8EcryptedPrivateKey (fun d => (d, d)) toy_kdf toy_cbc blob [1;2;3;4] = Err 7
  /\ (length (eb_ct blob) mod 16 = 0)%nat.
Proof. vm_compute. auto. Qed.

(* ---- TLS key-pair loaders ---------------------------------------------------------------------------------------- *)
(* MODEL-LEVEL DECISIONS.  The loader functions of Ser/SerModel.v are transcribed by hand from gmtls (no translator
   tie); the theorems below state what that decision logic accepts, as "iff" against an independent specification
   (Ser/SerSpec.v: key_matches, sm2_pair and the pem_ predicates), and are close to definitional for the SM2 rows.  That the Go
   loaders take the same decisions is established differentially only: tie = the LD / LP cases of the driver (real
   LoadGMX509KeyPairs / GMX509KeyPairsSingle / X509KeyPair on matching, mismatching (n-d, other point) and
   composed PEM inputs) compared with the extracted model.
   Decision logic of gmtls.GMX509KeyPairs (LoadGMX509KeyPairs), GMX509KeyPairsSingle (LoadGMX509KeyPair) and
   X509KeyPair (LoadX509KeyPair) over what the parsers deliver.  SM2 certificates: accepted exactly when the key
   is the SM2 private key of the certificate's public point (curve, X and Y compared; for the dual loader both the
   signing and the encryption pair). *)
Theorem loader_accepts_iff_match :
  (forall sc sk ec ek, GMX509KeyPairs sc sk ec ek = true <-> sm2_pair sc sk /\ sm2_pair ec ek)
  /\ (forall x y k, GMX509KeyPairsSingle (CEc O x y) k = true <-> key_matches (CEc O x y) k)
  /\ (forall x y k, X509KeyPair (CEc O x y) k = true <-> key_matches (CEc O x y) k).
Proof.
  split; [exact GMX509KeyPairs_iff|]. split; [exact GMX509KeyPairsSingle_sm2_iff|exact X509KeyPair_sm2_iff].
Qed.
Print Assumptions loader_accepts_iff_match.

(* RSA and ECDSA certificates (Go's crypto/tls logic, kept by gmtls): exact as well, provided an ECDSA key is on
   the curve of the ECDSA certificate it is offered with - the code compares X and Y only (RSA: the modulus only) *)
Theorem loader_accepts_iff_match_other_algorithms : forall c k,
  (forall cu x y cu' x' y', c = CEc cu x y -> k = KEcdsa cu' x' y' -> cu = cu') ->
  (X509KeyPair c k = true <-> key_matches c k) /\ (GMX509KeyPairsSingle c k = true <-> key_matches c k).
Proof. intros c k H. split; [apply X509KeyPair_iff|apply GMX509KeyPairsSingle_iff]; exact H. Qed.
Print Assumptions loader_accepts_iff_match_other_algorithms.

(* Round 6.  Parser and loaders composed: a PKCS#8 key file with scalar d < n whose OPTIONAL publicKey field holds any
   pair (x, y) whatsoever - [d]G as the package writes it, or the point of somebody else's certificate - is accepted with an
   SM2 certificate of the point (cx, cy) exactly when [d]G = (cx, cy), by the single-pair loaders and in the signing and
   the encryption slot of the dual loader.  The embedded copy of the point never decides (it is not read: see
   pkcs8_plain_roundtrip); so a file with a foreign scalar and the certificate's point is refused.  Same level as
   the loader theorems above (hand-transcribed decision logic); tie = FK cases with public key option 2. *)
Theorem loader_decides_on_the_scalar : forall (base_mult : N -> N * N) d x y tail cx cy, d < sm2N ->
  let k := sm2_key_of (ParsePKCS8UnecryptedPrivateKey base_mult (MarshalSm2UnecryptedPrivateKey d x y ++ tail)) in
  (X509KeyPair (CEc O cx cy) k = true <-> base_mult d = (cx, cy))
  /\ (GMX509KeyPairsSingle (CEc O cx cy) k = true <-> base_mult d = (cx, cy))
  /\ (forall ec ek, GMX509KeyPairs (CEc O cx cy) k ec ek = true <-> base_mult d = (cx, cy) /\ sm2_pair ec ek)
  /\ (forall sc sk, GMX509KeyPairs sc sk (CEc O cx cy) k = true <-> sm2_pair sc sk /\ base_mult d = (cx, cy)).
Proof. exact loaders_decide_on_scalar. Qed.
Print Assumptions loader_decides_on_the_scalar.

(* non-vacuity, toy base_mult d = (d+1, d+2): the file (d = 5, embedded point (8, 9) = the point of d = 7) is the key of the
   certificate (6, 7) and not of the certificate (8, 9) whose point it carries; the consistent file of d = 7 is *)
Example loader_foreign_scalar_refused :
  let bm := fun d => (d + 1, d + 2) in
  let forged := sm2_key_of (ParsePKCS8UnecryptedPrivateKey bm (MarshalSm2UnecryptedPrivateKey 5 8 9)) in
  let honest := sm2_key_of (ParsePKCS8UnecryptedPrivateKey bm (MarshalSm2UnecryptedPrivateKey 7 8 9)) in
  forged = KSm2 6 7 /\ honest = KSm2 8 9
  /\ X509KeyPair (CEc 0 8 9) forged = false /\ GMX509KeyPairsSingle (CEc 0 8 9) forged = false
  /\ GMX509KeyPairs (CEc 0 8 9) forged (CEc 0 8 9) honest = false /\ GMX509KeyPairs (CEc 0 8 9) honest (CEc 0 8 9) forged = false
  /\ X509KeyPair (CEc 0 6 7) forged = true /\ GMX509KeyPairs (CEc 0 6 7) forged (CEc 0 8 9) honest = true
  /\ X509KeyPair (CEc 0 8 9) honest = true.
Proof. vm_compute. auto 12. Qed.

(* PEM level (getCert / getKey / parsePrivateKey): the certificate that is matched is the FIRST "CERTIFICATE" block
   (later ones are the chain), the key is the FIRST block whose type is "PRIVATE KEY" or ends in " PRIVATE KEY" - later
   key blocks are never looked at - and its bytes must be PKCS#1 RSA, PKCS#8 RSA/ECDSA or PKCS#8 SM2: the label does
   not matter ("EC PRIVATE KEY" around a PKCS#8 SM2 key is read), a SEC 1 ECPrivateKey or an encrypted key is never read
   (no parser / no password: a format limit of the loaders, documented).  Accepts <=> such a pair exists and matches. *)
Theorem loader_pem_selection :
  (forall cf kf ecf ekf, GMX509KeyPairs_pem cf kf ecf ekf = true <-> pem_sm2_pair cf kf /\ pem_sm2_pair ecf ekf)
  /\ (forall cf kf x y, first_cert cf = Some (CEc O x y) ->
        (X509KeyPair_pem cf kf = true <-> exists kc, first_key kf = Some kc /\ readable_key kc = Some (KSm2 x y))
        /\ (GMX509KeyPairsSingle_pem cf kf = true <-> exists kc, first_key kf = Some kc /\ readable_key kc = Some (KSm2 x y))).
Proof. split; [exact GMX509KeyPairs_pem_iff|exact sm2_leaf_pem]. Qed.
Print Assumptions loader_pem_selection.

Example loader_pem_examples :
  let c := (LCert, PCert (CEc 0 1 2)) in let chain := (LCert, PCert (CEc 0 8 9)) in
  X509KeyPair_pem [c; chain] [(LPrivKey, PPkcs8Sm2 1 2)] = true
  /\ X509KeyPair_pem [chain; c] [(LPrivKey, PPkcs8Sm2 1 2)] = false                          (* the leaf must come first *)
  /\ X509KeyPair_pem [(LOtherLabel, PJunk); c] [(LOtherLabel, PJunk); (LSuffixPrivKey, PPkcs8Sm2 1 2)] = true   (* "EC PARAMETERS" skipped, label irrelevant *)
  /\ X509KeyPair_pem [c] [(LSuffixPrivKey, PSec1); (LPrivKey, PPkcs8Sm2 1 2)] = false          (* first key block decides *)
  /\ X509KeyPair_pem [c] [(LSuffixPrivKey, PEncrypted)] = false
  /\ X509KeyPair_pem [c] [(LCert, PCert (CEc 0 1 2))] = false /\ X509KeyPair_pem [(LPrivKey, PPkcs8Sm2 1 2)] [(LPrivKey, PPkcs8Sm2 1 2)] = false
  /\ GMX509KeyPairs_pem [c] [(LPrivKey, PPkcs8Sm2 1 2)] [chain] [(LSuffixPrivKey, PPkcs8Sm2 8 9)] = true.
Proof. vm_compute. auto 10. Qed.

Example loader_examples :
  GMX509KeyPairs (CEc 0 1 2) (KSm2 1 2) (CEc 0 3 4) (KSm2 3 4) = true
  /\ GMX509KeyPairs (CEc 0 1 2) (KSm2 1 2) (CEc 0 3 4) (KSm2 1 2) = false      (* signing key given twice *)
  /\ GMX509KeyPairs (CEc 0 1 2) (KSm2 3 4) (CEc 0 3 4) (KSm2 1 2) = false      (* keys swapped *)
  /\ GMX509KeyPairsSingle (CEc 0 1 2) (KSm2 1 3) = false
  /\ X509KeyPair (CRsa 77) (KRsa 77) = true /\ GMX509KeyPairs (CRsa 77) (KRsa 77) (CEc 0 3 4) (KSm2 3 4) = false
  /\ X509KeyPair (CEc 1 5 6) (KEcdsa 2 5 6) = true.   (* the gap the side condition above excludes *)
Proof. vm_compute. auto 8. Qed.
