(* C07 - Protected records cannot be altered, reordered, replayed or truncated undetected.
   Property theorems only: each is closed by a lemma of Rec/Record*.v and followed by Print Assumptions.
   Model: Rec/RecordModel.v (follows /repo/gmtls/conn.go function by function: halfConn.encrypt / decrypt /
   incSeq, extractPadding, padToBlockSize, roundUp, writeRecordLocked, Write, readRecord, Read);
   specification vocabulary: Rec/RecordSpec.v.

   The primitives (block cipher, MAC, AEAD) are a parameter [P : prims]; what the theorems need of them
   is the premise [prims_ok P] (block cipher: length-preserving permutation on blocks of bytes; MAC: fixed
   tag length, byte output; AEAD: open undoes seal) and, for the integrity theorems, the idealisation
   [no_forgery] (ideal authenticity of HMAC-SM3 / SM4-GCM).  They are premises, never axioms.
   Section 5 discharges [prims_ok] for what gmtls really runs (SM4, HMAC-SM3, GCM over SM4: the
   specifications of the SM4 / SM3 families and Rec/GcmRef.v), so that the *_sm4 theorems have no premise
   on the primitives at all; only [no_forgery] remains, for the integrity theorem. *)
From Coq Require Import List NArith Arith Bool Lia.
From GmsmVerif Require Import Lib.Outcome Rec.RecordSpec Rec.RecordModel Rec.RecordProofs Rec.RecordRoundtrip
  Rec.RecordIntegrity Rec.RecordFragment Rec.RecordExtras Rec.RecordProgress Rec.RecordDuplex Rec.RecordHS Rec.RecordReadChunks Rec.RecordNonce Rec.RecordSM4.
Import ListNotations.
Local Open Scope nat_scope.

(* ======== 1. the concrete helpers, for all inputs ================================================== *)

(* extractPadding: the constant-time masking arithmetic on uint (64 bit) / int32 / uint8 computes the
   RFC 5246 6.2.3.2 rule for EVERY byte string shorter than 2^31: toRemove = l + 1 for the last byte l,
   and good = 255 exactly when l < |payload| and the last l+1 bytes all equal l; otherwise good = 0. *)
Theorem C07_extractPadding_spec :
  forall payload, bytes_ok payload -> (N.of_nat (length payload) < 2 ^ 31)%N ->
    match payload with
    | [] => extractPadding payload = (0, 0%N)
    | _ => fst (extractPadding payload) = N.to_nat (last payload 0%N) + 1 /\
           (snd (extractPadding payload) = 255%N \/ snd (extractPadding payload) = 0%N) /\
           (snd (extractPadding payload) = 255%N <-> pad_valid payload)
    end.
Proof. exact extractPadding_spec_lemma. Qed.
Print Assumptions C07_extractPadding_spec.

Example C07_extractPadding_examples :
  extractPadding [9; 9; 2; 2; 2]%N = (3, 255%N) /\ extractPadding [9; 9; 2; 1; 2]%N = (3, 0%N)
  /\ extractPadding [7; 0]%N = (1, 255%N) /\ extractPadding [5; 5]%N = (6, 0%N) /\ extractPadding [] = (0, 0%N)
  /\ pad_valid [9; 9; 2; 2; 2]%N.
Proof.
  vm_compute. repeat split; try reflexivity; try lia.
  intros [|[|[|j]]] Hj; try reflexivity; lia.
Qed.

(* padToBlockSize: payload followed by k bytes of value k-1, k = blockSize - |payload| mod blockSize,
   cut into whole blocks (prefix) and one final block *)
Theorem C07_padToBlockSize_spec :
  forall payload bs, 1 <= bs ->
    let '(prefix, finalBlock) := padToBlockSize payload bs in
    let k := bs - length payload mod bs in
    prefix ++ finalBlock = payload ++ repeat (N.of_nat (k - 1) mod 256)%N k /\
    1 <= k <= bs /\
    length prefix mod bs = 0 /\ length finalBlock = bs /\ length (prefix ++ finalBlock) mod bs = 0.
Proof. exact padToBlockSize_spec_lemma. Qed.
Print Assumptions C07_padToBlockSize_spec.

Example C07_padToBlockSize_example :
  padToBlockSize [1; 2; 3; 4; 5]%N 4 = ([1; 2; 3; 4]%N, [5; 2; 2; 2]%N).
Proof. vm_compute. reflexivity. Qed.

(* roundUp a b is the least multiple of b that is >= a *)
Theorem C07_roundUp_spec : forall a b, 1 <= b -> is_round_up a b (roundUp a b).
Proof. exact roundUp_spec_lemma. Qed.
Print Assumptions C07_roundUp_spec.

Example C07_roundUp_example : roundUp 49 16 = 64 /\ roundUp 64 16 = 64 /\ roundUp 0 16 = 0.
Proof. vm_compute. auto. Qed.

(* incSeq: +1 on the 64-bit big-endian counter, panic exactly at 2^64-1 (no wrap-around) *)
Theorem C07_incSeq_spec :
  forall hc s, hc_seq hc = be64 s -> (s < 2 ^ 64)%N ->
    incSeq hc = if (s =? 2 ^ 64 - 1)%N then Panic else Ok (set_seq hc (be64 (s + 1))).
Proof.
  intros hc s Hs Hlt. unfold incSeq. rewrite Hs, incSeq_loop_be64 by exact Hlt.
  destruct (s =? 2 ^ 64 - 1)%N; reflexivity.
Qed.
Print Assumptions C07_incSeq_spec.

Example C07_incSeq_examples :
  incSeq_loop 7 [0; 0; 0; 0; 255; 255; 255; 255]%N = Ok [0; 0; 0; 1; 0; 0; 0; 0]%N /\
  incSeq_loop 7 (repeat 255%N 8) = Panic /\ be64 (2 ^ 64 - 1) = repeat 255%N 8.
Proof. vm_compute. auto. Qed.

(* GCM nonce = 4-byte salt followed by the 8-byte explicit part; with the sequence number as explicit
   part, distinct sequence numbers give distinct nonces *)
Theorem C07_gcm_nonce_injective :
  forall salt s1 s2, (s1 < 2 ^ 64)%N -> (s2 < 2 ^ 64)%N ->
    gcm_nonce salt (be64 s1) = gcm_nonce salt (be64 s2) -> s1 = s2.
Proof. exact gcm_nonce_injective_lemma. Qed.
Print Assumptions C07_gcm_nonce_injective.

(* halfConn.encrypt with an AEAD: the nonce given to Seal is salt + explicit nonce, the additional data
   is seq_num + type + version + length (RFC 5246 6.2.3.3), the explicit nonce travels in clear *)
Theorem C07_aad_layout :
  forall P, prims_ok P -> forall hc key fixed s typ ver eiv frag,
    hc_cipher hc = CipherAEAD key fixed -> hc_mac hc = None -> hc_seq hc = be64 s -> (s < 2 ^ 64 - 1)%N ->
    length eiv = 8 ->
    exists hc' hdr',
      encrypt P hc ([typ] ++ ver_bytes ver ++ u16 (length frag) ++ eiv ++ frag) 8 =
        Ok (hc', hdr' ++ eiv ++ p_seal P key (gcm_nonce fixed eiv) (aad s typ ver (length frag)) frag)
      /\ length hdr' = 5.
Proof. intros P H. exact (aad_layout_lemma P H). Qed.
Print Assumptions C07_aad_layout.

(* halfConn.encrypt with CBC + MAC: the MAC is computed over seq_num + type + version + length + fragment
   (RFC 5246 6.2.3.1); the record is header, explicit IV, then the CBC encryption, chained from the
   explicit IV, of fragment + MAC + minimal padding *)
Theorem C07_mac_input_layout :
  forall P, prims_ok P -> forall hc key iv0 mk s typ ver eiv frag,
    hc_cipher hc = CipherCBC key iv0 -> hc_mac hc = Some mk -> hc_seq hc = be64 s -> (s < 2 ^ 64 - 1)%N ->
    length eiv = p_bs P ->
    let body := frag ++ p_mac P mk (mac_input s typ ver frag) in
    let padded := body ++ tls_padding (p_bs P) (length body) in
    exists hc' hdr' bl,
      padded = concat bl /\ Forall (fun b => length b = p_bs P) bl /\
      encrypt P hc ([typ] ++ ver_bytes ver ++ u16 (length frag) ++ eiv ++ frag) (p_bs P) =
        Ok (hc', hdr' ++ eiv ++ concat (enc_blocks P key eiv bl))
      /\ length hdr' = 5.
Proof. intros P H. exact (mac_input_layout_lemma P H). Qed.
Print Assumptions C07_mac_input_layout.

(* ======== 2. decrypt after encrypt ================================================================== *)

(* For both cipher shapes, any fragment of bytes (0..16384 and beyond, up to 2^30), any explicit IV /
   nonce of the right length, any type and version bytes: if the two half connections hold the same keys
   and the same sequence number s < 2^64-1, halfConn.decrypt of what halfConn.encrypt produced is the
   fragment, both sequence numbers are s+1, and the two half connections still agree. *)
Theorem C07_decrypt_encrypt_record :
  forall P, prims_ok P -> forall w r s h3 eiv frag,
    same_keys w r -> hc_seq w = be64 s -> (s < 2 ^ 64 - 1)%N -> hc_version r = VersionGMSSL ->
    length h3 = 3 -> length eiv = explicit_len P (hc_cipher w) -> bytes_ok eiv -> bytes_ok frag ->
    (N.of_nat (length frag) + N.of_nat (p_macSize P) < 2 ^ 30)%N ->
    exists w' rec_ r',
      encrypt P w (h3 ++ len_bytes (length frag) ++ eiv ++ frag) (length eiv) = Ok (w', rec_) /\
      decrypt P r rec_ = Ok (r', Some frag) /\
      hc_seq w' = be64 (s + 1) /\ hc_seq r' = be64 (s + 1) /\ same_keys w' r' /\
      hc_version r' = hc_version r /\ hc_err r' = hc_err r /\ hc_version w' = hc_version w /\ hc_err w' = hc_err w /\
      (* the record on the wire: 3 header bytes, the length of the body, the body *)
      exists body, rec_ = h3 ++ len_bytes (length body) ++ body /\
                   length body <= length eiv + length frag + p_macSize P + p_bs P + p_overhead P.
Proof. intros P H. exact (decrypt_encrypt_record_ok P H). Qed.
Print Assumptions C07_decrypt_encrypt_record.

(* non-vacuity: the premises on the primitives have an instance, and a concrete round trip *)
Example C07_prims_ok_inhabited : prims_ok toy_prims.
Proof. exact toy_prims_ok. Qed.

Example C07_roundtrip_example :
  let w := mkHC false VersionGMSSL (CipherCBC [1; 2; 3]%N []) (Some [9; 9]%N) (be64 (2 ^ 32 - 1)) in
  let g := mkHC false VersionGMSSL (CipherAEAD [1; 2; 3]%N [4; 5; 6; 7]%N) None (be64 (2 ^ 64 - 2)) in
  (do '(w', r) <- encrypt toy_prims w ([23; 1; 1; 0; 5] ++ repeat 17 16 ++ [10; 20; 30; 40; 50])%N 16;
   do '(r', d) <- decrypt toy_prims w r; Ok (d, hc_seq w', hc_seq r', length r))
  = Ok (Some [10; 20; 30; 40; 50]%N, be64 (2 ^ 32), be64 (2 ^ 32), 5 + 16 + 48) /\
  (do '(g', r) <- encrypt toy_prims g ([23; 1; 1; 0; 2] ++ be64 (2 ^ 64 - 2) ++ [10; 20])%N 8;
   do '(r', d) <- decrypt toy_prims g r; Ok (d, hc_seq g', length r))
  = Ok (Some [10; 20]%N, be64 (2 ^ 64 - 1), 5 + 8 + 2 + 16).
Proof. vm_compute. split; reflexivity. Qed.

(* each record with a CBC cipher consumes exactly one block of fresh bytes of config.rand() as explicit
   IV (randomness is an input stream of the model: the IVs of successive records are disjoint slices of
   it), and the IV travels in clear right after the header (C07_mac_input_layout) *)
Theorem C07_cbc_iv_from_stream :
  forall P, prims_ok P -> forall c typ data c1 rec_ m k iv,
    hc_cipher (o_hc c) = CipherCBC k iv -> explicit_iv_version (hc_version (o_hc c)) = true ->
    writeRecord_step P c typ data = Ok (Some (c1, rec_, m)) ->
    p_bs P <= length (o_rand c) /\ o_rand c1 = skipn (p_bs P) (o_rand c) /\
    exists hdr hc', length hdr = 5 /\
      encrypt P (o_hc c) (hdr ++ firstn (p_bs P) (o_rand c) ++ firstn m data) (p_bs P) = Ok (hc', rec_).
Proof. intros P H. exact (cbc_iv_from_stream_lemma P H). Qed.
Print Assumptions C07_cbc_iv_from_stream.

(* ======== 3. integrity of the accepted stream ===================================================== *)

(* The sender protected the items (content type, fragment <= 2^14 bytes) number 0, 1, ... under sequence
   numbers s0, s0+1, ... (s0 + n < 2^64); [sender_log] is what it thereby authenticated.  The receiver
   holds the same kind of half connection (AEAD, or CBC + MAC) at sequence number s0 and reads, until
   its first error, the byte stream that EVERY attacker script over
     deliver / flip a bit / truncate / extend / rewrite type, version or length / replay a record of
     the other direction or of another connection / inject arbitrary bytes
   (swap, duplicate, drop = the order of the deliveries) of ANY length makes of ANY record lists.
   Idealisation, premise [no_forgery]: every call of halfConn.decrypt in this run that succeeded,
   succeeded on an (additional data, plaintext) pair resp. a MAC input that the sender authenticated
   (ideal authenticity of SM4-GCM resp. HMAC-SM3; Rec/RecordIntegrity.v).
   Then: the receiver accepted exactly the items 0..k-1 for some k; the bytes delivered to the
   application are the application data among them, hence a prefix of what the sender wrote; its
   sequence number is s0 + k (one step per accepted record); it has ended in the error state. *)
Theorem C07_prefix_integrity :
  forall P ver s0 items hc vers genuine other foreign script rounds fuel out c',
    (s0 + N.of_nat (length items) < 2 ^ 64)%N ->
    Forall (fun it : item => length (snd it) <= maxPlaintext) items ->
    hc_err hc = false -> hc_seq hc = be64 s0 -> protected hc ->
    recv_all P rounds fuel (receiver0 hc vers (apply_script genuine other foreign script)) = Ok (out, c') ->
    no_forgery P (sender_log (is_aead hc) ver s0 items) c' ->
    exists k, k <= length items /\ out = app_bytes (firstn k items) /\ is_prefix out (app_bytes items) /\
              hc_seq (i_hc c') = be64 (s0 + N.of_nat k) /\ hc_err (i_hc c') = true.
Proof. intros. eapply prefix_integrity_wire; eassumption. Qed.
Print Assumptions C07_prefix_integrity.

(* the same for an arbitrary inbound byte string (scripts are one way of making one) *)
Theorem C07_prefix_integrity_any_stream :
  forall P ver s0 items hc vers wire rounds fuel out c',
    (s0 + N.of_nat (length items) < 2 ^ 64)%N ->
    Forall (fun it : item => length (snd it) <= maxPlaintext) items ->
    hc_err hc = false -> hc_seq hc = be64 s0 -> protected hc ->
    recv_all P rounds fuel (receiver0 hc vers wire) = Ok (out, c') ->
    no_forgery P (sender_log (is_aead hc) ver s0 items) c' ->
    exists k, k <= length items /\ out = app_bytes (firstn k items) /\ is_prefix out (app_bytes items) /\
              hc_seq (i_hc c') = be64 (s0 + N.of_nat k) /\ hc_err (i_hc c') = true.
Proof. intros P. exact (prefix_integrity_wire P). Qed.
Print Assumptions C07_prefix_integrity_any_stream.

(* sticky error: once c.in.err is set, every Read returns the error, delivers nothing and leaves the
   connection as it is - forever, since the state does not change *)
Theorem C07_sticky_error :
  forall P fuel c L, hc_err (i_hc c) = true -> L <> 0 ->
    conn_Read P fuel c L = Ok (c, [], true) /\ recv_all P (S fuel) fuel c = Ok ([], c).
Proof.
  intros P fuel c L He HL. split; [apply sticky_error_read; assumption|apply sticky_error_recv; exact He].
Qed.
Print Assumptions C07_sticky_error.

(* the implicit sequence number moves by exactly one per accepted record and not at all on a rejected one
   (no idealisation needed); the sender's side is part of C07_decrypt_encrypt_record *)
Theorem C07_seq_advances_by_one :
  forall P hc data hc' r s, hc_seq hc = be64 s -> (s < 2 ^ 64 - 1)%N -> decrypt P hc data = Ok (hc', r) ->
    hc_seq hc' = be64 (match r with Some _ => s + 1 | None => s end).
Proof. intros P. exact (seq_advances_by_one_lemma P). Qed.
Print Assumptions C07_seq_advances_by_one.

(* what the idealisation is about.  When halfConn.decrypt accepts a record, the logged "witness" is
   exactly what the cryptography vouched for: for the AEAD suite the additional data under which the
   record body opened to the delivered fragment; for the CBC suite the MAC input whose tag stands in the
   decrypted record right behind the delivered fragment.  So [no_forgery] says: no AEAD ciphertext and no
   MAC tag verified in this run unless the sender produced it for that very input. *)
Theorem C07_idealisation_is_about_aead :
  forall P hc key fixed data hc' frag,
    hc_cipher hc = CipherAEAD key fixed -> hc_mac hc = None ->
    decrypt P hc data = Ok (hc', Some frag) ->
    exists nonce ct,
      p_open P key (fixed ++ nonce) (fst (witness_of P hc data frag)) ct = Some frag /\
      snd (witness_of P hc data frag) = frag.
Proof. intros P. exact (witness_sound_aead P). Qed.
Print Assumptions C07_idealisation_is_about_aead.

Theorem C07_idealisation_is_about_mac :
  forall P hc key iv mk data hc' frag,
    hc_cipher hc = CipherCBC key iv -> hc_mac hc = Some mk ->
    decrypt P hc data = Ok (hc', Some frag) ->
    exists pt, frag = firstn (length frag) pt /\
      p_mac P mk (fst (witness_of P hc data frag)) = firstn (p_macSize P) (skipn (length frag) pt).
Proof. intros P. exact (witness_sound_mac P). Qed.
Print Assumptions C07_idealisation_is_about_mac.

(* the receiver model never runs out of fuel when it gets one unit per five inbound bytes (every pass
   consumes at least a record header): the runs the integrity theorems speak about end with Ok, or with
   Panic at the sequence-number wrap *)
Theorem C07_receiver_fuel_suffices :
  forall P rounds fuel c, i_input c = None ->
    length (i_raw c) < 5 * rounds -> length (i_raw c) < 5 * fuel -> recv_all P rounds fuel c <> Hang.
Proof. intros P. exact (recv_all_no_hang P). Qed.
Print Assumptions C07_receiver_fuel_suffices.

(* ======== 4. fragmentation and reassembly ============================================================ *)

(* For every list of application writes (any sizes, any bytes) that Conn.Write accepted: the records on
   the wire protect fragments of at most 2^14 bytes whose concatenation is the concatenation of the
   writes, and a receiver with the same keys and sequence number fed these records over a faithful
   channel delivers exactly that concatenation, in order, before it sees the end of the stream. *)
Theorem C07_fragmentation_in_order :
  forall P, prims_ok P -> p_bs P + p_macSize P + p_bs P + p_overhead P + 8 <= 2048 ->
  forall fuelW cw writes cw' recs s0 hcR rounds fuel,
    sender_ok cw -> hc_seq (o_hc cw) = be64 s0 -> (s0 + N.of_nat (length recs) < 2 ^ 64)%N ->
    write_calls P fuelW cw writes = Ok (cw', recs, false) -> bytes_ok (concat writes) ->
    same_keys (o_hc cw) hcR -> hc_version hcR = VersionGMSSL -> hc_err hcR = false ->
    length recs < rounds ->
    exists c' frs,
      recv_all P rounds (S fuel) (receiver0 hcR VersionGMSSL (concat recs)) = Ok (concat writes, c') /\
      hc_err (i_hc c') = true /\
      concat frs = concat writes /\ Forall (fun f => length f <= maxPlaintext) frs /\ length frs = length recs.
Proof. intros P H Hexp. exact (fragmentation_in_order_lemma P H Hexp). Qed.
Print Assumptions C07_fragmentation_in_order.

(* ======== non-vacuity of 3 and 4: concrete runs with the toy primitives ============================ *)
Definition ex_hc (cs : cipher_state) (mk : option (list N)) := mkHC false VersionGMSSL cs mk (be64 5).
Definition ex_out cs mk := mkOut (ex_hc cs mk) VersionGMSSL 0 0 false (map N.of_nat (seq 0 200)) false.
Definition ex_writes : list (list N) := [[10; 20; 30]; [40; 50]]%N.
Definition ex_records cs mk : list (list N) :=
  match write_calls toy_prims 10 (ex_out cs mk) ex_writes with Ok (_, recs, _) => recs | _ => [] end.
Definition ex_cbc := CipherCBC [1; 2; 3]%N [].
Definition ex_gcm := CipherAEAD [1; 2; 3]%N [4; 5; 6; 7]%N.
(* with a CBC cipher at this protocol version Write sends the first byte in a record of its own *)
Definition ex_items_cbc : list item := [(23, [10]); (23, [20; 30]); (23, [40]); (23, [50])]%N.
Definition ex_items_gcm : list item := [(23, [10; 20; 30]); (23, [40; 50])]%N.
Definition ex_run cs mk items script :=
  match recv_all toy_prims 10 10
          (receiver0 (ex_hc cs mk) VersionGMSSL (apply_script (ex_records cs mk) (ex_records ex_gcm None) [] script)) with
  | Ok (out, c') =>
    Some (out, hc_seq (i_hc c'), hc_err (i_hc c'),
          forallb (auth_ok_b toy_prims (sender_log (is_aead (ex_hc cs mk)) VersionGMSSL 5 items)) (i_trace c'))
  | _ => None
  end.

(* the premises of C07_prefix_integrity hold (no_forgery by computation on the run) and so does its conclusion *)
Example C07_prefix_integrity_examples :
  ex_run ex_cbc (Some [9; 9]%N) ex_items_cbc [Deliver 0; Deliver 1; FlipBit 2 25 0; Deliver 3]
    = Some ([10; 20; 30]%N, be64 7, true, true) /\
  ex_run ex_cbc (Some [9; 9]%N) ex_items_cbc [Deliver 0; Deliver 2; Deliver 1] = Some ([10]%N, be64 6, true, true) /\
  ex_run ex_cbc (Some [9; 9]%N) ex_items_cbc [Deliver 0; Deliver 0] = Some ([10]%N, be64 6, true, true) /\
  ex_run ex_cbc (Some [9; 9]%N) ex_items_cbc [Deliver 0; ReplayOther 0; Deliver 1] = Some ([10]%N, be64 6, true, true) /\
  ex_run ex_cbc (Some [9; 9]%N) ex_items_cbc [Deliver 0; Truncate 1 3 true; Deliver 2] = Some ([10]%N, be64 6, true, true) /\
  ex_run ex_cbc (Some [9; 9]%N) ex_items_cbc [Deliver 0; SetType 1 21; Deliver 2] = Some ([10]%N, be64 6, true, true) /\
  ex_run ex_gcm None ex_items_gcm [Deliver 0; FlipBit 1 20 7] = Some ([10; 20; 30]%N, be64 6, true, true) /\
  ex_run ex_gcm None ex_items_gcm [Deliver 1; Deliver 0] = Some ([], be64 5, true, true) /\
  ex_run ex_gcm None ex_items_gcm [Deliver 0; SetLength 1 19; Deliver 1] = Some ([10; 20; 30]%N, be64 6, true, true) /\
  ex_run ex_gcm None ex_items_gcm [Deliver 0; Deliver 1; Inject [21; 1; 1; 0; 2; 1; 0]%N]
    = Some ([10; 20; 30; 40; 50]%N, be64 7, true, true).
Proof. vm_compute. repeat split; reflexivity. Qed.

Example C07_no_forgery_satisfiable :
  exists out c',
    recv_all toy_prims 10 10 (receiver0 (ex_hc ex_cbc (Some [9; 9]%N)) VersionGMSSL
      (apply_script (ex_records ex_cbc (Some [9; 9]%N)) [] [] [Deliver 0; Deliver 1; FlipBit 2 25 0; Deliver 3]))
      = Ok (out, c') /\
    no_forgery toy_prims (sender_log (is_aead (ex_hc ex_cbc (Some [9; 9]%N))) VersionGMSSL 5 ex_items_cbc) c' /\
    protected (ex_hc ex_cbc (Some [9; 9]%N)).
Proof.
  eexists _, _. split; [vm_compute; reflexivity|]. split.
  - apply no_forgery_b_sound. vm_compute. reflexivity.
  - right. split; [reflexivity|discriminate].
Qed.

(* the premises of C07_fragmentation_in_order hold for the toy run, both cipher shapes *)
Example C07_fragmentation_examples :
  write_calls toy_prims 10 (ex_out ex_cbc (Some [9; 9]%N)) ex_writes
    = Ok (fst (fst (match write_calls toy_prims 10 (ex_out ex_cbc (Some [9; 9]%N)) ex_writes with
                    | Ok x => x | _ => (ex_out ex_cbc None, [], true) end)),
          ex_records ex_cbc (Some [9; 9]%N), false) /\
  map (@length N) (ex_records ex_cbc (Some [9; 9]%N)) = [69; 69; 69; 69] /\
  map (@length N) (ex_records ex_gcm None) = [32; 31] /\
  sender_ok (ex_out ex_cbc (Some [9; 9]%N)) /\ sender_ok (ex_out ex_gcm None) /\
  ex_run ex_cbc (Some [9; 9]%N) ex_items_cbc [Deliver 0; Deliver 1; Deliver 2; Deliver 3]
    = Some ([10; 20; 30; 40; 50]%N, be64 9, true, true) /\
  ex_run ex_gcm None ex_items_gcm [Deliver 0; Deliver 1] = Some ([10; 20; 30; 40; 50]%N, be64 7, true, true).
Proof.
  split; [vm_compute; reflexivity|]. split; [vm_compute; reflexivity|]. split; [vm_compute; reflexivity|].
  assert (Hr : bytes_ok (map N.of_nat (seq 0 200))).
  { unfold bytes_ok. apply Forall_forall. intros x Hx. apply in_map_iff in Hx. destruct Hx as [y [<- Hy]].
    apply in_seq in Hy. lia. }
  split; [split; [reflexivity|]; split; [reflexivity|]; split; [exists 5%N; split; [reflexivity|reflexivity]|];
          split; [discriminate|exact Hr]|].
  split; [split; [reflexivity|]; split; [reflexivity|]; split; [exists 5%N; split; [reflexivity|reflexivity]|];
          split; [discriminate|exact Hr]|].
  split; vm_compute; reflexivity.
Qed.

(* ======== 5. the same for the primitives gmtls really runs ========================================= *)

(* SM4 (any list of round keys: the Feistel structure inverts for every key schedule, C05), HMAC-SM3
   (32 bytes of output), GCM over SM4 (SP 800-38D, 12-byte IVs): the premises on the primitives hold.
   [sm4_prims] is the instance the extracted runner is run with. *)
Theorem C07_sm4_prims_ok : prims_ok sm4_prims.
Proof. exact sm4_prims_ok. Qed.
Print Assumptions C07_sm4_prims_ok.

Theorem C07_decrypt_encrypt_record_sm4 :
  forall w r s h3 eiv frag,
    same_keys w r -> hc_seq w = be64 s -> (s < 2 ^ 64 - 1)%N -> hc_version r = VersionGMSSL ->
    length h3 = 3 -> length eiv = explicit_len sm4_prims (hc_cipher w) -> bytes_ok eiv -> bytes_ok frag ->
    (N.of_nat (length frag) < 2 ^ 29)%N ->
    exists w' rec_ r',
      encrypt sm4_prims w (h3 ++ len_bytes (length frag) ++ eiv ++ frag) (length eiv) = Ok (w', rec_) /\
      decrypt sm4_prims r rec_ = Ok (r', Some frag) /\
      hc_seq w' = be64 (s + 1) /\ hc_seq r' = be64 (s + 1) /\ same_keys w' r'.
Proof.
  intros w r s h3 eiv frag Hk Hs Hlt Hv Hh He Heb Hfb Hsz.
  destruct (decrypt_encrypt_record_ok sm4_prims sm4_prims_ok w r s h3 eiv frag Hk Hs Hlt Hv Hh He Heb Hfb)
    as [w' [rec_ [r' [H1 [H2 [H3 [H4 [H5 _]]]]]]]].
  - cbn [sm4_prims p_macSize]. change (2 ^ 29)%N with 536870912%N in Hsz. change (2 ^ 30)%N with 1073741824%N. lia.
  - exists w', rec_, r'. auto.
Qed.
Print Assumptions C07_decrypt_encrypt_record_sm4.

Theorem C07_fragmentation_in_order_sm4 :
  forall fuelW cw writes cw' recs s0 hcR rounds fuel,
    sender_ok cw -> hc_seq (o_hc cw) = be64 s0 -> (s0 + N.of_nat (length recs) < 2 ^ 64)%N ->
    write_calls sm4_prims fuelW cw writes = Ok (cw', recs, false) -> bytes_ok (concat writes) ->
    same_keys (o_hc cw) hcR -> hc_version hcR = VersionGMSSL -> hc_err hcR = false ->
    length recs < rounds ->
    exists c' frs,
      recv_all sm4_prims rounds (S fuel) (receiver0 hcR VersionGMSSL (concat recs)) = Ok (concat writes, c') /\
      hc_err (i_hc c') = true /\
      concat frs = concat writes /\ Forall (fun f => length f <= maxPlaintext) frs /\ length frs = length recs.
Proof. exact (fragmentation_in_order_lemma sm4_prims sm4_prims_ok sm4_expansion_ok). Qed.
Print Assumptions C07_fragmentation_in_order_sm4.

(* the only premise left is the idealisation: no forged HMAC-SM3 tag / SM4-GCM ciphertext is accepted *)
Theorem C07_prefix_integrity_sm4 :
  forall ver s0 items hc vers genuine other foreign script rounds fuel out c',
    (s0 + N.of_nat (length items) < 2 ^ 64)%N ->
    Forall (fun it : item => length (snd it) <= maxPlaintext) items ->
    hc_err hc = false -> hc_seq hc = be64 s0 -> protected hc ->
    recv_all sm4_prims rounds fuel (receiver0 hc vers (apply_script genuine other foreign script)) = Ok (out, c') ->
    no_forgery sm4_prims (sender_log (is_aead hc) ver s0 items) c' ->
    exists k, k <= length items /\ out = app_bytes (firstn k items) /\ is_prefix out (app_bytes items) /\
              hc_seq (i_hc c') = be64 (s0 + N.of_nat k) /\ hc_err (i_hc c') = true.
Proof. intros. eapply prefix_integrity_wire; eassumption. Qed.
Print Assumptions C07_prefix_integrity_sm4.

(* ======== 6. the sender makes progress; both directions stop after a failure ======================= *)

(* With the SM4 suites, Conn.Write never fails for want of room: given one block of config.rand() per
   byte written (a crude bound; one block per record is what is used), a sequence number that stays below
   2^64 and fuel for the longest write, every Write returns (len, nil) - and the receiver delivers the
   concatenation of the writes.  No premise on the primitives, no "Write accepted" premise. *)
Theorem C07_writes_arrive_sm4 :
  forall fuelW cw writes s0 hcR rounds fuel,
    sender_ok cw -> protected (o_hc cw) -> hc_seq (o_hc cw) = be64 s0 ->
    hc_err (o_hc cw) = false -> o_closeNotifySent cw = false ->
    (s0 + N.of_nat (total_len writes) < 2 ^ 64)%N -> 16 * total_len writes <= length (o_rand cw) ->
    max_len writes <= fuelW -> bytes_ok (concat writes) ->
    same_keys (o_hc cw) hcR -> hc_version hcR = VersionGMSSL -> hc_err hcR = false ->
    total_len writes < rounds ->
    exists cw' recs c' frs,
      write_calls sm4_prims fuelW cw writes = Ok (cw', recs, false) /\
      recv_all sm4_prims rounds (S fuel) (receiver0 hcR VersionGMSSL (concat recs)) = Ok (concat writes, c') /\
      hc_err (i_hc c') = true /\
      concat frs = concat writes /\ Forall (fun f => length f <= maxPlaintext) frs /\ length frs = length recs.
Proof. exact (fragmentation_total sm4_prims sm4_prims_ok sm4_expansion_ok sm4_maxPayload_pos). Qed.
Print Assumptions C07_writes_arrive_sm4.

(* the same for any primitives that satisfy the premises and leave room for payload *)
Theorem C07_writes_arrive :
  forall P, prims_ok P -> p_bs P + p_macSize P + p_bs P + p_overhead P + 8 <= 2048 ->
    (forall c typ e, e <= 8 + p_bs P -> 1 <= fst (maxPayloadSizeForWrite P c typ e)) ->
  forall fuelW cw writes s0 hcR rounds fuel,
    sender_ok cw -> protected (o_hc cw) -> hc_seq (o_hc cw) = be64 s0 ->
    hc_err (o_hc cw) = false -> o_closeNotifySent cw = false ->
    (s0 + N.of_nat (total_len writes) < 2 ^ 64)%N -> p_bs P * total_len writes <= length (o_rand cw) ->
    max_len writes <= fuelW -> bytes_ok (concat writes) ->
    same_keys (o_hc cw) hcR -> hc_version hcR = VersionGMSSL -> hc_err hcR = false ->
    total_len writes < rounds ->
    exists cw' recs c' frs,
      write_calls P fuelW cw writes = Ok (cw', recs, false) /\
      recv_all P rounds (S fuel) (receiver0 hcR VersionGMSSL (concat recs)) = Ok (concat writes, c') /\
      hc_err (i_hc c') = true /\
      concat frs = concat writes /\ Forall (fun f => length f <= maxPlaintext) frs /\ length frs = length recs.
Proof. intros P H1 H2 H3. exact (fragmentation_total P H1 H2 H3). Qed.
Print Assumptions C07_writes_arrive.

(* Full duplex.  (a) Whenever Conn.Read makes the connection send records (the alert readRecord hands to
   sendAlert), the receiving side has failed for good. *)
Theorem C07_alert_means_failed :
  forall P fuel c L c' out err recs,
    conn_Read_duplex P fuel c L = Ok (c', out, err, recs) -> recs <> [] -> hc_err (i_hc (c_in c')) = true.
Proof. intros P. exact (duplex_alert_means_failed P). Qed.
Print Assumptions C07_alert_means_failed.

(* (b) The fatal alert is one protected record; afterwards every Write of the failed endpoint returns an
   error without writing; the peer - whose receiving half connection matches - delivers exactly what was
   written before the failure, reads the alert and ends in the permanent error state, whatever follows
   on the wire.  (sendAlert uses warning level only for no_renegotiation and close_notify.) *)
Theorem C07_both_directions_stop_sm4 :
  forall fuelW cw writes cw1 recs s0 hcR a fuelA fuel rounds tail,
    sender_ok cw -> protected (o_hc cw) -> hc_seq (o_hc cw) = be64 s0 ->
    (s0 + N.of_nat (length recs) + 1 < 2 ^ 64)%N ->
    write_calls sm4_prims fuelW cw writes = Ok (cw1, recs, false) -> bytes_ok (concat writes) ->
    16 <= length (o_rand cw1) ->
    (a < 256)%N -> (a =? alertNoRenegotiation)%N = false -> (a =? alertCloseNotify)%N = false ->
    same_keys (o_hc cw) hcR -> hc_version hcR = VersionGMSSL -> hc_err hcR = false ->
    length recs + 1 < rounds ->
    exists cw2 r cR',
      sendAlertLocked sm4_prims (S (S fuelA)) cw1 a = Ok (cw2, [r], true) /\
      hc_err (o_hc cw2) = true /\
      (forall f b, conn_Write sm4_prims f cw2 b = Ok (cw2, [], 0, true)) /\
      recv_all sm4_prims rounds (S fuel) (receiver0 hcR VersionGMSSL (concat recs ++ r ++ tail))
        = Ok (concat writes, cR') /\
      hc_err (i_hc cR') = true.
Proof. exact (duplex_fatal_alert sm4_prims sm4_prims_ok sm4_expansion_ok sm4_maxPayload_pos). Qed.
Print Assumptions C07_both_directions_stop_sm4.

(* non-vacuity of 6 with the toy primitives: a receiver fed a corrupted record sends bad_record_mac; the
   alert record makes the peer fail; the failed endpoint cannot write any more *)
Example C07_duplex_example :
  let A := mkConn (receiver0 (ex_hc ex_gcm None) VersionGMSSL
                     (apply_script (ex_records ex_gcm None) [] [] [Deliver 0; FlipBit 1 20 7]))
                  (ex_out ex_cbc (Some [9; 9]%N)) in
  match conn_Read_duplex toy_prims 10 A 100 with
  | Ok (A1, out1, err1, _) =>
    match conn_Read_duplex toy_prims 10 A1 100 with
    | Ok (A2, out2, err2, recs) =>
      out1 = [10; 20; 30]%N /\ err1 = false /\ out2 = [] /\ err2 = true /\ length recs = 1 /\
      i_alerts (c_in A2) = [alertBadRecordMAC] /\ hc_err (o_hc (c_out A2)) = true /\
      conn_Write toy_prims 10 (c_out A2) [1; 2; 3]%N = Ok (c_out A2, [], 0, true) /\
      (* the peer of A's sending direction *)
      match recv_all toy_prims 10 10 (receiver0 (ex_hc ex_cbc (Some [9; 9]%N)) VersionGMSSL (concat recs ++ [23; 1; 1]%N)) with
      | Ok (outB, cB) => outB = [] /\ hc_err (i_hc cB) = true /\ i_alerts cB = []
      | _ => False
      end
    | _ => False
    end
  | _ => False
  end.
Proof. vm_compute. repeat split; reflexivity. Qed.

(* ======== 7. the sequence number reset on ChangeCipherSpec ========================================== *)

(* readRecord during the handshake (want = handshake or ChangeCipherSpec): a call that returns without error
   either leaves the pending cipher spec untouched, or it was asked for a ChangeCipherSpec, NO handshake
   bytes were waiting in c.hand (none before, none after), and it installed exactly the pending cipher and
   MAC with the sequence number reset to zero. *)
Theorem C07_ccs_activation :
  forall P fuel want s s',
    readRecord_hs P fuel want s = Ok s' -> hc_err (i_hc (s_in s')) = false ->
    s_next s' = s_next s \/
    (want = recordTypeChangeCipherSpec /\ s_hand s = [] /\ s_hand s' = [] /\ s_next s' = None /\
     exists cs mac, s_next s = Some (cs, mac) /\
       hc_cipher (i_hc (s_in s')) = cs /\ hc_mac (i_hc (s_in s')) = mac /\ hc_seq (i_hc (s_in s')) = repeat 0%N 8).
Proof. intros P. exact (ccs_activation P). Qed.
Print Assumptions C07_ccs_activation.

Example C07_ccs_examples :
  let hc := mkHC false VersionGMSSL CipherNone None (be64 5) in
  let next := Some (ex_gcm, None) in
  let s hand wire := mkHS (mkIn hc VersionGMSSL wire None 0 [] []) true hand next in
  let show r := match r with
                | Ok (failed, s') => Some (failed, hc_seq (i_hc (s_in s')), kind (hc_cipher (i_hc (s_in s'))), i_alerts (s_in s'))
                | _ => None end in
  (* accepted: sequence number reset, cipher switched *)
  show (readRecords_hs toy_prims 8 [20%N] 0 (s [] [20; 1; 1; 0; 1; 1]%N)) = Some (None, repeat 0%N 8, 1, []) /\
  (* a whole handshake message is still waiting in c.hand: unexpected_message, nothing switched *)
  show (readRecords_hs toy_prims 8 [20%N] 0 (s [20; 0; 0; 0]%N [20; 1; 1; 0; 1; 1]%N))
    = Some (Some 0, be64 6, 0, [alertUnexpectedMessage]) /\
  (* a ChangeCipherSpec nobody asked for *)
  show (readRecords_hs toy_prims 8 [22%N] 0 (s [] [20; 1; 1; 0; 1; 1]%N)) = Some (Some 0, be64 6, 0, [alertUnexpectedMessage]).
Proof. vm_compute. repeat split; reflexivity. Qed.

(* ======== 8. Read never drops the unread part of a record ========================================= *)

(* With a buffer smaller than what is left of the current record, Read hands out exactly the first L bytes
   and keeps the rest; the look-ahead for a waiting alert (close_notify) cannot run while unread data is
   pending.  With a buffer that holds the rest, all of it is handed out before the look-ahead may consume an
   alert record. *)
Theorem C07_read_keeps_unread_tail :
  forall P fuel c d L,
    i_input c = Some d -> hc_err (i_hc c) = false -> 1 <= L -> L < length d ->
    conn_Read P fuel c L = Ok (with_input c (Some (skipn L d)), firstn L d, false).
Proof. intros P. exact (read_keeps_unread_tail P). Qed.
Print Assumptions C07_read_keeps_unread_tail.

Theorem C07_read_hands_out_rest :
  forall P fuel c d L c' out err,
    i_input c = Some d -> hc_err (i_hc c) = false -> d <> [] -> length d <= L ->
    conn_Read P fuel c L = Ok (c', out, err) ->
    out = d /\ (c' = with_input c None \/ readRecord P fuel (with_input c None) = Ok c').
Proof. intros P. exact (read_hands_out_rest P). Qed.
Print Assumptions C07_read_hands_out_rest.

(* Conn.Read is chunking-independent: for ANY list of caller buffer sizes (each >= 1) the bytes a sequence
   of Read calls returns are a prefix of the bytes the connection delivers record by record (recv_all), and
   they are all of them once the connection has reached the permanent error - Read, with its loop over empty
   records and its look-ahead for a waiting alert, neither drops nor duplicates nor reorders a byte. *)
Theorem C07_read_chunking_independent :
  forall P fuel bufs c out err c' r tot cf,
    Forall (fun L => 1 <= L) bufs -> i_input c = None ->
    read_calls P fuel c bufs = Ok (out, err, c') -> recv_all P r fuel c = Ok (tot, cf) ->
    is_prefix out tot /\ (hc_err (i_hc c') = true -> out = tot).
Proof. intros P fuel. exact (read_calls_chunking P fuel). Qed.
Print Assumptions C07_read_chunking_independent.

(* hence the integrity statement at the level of the application's Read calls: whatever the attacker makes
   of the stream and however the application sizes its buffers, what Read returns is a prefix of what the
   sender wrote (same idealisation as C07_prefix_integrity, stated for the record-by-record run) *)
Theorem C07_prefix_integrity_read :
  forall P ver s0 items hc vers wire rounds fuel bufs out err c1 tot c',
    (s0 + N.of_nat (length items) < 2 ^ 64)%N ->
    Forall (fun it : item => length (snd it) <= maxPlaintext) items ->
    hc_err hc = false -> hc_seq hc = be64 s0 -> protected hc ->
    Forall (fun L => 1 <= L) bufs ->
    read_calls P fuel (receiver0 hc vers wire) bufs = Ok (out, err, c1) ->
    recv_all P rounds fuel (receiver0 hc vers wire) = Ok (tot, c') ->
    no_forgery P (sender_log (is_aead hc) ver s0 items) c' ->
    is_prefix out (app_bytes items).
Proof.
  intros P ver s0 items hc vers wire rounds fuel bufs out err c1 tot c' Hb Hsz He Hs Hp HF Hrd Hrv Hnf.
  destruct (prefix_integrity_wire P ver s0 items hc vers wire rounds fuel tot c' Hb Hsz He Hs Hp Hrv Hnf)
    as [k [_ [_ [[t2 Ht2] _]]]].
  destruct (read_calls_chunking P fuel bufs (receiver0 hc vers wire) out err c1 rounds tot c' HF (eq_refl : i_input (receiver0 hc vers wire) = None) Hrd Hrv) as [[t1 Ht1] _].
  exists (t1 ++ t2). rewrite Ht2, Ht1, app_assoc. reflexivity.
Qed.
Print Assumptions C07_prefix_integrity_read.

(* ======== 9. the GCM nonce never repeats ================================================================= *)

(* AEAD sibling of C07_cbc_iv_from_stream: one pass of writeRecordLocked's loop with an AEAD cipher puts the
   sequence number into the explicit nonce field (no randomness is consumed), seals under salt || seq with
   additional data seq || type || version || length, and the nonce travels in clear behind the header. *)
Theorem C07_gcm_nonce_is_seq :
  forall P, prims_ok P -> forall c typ data c1 rec_ m key fixed s,
    hc_cipher (o_hc c) = CipherAEAD key fixed -> hc_mac (o_hc c) = None ->
    hc_seq (o_hc c) = be64 s -> (s < 2 ^ 64 - 1)%N ->
    writeRecord_step P c typ data = Ok (Some (c1, rec_, m)) ->
    o_rand c1 = o_rand c /\
    exists hdr hdr', length hdr = 5 /\ length hdr' = 5 /\ firstn 3 hdr = firstn 3 hdr' /\
      encrypt P (o_hc c) (hdr ++ be64 s ++ firstn m data) 8 = Ok (o_hc c1, rec_) /\
      rec_ = hdr' ++ be64 s ++ p_seal P key (gcm_nonce fixed (be64 s))
                                    (be64 s ++ firstn 3 hdr ++ len_bytes (length (firstn m data))) (firstn m data).
Proof. intros P H. exact (gcm_nonce_is_seq_lemma P H). Qed.
Print Assumptions C07_gcm_nonce_is_seq.

(* Any history of Write calls on one connection with an AEAD suite, fewer than 2^64 records in all: record j
   carries the explicit nonce be64 (s0 + j) - the sequence number -, the explicit nonces (hence the GCM
   nonces salt || explicit) are pairwise distinct, and record j is header, nonce, seal under salt || nonce
   with additional data seq || application_data || version || fragment length, over fragments that
   concatenate to the writes. *)
Theorem C07_gcm_nonces_never_repeat :
  forall P, prims_ok P -> p_bs P + p_macSize P + p_bs P + p_overhead P + 8 <= 2048 ->
  forall fuel cw writes cw' recs key fixed s0,
    sender_ok cw -> hc_cipher (o_hc cw) = CipherAEAD key fixed -> hc_mac (o_hc cw) = None ->
    hc_seq (o_hc cw) = be64 s0 -> (s0 + N.of_nat (length recs) < 2 ^ 64)%N ->
    write_calls P fuel cw writes = Ok (cw', recs, false) ->
    map explicit_nonce recs = map (fun j => be64 (s0 + N.of_nat j)) (seq 0 (length recs)) /\
    NoDup (map explicit_nonce recs) /\
    exists frs, concat frs = concat writes /\
      forall j r, nth_error recs j = Some r ->
        exists fr hdr', nth_error frs j = Some fr /\ length hdr' = 5 /\
          r = hdr' ++ be64 (s0 + N.of_nat j) ++
              p_seal P key (gcm_nonce fixed (be64 (s0 + N.of_nat j)))
                     (aad (s0 + N.of_nat j) recordTypeApplicationData VersionGMSSL (length fr)) fr.
Proof. intros P H Hexp. exact (gcm_nonces_never_repeat P H Hexp). Qed.
Print Assumptions C07_gcm_nonces_never_repeat.

Theorem C07_gcm_nonces_never_repeat_sm4 :
  forall fuel cw writes cw' recs key fixed s0,
    sender_ok cw -> hc_cipher (o_hc cw) = CipherAEAD key fixed -> hc_mac (o_hc cw) = None ->
    hc_seq (o_hc cw) = be64 s0 -> (s0 + N.of_nat (length recs) < 2 ^ 64)%N ->
    write_calls sm4_prims fuel cw writes = Ok (cw', recs, false) ->
    map explicit_nonce recs = map (fun j => be64 (s0 + N.of_nat j)) (seq 0 (length recs)) /\
    NoDup (map explicit_nonce recs).
Proof.
  intros fuel cw writes cw' recs key fixed s0 Hs Ec Em Hseq Hb Hw.
  destruct (gcm_nonces_never_repeat sm4_prims sm4_prims_ok sm4_expansion_ok fuel cw writes cw' recs key fixed s0
              Hs Ec Em Hseq Hb Hw) as [H1 [H2 _]]. auto.
Qed.
Print Assumptions C07_gcm_nonces_never_repeat_sm4.

(* non-vacuity: the toy run of section 4 with the AEAD shape (sequence number 5): two records, nonces 5, 6 *)
Example C07_gcm_nonce_example :
  write_calls toy_prims 10 (ex_out ex_gcm None) ex_writes
    = Ok (fst (fst (match write_calls toy_prims 10 (ex_out ex_gcm None) ex_writes with
                    | Ok x => x | _ => (ex_out ex_gcm None, [], true) end)), ex_records ex_gcm None, false) /\
  map explicit_nonce (ex_records ex_gcm None) = [be64 5; be64 6] /\
  hc_cipher (o_hc (ex_out ex_gcm None)) = CipherAEAD [1; 2; 3]%N [4; 5; 6; 7]%N /\
  hc_seq (o_hc (ex_out ex_gcm None)) = be64 5.
Proof. vm_compute. repeat split; reflexivity. Qed.

(* ======== 10. fresh explicit IVs over a whole history (CBC) ============================================== *)

(* Any history of Write calls of a sender with the CBC suite (any number of calls and records, also a history
   that ends in a failed Write): the explicit IVs on the wire are, in order, exactly what the sender consumed of
   config.rand() - record j of the history carries block j of the stream (so no block is used for two records,
   and no record carries anything but its own fresh block: no IV is derived from an earlier record, a pool that
   ran dry or a reused buffer) - and they are pairwise distinct whenever the blocks the entropy source
   delivered are (the only premise about the source; for a uniform source two of n 128-bit blocks collide with
   probability <= n^2 / 2^129). *)
Theorem C07_cbc_ivs_fresh_over_history :
  forall P, prims_ok P ->
  forall fuel cw writes cw' recs err,
    cbc_sender cw -> write_calls P fuel cw writes = Ok (cw', recs, err) ->
    concat (map (explicit_iv P) recs) ++ o_rand cw' = o_rand cw /\
    map (explicit_iv P) recs = stream_blocks (p_bs P) (length recs) (o_rand cw) /\
    (forall j r, nth_error recs j = Some r ->
       explicit_iv P r = firstn (p_bs P) (skipn (j * p_bs P) (o_rand cw))) /\
    (NoDup (stream_blocks (p_bs P) (length recs) (o_rand cw)) -> NoDup (map (explicit_iv P) recs)).
Proof. intros P H. exact (cbc_ivs_fresh_over_history P H). Qed.
Print Assumptions C07_cbc_ivs_fresh_over_history.

Theorem C07_cbc_ivs_fresh_over_history_sm4 :
  forall fuel cw writes cw' recs err,
    cbc_sender cw -> write_calls sm4_prims fuel cw writes = Ok (cw', recs, err) ->
    map (explicit_iv sm4_prims) recs = stream_blocks 16 (length recs) (o_rand cw) /\
    (NoDup (stream_blocks 16 (length recs) (o_rand cw)) -> NoDup (map (explicit_iv sm4_prims) recs)).
Proof.
  intros fuel cw writes cw' recs err Hs Hw.
  destruct (cbc_ivs_fresh_over_history sm4_prims sm4_prims_ok fuel cw writes cw' recs err Hs Hw) as [_ [H1 [_ H2]]].
  split; [exact H1|exact H2].
Qed.
Print Assumptions C07_cbc_ivs_fresh_over_history_sm4.

(* non-vacuity: a history of 20 Write calls (10 of one byte, 10 of two bytes: 1/n-1 split) = 30 records on one toy
   CBC connection, more than a pool of 16: the hypotheses hold, the run succeeds, the 30 explicit IVs are the
   first 30 blocks of the stream and pairwise distinct *)
Definition ex_long_rand : list N := map (fun i => N.of_nat ((i + i / 256) mod 256)) (seq 0 600).
Definition ex_long_out :=
  mkOut (mkHC false VersionGMSSL (CipherCBC [1; 2; 3]%N []) (Some [9; 9]%N) (be64 1)) VersionGMSSL 0 0 false ex_long_rand false.
Definition ex_long_writes : list (list N) :=
  map (fun i => if i mod 2 =? 0 then [N.of_nat i] else [N.of_nat i; 7%N]) (seq 0 20).
Definition ex_long_records : list (list N) :=
  match write_calls toy_prims 10 ex_long_out ex_long_writes with Ok (_, recs, _) => recs | _ => [] end.

Example C07_cbc_iv_history_example :
  cbc_sender ex_long_out /\
  (exists cw', write_calls toy_prims 10 ex_long_out ex_long_writes = Ok (cw', ex_long_records, false)) /\
  length ex_long_records = 30 /\
  map (explicit_iv toy_prims) ex_long_records = stream_blocks (p_bs toy_prims) 30 ex_long_rand /\
  NoDup (stream_blocks (p_bs toy_prims) 30 ex_long_rand) /\
  NoDup (map (explicit_iv toy_prims) ex_long_records).
Proof.
  assert (Hnd : NoDup (stream_blocks (p_bs toy_prims) 30 ex_long_rand)).
  { assert (E : nodup (list_eq_dec N.eq_dec) (stream_blocks (p_bs toy_prims) 30 ex_long_rand)
                = stream_blocks (p_bs toy_prims) 30 ex_long_rand) by (vm_compute; reflexivity).
    rewrite <- E. apply NoDup_nodup. }
  assert (Hm : map (explicit_iv toy_prims) ex_long_records = stream_blocks (p_bs toy_prims) 30 ex_long_rand)
    by (vm_compute; reflexivity).
  split; [split; reflexivity|].
  split; [eexists; vm_compute; reflexivity|].
  split; [vm_compute; reflexivity|].
  split; [exact Hm|]. split; [exact Hnd|]. rewrite Hm. exact Hnd.
Qed.
