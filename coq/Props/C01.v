(* C01 - SM2 signatures are complete, sound and match GM/T 0003.2.
   Property theorems only; each is closed by lemmas of SM2/SM2SignProofs.v, SM2/DERProofs.v,
   SM2/SM2Group.v and followed by Print Assumptions.
   Model: SM2/SM2Model.v (follows /repo/sm2/sm2.go function by function, RELATIVE TO C03: the curve
   methods are the affine operations of EC/SM2Curve.v with infinity written (0,0)), SM2/DER.v (cryptobyte).
   Specification: SM2/SM2Spec.v (GM/T 0003.2 over EC/SM2Curve.v and SM3/SM3Spec.v). *)
From Coq Require Import List NArith ZArith Bool Lia Arith.
From GmsmVerif Require Import Lib.Outcome EC.ECAffine EC.SM2Curve SM3.SM3Spec
     SM2.SM2Bytes SM2.SM2BytesProofs SM2.SM2Spec SM2.DER SM2.SM2Model SM2.SM2SignProofs SM2.DERProofs SM2.SM2Group.
From GmsmVerif Require Import SM2.SM2ParamsTie Gen.SM2Params Gen.SM2SigParams.
From GmsmVerif Require Import SM2.SM2SignExtra.
From GmsmVerif Require SM2.SM2GroupMin.   (* minimal-premise versions; used qualified *)
From GmsmVerif Require Import SM2.SM2Consumers.
From GmsmVerif Require SM2.SM2Audit1.
From GmsmVerif Require SM2.SM2Unconditional.   (* associativity proved: SM2/ECAssoc.v *)
Import ListNotations.
Open Scope Z_scope.

(* ---- 1. signing = GM/T 0003.2 for the first admissible nonce of the stream ------------------------------
   For every private value d with gcd(1+d, n) = 1 (every d in [1, n-2] when n is prime), every digest e
   and every stream rho: attempt i uses k_i = (OS2IP(rho[40i, 40i+40)) mod (n-1)) + 1; the loop returns the
   standard's (r, s) for the first i whose k_i is not sent back to A3 (r = 0, r + k = n, s = 0), leaves
   the reader after byte 40(i+1), and fails (reader error) exactly when no full attempt passes.
   Fuel |rho|/40 + 1 suffices: the loop never hangs. *)
Theorem C01_sign_is_standard :
  forall d e rho fuel,
    Z.gcd (d + 1) sm2_n = 1 -> (length rho / 40 < fuel)%nat ->
    sign_loop fuel d e rho =
    match sign_spec d e rho with
    | Some (i, (r, s)) => Ok (r, s, skipn (40 * S i) rho)
    | None => Err 2
    end.
Proof. exact sign_loop_is_spec. Qed.
Print Assumptions C01_sign_is_standard.

(* ... where sign_spec picks the FIRST passing attempt, and None means that every full attempt fails *)
Theorem C01_sign_spec_first_nonce :
  forall d e rho i rs,
    sign_spec d e rho = Some (i, rs) <->
    (i < length rho / 40)%nat /\ sign_with_nonce d e (nonce_at rho i) = Some rs /\
    (forall j, (j < i)%nat -> sign_with_nonce d e (nonce_at rho j) = None).
Proof.
  intros. unfold sign_spec. rewrite sign_search_some. cbn [Nat.add].
  split; intros (H1 & H2 & H3); (split; [lia|split; [exact H2|intros j Hj; apply H3; lia]]).
Qed.
Print Assumptions C01_sign_spec_first_nonce.

Theorem C01_sign_fails_iff_stream_runs_out :
  forall d e rho,
    sign_spec d e rho = None <->
    (forall j, (j < length rho / 40)%nat -> sign_with_nonce d e (nonce_at rho j) = None).
Proof.
  intros. unfold sign_spec. rewrite sign_search_none. cbn [Nat.add].
  split; intros H j Hj; apply H; lia.
Qed.
Print Assumptions C01_sign_fails_iff_stream_runs_out.

(* ... the reader is left exactly 40 (i+1) bytes further *)
Theorem C01_sign_consumes :
  forall d e (rho : list byte) i rs,
    sign_spec d e rho = Some (i, rs) ->
    (length rho - length (skipn (40 * S i) rho) = 40 * (i + 1))%nat.
Proof.
  intros d e rho i rs H. apply C01_sign_spec_first_nonce in H as (Hi & _ & _).
  rewrite skipn_length. pose proof (Nat.div_mod (length rho) 40 ltac:(lia)). lia.
Qed.
Print Assumptions C01_sign_consumes.

(* ... and the whole of Sm2Sign: e is the standard's e for the key, message and ID *)
Theorem C01_Sm2Sign_is_standard :
  forall fuel d pub msg uid rho,
    Z.of_nat (length (uid_or_default uid)) < 8192 -> 0 <= fst pub < 2 ^ 256 -> 0 <= snd pub < 2 ^ 256 ->
    Sm2Sign fuel (mkPriv d pub) msg uid rho = sign_loop fuel d (e_spec pub (uid_or_default uid) msg) rho.
Proof. exact Sm2Sign_is_sign_loop. Qed.
Print Assumptions C01_Sm2Sign_is_standard.

Theorem C01_Sm2Sign_rejects_long_id :
  forall fuel pr msg uid rho, 8192 <= Z.of_nat (length uid) -> Sm2Sign fuel pr msg uid rho = Err 1.
Proof. exact Sm2Sign_long_id. Qed.
Print Assumptions C01_Sm2Sign_rejects_long_id.

(* ---- 2. verification accepts exactly the relation of GM/T 0003.2 7.1 -------------------------------------
   For every public key (any pair of integers), digest, r, s.  [api_point] is the identity except that
   the Go API cannot tell the pair (0,0) from the point at infinity (theorem 2b removes it for curve
   points); x_of infinity is 0: the standard is silent there and the code decides. *)
Theorem C01_verify_characterisation :
  forall pub hash r s, Verify pub hash r s = true <-> verify_api pub (os2ip hash) r s.
Proof. exact Verify_iff. Qed.
Print Assumptions C01_verify_characterisation.

Theorem C01_Sm2Verify_characterisation :
  forall pub msg uid r s,
    Sm2Verify pub msg uid r s = true <->
    exists za, ZA pub (uid_or_default uid) = Ok za /\ verify_api pub (msgHash za msg) r s.
Proof. exact Sm2Verify_iff. Qed.
Print Assumptions C01_Sm2Verify_characterisation.

(* 2b. for a public key that is a point of the curve, under SM2Facts, the relation is literally B1-B7 *)
Theorem C01_verify_is_standard_on_curve :
  SM2Facts -> forall pub e r s,
    sm2_valid (Some pub) = true ->
    (verify_api pub e r s <-> verify_spec (Some pub) e r s).
Proof. exact verify_api_is_spec. Qed.
Print Assumptions C01_verify_is_standard_on_curve.

(* one corollary per rejection class of the property statement *)
Theorem C01_reject_r_out_of_range :
  forall pub msg uid hash r s, ~ (1 <= r < sm2_n) -> Sm2Verify pub msg uid r s = false /\ Verify pub hash r s = false.
Proof.
  intros pub msg uid hash r s Hr. split; apply not_true_is_false; intros H.
  - apply Sm2Verify_iff in H as (za & _ & H1 & _). contradiction.
  - apply Verify_iff in H as (H1 & _). contradiction.
Qed.
Print Assumptions C01_reject_r_out_of_range.

Theorem C01_reject_s_out_of_range :
  forall pub msg uid hash r s, ~ (1 <= s < sm2_n) -> Sm2Verify pub msg uid r s = false /\ Verify pub hash r s = false.
Proof.
  intros pub msg uid hash r s Hs. split; apply not_true_is_false; intros H.
  - apply Sm2Verify_iff in H as (za & _ & _ & H1 & _). contradiction.
  - apply Verify_iff in H as (_ & H1 & _). contradiction.
Qed.
Print Assumptions C01_reject_s_out_of_range.

Theorem C01_reject_t_zero :
  forall pub msg uid hash r s, (r + s) mod sm2_n = 0 -> Sm2Verify pub msg uid r s = false /\ Verify pub hash r s = false.
Proof.
  intros pub msg uid hash r s Ht. split; apply not_true_is_false; intros H.
  - apply Sm2Verify_iff in H as (za & _ & _ & _ & H1 & _). contradiction.
  - apply Verify_iff in H as (_ & _ & H1 & _). contradiction.
Qed.
Print Assumptions C01_reject_t_zero.

(* altered message or ID: two (message, ID) pairs accepted under the same key with the same (r, s) have
   digests e = SM3(ZA || M) that are congruent mod n - an altered message or ID is rejected unless the
   SM3 outputs collide mod n *)
Theorem C01_accept_implies_same_e_mod_n :
  forall pub msg uid msg' uid' r s,
    Z.of_nat (length (uid_or_default uid)) < 8192 -> Z.of_nat (length (uid_or_default uid')) < 8192 ->
    0 <= fst pub < 2 ^ 256 -> 0 <= snd pub < 2 ^ 256 ->
    Sm2Verify pub msg uid r s = true -> Sm2Verify pub msg' uid' r s = true ->
    e_spec pub (uid_or_default uid) msg mod sm2_n = e_spec pub (uid_or_default uid') msg' mod sm2_n.
Proof. exact Sm2Verify_same_e. Qed.
Print Assumptions C01_accept_implies_same_e_mod_n.

Theorem C01_reject_long_id :
  forall pub msg uid r s, 8192 <= Z.of_nat (length uid) -> Sm2Verify pub msg uid r s = false.
Proof. exact Sm2Verify_long_id. Qed.
Print Assumptions C01_reject_long_id.

(* ---- 3. completeness: every signature of a valid key verifies under the matching public key ------------
   Under SM2Facts (p, n prime; affine addition associative on curve points; G on the curve, of order n),
   for every d in [1, n-2], every digest e and every stream: whatever the signing loop returns is
   accepted by the verifier for the public key [d]G. *)
Theorem C01_verify_complete :
  SM2Facts -> forall fuel d e rho r s rho',
    1 <= d <= sm2_n - 2 ->
    sign_loop fuel d e rho = Ok (r, s, rho') ->
    verify_core (ScalarBaseMult d) e r s = true /\ 1 <= r < sm2_n /\ 1 <= s < sm2_n.
Proof. exact sign_then_verify_core. Qed.
Print Assumptions C01_verify_complete.

Theorem C01_Sm2Sign_then_Sm2Verify :
  SM2Facts -> forall fuel d msg uid rho r s rho',
    1 <= d <= sm2_n - 2 ->
    Sm2Sign fuel (key_of d) msg uid rho = Ok (r, s, rho') ->
    Sm2Verify (ScalarBaseMult d) msg uid r s = true.
Proof. exact Sm2Sign_then_Sm2Verify. Qed.
Print Assumptions C01_Sm2Sign_then_Sm2Verify.

(* ---- 4. strict DER ------------------------------------------------------------------------------------------
   The parser of PublicKey.Verify (cryptobyte) accepts a byte string with non-negative r, s iff it is
   exactly the DER encoding SEQUENCE { INTEGER r, INTEGER s }: minimal two's complement integers,
   definite minimal lengths, nothing after the SEQUENCE or inside it after s. *)
Theorem C01_der_strict :
  forall b r s, bytes_ok b -> 0 <= r -> 0 <= s ->
    (sig_decode b = Some (r, s) <-> b = sig_encode r s /\ Z.of_nat (length b) < 2 ^ 32).
Proof. exact sig_decode_iff. Qed.
Print Assumptions C01_der_strict.

(* PublicKey.Verify = that parser, then Sm2Verify with the default ID: it accepts b iff b is the strict
   encoding of a pair the standard's verification accepts *)
Theorem C01_PublicKey_Verify_strict :
  forall pub msg b, bytes_ok b ->
    (PublicKey_Verify pub msg b = true <->
     exists r s, b = sig_encode r s /\ Z.of_nat (length b) < 2 ^ 32 /\ Sm2Verify pub msg default_uid r s = true).
Proof. exact PublicKey_Verify_iff. Qed.
Print Assumptions C01_PublicKey_Verify_strict.

(* ... and PrivateKey.Sign returns that encoding of what Sm2Sign computes with the default ID *)
Theorem C01_Sign_is_der_of_Sm2Sign :
  forall fuel pr rho msg,
    Sign fuel pr rho msg =
    match Sm2Sign fuel pr msg [] rho with
    | Ok (r, s, rho') => Ok (sig_encode r s, rho')
    | Err e => Err e | Panic => Panic | Hang => Hang
    end.
Proof. intros. unfold Sign. destruct (Sm2Sign fuel pr msg [] rho) as [[[r s] rho']| | |]; reflexivity. Qed.
Print Assumptions C01_Sign_is_der_of_Sm2Sign.

(* ---- 5. ZA ------------------------------------------------------------------------------------------------- *)
Theorem C01_za_model_is_standard :
  forall pub uid,
    0 <= fst pub < 2 ^ 256 -> 0 <= snd pub < 2 ^ 256 ->
    (Z.of_nat (length uid) < 8192 -> ZA pub uid = Ok (za_spec pub uid)) /\
    (8192 <= Z.of_nat (length uid) -> ZA pub uid = Err 1).
Proof.
  intros pub uid Hx Hy. split; intros H; [apply ZA_is_spec; assumption|apply ZA_too_long; assumption].
Qed.
Print Assumptions C01_za_model_is_standard.

(* ---- 6. fresh randomness ------------------------------------------------------------------------------------
   Attempt i depends on stream positions [40i, 40i+40) only; a second signature made on the same reader
   starts after the positions the first one consumed; and two signatures of the same digest with the
   same r force x([k1]G) = x([k2]G) (mod n): that is the deterministic content of "fresh randomness
   never repeats r". *)
Theorem C01_nonce_positions_fresh :
  forall rho rho' i,
    firstn 40 (skipn (40 * i) rho) = firstn 40 (skipn (40 * i) rho') -> nonce_at rho i = nonce_at rho' i.
Proof. exact nonce_at_depends. Qed.
Print Assumptions C01_nonce_positions_fresh.

Theorem C01_second_call_reads_later_positions :
  forall rho i j, nonce_at (skipn (40 * S i) rho) j = nonce_at rho (S i + j).
Proof. intros. apply nonce_at_offset. Qed.
Print Assumptions C01_second_call_reads_later_positions.

Theorem C01_same_r_implies :
  forall d d' e k1 k2 r s1 s2,
    sign_with_nonce d e k1 = Some (r, s1) -> sign_with_nonce d' e k2 = Some (r, s2) ->
    x_of (sm2_base_mul k1) mod sm2_n = x_of (sm2_base_mul k2) mod sm2_n.
Proof. exact same_r_same_x. Qed.
Print Assumptions C01_same_r_implies.

(* ---- 7. tie to the source: the constants the model and the specification write as literals are what
   sm2/p256.go and sm2/sm2.go say now (Gen/ is regenerated by the translator on every run) -------------- *)
Theorem C01_source_constants_tied :
  (gen_P = sm2_p /\ gen_N = sm2_n /\ gen_A = sm2_a /\ gen_B = sm2_b /\ gen_Gx = sm2_Gx /\ gen_Gy = sm2_Gy /\
   gen_BitSize / gen_rand_div + gen_rand_extra = 40) /\
  (gen_default_uid = default_uid /\ gen_uid_limit = 8192 /\ gen_C1C3C2 = 0 /\ gen_C1C2C3 = 1 /\
   gen_decrypt_min = Z.of_nat (1 + 64 + 32 + 1)).
Proof. exact (conj curve_params_tied sig_params_tied). Qed.
Print Assumptions C01_source_constants_tied.

(* ---- 8. a different public key ----------------------------------------------------------------------------
   For fixed (e, r, s) with t = (r+s) mod n: a curve point P is accepted iff [t]P = R - [s]G for a curve
   point R with x(R) = r - e (mod n).  Premises: p prime, associativity. *)
Theorem C01_accepting_keys_characterised :
  SM2GroupMin.P_prime -> SM2GroupMin.Add_assoc -> forall pub e r s,
    sm2_valid (Some pub) = true ->
    (verify_spec (Some pub) e r s <->
     1 <= r < sm2_n /\ 1 <= s < sm2_n /\ (r + s) mod sm2_n <> 0 /\
     exists R, sm2_valid R = true /\ x_of R mod sm2_n = (r - e) mod sm2_n /\
               sm2_mul ((r + s) mod sm2_n) (Some pub) = sm2_add R (sm2_neg (sm2_base_mul s))).
Proof. exact SM2GroupMin.verify_spec_keys. Qed.
Print Assumptions C01_accepting_keys_characterised.

(* ... so a key [d]G (d in [1, n-1]) that accepts is one of the explicitly listed keys [t^-1](R - [s]G); every
   other key is rejected.  Premises: all five (n prime for t^-1, [n]G = O for the reduction mod n). *)
Theorem C01_accepting_keys_listed :
  SM2GroupMin.P_prime -> SM2GroupMin.Add_assoc -> SM2GroupMin.G_order_divides_n ->
  SM2GroupMin.G_multiples_finite -> SM2GroupMin.N_prime -> forall d e r s,
    1 <= d < sm2_n -> verify_spec (sm2_base_mul d) e r s ->
    exists R, sm2_valid R = true /\ x_of R mod sm2_n = (r - e) mod sm2_n /\
              sm2_base_mul d = sm2_mul (modinv ((r + s) mod sm2_n) sm2_n) (sm2_add R (sm2_neg (sm2_base_mul s))).
Proof. exact SM2GroupMin.accepted_key_listed. Qed.
Print Assumptions C01_accepting_keys_listed.

(* ... and there are at most four such R: x(R) is v = (r-e) mod n or v + n (p < 2n), and two curve points
   with the same x are equal or opposite (p prime) *)
Theorem C01_accepting_keys_candidates :
  SM2GroupMin.P_prime ->
  (forall R v, sm2_valid R = true -> R <> None -> 0 <= v < sm2_n -> x_of R mod sm2_n = v ->
               x_of R = v \/ x_of R = v + sm2_n) /\
  (forall x y1 y2, sm2_valid (Some (x, y1)) = true -> sm2_valid (Some (x, y2)) = true ->
                   Some (x, y2) = Some (x, y1) \/ Some (x, y2) = sm2_neg (Some (x, y1))).
Proof. intros Hp. split; [exact SM2GroupMin.candidate_x|exact (SM2GroupMin.same_x_two_points Hp)]. Qed.
Print Assumptions C01_accepting_keys_candidates.

(* ---- 9. minimal premises of the theorems stated above with the bundled SM2Facts ---------------------------
   2b needs only "p prime"; completeness needs all five components (p prime, n prime, associativity,
   [n]G = O, [k]G finite for 0 < k < n); "G on the curve" is computed, not assumed. *)
Theorem C01_verify_is_standard_on_curve_min :
  SM2GroupMin.P_prime -> forall pub e r s,
    sm2_valid (Some pub) = true -> (verify_api pub e r s <-> verify_spec (Some pub) e r s).
Proof. exact SM2GroupMin.verify_api_is_spec. Qed.
Print Assumptions C01_verify_is_standard_on_curve_min.

Theorem C01_verify_complete_min :
  SM2GroupMin.P_prime -> SM2GroupMin.Add_assoc -> SM2GroupMin.G_order_divides_n ->
  SM2GroupMin.G_multiples_finite -> SM2GroupMin.N_prime -> forall fuel d e rho r s rho',
    1 <= d <= sm2_n - 2 ->
    sign_loop fuel d e rho = Ok (r, s, rho') ->
    verify_core (ScalarBaseMult d) e r s = true /\ 1 <= r < sm2_n /\ 1 <= s < sm2_n.
Proof. exact SM2GroupMin.sign_then_verify_core. Qed.
Print Assumptions C01_verify_complete_min.

(* ---- 10. outside the domain: d = n-1 (gcd(d+1, n) <> 1) makes Sm2Sign panic (nil big.Int), as /repo does --- *)
Theorem C01_sign_invalid_key_panics :
  forall fuel d e rho,
    Z.gcd (d + 1) sm2_n <> 1 -> (40 <= length rho)%nat ->
    let k := nonce_at rho 0 in
    let r := (e + x_of (sm2_base_mul k)) mod sm2_n in
    r <> 0 -> r + k <> sm2_n -> sign_loop (S fuel) d e rho = Panic.
Proof. exact sign_loop_invalid_key. Qed.
Print Assumptions C01_sign_invalid_key_panics.

(* ---- 11. associativity is a theorem (SM2/ECAssocAbstract.v, SM2/ECAssoc.v: exhaustive case analysis, every
   leaf closed by nsatz), so the completeness and accepting-key results need no premise about the group law
   beyond the arithmetic facts: p prime, n prime, [n]G = O, [k]G finite for 0 < k < n ------------------------ *)
Theorem C01_add_assoc_proved :
  SM2GroupMin.P_prime -> forall P Q R : point,
    sm2_valid P = true -> sm2_valid Q = true -> sm2_valid R = true ->
    sm2_add (sm2_add P Q) R = sm2_add P (sm2_add Q R).
Proof. exact SM2Unconditional.add_assoc_holds. Qed.
Print Assumptions C01_add_assoc_proved.

Theorem C01_verify_complete_noassoc :
  SM2GroupMin.P_prime -> SM2GroupMin.G_order_divides_n -> SM2GroupMin.G_multiples_finite -> SM2GroupMin.N_prime ->
  forall fuel d e rho r s rho',
    1 <= d <= sm2_n - 2 ->
    sign_loop fuel d e rho = Ok (r, s, rho') ->
    verify_core (ScalarBaseMult d) e r s = true /\ 1 <= r < sm2_n /\ 1 <= s < sm2_n.
Proof. intros Hp. exact (SM2GroupMin.sign_then_verify_core Hp (SM2Unconditional.add_assoc_holds Hp)). Qed.
Print Assumptions C01_verify_complete_noassoc.

Theorem C01_Sm2Sign_then_Sm2Verify_noassoc :
  SM2GroupMin.P_prime -> SM2GroupMin.G_order_divides_n -> SM2GroupMin.G_multiples_finite -> SM2GroupMin.N_prime ->
  forall fuel d msg uid rho r s rho',
    1 <= d <= sm2_n - 2 ->
    Sm2Sign fuel (key_of d) msg uid rho = Ok (r, s, rho') ->
    Sm2Verify (ScalarBaseMult d) msg uid r s = true.
Proof. intros Hp. exact (SM2GroupMin.Sm2Sign_then_Sm2Verify Hp (SM2Unconditional.add_assoc_holds Hp)). Qed.
Print Assumptions C01_Sm2Sign_then_Sm2Verify_noassoc.

Theorem C01_accepting_keys_characterised_noassoc :
  SM2GroupMin.P_prime -> forall pub e r s,
    sm2_valid (Some pub) = true ->
    (verify_spec (Some pub) e r s <->
     1 <= r < sm2_n /\ 1 <= s < sm2_n /\ (r + s) mod sm2_n <> 0 /\
     exists R, sm2_valid R = true /\ x_of R mod sm2_n = (r - e) mod sm2_n /\
               sm2_mul ((r + s) mod sm2_n) (Some pub) = sm2_add R (sm2_neg (sm2_base_mul s))).
Proof. intros Hp. exact (SM2GroupMin.verify_spec_keys Hp (SM2Unconditional.add_assoc_holds Hp)). Qed.
Print Assumptions C01_accepting_keys_characterised_noassoc.

(* ---- 12. the consumers named by the anchors add no acceptance of their own -------------------------------------
   gmtls verifyHandshakeSignature (SM2 branch = PublicKey.Verify; ECDSA branch on the SM2 curve: lax asn1.Unmarshal,
   positive R,S, then the strict PublicKey.Verify) and x509 checkSignature for an SM2 key (lax Unmarshal, no rest,
   re-marshalled bytes equal, Sm2Verify with the default ID): whatever they accept is the strict DER encoding of
   a pair the verifier accepts.  Models in SM2/SM2Consumers.v, tied by the W cases of the driver. *)
Theorem C01_handshake_signature_consumers_strict :
  forall pub digest sig,
    (verifyHandshakeSignature_sm2 pub digest sig = PublicKey_Verify pub digest sig) /\
    (verifyHandshakeSignature_ecdsa pub digest sig = true -> PublicKey_Verify pub digest sig = true).
Proof. intros. split; [reflexivity|apply handshake_ecdsa_sound]. Qed.
Print Assumptions C01_handshake_signature_consumers_strict.

Theorem C01_x509_checkSignature_strict :
  forall pub signed sig,
    x509_checkSignature_sm2 pub signed sig = true ->
    exists r s, sig = sig_encode r s /\ 0 < r /\ 0 < s /\ Sm2Verify pub signed [] r s = true.
Proof. exact x509_checkSignature_sound. Qed.
Print Assumptions C01_x509_checkSignature_strict.

(* ---- 13. "two signatures made with fresh randomness never share the same r": what is proved ----------------------
   Distinct nonces k1, k2 in [1, n-1] with k1 + k2 <> n give points with different abscissae (p prime, associativity
   - itself proved -, [n]G = O, [k]G finite); hence two signatures of the same digest that share r have k1 = k2, or
   k1 + k2 = n, or abscissae that differ by exactly n (both lie in [0,p), p < 2n).  NOT proved (it is a probability
   statement about the random reader, outside this technique): that fresh 40-byte reads make these three events
   unlikely.  For different digests e1 <> e2 the relation is x([k1]G) - x([k2]G) = e2 - e1 (mod n) (C01_same_r_implies
   covers e1 = e2).  The clause of the property is therefore PARTIAL. *)
Theorem C01_distinct_nonces_distinct_x :
  SM2GroupMin.P_prime -> SM2GroupMin.Add_assoc -> SM2GroupMin.G_order_divides_n -> SM2GroupMin.G_multiples_finite ->
  forall k1 k2, 1 <= k1 < sm2_n -> 1 <= k2 < sm2_n -> k1 <> k2 -> k1 + k2 <> sm2_n ->
    x_of (sm2_base_mul k1) <> x_of (sm2_base_mul k2).
Proof. exact SM2Audit1.distinct_nonce_distinct_x. Qed.
Print Assumptions C01_distinct_nonces_distinct_x.

Theorem C01_same_r_nonce_cases_partial :
  SM2GroupMin.P_prime -> SM2GroupMin.Add_assoc -> SM2GroupMin.G_order_divides_n -> SM2GroupMin.G_multiples_finite ->
  forall d d' e k1 k2 r s1 s2,
    1 <= k1 < sm2_n -> 1 <= k2 < sm2_n ->
    sign_with_nonce d e k1 = Some (r, s1) -> sign_with_nonce d' e k2 = Some (r, s2) ->
    k1 = k2 \/ k1 + k2 = sm2_n \/ Z.abs (x_of (sm2_base_mul k1) - x_of (sm2_base_mul k2)) = sm2_n.
Proof. exact SM2Audit1.same_r_nonce_cases. Qed.
Print Assumptions C01_same_r_nonce_cases_partial.

(* ---- 14. PublicKey.Verify accepts what PrivateKey.Sign returns (the one-line corollary of 3 and 4) ------------- *)
Theorem C01_Sign_then_PublicKey_Verify :
  SM2GroupMin.P_prime -> SM2GroupMin.Add_assoc -> SM2GroupMin.G_order_divides_n -> SM2GroupMin.G_multiples_finite ->
  SM2GroupMin.N_prime -> forall fuel d rho msg sig rho',
    1 <= d <= sm2_n - 2 ->
    Sign fuel (key_of d) rho msg = Ok (sig, rho') ->
    PublicKey_Verify (ScalarBaseMult d) msg sig = true.
Proof. exact SM2Audit1.Sign_then_PublicKey_Verify. Qed.
Print Assumptions C01_Sign_then_PublicKey_Verify.

(* ---- non-vacuity: concrete instances, evaluated ----------------------------------------------------------- *)
(* key d = 1, digest 5, a stream whose first attempt gives k = 2 *)
Example C01_sign_example :
  Z.gcd (1 + 1) sm2_n = 1 /\
  sign_loop 2 1 5 (repeat 0%N 39 ++ [1%N]) =
  Ok (39264624226210491828350299246801547995169179683885222662092227069188840275287,
      38263732492072878464035022983609672385446222020536260952875791143552299385319, []) /\
  sign_spec 1 5 (repeat 0%N 39 ++ [1%N]) =
  Some (0%nat, (39264624226210491828350299246801547995169179683885222662092227069188840275287,
                38263732492072878464035022983609672385446222020536260952875791143552299385319)) /\
  sign_loop 2 1 5 (repeat 0%N 39) = Err 2.
Proof. vm_compute. repeat split; reflexivity. Qed.

(* the whole of Sm2Sign on key 1, message 010203, default ID, and its DER form; rejected variants *)
Example C01_Sm2Sign_example :
  let r := 103679943351734352874018805017483304016925935836452309819236738460898338595715 in
  let s := 6056072929310947941200770098268794374567843944252717374303535447697550225105 in
  Sm2Sign 2 (key_of 1) [1; 2; 3]%N [] (repeat 0%N 39 ++ [1%N]) = Ok (r, s, []) /\
  sig_decode (sig_encode r s) = Some (r, s) /\
  sig_decode (sig_encode r s ++ [0%N]) = None /\
  Sm2Verify (ScalarBaseMult 1) [1; 2; 3]%N [] 0 s = false /\
  Sm2Verify (ScalarBaseMult 1) [1; 2; 3]%N [] r (sm2_n - r) = false.
Proof. vm_compute. repeat split; reflexivity. Qed.

(* an accepted tuple with small scalars (s = 1, t = 2, public key G, so the point is [3]G): the digest is
   chosen as 1 - x([3]G) mod n.  Full-size signatures are exercised by the differential run. *)
Example C01_verify_accepts_example :
  let hash := i2osp 32 ((1 - x_of (sm2_base_mul 3)) mod sm2_n) in
  Verify (sm2_Gx, sm2_Gy) hash 1 1 = true /\ Verify (sm2_Gx, sm2_Gy) (0%N :: hash) 1 1 = true /\
  Verify (sm2_Gx, sm2_Gy) hash 1 2 = false.
Proof. vm_compute. repeat split; reflexivity. Qed.

Example C01_za_example :
  ZA (sm2_Gx, sm2_Gy) default_uid = Ok (za_spec (sm2_Gx, sm2_Gy) default_uid) /\
  ZA (5, 7) (repeat 0%N 16) = Ok (za_spec (5, 7) (repeat 0%N 16)).
Proof. vm_compute. split; reflexivity. Qed.

(* the three retry branches of the signing loop, reached with crafted digests (the model takes e directly;
   through the API they need an SM3 preimage): the first nonce k = 2 is sent back to A3, the result is the
   standard's pair for the next nonce k = 3, and both 40-byte attempts are consumed *)
Definition ex_chunk (v : N) : list byte := repeat 0%N 39 ++ [v].
Definition ex_rho : list byte := ex_chunk 1 ++ ex_chunk 2.

Example C01_retry_r_zero :
  let e := (- x_of (sm2_base_mul 2)) mod sm2_n in
  nonce_at ex_rho 0 = 2 /\ nonce_at ex_rho 1 = 3 /\
  (e + x_of (sm2_base_mul 2)) mod sm2_n = 0 /\ sign_with_nonce 5 e 2 = None /\
  exists r s, sign_with_nonce 5 e 3 = Some (r, s) /\ sign_loop 3 5 e ex_rho = Ok (r, s, []).
Proof. vm_compute. repeat split; try reflexivity. eexists. eexists. split; reflexivity. Qed.

Example C01_retry_r_plus_k_is_n :
  let e := (sm2_n - 2 - x_of (sm2_base_mul 2)) mod sm2_n in
  (e + x_of (sm2_base_mul 2)) mod sm2_n + 2 = sm2_n /\ sign_with_nonce 5 e 2 = None /\
  exists r s, sign_with_nonce 5 e 3 = Some (r, s) /\ sign_loop 3 5 e ex_rho = Ok (r, s, []).
Proof. vm_compute. repeat split; try reflexivity. eexists. eexists. split; reflexivity. Qed.

Example C01_retry_s_zero :
  let e := (2 - x_of (sm2_base_mul 2)) mod sm2_n in
  (e + x_of (sm2_base_mul 2)) mod sm2_n = 2 /\ (modinv (1 + 1) sm2_n * (2 - 2 * 1)) mod sm2_n = 0 /\
  sign_with_nonce 1 e 2 = None /\
  exists r s, sign_with_nonce 1 e 3 = Some (r, s) /\ sign_loop 3 1 e ex_rho = Ok (r, s, []).
Proof. vm_compute. repeat split; try reflexivity. eexists. eexists. split; reflexivity. Qed.

(* d = n-1: the panic branch; d = n-2 (the largest valid key) signs *)
Example C01_invalid_key_example :
  sign_loop 3 (sm2_n - 1) 7 ex_rho = Panic /\ Z.gcd (sm2_n - 1 + 1) sm2_n <> 1 /\
  Z.gcd (sm2_n - 2 + 1) sm2_n = 1 /\ exists r s, sign_loop 3 (sm2_n - 2) 7 ex_rho = Ok (r, s, ex_chunk 2).
Proof. vm_compute. repeat split; try reflexivity; try discriminate. eexists. eexists. reflexivity. Qed.
