(* C20 - results do not depend on goroutine interleaving; shared objects are race-free.

   What is proved here is the LOGIC of sharing (see Conc/AccessModel.v for the machine):
     1. race_free_serializable      flat lock-protected sections: every complete interleaving of a race-free program ends in
                                    the state of a sequential execution of its blocks        (all programs, all schedules)
     1'. race_free_region_serializable   nested locks taken and released where the code does, sync.RWMutex with shared
                                    readers: every complete interleaving ends in the state of an execution in which the
                                    regions (accesses between two synchronisation operations) are not interleaved
     2. gmsm_access_table_race_free the access table of gmsm (Conc/AccessTable.v) meets the hypothesis of 1 for every
                                    program built from its rows, rotation of ticket keys at any time included
                                    (true since /repo 43260b6; before, this statement was refuted)
     3. conn_close_write_interlock  the activeCall protocol of Conn.Write / Conn.Close, all schedules
     4. lock_order_no_deadlock / gmsm_access_table_no_deadlock / source_lock_order_acyclic
                                    threads that take their locks in one order never reach a state in which every
                                    unfinished thread is blocked; the rows of the table and the lock acquisitions found
                                    in the current source are ordered by one rank function
   What the two serialisability theorems do NOT say:
     - they speak about COMPLETE schedules (all threads finished); that such a schedule can always be completed is 4,
       and only for blocking on mutexes: a sync.Once is an atomic step of the machine, blocking on the network, on
       sync.Cond (Conn.handshakeCond is not used by the pinned code paths) and on channels is outside;
     - 1' is serialisability at REGION level (the accesses between two synchronisation operations run as if alone),
       not at CALL level: a whole exported call such as Conn.Read, which takes and releases several locks, is not
       claimed to be atomic - two calls may interleave between their critical sections (and whole-call atomicity is
       false in general for calls that release and re-take a lock: Example region_level_not_call_level).
       Call-level statements are made only where the property needs them: config_init_vs_rotate_rotation_kept
       and conn_close_write_interlock.
   The Go scheduler, the Go memory model and the correspondence table <-> code are NOT proved; the table is
   validated per run by the race detector (checks/c20.py).  Property theorems only; proofs in Conc/*.v. *)
From Coq Require Import List Arith Bool Lia.
From GmsmVerif Require Import Conc.AccessModel Conc.ConcLists Conc.ConcProofs Conc.NestModel Conc.NestProofs Conc.AccessTable Conc.TableProofs
  Conc.ActiveCall Conc.ActiveProofs Conc.SourceTie Conc.SourceTieProofs Conc.LockOrder Conc.LockOrderProofs Conc.TableOrderProofs Gen.ConcWriteSets.
Import ListNotations.

(* ---------------------------------------------------------------------------------------------------------- *)
(* 1.  "behaves as some sequential order" in the model: the final machine state - shared store, the list of
   values every thread has read (its results), Once flags, all threads finished - of ANY complete schedule of
   micro-steps is the final state of running the blocks (lock-protected sections, free accesses, Once calls)
   one after the other with nothing in between, in some order [order] (the proof constructs the order in
   which the blocks were begun = lock acquisition order).  Hypothesis: every pair of conflicting accesses of
   different threads sits in sections of a common mutex, and locations written by a Once initialiser are
   touched by a thread only after its own call of that Once (race_free_b, decidable). *)
Theorem race_free_serializable :
  forall (wf : nat -> list nat -> nat) (obody : nat -> list (nat * nat))
         (prog : list (list block)) (nloc nmut nonce : nat) (sched : list nat) (fin : pstate),
    race_free_b obody nonce prog = true ->
    run wf obody (init prog nloc nmut nonce) sched = Some fin -> finished fin ->
    exists order, run_atomic wf obody (init prog nloc nmut nonce) order = Some fin.
Proof.
  intros wf obody prog nl nm no sched fin Hrf Hrun Hfin.
  exact (serial_main wf obody (length sched) _ sched fin (le_n _)
           (init_inv obody prog nl nm no Hrf) (init_quiescent prog nl nm no) Hrun Hfin).
Qed.
Print Assumptions race_free_serializable.

(* non-vacuity: two goroutines incrementing one counter under one mutex ("mu.Lock(); x++; mu.Unlock()").
   All 256 candidate schedules of the 8 micro-steps are enumerated: the complete ones (70) all end with x = 2
   and in the full state of one of the two sequential orders. *)
Definition counter_prog : list (list block) := [[Sec [0] [Rd 0; Wr 0]]; [Sec [0] [Rd 0; Wr 0]]].
Definition incr (t : nat) (log : list nat) : nat := S (last log 0).

Fixpoint list_eqb (a b : list nat) : bool :=
  match a, b with
  | [], [] => true
  | x :: a', y :: b' => (x =? y) && list_eqb a' b'
  | _, _ => false
  end.
Fixpoint logs_eqb (a b : list (list nat)) : bool :=
  match a, b with
  | [], [] => true
  | x :: a', y :: b' => list_eqb x y && logs_eqb a' b'
  | _, _ => false
  end.
Definition obs_eqb (a b : pstate) : bool :=
  list_eqb (store (pmem a)) (store (pmem b)) && logs_eqb (logs (pmem a)) (logs (pmem b)).

Definition complete_runs wf prog nl nm len : list pstate :=
  flat_map (fun s => match run wf no_once (init prog nl nm 0) s with
                     | Some f => if finished_b f then [f] else []
                     | None => [] end) (all_scheds (length prog) len).

Example counter_is_race_free : race_free_b no_once 0 counter_prog = true.
Proof. vm_compute. reflexivity. Qed.

Example counter_all_interleavings :
  let fins := complete_runs incr counter_prog 1 1 8 in
  length fins = 2                       (* the mutex allows exactly the two orders of the sections *)
  /\ forallb (fun f => list_eqb (store (pmem f)) [2]) fins = true
  /\ forallb (fun f => existsb (fun order =>
        match run_atomic incr no_once (init counter_prog 1 1 0) order with
        | Some g => obs_eqb f g | None => false end) [[0;1];[1;0]]) fins = true.
Proof. vm_compute. auto. Qed.

(* the hypothesis matters: the same counter without the mutex is not race-free, and a schedule loses an update *)
Definition racy_counter : list (list block) := [[Free (Rd 0); Free (Wr 0)]; [Free (Rd 0); Free (Wr 0)]].
Example racy_counter_loses_update :
  race_free_b no_once 0 racy_counter = false
  /\ (exists f, run incr no_once (init racy_counter 1 0 0) [0;1;0;1] = Some f /\ store (pmem f) = [1])
  /\ (exists f, run incr no_once (init racy_counter 1 0 0) [0;0;1;1] = Some f /\ store (pmem f) = [2]).
Proof. split; [vm_compute; reflexivity|]. split; eexists; vm_compute; split; reflexivity. Qed.

(* sync.Once: many threads call Do and read the initialised location; every schedule gives every reader 5 *)
Definition once_prog : list (list block) := [[OnceDo 0; Free (Rd 0)]; [OnceDo 0; Free (Rd 0)]; [OnceDo 0; Free (Rd 0)]].
Definition once_body (o : nat) : list (nat * nat) := [(0, 5)].
Example once_all_interleavings :
  race_free_b once_body 1 once_prog = true
  /\ forallb (fun s => match run incr once_body (init once_prog 1 0 1) s with
                       | Some f => negb (finished_b f) || logs_eqb (logs (pmem f)) [[5];[5];[5]]
                       | None => true end) (all_scheds 3 6) = true.
Proof. vm_compute. auto. Qed.

(* ---------------------------------------------------------------------------------------------------------- *)
(* 1'.  The same for the machine of Conc/NestModel.v: every Lock / RLock / Unlock / RUnlock is a step of its own, locks
   nest the way the code nests them (no two-phase or single-level restriction), a sync.RWMutex has any number of
   Shared holders or one Excl holder.  Hypothesis (race_free2_b, decidable): every conflicting pair of accesses of
   different threads holds a common mutex at both accesses, exclusively on the side(s) that write; Once-initialised
   locations are touched only after the thread's own Do.  Conclusion: the final state (store, every thread's reads,
   lock table, Once flags) of ANY complete schedule is the final state of a schedule of UNITS, a unit being a whole
   region - a maximal run of accesses of one thread between two synchronisation operations, e.g. the body of a
   critical section - or a single lock / unlock / Once step.  So no access of another thread ever falls inside a
   critical section in a way that could be told apart from running the section alone.
   (Region level, not call level: the units of one exported call may still be separated by units of other threads;
   and the statement is about complete schedules - see 4 for the absence of deadlock.) *)
Theorem race_free_region_serializable :
  forall (wf : nat -> list nat -> nat) (obody : nat -> list (nat * nat))
         (prog : list (list nitem)) (nloc nmut nonce : nat) (sched : list nat) (fin : pst2),
    race_free2_b obody nonce prog = true ->
    run2 wf obody (init2 prog nloc nmut nonce) sched = Some fin -> finished2 fin ->
    exists order, run_units wf obody (init2 prog nloc nmut nonce) order = Some fin.
Proof.
  intros wf obody prog nl nm no sched fin Hrf Hrun Hfin.
  exact (region_main wf obody (length sched) _ sched fin (le_n _) (init2_inv obody prog nl nm no Hrf) Hrun Hfin).
Qed.
Print Assumptions race_free_region_serializable.

(* The limit of the statement, as an example: a "call" that reads x in one critical section and writes x+1 in a second
   one (it releases the mutex in between) is race-free, yet two such calls can interleave between their sections
   and lose an update - the final state [1] is the result of a schedule of units (regions), but not of running the two
   calls one after the other (both orders give [2]).  Call-level atomicity is NOT what theorem 1' claims. *)
Definition split_call : list nitem := locked Excl 0 [rd 0] ++ locked Excl 0 [wr 0].
Example region_level_not_call_level :
  race_free2_b no_once 0 [split_call; split_call] = true
  /\ option_map (fun f => store2 (pmem2 f)) (run2 incr no_once (init2 [split_call; split_call] 1 1 0) [0;0;0; 1;1;1; 0;0;0; 1;1;1]) = Some [1]
  /\ option_map (fun f => store2 (pmem2 f)) (run2 incr no_once (init2 [split_call; split_call] 1 1 0) [0;0;0;0;0;0; 1;1;1;1;1;1]) = Some [2]
  /\ option_map (fun f => store2 (pmem2 f)) (run2 incr no_once (init2 [split_call; split_call] 1 1 0) [1;1;1;1;1;1; 0;0;0;0;0;0]) = Some [2].
Proof. vm_compute. auto. Qed.

(* non-vacuity: a writer that holds mutex 0 exclusively (x++) and, nested inside it, mutex 1 (y++), against a reader
   that reads x twice under RLock of mutex 0 and then does y++ under mutex 1.  All 2^16 candidate schedules of the
   16 steps are enumerated; 41 are complete.  In every one of them the reader sees the same x twice (its region is
   never cut by the writer), the two y++ do not lose an update, and the final store is x = 1, y = 2. *)
Definition rw_prog : list (list nitem) :=
  [locked Excl 0 ([rd 0; wr 0] ++ locked Excl 1 [rd 1; wr 1]);
   locked Shared 0 [rd 0; rd 0] ++ locked Excl 1 [rd 1; wr 1]].
Definition logs2_ok (f : pst2) : bool :=
  match logs2 (pmem2 f) with
  | [[0; yw]; [x1; x2; yr]] => (x1 =? x2) && (yw + yr =? 1)
  | _ => false
  end.
Example rw_nested_all_interleavings :
  race_free2_b no_once 0 rw_prog = true
  /\ forallb (fun s => match run2 incr no_once (init2 rw_prog 2 2 0) s with
                       | Some f => negb (finished2_b f) || (logs2_ok f && list_eqb (store2 (pmem2 f)) [1; 2])
                       | None => true end) (all_scheds 2 16) = true
  /\ length (filter (fun s => match run2 incr no_once (init2 rw_prog 2 2 0) s with
                              | Some f => finished2_b f | None => false end) (all_scheds 2 16)) = 41.
Proof. vm_compute. auto. Qed.

(* two readers may hold the RWMutex together (a schedule in which both are inside at once runs); a write under RLock
   is not race-free *)
Example rw_readers_share :
  (exists f, run2 incr no_once (init2 [locked Shared 0 [rd 0]; locked Shared 0 [rd 0]] 1 1 0) [0; 1; 0; 1; 0; 1] = Some f
             /\ finished2_b f = true)
  /\ race_free2_b no_once 0 [locked Shared 0 [rd 0]; locked Shared 0 [rd 0]; locked Excl 0 [wr 0]] = true
  /\ race_free2_b no_once 0 [locked Shared 0 [wr 0]; locked Shared 0 [rd 0]] = false
  /\ run2 incr no_once (init2 [locked Excl 0 [wr 0]; locked Shared 0 [rd 0]] 1 1 0) [0; 1] = None.   (* reader blocks *)
Proof. split; [eexists; vm_compute; split; reflexivity|]. vm_compute. auto. Qed.

(* ---------------------------------------------------------------------------------------------------------- *)
(* 2.  The access table: every operation the property names (all rows except the caller-synchronised writers:
   assignments to x509.ContentEncryptionAlgorithm, CertPool construction, configuration set-up; sm4.SetIV IS included), SetSessionTicketKeys at ANY time - also
   while the first handshake or Clone is initialising the Config - included. *)
Definition C20_access_table_full : Prop :=
  forall threads : list (list op),
    (forall t, In t threads -> forall o, In o t -> In o claimed_ops) ->
    race_free2_b gm_obody n_once (program_of threads) = true.

Theorem gmsm_access_table_race_free : C20_access_table_full.
Proof. intros threads H. exact (ops_ok_program claimed_ops threads claimed_ops_ok H). Qed.
Print Assumptions gmsm_access_table_race_free.

(* ... hence every interleaving of goroutines performing these operations on the shared objects is region-serialisable *)
Theorem gmsm_claimed_operations_serializable :
  forall wf (threads : list (list op)) sched fin,
    (forall t, In t threads -> forall o, In o t -> In o claimed_ops) ->
    run2 wf gm_obody (init2 (program_of threads) n_loc n_mut n_once) sched = Some fin -> finished2 fin ->
    exists order, run_units wf gm_obody (init2 (program_of threads) n_loc n_mut n_once) order = Some fin.
Proof.
  intros wf threads sched fin H Hr Hf.
  exact (race_free_region_serializable wf gm_obody _ _ _ _ sched fin (gmsm_access_table_race_free threads H) Hr Hf).
Qed.
Print Assumptions gmsm_claimed_operations_serializable.

(* the table distinguishes: the caller-synchronised selector and pool construction are not compatible with their readers,
   an unlocked write of the ticket keys (what serverInit did before 43260b6) is not compatible with rotation,
   protected pairs are (non-vacuity of the check in both directions) *)
Example table_rejects_unsynchronised_writers :
  ops_ok [sm4_set_iv; sm4_helper_iv] = true /\ ops_ok [x509_set_cea; x509_pkcs7_encrypt] = false
  /\ ops_ok [certpool_add; cert_verify] = false
  /\ ops_ok [lru_put; lru_get; conn_read; conn_write; conn_close] = true
  /\ ops_ok [config_first_use; config_set_ticket_keys; config_clone; config_ticket_keys] = true
  /\ pair_ok2 (annot [] [wr L_cfg_keys]) (annot [] (code config_set_ticket_keys)) = false
  /\ pair_ok2 (annot [] (locked Shared M_cfg [wr L_cfg_keys])) (annot [] (code config_ticket_keys)) = false
  /\ pair_ok2 (annot [] [wr L_conn_out]) (annot [] (code conn_write)) = false
  /\ pair_ok2 (annot [] (locked Excl M_in [wr L_conn_out])) (annot [] (code conn_read)) = true     (* Read sends alerts holding c.in AND c.out *)
  /\ pair_ok2 (annot [] (locked Excl M_in [wr L_conn_out])) (annot [] (code conn_write)) = false.
Proof. vm_compute. auto 12. Qed.

(* Writers of package-level state.  sm4.SetIV is claimed since /repo 0fa6cb9 (before, it wrote sm4.IV with no
   synchronisation while Sm4Cbc / Sm4CFB / Sm4OFB read it: found by scenario sm4_iv_set, D51): the translator finds
   exactly one write of sm4.SetIV - sm4.IV under sm4.ivMu -, the table row is that write, it is race-free against the
   helpers and against itself in the model, and the unsynchronised write of the old code is refused both by the model
   and by the source tie.  An assignment to the exported variable x509.ContentEncryptionAlgorithm (there is no setter)
   against PKCS7Encrypt reading it is NOT race-free - that row stays outside the claim; the readers among themselves are. *)
Theorem package_state_writers :
  ops_ok [sm4_set_iv; sm4_helper_iv; sm4_helper_ecb; sm4_gcm_helper] = true
  /\ ex_setiv_only_writes_iv = true
  /\ covered [sm4_set_iv] ex_w_iv = true
  /\ covered [sm4_set_iv] ex_w_iv_unlocked = false
  /\ pair_ok2 (annot [] [wr L_sm4_IV]) (annot [] (code sm4_helper_iv)) = false
  /\ pair_ok2 (annot [] (code sm4_set_iv)) (annot [] [rd L_sm4_IV]) = false
  /\ ops_ok [x509_set_cea; x509_pkcs7_encrypt] = false
  /\ ops_ok [x509_pkcs7_encrypt; x509_parse_pkcs7; pkcs12_codec; sm2_key_exchange] = true.
Proof. vm_compute. auto 10. Qed.
Print Assumptions package_state_writers.

(* 2b.  Static tie between the table and the CURRENT source (Conc/SourceTie.v; Gen/ConcWriteSets.v is regenerated from
   the source on every run): every write to shared state that the translator finds reachable from an exported entry
   point of sm2 / sm3 / sm4 / x509 / gmtls (Config, session cache, loaders, and Conn: Read, Write, Close, CloseWrite,
   Handshake, ConnectionState ... with what they reach - readRecord, writeRecordLocked, sendAlert, the handshake
   functions - per Conn field, with c.in / c.out / handshakeMutex / atomics as locks) is a Wr of (one of) the table
   row(s) of that entry point under exactly the same mutexes, or a write of the initialiser of a Once that the row
   calls and that the table states to write this location ... *)
Theorem table_covers_source_writes :
  forall e ws w, In (e, ws) gen_write_sets -> In w ws -> covered (rows_of_entry e) w = true.
Proof. exact covers_spec. Qed.
Print Assumptions table_covers_source_writes.

(* ... and conversely every Wr of the tied rows and every write of the tied Once initialisers is found in the source *)
Theorem table_writes_found_in_source : found_in_src = true.
Proof. exact found_in_src_true. Qed.
Print Assumptions table_writes_found_in_source.

(* ... and whatever the translator could not attribute (calls through function values, interface calls without a
   summary) or was told to skip is on the two reviewed lists of Conc/SourceTie.v - nothing is dropped silently *)
Theorem source_unattributed_bounded :
  (forall x, In x gen_unattributed -> In x allowed_unattributed) /\ (forall x, In x gen_excluded -> In x allowed_excluded).
Proof. exact unattributed_spec. Qed.
Print Assumptions source_unattributed_bounded.

(* non-vacuity: the generated file is not empty, and the coverage test refuses writes the table does not have - a new
   lazily initialised field of Sm4Cipher, memoisation into the shared CertPool from Verify, writing the elements of
   the ticket-key slice in place - while it accepts the ones it has *)
Example source_tie_examples :
  (40 <=? length gen_write_sets) = true /\ (100 <=? gen_entry_points_analysed) = true
  /\ covered [sm4_decrypt] ex_w_dsubkeys = false
  /\ covered [cert_verify; cert_verify_sysroots] ex_w_pool_memo = false
  /\ covered [config_set_ticket_keys] ex_w_key_elems = false
  /\ covered [config_set_ticket_keys] ex_w_keys_unlocked = false
  /\ covered [config_set_ticket_keys] ex_w_keys_locked = true
  /\ covered [cert_verify; cert_verify_sysroots] ex_w_sysroots = true.
Proof. vm_compute. auto 10. Qed.

(* the same for one Conn: the five entry points are in the generated file with their rows; Close may write
   closeNotifySent under c.out's mutex only (not bare, not under c.in); Read may touch c.out's state only with c.in AND
   c.out held; Write may not touch the input side; vers is written inside the handshake only; handshakeStatus and
   activeCall are written by atomic operations only; and the lists of unattributed / skipped callees are not empty
   (so the bound above says something) *)
Example source_tie_conn_examples :
  forallb ex_has_entry ex_conn_entries = true /\ length ex_conn_entries = 5%nat
  /\ rows_of_entry ex_entry_close = [conn_close] /\ rows_of_entry ex_entry_read = [conn_read]
  /\ rows_of_entry ex_entry_write = [conn_write]
  /\ covered [conn_close] ex_w_close_notify_locked = true
  /\ covered [conn_close] ex_w_close_notify_unlocked = false
  /\ covered [conn_close] ex_w_close_notify_wrong_lock = false
  /\ covered [conn_read] ex_w_read_out_under_in = false
  /\ covered [conn_read] ex_w_read_out_under_both = true
  /\ covered [conn_write] ex_w_write_in_state = false
  /\ covered [conn_read] ex_w_vers_outside_handshake = false
  /\ covered [conn_read] ex_w_vers_in_handshake = true
  /\ covered [conn_handshake] ex_w_status_plain = false
  /\ covered [conn_write] ex_w_active_plain = false
  /\ covered [conn_write] ex_w_active_atomic = true
  /\ (10 <=? length gen_unattributed) = true /\ length gen_excluded = 1%nat.
Proof. vm_compute. auto 20. Qed.

(* first use of a Config (serverInit, step by step as in gmtls/common.go since 43260b6) against one
   SetSessionTicketKeys: the program is race-free, and EVERY complete interleaving - a complete schedule of the two
   threads has exactly 7 + 3 = 10 steps - ends with the rotated keys (9); the initial keys (7) never
   overwrite a rotation.  This is the result of both sequential orders "first use; rotation" and
   "rotation; first use".  (All 1024 schedules of length 10 are swept; 3 of them are complete.) *)
Theorem config_init_vs_rotate_rotation_kept :
  race_free2_b no_once 0 init_vs_rotate = true
  /\ forall sched, length sched = 10%nat -> Forall (fun t => t < 2) sched ->
       forall r, final_store sched = Some r -> r = [9].
Proof.
  split; [exact init_vs_rotate_race_free|].
  intros sched L F r H.
  pose proof (all_scheds_spec 2 sched F) as I. rewrite L in I.
  pose proof init_vs_rotate_sweep as Hs. rewrite forallb_forall in Hs. specialize (Hs sched I).
  rewrite H in Hs. destruct r as [|x [|? ?]]; try discriminate. apply Nat.eqb_eq in Hs. subst. reflexivity.
Qed.
Print Assumptions config_init_vs_rotate_rotation_kept.

Example config_init_vs_rotate_orders :
  final_store [0;0;0; 0;0;0;0; 1;1;1] = Some [9]       (* first use, then rotation *)
  /\ final_store [1;1;1; 0;0;0; 0;0;0;0] = Some [9]    (* rotation, then first use: keeps the keys it finds *)
  /\ final_store [0;0;0; 1;1;1; 0;0;0;0] = Some [9]    (* rotation between ticketKeys() and the installation *)
  /\ length (filter (fun s => match final_store s with Some _ => true | None => false end) (all_scheds 2 10)) = 3%nat.
Proof. vm_compute. auto. Qed.

(* ---------------------------------------------------------------------------------------------------------- *)
(* 3.  The activeCall interlock, for every number of Write and Close calls and EVERY schedule of their atomic
   steps (invariant, not enumeration).  In every reachable state:
     - the counter is exactly 2 * (Write calls inside the record layer) + (closed bit), at most one Close call wins;
     - no Write call has entered the record layer while the closed bit was set (ghost flag);
   and from every reachable state with the closed bit set: no step lets a Write call enter (the number inside
   never grows), a Write call that starts returns errClosed, and the bit stays set.
   The Close call that sets the bit sees x = 2 * (Write calls inside) and so sends close_notify exactly when
   no Write is in flight.  (Close does not wait for Writes in this protocol: it closes the transport, which
   makes them fail; that part is net.Conn's contract.) *)
Theorem conn_close_write_interlock :
  forall (nw nc : nat) (sched : list (nat + nat)),
    let s := arun (ainit nw nc) sched in
    ac s = 2 * count w_in (ws s) + count c_won (cs s)
    /\ count c_won (cs s) <= 1
    /\ entered_closed s = false
    /\ (closed_bit s = true ->
          (forall i, count w_in (ws (wstep s i)) <= count w_in (ws s))
          /\ (forall i, nth_error (ws s) i = Some WStart -> nth_error (ws (wstep s i)) i = Some WErrClosed)
          /\ (forall t, closed_bit (astep s t) = true))
    /\ (forall j x, nth_error (cs s) j = Some (CLoaded x) -> ac s = x -> x = 2 * count w_in (ws s)).
Proof.
  intros nw nc sched s.
  pose proof (arun_inv sched _ (ainit_inv nw nc)) as I. fold s in I.
  split; [apply I|]. split; [apply I|]. split; [apply I|]. split.
  - intros C. split; [|split].
    + intros i. apply (closed_no_entry s i I C).
    + intros i. apply (closed_no_entry s i I C).
    + intros t. apply closed_sticky; auto.
  - intros j x. apply close_sees_writers; auto.
Qed.
Print Assumptions conn_close_write_interlock.

(* non-vacuity: three Write calls and two Close calls, one schedule in which a Write is inside when Close wins
   (quiet close), later Writes are refused, the second Close gets errClosed *)
Example interlock_example :
  let s := arun (ainit 3 2) [inl 0; inl 0; inr 0; inr 0; inl 1; inr 0; inr 1; inl 0; inl 2; inl 1] in
  ws s = [WDone; WErrClosed; WErrClosed] /\ cs s = [CDoneQuiet; CErrClosed] /\ ac s = 1 /\ closed_bit s = true.
Proof. vm_compute. auto. Qed.

Example interlock_notify_example :
  let s := arun (ainit 1 1) [inl 0; inl 0; inl 0; inr 0; inr 0; inr 0] in
  ws s = [WDone] /\ cs s = [CDoneNotify] /\ ac s = 1.
Proof. vm_compute. auto. Qed.

(* 3b.  Close does not wait for c.out while a Write is in flight.  A Write holds c.out's mutex for its whole duration -
   possibly parked in the transport because the peer does not read - and closeNotify() needs that mutex.  In the
   interlock model a Close call is on the close_notify path only if it won the CAS with x = 0; then, in EVERY reachable
   state of every schedule, no Write call is inside the record layer (none was at the CAS, none enters afterwards): the
   mutex Close asks for is not held by a Write, so Close cannot be blocked by a stalled Write, and a Close that does
   find a Write in flight returns c.conn.Close() at once, which makes the stalled Write fail.  Tie to the source: the
   condition of that shortcut in the current Conn.Close is the one modelled ("x != 0"; the translator reads it). *)
Theorem conn_close_never_waits_for_a_write :
  (forall (nw nc : nat) (sched : list (nat + nat)) j p,
      let s := arun (ainit nw nc) sched in
      nth_error (cs s) j = Some p -> on_notify_path p = true -> count w_in (ws s) = 0)
  /\ gen_close_shortcut_cond = close_shortcut_modelled.
Proof.
  split; [|exact close_shortcut_spec].
  intros nw nc sched j p s. exact (arun_ninv sched _ (ainit_inv nw nc) (ainit_ninv nw nc) j p).
Qed.
Print Assumptions conn_close_never_waits_for_a_write.

(* non-vacuity: one Write inside, then Close: the real step function takes the quiet path; a Close that always went to
   closeNotify (what narrowing the shortcut to "handshake not complete" does on an established connection) would
   be on the close_notify path with the Write still inside - waiting for the mutex that Write holds *)
Example close_shortcut_matters :
  let s := arun (ainit 1 1) [inl 0; inl 0; inr 0; inr 0] in
  nth_error (ws s) 0 = Some WIn /\ nth_error (cs s) 0 = Some (CWon 2)
  /\ nth_error (cs (cstep s 0)) 0 = Some CDoneQuiet
  /\ nth_error (cs (cstep_always_notify s 0)) 0 = Some CDoneNotify
  /\ count w_in (ws (cstep_always_notify s 0)) = 1
  /\ nth_error (cs (arun (ainit 1 1) [inr 0; inr 0; inr 0; inl 0; inl 0])) 0 = Some CDoneNotify
  /\ nth_error (ws (arun (ainit 1 1) [inr 0; inr 0; inr 0; inl 0; inl 0])) 0 = Some WErrClosed.
Proof. vm_compute. auto 8. Qed.

(* ---------------------------------------------------------------------------------------------------------- *)
(* 4.  Absence of deadlock on mutexes (Conc/LockOrder.v).  [ordered rank nmut nonce bound [] c]: the thread takes a
   lock only while every lock it holds has a strictly smaller rank (so never one it holds: Go's mutexes are not
   re-entrant and an RLock cannot be upgraded), releases only what it holds and ends holding nothing.  Then from the
   initial state EVERY schedule leads to a state that is finished or in which some thread can perform its next item:
   no reachable state has all unfinished threads blocked.  (Proof: lock table and held lists agree in every reachable
   state; a blocked thread waits for a lock whose holder has code left, and if that holder is blocked too it waits
   for a lock of larger rank - induction on bound - rank.)  Blocking other than on mutexes is not in the machine. *)
Theorem lock_order_no_deadlock :
  forall (wf : nat -> list nat -> nat) (obody : nat -> list (nat * nat)) (rank : nat -> nat) (nmut nonce bound : nat)
         (prog : list (list nitem)) (nloc : nat) (sched : list nat) (st : pst2),
    (forall c, In c prog -> ordered rank nmut nonce bound [] c = true) ->
    run2 wf obody (init2 prog nloc nmut nonce) sched = Some st ->
    finished2 st \/ can_step wf obody st.
Proof. intros. eapply ordered_no_deadlock; eauto. Qed.
Print Assumptions lock_order_no_deadlock.

(* every row of the access table (claimed or not) is ordered by gm_rank: handshakeMutex < c.in < c.out < Config.mutex,
   cache mutex < atomics; hence any goroutines running any sequences of rows, under any schedule *)
Theorem gmsm_access_table_no_deadlock :
  forall (wf : nat -> list nat -> nat) (threads : list (list op)) (sched : list nat) (st : pst2),
    run2 wf gm_obody (init2 (program_of threads) n_loc n_mut n_once) sched = Some st ->
    finished2 st \/ can_step wf gm_obody st.
Proof. exact table_no_deadlock. Qed.
Print Assumptions gmsm_access_table_no_deadlock.

(* tie to the CURRENT source: gen_lock_order (Gen/ConcWriteSets.v, regenerated every run) lists (held, taken) for every
   Lock / RLock / Once.Do reachable from an exported entry point while another mutex or Once is held, by the function or
   by its callers; a sync.Once counts as a lock there.  Every pair goes strictly upwards in src_rank - which on the
   mutexes of the table IS gm_rank - so the held-before relation of the source is acyclic and no lock is taken while
   one of the same name is held; and the nestings of real mutexes in the rows are exactly those found in the source. *)
Theorem source_lock_order_acyclic :
  (forall a b, In (a, b) gen_lock_order -> exists ra rb, src_rank a = Some ra /\ src_rank b = Some rb /\ ra < rb)
  /\ lock_order_tied = true.
Proof. split; [exact src_lock_order_spec | exact lock_order_tied_true]. Qed.
Print Assumptions source_lock_order_acyclic.

(* non-vacuity: two threads taking two mutexes in opposite orders are not ordered by any of the two possible ranks,
   and the schedule [0; 1] reaches a state that is not finished and in which neither thread can step (a deadlock of
   the machine); the same threads with one order are accepted.  The source list is not empty; taking c.in while
   holding c.out, Config.mutex twice, or handshakeMutex under Config.mutex would be refused. *)
Definition ab_ba : list (list nitem) := [locked Excl 0 (locked Excl 1 [wr 0]); locked Excl 1 (locked Excl 0 [wr 0])].
Definition ab_ab : list (list nitem) := [locked Excl 0 (locked Excl 1 [wr 0]); locked Excl 0 (locked Excl 1 [wr 0])].
Example lock_order_examples :
  forallb (ordered (fun m => m) 2 0 2 []) ab_ba = false
  /\ forallb (ordered (fun m => 1 - m) 2 0 2 []) ab_ba = false
  /\ forallb (ordered (fun m => m) 2 0 2 []) ab_ab = true
  /\ (match run2 incr no_once (init2 ab_ba 1 2 0) [0; 1] with
      | Some st => negb (finished2_b st) && match step2 incr no_once st 0, step2 incr no_once st 1 with None, None => true | _, _ => false end
      | None => false end) = true
  /\ (10 <=? length gen_lock_order) = true
  /\ pair_ranked ex_pair_in_out = true /\ pair_ranked ex_pair_out_in = false
  /\ pair_ranked ex_pair_cfg_cfg = false /\ pair_ranked ex_pair_cfg_hs = false.
Proof. vm_compute. auto 12. Qed.
