(* C04 - SM3 is the GM/T 0004 digest for every input and chunking and honours hash.Hash.
   Property theorems only: each is closed by a lemma of SM3/SM3Proofs.v, SM3/SM3History.v or
   SM3/HMACProofs.v and followed by Print Assumptions.
   Model: SM3/SM3Model.v (follows /repo/sm3/sm3.go function by function, plus crypto/hmac and
   x/crypto/pbkdf2 as the hash.Hash operations they issue).
   Specification: SM3/SM3Spec.v (GM/T 0004-2012), SM3/HashSpec.v (the hash.Hash contract as a
   reference machine), SM3/HMACSpec.v (RFC 2104, RFC 8018).

   No theorem below has a length bound.  [sm3] writes the low 64 bits of the bit length into the
   padding, as the Go code does with its uint64 counter, so the equalities hold for every list;
   [sm3] is the standard's function for messages shorter than 2^61 bytes (C04_length_counter_exact
   is the statement that the counter has not wrapped below that bound). *)
From Coq Require Import List NArith Arith Lia.
From GmsmVerif Require Import Lib.Outcome SM3.SM3Spec SM3.HMACSpec SM3.HashSpec SM3.SM3Model
  SM3.SM3Proofs SM3.SM3History SM3.HMACProofs Gen.SM3IV.
Import ListNotations.
Open Scope N_scope.

(* (a) The body of the block loop of update/update2 - arrays w[68] and w1[64] filled in place
   (whatever they held before), rounds 0-15 and 16-63 as two loops, T_j rotated by j mod 32,
   a..h xor-ed back - is the standard's compression function, for every state, every content of the
   scratch arrays and every message with at least one block left. *)
Theorem C04_compress_model_is_spec :
  forall w w1 r msg,
    length w = 68%nat -> length w1 = 64%nat -> (64 <= length msg)%nat ->
    exists w' w1' r', block_body w w1 r msg = (w', w1', r') /\
      length w' = 68%nat /\ length w1' = 64%nat /\
      digest_of_regs r' = sm3_cf (digest_of_regs r) (firstn 64 msg).
Proof. exact block_body_spec. Qed.
Print Assumptions C04_compress_model_is_spec.

(* ... and the loop "for len(msg) >= 64" of update2 / update is the iteration V(i+1) = CF(V(i), B(i))
   over the complete blocks of msg *)
Theorem C04_update_is_iteration :
  forall V l u msg, length V = 8%nat ->
    update2 (mkSM3 V l u) msg = sm3_absorb V msg /\
    update (mkSM3 V l u) msg = mkSM3 (sm3_absorb V msg) l u.
Proof. intros V l u msg HV. split; [apply update2_spec|apply update_spec]; exact HV. Qed.
Print Assumptions C04_update_is_iteration.

(* (b) Every history.  For every finite list of Write / Sum / Reset operations applied to New():
   the results are those of the hash.Hash contract over the GM/T 0004 digest (each Sum(in) returns
   in ++ SM3(all bytes written since the last Reset), each Write returns len(p)), and the state
   reached satisfies the invariant: tail shorter than a block and equal to the bytes after the last
   complete block, length counter = 8 * bytes written mod 2^64, digest = CF folded over the
   complete blocks. *)
Theorem C04_hash_history :
  forall ops,
    let written := ref_written [] ops in
    let s := fst (run init ops) in
    snd (run init ops) = ref_run sm3 [] ops /\
    (length (s_unhandleMsg s) < 64)%nat /\
    s_length s = (8 * N.of_nat (length written)) mod 2 ^ 64 /\
    s_digest s = sm3_absorb sm3_iv written /\
    s_unhandleMsg s = skipn (64 * (length written / 64)) written.
Proof. exact history_invariant. Qed.
Print Assumptions C04_hash_history.

(* Sum leaves the state alone, Reset restores New() - from every state, reachable or not *)
Theorem C04_Sum_leaves_state : forall s in_, fst (step s (OpSum in_)) = s.
Proof. reflexivity. Qed.
Print Assumptions C04_Sum_leaves_state.

Theorem C04_Reset_restores_init : forall s, fst (step s OpReset) = init.
Proof. reflexivity. Qed.
Print Assumptions C04_Reset_restores_init.

(* in every reachable state Sum(in) is in ++ digest of what was written, never a panic or a hang *)
Theorem C04_Sum_on_reachable :
  forall ops in_, Sum (fst (run init ops)) in_ = Ok (in_ ++ sm3 (ref_written [] ops)).
Proof. exact Sum_reachable. Qed.
Print Assumptions C04_Sum_on_reachable.

(* below 2^61 bytes the bit counter has not wrapped (where [sm3] is the standard's function) *)
Theorem C04_length_counter_exact :
  forall ops, N.of_nat (length (ref_written [] ops)) < 2 ^ 61 ->
    s_length (fst (run init ops)) = 8 * N.of_nat (length (ref_written [] ops)).
Proof. intros ops H. rewrite run_init. cbn [fst]. apply length_counter_exact; exact H. Qed.
Print Assumptions C04_length_counter_exact.

(* corollaries: any way of splitting a message across writes (empty writes included) gives the
   digest of the concatenation; the one-shot function agrees *)
Theorem C04_chunking_independent :
  forall chunks1 chunks2 in_, concat chunks1 = concat chunks2 ->
    Sum (fst (run init (map OpWrite chunks1))) in_ = Sum (fst (run init (map OpWrite chunks2))) in_ /\
    Sum (fst (run init (map OpWrite chunks1))) in_ = Ok (in_ ++ sm3 (concat chunks1)).
Proof. intros c1 c2 i H. rewrite !chunked_sum, H. split; reflexivity. Qed.
Print Assumptions C04_chunking_independent.

Theorem C04_Sm3Sum_is_spec : forall data, Sm3Sum data = Ok (sm3 data).
Proof. exact Sm3Sum_spec. Qed.
Print Assumptions C04_Sm3Sum_is_spec.

(* (c) the eight words Reset stores, as read from the source by the translator, are the standard's IV *)
Theorem C04_iv_is_standard : gen_iv = sm3_iv /\ s_digest init = gen_iv.
Proof. split; reflexivity. Qed.
Print Assumptions C04_iv_is_standard.

(* (d) crypto/hmac over this hash: hmac.New(sm3.New, key) always succeeds, and the object it returns
   honours the hash.Hash contract with H = HMAC-SM3(key, .) of RFC 2104 for every history - including
   Sum(in) with a non-empty in, which the object forwards to the inner hash *)
Theorem C04_hmac_via_hash_ops :
  forall key, exists h, hmac_New key = Ok h /\
    forall ops, snd (hmac_run h ops) = ref_run (hmac_sm3 key) [] ops.
Proof.
  intros key. destruct (hmac_New_spec key) as (h & Hn & Hh). exists h. split; [exact Hn|].
  intros ops. apply (hmac_run_spec key ops [] h Hh).
Qed.
Print Assumptions C04_hmac_via_hash_ops.

Theorem C04_hmac_oneshot : forall key msg, hmac_oneshot key msg = Ok (hmac_sm3 key msg).
Proof. exact hmac_oneshot_spec. Qed.
Print Assumptions C04_hmac_oneshot.

(* pbkdf2.Key(password, salt, iter, keyLen, sm3.New): prf.Sum(dk) with the growing dk, U = prf.Sum(U[:0]),
   T aliasing the tail of dk - equals PBKDF2 of RFC 8018 with PRF = HMAC-SM3, for all arguments *)
Theorem C04_pbkdf2_via_hash_ops :
  forall password salt iter keyLen,
    pbkdf2_Key password salt iter keyLen = Ok (pbkdf2_hmac_sm3 password salt iter keyLen).
Proof. exact pbkdf2_Key_spec. Qed.
Print Assumptions C04_pbkdf2_via_hash_ops.

(* ---------- non-vacuity: concrete instances, evaluated ---------------------------------------------- *)
(* a state with dirty scratch arrays and one block left: the hypotheses of (a) are met *)
Example C04_compress_example :
  let w := repeat 0xdeadbeef 68 in let w1 := repeat 0x01234567 64 in
  let msg := sm3_pad [0x61; 0x62; 0x63] in
  (length w, length w1, length msg) = (68%nat, 64%nat, 64%nat) /\
  digest_of_regs (snd (block_body w w1 (regs_of_digest sm3_iv) msg)) = sm3_cf sm3_iv msg.
Proof. vm_compute. split; reflexivity. Qed.

(* a history with split writes, Sum with a non-empty prefix, repeated Sum, Reset: "abc" in two writes *)
Example C04_history_example :
  snd (run init [OpWrite [0x61]; OpSum [1; 2]; OpWrite [0x62; 0x63]; OpSum []; OpSum [9]; OpReset; OpSum []]) =
  [OutWrite 1; OutSum (Ok ([1; 2] ++ sm3 [0x61])); OutWrite 2;
   OutSum (Ok (sm3 [0x61; 0x62; 0x63])); OutSum (Ok (9 :: sm3 [0x61; 0x62; 0x63])); OutReset; OutSum (Ok (sm3 []))].
Proof. vm_compute. reflexivity. Qed.

Example C04_chunking_example :
  concat [[0x61]; []; [0x62; 0x63]] = concat [[0x61; 0x62]; [0x63]; []] /\
  Sum (fst (run init (map OpWrite [[0x61]; []; [0x62; 0x63]]))) [] = Ok (sm3 [0x61; 0x62; 0x63]).
Proof. vm_compute. split; reflexivity. Qed.

(* a 130-byte message: two complete blocks absorbed, two bytes in the tail *)
Example C04_invariant_example :
  let s := fst (run init [OpWrite (repeat 7 100); OpWrite (repeat 8 30)]) in
  (s_unhandleMsg s, s_length s) = ([8; 8], 1040).
Proof. vm_compute. reflexivity. Qed.

Example C04_hmac_example :
  exists h, hmac_New (repeat 0x6b 65) = Ok h /\
    snd (hmac_run h [OpWrite [0x61]; OpWrite [0x62; 0x63]; OpSum [5]; OpReset; OpSum []]) =
    [OutWrite 1; OutWrite 2; OutSum (Ok (5 :: hmac_sm3 (repeat 0x6b 65) [0x61; 0x62; 0x63])); OutReset;
     OutSum (Ok (hmac_sm3 (repeat 0x6b 65) []))].
Proof. eexists. split; [vm_compute; reflexivity|vm_compute; reflexivity]. Qed.

Example C04_pbkdf2_example :
  pbkdf2_Key [0x70; 0x61; 0x73; 0x73; 0x77; 0x6f; 0x72; 0x64] [0x73; 0x61; 0x6c; 0x74] 2 40 =
  Ok [0xfe; 0xe7; 0x23; 0xa2; 0xbc; 0x96; 0x6e; 0x11; 0xdf; 0xfb; 0x66; 0x13; 0x3f; 0x4e; 0x8d; 0xf5;
      0x77; 0x38; 0x3c; 0x78; 0xad; 0xe3; 0x0e; 0x32; 0x98; 0xed; 0xbd; 0x3e; 0x54; 0xed; 0x85; 0xb7;
      0x65; 0x00; 0x06; 0xf9; 0xe1; 0x5d; 0x37; 0x98].
Proof. vm_compute. reflexivity. Qed.
