(* C04 - SM3 is the GM/T 0004 digest for every input and chunking and honours hash.Hash.
   Property theorems only: each is closed by a lemma of SM3/SM3Proofs.v, SM3/SM3History.v or
   SM3/HMACProofs.v and followed by Print Assumptions.
   Model: SM3/SM3Model.v (follows /repo/sm3/sm3.go function by function, plus crypto/hmac and
   x/crypto/pbkdf2 as the hash.Hash operations they issue).
   Specification: SM3/SM3Spec.v (GM/T 0004-2012), SM3/HashSpec.v (the hash.Hash contract as a
   reference machine), SM3/HMACSpec.v (RFC 2104, RFC 8018).

   No theorem below has a length bound.  [sm3] writes the low 64 bits of the bit length into the
   padding, as the Go code does with its uint64 counter, so the equalities hold for every list;
   [sm3] is the standard's function for messages shorter than 2^61 bytes (C04_length_counter_exact
   is the statement that the counter has not wrapped below that bound). *)
From Coq Require Import List NArith Arith Lia.
From GmsmVerif Require Import Lib.Outcome SM3.SM3Spec SM3.HMACSpec SM3.HashSpec SM3.SM3Model
  SM3.SM3Proofs SM3.SM3History SM3.HMACProofs SM3.SM3Heap SM3.SM3HeapProofs SM3.SM3Arith SM3.SM3ArithProofs SM3.SM3ModelConsts SM3.SM3ConstsProofs SM3.SM3CodeTie SM3.SM3Fast SM3.SM3FastProofs SM3.HMACMarshal SM3.HMACMarshalProofs SM3.GmtlsOps SM3.GmtlsOpsProofs
  Agree.KeyModel Gen.SM3IV Gen.SM3Consts Gen.SM3Code.
Import ListNotations.
Open Scope N_scope.

(* (a) The body of the block loop of update/update2 - arrays w[68] and w1[64] filled in place
   (whatever they held before), rounds 0-15 and 16-63 as two loops, T_j rotated by j mod 32,
   a..h xor-ed back - is the standard's compression function, for every state, every content of the
   scratch arrays and every message with at least one block left. *)
Theorem C04_compress_model_is_spec :
  forall w w1 r msg,
    length w = 68%nat -> length w1 = 64%nat -> (64 <= length msg)%nat ->
    exists w' w1' r', block_body w w1 r msg = (w', w1', r') /\
      length w' = 68%nat /\ length w1' = 64%nat /\
      digest_of_regs r' = sm3_cf (digest_of_regs r) (firstn 64 msg).
Proof. exact block_body_spec. Qed.
Print Assumptions C04_compress_model_is_spec.

(* ... and the loop "for len(msg) >= 64" of update2 / update is the iteration V(i+1) = CF(V(i), B(i))
   over the complete blocks of msg *)
Theorem C04_update_is_iteration :
  forall V l u msg, length V = 8%nat ->
    update2 (mkSM3 V l u) msg = sm3_absorb V msg /\
    update (mkSM3 V l u) msg = mkSM3 (sm3_absorb V msg) l u.
Proof. intros V l u msg HV. split; [apply update2_spec|apply update_spec]; exact HV. Qed.
Print Assumptions C04_update_is_iteration.

(* (b) Every history.  For every finite list of Write / Sum / Reset operations applied to New():
   the results are those of the hash.Hash contract over the GM/T 0004 digest (each Sum(in) returns
   in ++ SM3(all bytes written since the last Reset), each Write returns len(p)), and the state
   reached satisfies the invariant: tail shorter than a block and equal to the bytes after the last
   complete block, length counter = 8 * bytes written mod 2^64, digest = CF folded over the
   complete blocks. *)
Theorem C04_hash_history :
  forall ops,
    let written := ref_written [] ops in
    let s := fst (run init ops) in
    snd (run init ops) = ref_run sm3 [] ops /\
    (length (s_unhandleMsg s) < 64)%nat /\
    s_length s = (8 * N.of_nat (length written)) mod 2 ^ 64 /\
    s_digest s = sm3_absorb sm3_iv written /\
    s_unhandleMsg s = skipn (64 * (length written / 64)) written.
Proof. exact history_invariant. Qed.
Print Assumptions C04_hash_history.

(* Sum leaves the state alone, Reset restores New() - from every state, reachable or not *)
Theorem C04_Sum_leaves_state : forall s in_, fst (step s (OpSum in_)) = s.
Proof. reflexivity. Qed.
Print Assumptions C04_Sum_leaves_state.

Theorem C04_Reset_restores_init : forall s, fst (step s OpReset) = init.
Proof. reflexivity. Qed.
Print Assumptions C04_Reset_restores_init.

(* in every reachable state Sum(in) is in ++ digest of what was written, never a panic or a hang *)
Theorem C04_Sum_on_reachable :
  forall ops in_, Sum (fst (run init ops)) in_ = Ok (in_ ++ sm3 (ref_written [] ops)).
Proof. exact Sum_reachable. Qed.
Print Assumptions C04_Sum_on_reachable.

(* below 2^61 bytes the bit counter has not wrapped (where [sm3] is the standard's function) *)
Theorem C04_length_counter_exact :
  forall ops, N.of_nat (length (ref_written [] ops)) < 2 ^ 61 ->
    s_length (fst (run init ops)) = 8 * N.of_nat (length (ref_written [] ops)).
Proof. intros ops H. rewrite run_init. cbn [fst]. apply length_counter_exact; exact H. Qed.
Print Assumptions C04_length_counter_exact.

(* corollaries: any way of splitting a message across writes (empty writes included) gives the
   digest of the concatenation; the one-shot function agrees *)
Theorem C04_chunking_independent :
  forall chunks1 chunks2 in_, concat chunks1 = concat chunks2 ->
    Sum (fst (run init (map OpWrite chunks1))) in_ = Sum (fst (run init (map OpWrite chunks2))) in_ /\
    Sum (fst (run init (map OpWrite chunks1))) in_ = Ok (in_ ++ sm3 (concat chunks1)).
Proof. intros c1 c2 i H. rewrite !chunked_sum, H. split; reflexivity. Qed.
Print Assumptions C04_chunking_independent.

Theorem C04_Sm3Sum_is_spec : forall data, Sm3Sum data = Ok (sm3 data).
Proof. exact Sm3Sum_spec. Qed.
Print Assumptions C04_Sm3Sum_is_spec.

(* (c) the eight words Reset stores, as read from the source by the translator, are the standard's IV *)
Theorem C04_iv_is_standard : gen_iv = sm3_iv /\ s_digest init = gen_iv.
Proof. split; reflexivity. Qed.
Print Assumptions C04_iv_is_standard.

(* (d) crypto/hmac over this hash: hmac.New(sm3.New, key) always succeeds, and the object it returns
   honours the hash.Hash contract with H = HMAC-SM3(key, .) of RFC 2104 for every history - including
   Sum(in) with a non-empty in, which the object forwards to the inner hash *)
Theorem C04_hmac_via_hash_ops :
  forall key, exists h, hmac_New key = Ok h /\
    forall ops, snd (hmac_run h ops) = ref_run (hmac_sm3 key) [] ops.
Proof.
  intros key. destruct (hmac_New_spec key) as (h & Hn & Hh). exists h. split; [exact Hn|].
  intros ops. apply (hmac_run_spec key ops [] h Hh).
Qed.
Print Assumptions C04_hmac_via_hash_ops.

Theorem C04_hmac_oneshot : forall key msg, hmac_oneshot key msg = Ok (hmac_sm3 key msg).
Proof. exact hmac_oneshot_spec. Qed.
Print Assumptions C04_hmac_oneshot.

(* pbkdf2.Key(password, salt, iter, keyLen, sm3.New): prf.Sum(dk) with the growing dk, U = prf.Sum(U[:0]),
   T aliasing the tail of dk - equals PBKDF2 of RFC 8018 with PRF = HMAC-SM3, for all arguments *)
Theorem C04_pbkdf2_via_hash_ops :
  forall password salt iter keyLen,
    pbkdf2_Key password salt iter keyLen = Ok (pbkdf2_hmac_sm3 password salt iter keyLen).
Proof. exact pbkdf2_Key_spec. Qed.
Print Assumptions C04_pbkdf2_via_hash_ops.

(* (e) Slices with backing arrays (SM3/SM3Heap.v): unhandleMsg, the argument of Write, the argument
   and result of Sum and pad's local msg are slices of arrays in a heap; append writes into spare
   capacity or reallocates with ANY growth policy [grow] that returns at least the needed length.

   Write: called with a slice p of an array other than the one the object holds, it does not write
   p's array nor any array but its own, the slice it keeps afterwards lies in its old array or in a
   fresh one (never in p's), and at the value level it is the Write of SM3Model. *)
Theorem C04_Write_never_keeps_or_writes_callers_array :
  forall grow, (forall c n, (n <= grow c n)%nat) ->
  forall hp s p hp' s' n,
    valid hp (hs_unhandleMsg s) -> valid hp p -> sl_arr p <> sl_arr (hs_unhandleMsg s) ->
    h_Write grow hp s p = (hp', s', n) ->
    arr_get hp' (sl_arr p) = arr_get hp (sl_arr p) /\
    (forall id, (id < length hp)%nat -> id <> sl_arr (hs_unhandleMsg s) -> arr_get hp' id = arr_get hp id) /\
    sl_arr (hs_unhandleMsg s') <> sl_arr p /\
    (sl_arr (hs_unhandleMsg s') = sl_arr (hs_unhandleMsg s) \/ (length hp <= sl_arr (hs_unhandleMsg s'))%nat) /\
    valid hp' (hs_unhandleMsg s') /\
    Write (abs hp s) (slice_bytes hp p) = (abs hp' s', n).
Proof. exact h_Write_frame. Qed.
Print Assumptions C04_Write_never_keeps_or_writes_callers_array.

(* Sum: same outcome as the value-level Sum; when it returns, [sum_frame] holds: the object's slice is
   still valid and denotes the same bytes (pad only appended beyond its len), no third array changed,
   in's array changed at most in the 32 cells after len(in) (not at all when cap(in)-len(in) < 32: the
   result is then a fresh array), the result has len(in)+32 bytes and starts with in's bytes. *)
Theorem C04_Sum_writes_only_spare_capacity :
  forall grow, (forall c n, (n <= grow c n)%nat) ->
  forall hp s in_,
    valid hp (hs_unhandleMsg s) -> valid hp in_ -> sl_arr in_ <> sl_arr (hs_unhandleMsg s) ->
    match h_Sum grow hp s in_ with
    | Ok (hp', res) => Sum (abs hp s) (slice_bytes hp in_) = Ok (slice_bytes hp' res) /\ sum_frame hp s in_ hp' res
    | Err e => Sum (abs hp s) (slice_bytes hp in_) = Err e
    | Panic => Sum (abs hp s) (slice_bytes hp in_) = Panic
    | Hang => Sum (abs hp s) (slice_bytes hp in_) = Hang
    end.
Proof. exact h_Sum_refines. Qed.
Print Assumptions C04_Sum_writes_only_spare_capacity.

(* Histories on the heap: New() in any heap, then any list of Write(p) / Sum(in) / Reset calls
   interleaved with the caller storing into any cell of any array other than the one the object
   currently holds (its own buffers after Write, the arrays Sum returned, ...) and allocating.  The
   calls, read as value-level operations at the time they are made, give exactly the results of the
   value model - hence (C04_hash_history) of the hash.Hash contract over GM/T 0004. *)
Theorem C04_heap_history_refines :
  forall grow, (forall c n, (n <= grow c n)%nat) ->
  forall hp0 ops,
    let '(hp1, s1) := h_New hp0 in
    caller_ok grow hp1 s1 ops ->
    let '(hp', s', tr) := hrun grow hp1 s1 ops in
    run init (map fst tr) = (abs hp' s', map snd tr) /\ valid hp' (hs_unhandleMsg s').
Proof. exact heap_history. Qed.
Print Assumptions C04_heap_history_refines.

Theorem C04_heap_history :
  forall grow, (forall c n, (n <= grow c n)%nat) ->
  forall hp0 ops,
    let '(hp1, s1) := h_New hp0 in
    caller_ok grow hp1 s1 ops ->
    let '(_, _, tr) := hrun grow hp1 s1 ops in
    map snd tr = ref_run sm3 [] (map fst tr).
Proof.
  intros grow Hg hp0 ops. pose proof (heap_history grow Hg hp0 ops) as H.
  destruct (h_New hp0) as [hp1 s1]. intros Hok. specialize (H Hok).
  destruct (hrun grow hp1 s1 ops) as [[hp' s'] tr]. destruct H as [H _].
  pose proof (C04_hash_history (map fst tr)) as (Hh & _). rewrite H in Hh. exact Hh.
Qed.
Print Assumptions C04_heap_history.

(* (f) Bit level.  The word operations the specification and the model share are arithmetic:
   truncation is mod 2^32, [+] is addition mod 2^32, complement is 2^32-1-x, x <<< n is
   (x * 2^k) mod 2^32 + x / 2^(32-k) with k = n mod 32 (the last two on words below 2^32). *)
Theorem C04_word_ops_are_arithmetic :
  forall x n a b,
    trunc32 x = x mod 2 ^ 32 /\
    add32 a b = (a + b) mod 2 ^ 32 /\
    (x < 2 ^ 32 -> not32 x = 2 ^ 32 - 1 - x) /\
    (x < 2 ^ 32 -> rotl32 x n = (x * 2 ^ (n mod 32)) mod 2 ^ 32 + x / 2 ^ (32 - n mod 32)).
Proof. exact word_ops_arith. Qed.
Print Assumptions C04_word_ops_are_arithmetic.

(* ... and every value the compression function computes from a state of words below 2^32 and a block
   of bytes below 2^8 is a word below 2^32: W_0..W_67, the registers after any number of rounds, the
   output - so the arithmetic reading applies at every point *)
Theorem C04_compress_words_in_range :
  forall a b c d e f g h B,
    Forall w32 [a; b; c; d; e; f; g; h] -> Forall byte_ok B ->
    Forall w32 (expand B) /\
    (forall n, regs_w32 (fold_left (round (expand B)) (seq 0 n) (a, b, c, d, e, f, g, h))) /\
    Forall w32 (sm3_cf [a; b; c; d; e; f; g; h] B).
Proof. exact compress_in_range. Qed.
Print Assumptions C04_compress_words_in_range.

(* ... hence CF and the digest equal their transcriptions with arithmetic word operations
   (SM3/SM3Arith.v: mod, +, *, /, - and bitwise xor/and/or only; big-endian conversions as base-256
   digits) *)
Theorem C04_cf_is_arithmetic :
  forall V B, Forall w32 V -> Forall byte_ok B -> sm3_cf V B = cf_a V B /\ Forall w32 (sm3_cf V B).
Proof. exact cf_arith. Qed.
Print Assumptions C04_cf_is_arithmetic.

Theorem C04_sm3_is_arithmetic :
  forall m, Forall byte_ok m -> sm3 m = sm3_a m /\ Forall byte_ok (sm3 m).
Proof. exact sm3_arith. Qed.
Print Assumptions C04_sm3_is_arithmetic.

(* (g) Tie to the source.  On every run the translator regenerates from the AST of /repo/sm3/sm3.go
   (1) coq/Gen/SM3Code.v: the block body of update and of update2 (message expansion, W', both round
       loops with ff0/ff1/gg0/gg1/p0/p1/leftRotate inlined, the T constants, the feed-forward) and the
       length bytes of pad, translated statement by statement - loops as folds, arrays as lists, uint32
       arithmetic with explicit wrap-around;
   (2) coq/Gen/SM3Consts.v: the constants of the parts that stay hand-modelled (block loop 64/64, array
       sizes 68/64, pad's 0x80 / 0x00 / 64 / 56, BlockSize, Size, len(p)*8).
   The generated block bodies ARE the model's block body (words below 2^32, bytes below 2^8), hence the
   standard's CF; the generated length bytes are the model's.  A refactoring that keeps the meaning
   (a hoisted sub-expression, a loop instead of eight statements) keeps these theorems; a changed
   rotation amount, constant, index or bound does not. *)
Theorem C04_generated_compression_is_model :
  (forall w w1 a b c d e f g h msg,
     Forall w32 w -> Forall w32 w1 -> regs_w32 (a, b, c, d, e, f, g, h) -> Forall byte_ok msg ->
     gen_update_body w w1 a b c d e f g h msg = block_body w w1 (a, b, c, d, e, f, g, h) msg /\
     gen_update2_body w w1 a b c d e f g h msg = block_body w w1 (a, b, c, d, e, f, g, h) msg) /\
  (forall w w1 a b c d e f g h msg,
     length w = 68%nat -> length w1 = 64%nat -> (64 <= length msg)%nat ->
     Forall w32 w -> Forall w32 w1 -> regs_w32 (a, b, c, d, e, f, g, h) -> Forall byte_ok msg ->
     digest_of_regs (snd (gen_update_body w w1 a b c d e f g h msg)) = sm3_cf [a; b; c; d; e; f; g; h] (firstn 64 msg) /\
     digest_of_regs (snd (gen_update2_body w w1 a b c d e f g h msg)) = sm3_cf [a; b; c; d; e; f; g; h] (firstn 64 msg)) /\
  (forall s, pad s = (do msg <- pad_loop 64 (s_unhandleMsg s ++ [0x80]);
                      let msg := gen_pad_length (s_length s) msg in
                      if negb (length msg mod 64 =? 0)%nat then Panic else Ok msg)).
Proof.
  split; [|split].
  - intros. split; [apply gen_update_body_is_model|apply gen_update2_body_is_model]; assumption.
  - intros w w1 a b c d e f g h msg Lw Lw1 Lm Hw Hw1 Hr Hm.
    rewrite gen_update_body_is_model, gen_update2_body_is_model by assumption.
    destruct (block_body_spec w w1 (a, b, c, d, e, f, g, h) msg Lw Lw1 Lm) as (w' & w1' & r' & E & _ & _ & Hd).
    rewrite E. cbn [snd]. split; exact Hd.
  - exact pad_uses_generated_length.
Qed.
Print Assumptions C04_generated_compression_is_model.

(* the constants of the hand-modelled parts, as the source has them now, are those of the model ... *)
Theorem C04_constants_from_source : K_gen = K_model.
Proof. exact K_gen_is_model. Qed.
Print Assumptions C04_constants_from_source.

(* ... and those parts ARE the constant-parametrised model (SM3/SM3ModelConsts.v) at the constants of the
   source (pad_K uses the generated length bytes) *)
Theorem C04_model_uses_source_constants :
  (forall s msg, update s msg = update_K K_gen s msg) /\
  (forall s msg, update2 s msg = update2_K K_gen s msg) /\
  (forall s, pad s = pad_K K_gen s) /\
  (forall s p, Write s p = Write_K K_gen s p) /\
  (forall s i, Sum s i = Sum_K K_gen s i) /\
  BlockSize = k_BlockSize K_gen /\ Size = k_Size K_gen.
Proof. exact model_uses_source_constants. Qed.
Print Assumptions C04_model_uses_source_constants.

(* (h) The fast variant for the extracted runners (SM3/SM3Fast.v: words as records of 32 booleans,
   window-based expansion, list-walking rounds, table of T_j <<< j) computes the same function as the
   specification, for every list (it falls back to sm3 on lists that are not bytes); likewise
   HMAC-SM3 over it *)
Theorem C04_sm3_fast_is_sm3 : forall m, sm3_fast m = sm3 m.
Proof. exact sm3_fast_eq. Qed.
Print Assumptions C04_sm3_fast_is_sm3.

Theorem C04_hmac_sm3_fast_is_hmac_sm3 : forall key msg, hmac_sm3_fast key msg = hmac_sm3 key msg.
Proof. exact hmac_sm3_fast_eq. Qed.
Print Assumptions C04_hmac_sm3_fast_is_hmac_sm3.

(* (i) Both paths of Go 1.23 crypto/hmac.  hmac.Reset switches to MarshalBinary/UnmarshalBinary snapshots
   when the hash implements encoding.BinaryMarshaler; *sm3.SM3 does not (checked by the driver with a
   type assertion on every run, case class B), so the path of (d) is the one taken.  Whichever path is
   taken (snapshot = exact copy of the state), the object gives the results of (d). *)
Theorem C04_hmac_both_reset_paths :
  forall marshalable key ops,
    exists hM h, hmacM_New key = Ok hM /\ hmac_New key = Ok h /\
      snd (hmacM_run marshalable hM ops) = snd (hmac_run h ops) /\
      snd (hmacM_run marshalable hM ops) = ref_run (hmac_sm3 key) [] ops.
Proof. exact hmacM_agrees_with_hmac. Qed.
Print Assumptions C04_hmac_both_reset_paths.

(* (j) gmtls's uses of SM3, as the hash.Hash operations they issue (SM3/GmtlsOps.v), on the hmac and SM3
   models.  prf12(sm3.New) / pHash: hmac.New, Write, Sum(nil), then per output block Reset, Write, Write,
   Sum(nil), Reset, Write, Sum(nil) - equals the function-level model of gmtls/prf.go that C06 reasons
   about (Agree/KeyModel.v) at HMAC-SM3, hence (C06_prf_sm3_is_p_hash) P_SM3 of GM/T 0024 / RFC 5246
   section 5: the chain sm3.go -> hash.Hash contract -> crypto/hmac -> pHash -> P_SM3 in one statement,
   for every secret, label, seed and output length n (fuel n suffices: no hang). *)
Theorem C04_gmtls_prf_via_hash_ops :
  forall fuel n secret label seed, (n <= fuel)%nat ->
    prf12_sm3_ops fuel n secret label seed = prf12 hmac_sm3 fuel n secret label seed /\
    prf12_sm3_ops fuel n secret label seed = Ok (PRF_spec hmac_sm3 n secret label seed).
Proof.
  intros fuel n secret label seed H. split; [apply prf12_sm3_ops_spec|apply prf12_sm3_ops_is_P_SM3; exact H].
Qed.
Print Assumptions C04_gmtls_prf_via_hash_ops.

(* macSM3 / tls10MAC.MAC: one hmac object per connection direction, for every list of records each MAC
   call (Reset, Write seq, Write header, Write data, Sum(digestBuf[:0]), optional Write extra) returns
   HMAC-SM3(key, seq ++ header ++ data); the extra bytes written for constant time never leak into a MAC *)
Theorem C04_gmtls_mac_via_hash_ops :
  forall key recs, exists h, macSM3 key = Ok h /\
    tls10MAC_run h recs = map (fun '(seq, header, data, extra) => Ok (hmac_sm3 key (seq ++ header ++ data))) recs.
Proof. exact macSM3_run_spec. Qed.
Print Assumptions C04_gmtls_mac_via_hash_ops.

(* ---------- non-vacuity: concrete instances, evaluated ---------------------------------------------- *)
(* a state with dirty scratch arrays and one block left: the hypotheses of (a) are met *)
Example C04_compress_example :
  let w := repeat 0xdeadbeef 68 in let w1 := repeat 0x01234567 64 in
  let msg := sm3_pad [0x61; 0x62; 0x63] in
  (length w, length w1, length msg) = (68%nat, 64%nat, 64%nat) /\
  digest_of_regs (snd (block_body w w1 (regs_of_digest sm3_iv) msg)) = sm3_cf sm3_iv msg.
Proof. vm_compute. split; reflexivity. Qed.

(* a history with split writes, Sum with a non-empty prefix, repeated Sum, Reset: "abc" in two writes *)
Example C04_history_example :
  snd (run init [OpWrite [0x61]; OpSum [1; 2]; OpWrite [0x62; 0x63]; OpSum []; OpSum [9]; OpReset; OpSum []]) =
  [OutWrite 1; OutSum (Ok ([1; 2] ++ sm3 [0x61])); OutWrite 2;
   OutSum (Ok (sm3 [0x61; 0x62; 0x63])); OutSum (Ok (9 :: sm3 [0x61; 0x62; 0x63])); OutReset; OutSum (Ok (sm3 []))].
Proof. vm_compute. reflexivity. Qed.

Example C04_chunking_example :
  concat [[0x61]; []; [0x62; 0x63]] = concat [[0x61; 0x62]; [0x63]; []] /\
  Sum (fst (run init (map OpWrite [[0x61]; []; [0x62; 0x63]]))) [] = Ok (sm3 [0x61; 0x62; 0x63]).
Proof. vm_compute. split; reflexivity. Qed.

(* a 130-byte message: two complete blocks absorbed, two bytes in the tail *)
Example C04_invariant_example :
  let s := fst (run init [OpWrite (repeat 7 100); OpWrite (repeat 8 30)]) in
  (s_unhandleMsg s, s_length s) = ([8; 8], 1040).
Proof. vm_compute. reflexivity. Qed.

Example C04_hmac_example :
  exists h, hmac_New (repeat 0x6b 65) = Ok h /\
    snd (hmac_run h [OpWrite [0x61]; OpWrite [0x62; 0x63]; OpSum [5]; OpReset; OpSum []]) =
    [OutWrite 1; OutWrite 2; OutSum (Ok (5 :: hmac_sm3 (repeat 0x6b 65) [0x61; 0x62; 0x63])); OutReset;
     OutSum (Ok (hmac_sm3 (repeat 0x6b 65) []))].
Proof. eexists. split; [vm_compute; reflexivity|vm_compute; reflexivity]. Qed.

Example C04_pbkdf2_example :
  pbkdf2_Key [0x70; 0x61; 0x73; 0x73; 0x77; 0x6f; 0x72; 0x64] [0x73; 0x61; 0x6c; 0x74] 2 40 =
  Ok [0xfe; 0xe7; 0x23; 0xa2; 0xbc; 0x96; 0x6e; 0x11; 0xdf; 0xfb; 0x66; 0x13; 0x3f; 0x4e; 0x8d; 0xf5;
      0x77; 0x38; 0x3c; 0x78; 0xad; 0xe3; 0x0e; 0x32; 0x98; 0xed; 0xbd; 0x3e; 0x54; 0xed; 0x85; 0xb7;
      0x65; 0x00; 0x06; 0xf9; 0xe1; 0x5d; 0x37; 0x98].
Proof. vm_compute. reflexivity. Qed.

(* a heap history: the caller writes "abc" from its array 1, scribbles over that array, asks for the
   digest with a nil prefix (fresh result array), scribbles over the result, writes again from the
   same array, asks again with a prefix that has spare capacity.  Growth policy: needed + 100. *)
Definition C04_heap_example_ops : list hop :=
  [HAlloc [0x61; 0x62; 0x63]; HWrite (mkSlice 1 0 3 3); HStore 1 0 0xff; HStore 1 2 0xff;
   HSum (mkSlice 1 0 0 0); HStore 3 0 0; HStore 3 31 0;
   HAlloc ([7; 7; 7] ++ repeat 0 61); HSum (mkSlice 4 0 3 64); HReset; HSum (mkSlice 4 0 3 3)].

Example C04_heap_example :
  let grow := fun (_ n : nat) => (n + 100)%nat in
  let '(hp1, s1) := h_New [] in
  caller_ok grow hp1 s1 C04_heap_example_ops /\
  let '(_, _, tr) := hrun grow hp1 s1 C04_heap_example_ops in
  tr = [(OpWrite [0x61; 0x62; 0x63], OutWrite 3);
        (OpSum [], OutSum (Ok (sm3 [0x61; 0x62; 0x63])));
        (OpSum [7; 7; 7], OutSum (Ok ([7; 7; 7] ++ sm3 [0x61; 0x62; 0x63])));
        (OpReset, OutReset);
        (OpSum [7; 7; 7], OutSum (Ok ([7; 7; 7] ++ sm3 [])))].
Proof.
  vm_compute. repeat split; try lia; try (intro H; discriminate H).
Qed.

(* the arithmetic transcription on the standard's example A.1 *)
Example C04_arith_example :
  Forall byte_ok [0x61; 0x62; 0x63] /\
  sm3_a [0x61; 0x62; 0x63] =
  [0x66;0xc7;0xf0;0xf4; 0x62;0xee;0xed;0xd9; 0xd1;0xf2;0xd4;0x6b; 0xdc;0x10;0xe4;0xe2;
   0x41;0x67;0xc4;0x87; 0x5c;0xf2;0xf7;0xa2; 0x29;0x7d;0xa0;0x2b; 0x8f;0x4b;0xa8;0xe0].
Proof. split; [repeat constructor|vm_compute; reflexivity]. Qed.

(* the fast variant evaluated on A.1 *)
Example C04_sm3_fast_example :
  sm3_fast [0x61; 0x62; 0x63] =
  [0x66;0xc7;0xf0;0xf4; 0x62;0xee;0xed;0xd9; 0xd1;0xf2;0xd4;0x6b; 0xdc;0x10;0xe4;0xe2;
   0x41;0x67;0xc4;0x87; 0x5c;0xf2;0xf7;0xa2; 0x29;0x7d;0xa0;0x2b; 0x8f;0x4b;0xa8;0xe0].
Proof. vm_compute. reflexivity. Qed.

(* 40 bytes of P_SM3 (two HMAC blocks, the second truncated), and two records MACed with one object,
   the first with extra bytes *)
Example C04_gmtls_example :
  (* the value was computed by the independent Python HMAC-SM3 of checks/c04.py *)
  prf12_sm3_ops 40 40 [1; 2; 3] [0x6b] [9; 9] =
  Ok [0x69; 0x1b; 0xa9; 0xfa; 0x0e; 0xb7; 0x54; 0x26; 0x25; 0x11; 0x0c; 0x44; 0x56; 0x90; 0x21; 0xf5; 0xc2; 0xd4; 0x24; 0x31; 0x8c; 0x52; 0x2f; 0x69; 0xe5; 0x0d; 0x6d; 0xe2; 0xa9; 0xbb; 0xe4; 0x26; 0x83; 0x27; 0x81; 0xc5; 0xb8; 0xb4; 0xf5; 0x39] /\
  exists h, macSM3 [7; 7] = Ok h /\
    tls10MAC_run h [([0; 0; 0; 0; 0; 0; 0; 1], [23; 1; 1; 0; 2], [0x61; 0x62], Some [5; 5; 5]);
                    ([0; 0; 0; 0; 0; 0; 0; 2], [23; 1; 1; 0; 1], [0x63], None)] =
    [Ok (hmac_sm3 [7; 7] [0; 0; 0; 0; 0; 0; 0; 1; 23; 1; 1; 0; 2; 0x61; 0x62]);
     Ok (hmac_sm3 [7; 7] [0; 0; 0; 0; 0; 0; 0; 2; 23; 1; 1; 0; 1; 0x63])].
Proof.
  split; [vm_compute; reflexivity|].
  eexists. split; [vm_compute; reflexivity|]. vm_compute. reflexivity.
Qed.

(* the generated block body evaluated: the hypotheses of (g) are met by the zero scratch arrays, the IV
   and the padded "abc", and the result is the standard's A.1 digest *)
Example C04_generated_example :
  let msg := sm3_pad [0x61; 0x62; 0x63] in
  Forall w32 zero_w /\ Forall w32 zero_w1 /\ Forall byte_ok msg /\
  flat_map PutUint32 (digest_of_regs (snd (gen_update_body zero_w zero_w1
     0x7380166f 0x4914b2b9 0x172442d7 0xda8a0600 0xa96f30bc 0x163138aa 0xe38dee4d 0xb0fb0e4e msg))) =
  sm3 [0x61; 0x62; 0x63].
Proof.
  cbv zeta. split; [|split; [|split]].
  - apply Forall_forall. intros x Hx. apply repeat_spec in Hx. subst x. reflexivity.
  - apply Forall_forall. intros x Hx. apply repeat_spec in Hx. subst x. reflexivity.
  - apply sm3_pad_ok. repeat constructor.
  - vm_compute. reflexivity.
Qed.
