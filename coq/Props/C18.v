(* C18 - Decoders of untrusted bytes fail closed: an error, never a panic or endless loop.
   Property theorems only; each is closed by a lemma of Dec/BerProofs.v or Dec/ByteProofs.v and
   followed by Print Assumptions.  Models: Dec/BerModel.v (x509/ber.go) and Dec/ByteModels.v (the
   other hand-written byte-level decoders), with checked accesses (Dec/Access.v): an index or slice
   expression out of range is Panic, an exhausted loop / recursion fuel is Hang.
   [no_crash o] = o is a value or an error.  [bytes_ok b] = every element of b is below 256.

   Section 5 models the DER reader of encoding/asn1 itself (Dec/Asn1Model.v) and proves it total for every
   schema; it is instantiated for every Go type gmsm decodes into (Gen/Asn1Schemas.v) and end to end for
   SignDataToSignDigit and CipherUnmarshal.
   NOT proved here (checked by the corpus of the C18 driver only): what gmsm does with the decoded structures
   (certificate, CSR, CRL, PKCS#7 and PKCS#12 processing after asn1.Unmarshal), encoding/pem, math/big, crypto/...
   The stdlib-derived TLS handshake message parsers are proved in the C15 family (Props/C15.v, message parsers);
   here they are exercised by the corpus and the structure-aware mutants only. *)
From Coq Require Import List NArith ZArith Arith Bool Lia.
From GmsmVerif Require Import Gen.DecConsts Lib.Outcome Dec.Access Dec.AccessProofs Dec.DecSpec
  Dec.BerModel Dec.BerProofs Dec.BerDer Dec.BerFuel Dec.BerSize Dec.ByteModels Dec.ByteProofs
  Dec.Asn1Model Dec.Asn1Proofs Dec.Asn1Inst Dec.Asn1InstProofs Dec.Asn1DerLink Gen.Asn1Schemas.
From GmsmVerif Require SM2.DER Gen.DecBerLen Dec.BerLenBound.
Import ListNotations.
Local Open Scope nat_scope.

(* ================= 1. x509/ber.go ============================================================ *)
(* ber2der returns a value or an error for every byte string: no index or slice expression is ever
   out of range, and the recursion / loops end (recursion fuel maxBERDepth + 2: one unit per nesting
   level; child-loop fuel |b| + 1; no limit on the number of readObject calls). *)
Theorem C18_ber2der_total : forall b, bytes_ok b -> no_crash (ber2der b).
Proof. exact ber2der_total. Qed.
Print Assumptions C18_ber2der_total.

(* no panic whatever fuel and step budget the model is run with *)
Theorem C18_ber2der_never_panics : forall fuel bud b, bytes_ok b -> ber2der_with fuel bud b <> Panic.
Proof. exact ber2der_never_panics. Qed.
Print Assumptions C18_ber2der_never_panics.

(* cost: |b| + 1 calls of readObject always suffice (the budget counts them: Hang on the first call
   beyond it), so the work is linear in the input and the recursion depth at most maxBERDepth + 2 *)
Theorem C18_ber2der_cost_linear :
  forall b n, bytes_ok b -> (N.of_nat (length b) + 1 <= n)%N -> no_crash (ber2der_budget n b).
Proof. exact ber2der_linear. Qed.
Print Assumptions C18_ber2der_cost_linear.

(* the decoded object is never nested deeper than the cap (+1 for an empty constructed value at the cap) *)
Theorem C18_ber2der_depth_capped :
  forall b o e bud', bytes_ok b -> readObject ber_fuel None b 0 0 = Ok (o, e, bud') ->
    obj_depth o <= maxBERDepth + 1 /\ 2 <= e <= length b.
Proof.
  intros b o e bud' Hb H. split; [exact (readObject_depth b o e bud' Hb H)|exact (readObject_extent b o e bud' Hb H)].
Qed.
Print Assumptions C18_ber2der_depth_capped.

(* the recursion depth is the cap, not the fuel: every fuel above maxBERDepth + 2 gives the result of the capped run *)
Theorem C18_ber2der_fuel_independent :
  forall b fuel, bytes_ok b -> ber_fuel <= fuel -> ber2der_with fuel None b = ber2der b.
Proof. exact ber2der_fuel_independent. Qed.
Print Assumptions C18_ber2der_fuel_independent.

(* memory: the output is never longer than twice the input (inputs below 2^30 bytes; the driver checks the same
   bound on every call of the real function) *)
Theorem C18_ber2der_output_size :
  forall b out, bytes_ok b -> (N.of_nat (length b) < 1073741824)%N -> ber2der b = Ok out -> length out + 2 <= 2 * length b.
Proof. exact ber2der_output_size. Qed.
Print Assumptions C18_ber2der_output_size.

(* ber2der is the identity on DER: every well-formed DER value (Dec/DecSpec.v: one-octet identifiers,
   minimal definite lengths below 2^31, proper nesting, at most maxBERDepth constructed levels) is
   returned unchanged *)
Theorem C18_ber2der_identity_on_der :
  forall d o, dwf d o -> d <= maxBERDepth -> ber2der (denc o) = Ok (denc o).
Proof. exact ber2der_identity_on_der. Qed.
Print Assumptions C18_ber2der_identity_on_der.

Example C18_der_example :
  let o := DCons 48 [DPrim 2 [5]; DCons 49 [DPrim 4 (repeat 7 200); DPrim 5 []]; DPrim 12 (repeat 65 130)]%N in
  dwf 2 o /\ length (denc o) = 348 /\ ber2der (denc o) = Ok (denc o).
Proof.
  split; [|split; vm_compute; reflexivity].
  cbn [dwf]. repeat split; try (vm_compute; congruence); try (vm_compute; reflexivity);
    try (apply Forall_forall; intros x Hx; apply repeat_spec in Hx; subst; reflexivity); repeat constructor.
Qed.

(* non-vacuity and regression witnesses, evaluated: definite / indefinite / high-tag input, the three
   truncations of the repaired panic (D22a), and the family of the repaired exponential blow-up
   (children running past their parent: 30 02 30 LL ...), which is now an error *)
Example C18_ber2der_examples :
  ber2der [48;128;36;128;4;1;7;0;0;0;0]%N = Ok [48;5;36;3;4;1;7]%N /\
  ber2der [48;3;2;1;5]%N = Ok [48;3;2;1;5]%N /\
  ber2der [95;129;5;1;9]%N = Ok [95;129;5;1;9]%N /\
  ber2der [48]%N = Err 1 /\ ber2der [48;130;1]%N = Err 1 /\ ber2der [63;129]%N = Err 1 /\
  ber2der (overlap_input 24) = Err 10 /\
  ber2der_budget 3 [48;6;2;1;5;2;1;6]%N = Ok [48;6;2;1;5;2;1;6]%N /\
  ber2der_budget 2 [48;6;2;1;5;2;1;6]%N = Hang.
Proof. vm_compute. repeat split; reflexivity. Qed.

(* ================= 2. x509.pad / x509.unpad ================================================== *)
Theorem C18_unpad_total : forall data bl, no_crash (unpad data bl).
Proof. exact unpad_total. Qed.
Print Assumptions C18_unpad_total.

(* unpad accepts exactly the strings that fill whole blocks and end in one valid pad *)
Theorem C18_unpad_accepts_iff_valid :
  forall data bl m, 1 <= bl <= 255 -> (unpad data bl = Ok m <-> p7_padded bl data m).
Proof.
  intros data bl m H. split; [apply unpad_sound; exact H|apply unpad_complete; exact H].
Qed.
Print Assumptions C18_unpad_accepts_iff_valid.

Theorem C18_unpad_pad : forall m bl, 1 <= bl <= 255 -> (do p <- pad m bl; unpad p bl) = Ok m.
Proof. exact unpad_pad. Qed.
Print Assumptions C18_unpad_pad.

Theorem C18_pad_is_rfc5652 : forall m bl, 1 <= bl <= 255 -> pad m bl = Ok (p7_pad_spec bl m).
Proof. exact pad_is_spec. Qed.
Print Assumptions C18_pad_is_rfc5652.

(* the CBC branch of encryptedContentInfo.decrypt: IV and ciphertext lengths come from the input *)
Theorem C18_p7_cbc_decrypt_total :
  forall bs dec iv ct, 1 <= bs -> (forall c, length (dec c) = length c) -> no_crash (p7_cbc_decrypt bs dec iv ct).
Proof. exact p7_cbc_decrypt_total. Qed.
Print Assumptions C18_p7_cbc_decrypt_total.

Example C18_unpad_examples :
  unpad [1;2;3;4;5;3;3;3]%N 8 = Ok [1;2;3;4;5]%N /\ unpad [1;2;3;4;5;6;7;200]%N 8 = Err 3 /\
  unpad [1;2;3;4;5;6;7;0]%N 8 = Err 3 /\ unpad [1;2;3]%N 8 = Err 2 /\ unpad [] 8 = Err 2 /\
  unpad [8;8;8;8;8;8;8;8]%N 8 = Ok [] /\ pad [1;2;3]%N 8 = Ok [1;2;3;5;5;5;5;5]%N.
Proof. vm_compute. repeat split; reflexivity. Qed.

(* ================= 3. sm2: Decrypt gate, CipherMarshal / CipherUnmarshal framing, Decompress === *)
Theorem C18_sm2_decrypt_gate_total : forall on_curve mode data, no_crash (decrypt_gate on_curve mode data).
Proof. exact decrypt_gate_total. Qed.
Print Assumptions C18_sm2_decrypt_gate_total.

Theorem C18_sm2_decrypt_short_is_error :
  forall on_curve mode data, length data < 98 -> decrypt_gate on_curve mode data = Err 1.
Proof. exact decrypt_gate_short. Qed.
Print Assumptions C18_sm2_decrypt_short_is_error.

(* the gate hands Decrypt the right fields for both orderings: for x1, y1, C3 of 32 bytes and a non-empty C2,
   with (x1, y1) accepted by the curve test and below p *)
Theorem C18_sm2_decrypt_gate_layout :
  forall on_curve mode x y h c2,
    length x = 32 -> length y = 32 -> length h = 32 -> c2 <> [] ->
    on_curve (be_value x) (be_value y) = true ->
    (be_value x < DecConsts.gen_sm2_P)%N -> (be_value y < DecConsts.gen_sm2_P)%N ->
    decrypt_gate on_curve mode (4%N :: x ++ y ++ (if Nat.eqb mode C1C2C3 then c2 ++ h else h ++ c2))
      = Ok (be_value x, be_value y, h, c2).
Proof. exact decrypt_gate_layout. Qed.
Print Assumptions C18_sm2_decrypt_gate_layout.

Theorem C18_sm2_cipherMarshal_gate_total : forall data, no_crash (cipherMarshal_gate data).
Proof. exact cipherMarshal_gate_total. Qed.
Print Assumptions C18_sm2_cipherMarshal_gate_total.

Theorem C18_sm2_cipherUnmarshal_post_total :
  forall xneg yneg x y hash ct, no_crash (cipherUnmarshal_post xneg yneg x y hash ct).
Proof. exact cipherUnmarshal_post_total. Qed.
Print Assumptions C18_sm2_cipherUnmarshal_post_total.

Theorem C18_sm2_decompress_gate_total : forall a, no_crash (decompress_gate a).
Proof. exact decompress_gate_total. Qed.
Print Assumptions C18_sm2_decompress_gate_total.

Example C18_sm2_examples :
  decrypt_gate (fun _ _ => true) C1C3C2 (repeat 4%N 97) = Err 1 /\
  is_ok (decrypt_gate (fun _ _ => true) C1C3C2 (repeat 4%N 98)) = true /\
  is_ok (decrypt_gate (fun _ _ => true) C1C2C3 (repeat 4%N 98)) = true /\
  decrypt_gate (fun _ _ => true) C1C3C2 (3%N :: repeat 4%N 97) = Err 2 /\
  decrypt_gate (fun _ _ => true) C1C3C2 (4%N :: repeat 255%N 97) = Err 4 /\
  decompress_gate [] = Err 1 /\ decompress_gate (2%N :: repeat 0%N 32) = Err 1 /\
  decompress_gate (1%N :: repeat 255%N 32) = Err 2 /\ decompress_gate (1%N :: repeat 0%N 31 ++ [2%N]) = Ok 2%N /\
  cipherUnmarshal_post false false [1]%N [2]%N (repeat 9%N 32) [7]%N
    = Ok (4%N :: repeat 0%N 31 ++ [1%N] ++ repeat 0%N 31 ++ [2%N] ++ repeat 9%N 32 ++ [7%N]) /\
  cipherUnmarshal_post true false [1]%N [2]%N (repeat 9%N 32) [7]%N = Err 2.
Proof. vm_compute. repeat split; reflexivity. Qed.

(* ================= 4. PKCS#8, hex keys, session tickets, GM handshake parsers ================ *)
Theorem C18_pkcs8_encrypted_post_total :
  forall isPBES2 isPBKDF2 isAESCBC iv encryptedKey prf,
    no_crash (pkcs8_encrypted_post isPBES2 isPBKDF2 isAESCBC iv encryptedKey prf).
Proof. exact pkcs8_encrypted_post_total. Qed.
Print Assumptions C18_pkcs8_encrypted_post_total.

Theorem C18_parseSm2PrivateKey_post_total : forall pk, no_crash (parseSm2PrivateKey_post pk).
Proof. exact parseSm2PrivateKey_post_total. Qed.
Print Assumptions C18_parseSm2PrivateKey_post_total.

Theorem C18_readPublicKeyFromHex_total : forall q, no_crash (readPublicKeyFromHex q).
Proof. exact readPublicKeyFromHex_total. Qed.
Print Assumptions C18_readPublicKeyFromHex_total.

Theorem C18_readPrivateKeyFromHex_total : forall d, no_crash (readPrivateKeyFromHex d).
Proof. exact readPrivateKeyFromHex_total. Qed.
Print Assumptions C18_readPrivateKeyFromHex_total.

Theorem C18_sessionState_unmarshal_total : forall data, no_crash (sessionState_unmarshal data).
Proof. exact sessionState_unmarshal_total. Qed.
Print Assumptions C18_sessionState_unmarshal_total.

(* HMAC-SHA256 and AES-CTR abstract (any functions), any list of ticket keys *)
Theorem C18_decryptTicket_total :
  forall (K : Type) (keyName : K -> list N) mac ctr disabled keys encrypted,
    no_crash (decryptTicket keyName mac ctr disabled keys encrypted).
Proof. intros K. exact (@decryptTicket_total K). Qed.
Print Assumptions C18_decryptTicket_total.

Theorem C18_certificateRequestMsgGM_unmarshal_total :
  forall data, no_crash (certificateRequestMsgGM_unmarshal data).
Proof. exact certificateRequestMsgGM_unmarshal_total. Qed.
Print Assumptions C18_certificateRequestMsgGM_unmarshal_total.

Theorem C18_gm_key_exchange_gates_total :
  forall point_ok b,
    no_crash (ecc_processClientKeyExchange_gate b) /\ no_crash (ecc_processServerKeyExchange_gate b) /\
    no_crash (ecdhe_processServerKeyExchange_gate point_ok b).
Proof.
  intros ok b. split; [apply ecc_processClientKeyExchange_gate_total|].
  split; [apply ecc_processServerKeyExchange_gate_total|apply ecdhe_processServerKeyExchange_gate_total].
Qed.
Print Assumptions C18_gm_key_exchange_gates_total.

Example C18_misc_examples :
  sessionState_unmarshal [1;1;224;19;0;2;170;187;0;1;0;0;0;3;1;2;3]%N
    = Ok (mkSession 257 57363 [170;187] [[1;2;3]])%N /\
  sessionState_unmarshal [1;1;224;19;0;2;170;187;0;1;255;255;255;255;1;2;3]%N = Err 1 /\
  sessionState_unmarshal [1;1;224;19;255;255;170;187]%N = Err 1 /\
  certificateRequestMsgGM_unmarshal [13;0;0;9;2;1;64;0;4;0;2;65;66]%N = Ok ([1;64], [[65;66]])%N /\
  certificateRequestMsgGM_unmarshal [13;0;0;9;2;1;64;0;4;0;3;65;66]%N = Err 1 /\
  ecc_processClientKeyExchange_gate [0;2;7;8]%N = Ok [7;8]%N /\
  ecc_processClientKeyExchange_gate [1]%N = Err 1 /\
  readPublicKeyFromHex [48;52]%N = Err 2 /\ readPublicKeyFromHex [48]%N = Err 1 /\
  readPrivateKeyFromHex [48;97]%N = Ok 10%N.
Proof. vm_compute. repeat split; reflexivity. Qed.

(* ================= 5. encoding/asn1: the DER reader every wrapper goes through ================= *)
(* Dec/Asn1Model.v follows parseTagAndLength / parseBase128Int / parseField / parseBigInt / parseBitString /
   parseObjectIdentifier / parseInt64 / parseBool / parseSequenceOf of Go 1.23 with checked accesses, for big.Int,
   []byte, BitString, OID, RawValue, int, bool, time.Time, the empty interface, slices and structs of these with
   the field parameters optional / explicit / tag:n / set / default:n.  For EVERY schema, field parameter
   and byte string: a value or an error, never an out-of-range access, never a loop without end; at most
   2 * (number of schema nodes) + (weight of the schema) * (length of the input) tag-and-length reads, where the
   weight is 0 for a schema without slices; the value has the shape of the Go type. *)
Theorem C18_asn1_unmarshal_total :
  forall k params b,
    match Unmarshal k params b with
    | Ok (v, rest, steps) => (steps <= 2 * N.of_nat (ksize k) + N.of_nat (kweight k) * N.of_nat (length b))%N /\
                             length rest <= length b /\
                             (match v with VAbsent => p_optional params | _ => conforms k v end) = true
    | Err _ => True
    | Panic | Hang => False
    end.
Proof. exact Unmarshal_total. Qed.
Print Assumptions C18_asn1_unmarshal_total.

(* the Go types gmsm hands to encoding/asn1.Unmarshal: certificate, tbsCertificate, certificateRequest,
   pkix.CertificateList, the PKCS#7 / PKCS#8 / PKCS#12 structures, the extension payloads, the SM2 structures ...
   Their schemas are read from the struct declarations and asn1 tags in the source by the translator
   (Gen/Asn1Schemas.v, regenerated on every run; names are <package>.<Go type> in ASCII).  The list is not empty, and
   for every one of them and every byte string: a value of the type's shape or an error, within the cost bound of the
   schema, which for the schemas listed now is at most 800 + 400 * |b| tag-and-length reads. *)
Theorem C18_gmsm_asn1_decoders_total :
  gen_asn1_schemas <> [] /\
  forall name s, In (name, s) gen_asn1_schemas ->
  forall b,
    match Unmarshal s noParams b with
    | Ok (v, rest, steps) => (steps <= 2 * N.of_nat (ksize s) + N.of_nat (kweight s) * N.of_nat (length b))%N /\
                             (steps <= 800 + 400 * N.of_nat (length b))%N /\
                             length rest <= length b /\ conforms s v = true
    | Err _ => True
    | Panic | Hang => False
    end.
Proof.
  split; [discriminate|].
  (* the sizes behind the second bound, evaluated on what the source declares now: every listed schema has at
     most 400 nodes and a weight of at most 400 *)
  assert (H : forallb (fun ns => Nat.leb (ksize (snd ns)) 400 && Nat.leb (kweight (snd ns)) 400)%bool gen_asn1_schemas = true)
    by (vm_compute; reflexivity).
  rewrite forallb_forall in H. intros name s Hin b.
  specialize (H _ Hin). cbn [snd] in H. apply andb_prop in H. destruct H as [H1 H2].
  apply Nat.leb_le in H1, H2.
  pose proof (Unmarshal_total s noParams b) as U.
  destruct (Unmarshal s noParams b) as [[[v rest] st]| | |]; auto.
  destruct U as (U1 & U2 & U3).
  assert (N.of_nat (kweight s) * N.of_nat (length b) <= 400 * N.of_nat (length b))%N by (apply N.mul_le_mono_r; lia).
  repeat split; auto; try lia. destruct v; try exact U3; discriminate.
Qed.
Print Assumptions C18_gmsm_asn1_decoders_total.

(* the second part of the reader on hand-written copies of validity, SEQUENCE OF Extension, basicConstraints and
   RDNSequence (time, bool, int with default, slices, SET OF by type name, ANY) *)
Example C18_asn1_examples_2 :
  let validityS := KStruct false [(noParams, KTime); (noParams, KTime)] in
  let extS := KStruct false [(noParams, KOID); (mkParams true false None false, KBool); (noParams, KOctets)] in
  let bcS := KStruct false [(mkParams true false None false, KBool); (mkParams true false None false, KInt (Some (-1)%Z))] in
  let rdnS := KSeqOf false (KSeqOf true (KStruct false [(noParams, KOID); (noParams, KAny)])) in
  let utc := [50;52;48;49;48;49;49;50;48;48;48;48;90]%N in                (* 240101120000Z *)
  let gen := [50;48;51;52;48;49;48;49;49;50;48;48;48;48;90]%N in          (* 20340101120000Z *)
  let feb30 := [50;52;48;50;51;48;49;50;48;48;48;48;90]%N in              (* 240230120000Z *)
  Unmarshal validityS noParams ([48;32;23;13] ++ utc ++ [24;15] ++ gen)%N = Ok (VStruct [] [VTime false utc; VTime true gen], [], 3%N) /\
  Unmarshal validityS noParams ([48;30;23;13] ++ utc ++ [23;13] ++ feb30)%N = Err 8 /\
  Unmarshal (KSeqOf false extS) noParams [48;22; 48;10;6;3;85;29;19;1;1;255;4;0; 48;8;6;3;85;29;15;4;1;7; 5;0]%N
    = Ok (VSeq [VStruct [] [VOID [2;5;29;19]%N; VBool true; VBytes []]; VStruct [] [VOID [2;5;29;15]%N; VAbsent; VBytes [7%N]]], [5;0]%N, 11%N) /\
  Unmarshal (KSeqOf false extS) noParams [48;12; 48;10;6;3;85;29;19;1;1;1;4;0]%N = Err 7 /\   (* BOOLEAN 01 *)
  Unmarshal (KSeqOf false extS) noParams [48;7; 48;2;6;0; 49;1;0]%N = Err 3 /\                (* a SET among the elements *)
  Unmarshal bcS noParams [48;0]%N = Ok (VStruct [] [VAbsent; VInt (-1)], [], 1%N) /\           (* default:-1 *)
  Unmarshal bcS noParams [48;6;1;1;255;2;1;3]%N = Ok (VStruct [] [VBool true; VInt 3], [], 3%N) /\
  Unmarshal bcS noParams [48;11;2;9;0;128;0;0;0;0;0;0;0]%N = Err 3 /\                          (* nine-byte int *)
  Unmarshal rdnS noParams [48;13;49;11;48;9;6;3;85;4;3;12;2;195;169]%N
    = Ok (VSeq [VSeq [VStruct [] [VOID [2;5;4;3]%N; VStr 12 [195;169]%N]]], [], 7%N) /\
  Unmarshal rdnS noParams [48;13;49;11;48;9;6;3;85;4;3;12;2;195;40]%N = Err 9 /\               (* not UTF-8 *)
  Unmarshal rdnS noParams [48;13;48;11;48;9;6;3;85;4;3;12;2;195;169]%N = Err 3.                (* SEQUENCE where the type name says SET *)
Proof. vm_compute. repeat split; reflexivity. Qed.

(* end to end: sm2.SignDataToSignDigit = Unmarshal into SEQUENCE { r, s INTEGER } ... *)
Theorem C18_signDataToSignDigit_total : forall b, no_crash (signDataToSignDigit b).
Proof. exact signDataToSignDigit_total. Qed.
Print Assumptions C18_signDataToSignDigit_total.

(* ... and sm2.CipherUnmarshal = Unmarshal into SEQUENCE { x, y INTEGER, hash, ct OCTET STRING } + the post-processing of section 3 *)
Theorem C18_cipherUnmarshal_total : forall b, no_crash (cipherUnmarshal b).
Proof. exact cipherUnmarshal_total. Qed.
Print Assumptions C18_cipherUnmarshal_total.

(* the cost in tag-and-length reads for the structures used: constant, whatever the input *)
Theorem C18_asn1_cost :
  forall b,
    (forall v rest st, Unmarshal sigSchema noParams b = Ok (v, rest, st) -> (st <= 6)%N) /\
    (forall v rest st, Unmarshal cipherSchema noParams b = Ok (v, rest, st) -> (st <= 10)%N) /\
    (forall v rest st, Unmarshal certOuterSchema noParams b = Ok (v, rest, st) -> (st <= 12)%N).
Proof. exact asn1_cost. Qed.
Print Assumptions C18_asn1_cost.

(* one statement instead of two models: this reader and the functional model of the SM2 family (SM2/DER.v, used by
   C01 / C02 / C14) decode the same values and reject the same inputs, for every well-formed byte string *)
Theorem C18_asn1_agrees_with_sm2_der_cipher :
  forall b, bytes_ok b ->
    DER.asn1_unmarshal_cipher b =
    match Unmarshal cipherSchema noParams b with
    | Ok (VStruct _ [VInt x; VInt y; VBytes h; VBytes c], _, _) => Some (x, y, h, c)
    | _ => None
    end.
Proof. exact cipher_models_agree. Qed.
Print Assumptions C18_asn1_agrees_with_sm2_der_cipher.

(* ... and for SEQUENCE { r, s } read with the same primitives (asn1_read, asn1_read_int of SM2/DER.v) *)
Theorem C18_asn1_agrees_with_sm2_der_sig :
  forall b, bytes_ok b ->
    der_asn1_sig b = match signDataToSignDigit b with Ok rs => Some rs | _ => None end.
Proof. exact sig_models_agree. Qed.
Print Assumptions C18_asn1_agrees_with_sm2_der_sig.

Example C18_asn1_examples :
  signDataToSignDigit [48;6;2;1;5;2;1;7]%N = Ok (5%Z, 7%Z) /\
  signDataToSignDigit [48;7;2;2;0;133;2;1;255;9;9]%N = Ok (133%Z, Zneg xH) /\
  signDataToSignDigit [48;6;2;2;0;5;2;0]%N = Err 4 /\            (* INTEGER not minimal *)
  signDataToSignDigit [48;129;6;2;1;5;2;1;7]%N = Err 3 /\        (* length not minimal *)
  signDataToSignDigit [48;128;2;1;5;2;1;7;0;0]%N = Err 2 /\      (* indefinite length *)
  signDataToSignDigit [48;6;2;1;5;2;1]%N = Err 1 /\              (* truncated *)
  (do '(v, rest, st) <- Unmarshal certOuterSchema noParams [48;16; 48;2;5;0; 48;5;6;3;42;3;4; 3;3;0;1;2; 9]%N; Ok (v, rest, st))
    = Ok (VStruct [48;16;48;2;5;0;48;5;6;3;42;3;4;3;3;0;1;2]%N
            [VRaw 0 16 true [5;0]%N [48;2;5;0]%N; VStruct [] [VOID [1;2;3;4]%N; VAbsent]; VBits [1;2]%N 16], [9]%N, 5%N).
Proof. vm_compute. repeat split; reflexivity. Qed.

(* ================= round 6: the length arithmetic of readObject in Go's 64-bit int ================ *)
(* The width limits of the long-form length are the source's (translator target dec -> Gen/DecBerLen.v) ... *)
Theorem C18_ber_length_width_is_source :
  DecBerLen.gen_berMaxLenOctets = 4%N /\ DecBerLen.gen_berNegLenOctets = 4%N.
Proof. exact BerLenBound.ber_len_octets_tie. Qed.
Print Assumptions C18_ber_length_width_is_source.

(* ... and under them "offset + length" cannot wrap: every length readObject accepts is below
   2^(8*gen_berMaxLenOctets-1) = 2^31, the offset behind the length octets is within the input, and for every
   input a 64-bit machine can hold the wrapping sum is the mathematical one, so that the test
   "contentEnd > len(ber)" and the model's "length > len(ber)-offset" decide the same. *)
Theorem C18_ber_content_end_no_wrap :
  forall ber te len off ind,
    bytes_ok ber -> (Z.of_nat (length ber) < 2 ^ 62)%Z ->
    read_length ber te = Ok (len, off, ind) ->
    (len < 2 ^ (8 * DecBerLen.gen_berMaxLenOctets - 1))%N /\ te < off <= length ber /\
    BerLenBound.wrap64 (Z.of_nat off + Z.of_N len) = (Z.of_nat off + Z.of_N len)%Z /\
    (BerLenBound.wrap64 (Z.of_nat off + Z.of_N len) >? Z.of_nat (length ber))%Z
      = (N.of_nat (Nat.sub (length ber) off) <? len)%N.
Proof.
  intros ber te len off ind Hb Hl H.
  destruct (BerLenBound.read_length_below_width ber te len off ind Hb H) as [A B].
  destruct (BerLenBound.ber_content_end_no_wrap ber te len off ind Hb Hl H) as [C D].
  repeat split; try assumption; apply B.
Qed.
Print Assumptions C18_ber_content_end_no_wrap.

(* non-vacuity: a 4-octet length at its limit is read and refused by the bound test without wrapping; the same
   sum with an 8-octet length (04 88 7f ff ff ff ff ff ff fe) wraps negative and would pass "contentEnd > len" *)
Example C18_ber_length_wrap_examples :
  read_length [4; 132; 127; 255; 255; 255; 1; 2; 3]%N 1 = Ok (2147483647%N, 6, false) /\
  ber2der [4; 132; 127; 255; 255; 255; 1; 2; 3]%N = Err 7 /\
  ber2der [4; 136; 127; 255; 255; 255; 255; 255; 255; 254; 1; 2; 3]%N = Err 4 /\
  BerLenBound.wrap64 (10 + (2 ^ 63 - 2)) = (- 2 ^ 63 + 8)%Z.
Proof. vm_compute. repeat split; reflexivity. Qed.
