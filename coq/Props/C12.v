(* C12 - placeholder while the proofs are being built; replaced below *)
From GmsmVerif Require Import SM4.GCMSpec SM4.GCMModel.
