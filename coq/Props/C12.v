(* C12 - the SM4-GCM helpers compute standard GCM and authenticate all inputs.
   Property theorems only: each is closed by lemmas of SM4/GCMProofs.v, GCMProofs2.v, GCMField.v and followed
   by Print Assumptions.  Specification: SM4/GCMSpec.v (NIST SP 800-38D, validated by RFC 8998 A.1);
   model: SM4/GCMModel.v (follows /repo/sm4/sm4_gcm.go function by function).  The block cipher is
   abstract: any E with 16-byte outputs ([gcm_cipher E]); C05 proves that NewCipher/Encrypt of sm4.go are
   SM4Spec, which is one (C12_sm4_is_gcm_cipher).

   Sm4GCM(mode=false) / GCMDecrypt do not compare tags: they return the recomputed tag and leave the
   comparison to the caller.  The theorems below say what that returned tag is. *)
From Coq Require Import List NArith Arith Bool Lia.
From GmsmVerif Require Import Lib.Outcome SM4.SM4Spec SM4.ModesSpec SM4.ModesProofs SM4.GCMSpec SM4.GCMField SM4.GCMModel
  SM4.GCMProofs SM4.GCMProofs2 SM4.GCMProofs3 SM4.ModesModel SM4.GCMMem SM4.GCMMemProofs Gen.SM4Consts SM4.SM4ConstsBlock SM4.SM4ConstsGCM.
Import ListNotations.
Local Open Scope nat_scope.

Record gcm_cipher (E : list N -> list N -> list N) : Prop := {
  gc_len : forall k b, length (E k b) = 16;
  gc_ok : forall k b, bytes_ok (E k b) = true }.

Theorem C12_sm4_is_gcm_cipher : gcm_cipher sm4_encrypt_block.
Proof. constructor; [exact sm4_E_len|exact sm4_E_ok]. Qed.
Print Assumptions C12_sm4_is_gcm_cipher.

(* a block: 16 bytes with byte values *)
Definition block (l : list N) : Prop := length l = 16 /\ bytes_ok l = true.

(* ---- 1. GF(2^128) ------------------------------------------------------------------------------------------- *)
(* the multiplication of SP 800-38D (Algorithm 1) is commutative on blocks: proved from its additivity in both
   operands and a complete sweep of the 128 x 128 pairs of basis elements *)
Theorem C12_gf_mul_commutative : forall x y, (x < 2 ^ 128)%N -> (y < 2 ^ 128)%N -> gf_mul x y = gf_mul y x.
Proof. exact gf_mul_comm. Qed.
Print Assumptions C12_gf_mul_commutative.

(* Go's multiplication(X, Y) runs Algorithm 1 with the bits of Y and V_0 = X, i.e. computes Y . X; it is X . Y *)
Theorem C12_gf128_mul_model_is_spec : forall X Y, block X -> block Y ->
  multiplication X Y = gf_mul_bytes Y X /\ multiplication X Y = gf_mul_bytes X Y /\ block (multiplication X Y).
Proof.
  intros X Y HX HY. destruct (multiplication_alg1 X Y HX HY) as [H1 H2].
  destruct (multiplication_spec X Y HX HY) as [_ H3]. repeat split; try assumption; apply H1.
Qed.
Print Assumptions C12_gf128_mul_model_is_spec.

(* ---- 2. GHASH: block partition, zero padding, the length block in BITS ------------------------------------------ *)
Theorem C12_ghash_model_is_spec : forall H A C, block H -> bytes_ok A = true -> bytes_ok C = true ->
  GHASH H A C = ghash H (pad0 A ++ pad0 C ++ len64 A ++ len64 C) /\ block (GHASH H A C).
Proof. intros H A C HH HA HC. exact (GHASH_spec H A C HH HA HC). Qed.
Print Assumptions C12_ghash_model_is_spec.

(* ---- 3. J0, for every IV length (96 bits: IV || 0^31 1; otherwise GHASH(IV || 0^(s+64) || [len IV]_64)) --------- *)
Theorem C12_j0_model_is_spec : forall E K IV, gcm_cipher E -> bytes_ok IV = true ->
  GetY0 (hash_key (E K)) IV = J0 (E K) IV /\ block (J0 (E K) IV).
Proof. intros E K IV [H1 H2] HIV. exact (GetY0_J0 E H1 H2 K IV HIV). Qed.
Print Assumptions C12_j0_model_is_spec.

(* ---- 4. the counter: only the low 32 bits are incremented, modulo 2^32 ------------------------------------------- *)
Theorem C12_incr_model_is_inc32 : forall Y0 n i, block Y0 -> i < n ->
  addYone Y0 = inc32 Y0 /\
  nth i (incr n Y0) [] = iterf i inc32 Y0 /\
  firstn 12 (inc32 Y0) = firstn 12 Y0 /\
  int_of_bytes (skipn 12 (inc32 Y0)) = ((int_of_bytes (skipn 12 Y0) + 1) mod 2 ^ 32)%N.
Proof.
  intros Y0 n i HY Hi. destruct (addYone_inc32 Y0 HY) as [H1 _].
  destruct (nth_incr n i Y0 HY Hi) as [H2 _]. split; [exact H1|]. split; [exact H2|].
  unfold inc32. destruct HY as [Hl _].
  assert (L12 : length (firstn 12 Y0) = 12) by (rewrite firstn_length; lia).
  set (B := bytes_of_int 4 ((int_of_bytes (skipn 12 Y0) + 1) mod 2 ^ 32)%N).
  pose proof (firstn_len_app (firstn 12 Y0) B) as F1. pose proof (skipn_len_app (firstn 12 Y0) B) as F2.
  rewrite L12 in F1, F2. split; [exact F1|]. rewrite F2. unfold B.
  apply (val_bytes_of_int 4). apply N.mod_lt. discriminate.
Qed.
Print Assumptions C12_incr_model_is_inc32.

(* ---- 5. GCTR: the counter-mode part shared by GCMEncrypt and GCMDecrypt --------------------------------------------- *)
Theorem C12_gctr_model_is_spec : forall E key Y0 P, gcm_cipher E -> block Y0 ->
  ctr_crypt E key Y0 P = Ok (gctr (E key) (inc32 Y0) P).
Proof. intros E key Y0 P [H1 H2] HY. exact (ctr_crypt_spec E H1 H2 key Y0 P HY). Qed.
Print Assumptions C12_gctr_model_is_spec.

(* ---- 6. GCM-AE and GCM-AD with t = 128, for every key, IV (any length), A, P ------------------------------------------ *)
Theorem C12_gcm_encrypt_is_standard : forall E K IV P A, gcm_cipher E ->
  length K = 16 -> bytes_ok IV = true -> bytes_ok P = true -> bytes_ok A = true ->
  Sm4GCM E K IV P A true = Ok (gcm_ae (E K) IV P A) /\
  GCMEncrypt E K IV P A = Ok (gcm_ae (E K) IV P A).
Proof.
  intros E K IV P A [H1 H2] HK HIV HP HA.
  destruct (Sm4GCM_spec E K IV P A true) as [_ ->]; [|exact HK].
  split; exact (GCMEncrypt_spec E H1 H2 K IV P A HK HIV HP HA).
Qed.
Print Assumptions C12_gcm_encrypt_is_standard.

(* decryption returns the GCTR of the ciphertext and the tag GCM-AD recomputes; GCM-AD's verdict is the
   comparison of that tag with the transmitted one *)
Theorem C12_gcm_decrypt_is_standard : forall E K IV C A T, gcm_cipher E ->
  length K = 16 -> bytes_ok IV = true -> bytes_ok C = true -> bytes_ok A = true ->
  Sm4GCM E K IV C A false = Ok (gctr (E K) (inc32 (J0 (E K) IV)) C, gcm_tag (E K) IV A C) /\
  GCMDecrypt E K IV C A = Ok (gctr (E K) (inc32 (J0 (E K) IV)) C, gcm_tag (E K) IV A C) /\
  (gcm_ad (E K) IV C A T = Some (gctr (E K) (inc32 (J0 (E K) IV)) C) <-> T = gcm_tag (E K) IV A C) /\
  (gcm_ad (E K) IV C A T = None <-> T <> gcm_tag (E K) IV A C).
Proof.
  intros E K IV C A T [H1 H2] HK HIV HC HA.
  destruct (Sm4GCM_spec E K IV C A false) as [_ ->]; [|exact HK].
  pose proof (GCMDecrypt_spec E H1 H2 K IV C A HK HIV HC HA) as HD.
  split; [exact HD|]. split; [exact HD|]. unfold gcm_ad.
  destruct (list_eq_dec N.eq_dec T (gcm_tag (E K) IV A C)) as [e|ne]; split; split; intros H;
    try reflexivity; try assumption; try discriminate; try contradiction.
Qed.
Print Assumptions C12_gcm_decrypt_is_standard.

Theorem C12_gcm_decrypt_encrypt : forall E K IV P A C T, gcm_cipher E ->
  length K = 16 -> bytes_ok IV = true -> bytes_ok P = true -> bytes_ok A = true ->
  Sm4GCM E K IV P A true = Ok (C, T) -> Sm4GCM E K IV C A false = Ok (P, T).
Proof.
  intros E K IV P A C T [H1 H2] HK HIV HP HA.
  destruct (Sm4GCM_spec E K IV P A true) as [_ ->]; [|exact HK].
  destruct (Sm4GCM_spec E K IV C A false) as [_ ->]; [|exact HK].
  exact (GCM_roundtrip E H1 H2 K IV P A C T HK HIV HP HA).
Qed.
Print Assumptions C12_gcm_decrypt_encrypt.

(* ---- 7. the tag ------------------------------------------------------------------------------------------------------- *)
(* the recomputed tag is E(K, J0(IV)) xor GHASH_H(A || 0 || C || 0 || [len A]_64 || [len C]_64), over exactly the
   (IV, A, C) that were passed; and for one key and IV two tags agree iff the two GHASH values agree (the second
   conjunct is just xor-cancellation of E(K, J0); a modified key or IV changes H / J0 and is not covered by it) *)
Theorem C12_tag_depends_on_all : forall E K IV A C A' C', gcm_cipher E ->
  length K = 16 -> bytes_ok IV = true -> bytes_ok A = true -> bytes_ok C = true ->
  bytes_ok A' = true -> bytes_ok C' = true ->
  let H := hash_key (E K) in
  omap snd (Sm4GCM E K IV C A false) = Ok (xor_bytes (ghash H (pad0 A ++ pad0 C ++ len64 A ++ len64 C)) (E K (J0 (E K) IV))) /\
  (omap snd (Sm4GCM E K IV C A false) = omap snd (Sm4GCM E K IV C' A' false) <->
   ghash H (pad0 A ++ pad0 C ++ len64 A ++ len64 C) = ghash H (pad0 A' ++ pad0 C' ++ len64 A' ++ len64 C')).
Proof.
  intros E K IV A C A' C' [H1 H2] HK HIV HA HC HA' HC'. cbv zeta.
  destruct (Sm4GCM_spec E K IV C A false) as [_ ->]; [|exact HK].
  destruct (Sm4GCM_spec E K IV C' A' false) as [_ ->]; [|exact HK].
  rewrite (GCMDecrypt_spec E H1 H2 K IV C A HK HIV HC HA), (GCMDecrypt_spec E H1 H2 K IV C' A' HK HIV HC' HA').
  cbn [omap obind snd].
  destruct (gcm_tag_form E H1 H2 K IV A C HIV HA HC) as [F1 _].
  split; [rewrite F1; reflexivity|].
  pose proof (tag_eq_iff E H1 H2 K IV A C A' C' HIV HA HC HA' HC') as Hiff. unfold ghash_input in Hiff.
  rewrite <- Hiff. split; [intros [= ->]; reflexivity|intros ->; reflexivity].
Qed.
Print Assumptions C12_tag_depends_on_all.

(* keys of any other length: Sm4GCM returns an error *)
Theorem C12_bad_key_rejected : forall E K IV X A mode, length K <> 16 -> Sm4GCM E K IV X A mode = Err 1.
Proof. intros E K IV X A mode H. destruct (Sm4GCM_spec E K IV X A mode) as [H1 _]. exact (H1 H). Qed.
Print Assumptions C12_bad_key_rejected.

(* a difference confined to one 16-byte block Delta of the GHASH input (k blocks, the length block included,
   behind it) leaves the returned tag unchanged exactly when Delta . H^(k+1) = 0 in GF(2^128); that this
   product is non-zero for Delta <> 0 and H <> 0 (the field has no zero divisors) is not proved here *)
Theorem C12_single_block_difference : forall E K IV A C A' C' n j k D, gcm_cipher E ->
  length K = 16 -> bytes_ok IV = true -> bytes_ok A = true -> bytes_ok C = true ->
  bytes_ok A' = true -> bytes_ok C' = true ->
  let H := hash_key (E K) in
  let X := pad0 A ++ pad0 C ++ len64 A ++ len64 C in
  let X' := pad0 A' ++ pad0 C' ++ len64 A' ++ len64 C' in
  length X = 16 * n -> length X' = 16 * n -> length D = 16 ->
  xor_bytes X X' = repeat 0%N (16 * j) ++ D ++ repeat 0%N (16 * k) ->
  (omap snd (Sm4GCM E K IV C A false) = omap snd (Sm4GCM E K IV C' A' false) <->
   iterf k (fun y => gf_mul_bytes y H) (gf_mul_bytes D H) = repeat 0%N 16).
Proof.
  intros E K IV A C A' C' n j k D HE HK HIV HA HC HA' HC' H X X' HX HX' HD Hdiff.
  destruct (C12_tag_depends_on_all E K IV A C A' C' HE HK HIV HA HC HA' HC') as [_ Hiff].
  cbv zeta in Hiff. fold H X X' in Hiff. rewrite Hiff.
  destruct HE as [H1 H2].
  assert (OK : forall a c, bytes_ok a = true -> bytes_ok c = true ->
               bytes_ok (pad0 a ++ pad0 c ++ len64 a ++ len64 c) = true).
  { intros a c Ha Hc. unfold len64. rewrite !bytes_ok_app, !pad0_ok, !bytes_of_int_ok by assumption. reflexivity. }
  apply (ghash_difference H X X' n j k D); try assumption.
  - apply E_blk16; assumption.
  - apply OK; assumption.
  - apply OK; assumption.
Qed.
Print Assumptions C12_single_block_difference.

(* the hypotheses are satisfiable: one bit of A flipped *)
Example C12_example_single_block :
  let A := [1; 2]%N in let A' := [1; 3]%N in let C := [7]%N in
  let X := pad0 A ++ pad0 C ++ len64 A ++ len64 C in
  let X' := pad0 A' ++ pad0 C ++ len64 A' ++ len64 C in
  length X = 16 * 3 /\ length X' = 16 * 3 /\
  xor_bytes X X' = repeat 0%N (16 * 0) ++ (0 :: 1 :: repeat 0 14)%N ++ repeat 0%N (16 * 2) /\
  iterf 2 (fun y => gf_mul_bytes y (hash_key (sm4_encrypt_block A1_key)))
        (gf_mul_bytes (0 :: 1 :: repeat 0 14)%N (hash_key (sm4_encrypt_block A1_key))) <> repeat 0%N 16.
Proof. vm_compute. repeat split; try reflexivity. intros H. discriminate H. Qed.

(* ---- 8. histories: nothing is carried from one call to the next ---------------------------------------------------- *)
(* any sequence of Sm4GCM / GCMEncrypt / GCMDecrypt / GetH calls (the caller may reuse and overwrite its key, IV,
   A and P buffers between calls): every result is the specification's value on the VALUES the arguments hold
   when that call is made - in particular it does not depend on the keys, IVs or data of earlier calls *)
Theorem C12_stateless : forall E (calls : list gcm_call), gcm_cipher E ->
  Forall (fun c => length (c_key c) = 16 /\ bytes_ok (c_iv c) = true /\ bytes_ok (c_in c) = true /\ bytes_ok (c_a c) = true) calls ->
  gcm_run E tt calls =
    Ok (map (fun c =>
              let CIPH := E (c_key c) in
              match c_fn c with
              | FnSm4GCM true | FnGCMEncrypt => let '(x, t) := gcm_ae CIPH (c_iv c) (c_in c) (c_a c) in RPair x t
              | FnSm4GCM false | FnGCMDecrypt =>
                RPair (gctr CIPH (inc32 (J0 CIPH (c_iv c))) (c_in c)) (gcm_tag CIPH (c_iv c) (c_a c) (c_in c))
              | FnGetH => RBlock (hash_key CIPH)
              end) calls).
Proof. intros E calls [H1 H2] HF. exact (gcm_run_spec E H1 H2 calls HF tt). Qed.
Print Assumptions C12_stateless.

(* ---- 9. caller memory: K, IV, in, A are slice headers into the caller's heap (arrays with spare capacity) ---------- *)
(* the appends of GetY0 (J0 = IV || 0^31 1) and GHASH (last blocks, length block) are modelled on the heap with Go's
   in-place append; every array that exists when Sm4GCM / GCMEncrypt / GCMDecrypt is called - so the whole backing
   arrays of K, IV, in, A, spare capacity included - is unchanged afterwards, and the results are those of the
   value-level model on what the slices hold *)
Theorem C12_caller_memory_untouched : forall E h K IV X A mode,
  slice_valid h K -> slice_valid h IV -> slice_valid h X -> slice_valid h A ->
  omap snd (Sm4GCM_mem E h K IV X A mode) = Sm4GCM E (read h K) (read h IV) (read h X) (read h A) mode /\
  omap snd (GCMEncrypt_mem E h K IV X A) = GCMEncrypt E (read h K) (read h IV) (read h X) (read h A) /\
  omap snd (GCMDecrypt_mem E h K IV X A) = GCMDecrypt E (read h K) (read h IV) (read h X) (read h A) /\
  (forall h' r, Sm4GCM_mem E h K IV X A mode = Ok (h', r) \/ GCMEncrypt_mem E h K IV X A = Ok (h', r) \/
                GCMDecrypt_mem E h K IV X A = Ok (h', r) ->
     forall a, a < length h -> array h' a = array h a).
Proof.
  intros E h K IV X A mode VK VIV VX VA.
  assert (V : args_valid h K IV X A) by exact (conj VK (conj VIV (conj VX VA))).
  destruct (Sm4GCM_mem_spec E h K IV X A mode V) as [S1 S2].
  destruct (GCMEncrypt_mem_spec E h K IV X A V) as [E1 E2].
  destruct (GCMDecrypt_mem_spec E h K IV X A V) as [D1 D2].
  split; [exact S1|]. split; [exact E1|]. split; [exact D1|].
  intros h' r [H|[H|H]] a Ha; [apply (S2 h' r H)|apply (E2 h' r H)|apply (D2 h' r H)]; exact Ha.
Qed.
Print Assumptions C12_caller_memory_untouched.

(* ---- 10. the same statements for SM4 itself: no premise left ------------------------------------------------------ *)
(* E = sm4_encrypt_block, which C05_go_cipher_is_sm4 proves to be what sm4.NewCipher(key).Encrypt computes *)
Theorem C12_gcm_is_standard_sm4 : forall K IV X A, length K = 16 ->
  bytes_ok IV = true -> bytes_ok X = true -> bytes_ok A = true ->
  let E := sm4_encrypt_block in
  Sm4GCM E K IV X A true = Ok (gcm_ae (E K) IV X A) /\
  Sm4GCM E K IV X A false = Ok (gctr (E K) (inc32 (J0 (E K) IV)) X, gcm_tag (E K) IV A X) /\
  (forall C T, Sm4GCM E K IV X A true = Ok (C, T) -> Sm4GCM E K IV C A false = Ok (X, T)).
Proof.
  intros K IV X A HK HIV HX HA. pose proof C12_sm4_is_gcm_cipher as G. cbv zeta. split; [|split].
  - exact (proj1 (C12_gcm_encrypt_is_standard _ K IV X A G HK HIV HX HA)).
  - exact (proj1 (C12_gcm_decrypt_is_standard _ K IV X A [] G HK HIV HX HA)).
  - intros C T. exact (C12_gcm_decrypt_encrypt _ K IV X A C T G HK HIV HX HA).
Qed.
Print Assumptions C12_gcm_is_standard_sm4.

Theorem C12_stateless_sm4 : forall (calls : list gcm_call),
  Forall (fun c => length (c_key c) = 16 /\ bytes_ok (c_iv c) = true /\ bytes_ok (c_in c) = true /\ bytes_ok (c_a c) = true) calls ->
  gcm_run sm4_encrypt_block tt calls = Ok (map (gcm_spec_result sm4_encrypt_block) calls).
Proof. intros calls HF. exact (C12_stateless _ calls C12_sm4_is_gcm_cipher HF). Qed.
Print Assumptions C12_stateless_sm4.

(* ---- 11. the constants the model hard-codes are the constants of the source (Gen/SM4Consts.v) ----------------------- *)
(* (the reduction byte 0xe1 and the 128 iterations of multiplication, the bit numbering of findYi and the shift of
   Rightshift: theorems 11b / 11c, by the regenerated code;) the length-block shifts 56..0 and the factor 8 (bits), 96 and 00 00 00 01 of GetY0, the 4-byte bound
   of the counter increment, t = 128, BlockSize; the literal sequences of the functions of sm4_gcm.go that are not tied semantically; and
   sm4_gcm.go declares no package-level variable (what gcm_state := unit assumes) *)
Theorem C12_source_constants :
  (forall x, calculateLenToBytes x = map (fun s => N.shiftr x s mod 256)%N ghash_len_shifts) /\
  ghash_len_shifts = [56; 48; 40; 32; 24; 16; 8; 0]%N /\
  (forall H IV, GetY0 H IV = if Nat.eqb (length IV * nlit gen_lits_GetY0 0) (nlit gen_lits_GetY0 1)
                             then IV ++ [lit gen_lits_GetY0 2; lit gen_lits_GetY0 3; lit gen_lits_GetY0 4; lit gen_lits_GetY0 5]
                             else GHASH H [] IV) /\
  gen_lits_GetY0 = [8; 96; 0; 0; 0; 1; 0; 16]%N /\
  (forall yi, addYone yi = firstn (length yi - nlit gen_lits_incr 2) yi ++
                           rev (carry_inc (rev (skipn (length yi - nlit gen_lits_incr 2) yi)))) /\
  nlit gen_lits_incr 2 = 4 /\
  nlit gen_lits_GCMEncrypt 42 = 128 /\ nlit gen_lits_GCMDecrypt 15 = 128 /\
  gen_pkg_vars_sm4_gcm = [].
Proof.
  split; [intros x; apply (calculateLenToBytes_at_source x)|]. split; [reflexivity|].
  split; [exact GetY0_at_source|]. split; [reflexivity|]. split; [exact addYone_at_source|].
  repeat split; reflexivity.
Qed.
Print Assumptions C12_source_constants.

Theorem C12_source_literals_frozen :
  gen_lits_incr = [16; 1; 4; 1; 0; 1; 1; 16; 1; 16; 16; 16; 16; 16]%N /\
  gen_lits_GetH = [16; 16]%N /\ gen_lits_Sm4GCM = [16%N] /\
  length gen_lits_GHASH = 128 /\ length gen_lits_GCMEncrypt = 43 /\ length gen_lits_GCMDecrypt = 43.
Proof. repeat split; reflexivity. Qed.
Print Assumptions C12_source_literals_frozen.

(* ---- 11b. the model is the code: addition, Rightshift, findYi, MSB, calculateLenToBytes regenerated from sm4/sm4_gcm.go -------------------------- *)
(* Gen/GCMCode.v is regenerated from the Go AST on every run (translator target gcmcode: the three bodies statement by
   statement, 16-byte slices as 16 cells, loops unrolled, uint8 wrap explicit, Rightshift in place, findYi at the 128
   indices multiplication passes).  For ALL byte inputs the regenerated functions are the model's (SM4/GCMCodeTie.v: by
   conversion, else cell by cell with a complete sweep of the one or two input bytes a cell depends on).  This replaces
   the literal fingerprints of these three functions in C12_source_literals_frozen. *)
From GmsmVerif Require Import Gen.GCMCode SM4.GCMCodeTie.
Local Open Scope nat_scope.   (* Gen files open N_scope *)

Theorem C12_leaf_code_is_model :
  (forall a0 a1 a2 a3 a4 a5 a6 a7 a8 a9 a10 a11 a12 a13 a14 a15 b0 b1 b2 b3 b4 b5 b6 b7 b8 b9 b10 b11 b12 b13 b14 b15,
     is_bytes [a0; a1; a2; a3; a4; a5; a6; a7; a8; a9; a10; a11; a12; a13; a14; a15] ->
     is_bytes [b0; b1; b2; b3; b4; b5; b6; b7; b8; b9; b10; b11; b12; b13; b14; b15] ->
     gen_addition a0 a1 a2 a3 a4 a5 a6 a7 a8 a9 a10 a11 a12 a13 a14 a15 b0 b1 b2 b3 b4 b5 b6 b7 b8 b9 b10 b11 b12 b13 b14 b15 =
     addition [a0; a1; a2; a3; a4; a5; a6; a7; a8; a9; a10; a11; a12; a13; a14; a15]
              [b0; b1; b2; b3; b4; b5; b6; b7; b8; b9; b10; b11; b12; b13; b14; b15]) /\
  (forall a0 a1 a2 a3 a4 a5 a6 a7 a8 a9 a10 a11 a12 a13 a14 a15 b0 b1 b2 b3 b4 b5 b6 b7 b8 b9 b10 b11 b12 b13 b14,
     is_bytes [a0; a1; a2; a3; a4; a5; a6; a7; a8; a9; a10; a11; a12; a13; a14; a15] ->
     is_bytes [b0; b1; b2; b3; b4; b5; b6; b7; b8; b9; b10; b11; b12; b13; b14] ->
     gen_addition_mismatch a0 a1 a2 a3 a4 a5 a6 a7 a8 a9 a10 a11 a12 a13 a14 a15 b0 b1 b2 b3 b4 b5 b6 b7 b8 b9 b10 b11 b12 b13 b14 =
     addition [a0; a1; a2; a3; a4; a5; a6; a7; a8; a9; a10; a11; a12; a13; a14; a15]
              [b0; b1; b2; b3; b4; b5; b6; b7; b8; b9; b10; b11; b12; b13; b14]) /\
  (forall v0 v1 v2 v3 v4 v5 v6 v7 v8 v9 v10 v11 v12 v13 v14 v15,
     is_bytes [v0; v1; v2; v3; v4; v5; v6; v7; v8; v9; v10; v11; v12; v13; v14; v15] ->
     gen_Rightshift v0 v1 v2 v3 v4 v5 v6 v7 v8 v9 v10 v11 v12 v13 v14 v15 =
     Rightshift [v0; v1; v2; v3; v4; v5; v6; v7; v8; v9; v10; v11; v12; v13; v14; v15]) /\
  (forall y0 y1 y2 y3 y4 y5 y6 y7 y8 y9 y10 y11 y12 y13 y14 y15 index,
     is_bytes [y0; y1; y2; y3; y4; y5; y6; y7; y8; y9; y10; y11; y12; y13; y14; y15] -> index < 128 ->
     nth index (gen_findYi y0 y1 y2 y3 y4 y5 y6 y7 y8 y9 y10 y11 y12 y13 y14 y15) 0%N =
     findYi [y0; y1; y2; y3; y4; y5; y6; y7; y8; y9; y10; y11; y12; y13; y14; y15] index) /\
  (forall s0 s1 s2 s3 s4 s5 s6 s7 s8 s9 s10 s11 s12 s13 s14 s15 j, j <= 16 ->
     MSB (8 * j) [s0; s1; s2; s3; s4; s5; s6; s7; s8; s9; s10; s11; s12; s13; s14; s15] =
     Ok (nth j (gen_MSB s0 s1 s2 s3 s4 s5 s6 s7 s8 s9 s10 s11 s12 s13 s14 s15) [])) /\
  (forall len, gen_calculateLenToBytes len = calculateLenToBytes len).
Proof. exact gcm_leaf_code_tie. Qed.
Print Assumptions C12_leaf_code_is_model.

(* non-vacuity: the regenerated code evaluated (0x80 >> 1 = 0x40 with the carry of the byte in front; bit 0 of 0x80) *)
Example C12_example_leaf_code :
  gen_Rightshift 1 0x80 0 0 0 0 0 0 0 0 0 0 0 0 0 3 = [0; 0xc0; 0; 0; 0; 0; 0; 0; 0; 0; 0; 0; 0; 0; 0; 1]%N /\
  nth 0 (gen_findYi 0x80 0 0 0 0 0 0 0 0 0 0 0 0 0 0 0) 7%N = 1%N /\
  nth 1 (gen_findYi 0x80 0 0 0 0 0 0 0 0 0 0 0 0 0 0 0) 7%N = 0%N /\
  gen_addition 1 2 3 4 5 6 7 8 9 10 11 12 13 14 15 16 255 0 0 0 0 0 0 0 0 0 0 0 0 0 0 16 =
    [254; 2; 3; 4; 5; 6; 7; 8; 9; 10; 11; 12; 13; 14; 15; 0]%N /\
  gen_calculateLenToBytes 0x0102030405060708 = [1; 2; 3; 4; 5; 6; 7; 8]%N /\
  nth 2 (gen_MSB 1 2 3 4 5 6 7 8 9 10 11 12 13 14 15 16) [] = [1; 2]%N.
Proof. repeat split; reflexivity. Qed.

(* ---- 11c. the model is the code: multiplication regenerated from sm4/sm4_gcm.go, cut at its loop ------------------------ *)
(* The translator evaluates the statements in front of the for loop (R, Z = 16 zero bytes, V = copy of X), the loop header
   (the loop variable takes 0..127; the body does not assign it) and the loop body at each of the 128 indices from
   ARBITRARY cells of the two loop-carried slices Z and V (it checks that the body changes nothing else and that the
   statements behind the loop return Z).  Each of these is the corresponding piece of the model's multiplication =
   mult_loop 128 0 Y zeros (copy16 X) with the step (mult_step_Z, mult_step_V), for all byte values.  This replaces the
   literal fingerprint of multiplication.  (That "init; body at 0..127 in this order; return Z" is what Go's for statement
   does is the reading of the translator; the composition is the definition of mult_loop, last three conjuncts.) *)
From GmsmVerif Require Import SM4.GCMCodeTieMult.
Local Open Scope nat_scope.

Theorem C12_mult_code_is_model :
  (forall x0 x1 x2 x3 x4 x5 x6 x7 x8 x9 x10 x11 x12 x13 x14 x15 y0 y1 y2 y3 y4 y5 y6 y7 y8 y9 y10 y11 y12 y13 y14 y15,
     is_bytes [x0; x1; x2; x3; x4; x5; x6; x7; x8; x9; x10; x11; x12; x13; x14; x15] ->
     is_bytes [y0; y1; y2; y3; y4; y5; y6; y7; y8; y9; y10; y11; y12; y13; y14; y15] ->
     gen_mult_init x0 x1 x2 x3 x4 x5 x6 x7 x8 x9 x10 x11 x12 x13 x14 x15 y0 y1 y2 y3 y4 y5 y6 y7 y8 y9 y10 y11 y12 y13 y14 y15 =
     zeros BlockSize ++ copy16 [x0; x1; x2; x3; x4; x5; x6; x7; x8; x9; x10; x11; x12; x13; x14; x15]) /\
  gen_mult_indices = map N.of_nat (seq 0 128) /\
  (forall k y0 y1 y2 y3 y4 y5 y6 y7 y8 y9 y10 y11 y12 y13 y14 y15 z0 z1 z2 z3 z4 z5 z6 z7 z8 z9 z10 z11 z12 z13 z14 z15
          v0 v1 v2 v3 v4 v5 v6 v7 v8 v9 v10 v11 v12 v13 v14 v15,
     k < 128 ->
     is_bytes [y0; y1; y2; y3; y4; y5; y6; y7; y8; y9; y10; y11; y12; y13; y14; y15] ->
     is_bytes [z0; z1; z2; z3; z4; z5; z6; z7; z8; z9; z10; z11; z12; z13; z14; z15] ->
     is_bytes [v0; v1; v2; v3; v4; v5; v6; v7; v8; v9; v10; v11; v12; v13; v14; v15] ->
     gen_mult_body k y0 y1 y2 y3 y4 y5 y6 y7 y8 y9 y10 y11 y12 y13 y14 y15 z0 z1 z2 z3 z4 z5 z6 z7 z8 z9 z10 z11 z12 z13 z14 z15
                   v0 v1 v2 v3 v4 v5 v6 v7 v8 v9 v10 v11 v12 v13 v14 v15 =
     mult_step_Z [y0; y1; y2; y3; y4; y5; y6; y7; y8; y9; y10; y11; y12; y13; y14; y15]
                 [z0; z1; z2; z3; z4; z5; z6; z7; z8; z9; z10; z11; z12; z13; z14; z15]
                 [v0; v1; v2; v3; v4; v5; v6; v7; v8; v9; v10; v11; v12; v13; v14; v15] k ++
     mult_step_V [v0; v1; v2; v3; v4; v5; v6; v7; v8; v9; v10; v11; v12; v13; v14; v15]) /\
  (forall X Y, multiplication X Y = mult_loop 128 0 Y (zeros BlockSize) (copy16 X)) /\
  (forall n i Y Z V, mult_loop (S n) i Y Z V = mult_loop n (S i) Y (mult_step_Z Y Z V i) (mult_step_V V)) /\
  (forall i Y Z V, mult_loop 0 i Y Z V = Z).
Proof. exact gcm_mult_code_tie. Qed.
Print Assumptions C12_mult_code_is_model.

(* non-vacuity: one regenerated step evaluated: bit 0 of Y set, so Z takes V; V = ..01 is shifted and reduced by 0xe1 *)
Example C12_example_mult_code :
  gen_mult_body 0 0x80 0 0 0 0 0 0 0 0 0 0 0 0 0 0 0  0 0 0 0 0 0 0 0 0 0 0 0 0 0 0 0  2 0 0 0 0 0 0 0 0 0 0 0 0 0 0 1 =
  [2; 0; 0; 0; 0; 0; 0; 0; 0; 0; 0; 0; 0; 0; 0; 1;  0xe0; 0; 0; 0; 0; 0; 0; 0; 0; 0; 0; 0; 0; 0; 0; 0]%N.
Proof. reflexivity. Qed.

(* ---- 12. the consumer: the GM TLS suites use this GCM ------------------------------------------------------------- *)
(* static part (Gen/TLSSuites.v, read from gmtls/gm_support.go): every row of gmCipherSuites whose name says SM4_GCM
   names the AEAD constructor aeadSM4GCM with a 16-byte key and a 4-byte implicit nonce, no other row carries an AEAD,
   and there is such a row.  That aeadSM4GCM / the suites compute GCM-AE with IV = implicit || explicit nonce (the
   values of C12_gcm_is_standard_sm4) is tied by the consumer leg of the differential run only (T cases). *)
Theorem C12_tls_suites_use_sm4_gcm : forall name aead row, In (name, (aead, row)) gm_suite_rows ->
  (name_says_sm4_gcm name = true -> aead = aeadSM4GCM_name (* "aeadSM4GCM" *) /\ nth 1 row 0%N = 16%N /\ nth 3 row 0%N = 4%N) /\
  (name_says_sm4_gcm name = false -> aead = nil_name (* "nil" *)).
Proof. exact gm_gcm_suites_use_sm4gcm. Qed.
Print Assumptions C12_tls_suites_use_sm4_gcm.

Example C12_example_tls_suites :
  existsb (fun r => name_says_sm4_gcm (fst r)) gm_suite_rows = true /\ length gm_suite_rows = length Gen.TLSSuites.gen_gmCipherSuites.
Proof. vm_compute. split; reflexivity. Qed.

(* ---- non-vacuity: SM4 instances, evaluated ------------------------------------------------------------------------------ *)
Example C12_example_rfc8998 :
  Sm4GCM sm4_encrypt_block A1_key rfc8998_iv rfc8998_pt rfc8998_aad true = Ok (rfc8998_ct, rfc8998_tag) /\
  Sm4GCM sm4_encrypt_block A1_key rfc8998_iv rfc8998_ct rfc8998_aad false = Ok (rfc8998_pt, rfc8998_tag) /\
  bytes_ok rfc8998_iv = true /\ bytes_ok rfc8998_pt = true /\ bytes_ok rfc8998_aad = true /\ length A1_key = 16.
Proof. vm_compute. repeat split; reflexivity. Qed.

Example C12_example_counter_wraps :
  let y := [1; 2; 3; 4; 5; 6; 7; 8; 9; 10; 11; 255; 255; 255; 255; 255]%N in
  block y /\ addYone y = [1; 2; 3; 4; 5; 6; 7; 8; 9; 10; 11; 255; 0; 0; 0; 0]%N /\
  nth 2 (incr 3 y) [] = [1; 2; 3; 4; 5; 6; 7; 8; 9; 10; 11; 255; 0; 0; 0; 1]%N.
Proof. vm_compute. repeat split; reflexivity. Qed.

(* a 1-byte IV and an empty message; a flipped bit of A changes the returned tag *)
Example C12_example_short_iv_and_flip :
  let E := sm4_encrypt_block in
  is_ok (Sm4GCM E A1_key [255]%N [] [] true) = true /\
  omap snd (Sm4GCM E A1_key [255]%N [7]%N [1; 2]%N false) <> omap snd (Sm4GCM E A1_key [255]%N [7]%N [1; 3]%N false) /\
  Sm4GCM E [1; 2; 3]%N [255]%N [] [] true = Err 1.
Proof. vm_compute. repeat split; try reflexivity. intros H. discriminate H. Qed.

(* a key buffer rewritten between two calls: the second result is that of the second key *)
Example C12_example_history :
  let E := sm4_encrypt_block in
  let k2 := (0 :: tl A1_key)%N in
  gcm_run E tt [mkCall (FnSm4GCM true) A1_key rfc8998_iv rfc8998_pt rfc8998_aad;
                mkCall FnGetH k2 [] [] [];
                mkCall FnGCMDecrypt A1_key rfc8998_iv rfc8998_ct rfc8998_aad]
  = Ok [RPair rfc8998_ct rfc8998_tag; RBlock (E k2 (repeat 0%N 16)); RPair rfc8998_pt rfc8998_tag].
Proof. vm_compute. reflexivity. Qed.

(* a 12-byte IV with spare capacity behind it (where GetY0 once appended 00 00 00 01), key, A and P in the same heap *)
Example C12_example_memory :
  let h := [A1_key; rfc8998_iv ++ [9; 9; 9; 9; 9; 9]%N; rfc8998_pt ++ [8; 8]%N; rfc8998_aad ++ [7]%N] in
  let K := mkSlice 0 0 16 16 in let IV := mkSlice 1 0 12 18 in let P := mkSlice 2 0 64 66 in let A := mkSlice 3 0 20 21 in
  slice_valid h K /\ slice_valid h IV /\ slice_valid h P /\ slice_valid h A /\
  match Sm4GCM_mem sm4_encrypt_block h K IV P A true with
  | Ok (h', (c, t)) => firstn 4 h' = h /\ c = rfc8998_ct /\ t = rfc8998_tag
  | _ => False
  end.
Proof. vm_compute. repeat split; repeat constructor. Qed.
