(* C08 - Handshakes complete only with a peer that proves the certified identity.
   Property theorems only; each is closed by lemmas of HS/HSAuth.v and followed by Print Assumptions.
   Model: HS/HSModel.v (gmtls client / server state machines, symbolic cryptography: HS/HSTerms.v).
   Scope: sections 1-8 speak of the GMSSL client with the two ECC suites (0xe013, 0xe053: the premise ecc_only), verification on,
   full handshake (no cached session), and of servers in every mode with session tickets disabled.  The DEFAULT configuration
   (Config.CipherSuites nil) offers the two ECDHE-SM2 suites as well: section 12 removes ecc_only - requirements for the
   ECDHE path, and authentication, agreement and secrecy for ANY list of GM suites.  Chain verification is the abstract predicate
   "the certificate is in c_trusted / s_client_trusted" (what Verify returns at the configured time, name, roots). *)
From Coq Require Import List NArith Arith Bool Lia.
From GmsmVerif Require Import Lib.Outcome HS.HSTerms HS.HSModel HS.HSProofs HS.HSClientFlight HS.HSTlsClientFlight HS.HSServerFlight HS.HSAuth HS.HSAuth2 HS.HSNames HS.HSSystem HS.HSSessions
     HS.HSMsgParsers HS.HSMsgMarshal HS.HSMsgMarshalProofs Gen.HSSigTables HS.HSSigAlg HS.HSSigAlgProofs Gen.HSTables HS.HSFlightTie HS.HSSuites HS.HSServerAuth.
Import ListNotations.
Local Open Scope N_scope.

(* 1. For EVERY sequence delivered to the client: completion requires (i) >= 2 certificates, SM2, signing /
   encryption key usage; (ii) Verify succeeded for certificate 0 and 1; (iii) a ServerKeyExchange whose signature
   verifies under certificate 0's key over client_random || server_random || certificate 1 OF THIS SESSION;
   (iv) the pre-master secret was sent encrypted to certificate 1's key; (v) a Finished equal to
   PRF(master, "server finished", Hash(transcript)), the transcript starting with this session's ClientHello,
   ServerHello, Certificate, ServerKeyExchange.  (See HSAuth.client_requirements.) *)
Theorem C08_client_complete_requires : forall cfg ins st',
  c_gm cfg = true -> c_verify cfg = true -> ecc_only cfg -> c_session cfg = None ->
  client_run cfg ins = RComplete st' -> client_requirements cfg ins st'.
Proof. exact client_complete_requires. Qed.
Print Assumptions C08_client_complete_requires.

(* 2. For EVERY sequence delivered to a server (any mode, tickets off): completion requires the flight
   ClientHello, [Certificate], ClientKeyExchange, [CertificateVerify], ChangeCipherSpec, [NextProtocol], Finished with
   the ClientAuth policy table (HSAuth.server_requirements):
     NoClientCert (0): no certificate is asked for or accepted;
     RequestClientCert (1), VerifyClientCertIfGiven (3): a Certificate message, possibly empty;
     RequireAnyClientCert (2), RequireAndVerifyClientCert (4): a non-empty Certificate message;
     VerifyClientCertIfGiven (3) with a certificate, RequireAndVerifyClientCert (4): the leaf chains to ClientCAs;
     whenever a certificate was presented: a CertificateVerify whose signature verifies under the leaf's key over
     Hash(THIS transcript up to the ClientKeyExchange);
   and a Finished equal to PRF(master, "client finished", Hash(transcript)). *)
(* (The server side in the attacker model - a completed server has an honest client partner - is section 13.) *)
Theorem C08_server_complete_requires : forall cfg ins st',
  s_tickets cfg = false -> server_run cfg ins = RComplete st' -> server_requirements cfg ins st'.
Proof. exact server_complete_requires. Qed.
Print Assumptions C08_server_complete_requires.

(* the policy table on its own, read off server_requirements *)
Theorem C08_clientauth_policy_table : forall cfg ins st',
  s_tickets cfg = false -> server_run cfg ins = RComplete st' ->
  exists certs alg sig tr_ckx,
    (s_auth cfg = 0 -> ss_peer st' = [] /\ forall cs, ~ In (IHs (MCertificate cs)) (firstn 2 (strip ins))) /\
    (1 <= s_auth cfg -> nth_error (strip ins) 1 = Some (IHs (MCertificate certs))) /\
    (s_auth cfg = 2 \/ s_auth cfg = 4 -> certs <> []) /\
    (3 <= s_auth cfg -> certs <> [] -> tmem (nth_cert 0 certs) (s_client_trusted cfg) = true) /\
    (ss_peer st' <> [] ->
       ss_peer st' = certs /\ In (IHs (MCertificateVerify alg sig)) (strip ins) /\
       verify (cert_pub (nth_cert 0 certs)) sig (THash (tlist tr_ckx)) = true /\
       exists ch st1 len_ok ct,
         server_handshake_step cfg (ss_set_warn server_init 0) (MClientHello ch) = (st1, SContinue) /\
         tr_ckx = ss_tr st1 ++ (if 1 <=? s_auth cfg then [enc_hmsg (MCertificate certs)] else [])
                  ++ [enc_hmsg (MClientKeyExchange len_ok ct)]).
Proof.
  intros cfg ins st' Htk H.
  destruct (server_complete_requires cfg ins st' Htk H)
    as [ch [st1 [certs [peer [len_ok [ct [pms [master [alg [sig [vd [rest [Hstep [El Hreq]]]]]]]]]]]]]].
  cbn zeta in Hreq.
  destruct Hreq as [H0 [H1 [H24 [H34 [Hpop [_ [_ [_ [Hpeer _]]]]]]]]].
  exists certs, alg, sig. eexists.
  split.
  { intros Ea. split; [rewrite Hpeer; apply H0; exact Ea|].
    intros cs Hin. rewrite El in Hin. rewrite Ea in Hin. cbn in Hin.
    destruct Hin as [Hin|[Hin|[]]]; discriminate. }
  split.
  { intros Ea. rewrite El. destruct (1 <=? s_auth cfg) eqn:E; [reflexivity|]. apply N.leb_gt in E. lia. }
  split; [exact H24|]. split; [exact H34|].
  intros Hne. rewrite Hpeer in Hne. destruct (Hpop Hne) as [Ep Hv].
  split; [rewrite Hpeer; exact Ep|]. split.
  { rewrite El. rewrite Ep. assert (Hn : nonempty certs = true).
    { unfold nonempty. rewrite <- Ep. destruct peer; [contradiction|reflexivity]. }
    rewrite Hn. apply in_or_app. right. apply in_or_app. right. apply in_or_app. right. apply in_or_app. left. cbn. auto. }
  split; [exact Hv|]. exists ch, st1, len_ok, ct. split; [exact Hstep|reflexivity].
Qed.
Print Assumptions C08_clientauth_policy_table.

(* 3. Authentication, against the network attacker HSAuth.derives (knows every public term and observed message K, its
   own keys AK and randomness own; replays, pairs, projects, encrypts, signs with its own keys, decrypts for its own
   keys, applies PRF and Hash; cannot sign for or decrypt for a key it does not hold).
   Premises (explicit, no axioms): every signature / Finished / ciphertext the network delivers is derivable; the
   keys certified by certificates this client's Verify accepts are not attacker keys (CA unforgeability + honest
   server keys); the client's pre-master secret is its own and honest parties send it and the master secret only
   encrypted to an honest key, as a PRF key or under a hash.
   Conclusion: the ServerKeyExchange signature over THIS session's randoms and encryption certificate was made by a
   holder of the signing key, and the accepted Finished, keyed with the master secret of THIS session's pre-master
   secret (which the network cannot derive: only a holder of the encryption key can), was computed by an honest party. *)
Theorem C08_authentication : forall AK own (K : term -> Prop) cfg ins st',
  c_gm cfg = true -> c_verify cfg = true -> ecc_only cfg -> c_session cfg = None ->
  (forall i, In i ins -> deliverable AK own K i) ->
  (forall c, is_cert c = true -> tmem c (c_trusted cfg) = true -> AK (cert_key c) = false) ->
  own (c_pms cfg) = false ->
  (forall u, K u -> hidden AK (TPMS (c_pms cfg)) u) ->
  (forall u sr, K u -> hidden AK (client_master cfg sr) u) ->
  client_run cfg ins = RComplete st' ->
  exists sh certs vd,
    In (IHs (MServerHello sh)) ins /\ In (IHs (MCertificate certs)) ins /\ In (IHs (MFinished vd)) ins /\
    let c0 := nth_cert 0 certs in
    let c1 := nth_cert 1 certs in
    (exists u, K u /\ sub (TSig (cert_key c0) (skx_payload (TRand (c_rand cfg)) (sh_random sh) c1)) u) /\
    (exists tr, vd = finished_sum 0 (client_master cfg (sh_random sh)) L_server_finished tr) /\
    (exists u, K u /\ sub vd u) /\
    ~ derives AK own K (TPMS (c_pms cfg)) /\ ~ derives AK own K (client_master cfg (sh_random sh)).
Proof. exact authentication. Qed.
Print Assumptions C08_authentication.

(* the two unforgeability facts of the attacker model used above, on their own *)
Theorem C08_attacker_cannot_sign : forall AK own (K : term -> Prop) k p,
  derives AK own K (TSig k p) -> AK k = false -> exists u, K u /\ sub (TSig k p) u.
Proof. exact sig_origin. Qed.
Print Assumptions C08_attacker_cannot_sign.

Theorem C08_attacker_cannot_open : forall AK own (K : term -> Prop) i,
  own i = false -> (forall u, K u -> hidden AK (TPMS i) u) -> ~ derives AK own K (TPMS i).
Proof. exact pms_secret. Qed.
Print Assumptions C08_attacker_cannot_open.

(* 4. Agreement: if both ends complete and the Finished the client accepted is the one the server sent (the one
   message the network cannot forge, by 3), their transcripts - every handshake message of the session, in order -
   and master secrets are equal: never both complete with different views. *)
Theorem C08_agreement : forall ccfg scfg ins_c ins_s st_c st_s,
  c_gm ccfg = true -> c_verify ccfg = true -> ecc_only ccfg -> c_session ccfg = None -> s_tickets scfg = false ->
  client_run ccfg ins_c = RComplete st_c -> server_run scfg ins_s = RComplete st_s ->
  (forall vd, In (IHs (MFinished vd)) ins_c -> In (OHs (MFinished vd)) (ss_out st_s)) ->
  cs_tr st_c = ss_tr st_s /\ cs_master st_c = ss_master st_s.
Proof. exact agreement. Qed.
Print Assumptions C08_agreement.

(* 5. The server-name check behind "Verify returned a chain ... for the requested server name" (the model's c_trusted is
   computed with it in the correspondence runs): names match only label by label - same labels after the first one, the
   first label of the pattern equal to the host's or the wildcard - so a wildcard certificate is valid for names with
   exactly one label in its place, never for more or fewer labels. *)
Theorem C08_server_name_match_is_label_by_label : forall pattern host,
  match_hostnames pattern host = true ->
  exists p0 pr h0, labels pattern = p0 :: pr /\ labels host = h0 :: pr /\ (p0 = [42] \/ p0 = h0).
Proof. exact match_hostnames_labels. Qed.
Print Assumptions C08_server_name_match_is_label_by_label.

(* 6. The standard-TLS client (handshake_client.go), verification on, no cached session, for EVERY delivered sequence:
   completion requires a ServerHello with an implemented TLS version and an offered suite; a certificate list that parses
   whose leaf Verify accepted for the requested name; for RSA suites an RSA leaf and the pre-master secret sent encrypted to
   the CERTIFICATE's key (a ServerKeyExchange is rejected); for ECDHE suites a ServerKeyExchange whose signature verifies
   under the leaf's key over this session's randoms and the parameters, the pre-master secret being bound to those
   parameters; and a Finished equal to PRF(master, "server finished", Hash(transcript of this session)). *)
Theorem C08_tls_client_complete_requires : forall cfg ins st',
  c_gm cfg = false -> c_verify cfg = true -> c_session cfg = None ->
  client_run cfg ins = RComplete st' -> tls_client_requirements cfg ins st'.
Proof. exact tls_client_complete_requires. Qed.
Print Assumptions C08_tls_client_complete_requires.

(* 7. Resumption.  The ticket gate at term level (idealised as in coq/Resume, C16_ticket_gate: a ticket opens exactly when
   it is what encryptTicket produced under the configured key for the returned state): *)
Theorem C08_ticket_gate : forall key t st, decryptTicket key t = Some st <-> t = encryptTicket key st.
Proof. exact ticket_gate. Qed.
Print Assumptions C08_ticket_gate.

(* GMSSL client WITH a cached session: every completion is either a full handshake meeting all of client_requirements, or a
   resumption: the ServerHello echoes the session id of the cached session with its suite, and the Finished received is
   PRF(CACHED master secret, "server finished", Hash(transcript of this connection)) - only a peer that knows the master
   secret of the original, authenticated session can produce it (C08_finished_needs_master). *)
Theorem C08_client_complete_requires_with_resumption : forall cfg ins st',
  c_gm cfg = true -> c_verify cfg = true -> ecc_only cfg ->
  client_run cfg ins = RComplete st' ->
  client_requirements cfg ins st' \/ client_resumed_requirements cfg ins st'.
Proof. exact gm_client_complete_requires_general. Qed.
Print Assumptions C08_client_complete_requires_with_resumption.

(* Servers, tickets ON: every completion is a full handshake (then C08_server_complete_requires' flight follows the
   ClientHello), or a resumption: the ticket the client sent is encryptTicket(ticket key, state) for a state carrying the
   version, an offered suite, a master secret and certificates; the ClientAuth policy is applied to, and the chain check
   repeated on, the stored certificates; and the client's Finished is PRF(THAT master secret, "client finished",
   Hash(transcript of this connection)). *)
Theorem C08_server_complete_requires_with_resumption : forall cfg ins st',
  server_run cfg ins = RComplete st' ->
  (exists ch st1, server_handshake_step cfg (ss_set_warn server_init 0) (MClientHello ch) = (st1, SContinue) /\
                  ss_resumed st1 = false /\ In (IHs (MClientHello ch)) ins) \/
  server_resumed_requirements cfg ins st'.
Proof. exact server_complete_requires_general. Qed.
Print Assumptions C08_server_complete_requires_with_resumption.

(* ... and against the network attacker: tickets cannot be forged, and a Finished keyed with a master secret the attacker
   cannot derive was computed by a party that knows it *)
Theorem C08_ticket_unforgeable : forall AK own (K : term -> Prop) key t st,
  derives AK own K t -> decryptTicket key t = Some st -> AK key = false ->
  exists u, K u /\ sub (TSig key st) u.
Proof. exact ticket_unforgeable. Qed.
Print Assumptions C08_ticket_unforgeable.

Theorem C08_finished_needs_master : forall AK own (K : term -> Prop) fp ms label tr,
  derives AK own K (finished_sum fp ms label tr) -> ~ derives AK own K ms ->
  exists u, K u /\ sub (finished_sum fp ms label tr) u.
Proof. exact finished_needs_master. Qed.
Print Assumptions C08_finished_needs_master.

(* 8. Many concurrent sessions (model: HS/HSSystem.v).  Honest GMSSL clients (no cached session) and servers of any mode
   (tickets off), any number, each with its own configuration and randomness; the attacker (AK, own) controls the network:
   an endpoint receives only what the attacker delivers, in any order, to any session - in particular signatures, key
   exchanges and Finished messages REPLAYED FROM OTHER SESSIONS - provided it can derive the cryptographic fields from
   everything sent so far.  [protected cfg]: GMSSL, verification on, and the keys named in the certificates its Verify
   accepts are not attacker keys.  In EVERY reachable state:
   (a) the pre-master and master secrets of a protected client are not derivable, as long as its pre-master randomness is
       not shared with an unprotected client; *)
Theorem C08_sessions_secrecy : forall AK own s cfg ins sr,
  reach AK own s -> In (PClient cfg ins) (parties s) ->
  (forall cfg' ins', In (PClient cfg' ins') (parties s) -> c_pms cfg' = c_pms cfg -> protected AK cfg') ->
  ~ derives AK own (knows (wire s)) (TPMS (c_pms cfg)) /\
  ~ derives AK own (knows (wire s)) (client_master cfg sr).
Proof. exact sessions_secrecy. Qed.
Print Assumptions C08_sessions_secrecy.

(* (b) AGREEMENT WITH NO PREMISE ABOUT THE NETWORK: a protected client (ECC suites) that has completed has a partner - an
       honest server session that has completed with exactly the same transcript (every handshake message, in order) and
       master secret.  Replaying a signature or key exchange from another session therefore makes the client abort, and
       a client never completes with a view of the handshake that no server shares. *)
Theorem C08_agreement_sessions : forall AK own s cfg ins st_c,
  reach AK own s -> In (PClient cfg ins) (parties s) ->
  protected AK cfg -> ecc_only cfg ->
  (forall cfg' ins', In (PClient cfg' ins') (parties s) -> c_pms cfg' = c_pms cfg -> protected AK cfg') ->
  client_run cfg ins = RComplete st_c ->
  exists scfg ins_s st_s,
    In (PServer scfg ins_s) (parties s) /\ server_run scfg ins_s = RComplete st_s /\
    ss_tr st_s = cs_tr st_c /\ ss_master st_s = cs_master st_c.
Proof. exact agreement_sessions. Qed.
Print Assumptions C08_agreement_sessions.

(* the faithful network is one of the attacker's behaviours: whatever is on the wire can be delivered *)
Theorem C08_wire_messages_deliverable : forall AK own w m, In (enc_hmsg m) w -> can_deliver AK own w (IHs m).
Proof. exact wire_message_deliverable. Qed.
Print Assumptions C08_wire_messages_deliverable.

(* 9. Byte level.  The agreement theorems compare SYMBOLIC transcripts (lists of message terms).  What the two endpoints
   really compare - through the Finished hashes - are BYTE transcripts.  The byte-level models of marshal / unmarshal
   (HS/HSMsgMarshal.v, HSMsgParsers.v; round trip and framing proved in C15) close the gap: if the messages one side
   marshalled (well-formed values ws1) and the messages the other side holds (ws2: marshalled by it, or parsed by it from
   the bytes it received - by C15_any_message_roundtrip the parse of marshalled bytes is the value itself) give the same
   bytes, then they are the same message values, one by one, in order.  (Any function of the message values then agrees as
   well - that is mere congruence and not stated.  The abstraction from byte-level message values to the symbolic messages
   hmsg is NOT defined in Coq: that the symbolic transcript of an endpoint is a function of the values it marshalled or
   parsed is the modelling assumption under which the symbolic agreement theorems speak about the bytes.) *)
Theorem C08_equal_byte_transcripts_equal_views : forall ctx ws1 ws2,
  Forall (wf_any ctx) ws1 -> Forall (wf_any ctx) ws2 ->
  transcript_bytes ctx ws1 = transcript_bytes ctx ws2 -> ws1 = ws2.
Proof. exact transcript_bytes_injective. Qed.
Print Assumptions C08_equal_byte_transcripts_equal_views.

(* the receiver's side of it: reading the sender's bytes message by message (readHandshake) yields the sender's values *)
Theorem C08_receiver_reads_what_sender_marshalled : forall ctx ws,
  Forall (wf_any ctx) ws ->
  read_msgs (S (length (transcript_bytes ctx ws))) ctx (transcript_bytes ctx ws) = Ok ws.
Proof. intros ctx ws H. apply read_msgs_transcript; [exact H|apply Nat.lt_succ_diag_r]. Qed.
Print Assumptions C08_receiver_reads_what_sender_marshalled.

(* 10. gmtls/auth.go: the signature scheme negotiation (HS/HSSigAlg.v; the scheme tables, the package list, the returns of
   the fixed branch, the types the loop accepts and the key type each case of verifyHandshakeSignature asserts are read
   from the source by the translator, Gen/HSSigTables.v).  The signer of a CertificateVerify or ServerKeyExchange picks
   (scheme, signature type, hash) from the peer's list and its own; from TLS 1.2 on the message carries the scheme and
   the verifier picks from that one-element list and ITS list.  For every key type, version, lists and outcome in which
   both succeed, the verifier uses the same signature type and hash - hence the same digest of the same handshake data. *)
Theorem C08_signer_and_verifier_use_the_same_algorithm : forall pk peer1 ours1 ours2 vers x alg st h alg' st' h',
  pickSignatureAlgorithm pk peer1 ours1 vers = Ok (alg, st, h) ->
  pickSignatureAlgorithm pk [if gsig_VersionTLS12 <=? vers then alg else x] ours2 vers = Ok (alg', st', h') ->
  st' = st /\ h' = h /\
  hashForClientCertificate vers st' h' = hashForClientCertificate vers st h /\
  hashForServerKeyExchange vers st' h' = hashForServerKeyExchange vers st h.
Proof.
  intros pk peer1 ours1 ours2 vers x alg st h alg' st' h' Hs Hv.
  destruct (signer_verifier_agree _ _ _ _ _ _ _ _ _ _ _ _ Hs Hv) as [-> ->]. repeat split; reflexivity.
Qed.
Print Assumptions C08_signer_and_verifier_use_the_same_algorithm.

(* no panic ("supported signature algorithm has an unknown hash function") when the own list is the package's
   supportedSignatureAlgorithms or any sublist of it - the only lists the handshake code passes *)
Theorem C08_pick_signature_algorithm_no_panic : forall pk peer ours vers,
  (forall a, In a ours -> In a gen_supportedSignatureAlgorithms) ->
  pickSignatureAlgorithm pk peer ours vers <> Panic /\ pickSignatureAlgorithm pk peer ours vers <> Hang.
Proof. intros pk peer ours vers H. apply pick_no_panic. intros a Ha. apply package_list_known. apply H. exact Ha. Qed.
Print Assumptions C08_pick_signature_algorithm_no_panic.

(* the picked signature type is verified with the key type it was picked for: always for RSA and ECDSA keys; an
   *sm2.PublicKey passes in the fixed branch (signatureSM2) and is refused by verifyHandshakeSignature after the TLS 1.2
   negotiation (signatureECDSA insists on an *ecdsa.PublicKey) - it fails closed *)
Theorem C08_picked_signature_type_matches_key : forall pk peer ours vers alg st h,
  pickSignatureAlgorithm pk peer ours vers = Ok (alg, st, h) ->
  (pk = PK_RSA \/ pk = PK_ECDSA -> verify_key_ok st pk = true) /\
  (pk = PK_SM2 -> verify_key_ok st pk = ((vers <? gsig_VersionTLS12) || Nat.eqb (length peer) 0)).
Proof. exact picked_type_matches_key. Qed.
Print Assumptions C08_picked_signature_type_matches_key.

(* GMSSL: the client signs SM3(transcript) (finishedHash.client.Sum) without any negotiation; the server, for either key
   type an SM2 certificate parses to and whatever lists are around, verifies a digest that is SM3(transcript) with a key
   type its verifyHandshakeSignature case accepts *)
Theorem C08_gm_certificate_verify_digest_agrees : forall pk peer ours, pk = PK_ECDSA \/ pk = PK_SM2 ->
  exists alg st h,
    pickSignatureAlgorithm pk peer ours HSSigAlg.VersionGMSSL = Ok (alg, st, h) /\
    hashForClientCertificate HSSigAlg.VersionGMSSL st h = Ok gm_client_certificate_verify_digest /\
    verify_key_ok st pk = true.
Proof. exact gm_certificate_verify_agrees. Qed.
Print Assumptions C08_gm_certificate_verify_digest_agrees.

(* 11. The key the CertificateVerify is checked with is the LEAF's, in the model and in the source: processCertsFromClient
   (TLS and GM server state) returns the key of certs[i] for the index i the translator reads from its one
   "switch key := certs[i].PublicKey.(type)" (it refuses any other shape, e.g. an assignment inside a loop over the
   chain), and the server model accepts a CertificateVerify only if it verifies under the key of certificate i of the
   peer's list over this transcript.  (The chain check, C08_clientauth_policy_table, is on certificate 0 as well.) *)
Theorem C08_certificate_verify_checked_with_the_leaf_key : forall cfg st m st1 r,
  ss_phase st = SP_CertVerify -> (r = SContinue \/ r = SComplete) ->
  server_handshake_step cfg st m = (st1, r) ->
  (gen_client_cert_key_index_gm, gen_client_cert_key_index_tls) = (0, 0) /\
  exists alg sig, m = MCertificateVerify alg sig /\
    verify (cert_pub (nth_cert (N.to_nat gen_client_cert_key_index_gm) (ss_peer st))) sig (THash (tlist (ss_tr st))) = true.
Proof.
  intros cfg st m st1 r Hph Hr H. split; [reflexivity|].
  destruct (certificate_verify_key_is_source_index cfg st m st1 r Hph Hr H) as [_ Hx]. exact Hx.
Qed.
Print Assumptions C08_certificate_verify_checked_with_the_leaf_key.

(* 12. Any list of GM suites - in particular the default one, which also offers ECDHE-SM2 (0xe011, 0xe051; getCipherSuites in
   gm_support.go).  (a) For EVERY delivered sequence a completed client has met the ECC requirements of 1, or those of the
   ECDHE path (HSSuites.ecdhe_gm_requirements): the same certificate checks, a ServerKeyExchange naming curve 29 whose
   signature by certificate 0's key covers this session's randoms and that parameter block - the only parameter block
   ecdheKeyAgreementGM goes on with (gm_key_agreement.go: its X25519 branch uses a never-set public value) - and then a
   master secret computed from a PUBLIC constant: no secrecy on that path. *)
Theorem C08_gm_client_complete_requires_any_suite : forall cfg ins st',
  c_gm cfg = true -> c_verify cfg = true -> c_session cfg = None ->
  client_run cfg ins = RComplete st' ->
  client_requirements cfg ins st' \/ ecdhe_gm_requirements cfg ins st'.
Proof. exact gm_client_complete_requires_any_suite. Qed.
Print Assumptions C08_gm_client_complete_requires_any_suite.

(* (b) one connection against the attacker, the premises of 3 without ecc_only: everything 3 concludes, or a holder of
   certificate 0's key has signed "curve 29" for this session's randoms (which no honest gmtls server does: its
   ECDHE-SM2 server side is not implemented) and the master secret is the public one *)
Theorem C08_authentication_any_suite : forall AK own (K : term -> Prop) cfg ins st',
  c_gm cfg = true -> c_verify cfg = true -> c_session cfg = None ->
  (forall i, In i ins -> deliverable AK own K i) ->
  (forall c, is_cert c = true -> tmem c (c_trusted cfg) = true -> AK (cert_key c) = false) ->
  own (c_pms cfg) = false ->
  (forall u, K u -> hidden AK (TPMS (c_pms cfg)) u) ->
  (forall u sr, K u -> hidden AK (client_master cfg sr) u) ->
  client_run cfg ins = RComplete st' ->
  exists sh certs vd,
    In (IHs (MServerHello sh)) ins /\ In (IHs (MCertificate certs)) ins /\ In (IHs (MFinished vd)) ins /\
    let c0 := nth_cert 0 certs in
    let c1 := nth_cert 1 certs in
    ((exists u, K u /\ sub (TSig (cert_key c0) (skx_payload (TRand (c_rand cfg)) (sh_random sh) c1)) u) /\
     (exists tr, vd = finished_sum 0 (client_master cfg (sh_random sh)) L_server_finished tr) /\
     (exists u, K u /\ sub vd u) /\
     ~ derives AK own K (TPMS (c_pms cfg)) /\ ~ derives AK own K (client_master cfg (sh_random sh)))
    \/
    ((exists u, K u /\ sub (TSig (cert_key c0) (skx_payload (TRand (c_rand cfg)) (sh_random sh) (TLabel 29))) u) /\
     cs_master st' = TPRF (TLabel 0) (TPair L_master (TLabel 0)) (TPair (TRand (c_rand cfg)) (sh_random sh))).
Proof. exact authentication_any_suite. Qed.
Print Assumptions C08_authentication_any_suite.

(* (c) In the multi-session system of 8 (honest servers are gmtls servers: for an ECDHE-SM2 suite they fail, and what
   their ServerKeyExchange signs in third position is a certificate, never a parameter block) a protected client NEVER
   completes on the ECDHE path, whatever it offers and whatever the attacker replays: every completion meets the ECC
   requirements.  Hence agreement and secrecy with no ecc_only: *)
Theorem C08_protected_client_completes_only_on_ecc : forall AK own s cfg ins st_c,
  reach AK own s -> In (PClient cfg ins) (parties s) -> protected AK cfg ->
  client_run cfg ins = RComplete st_c -> client_requirements cfg ins st_c.
Proof. exact protected_client_completes_on_ecc. Qed.
Print Assumptions C08_protected_client_completes_only_on_ecc.

Theorem C08_agreement_sessions_any_suite : forall AK own s cfg ins st_c,
  reach AK own s -> In (PClient cfg ins) (parties s) -> protected AK cfg ->
  (forall cfg' ins', In (PClient cfg' ins') (parties s) -> c_pms cfg' = c_pms cfg -> protected AK cfg') ->
  client_run cfg ins = RComplete st_c ->
  exists scfg ins_s st_s,
    In (PServer scfg ins_s) (parties s) /\ server_run scfg ins_s = RComplete st_s /\
    ss_tr st_s = cs_tr st_c /\ ss_master st_s = cs_master st_c.
Proof. exact agreement_sessions_any_suite. Qed.
Print Assumptions C08_agreement_sessions_any_suite.

(* secrecy of the master secret THE SESSION USES (cs_master of the completed client), and of its pre-master secret *)
Theorem C08_completed_session_secrecy : forall AK own s cfg ins st_c,
  reach AK own s -> In (PClient cfg ins) (parties s) -> protected AK cfg ->
  (forall cfg' ins', In (PClient cfg' ins') (parties s) -> c_pms cfg' = c_pms cfg -> protected AK cfg') ->
  client_run cfg ins = RComplete st_c ->
  ~ derives AK own (knows (wire s)) (cs_master st_c) /\ ~ derives AK own (knows (wire s)) (TPMS (c_pms cfg)).
Proof. exact completed_session_secrecy. Qed.
Print Assumptions C08_completed_session_secrecy.

(* 13. Server-side authentication in the multi-session system of 8.  Invariant (HSServerAuth.cv_inv): the only place an
   honest party signs a hash is the GMSSL client's CertificateVerify, over its own transcript up to its ClientKeyExchange;
   so every such signature the attacker can get at, under a key it does not hold, has an honest client signer.
   A server of any mode and policy that has COMPLETED with a client certificate whose key is not the attacker's has a
   partner: a client session that holds that certificate and key and that, when it answered the ServerHelloDone, had the
   server's view of the whole handshake so far - its transcript up to and including its ClientKeyExchange is the beginning
   of the server's final transcript, followed there by the CertificateVerify.  (A replayed CertificateVerify of another
   session, a certificate of someone else with one's own signature, a modified key exchange: the server does not complete.) *)
Theorem C08_server_authentication_sessions : forall AK own s scfg ins st_s,
  reach AK own s -> In (PServer scfg ins) (parties s) -> server_run scfg ins = RComplete st_s ->
  ss_peer st_s <> [] -> AK (cert_key (nth_cert 0 (ss_peer st_s))) = false ->
  exists ccfg ins_c pre post st_c pms ckxm,
    In (PClient ccfg ins_c) (parties s) /\ ins_c = pre ++ IHs MServerHelloDone :: post /\
    client_run ccfg pre = RWaiting st_c /\
    (exists c, c_cert ccfg = Some (c, cert_key (nth_cert 0 (ss_peer st_s)))) /\
    client_ckx ccfg (cs_set_warn st_c 0) = Ok (pms, ckxm) /\
    exists alg sig rest,
      ss_tr st_s = sf_tr1 ccfg (cs_cert_req st_c) (cs_tr st_c) ckxm ++ enc_hmsg (MCertificateVerify alg sig) :: rest.
Proof. exact server_authentication_sessions. Qed.
Print Assumptions C08_server_authentication_sessions.

(* with ClientAuth >= VerifyClientCertIfGiven the premise on the key follows from certification: the keys named in the
   certificates the server's ClientCAs check accepts are not attacker keys.  RequireAndVerifyClientCert (4): every
   completed server has a certificate, hence a partner. *)
Theorem C08_server_authentication_verified_policies : forall AK own s scfg ins st_s,
  reach AK own s -> In (PServer scfg ins) (parties s) -> server_run scfg ins = RComplete st_s ->
  3 <= s_auth scfg ->
  (forall c, tmem c (s_client_trusted scfg) = true -> AK (cert_key c) = false) ->
  (s_auth scfg = 4 -> ss_peer st_s <> []) /\
  (ss_peer st_s <> [] ->
   exists ccfg ins_c pre post st_c pms ckxm,
     In (PClient ccfg ins_c) (parties s) /\ ins_c = pre ++ IHs MServerHelloDone :: post /\
     client_run ccfg pre = RWaiting st_c /\
     (exists c, c_cert ccfg = Some (c, cert_key (nth_cert 0 (ss_peer st_s)))) /\
     client_ckx ccfg (cs_set_warn st_c 0) = Ok (pms, ckxm) /\
     exists alg sig rest,
       ss_tr st_s = sf_tr1 ccfg (cs_cert_req st_c) (cs_tr st_c) ckxm ++ enc_hmsg (MCertificateVerify alg sig) :: rest).
Proof.
  intros AK own s scfg ins st_s Hr Hin Hc Ha Hca.
  destruct (reach_inv AK own s Hr) as [Hok _ _ _].
  assert (Hpk : party_ok own (PServer scfg ins)) by (rewrite Forall_forall in Hok; apply Hok; exact Hin).
  destruct Hpk as [Htk _].
  destruct (server_complete_requires scfg ins st_s Htk Hc)
    as [ch [st1 [certs [peer [len_ok [ct [pms [master [alg [sig [vd [rest [Hstep [El Hreq]]]]]]]]]]]]]].
  cbn zeta in Hreq. destruct Hreq as [_ [H1 [H24 [H34 [_ [_ [_ [_ [Epeer _]]]]]]]]].
  assert (Hp : processCertsFromClient scfg certs = Some peer) by (apply H1; lia).
  destruct (processCerts_some scfg certs peer Hp) as [Ep _]. rewrite Ep in Epeer.
  split.
  - intros E4. rewrite Epeer. apply H24. right. exact E4.
  - intros Hne. apply (server_authentication_sessions AK own s scfg ins st_s Hr Hin Hc Hne).
    apply Hca. rewrite Epeer in Hne |- *. apply H34; assumption.
Qed.
Print Assumptions C08_server_authentication_verified_policies.

(* ---- non-vacuity ----------------------------------------------------------------------------------------- *)
Definition ex_sig := TCert 1 KIND_SM2 KU_SIGN 101.
Definition ex_enc := TCert 2 KIND_SM2 KU_ENC 102.
Definition ex_auth := TCert 3 KIND_SM2 KU_SIGN 103.
Definition ex_client : cconfig :=
  mkCC true 771 [57363; 57427] true [ex_sig; ex_enc] (Some (ex_auth, 103)) false None 11 12 13 14.
Definition ex_server (auth : N) : sconfig :=
  mkSC GMOnly None false auth [ex_auth] [(ex_sig, 101); (ex_enc, 102)] None false 200 false 21 22 23.

(* the honest run meets the hypotheses of 1, 2, 4 and their conclusions hold by computation: both complete, with equal
   transcripts and master secrets, for every ClientAuth policy *)
Example C08_honest_runs :
  forallb (fun a =>
    match pair_run ex_client (ex_server a) with
    | ((c, PDone), (s, PDone)) =>
        term_eqb (tlist (cs_tr c)) (tlist (ss_tr s)) && term_eqb (cs_master c) (ss_master s)
        && (if 1 <=? a then negb (Nat.eqb (length (ss_peer s)) 0) else Nat.eqb (length (ss_peer s)) 0)
    | _ => false
    end) [0; 1; 2; 3; 4] = true.
Proof. vm_compute. reflexivity. Qed.

Example C08_ecc_only_satisfiable : ecc_only ex_client.
Proof. intros id [<-|[<-|[]]]; auto. Qed.

(* the attacker catalogue at term level: each script makes the client abort *)
Definition ex_sh : server_hello := mkSH VersionGMSSL (TRand 21) TNil 57363 true false false false false false.
Definition ex_payload (cr sr c1 : term) := skx_payload cr sr c1.
Definition ex_tail : list input := [IHs MServerHelloDone; ICCS true; IHs (MFinished (TJunk 1)); IEOF].
Definition ex_attack (certs : list term) (skx : list input) : result cstate :=
  client_run ex_client ([IHs (MServerHello ex_sh); IHs (MCertificate certs)] ++ skx ++ ex_tail).
Definition is_error {A} (r : result A) : bool := match r with RError => true | _ => false end.

Example C08_attack_scripts_rejected :
  (* ServerKeyExchange omitted (D19) *)
  is_error (ex_attack [ex_sig; ex_enc] []) = true /\
  (* signed by another key *)
  is_error (ex_attack [ex_sig; ex_enc] [IHs (MServerKeyExchange true TNil (TSig 103 (ex_payload (TRand 11) (TRand 21) ex_enc)))]) = true /\
  (* signed over other randoms (replay from another session) *)
  is_error (ex_attack [ex_sig; ex_enc] [IHs (MServerKeyExchange true TNil (TSig 101 (ex_payload (TRand 98) (TRand 21) ex_enc)))]) = true /\
  (* signed over another encryption certificate *)
  is_error (ex_attack [ex_sig; ex_enc] [IHs (MServerKeyExchange true TNil (TSig 101 (ex_payload (TRand 11) (TRand 21) ex_sig)))]) = true /\
  (* certificates swapped *)
  is_error (ex_attack [ex_enc; ex_sig] [IHs (MServerKeyExchange true TNil (TSig 101 (ex_payload (TRand 11) (TRand 21) ex_enc)))]) = true /\
  (* untrusted certificate (not in c_trusted) *)
  is_error (ex_attack [TCert 9 KIND_SM2 KU_SIGN 109; ex_enc] [IHs (MServerKeyExchange true TNil (TSig 109 (ex_payload (TRand 11) (TRand 21) ex_enc)))]) = true /\
  (* RSA certificate *)
  is_error (ex_attack [TCert 1 KIND_RSA 3 101; ex_enc] [IHs (MServerKeyExchange true TNil (TSig 101 (ex_payload (TRand 11) (TRand 21) ex_enc)))]) = true /\
  (* everything genuine except the Finished (the attacker cannot decrypt the pre-master secret) *)
  is_error (ex_attack [ex_sig; ex_enc] [IHs (MServerKeyExchange true TNil (TSig 101 (ex_payload (TRand 11) (TRand 21) ex_enc)))]) = true.
Proof. vm_compute. repeat split; reflexivity. Qed.

(* the secrecy premises of 3 hold for everything an honest run puts on the wire (attacker key 999) *)
Definition ex_AK (k : N) : bool := k =? 999.
Definition ex_wire : list term :=
  match pair_run ex_client (ex_server 4) with ((c, _), _) => cs_tr c end.

Example C08_authentication_premises_satisfiable :
  (forall u, In u ex_wire -> hidden ex_AK (TPMS 12) u) /\
  (forall u, In u ex_wire -> hidden ex_AK (client_master ex_client (TRand 21)) u).
Proof.
  split; intros u Hin; vm_compute in Hin;
    repeat (destruct Hin as [<-|Hin]; [cbn; repeat split; try discriminate; auto|]); destruct Hin.
Qed.

(* "*.example.test" against: a.example.test, A.Example.Test., example.test, a.b.example.test, a.example.test.evil.test, xexample.test *)
Definition ex_str (l : list N) := l.
Definition s_wild := [42;46;101;120;97;109;112;108;101;46;116;101;115;116].
Example C08_server_name_examples :
  match_hostnames s_wild ([97;46] ++ skipn 2 s_wild) = true /\
  match_hostnames s_wild ([65;46;69;120;97;109;112;108;101;46;84;101;115;116;46]) = true /\
  match_hostnames s_wild (skipn 2 s_wild) = false /\
  match_hostnames s_wild ([97;46;98;46] ++ skipn 2 s_wild) = false /\
  match_hostnames s_wild ([97;46] ++ skipn 2 s_wild ++ [46;101;118;105;108;46;116;101;115;116]) = false /\
  match_hostnames s_wild ([120] ++ skipn 2 s_wild) = false.
Proof. vm_compute. repeat split; reflexivity. Qed.

(* TLS client and resumption: the honest runs meet the hypotheses (RSA and ECDHE suites, TLS 1.0-1.2; a second
   connection resuming the first one's session) *)
Definition ex_rsa := TCert 4 KIND_RSA 3 104.
Definition ex_tls_client (maxv : N) (suites : list N) : cconfig := mkCC false maxv suites true [ex_rsa] None false None 11 12 13 14.
Definition ex_tls_server : sconfig := mkSC TLSOnly None false 0 [] [] (Some (ex_rsa, 104)) true 200 false 21 22 23.
Example C08_tls_honest_runs :
  forallb (fun cfg => match pair_run cfg ex_tls_server with ((_, PDone), (_, PDone)) => true | _ => false end)
          [ex_tls_client 771 [47]; ex_tls_client 771 [49172]; ex_tls_client 769 [47]; ex_tls_client 770 [49172];
           ex_tls_client 771 [49199]] = true.
Proof. vm_compute. reflexivity. Qed.

Definition ex_resuming_pair : pstat * pstat * bool :=
  let srv := mkSC GMOnly None false 0 [ex_auth] [(ex_sig, 101); (ex_enc, 102)] None true 200 false 21 22 23 in
  let cl := mkCC true 771 [57363] true [ex_sig; ex_enc] None true None 11 12 13 14 in
  match pair_run cl srv with
  | ((c, PDone), (s, PDone)) =>
      let ticket := encryptTicket 200 (session_state (ss_vers s) (ss_suite s) (ss_master s) (ss_peer s)) in
      let cl2 := mkCC true 771 [57363] true [ex_sig; ex_enc] None true (Some (ticket, ss_suite s, cs_master c)) 41 42 43 44 in
      match pair_run cl2 (mkSC GMOnly None false 0 [ex_auth] [(ex_sig, 101); (ex_enc, 102)] None true 200 false 51 52 53) with
      | ((c2, a), (s2, b)) => (a, b, cs_resumed c2 && ss_resumed s2 && term_eqb (cs_master c2) (cs_master c))
      end
  | _ => (PFailed, PFailed, false)
  end.
Example C08_resumption_runs : ex_resuming_pair = (PDone, PDone, true).
Proof. vm_compute. reflexivity. Qed.

(* the hypotheses of 8 are met: a reachable state (attacker holding key 999) in which a protected client has completed *)
Definition xAK (k : N) : bool := k =? 999.
Definition xown (i : N) : bool := 900 <=? i.
Definition x_sig := TCert 1 KIND_SM2 KU_SIGN 101.
Definition x_enc := TCert 2 KIND_SM2 KU_ENC 102.
Definition x_client : cconfig := mkCC true 771 [57363] true [x_sig; x_enc] None false None 11 12 13 14.
Definition x_server : sconfig := mkSC GMOnly None false 0 [] [(x_sig, 101); (x_enc, 102)] None false 200 false 21 22 23.

(* the messages of the honest run, computed from the two models *)
Definition x_c0 := client_init x_client.
Definition x_s1 := fst (feed (server_step x_server) server_init PRunning (map to_input (cs_out x_c0))).
Definition x_c1 := fst (feed (client_step x_client) (cs_clear_out x_c0) PRunning (map to_input (ss_out x_s1))).
Definition x_s2 := fst (feed (server_step x_server) (ss_clear_out x_s1) PRunning (map to_input (cs_out x_c1))).
Definition x_f0 := Eval vm_compute in map to_input (cs_out x_c0).
Definition x_f1 := Eval vm_compute in map to_input (ss_out x_s1).
Definition x_f2 := Eval vm_compute in map to_input (cs_out x_c1).
Definition x_f3 := Eval vm_compute in map to_input (ss_out x_s2).
Definition xi (l : list input) (k : nat) : input := nth k l IEOF.

Ltac in_wire := vm_compute; repeat (first [left; reflexivity | right]).
Ltac deliv := first [apply ccs_deliverable | apply wire_message_deliverable; in_wire].

Ltac norm R :=
  match type of R with
  | reach ?a ?o ?s => let s' := eval vm_compute in s in
                      let H := fresh in assert (H : reach a o s') by (vm_cast_no_check R); clear R; rename H into R
  end.
Ltac to_server R k inp :=
  match type of R with
  | reach _ _ ?s =>
    let p := eval vm_compute in (nth_error (parties s) k) in
    match p with
    | Some (PServer ?cfg ?ins) =>
      let rr := eval vm_compute in (server_run cfg ins) in
      match rr with
      | RWaiting ?st =>
        let i' := eval vm_compute in inp in
        let sr := eval vm_compute in (server_step cfg st i') in
        match sr with
        | (?st', ?r) =>
          let H := fresh in
          assert (H : reach xAK xown (mkSys (replace_nth (parties s) k (PServer cfg (ins ++ [i']))) (wire s ++ new_out (ss_out st) (ss_out st'))))
            by (eapply R_step; [exact R|]; apply (SS_deliver_server xAK xown s k cfg ins st i' st' r);
                [vm_compute; reflexivity|vm_compute; reflexivity|deliv|vm_compute; reflexivity]);
          clear R; rename H into R; norm R
        end
      end
    end
  end.
Ltac to_client R k inp :=
  match type of R with
  | reach _ _ ?s =>
    let p := eval vm_compute in (nth_error (parties s) k) in
    match p with
    | Some (PClient ?cfg ?ins) =>
      let rr := eval vm_compute in (client_run cfg ins) in
      match rr with
      | RWaiting ?st =>
        let i' := eval vm_compute in inp in
        let sr := eval vm_compute in (client_step cfg st i') in
        match sr with
        | (?st', ?r) =>
          let H := fresh in
          assert (H : reach xAK xown (mkSys (replace_nth (parties s) k (PClient cfg (ins ++ [i']))) (wire s ++ new_out (cs_out st) (cs_out st'))))
            by (eapply R_step; [exact R|]; apply (SS_deliver_client xAK xown s k cfg ins st i' st' r);
                [vm_compute; reflexivity|vm_compute; reflexivity|deliv|vm_compute; reflexivity]);
          clear R; rename H into R; norm R
        end
      end
    end
  end.

Example sessions_example :
  exists s ins st, reach xAK xown s /\ In (PClient x_client ins) (parties s) /\ client_run x_client ins = RComplete st /\
                   protected xAK x_client /\ ecc_only x_client.
Proof.
  assert (R : reach xAK xown (mkSys [] [])) by constructor.
  eassert (R1 : reach xAK xown _).
  { eapply R_step; [exact R|]. apply (SS_spawn_client xAK xown _ x_client); [reflexivity|reflexivity|exact I|reflexivity]. }
  clear R. norm R1.
  eassert (R : reach xAK xown _).
  { eapply R_step; [exact R1|]. apply (SS_spawn_server xAK xown _ x_server); [reflexivity|].
    split; [repeat constructor|exact I]. }
  clear R1. norm R.
  (* ClientHello -> server; ServerHello, Certificate, ServerKeyExchange, ServerHelloDone -> client *)
  to_server R 1%nat (xi x_f0 0).
  to_client R 0%nat (xi x_f1 0). to_client R 0%nat (xi x_f1 1). to_client R 0%nat (xi x_f1 2). to_client R 0%nat (xi x_f1 3).
  (* ClientKeyExchange, ChangeCipherSpec, Finished -> server; ChangeCipherSpec, Finished -> client *)
  to_server R 1%nat (xi x_f2 0). to_server R 1%nat (xi x_f2 1). to_server R 1%nat (xi x_f2 2).
  to_client R 0%nat (xi x_f3 0). to_client R 0%nat (xi x_f3 1).
  eexists. eexists. eexists. split; [exact R|]. split; [cbn; left; reflexivity|]. split; [vm_compute; reflexivity|].
  split.
  - split; [reflexivity|]. split; [reflexivity|]. intros c Hc Hm.
    cbn [c_trusted x_client tmem existsb] in Hm. apply orb_prop in Hm. destruct Hm as [Hm|Hm].
    + apply term_eqb_eq in Hm. subst c. reflexivity.
    + apply orb_prop in Hm. destruct Hm as [Hm|Hm]; [|discriminate]. apply term_eqb_eq in Hm. subst c. reflexivity.
  - intros id [<-|[]]. left. reflexivity.
Qed.

(* auth.go: TLS 1.2 with an RSA key picks the peer's first scheme we support; before TLS 1.2 the lists are ignored;
   an ECDSA key skips RSA schemes; nothing in common is an error; an own list with a scheme lookupTLSHash does not know
   (never passed by the handshake code) is the panic of the source *)
Example C08_sigalg_examples :
  pickSignatureAlgorithm PK_RSA [2052; 1025] gen_supportedSignatureAlgorithms 771 = Ok (1025, 16, 5) /\
  pickSignatureAlgorithm PK_RSA [2052; 1025] gen_supportedSignatureAlgorithms 770 = Ok (0, 16, 8) /\
  pickSignatureAlgorithm PK_ECDSA [1025; 1283] gen_supportedSignatureAlgorithms 771 = Ok (1283, 17, 6) /\
  pickSignatureAlgorithm PK_ECDSA [] gen_supportedSignatureAlgorithms 771 = Ok (515, 17, 3) /\
  pickSignatureAlgorithm PK_RSA [1027] gen_supportedSignatureAlgorithms 771 = Err 2 /\
  pickSignatureAlgorithm PK_SM2 [516] [516] 771 = Panic /\
  hashForClientCertificate 769 17 3 = Ok D_SHA1 /\ hashForClientCertificate 769 16 8 = Ok D_MD5SHA1 /\
  hashForClientCertificate 257 19 3 = Ok D_SM3 /\ hashForServerKeyExchange 771 16 6 = Ok D_SHA384.
Proof. vm_compute. repeat split; reflexivity. Qed.

(* the ECDHE-SM2 path: a client with the DEFAULT suite list; a server that picks 0xe011 and signs "curve 29" for this
   session's randoms makes it complete with the public master secret (so the second disjunct of 12(a) is inhabited);
   the honest gmtls server model never does - it picks an ECC suite from the same ClientHello, and for a client that
   offers only ECDHE suites it fails *)
Definition ex_client_default : cconfig :=
  mkCC true 771 [57363; 57427; 57361; 57425] true [ex_sig; ex_enc] None false None 11 12 13 14.
Definition ex_sh_ecdhe : server_hello := mkSH VersionGMSSL (TRand 21) TNil 57361 true false false false false false.
Definition ex_ecdhe_prefix : list input :=
  [IHs (MServerHello ex_sh_ecdhe); IHs (MCertificate [ex_sig; ex_enc]);
   IHs (MServerKeyExchange true (TLabel 29) (TSig 101 (skx_payload (TRand 11) (TRand 21) (TLabel 29))));
   IHs MServerHelloDone; ICCS true].
Definition ex_ecdhe_finished : term :=
  match client_run ex_client_default ex_ecdhe_prefix with
  | RWaiting st => finished_sum (cs_fp st) (cs_master st) L_server_finished (cs_tr st)
  | _ => TNil
  end.
Example C08_ecdhe_path :
  (exists st', client_run ex_client_default (ex_ecdhe_prefix ++ [IHs (MFinished ex_ecdhe_finished)]) = RComplete st' /\
               cs_master st' = TPRF (TLabel 0) (TPair L_master (TLabel 0)) (TPair (TRand 11) (TRand 21))) /\
  (match pair_run ex_client_default (ex_server 0) with ((c, PDone), (_, PDone)) => match cs_kx c with KxECC => true | _ => false end | _ => false end) = true /\
  (match pair_run (mkCC true 771 [57361; 57425] true [ex_sig; ex_enc] None false None 11 12 13 14) (ex_server 0)
   with ((_, PFailed), (_, PFailed)) => true | _ => false end) = true.
Proof. split; [eexists; vm_compute; split; reflexivity|]. vm_compute. split; reflexivity. Qed.

(* the hypotheses of 13 are met: a reachable state in which a server with RequireAndVerifyClientCert has completed with the
   certificate of an honest client (key 103, not the attacker's 999) *)
Definition y_auth := TCert 3 KIND_SM2 KU_SIGN 103.
Definition y_client : cconfig := mkCC true 771 [57363] true [x_sig; x_enc] (Some (y_auth, 103)) false None 11 12 13 14.
Definition y_server : sconfig := mkSC GMOnly None false 4 [y_auth] [(x_sig, 101); (x_enc, 102)] None false 200 false 21 22 23.
Definition y_c0 := client_init y_client.
Definition y_s1 := fst (feed (server_step y_server) server_init PRunning (map to_input (cs_out y_c0))).
Definition y_c1 := fst (feed (client_step y_client) (cs_clear_out y_c0) PRunning (map to_input (ss_out y_s1))).
Definition y_f0 := Eval vm_compute in map to_input (cs_out y_c0).
Definition y_f1 := Eval vm_compute in map to_input (ss_out y_s1).
Definition y_f2 := Eval vm_compute in map to_input (cs_out y_c1).

Example server_authentication_example :
  exists s ins st, reach xAK xown s /\ In (PServer y_server ins) (parties s) /\ server_run y_server ins = RComplete st /\
                   ss_peer st = [y_auth] /\ xAK (cert_key (nth_cert 0 (ss_peer st))) = false /\ s_auth y_server = 4.
Proof.
  assert (R : reach xAK xown (mkSys [] [])) by constructor.
  eassert (R1 : reach xAK xown _).
  { eapply R_step; [exact R|]. apply (SS_spawn_client xAK xown _ y_client); [reflexivity|reflexivity|reflexivity|reflexivity]. }
  clear R. norm R1.
  eassert (R : reach xAK xown _).
  { eapply R_step; [exact R1|]. apply (SS_spawn_server xAK xown _ y_server); [reflexivity|].
    split; [repeat constructor|exact I]. }
  clear R1. norm R.
  to_server R 1%nat (xi y_f0 0).
  (* ServerHello, Certificate, ServerKeyExchange, CertificateRequest, ServerHelloDone -> client *)
  to_client R 0%nat (xi y_f1 0). to_client R 0%nat (xi y_f1 1). to_client R 0%nat (xi y_f1 2). to_client R 0%nat (xi y_f1 3).
  to_client R 0%nat (xi y_f1 4).
  (* Certificate, ClientKeyExchange, CertificateVerify, ChangeCipherSpec, Finished -> server *)
  to_server R 1%nat (xi y_f2 0). to_server R 1%nat (xi y_f2 1). to_server R 1%nat (xi y_f2 2). to_server R 1%nat (xi y_f2 3).
  to_server R 1%nat (xi y_f2 4).
  eexists. eexists. eexists. split; [exact R|]. split; [cbn; right; left; reflexivity|].
  split; [vm_compute; reflexivity|]. vm_compute. repeat split; reflexivity.
Qed.

(* the ServerKeyExchange must be signed by certificate 0's key (requirement (iii) of 1): the holder of the ENCRYPTION
   certificate's key - which in the GM dual-certificate PKI is escrowed - signing the right randoms and the right
   encryption certificate is refused *)
Example C08_skx_signed_with_the_encryption_key_rejected :
  is_error (ex_attack [ex_sig; ex_enc] [IHs (MServerKeyExchange true TNil (TSig 102 (ex_payload (TRand 11) (TRand 21) ex_enc)))]) = true.
Proof. vm_compute. reflexivity. Qed.
