(* C05 - SM4 block encryption is the GM/T 0002 permutation and decryption is its inverse.
   Property theorems only: each is closed by lemmas of SM4/SM4Proofs.v and followed by Print Assumptions.
   Specification: SM4/SM4Spec.v (transcribed from GM/T 0002-2012, validated by the standard's example);
   model: SM4/SM4Model.v (follows /repo/sm4/sm4.go function by function over the tables the translator
   regenerates from the source into Gen/SM4Tables.v). *)
From Coq Require Import List NArith Arith Bool Lia.
From GmsmVerif Require Import Lib.Outcome Gen.SM4Tables Gen.SM4Consts SM4.SM4Spec SM4.SM4Model SM4.SM4Proofs SM4.SM4ConstsBlock.
Import ListNotations.
Open Scope N_scope.

(* ---- 1. the tables in the source are the standard's --------------------------------------------- *)
(* the S-box of the source is the S-box of the standard, and it is a permutation of 0..255 *)
Theorem C05_sbox_is_standard :
  gen_sbox = Sbox /\
  (forall b, sbox b < 256) /\
  (forall a b, a < 256 -> b < 256 -> sbox a = sbox b -> a = b) /\
  (forall y, y < 256 -> exists x, x < 256 /\ sbox x = y).
Proof.
  split; [exact gen_sbox_is_Sbox|]. split; [exact sbox_lt|]. split.
  - intros a b Ha Hb E. rewrite <- (sbox_inv_sbox a Ha), <- (sbox_inv_sbox b Hb), E. reflexivity.
  - intros y Hy. destruct (sbox_sbox_inv y Hy) as [E Hlt]. exists (sbox_inv y). split; assumption.
Qed.
Print Assumptions C05_sbox_is_standard.

(* sbox_k[b] = L(Sbox(b) << 8k): table k serves byte lane k (counted from the least significant byte),
   which is how cryptBlock indexes them: sbox0[x&0xff], sbox1[(x>>8)&0xff], sbox2[(x>>16)&0xff], sbox3[x>>24] *)
Theorem C05_ttables_correct : forall b, b < 256 ->
  nth (N.to_nat b) gen_sbox0 0 = L (sbox b) /\
  nth (N.to_nat b) gen_sbox1 0 = L (N.shiftl (sbox b) 8) /\
  nth (N.to_nat b) gen_sbox2 0 = L (N.shiftl (sbox b) 16) /\
  nth (N.to_nat b) gen_sbox3 0 = L (N.shiftl (sbox b) 24).
Proof. exact ttables. Qed.
Print Assumptions C05_ttables_correct.

(* CK_i = (ck_i0, ck_i1, ck_i2, ck_i3) with ck_ij = (4i+j)*7 mod 256 *)
Theorem C05_ck_formula :
  length gen_ck = 32%nat /\
  forall i, (i < 32)%nat ->
    nth i gen_ck 0 = word_of_bytes (((4 * N.of_nat i + 0) * 7) mod 256) (((4 * N.of_nat i + 1) * 7) mod 256)
                                   (((4 * N.of_nat i + 2) * 7) mod 256) (((4 * N.of_nat i + 3) * 7) mod 256).
Proof.
  split; [reflexivity|]. intros i Hi.
  do 32 (destruct i as [|i]; [vm_compute; reflexivity|]). lia.
Qed.
Print Assumptions C05_ck_formula.

Theorem C05_fk_is_standard : gen_fk = [0xa3b1bac6; 0x56aa3350; 0x677d9197; 0xb27022dc] /\ gen_BlockSize = 16.
Proof. split; [exact gen_fk_is_FK|exact gen_BlockSize_is_16]. Qed.
Print Assumptions C05_fk_is_standard.

(* ---- 2. the T-table round function is the standard's T = L . tau, for every word --------------------- *)
Theorem C05_round_ttable_is_spec : forall x, tt x = L (tau x).
Proof. exact tt_is_T. Qed.
Print Assumptions C05_round_ttable_is_spec.

(* ---- 3. key schedule, encryption and decryption of the code are the standard's ------------------------ *)
Theorem C05_keyschedule_model_is_spec : forall key,
  length key = 16%nat -> bytes_ok key = true ->
  generateSubKeys key = Ok (sm4_round_keys key) /\
  NewCipher key = Ok (mkCipher (sm4_round_keys key)).
Proof. intros key Hl Hb. split; [apply generateSubKeys_spec|apply NewCipher_spec]; assumption. Qed.
Print Assumptions C05_keyschedule_model_is_spec.

Theorem C05_encrypt_model_is_spec : forall key dst src,
  length key = 16%nat -> bytes_ok key = true ->
  length src = 16%nat -> bytes_ok src = true -> length dst = 16%nat ->
  (do c <- NewCipher key; Encrypt c dst src) = Ok (mkCipher (sm4_round_keys key), sm4_encrypt_block key src).
Proof.
  intros key dst src Hk Hkb Hs Hsb Hd. rewrite NewCipher_spec by assumption. cbn [obind].
  apply Encrypt_spec; [exact Hd|split; assumption].
Qed.
Print Assumptions C05_encrypt_model_is_spec.

Theorem C05_decrypt_model_is_spec : forall key dst src,
  length key = 16%nat -> bytes_ok key = true ->
  length src = 16%nat -> bytes_ok src = true -> length dst = 16%nat ->
  (do c <- NewCipher key; Decrypt c dst src) = Ok (mkCipher (sm4_round_keys key), sm4_decrypt_block key src).
Proof.
  intros key dst src Hk Hkb Hs Hsb Hd. rewrite NewCipher_spec by assumption. cbn [obind].
  apply Decrypt_spec; [exact Hd|split; assumption].
Qed.
Print Assumptions C05_decrypt_model_is_spec.

(* ---- 4. decryption inverts encryption (and conversely), for all keys and blocks ------------------------ *)
(* the Feistel argument: for ANY round function and ANY list of round keys *)
Theorem C05_feistel_inverse : forall (f : N -> N) (rks : list N) (s : state),
  R (fold_left (round f) (rev rks) (R (fold_left (round f) rks s))) = s.
Proof. exact feistel_inverse. Qed.
Print Assumptions C05_feistel_inverse.

Theorem C05_decrypt_encrypt : forall key blk,
  length blk = 16%nat -> bytes_ok blk = true ->
  sm4_decrypt_block key (sm4_encrypt_block key blk) = blk.
Proof. intros key blk. apply decrypt_encrypt_rk. Qed.
Print Assumptions C05_decrypt_encrypt.

Theorem C05_encrypt_decrypt : forall key blk,
  length blk = 16%nat -> bytes_ok blk = true ->
  sm4_encrypt_block key (sm4_decrypt_block key blk) = blk.
Proof. intros key blk. apply encrypt_decrypt_rk. Qed.
Print Assumptions C05_encrypt_decrypt.

(* ... and the code's Decrypt returns the original block of the code's Encrypt *)
Theorem C05_model_decrypt_encrypt : forall key blk,
  length key = 16%nat -> bytes_ok key = true -> length blk = 16%nat -> bytes_ok blk = true ->
  (do c <- NewCipher key; do '(c1, ct) <- Encrypt c zero_r blk; do '(c2, pt) <- Decrypt c1 zero_r ct; Ok pt) = Ok blk.
Proof.
  intros key blk Hk Hkb Hl Hb. rewrite NewCipher_spec by assumption. cbn [obind].
  rewrite Encrypt_spec by (try reflexivity; split; assumption). cbn [obind].
  rewrite Decrypt_spec.
  - cbn [obind]. f_equal. apply decrypt_encrypt_rk; assumption.
  - reflexivity.
  - unfold sm4_encrypt_block, sm4_encrypt_rk. apply bytes_of_state_block16.
Qed.
Print Assumptions C05_model_decrypt_encrypt.

(* ---- 5. the result does not depend on what the object processed before -------------------------------- *)
(* any history of Encrypt / Decrypt calls on one object: each result is the specification's.
   NOTE (audit B-sm4b): given C05_encrypt/decrypt_model_is_spec this is close to definitional - the model's
   Encrypt/Decrypt return the object unchanged, because in sm4.go they write no field of Sm4Cipher (the scratch
   is per call: "var b [4]uint32; var r [BlockSize]byte").  That "no field is written" is a modelling claim, tied
   by the H and N differential cases (histories on one object) and shown to matter by seeded C05-2 / C05-5. *)
Theorem C05_stateless : forall key (ops : list (bool * list N)),
  length key = 16%nat -> bytes_ok key = true ->
  Forall (fun op => length (snd op) = 16%nat /\ bytes_ok (snd op) = true) ops ->
  (do c <- NewCipher key; run_history c ops) =
    Ok (map (fun op : bool * list N => if fst op then sm4_decrypt_block key (snd op) else sm4_encrypt_block key (snd op)) ops).
Proof.
  intros key ops Hk Hkb Hops. rewrite NewCipher_spec by assumption. cbn [obind].
  apply run_history_spec. exact Hops.
Qed.
Print Assumptions C05_stateless.

(* the scratch buffers cryptBlock is handed do not influence what it stores in dst *)
Theorem C05_scratch_irrelevant : forall sk b1 r1 b2 r2 dst src d,
  length sk = 32%nat -> length r1 = 16%nat -> length r2 = 16%nat -> length dst = 16%nat ->
  length src = 16%nat -> bytes_ok src = true ->
  cryptBlock sk b1 r1 dst src d = cryptBlock sk b2 r2 dst src d.
Proof.
  intros. rewrite !cryptBlock_spec by (try assumption; split; assumption). reflexivity.
Qed.
Print Assumptions C05_scratch_irrelevant.

(* ---- 6. dst and src inside one memory, overlapping in any way (dst == src included) -------------------- *)
(* NOTE (audit B-sm4b): crypt_mem reads all of src before it writes dst BY CONSTRUCTION (as cryptBlock does:
   permuteInitialBlock first, copy(dst, r) last); the theorem's content is the value and the frame (bytes outside
   dst unchanged).  The read-before-write order itself is a modelling claim tied by the A differential cases. *)
Theorem C05_alias_safe : forall key mem doff soff d,
  length key = 16%nat -> bytes_ok key = true -> bytes_ok mem = true ->
  (soff + 16 <= length mem)%nat -> (doff + 16 <= length mem)%nat ->
  (do c <- NewCipher key; crypt_mem c mem doff soff d) =
    Ok (firstn doff mem ++
        (if d then sm4_decrypt_block key (firstn 16 (skipn soff mem))
         else sm4_encrypt_block key (firstn 16 (skipn soff mem))) ++
        skipn (doff + 16) mem).
Proof.
  intros key mem doff soff d Hk Hkb Hm Hs Hd. rewrite NewCipher_spec by assumption. cbn [obind].
  rewrite crypt_mem_spec by assumption. reflexivity.
Qed.
Print Assumptions C05_alias_safe.

(* ---- 7. keys of any other length are rejected with an error (and only those) ---------------------------- *)
Theorem C05_newcipher_rejects : forall key,
  ((exists e, NewCipher key = Err e) <-> length key <> 16%nat) /\
  (length key = 16%nat -> exists c, NewCipher key = Ok c).
Proof. intros key. split; [apply NewCipher_err_iff|apply NewCipher_total]. Qed.
Print Assumptions C05_newcipher_rejects.

(* ---- 8. what a caller of sm4.NewCipher gets, as a pair of total functions ------------------------------------------ *)
Theorem C05_go_cipher_is_sm4 : forall key blk,
  length key = 16%nat -> bytes_ok key = true -> length blk = 16%nat -> bytes_ok blk = true ->
  go_encrypt key blk = sm4_encrypt_block key blk /\ go_decrypt key blk = sm4_decrypt_block key blk.
Proof. intros key blk H1 H2 H3 H4. apply go_cipher_is_spec; split; assumption. Qed.
Print Assumptions C05_go_cipher_is_sm4.

(* ---- 9. the constants the model hard-codes are the constants of the source (Gen/SM4Consts.v) ------------------------ *)
(* rotation amounts of rl / l0, shifts and masks of p, BlockSize in NewCipher: each model function is definitionally
   the function with the source's literal at the stated position.  cryptBlock, generateSubKeys and the helpers
   inlined into them carry no positional fingerprint any more: they are tied semantically (theorem 10,
   C05_generated_code_is_model), so a behaviour-preserving refactoring of them does not touch this theorem. *)
Theorem C05_source_constants :
  (forall x i, rl x i = N.lor (u32 (N.shiftl x (i mod lit gen_lits_rl 0))) (N.shiftr x (lit gen_lits_rl 1 - i mod lit gen_lits_rl 2))) /\
  (forall b, l0 b = N.lxor (N.lxor b (rl b (lit gen_lits_l0 0))) (rl b (lit gen_lits_l0 1))) /\
  gen_lits_l0 = [13; 23] /\ gen_lits_rl = [32; 32; 32] /\
  gen_lits_p = [24; 24; 16; 255; 16; 8; 255; 8; 255] /\
  gen_BlockSize = lit gen_lits_NewCipher 0.
Proof.
  split; [exact rl_at_source|]. split; [exact l0_at_source|]. repeat split; reflexivity.
Qed.
Print Assumptions C05_source_constants.

(* ---- 10. the model is the code: cryptBlock and generateSubKeys regenerated from sm4/sm4.go ------------------------ *)
(* Gen/SM4Code.v is written by the translator from the bodies of cryptBlock (once per value of `decrypt`) and
   generateSubKeys: loops unrolled, rl/l0/p/feistel0/permute*Block (and any other pure helper) inlined, uint32 wrap,
   shifts and masks as explicit arithmetic, table lookups as nth into the regenerated tables.  For all inputs of the
   lengths the callers pass (32 round keys, 16-byte src, r and dst) the generated functions return what the hand-written
   model returns - all three results of cryptBlock (b, r, dst) - and hence, for byte inputs, the standard's round keys,
   encryption and decryption.  Proofs: SM4/SM4CodeTie.v (by the meaning of the statements, insensitive to the grouping
   of the xors of a round). *)
From GmsmVerif Require Import Gen.SM4Code SM4.SM4CodeTie.

Theorem C05_generated_code_is_model :
  (forall decrypt sk src b_in r_in dst,
     length sk = 32%nat -> length src = 16%nat -> length r_in = 16%nat -> length dst = 16%nat ->
     exists o, gen_cryptBlock_list decrypt sk src = Some o /\ cryptBlock sk b_in r_in dst src decrypt = Ok o) /\
  (forall key, length key = 16%nat ->
     exists sk, gen_generateSubKeys_list key = Some sk /\ generateSubKeys key = Ok sk /\ length sk = 32%nat) /\
  (forall key src,
     length key = 16%nat -> bytes_ok key = true -> length src = 16%nat -> bytes_ok src = true ->
     gen_generateSubKeys_list key = Some (sm4_round_keys key) /\
     (exists b r, gen_cryptBlock_list false (sm4_round_keys key) src = Some (b, r, sm4_encrypt_block key src)) /\
     (exists b r, gen_cryptBlock_list true (sm4_round_keys key) src = Some (b, r, sm4_decrypt_block key src))).
Proof.
  split; [exact gen_cryptBlock_list_is_model|]. split; [exact gen_generateSubKeys_list_is_model|exact gen_code_is_spec].
Qed.
Print Assumptions C05_generated_code_is_model.

(* non-vacuity of theorem 10: the generated code itself evaluated on Annex A.1 *)
Example C05_example_generated_code :
  (match gen_generateSubKeys_list A1_key with
   | Some sk => match gen_cryptBlock_list false sk A1_key with Some (_, _, ct) => ct | None => [] end
   | None => [] end) = A1_cipher /\
  (match gen_generateSubKeys_list A1_key with
   | Some sk => match gen_cryptBlock_list true sk A1_cipher with Some (_, _, pt) => pt | None => [] end
   | None => [] end) = A1_key.
Proof. exact gen_code_standard_vector. Qed.

(* ---- non-vacuity: the hypotheses are satisfiable, instances evaluated ---------------------------------- *)
Example C05_example_standard_vector :
  length A1_key = 16%nat /\ bytes_ok A1_key = true /\
  (do c <- NewCipher A1_key; do '(_, ct) <- Encrypt c zero_r A1_key; Ok ct) = Ok A1_cipher /\
  (do c <- NewCipher A1_key; do '(_, pt) <- Decrypt c zero_r A1_cipher; Ok pt) = Ok A1_key.
Proof. vm_compute. repeat split; reflexivity. Qed.

Example C05_example_history_and_alias :
  (do c <- NewCipher A1_key; run_history c [(false, A1_key); (true, A1_cipher); (false, A1_key)])
    = Ok [A1_cipher; A1_key; A1_cipher] /\
  (do c <- NewCipher A1_key; crypt_mem c (A1_key ++ [7; 7]) 0 0 false) = Ok (A1_cipher ++ [7; 7]) /\
  (do c <- NewCipher A1_key; crypt_mem c (A1_cipher ++ [1; 2; 3]) 2 0 true)
    = Ok ([0x68; 0x1e] ++ A1_key ++ [3]).
Proof. vm_compute. repeat split; reflexivity. Qed.

Example C05_example_newcipher :
  NewCipher [] = Err 1 /\ NewCipher (A1_key ++ [0]) = Err 1 /\ NewCipher (firstn 15 A1_key) = Err 1 /\
  is_ok (NewCipher A1_key) = true /\ tt 0 = L (tau 0) /\ nth 0 gen_sbox0 0 = 0xd55b5b8e.
Proof. vm_compute. repeat split; reflexivity. Qed.
