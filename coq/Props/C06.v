(* C06 - GMSSL/TLS handshakes agree on parameters and keys (and then carry data intact).
   Property theorems only.  Models: Agree/AgreeModel.v (client and server endpoint models over an abstract
   message alphabet with symbolic terms, faithful channel), Agree/KeyModel.v (PRF, key block, establishKeys);
   specification: Agree/AgreeSpec.v (policy_allows, the configuration product), P_hash in Agree/KeyModel.v.
   Suite tables and constants: Gen/TLSSuites.v, regenerated from /repo on every run.
   The data-transfer clause is proved over Agree/DataModel.v (Conn.Write / writeRecordLocked / Conn.Read) relative
   to the per-record round trip of the record protection (premise open (seal p) = p, C07's subject), and
   checked on real connections by the driver. *)
From Coq Require Import String.
From Coq Require Import List NArith Arith Bool Lia.
From GmsmVerif Require Import Lib.Outcome Gen.TLSSuites Resume.ResumeModel
  Agree.AgreeModel Agree.AgreeSpec Agree.KeyModel Agree.AgreeProofs Agree.AgreeSweep
  Agree.DataModel Agree.DataProofs SM3.HMACSpec Agree.WireSpec Agree.PrfSM3 Rec.RecordModel Agree.ConstTie.
Import ListNotations.
Close Scope N_scope.
Close Scope string_scope.

(* 1. For every configuration of the product
        server mode {GMSSL, auto, TLS} x client kind {GM, TLS 1.0, 1.1, 1.2} x 11 client suite lists x 7 server
        suite lists (drawn from the generated tables: nil, single suites, both orders, ECDHE-SM2, ECDSA-only,
        TLS 1.2-only, mixed) x server preference x ClientAuth (5) x client certificate {none, trusted, forged
        issuer} x certificates {static, callbacks} x tickets {on, off} x ClientCAs {holds the CAs, empty}
                                                                                              (221 760 in all)
      running the client model against the server model over a faithful channel either completes on both
      sides - with the same version, suite, master-secret term, exported-keying-material term, key-block
      term, and each side reporting the other's certificates - or fails on both sides; it completes exactly
      when policy_allows.  No run blocks, none completes on one side only.  Each side derives master secret,
      exporter and key block from its OWN hello random and the one it RECEIVED in the peer's hello (the randoms
      travel in GClientHello / GServerHello), so the equality of the terms is a consequence of the exchange.
      Limits of this theorem (see docs/asbuilt/C06.md): the endpoint models have no panic outcome - "rather
      than crashing" is only checked on the real code; that they follow the Go control flow is tied by the
      differential run; the callbacks dimension only matters through server_certs (three of its six cells).  When it completes, a second and a
      third connection from the same client session cache (connection model of Resume/ResumeModel.v) complete
      with the same version, suite and peer identities - with tickets on as resumptions carrying the first
      connection's master secret, with tickets off as full handshakes (reconnect_ok).  The negotiated suite is
      expected_suite: see C06_suite_preference. *)
Theorem C06_honest_run_agrees :
  forall a, in_product a ->
    match honest_run a with
    | (Done rc, Done rs) =>
      policy_allows a = true
      /\ res_vers rc = res_vers rs /\ res_suite rc = res_suite rs
      /\ res_ms rc = res_ms rs /\ res_ekm rc = res_ekm rs /\ res_keys rc = res_keys rs
      /\ res_peer rc = expected_server_certs a /\ res_peer rs = expected_client_certs a
      /\ reconnect_ok a rc = true
      /\ expected_suite a = Some (res_suite rc)
    | (Errored, Errored) => policy_allows a = false
    | _ => False
    end.
Proof. intros a H. exact (agree_check_sound a (sweep_forall agree_check sweep_agree_check a H)). Qed.
Print Assumptions C06_honest_run_agrees.

(* ... where expected_suite is the first entry of the preferring side's list - the server's configured (or
   default) list under PreferServerCipherSuites, otherwise the client's - that the other side lists as well
   and that both can run (family table, no ECDHE-SM2, RSA server certificate, TLS 1.2-only suites at 1.2) *)
Theorem C06_suite_preference :
  forall a s,
    expected_suite a = Some s <->
    exists before after,
      pref_list a = before ++ s :: after
      /\ acceptable a s = true
      /\ Forall (fun x => acceptable a x = false) before.
Proof. intros a s. unfold expected_suite. apply find_first. Qed.
Print Assumptions C06_suite_preference.

(* 2. Key block: for ALL lengths macLen, keyLen, ivLen - in particular those of every row of the two generated
   suite tables, which is all keysFromMasterSecret is ever called with - the PRF output is cut as
   clientMAC | serverMAC | clientKey | serverKey | clientIV | serverIV ... *)
Theorem C06_key_block_layout :
  forall km m k i,
    length km = 2 * m + 2 * k + 2 * i ->
    let '(cm, sm, ck, sk, ci, si) := key_slices km m k i in
    km = cm ++ sm ++ ck ++ sk ++ ci ++ si
    /\ length cm = m /\ length sm = m /\ length ck = k /\ length sk = k /\ length ci = i /\ length si = i.
Proof. exact key_slices_layout. Qed.
Print Assumptions C06_key_block_layout.

(* ... and the client writes with what the server reads with, and vice versa (immediate from the two
   establishKeys models: it records that they were transcribed mirror-wise, nothing deeper) *)
Theorem C06_keys_mirrored :
  forall s, ck_out (establishKeys_client s) = ck_in (establishKeys_server s)
            /\ ck_in (establishKeys_client s) = ck_out (establishKeys_server s).
Proof. exact establishKeys_mirrored. Qed.
Print Assumptions C06_keys_mirrored.

(* 3. prf12(hash) / pHash is P_hash of RFC 5246 section 5 (GM/T 0024 with SM3), for every secret, label, seed
   and output length; HMAC is any function with a fixed non-zero output length.  No hang: fuel n suffices. *)
Theorem C06_prf_is_p_hash :
  forall (hmac : list N -> list N -> list N) hl, 1 <= hl -> (forall k m, length (hmac k m) = hl) ->
  forall fuel n secret label seed, n <= fuel ->
    prf12 hmac fuel n secret label seed = Ok (PRF_spec hmac n secret label seed)
    /\ length (PRF_spec hmac n secret label seed) = n.
Proof.
  intros hmac hl Hpos Hlen fuel n secret label seed Hf. unfold prf12, PRF_spec. split.
  - exact (pHash_is_P_hash hmac hl Hpos Hlen fuel n secret (label ++ seed) Hf).
  - exact (P_hash_length hmac hl Hpos Hlen n secret (label ++ seed)).
Qed.
Print Assumptions C06_prf_is_p_hash.

(* ... in particular for GMSSL: the model of prf12(sm3.New) is P_SM3 over the HMAC-SM3 specification *)
Theorem C06_prf_sm3_is_p_hash :
  forall fuel n secret label seed, n <= fuel ->
    prf12 hmac_sm3 fuel n secret label seed = Ok (PRF_spec hmac_sm3 n secret label seed).
Proof. exact prf12_sm3_is_P_SM3. Qed.
Print Assumptions C06_prf_sm3_is_p_hash.

(* the PRF evaluated by the independent decoder (Agree/WireSpec.v) is that specification *)
Theorem C06_decoder_prf_is_spec :
  forall n secret label seed, gm_prf n secret label seed = PRF_spec hmac_sm3 n secret label seed.
Proof. exact gm_prf_is_spec. Qed.
Print Assumptions C06_decoder_prf_is_spec.

(* 3b. Exported keying material (RFC 5705 section 4; GM/T 0024 with P_SM3).  The model of ekmFromMasterSecret
   takes the context as the Go slice it is: absent (nil, None) or a possibly EMPTY byte string (Some c).  For
   every unreserved label, every context shorter than 2^16 and every length: it is
   PRF(master_secret, label, client_random + server_random)                                  without a context,
   PRF(master_secret, label, client_random + server_random + uint16(len context) + context)  with one (the empty
   one included: its two zero length bytes are part of the seed); reserved labels and over-long contexts are
   refused.  Both ends evaluate the same function of (master secret, randoms), so they export the same bytes. *)
Theorem C06_ekm_is_rfc5705 :
  forall (hmac : list N -> list N -> list N) hl, 1 <= hl -> (forall k m, length (hmac k m) = hl) ->
  forall fuel n ms cr sr label context, n <= fuel ->
    (reserved_label label = false -> context_too_long context = false ->
       ekmFromMasterSecret_bytes hmac fuel ms cr sr label context n = Ok (EKM_spec hmac n ms cr sr label context)
       /\ length (EKM_spec hmac n ms cr sr label context) = n)
    /\ (reserved_label label = true -> ekmFromMasterSecret_bytes hmac fuel ms cr sr label context n = Err 1)
    /\ (reserved_label label = false -> context_too_long context = true ->
         ekmFromMasterSecret_bytes hmac fuel ms cr sr label context n = Err 2).
Proof.
  intros hmac hl Hpos Hlen fuel n ms cr sr label context Hf. split; [|exact (ekm_refusals hmac fuel n ms cr sr label context)].
  intros Hr Hc. split.
  - exact (ekm_is_spec hmac hl Hpos Hlen fuel n ms cr sr label context Hf Hr Hc).
  - unfold EKM_spec, PRF_spec. destruct context; apply (P_hash_length hmac hl Hpos Hlen).
Qed.
Print Assumptions C06_ekm_is_rfc5705.

(* the PRF seed determines the context: an absent context, the empty context and any two different contexts
   give different seeds (the seed of the empty context is two bytes longer than that of the absent one) *)
Theorem C06_ekm_context_in_seed :
  (forall cr sr c1 c2, ekm_seed cr sr c1 = ekm_seed cr sr c2 -> c1 = c2)
  /\ (forall cr sr, ekm_seed cr sr None = cr ++ sr)
  /\ (forall cr sr, ekm_seed cr sr (Some []) = cr ++ sr ++ [0%N; 0%N]).
Proof.
  split; [exact ekm_seed_injective|]. split; intros cr sr; unfold ekm_seed; cbn.
  - rewrite app_nil_r. reflexivity.
  - reflexivity.
Qed.
Print Assumptions C06_ekm_context_in_seed.

(* the exporter evaluated by the extracted runner for GMSSL connections is that specification over HMAC-SM3 *)
Theorem C06_runner_ekm_is_spec :
  forall n ms cr sr label context, reserved_label label = false -> context_too_long context = false ->
    gm_ekm n ms cr sr label context = Some (EKM_spec hmac_sm3 n ms cr sr label context).
Proof. exact gm_ekm_is_spec. Qed.
Print Assumptions C06_runner_ekm_is_spec.

(* 4. Application data: for every sequence of Write calls (any sizes, including empty ones), whatever decides
   the 1/n-1 split (in particular write_splits, the source's condition: C06_split_condition), every record-size schedule between 1 and maxPlaintext (dynamic record sizing), every
   starting sequence number and every list of Read buffer sizes >= 1: nothing panics or hangs, every
   fragment is non-empty and at most maxPlaintext long, what the reader has received is a prefix of what
   was written, and it is all of it once enough reads were made.  Premise: a record sealed under a sequence
   number opens under the same number (the record layer, C07). *)
Theorem C06_app_data_in_order :
  forall (seal : N -> list N -> list N) (open : N -> list N -> option (list N)),
    (forall s p, open s (seal s p) = Some p) ->
  forall split bound writes bufs seq,
    (forall i, 1 <= bound i <= N.to_nat gen_maxPlaintext) -> Forall (fun L => 1 <= L) bufs ->
    exists frs out rest,
      write_all split bound 0 writes = Ok frs
      /\ Forall (fun f => 1 <= length f <= N.to_nat gen_maxPlaintext) frs
      /\ read_all open (mkRd [] (seal_all seal seq frs) seq) bufs = Ok out
      /\ concat writes = out ++ rest
      /\ (length (concat writes) <= length bufs -> out = concat writes).
Proof.
  intros seal open H split bound writes bufs seq Hb HF.
  exact (app_data_in_order_lemma seal open H (N.to_nat gen_maxPlaintext) split bound writes bufs seq Hb HF).
Qed.
Print Assumptions C06_app_data_in_order.

(* the master secret and the key block are that PRF with the labels and seed orders of the source *)
Theorem C06_key_derivation :
  forall (hmac : list N -> list N -> list N) hl, 1 <= hl -> (forall k m, length (hmac k m) = hl) ->
  forall fuel pms ms cr sr macLen keyLen ivLen,
    48 <= fuel -> 2 * macLen + 2 * keyLen + 2 * ivLen <= fuel ->
    masterFromPreMasterSecret_bytes hmac fuel pms cr sr
      = Ok (PRF_spec hmac 48 pms gen_masterSecretLabel_bytes (cr ++ sr))
    /\ keysFromMasterSecret_model hmac fuel ms cr sr macLen keyLen ivLen
      = Ok (key_slices (PRF_spec hmac (2 * macLen + 2 * keyLen + 2 * ivLen) ms gen_keyExpansionLabel_bytes (sr ++ cr))
                       macLen keyLen ivLen).
Proof.
  intros hmac hl Hpos Hlen fuel pms ms cr sr macLen keyLen ivLen H1 H2. split.
  - unfold masterFromPreMasterSecret_bytes. change (N.to_nat gen_masterSecretLength) with 48.
    apply (C06_prf_is_p_hash hmac hl Hpos Hlen). exact H1.
  - unfold keysFromMasterSecret_model.
    destruct (C06_prf_is_p_hash hmac hl Hpos Hlen fuel (2 * macLen + 2 * keyLen + 2 * ivLen) ms
                gen_keyExpansionLabel_bytes (sr ++ cr) H2) as (E & _).
    rewrite E. reflexivity.
Qed.
Print Assumptions C06_key_derivation.

(* 5. The constants and version tests of the models are the source's (Gen/TLSSuites.v is regenerated from
   /repo on every run, so these are re-proved against the current tree). *)
(* Conn.Write splits off the first byte exactly when len(b) > 1, c.vers <= VersionTLS10 and the cipher is a
   block mode (operators and bounds read from the condition in the source); VersionGMSSL is numerically
   below VersionTLS10, so GMSSL SM4-CBC connections split as well *)
Theorem C06_split_condition :
  forall vers block n,
    write_splits vers block n = ((1 <? N.of_nat n)%N && (vers <=? gen_VersionTLS10)%N && block)%bool
    /\ write_splits gen_VersionGMSSL true n = (1 <? N.of_nat n)%N.
Proof. intros. split; [apply split_condition|apply split_gmssl_cbc]. Qed.
Print Assumptions C06_split_condition.

(* master secret 48 bytes, verify_data 12 bytes, randoms 32 bytes, fragments up to 2^14 bytes, 5-byte record
   header, 4-byte GCM salt, the four PRF labels (as strings and as the byte lists the model feeds to the PRF) *)
Theorem C06_source_constants :
  (gen_masterSecretLength = 48%N /\ gen_finishedVerifyLength = 12%N /\ gen_tlsRandomLength = 32%N
   /\ gen_maxPlaintext = (2 ^ 14)%N /\ gen_recordHeaderLen = 5%N /\ gen_noncePrefixLength = 4%N
   /\ gen_masterSecretLabel = "master secret"%string /\ gen_keyExpansionLabel = "key expansion"%string
   /\ gen_clientFinishedLabel = "client finished"%string /\ gen_serverFinishedLabel = "server finished"%string
   /\ gen_VersionGMSSL = 0x0101%N)
  /\ (gen_masterSecretLabel_bytes = ascii_bytes gen_masterSecretLabel
      /\ gen_keyExpansionLabel_bytes = ascii_bytes gen_keyExpansionLabel
      /\ gen_clientFinishedLabel_bytes = ascii_bytes gen_clientFinishedLabel
      /\ gen_serverFinishedLabel_bytes = ascii_bytes gen_serverFinishedLabel).
Proof. split; [exact protocol_constants|exact label_bytes_tie]. Qed.
Print Assumptions C06_source_constants.

(* the record-layer model used by the independent decoder (Rec/RecordModel.v) writes down the same record
   header length, fragment limits, versions, content types and record-sizing constants as the source, and its
   explicit-IV test is the source's (version >= VersionTLS11 or version == VersionGMSSL) *)
Theorem C06_record_constants_tie :
  (N.of_nat RecordModel.recordHeaderLen = gen_recordHeaderLen
   /\ N.of_nat RecordModel.maxPlaintext = gen_maxPlaintext
   /\ N.of_nat RecordModel.maxCiphertext = gen_maxCiphertext
   /\ N.of_nat RecordModel.maxWarnAlertCount = gen_maxWarnAlertCount
   /\ RecordModel.VersionTLS10 = gen_VersionTLS10 /\ RecordModel.VersionTLS11 = gen_VersionTLS11
   /\ RecordModel.VersionGMSSL = gen_VersionGMSSL
   /\ RecordModel.recordTypeChangeCipherSpec = gen_recordTypeChangeCipherSpec
   /\ RecordModel.recordTypeAlert = gen_recordTypeAlert
   /\ RecordModel.recordTypeHandshake = gen_recordTypeHandshake
   /\ RecordModel.recordTypeApplicationData = gen_recordTypeApplicationData
   /\ N.of_nat RecordModel.tcpMSSEstimate = gen_tcpMSSEstimate
   /\ RecordModel.recordSizeBoostThreshold = gen_recordSizeBoostThreshold)
  /\ (forall v, explicit_iv_version v =
                (cmp_op gen_explicitIVVersOp v gen_explicitIVVersBound
                 || cmp_op gen_explicitIVAlsoOp v gen_explicitIVAlsoBound)%bool).
Proof. split; [exact record_constants_tie|exact explicit_iv_condition]. Qed.
Print Assumptions C06_record_constants_tie.

(* Finished: verify_data = the first finishedVerifyLength (12) bytes of PRF(master secret, finished label, hash) *)
Theorem C06_finished_is_prf :
  forall (hmac : list N -> list N -> list N) hl, 1 <= hl -> (forall k m, length (hmac k m) = hl) ->
  forall fuel client ms h, 12 <= fuel ->
    finishedSum_bytes hmac fuel client ms h =
    Ok (PRF_spec hmac 12 ms (if client then gen_clientFinishedLabel_bytes else gen_serverFinishedLabel_bytes) h).
Proof. exact finishedSum_is_prf. Qed.
Print Assumptions C06_finished_is_prf.

(* ---------- non-vacuity ---------------------------------------------------------------------------- *)
Open Scope N_scope.
(* the product contains completing and failing configurations (10 960 of 221 760 are allowed) *)
Example C06_product_size : count (fun _ => true) = 221760 /\ count policy_allows = 10960.
Proof. exact product_size. Qed.

Definition ex_gm_cbc : acfg := mkA SGM CG (Some [0xe013]) None false 4 1 false true true.
Example C06_run_example_gm :
  in_product ex_gm_cbc /\
  match honest_run ex_gm_cbc with
  | (Done rc, Done rs) => res_vers rc = 0x0101 /\ res_suite rc = 0xe013 /\ res_peer rc = [11; 12] /\ res_peer rs = [1]
                          /\ res_ms rc = TPrf (TPms 1) 1 (SRands 1 2)
  | _ => False
  end.
Proof. vm_compute. intuition. Qed.

(* ECDHE-SM2 only: fails on both sides; ECDHE-SM2 listed before ECC: ECC is negotiated *)
Example C06_run_example_ecdhe :
  honest_run (mkA SAuto CG (Some [0xe011; 0xe051]) None false 0 0 true false true) = (Errored, Errored)
  /\ match honest_run (mkA SAuto CG (Some [0xe011; 0xe013]) None false 0 0 true false true) with
     | (Done rc, Done rs) => res_suite rc = 0xe013 /\ res_suite rs = 0xe013
     | _ => False
     end.
Proof. vm_compute. intuition. Qed.

(* TLS 1.2 ECDHE-RSA with the auto-switch server, TLS 1.0 RSA with the TLS server *)
Example C06_run_example_tls :
  match honest_run (mkA SAuto (CT 0x0303) (Some [0xc02f; 0x009c]) None false 1 2 true true true) with
  | (Done rc, Done rs) => res_vers rc = 0x0303 /\ res_suite rc = 0xc02f /\ res_peer rc = [13] /\ res_peer rs = [4]
                          /\ res_ms rs = TPrf (TDh 3 4) 1 (SRands 1 2)
  | _ => False
  end
  /\ match honest_run (mkA STLS (CT 0x0301) None None true 0 0 false false true) with
     | (Done rc, Done rs) => res_vers rc = 0x0301 /\ res_suite rc = res_suite rs
     | _ => False
     end.
Proof. vm_compute. intuition. Qed.

(* fragmentation with a varying bound, the split, and short reads; an identity "protection" meets the premise *)
Example C06_app_data_example :
  let seal := fun (s : N) (p : list N) => s :: p in
  let open := fun (s : N) (r : list N) => match r with x :: p => if N.eqb x s then Some p else None | [] => None end in
  match write_all (write_splits gen_VersionGMSSL true) (fun i => 2 + i)%nat 0 [[1; 2; 3; 4; 5; 6; 7]; []; [8]; [9; 10]] with
  | Ok frs => frs = [[1]; [2; 3; 4]; [5; 6; 7]; [8]; [9]; [10]]
              /\ read_all open (mkRd [] (seal_all seal 5 frs) 5) [2; 1; 1; 9; 1; 1; 1; 1; 1; 4]%nat = Ok [1; 2; 3; 4; 5; 6; 7; 8; 9; 10]
  | _ => False
  end.
Proof. vm_compute. split; reflexivity. Qed.

(* client certificates: verify-if-given rejects the forged issuer and, against an empty ClientCAs pool, the
   CA-issued certificate as well; request-only accepts both; tickets on: the reconnections are resumptions *)
Example C06_run_example_client_auth :
  honest_run (mkA SGM CG None None false 3 2 false true true) = (Errored, Errored)
  /\ honest_run (mkA SGM CG None None false 3 1 false true false) = (Errored, Errored)
  /\ match honest_run (mkA SGM CG None None false 1 1 false true false) with
     | (Done rc, Done rs) => res_peer rs = [1] /\ reconnect_ok (mkA SGM CG None None false 1 1 false true false) rc = true
     | _ => False
     end
  /\ map (@r_cls term_tag) (reconnect_log (mkA SGM CG None None false 1 1 false true false)) = [Full; Resumed; Resumed].
Proof. vm_compute. intuition. Qed.

(* preference: client [GCM; CBC], server [CBC; GCM]: the client's order wins unless the server prefers its own *)
Example C06_preference_example :
  match honest_run (mkA SGM CG (Some [0xe053; 0xe013]) (Some [0xe013; 0xe053]) false 0 0 false false true),
        honest_run (mkA SGM CG (Some [0xe053; 0xe013]) (Some [0xe013; 0xe053]) true 0 0 false false true) with
  | (Done c1, _), (Done c2, _) => res_suite c1 = 0xe053 /\ res_suite c2 = 0xe013
  | _, _ => False
  end.
Proof. vm_compute. intuition. Qed.

Example C06_key_slices_example :
  key_slices [1;2;3;4;5;6;7;8;9;10;11;12] 1 2 3 = ([1], [2], [3;4], [5;6], [7;8;9], [10;11;12]).
Proof. reflexivity. Qed.
